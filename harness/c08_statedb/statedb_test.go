package ong

// Conformance harness for spec/EvmStateDB.tla (C08).  It lives in package ong so that the real
// OngBalanceHandle (balances stored through the CacheDB) is the one under the StateDB.

import (
	"math/big"
	"math/rand"
	"testing"

	ethcomm "github.com/ethereum/go-ethereum/common"
	"github.com/ethereum/go-ethereum/crypto"
	"github.com/ontio/ontology/core/store/leveldbstore"
	"github.com/ontio/ontology/core/store/overlaydb"
	"github.com/ontio/ontology/core/types"
	"github.com/ontio/ontology/smartcontract/storage"
)

type sdAct struct {
	Name string `json:"name"`
	A    string `json:"a"`
	S    string `json:"s"`
	V    int    `json:"v"`
	N    int    `json:"n"`
	C    string `json:"c"`
	D    int    `json:"d"`
	G    int    `json:"g"`
	I    int    `json:"i"`
}

type sdBase struct {
	Slot map[string]map[string]int `json:"slot"`
	Acct map[string]struct {
		Nonce int    `json:"nonce"`
		Code  string `json:"code"`
	} `json:"acct"`
	Bal map[string]int `json:"bal"`
}

type sdPath struct {
	Base  sdBase  `json:"base"`
	Steps []sdAct `json:"steps"`
}

type sdInput struct {
	Addrs []string `json:"addrs"`
	Slots []string `json:"slots"`
	Codes []string `json:"codes"`
	Paths []sdPath `json:"paths"`
	// trace mode
	NTraces int `json:"ntraces"`
	NSteps  int `json:"nsteps"`
	MaxVal  int `json:"maxval"`
	MaxBal  int `json:"maxbal"`
}

func sdAddr(a string) ethcomm.Address {
	var x ethcomm.Address
	for i := range x {
		x[i] = a[len(a)-1]
	}
	x[0] = 0xE0
	return x
}
func sdSlot(s string) ethcomm.Hash {
	var h ethcomm.Hash
	for i := range h {
		h[i] = s[len(s)-1] ^ byte(i)
	}
	return h
}
func sdVal(v int) ethcomm.Hash {
	var h ethcomm.Hash
	h[31] = byte(v)
	h[30] = byte(v >> 8)
	return h
}
func sdCode(c string) []byte { return []byte{0x60, c[len(c)-1], 0x00} }

type sdWorld struct {
	in    *sdInput
	cache *storage.CacheDB
	sd    *storage.StateDB
	snaps []int // revision ids returned by Snapshot, indexed like the model's stack
	store *leveldbstore.LevelDBStore
}

func newSdWorld(in *sdInput, base *sdBase) *sdWorld {
	store := leveldbstore.NewMemLevelDBStore()
	ovl := overlaydb.NewOverlayDB(store)
	cache := storage.NewCacheDB(ovl)
	w := &sdWorld{in: in, cache: cache, store: store}
	w.sd = storage.NewStateDB(cache, ethcomm.Hash{}, ethcomm.Hash{}, OngBalanceHandle{})
	// committed base state: written through a StateDB and published with Commit
	for _, a := range in.Addrs {
		for _, s := range in.Slots {
			if v := base.Slot[a][s]; v != 0 {
				w.sd.SetState(sdAddr(a), sdSlot(s), sdVal(v))
			}
		}
		ac := base.Acct[a]
		if ac.Nonce != 0 {
			w.sd.SetNonce(sdAddr(a), uint64(ac.Nonce))
		}
		if ac.Code != "none" && ac.Code != "" {
			w.sd.SetCode(sdAddr(a), sdCode(ac.Code))
		}
		if b := base.Bal[a]; b != 0 {
			w.sd.AddBalance(sdAddr(a), big.NewInt(int64(b)))
		}
	}
	vhMust(w.sd.Commit())
	w.sd = storage.NewStateDB(cache, ethcomm.Hash{}, ethcomm.Hash{}, OngBalanceHandle{})
	return w
}

func (w *sdWorld) apply(a sdAct) (res string) {
	defer func() {
		if r := recover(); r != nil {
			res = "panic"
		}
	}()
	sd := w.sd
	switch a.Name {
	case "SetState":
		sd.SetState(sdAddr(a.A), sdSlot(a.S), sdVal(a.V))
	case "SetNonce":
		sd.SetNonce(sdAddr(a.A), uint64(a.N))
	case "SetCode":
		sd.SetCode(sdAddr(a.A), sdCode(a.C))
	case "AddBalance":
		sd.AddBalance(sdAddr(a.A), big.NewInt(int64(a.D)))
	case "SubBalance":
		sd.SubBalance(sdAddr(a.A), big.NewInt(int64(a.D)))
	case "AddLog":
		sd.AddLog(&types.StorageLog{Address: sdAddr("a1"), Data: []byte{1}})
	case "AddRefund":
		sd.AddRefund(uint64(a.G))
	case "SubRefund":
		sd.SubRefund(uint64(a.G))
	case "Suicide":
		if sd.Suicide(sdAddr(a.A)) {
			return "true"
		}
		return "false"
	case "Snapshot":
		id := sd.Snapshot()
		w.snaps = append(w.snaps, id)
	case "Revert":
		sd.RevertToSnapshot(w.snaps[a.I])
		w.snaps = w.snaps[:a.I]
	case "Discard":
		sd.DiscardSnapshot(w.snaps[a.I])
		w.snaps = w.snaps[:a.I]
	case "Commit":
		if err := sd.Commit(); err != nil {
			return "err:" + err.Error()
		}
		w.snaps = nil
	default:
		panic("unknown action " + a.Name)
	}
	return "ok"
}

type sdObs struct {
	Path     int                       `json:"path"`
	Step     int                       `json:"step"`
	Res      string                    `json:"res"`
	Slot     map[string]map[string]int `json:"slot"`
	Nonce    map[string]int            `json:"nonce"`
	Code     map[string]string         `json:"code"`
	Bal      map[string]int            `json:"bal"`
	Suicided map[string]bool           `json:"suicided"`
	Exist    map[string]bool           `json:"exist"`
	Empty    map[string]bool           `json:"empty"`
	Logs     int                       `json:"logs"`
	Refund   int                       `json:"refund"`
	Err      string                    `json:"err,omitempty"`
}

func (w *sdWorld) observe(o *sdObs) {
	sd := w.sd
	o.Slot, o.Nonce, o.Code, o.Bal = map[string]map[string]int{}, map[string]int{}, map[string]string{}, map[string]int{}
	o.Suicided, o.Exist, o.Empty = map[string]bool{}, map[string]bool{}, map[string]bool{}
	for _, a := range w.in.Addrs {
		ad := sdAddr(a)
		o.Slot[a] = map[string]int{}
		for _, s := range w.in.Slots {
			h := sd.GetState(ad, sdSlot(s))
			v := int(h[31]) | int(h[30])<<8
			if h != sdVal(v) {
				v = -999
			}
			o.Slot[a][s] = v
		}
		o.Nonce[a] = int(sd.GetNonce(ad))
		code := sd.GetCode(ad)
		ch := sd.GetCodeHash(ad)
		name := "?"
		if (ch == ethcomm.Hash{}) && len(code) == 0 {
			name = "none"
		} else {
			for _, c := range w.in.Codes {
				if string(code) == string(sdCode(c)) && ch == crypto.Keccak256Hash(sdCode(c)) && sd.GetCodeSize(ad) == len(code) {
					name = c
				}
			}
		}
		o.Code[a] = name
		b := sd.GetBalance(ad)
		if b.IsInt64() {
			o.Bal[a] = int(b.Int64())
		} else {
			o.Bal[a] = -999
		}
		o.Suicided[a] = sd.HasSuicided(ad)
		o.Exist[a] = sd.Exist(ad)
		o.Empty[a] = sd.Empty(ad)
	}
	o.Logs = len(sd.GetLogs())
	o.Refund = int(sd.GetRefund())
	if err := sd.DbErr(); err != nil {
		o.Err = err.Error()
	}
}

func TestVerifSdReplay(t *testing.T) {
	var in sdInput
	vhIn(&in)
	out := vhOpenOut()
	defer out.Close()
	for pi := range in.Paths {
		p := &in.Paths[pi]
		w := newSdWorld(&in, &p.Base)
		o := sdObs{Path: pi, Step: 0, Res: "init"}
		w.observe(&o)
		out.Emit(o)
		for si, a := range p.Steps {
			o := sdObs{Path: pi, Step: si + 1}
			o.Res = w.apply(a)
			if o.Res != "panic" {
				w.observe(&o)
			}
			out.Emit(o)
			if o.Res == "panic" {
				break
			}
		}
		w.store.Close()
	}
}

// TestVerifSdTrace: seeded random histories with deep snapshot nesting; one event per action with the
// full observation after the step.
func TestVerifSdTrace(t *testing.T) {
	var in sdInput
	vhIn(&in)
	out := vhOpenOut()
	defer out.Close()
	rng := vhRand()
	out.Emit(map[string]interface{}{"event": "Config", "addrs": in.Addrs, "slots": in.Slots, "codes": in.Codes})
	for tr := 0; tr < in.NTraces; tr++ {
		base := sdBase{Slot: map[string]map[string]int{}, Bal: map[string]int{}}
		base.Acct = map[string]struct {
			Nonce int    `json:"nonce"`
			Code  string `json:"code"`
		}{}
		for _, a := range in.Addrs {
			base.Slot[a] = map[string]int{}
			for _, s := range in.Slots {
				base.Slot[a][s] = rng.Intn(2) * rng.Intn(in.MaxVal+1)
			}
			ac := base.Acct[a]
			ac.Nonce = rng.Intn(3)
			ac.Code = "none"
			if rng.Intn(2) == 0 {
				ac.Code = in.Codes[rng.Intn(len(in.Codes))]
			}
			base.Acct[a] = ac
			base.Bal[a] = rng.Intn(in.MaxBal / 2)
		}
		w := newSdWorld(&in, &base)
		o := sdObs{}
		w.observe(&o)
		out.Emit(map[string]interface{}{"event": "Reset", "base": base, "obs": o})
		for s := 0; s < in.NSteps; s++ {
			a := sdGen(rng, &in, w)
			o := sdObs{}
			o.Res = w.apply(a)
			w.observe(&o)
			out.Emit(map[string]interface{}{"event": a.Name, "a": a.A, "s": a.S, "v": a.V, "n": a.N, "c": a.C, "d": a.D, "g": a.G, "i": a.I,
				"res": o.Res, "obs": o, "nsnaps": len(w.snaps)})
		}
		w.store.Close()
	}
}

func sdGen(rng *rand.Rand, in *sdInput, w *sdWorld) sdAct {
	addr := in.Addrs[rng.Intn(len(in.Addrs))]
	for {
		switch r := rng.Intn(100); {
		case r < 18:
			return sdAct{Name: "SetState", A: addr, S: in.Slots[rng.Intn(len(in.Slots))], V: rng.Intn(in.MaxVal + 1)}
		case r < 26:
			return sdAct{Name: "SetNonce", A: addr, N: rng.Intn(4)}
		case r < 32:
			return sdAct{Name: "SetCode", A: addr, C: in.Codes[rng.Intn(len(in.Codes))]}
		case r < 42:
			d := 1 + rng.Intn(3)
			if int(w.sd.GetBalance(sdAddr(addr)).Int64())+d <= in.MaxBal {
				return sdAct{Name: "AddBalance", A: addr, D: d}
			}
		case r < 50:
			b := int(w.sd.GetBalance(sdAddr(addr)).Int64())
			if b > 0 {
				return sdAct{Name: "SubBalance", A: addr, D: 1 + rng.Intn(b)}
			}
		case r < 55:
			return sdAct{Name: "AddLog"}
		case r < 59:
			return sdAct{Name: "AddRefund", G: 1 + rng.Intn(3)}
		case r < 62:
			if g := int(w.sd.GetRefund()); g > 0 {
				return sdAct{Name: "SubRefund", G: 1 + rng.Intn(g)}
			}
		case r < 67:
			return sdAct{Name: "Suicide", A: addr}
		case r < 80:
			if len(w.snaps) < 6 {
				return sdAct{Name: "Snapshot"}
			}
		case r < 91:
			if len(w.snaps) > 0 {
				return sdAct{Name: "Revert", I: rng.Intn(len(w.snaps))}
			}
		case r < 96:
			if len(w.snaps) > 0 {
				return sdAct{Name: "Discard", I: rng.Intn(len(w.snaps))}
			}
		default:
			return sdAct{Name: "Commit"}
		}
	}
}
