package ledgerstore

// Trace recorder for spec/LedgerQuery_Trace.tla: seeded random histories of Submit (valid and mutated blocks through
// all three delivery paths), PreExec and Restart on a real ledger; one NDJSON event per step with the arguments and
// everything the query interfaces answer afterwards.

import (
	"fmt"
	"math/rand"
	"os"
	"sort"
	"strings"
	"testing"

	"github.com/ontio/ontology/common"
)

type lqTraceIn struct {
	NTraces  int    `json:"ntraces"`
	NSteps   int    `json:"nsteps"`
	MaxTx    int    `json:"maxtx"`
	Mode     string `json:"mode"`     // "mixed" | "long"
	LongN    int    `json:"longn"`    // mode long: number of blocks
	Restarts []int  `json:"restarts"` // mode long: model heights after which the ledger is reopened
	NKeepers int    `json:"nkeepers"`
}

var lqFields = []string{"height", "prev", "ts", "broot", "troot", "body", "sigs", "keepers", "sroot"}
var lqAlts = map[string][]string{"height": {"stale", "skip"}, "prev": {"old", "unknown"}, "ts": {"eq", "lt"}, "broot": {"bad"},
	"troot": {"bad", "badc", "zero", "zeroc"}, "body": {"drop", "alter", "dup", "evmnonce"}, "sigs": {"none", "few", "foreign", "dupsig", "stale"},
	"keepers": {"foreign", "subset"}, "sroot": {"bad"}}

func lqValidMut() map[string]string {
	return map[string]string{"height": "next", "prev": "cur", "ts": "gt", "broot": "ok", "troot": "ok", "body": "ok", "sigs": "ok",
		"keepers": "ok", "sroot": "ok"}
}

func lqMutOf(m map[string]string) *lqMut {
	return &lqMut{Height: m["height"], Prev: m["prev"], Ts: m["ts"], Broot: m["broot"], Troot: m["troot"], Body: m["body"],
		Sigs: m["sigs"], Keepers: m["keepers"], Sroot: m["sroot"]}
}

func lqShapeName(sh lqShape) string {
	if len(sh.Logs) == 0 {
		return fmt.Sprintf("n%d", sh.Ntx)
	}
	var parts []string
	for _, l := range sh.Logs {
		parts = append(parts, l[0]+l[1])
	}
	sort.Strings(parts)
	return "L" + strings.Join(parts, "+")
}

// event converts an observation into the trace event consumed by LedgerQuery_Trace
func lqEvent(name string, o *lqObs, extra map[string]interface{}) map[string]interface{} {
	e := map[string]interface{}{"event": name, "res": o.Res, "changed": o.Changed, "stored": o.Stored, "cur": o.Cur, "curId": o.CurId,
		"blkCur": o.BlkCur, "stCur": o.StCur, "evCur": o.EvCur, "hdrLast": o.HdrLast, "above": o.Above["hashByHeight"],
		"missed": len(o.Missed)}
	if o.Above["blockByHeight"] != "none" {
		e["above"] = o.Above["blockByHeight"]
	}
	nprob := 0
	var views []map[string]interface{}
	for i, v := range o.Views {
		w := map[string]interface{}{"h": v["h"], "id": v["hashByHeight"], "bloom": o.Bloom[i]}
		ids := [][]string{}
		if p, ok := v["problems"]; ok {
			nprob += len(p.([]string))
		}
		bh, ok1 := v["blockByHeight"].([]interface{})
		bb, ok2 := v["blockByHash"].([]interface{})
		hh, ok3 := v["headerByHash"].([]interface{})
		h2, ok4 := v["headerByHeight"].([]interface{})
		if !(ok1 && ok2 && ok3 && ok4) {
			nprob++
			w["hdrHeight"], w["body"], w["txh"] = -1, []interface{}{}, []interface{}{}
			views = append(views, w)
			continue
		}
		ids = append(ids, bh[0].([]string), bb[0].([]string), hh[0].([]string), h2[0].([]string))
		for _, id := range ids {
			if strings.Join(id, ".") != strings.Join(v["hashByHeight"].([]string), ".") {
				nprob++
			}
		}
		w["hdrHeight"] = hh[1]
		if hh[1] != bb[2] || hh[1] != h2[1] {
			nprob++
		}
		w["body"] = bb[1]
		if fmt.Sprint(bb[1]) != fmt.Sprint(bh[1]) {
			nprob++
		}
		txh := []interface{}{}
		for k, t := range v["txs"].([]interface{}) {
			pair := t.([]interface{})
			txh = append(txh, pair[1])
			body := bb[1].([]interface{})
			if k >= len(body) || fmt.Sprint(pair[0]) != fmt.Sprint(body[k]) {
				nprob++
			}
		}
		w["txh"] = txh
		views = append(views, w)
	}
	e["views"] = views
	e["problems"] = nprob
	for k, v := range extra {
		e[k] = v
	}
	return e
}

func TestVerifLQTrace(t *testing.T) {
	var tin lqTraceIn
	vhIn(&tin)
	out := vhOpenOut()
	defer out.Close()
	in := &lqInput{Shapes: map[string]lqShape{}, NKeepers: tin.NKeepers}
	r := newLqRun(in)
	defer os.RemoveAll(lqLedgerBase())
	rng := vhRand()
	bits := map[string][]int{}
	for i := 1; i <= 3; i++ {
		bits[fmt.Sprintf("a%d", i)] = lqItemBits(r.loggers[fmt.Sprintf("a%d", i)].Bytes())
		bits[fmt.Sprintf("t%d", i)] = lqItemBits(vlTopic(i).Bytes())
	}
	firstFresh := rng.Intn(2) == 0
	out.Emit(map[string]interface{}{"event": "Header", "bits": bits, "W": int(HEADER_INDEX_MAX_SIZE), "S": int(BloomBitsBlocks), "fresh": firstFresh,
		"seed": vhSeed()})
	for tr := 0; tr < tin.NTraces; tr++ {
		fresh := rng.Intn(2) == 0
		if tr == 0 {
			fresh = firstFresh
		}
		r.start(fresh)
		if tr > 0 {
			out.Emit(map[string]interface{}{"event": "Reset", "fresh": fresh})
		}
		if tin.Mode == "long" || tin.Mode == "window" {
			lqLongTrace(r, &tin, rng, out)
		} else {
			lqMixedTrace(r, &tin, rng, out)
		}
		r.stop()
	}
}

func lqRandShape(r *lqRun, rng *rand.Rand, maxtx int) lqShape {
	var sh lqShape
	if rng.Intn(3) == 0 {
		k := 1 + rng.Intn(3)
		seen := map[string]bool{}
		for len(sh.Logs) < k {
			l := [2]string{fmt.Sprintf("a%d", 1+rng.Intn(3)), fmt.Sprintf("t%d", 1+rng.Intn(3))}
			if !seen[l[0]+l[1]] {
				seen[l[0]+l[1]] = true
				sh.Logs = append(sh.Logs, l)
			}
		}
		sh.Ntx = k
	} else {
		sh.Ntx = rng.Intn(maxtx + 1)
		sh.Logs = [][2]string{}
	}
	r.in.Shapes[lqShapeName(sh)] = sh
	return sh
}

func lqShapeJSON(sh lqShape) map[string]interface{} {
	logs := [][]string{}
	for _, l := range sh.Logs {
		logs = append(logs, []string{l[0], l[1]})
	}
	return map[string]interface{}{"name": lqShapeName(sh), "ntx": sh.Ntx, "logs": logs}
}

func lqMixedTrace(r *lqRun, tin *lqTraceIn, rng *rand.Rand, out *vhOut) {
	paths := []string{"wire", "mem", "exec"}
	kinds := []string{"native-transfer", "native-transfer-fail", "neovm-deploy", "neovm-storage-put", "neovm-badscript", "evm-transfer", "evm-transfer-free",
		"evm-create", "evm-call-log", "evm-msg-call", "evm-msg-create", "batch-atomic", "batch-plain"}
	for s := 0; s < tin.NSteps && r.ls != nil; s++ {
		o := &lqObs{}
		x := rng.Intn(100)
		switch {
		case x < 80:
			sh := lqRandShape(r, rng, tin.MaxTx)
			m := lqValidMut()
			path := paths[rng.Intn(3)]
			if x >= 55 { // one or two mutated fields
				for k := 0; k < 1+rng.Intn(2); k++ {
					f := lqFields[rng.Intn(len(lqFields))]
					m[f] = lqAlts[f][rng.Intn(len(lqAlts[f]))]
				}
				if m["body"] != "ok" && sh.Ntx == 0 {
					m["body"] = "ok"
				}
				if (m["troot"] == "zero" || m["troot"] == "zeroc") && sh.Ntx == 0 {
					m["troot"] = "ok"
				}
				if m["prev"] == "old" && len(r.names) == 0 {
					m["prev"] = "unknown"
				}
				if (m["body"] != "ok" && m["body"] != "evmnonce") || m["troot"] == "badc" || m["troot"] == "zeroc" {
					path = "wire" // the body/root mismatch is the recorded deviation of the other two paths
				}
			}
			if path == "exec" {
				m["sroot"] = "ok"
			}
			a := &lqAct{Name: "Submit", Path: path, Shape: lqShapeName(sh), Mut: lqMutOf(m)}
			r.step(a, o, false)
			out.Emit(lqEvent("Submit", o, map[string]interface{}{"path": path, "shape": lqShapeJSON(sh), "mut": m, "reason": o.Reason}))
		case x < 84 && int(r.ls.GetCurrentHeaderHeight()) == int(r.ls.GetCurrentBlockHeight()):
			sh := lqRandShape(r, rng, tin.MaxTx)
			r.step(&lqAct{Name: "SyncHeader", Shape: lqShapeName(sh)}, o, false)
			out.Emit(lqEvent("SyncHeader", o, map[string]interface{}{"shape": lqShapeJSON(sh)}))
		case x < 90:
			k := kinds[rng.Intn(len(kinds))]
			r.step(&lqAct{Name: "PreExec", Kind: k}, o, false)
			out.Emit(lqEvent("PreExec", o, map[string]interface{}{"kind": k}))
		default:
			r.step(&lqAct{Name: "Restart"}, o, false)
			out.Emit(lqEvent("Restart", o, nil))
		}
	}
}

// lqLongTrace: a long chain (to cross the 2000-entry header index window), mostly empty blocks, with restarts
func lqLongTrace(r *lqRun, tin *lqTraceIn, rng *rand.Rand, out *vhOut) {
	restart := map[int]bool{}
	for _, h := range tin.Restarts {
		restart[h] = true
	}
	paths := []string{"wire", "mem", "exec"}
	start := 1
	if tin.Mode == "window" {
		// the first LongN-4 blocks are empty blocks committed without observation (one "Bulk" event names them)
		bulk := tin.LongN - 4
		sh := lqShape{Ntx: 0, Logs: [][2]string{}}
		r.in.Shapes[lqShapeName(sh)] = sh
		var bulkNames []string
		for h := 1; h <= bulk; h++ {
			blk := r.n.vlMakeBlock(r.ls, nil, nil)
			vhMust(r.ls.AddBlock(blk, nil, common.UINT256_EMPTY))
			id := append(append([]string(nil), r.names...), lqShapeName(sh))
			r.names = id
			r.blocks = append(r.blocks, blk)
			r.idOf[blk.Hash()] = id
			bulkNames = append(bulkNames, lqShapeName(sh))
		}
		out.Emit(map[string]interface{}{"event": "Bulk", "names": bulkNames, "res": "ok"})
		start = bulk + 1
	}
	for h := start; h <= tin.LongN && r.ls != nil; h++ {
		sh := lqShape{Ntx: 0, Logs: [][2]string{}}
		if rng.Intn(40) == 0 {
			sh.Ntx = 1 + rng.Intn(2)
		}
		r.in.Shapes[lqShapeName(sh)] = sh
		m := lqValidMut()
		path := paths[rng.Intn(3)]
		o := &lqObs{}
		a := &lqAct{Name: "Submit", Path: path, Shape: lqShapeName(sh), Mut: lqMutOf(m)}
		r.stepSampled(a, o, rng)
		out.Emit(lqEvent("Submit", o, map[string]interface{}{"path": path, "shape": lqShapeJSON(sh), "mut": m, "reason": o.Reason}))
		if restart[h] {
			o := &lqObs{}
			r.stepSampled(&lqAct{Name: "Restart"}, o, rng)
			out.Emit(lqEvent("Restart", o, nil))
		}
	}
}
