package ledgerstore

import (
	"fmt"
	"math/big"

	ethtypes "github.com/ethereum/go-ethereum/core/types"
	ethcrypto "github.com/ethereum/go-ethereum/crypto"
	"github.com/ontio/ontology/core/payload"
	"github.com/ontio/ontology/core/types"
	cutils "github.com/ontio/ontology/core/utils"
	sstate "github.com/ontio/ontology/smartcontract/states"
)

// preExec runs one pre-execution kind of spec/LedgerQuery.tla (PreExec) through the read-only interfaces of the real
// ledger and returns what it answered (informational; the property is about what it must NOT do).
func (r *lqRun) preExec(kind string) map[string]interface{} {
	ls, n := r.ls, r.n
	h := uint32(len(r.names))
	out := map[string]interface{}{"kind": kind}
	rec := func(res *sstate.PreExecResult, err error) {
		if err != nil {
			out["err"] = err.Error()
		}
		if res != nil {
			out["state"] = res.State
			out["gas"] = res.Gas
			out["notifies"] = len(res.Notify)
			out["result"] = fmt.Sprint(res.Result)
		}
	}
	acc, err := ls.GetEthAccount(r.e0)
	vhMust(err)
	e1 := ethcrypto.PubkeyToAddress(n.ethKeys[1].PublicKey)
	topics := append(append(lqTopicOf("t1").Bytes(), lqTopicOf("t3").Bytes()...), make([]byte, 32)...)
	nativeTransfer := func() *types.Transaction {
		return vlTransfer("ont", n.users[0], n.users[1].Address, 5, 800000+h, vlGasPrice)
	}
	neoPut := func() *types.Transaction {
		code, err := cutils.BuildNeoVMInvokeCode(r.neoAddr, []interface{}{})
		vhMust(err)
		mt := &types.MutableTransaction{TxType: types.InvokeNeo, Nonce: 810000 + h, GasLimit: vlGasLimit, Payload: &payload.InvokeCode{Code: code}}
		tx, err := mt.IntoImmutable()
		vhMust(err)
		return tx
	}
	evmLog := func() *types.Transaction { return vlEvmCall(n.ethKeys[0], acc.Nonce, r.loggers["l2"], topics) }
	switch kind {
	case "native-transfer":
		rec(ls.PreExecuteContract(nativeTransfer()))
	case "native-transfer-fail":
		rec(ls.PreExecuteContract(vlTransfer("ont", n.users[0], n.users[1].Address, 1<<40, 820000+h, vlGasPrice)))
	case "neovm-deploy":
		code := append([]byte{0x51, 0x66, 0x00}, byte(h))
		mt, err := cutils.NewDeployTransaction(code, "x", "1", "verif", "", "pre-exec deploy", payload.NEOVM_TYPE)
		vhMust(err)
		mt.Nonce = 830000 + h
		tx, err := mt.IntoImmutable()
		vhMust(err)
		rec(ls.PreExecuteContract(tx))
	case "neovm-storage-put":
		rec(ls.PreExecuteContract(neoPut()))
	case "neovm-badscript":
		mt := &types.MutableTransaction{TxType: types.InvokeNeo, Nonce: 840000 + h, GasLimit: vlGasLimit, Payload: &payload.InvokeCode{Code: []byte{0xff, 0xfe, 0x01}}}
		tx, err := mt.IntoImmutable()
		vhMust(err)
		rec(ls.PreExecuteContract(tx))
	case "evm-transfer":
		rec(ls.PreExecuteContract(vlEvmTransfer(n.ethKeys[0], acc.Nonce, e1, 11)))
	case "evm-transfer-free": // gas price 0, value 0: every balance it touches stays what it was
		rec(ls.PreExecuteContract(vlEvmSign(n.ethKeys[0], ethtypes.NewTransaction(acc.Nonce, e1, big.NewInt(0), vlGasLimit, big.NewInt(0), nil))))
	case "evm-create":
		rec(ls.PreExecuteContract(vlEvmCreate(n.ethKeys[0], acc.Nonce, vlInitCode(vlLogger2Runtime))))
	case "evm-call-log":
		rec(ls.PreExecuteContract(evmLog()))
	case "evm-msg-call", "evm-msg-create":
		to := r.loggers["l2"]
		pto := &to
		data := topics
		if kind == "evm-msg-create" {
			pto = nil
			data = vlInitCode(vlLoggerRuntime)
		}
		msg := ethtypes.NewMessage(r.e0, pto, acc.Nonce, big.NewInt(0), vlGasLimit, vlGwei(vlGasPrice), data, false)
		res, err := ls.PreExecuteEip155Tx(msg)
		if err != nil {
			out["err"] = err.Error()
		}
		if res != nil {
			out["gas"] = res.UsedGas
			out["failed"] = res.Failed()
		}
	case "batch-atomic", "batch-plain":
		res, hh, err := ls.PreExecuteContractBatch([]*types.Transaction{nativeTransfer(), neoPut(), evmLog()}, kind == "batch-atomic")
		if err != nil {
			out["err"] = err.Error()
		}
		out["height"] = hh
		out["n"] = len(res)
		for i, x := range res {
			out[fmt.Sprintf("state%d", i)] = x.State
		}
	default:
		panic("unknown pre-exec kind " + kind)
	}
	return out
}
