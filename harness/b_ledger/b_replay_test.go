package ledgerstore

// Replay driver of spec/LedgerQuery.tla: executes TLC-generated action sequences (Submit / PreExec / Restart) on a
// real solo-net ledger and reports, after every step, the projection the specification talks about.

import (
	"crypto/sha256"
	"encoding/json"
	"fmt"
	"io"
	"math/big"
	"os"
	"path/filepath"
	"sort"
	"strings"
	"testing"

	ethcom "github.com/ethereum/go-ethereum/common"
	ethtypes "github.com/ethereum/go-ethereum/core/types"
	ethcrypto "github.com/ethereum/go-ethereum/crypto"
	"github.com/ontio/ontology-crypto/keypair"
	"github.com/ontio/ontology/account"
	"github.com/ontio/ontology/common"
	"github.com/ontio/ontology/core/payload"
	"github.com/ontio/ontology/core/types"
	cutils "github.com/ontio/ontology/core/utils"
	"github.com/ontio/ontology/smartcontract/event"
)

// ------------------------------------------------------------------------------------------------ input

type lqShape struct {
	Ntx  int         `json:"ntx"`
	Logs [][2]string `json:"logs"` // (address item, topic item), e.g. ["a1","t2"]
}

type lqMut struct {
	Height, Prev, Ts, Broot, Troot, Body, Sigs, Keepers, Sroot string
}

type lqAct struct {
	Name  string          `json:"name"`
	Path  string          `json:"path"`
	Shape string          `json:"shape"`
	Mut   *lqMut          `json:"mut"`
	Kind  string          `json:"kind"`
	Point string          `json:"point"` // Submit: commit point of submitBlock at which pre-execution Kind runs
	Res   string          `json:"res"`
	Raw   json.RawMessage `json:"-"`
}

type lqPath struct {
	Fresh bool    `json:"fresh"`
	Steps []lqAct `json:"steps"`
}

type lqInput struct {
	Shapes   map[string]lqShape `json:"shapes"`
	Paths    []lqPath           `json:"paths"`
	NKeepers int                `json:"nkeepers"`
	Views    string             `json:"views"` // "all" | "window": which heights are queried after each step
	Listing  bool               `json:"listing"` // debugging: emit the full block store listing with every observation
}

// ------------------------------------------------------------------------------------------------ run state

var vlNoopCounter int

type lqRun struct {
	n        *vlNet
	in       *lqInput
	dir      string
	ls       *LedgerStoreImp
	B        uint32                      // height of the last bootstrap block = model height 0
	names    []string                    // shape names of the model chain committed on this ledger
	blocks   []*types.Block              // committed blocks by real height (as delivered)
	idOf     map[common.Uint256][]string // block hash -> model id
	txOf     map[common.Uint256][]interface{}
	e0       ethcom.Address
	loggers  map[string]ethcom.Address // a1..a3 (LOG1 loop), "l2" (LOG2 + SSTORE)
	neoAddr  common.Address
	cache    map[string]*types.Block // built blocks by (parent hash, shape, mutation)
	txCache  map[string]*types.Transaction
	template string
	boot     []*types.Block
	sample   func(lo, cur uint32) []uint32 // heights to query after a step (nil: all, or the last 7 in window mode)
}

func lqLedgerBase() string {
	base := os.Getenv("VERIF_LEDGER_TMP")
	if base == "" {
		base = os.Getenv("VERIF_SCRATCH")
	}
	if base == "" {
		base = os.TempDir()
	}
	d := filepath.Join(base, fmt.Sprintf("b-ledger-%d", os.Getpid()))
	vhMust(os.MkdirAll(d, 0o755))
	return d
}

func lqCopyDir(src, dst string) {
	vhMust(filepath.Walk(src, func(p string, info os.FileInfo, err error) error {
		if err != nil {
			return err
		}
		rel, _ := filepath.Rel(src, p)
		t := filepath.Join(dst, rel)
		if info.IsDir() {
			return os.MkdirAll(t, 0o755)
		}
		if info.Name() == "LOCK" {
			return nil
		}
		in, err := os.Open(p)
		if err != nil {
			return err
		}
		defer in.Close()
		out, err := os.Create(t)
		if err != nil {
			return err
		}
		defer out.Close()
		_, err = io.Copy(out, in)
		return err
	}))
}

var neoPutCode = append(append(append([]byte{0x01, 'v', 0x01, 'k', 0x68, 0x19}, []byte("System.Storage.GetContext")...),
	append([]byte{0x68, 0x12}, []byte("System.Storage.Put")...)...), 0x51, 0x66)

func newLqRun(in *lqInput) *lqRun {
	nk := in.NKeepers
	if nk == 0 {
		nk = 4
	}
	r := &lqRun{n: vlNewNet(vhSeed(), nk, 3, 2), in: in, cache: map[string]*types.Block{}, txCache: map[string]*types.Transaction{},
		loggers: map[string]ethcom.Address{}}
	r.e0 = ethcrypto.PubkeyToAddress(r.n.ethKeys[0].PublicKey)
	for i := 0; i < 3; i++ {
		r.loggers[fmt.Sprintf("a%d", i+1)] = ethcrypto.CreateAddress(r.e0, uint64(i))
	}
	r.loggers["l2"] = ethcrypto.CreateAddress(r.e0, 3)
	r.neoAddr = common.AddressFromVmCode(neoPutCode)
	return r
}

// bootstrapTxs: the transactions of the bootstrap blocks (built once, reused so that every ledger of the process has
// byte-identical bootstrap blocks).
func (r *lqRun) bootstrapTxs(i int) []*types.Transaction {
	n := r.n
	switch i {
	case 0:
		var txs []*types.Transaction
		for k, u := range n.users {
			txs = append(txs, n.vlTransferFromOntOwner(u.Address, 1_000_000, uint32(100+k)))
			txs = append(txs, vlTransfer("ong", n.ongHolder, u.Address, 1_000_000_000_000, uint32(200+k), 0))
		}
		txs = append(txs, vlTransfer("ong", n.ongHolder, common.Address(r.e0), 1_000_000_000_000, 300, 0))
		return txs
	case 1:
		var txs []*types.Transaction
		// the NeoVM deployment comes first: the first state write of this block is a Put
		mt, err := cutils.NewDeployTransaction(neoPutCode, "put", "1", "verif", "", "storage put", payload.NEOVM_TYPE)
		vhMust(err)
		mt.Nonce = 400
		tx, err := mt.IntoImmutable()
		vhMust(err)
		txs = append(txs, tx)
		for k := 0; k < 3; k++ {
			txs = append(txs, vlEvmCreateP(n.ethKeys[0], uint64(k), vlInitCode(vlLoggerRuntime), 0))
		}
		// (gas price 0: the fee receiver, the governance contract, holds no ONG until the first fee-paying model block)
		txs = append(txs, vlEvmCreateP(n.ethKeys[0], 3, vlInitCode(vlLogger2Runtime), 0))
		return txs
	}
	return nil
}

// create a ledger from scratch and run the bootstrap blocks on it
func (r *lqRun) createFromScratch() {
	r.dir = filepath.Join(lqLedgerBase(), fmt.Sprintf("l%d", vlNext()))
	ls, err := r.n.vlOpen(r.dir)
	vhMust(err)
	r.ls = ls
	r.blocks = []*types.Block{r.n.genesis}
	for i := 0; i < 2; i++ {
		var blk *types.Block
		if len(r.boot) > i {
			blk = r.boot[i]
		} else {
			blk = r.n.vlMakeBlock(ls, r.bootstrapTxs(i), nil)
			r.boot = append(r.boot, blk)
		}
		root, err := vlStateRoot(ls, blk)
		vhMust(err)
		vhMust(ls.AddBlock(blk, nil, root))
		r.blocks = append(r.blocks, blk)
	}
	for _, b := range r.blocks[1:] {
		for _, tx := range b.Transactions {
			ev, err := ls.GetEventNotifyByTx(tx.Hash())
			vhMust(err)
			if ev.State != event.CONTRACT_STATE_SUCCESS {
				panic(fmt.Sprintf("bootstrap transaction %s failed", vlShort(tx.Hash())))
			}
		}
	}
	r.B = ls.GetCurrentBlockHeight()
	r.names = nil
	r.idOf = map[common.Uint256][]string{ls.GetCurrentBlockHash(): {}}
	r.txOf = map[common.Uint256][]interface{}{}
}

var vlCounter int

func vlNext() int { vlCounter++; return vlCounter }

func (r *lqRun) start(fresh bool) {
	if !fresh {
		r.createFromScratch()
		return
	}
	if r.template == "" {
		r.createFromScratch()
		vhMust(r.ls.Close())
		r.template = r.dir
	}
	r.dir = filepath.Join(lqLedgerBase(), fmt.Sprintf("l%d", vlNext()))
	lqCopyDir(r.template, r.dir)
	ls, err := r.n.vlOpen(r.dir)
	vhMust(err)
	r.ls = ls
	r.blocks = append([]*types.Block{r.n.genesis}, r.boot...)
	r.B = ls.GetCurrentBlockHeight()
	r.names = nil
	r.idOf = map[common.Uint256][]string{ls.GetCurrentBlockHash(): {}}
	r.txOf = map[common.Uint256][]interface{}{}
}

func (r *lqRun) stop() {
	if r.ls != nil {
		r.ls.Close()
		r.ls = nil
	}
	if r.dir != r.template {
		os.RemoveAll(r.dir)
	}
}

// ------------------------------------------------------------------------------------------------ transactions of a block

func (r *lqRun) cachedTx(key string, mk func() *types.Transaction) *types.Transaction {
	if t, ok := r.txCache[key]; ok {
		return t
	}
	t := mk()
	r.txCache[key] = t
	return t
}

// modelTxs builds the transactions of the model block of the given shape on top of the current ledger state.
// j = 1: native ONT/ONG transfer with a fee; j = 2: EVM transfer / LOG2+SSTORE call; j >= 3: native ONG transfer.
// Shapes with logs: one EVM call per (address, topic) pair.
func (r *lqRun) modelTxs(shape string, variant int) []*types.Transaction {
	sh := r.in.Shapes[shape]
	h := len(r.names) + 1 // model height of the block
	parent := r.ls.GetCurrentBlockHash()
	acc, err := r.ls.GetEthAccount(r.e0)
	vhMust(err)
	nonce := acc.Nonce
	var txs []*types.Transaction
	key := func(j int) string { return fmt.Sprintf("%s/%s/%d/%d", parent.ToHexString(), shape, j, variant) }
	if len(sh.Logs) > 0 || strings.HasSuffix(shape, "f") {
		logs := append([][2]string(nil), sh.Logs...)
		sort.Slice(logs, func(a, b int) bool { return logs[a][0]+logs[a][1] < logs[b][0]+logs[b][1] })
		for j, l := range logs {
			to, tp, nn := r.loggers[l[0]], lqTopicOf(l[1]), nonce
			txs = append(txs, r.cachedTx(key(j+1), func() *types.Transaction { return vlEvmCall(r.n.ethKeys[0], nn, to, tp.Bytes()) }))
			nonce++
		}
		if strings.HasSuffix(shape, "f") {
			// an EVM transaction that FAILS (transfers more than the sender owns): status failed, the fee log is still emitted
			nn := nonce
			txs = append(txs, r.cachedTx(key(len(logs)+1), func() *types.Transaction {
				return vlEvmSign(r.n.ethKeys[0], ethtypes.NewTransaction(nn, ethcrypto.PubkeyToAddress(r.n.ethKeys[1].PublicKey),
					new(big.Int).Exp(big.NewInt(10), big.NewInt(40), nil), vlGasLimit, vlGwei(vlGasPrice), nil))
			}))
		}
		return txs
	}
	for j := 1; j <= sh.Ntx; j++ {
		jj := j
		nn := nonce
		u := r.n.users
		switch {
		case j == 1:
			tok := "ont"
			if h%2 == 0 {
				tok = "ong"
			}
			txs = append(txs, r.cachedTx(key(j), func() *types.Transaction {
				return vlTransfer(tok, u[h%3], u[(h+1)%3].Address, uint64(1+h), uint32(1000*h+10*jj+variant), vlGasPrice)
			}))
		case j == 2:
			if h%2 == 0 {
				txs = append(txs, r.cachedTx(key(j), func() *types.Transaction {
					return vlEvmTransfer(r.n.ethKeys[0], nn, ethcrypto.PubkeyToAddress(r.n.ethKeys[1].PublicKey), uint64(7+h))
				}))
			} else {
				data := append(append(lqTopicOf("t1").Bytes(), lqTopicOf("t2").Bytes()...), ethcom.BigToHash(vlGwei(uint64(h))).Bytes()...)
				txs = append(txs, r.cachedTx(key(j), func() *types.Transaction { return vlEvmCall(r.n.ethKeys[0], nn, r.loggers["l2"], data) }))
			}
			nonce++
		default:
			txs = append(txs, r.cachedTx(key(j), func() *types.Transaction {
				return vlTransfer("ong", u[(h+j)%3], u[(h+j+1)%3].Address, uint64(3+j), uint32(1000*h+10*jj+variant), vlGasPrice)
			}))
		}
	}
	return txs
}

func lqTopicOf(item string) ethcom.Hash {
	var i int
	fmt.Sscanf(item, "t%d", &i)
	return vlTopic(i)
}

// ------------------------------------------------------------------------------------------------ Submit

type lqDelivered struct {
	blk   *types.Block
	sroot common.Uint256
	txids []interface{} // model transaction numbers of the delivered body
}

func lqRandHash(tag string, h uint32) common.Uint256 {
	return common.Uint256(sha256.Sum256([]byte(fmt.Sprintf("verif-bad-%s-%d", tag, h))))
}

// buildCandidate constructs the (possibly mutated) next block described by (shape, mut) on the current ledger.
func (r *lqRun) buildCandidate(shape string, m *lqMut) *lqDelivered {
	ls, n := r.ls, r.n
	cur, curHash := ls.GetCurrentBlock()
	mk := *m
	mk.Sroot = "ok" // the state root argument is not part of the block
	mj, _ := json.Marshal(&mk)
	ckey := curHash.ToHexString() + "/" + shape + "/" + string(mj)
	orig := r.modelTxs(shape, 0)
	txs := append([]*types.Transaction(nil), orig...)
	var ids []interface{}
	for j := range orig {
		ids = append(ids, j+1)
	}
	rootOver := orig
	switch m.Body {
	case "drop":
		txs, ids = txs[:len(txs)-1], ids[:len(ids)-1]
	case "alter":
		alt := r.modelTxs(shape, 1)
		// the replacement must be a transaction that is not in the header's root: take the variant of a native one
		k := len(txs) - 1
		if alt[k].Hash() == txs[k].Hash() { // EVM transactions have no variant: use a fresh native transfer instead
			h := len(r.names) + 1
			alt[k] = r.cachedTx(ckey+"/alt", func() *types.Transaction {
				return vlTransfer("ong", n.users[0], n.users[1].Address, 5, uint32(900000+h), vlGasPrice)
			})
		}
		txs[k], ids[k] = alt[k], 99
	case "dup":
		txs, ids = append(txs, txs[0]), append(ids, 1)
		rootOver = txs
	case "evmnonce":
		acc, err := ls.GetEthAccount(r.e0)
		vhMust(err)
		bad := r.cachedTx(ckey+"/badnonce", func() *types.Transaction {
			return vlEvmTransfer(n.ethKeys[0], acc.Nonce+7, ethcrypto.PubkeyToAddress(n.ethKeys[1].PublicKey), 1)
		})
		txs[len(txs)-1], ids[len(ids)-1] = bad, 98
		rootOver = txs
	}
	d := &lqDelivered{txids: ids}
	if b, ok := r.cache[ckey]; ok {
		d.blk = b
	} else {
		// header of the valid block over rootOver
		var hashes []common.Uint256
		for _, t := range rootOver {
			hashes = append(hashes, t.Hash())
		}
		txRoot := common.ComputeMerkleRoot(hashes)
		o := &vlBlockOpt{TxRoot: &txRoot, NoSign: true}
		blk := n.vlMakeBlock(ls, txs, o) // BlockRoot computed for txRoot
		hdr := blk.Header
		switch m.Troot {
		case "bad":
			hdr.TransactionsRoot = lqRandHash("troot", cur)
		case "badc":
			hdr.TransactionsRoot = lqRandHash("trootc", cur)
			hdr.BlockRoot = ls.GetBlockRootWithNewTxRoots(cur+1, []common.Uint256{hdr.TransactionsRoot})
		case "zero":
			hdr.TransactionsRoot = common.UINT256_EMPTY
		case "zeroc":
			hdr.TransactionsRoot = common.UINT256_EMPTY
			hdr.BlockRoot = ls.GetBlockRootWithNewTxRoots(cur+1, []common.Uint256{hdr.TransactionsRoot})
		}
		if m.Broot == "bad" {
			hdr.BlockRoot = lqRandHash("broot", cur)
		}
		switch m.Height {
		case "stale":
			hdr.Height = cur
		case "skip":
			hdr.Height = cur + 2
		}
		switch m.Prev {
		case "old":
			hdr.PrevBlockHash = r.blocks[cur-1].Hash()
		case "unknown":
			hdr.PrevBlockHash = lqRandHash("prev", cur)
		}
		prevTs := r.blocks[cur].Header.Timestamp
		switch m.Ts {
		case "eq":
			hdr.Timestamp = prevTs
		case "lt":
			hdr.Timestamp = prevTs - 1
		}
		mReq := len(n.keepers) - (len(n.keepers)-1)/3
		signers := n.keepers[:mReq]
		switch m.Keepers {
		case "foreign":
			var pks []keypair.PublicKey
			for _, f := range n.foreign {
				pks = append(pks, f.PublicKey)
			}
			hdr.Bookkeepers = keypair.SortPublicKeys(pks)
			signers = n.foreign
		case "subset":
			hdr.Bookkeepers = []keypair.PublicKey{n.keepers[0].PublicKey}
			signers = n.keepers[:1]
		}
		switch m.Sigs {
		case "ok", "stale":
			n.vlSignBlock(blk, signers)
			if m.Sigs == "stale" {
				hdr.ConsensusData += 1000 // the header changes after it was signed
				blk = vlCloneBlock(blk)   // drop the cached hash
			}
		case "none":
			hdr.SigData = nil
		case "few":
			n.vlSignBlock(blk, signers[:len(signers)-1])
		case "foreign":
			ss := append(append([]*account.Account(nil), signers[:len(signers)-1]...), n.foreign[0])
			n.vlSignBlock(blk, ss)
		case "dupsig":
			n.vlSignBlock(blk, signers[:1])
			for len(hdr.SigData) < len(signers) {
				hdr.SigData = append(hdr.SigData, hdr.SigData[0])
			}
		}
		r.cache[ckey] = blk
		d.blk = blk
	}
	return d
}

type lqObs struct {
	Path    int                      `json:"path"`
	Step    int                      `json:"step"`
	Res     string                   `json:"res"`    // ok | ignored | error
	Reason  string                   `json:"reason"` // class of the error
	Err     string                   `json:"err,omitempty"`
	Cur     int                      `json:"cur"`    // model height
	CurId   []string                 `json:"curId"`
	BlkCur  int                      `json:"blkCur"`
	StCur   int                      `json:"stCur"`
	EvCur   int                      `json:"evCur"`
	Root    string                   `json:"root"`
	Dump    vlDump                   `json:"dump"`
	Changed []string                 `json:"changed"` // stores whose content differs from before the step
	Diff    map[string][]string      `json:"diff,omitempty"`
	Views   []map[string]interface{} `json:"views"`
	Above   map[string]interface{}   `json:"above"`
	Bloom   [][]int                  `json:"bloom"`
	Missed  []string                 `json:"missed"`
	HdrLast int                      `json:"hdrLast"`
	Fetched string                   `json:"fetched,omitempty"` // Submit: is the delivered block retrievable by its hash afterwards
	Pre     map[string]interface{}   `json:"pre,omitempty"`
	Stored  bool                     `json:"stored"`
	Listing map[string]string        `json:"listing,omitempty"`
	EvInfo  [][3]int                 `json:"evinfo"` // per transaction of the queried blocks: model height, notify state, EVM logs
}

func lqClassify(err error) string {
	if err == nil {
		return ""
	}
	s := err.Error()
	switch {
	case strings.Contains(s, "not equal next block height"):
		return "height"
	case strings.Contains(s, "cannot find pre header"):
		return "prev"
	case strings.Contains(s, "block height is incorrect"):
		return "prevheight"
	case strings.Contains(s, "timestamp is incorrect"):
		return "timestamp"
	case strings.Contains(s, "bookkeeper address error"):
		return "bookkeeper"
	case strings.Contains(s, "not enough signatures"), strings.Contains(s, "multi-signature verification failed"), strings.Contains(s, "invalid signature data"):
		return "signature"
	case strings.Contains(s, "state merkle root mismatch"):
		return "stateroot"
	case strings.Contains(s, "verifyBlockBody error"):
		return "txroot"
	case strings.Contains(s, "wrong block root"):
		return "blockroot"
	}
	return "exec"
}

// submit delivers the candidate through the requested path.  Returns (res, reason, err).
func (r *lqRun) submit(path string, d *lqDelivered, m *lqMut) (string, string, error) {
	ls := r.ls
	before := ls.GetCurrentBlockHeight()
	blk := d.blk
	done := func(err error, decode bool) (string, string, error) {
		if err != nil {
			if decode {
				return "error", "decode", err
			}
			return "error", lqClassify(err), err
		}
		if ls.GetCurrentBlockHeight() == before {
			return "ignored", "ignored", nil
		}
		return "ok", "ok", nil
	}
	// the state root a (possibly colluding) proposer announces: the root of executing the delivered body
	var sroot common.Uint256
	if path != "exec" {
		// executed on a deep copy so that nothing of the candidate object is cached by the pre-run
		if res, err := ls.ExecuteBlock(vlCloneBlock(blk)); err == nil {
			sroot = res.MerkleRoot
		}
		if m.Sroot == "bad" {
			sroot = lqRandHash("sroot", before)
		}
	}
	switch path {
	case "wire":
		b2, err := types.BlockFromRawBytes(blk.ToArray())
		if err != nil {
			return done(err, true)
		}
		return done(ls.AddBlock(b2, nil, sroot), false)
	case "mem":
		return done(ls.AddBlock(vlCloneBlock(blk), nil, sroot), false)
	case "exec":
		b2 := vlCloneBlock(blk)
		res, err := ls.ExecuteBlock(b2)
		if err != nil {
			return done(err, false)
		}
		return done(ls.SubmitBlock(b2, nil, res), false)
	}
	panic("unknown path " + path)
}

// ------------------------------------------------------------------------------------------------ observation

func (r *lqRun) idOfHash(h common.Uint256) []string {
	if id, ok := r.idOf[h]; ok {
		return id
	}
	for i, b := range r.blocks {
		if uint32(i) < r.B && b.Hash() == h {
			return []string{fmt.Sprintf("boot%d", i)}
		}
	}
	if h == common.UINT256_EMPTY {
		return []string{"none"}
	}
	return []string{"?" + vlShort(h)}
}

func (r *lqRun) txIdOf(h common.Uint256) []interface{} {
	if id, ok := r.txOf[h]; ok {
		return id
	}
	return []interface{}{[]string{"?" + vlShort(h)}, 0}
}

func lqBloomBits(b ethtypes.Bloom) []int {
	out := []int{}
	for i := 0; i < ethtypes.BloomBitLength; i++ {
		// bit i of the bloom in go-ethereum's numbering: byte BloomByteLength-1-i/8, bit i%8
		if b[ethtypes.BloomByteLength-1-i/8]&(1<<uint(i%8)) != 0 {
			out = append(out, i)
		}
	}
	return out
}

func lqItemBits(data []byte) []int {
	var b ethtypes.Bloom
	b.Add(data)
	return lqBloomBits(b)
}

// view of one real height: all query interfaces, resolved to model ids
func (r *lqRun) viewOf(real uint32) map[string]interface{} {
	ls := r.ls
	v := map[string]interface{}{"h": int(real) - int(r.B)}
	committed := r.blocks[real]
	hash := ls.GetBlockHash(real)
	v["hashByHeight"] = r.idOfHash(hash)
	bodyIds := func(b *types.Block) []interface{} {
		out := []interface{}{}
		for _, t := range b.Transactions {
			out = append(out, r.txIdOf(t.Hash()))
		}
		return out
	}
	var problems []string
	if b, err := ls.GetBlockByHeight(real); err != nil || b == nil {
		v["blockByHeight"] = fmt.Sprintf("error %v", err)
	} else {
		v["blockByHeight"] = []interface{}{r.idOfHash(b.Hash()), bodyIds(b)}
		if !vlBlockBytesEqual(b, committed) {
			problems = append(problems, "GetBlockByHeight differs from the committed block")
		}
	}
	ch := committed.Hash()
	if b, err := ls.GetBlockByHash(ch); err != nil || b == nil {
		v["blockByHash"] = fmt.Sprintf("error %v", err)
	} else {
		v["blockByHash"] = []interface{}{r.idOfHash(b.Hash()), bodyIds(b), int(b.Header.Height) - int(r.B)}
		if !vlBlockBytesEqual(b, committed) {
			problems = append(problems, "GetBlockByHash differs from the committed block")
		}
	}
	if hd, err := ls.GetHeaderByHash(ch); err != nil || hd == nil {
		v["headerByHash"] = fmt.Sprintf("error %v", err)
	} else {
		v["headerByHash"] = []interface{}{r.idOfHash(hd.Hash()), int(hd.Height) - int(r.B)}
		if !vlHeaderBytesEqual(hd, committed.Header) {
			problems = append(problems, "GetHeaderByHash differs from the committed header")
		}
	}
	if hd, err := ls.GetHeaderByHeight(real); err != nil || hd == nil {
		v["headerByHeight"] = fmt.Sprintf("error %v", err)
	} else {
		v["headerByHeight"] = []interface{}{r.idOfHash(hd.Hash()), int(hd.Height) - int(r.B)}
	}
	if rh, err := ls.GetRawHeaderByHash(ch); err != nil || rh == nil {
		problems = append(problems, fmt.Sprintf("GetRawHeaderByHash error %v", err))
	} else if int(rh.Height) != int(real) {
		problems = append(problems, "GetRawHeaderByHash height")
	}
	if ok, err := ls.IsContainBlock(ch); err != nil || !ok {
		problems = append(problems, "IsContainBlock false")
	}
	txv := []interface{}{}
	for _, t := range committed.Transactions {
		got, hh, err := ls.GetTransaction(t.Hash())
		if err != nil || got == nil {
			txv = append(txv, []interface{}{r.txIdOf(t.Hash()), fmt.Sprintf("error %v", err)})
			continue
		}
		txv = append(txv, []interface{}{r.txIdOf(got.Hash()), int(hh) - int(r.B)})
		if !vlTxBytesEqual(got, t) {
			problems = append(problems, "GetTransaction bytes differ "+vlShort(t.Hash()))
		}
		if ok, err := ls.IsContainTransaction(t.Hash()); err != nil || !ok {
			problems = append(problems, "IsContainTransaction false "+vlShort(t.Hash()))
		}
	}
	v["txs"] = txv
	if len(problems) > 0 {
		v["problems"] = problems
	}
	return v
}

func (r *lqRun) observe(o *lqObs, all bool) {
	ls := r.ls
	cur, curHash := ls.GetCurrentBlock()
	o.Cur = int(cur) - int(r.B)
	o.CurId = r.idOfHash(curHash)
	// a failing read is an observation (a damaged store), never a harness failure
	rel := func(h uint32, err error) int {
		if err != nil {
			return -999
		}
		return int(h) - int(r.B)
	}
	_, bh, err := ls.blockStore.GetCurrentBlock()
	o.BlkCur = rel(bh, err)
	_, sh, err := ls.stateStore.GetCurrentBlock()
	o.StCur = rel(sh, err)
	_, eh, err := ls.eventStore.GetCurrentBlock()
	o.EvCur = rel(eh, err)
	if root, err := ls.GetStateMerkleRoot(cur); err != nil {
		o.Root = "error: " + err.Error()
	} else {
		o.Root = vlShort(root)
	}
	o.Dump = lqDump(ls, r.dir)
	o.HdrLast = int(ls.GetCurrentHeaderHeight()) - int(r.B)
	lo := r.B
	if !all && cur > r.B+6 {
		lo = cur - 6
	}
	var heights []uint32
	if r.sample != nil {
		heights = r.sample(r.B, cur)
	} else {
		for real := lo; real <= cur; real++ {
			heights = append(heights, real)
		}
	}
	o.Views = []map[string]interface{}{}
	o.Bloom = [][]int{}
	o.Missed = []string{}
	for _, real := range heights {
		o.Views = append(o.Views, r.viewOf(real))
		bl, err := ls.GetBloomData(real)
		vhMust(err)
		o.Bloom = append(o.Bloom, lqBloomBits(bl))
		// every EVM log recorded in the event store for this block must be matched by the stored bloom
		evs, err := ls.GetEventNotifyByBlock(real)
		if err != nil {
			evs = nil // no event record for a block without transactions
		}
		for _, ev := range evs {
			nl := 0
			for _, ne := range ev.Notify {
				if _, err := event.NotifyEventInfoToEvmLog(ne); err == nil {
					nl++
				}
			}
			o.EvInfo = append(o.EvInfo, [3]int{int(real) - int(r.B), int(ev.State), nl})
			for _, ne := range ev.Notify {
				sl, err := event.NotifyEventInfoToEvmLog(ne)
				if err != nil {
					continue
				}
				if !bl.Test(sl.Address.Bytes()) {
					o.Missed = append(o.Missed, fmt.Sprintf("h%d address %s", int(real)-int(r.B), sl.Address.Hex()))
				}
				for _, tp := range sl.Topics {
					if !bl.Test(tp.Bytes()) {
						o.Missed = append(o.Missed, fmt.Sprintf("h%d topic %s", int(real)-int(r.B), tp.Hex()))
					}
				}
			}
		}
	}
	if r.in.Listing {
		o.Listing = vlListStore(ls.blockStore.store.NewIterator(nil))
	}
	// nothing above the current height
	ab := map[string]interface{}{"hashByHeight": r.idOfHash(ls.GetBlockHash(cur + 1))}
	if b, err := ls.GetBlockByHeight(cur + 1); b != nil {
		ab["blockByHeight"] = r.idOfHash(b.Hash())
	} else {
		ab["blockByHeight"] = "none"
		_ = err
	}
	o.Above = ab
}

// lqDump: like vlDumpStores, but the block store digest leaves out the filter-start key, which every reopen may set.
func lqDump(ls *LedgerStoreImp, dir string) vlDump {
	d := vlDumpStores(ls, dir)
	d.Block, d.NBlock = vlDigestIterSkip(ls.blockStore.store.NewIterator(nil), genFilterStartKey())
	return d
}

func lqChanged(a, b vlDump) []string {
	out := []string{}
	if a.Block != b.Block {
		out = append(out, "block")
	}
	if a.State != b.State {
		out = append(out, "state")
	}
	if a.Event != b.Event {
		out = append(out, "event")
	}
	if a.Cross != b.Cross {
		out = append(out, "cross")
	}
	if a.Merkle != b.Merkle {
		out = append(out, "merkle")
	}
	return out
}

type lqListing struct{ block, state, event map[string]string }

func lqList(ls *LedgerStoreImp) lqListing {
	return lqListing{vlListStore(ls.blockStore.store.NewIterator(nil)), vlListStore(ls.stateStore.store.NewIterator(nil)),
		vlListStore(ls.eventStore.store.NewIterator(nil))}
}

// step executes one action and fills the observation
func (r *lqRun) step(a *lqAct, o *lqObs, all bool) {
	ls := r.ls
	before := lqDump(ls, r.dir)
	var listing lqListing
	switch a.Name {
	case "Submit":
		listing = lqList(ls)
		d := r.buildCandidate(a.Shape, a.Mut)
		if a.Point != "" {
			// a non-atomic pre-execution runs while the block is being committed (build tag verif)
			fired := false
			if !lqSetHook(func(name string, height uint32) {
				if name == a.Point && !fired {
					fired = true
					o.Pre = r.preExec(a.Kind)
				}
			}) {
				panic("commit-point schedule requested but the harness was built without the verif tag")
			}
			defer func() {
				lqSetHook(nil)
				if !fired { // the block was not committed at all (observed through the result and the heights)
					o.Pre = map[string]interface{}{"unreached": a.Point}
				}
			}()
		}
		res, reason, err := r.submit(a.Path, d, a.Mut)
		lqSetHook(nil)
		o.Res, o.Reason = res, reason
		if err != nil {
			o.Err = err.Error()
			if len(o.Err) > 200 {
				o.Err = o.Err[:200]
			}
		}
		if res == "ok" {
			// the block is now part of the chain as far as the real ledger is concerned
			id := append(append([]string(nil), r.names...), a.Shape)
			r.names = id
			r.blocks = append(r.blocks, d.blk)
			r.idOf[d.blk.Hash()] = id
			for k, t := range d.blk.Transactions {
				if _, dup := r.txOf[t.Hash()]; !dup || d.txids[k] != 1 {
					r.txOf[t.Hash()] = []interface{}{id, d.txids[k]}
				}
			}
		} else {
			// a refused block must not be retrievable
			if ok, _ := ls.IsContainBlock(d.blk.Hash()); ok {
				// (a stale replay of a committed block is of course contained)
				if _, known := r.idOf[d.blk.Hash()]; !known {
					o.Stored = true
				}
			}
		}
	case "SyncHeader":
		// header sync runs ahead: the VALID header of a next block of this shape is handed to AddHeaders
		listing = lqList(ls)
		d := r.buildCandidate(a.Shape, lqMutOf(lqValidMut()))
		hdr := vlCloneBlock(d.blk).Header
		if err := ls.AddHeaders([]*types.Header{hdr}); err != nil {
			o.Res, o.Err = "error", err.Error()
		} else {
			o.Res = "ok"
			r.idOf[hdr.Hash()] = append(append([]string(nil), r.names...), a.Shape)
		}
	case "PreExec":
		listing = lqList(ls)
		o.Pre = r.preExec(a.Kind)
		o.Res = "ok"
	case "Restart":
		vhMust(ls.Close())
		nl, err := r.n.vlOpen(r.dir)
		if err != nil {
			o.Res, o.Err = "error", err.Error()
			r.ls = nil
			return
		}
		r.ls = nl
		ls = nl
		o.Res = "ok"
	}
	r.observe(o, all)
	o.Changed = lqChanged(before, o.Dump)
	if len(o.Changed) > 0 && a.Name != "Restart" && o.Res != "ok" || ((a.Name == "PreExec" || a.Name == "SyncHeader") && len(o.Changed) > 0) {
		after := lqList(r.ls)
		o.Diff = map[string][]string{"block": vlDiffKeys(listing.block, after.block), "state": vlDiffKeys(listing.state, after.state),
			"event": vlDiffKeys(listing.event, after.event)}
	}
}

// stepSampled: like step, but only a sample of heights is queried afterwards: the ends of the chain, the
// neighbourhood of the header index window and a few random ones.
func (r *lqRun) stepSampled(a *lqAct, o *lqObs, rng interface{ Intn(int) int }) {
	r.sample = func(lo, cur uint32) []uint32 {
		set := map[uint32]bool{lo: true, cur: true}
		for _, d := range []uint32{1, 2, HEADER_INDEX_MAX_SIZE - 2, HEADER_INDEX_MAX_SIZE - 1, HEADER_INDEX_MAX_SIZE, HEADER_INDEX_MAX_SIZE + 1} {
			if cur >= lo+d {
				set[cur-d] = true
			}
		}
		for k := 0; k < 3; k++ {
			set[lo+uint32(rng.Intn(int(cur-lo)+1))] = true
		}
		var hs []uint32
		for h := range set {
			hs = append(hs, h)
		}
		sort.Slice(hs, func(i, j int) bool { return hs[i] < hs[j] })
		return hs
	}
	r.step(a, o, false)
	r.sample = nil
}

func TestVerifLQReplay(t *testing.T) {
	var in lqInput
	vhIn(&in)
	out := vhOpenOut()
	defer out.Close()
	r := newLqRun(&in)
	defer os.RemoveAll(lqLedgerBase())
	all := in.Views != "window"
	for pi := range in.Paths {
		p := &in.Paths[pi]
		r.start(p.Fresh)
		o := &lqObs{Path: pi, Step: 0, Res: "init"}
		r.observe(o, all)
		o.Changed = []string{}
		out.Emit(o)
		for si := range p.Steps {
			o := &lqObs{Path: pi, Step: si + 1}
			r.step(&p.Steps[si], o, all)
			out.Emit(o)
			if r.ls == nil {
				break
			}
		}
		r.stop()
	}
}

// TestVerifLQBits reports the real bloom bit positions of the items of the model (addresses a1..a3, topics t1..t3).
func TestVerifLQBits(t *testing.T) {
	var in lqInput
	vhIn(&in)
	out := vhOpenOut()
	defer out.Close()
	r := newLqRun(&in)
	m := map[string][]int{}
	for i := 1; i <= 3; i++ {
		m[fmt.Sprintf("a%d", i)] = lqItemBits(r.loggers[fmt.Sprintf("a%d", i)].Bytes())
		m[fmt.Sprintf("t%d", i)] = lqItemBits(vlTopic(i).Bytes())
	}
	out.Emit(m)
}
