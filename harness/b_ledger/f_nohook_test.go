//go:build !verif

package ledgerstore

// without the build tag "verif" there are no commit-point callbacks
func lqSetHook(f func(name string, height uint32)) bool { return false }
