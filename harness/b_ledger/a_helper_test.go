package ledgerstore

// Shared helper of the b-ledger harnesses (LedgerQuery: C39, C40, C42, C43).
// It creates a real solo-net ledger (NewLedgerStore + genesis) in a scratch directory, builds valid next
// blocks with real signed ONT/ONG transfers and EIP-155 EVM transactions, drives them through the real
// AddBlock / ExecuteBlock+SubmitBlock paths, closes and reopens the ledger and dumps the persisted stores.
// Everything is deterministic given VERIF_SEED (keys, nonces, timestamps), so that the same chain shape always
// produces the same hashes inside one harness process.

import (
	"bytes"
	"crypto/ecdsa"
	"crypto/sha256"
	"encoding/binary"
	"encoding/hex"
	"fmt"
	"io/ioutil"
	"math/big"
	"os"
	"path/filepath"
	"sort"
	"strings"

	ethcom "github.com/ethereum/go-ethereum/common"
	ethtypes "github.com/ethereum/go-ethereum/core/types"
	ethcrypto "github.com/ethereum/go-ethereum/crypto"
	"github.com/ontio/ontology-crypto/ec"
	"github.com/ontio/ontology-crypto/keypair"
	s "github.com/ontio/ontology-crypto/signature"
	"github.com/ontio/ontology/account"
	"github.com/ontio/ontology/common"
	"github.com/ontio/ontology/common/config"
	"github.com/ontio/ontology/common/constants"
	"github.com/ontio/ontology/common/log"
	"github.com/ontio/ontology/core/genesis"
	"github.com/ontio/ontology/core/payload"
	"github.com/ontio/ontology/core/signature"
	scom "github.com/ontio/ontology/core/store/common"
	"github.com/ontio/ontology/core/types"
	cutils "github.com/ontio/ontology/core/utils"
	"github.com/ontio/ontology/smartcontract/service/native/ont"
	nutils "github.com/ontio/ontology/smartcontract/service/native/utils"
)

const (
	vlGasPrice = uint64(500)
	vlGasLimit = uint64(200000)
)

// vlNet is one solo network: bookkeepers, user accounts, EVM keys and the genesis block.
type vlNet struct {
	seed    int64
	keepers []*account.Account // sorted like keypair.SortPublicKeys sorts their public keys
	users   []*account.Account
	ethKeys []*ecdsa.PrivateKey
	foreign []*account.Account // keys that are NOT bookkeepers
	genesis *types.Block
	ongHolder *account.Account // single-key owner of the ONG supply on the solo net
	ontAddr common.Address     // (multi-sig) owner of the ONT supply
	logger  ethcom.Address     // address of the deployed log-emitting EVM contract (set by vlBootstrapTxs)
}

// vlDetAccount derives an ECDSA P-256 account deterministically from (seed, tag, i).
func vlDetAccount(seed int64, tag string, i int) *account.Account {
	for ctr := 0; ; ctr++ {
		h := sha256.Sum256([]byte(fmt.Sprintf("verif-b-ledger/%d/%s/%d/%d", seed, tag, i, ctr)))
		c, err := keypair.GetCurve(keypair.P256)
		vhMust(err)
		d := new(big.Int).SetBytes(h[:])
		if d.Sign() == 0 || d.Cmp(c.Params().N) >= 0 {
			continue
		}
		pri := &ec.PrivateKey{Algorithm: ec.ECDSA, PrivateKey: ec.ConstructPrivateKey(h[:], c)}
		pub := pri.Public()
		return &account.Account{PrivateKey: pri, PublicKey: pub, Address: types.AddressFromPubKey(pub), SigScheme: s.SHA256withECDSA}
	}
}

func vlDetEthKey(seed int64, i int) *ecdsa.PrivateKey {
	for ctr := 0; ; ctr++ {
		h := sha256.Sum256([]byte(fmt.Sprintf("verif-b-ledger/%d/eth/%d/%d", seed, i, ctr)))
		k, err := ethcrypto.ToECDSA(h[:])
		if err == nil {
			return k
		}
	}
}

// vlNewNet builds the network description and installs the process-wide configuration (one per process).
func vlNewNet(seed int64, nKeepers, nUsers, nEth int) *vlNet {
	log.InitLog(log.ErrorLog, log.Stdout) // keep the harness output small
	n := &vlNet{seed: seed}
	for i := 0; i < nKeepers; i++ {
		n.keepers = append(n.keepers, vlDetAccount(seed, "keeper", i))
	}
	// order the accounts like the ledger orders the keys
	pks := make([]keypair.PublicKey, 0, nKeepers)
	for _, k := range n.keepers {
		pks = append(pks, k.PublicKey)
	}
	pks = keypair.SortPublicKeys(pks)
	sorted := make([]*account.Account, 0, nKeepers)
	for _, pk := range pks {
		for _, k := range n.keepers {
			if keypair.ComparePublicKey(pk, k.PublicKey) {
				sorted = append(sorted, k)
			}
		}
	}
	n.keepers = sorted
	for i := 0; i < nUsers; i++ {
		n.users = append(n.users, vlDetAccount(seed, "user", i))
	}
	for i := 0; i < 3; i++ {
		n.foreign = append(n.foreign, vlDetAccount(seed, "foreign", i))
	}
	for i := 0; i < nEth; i++ {
		n.ethKeys = append(n.ethKeys, vlDetEthKey(seed, i))
	}
	config.DefConfig.Genesis.ConsensusType = "solo"
	config.DefConfig.Genesis.SOLO.GenBlockTime = 3
	var bks []string
	for _, k := range n.keepers {
		bks = append(bks, hex.EncodeToString(keypair.SerializePublicKey(k.PublicKey)))
	}
	config.DefConfig.Genesis.SOLO.Bookkeepers = bks
	config.DefConfig.P2PNode.NetworkId = config.NETWORK_ID_SOLO_NET
	config.DefConfig.Common.EnableEventLog = true
	gb, err := genesis.BuildGenesisBlock(n.keeperKeys(), config.DefConfig.Genesis)
	vhMust(err)
	n.genesis = gb
	n.ongHolder = n.keepers[0]
	if nKeepers == 1 {
		n.ontAddr = n.keepers[0].Address
	} else {
		a, err := types.AddressFromMultiPubKeys(n.keeperKeys(), (5*nKeepers+6)/7)
		vhMust(err)
		n.ontAddr = a
	}
	return n
}

func (n *vlNet) keeperKeys() []keypair.PublicKey {
	pks := make([]keypair.PublicKey, 0, len(n.keepers))
	for _, k := range n.keepers {
		pks = append(pks, k.PublicKey)
	}
	return pks
}

// vlOpen opens (creating it when the directory is empty) a ledger of the network; reopening an existing
// directory runs LedgerStoreImp.init (loadCurrentBlock, loadHeaderIndexList, recoverStore, LoadBloomBits).
func (n *vlNet) vlOpen(dir string) (*LedgerStoreImp, error) {
	ls, err := NewLedgerStore(dir, 0)
	if err != nil {
		return nil, err
	}
	if err := ls.InitLedgerStoreWithGenesisBlock(n.genesis, n.keeperKeys()); err != nil {
		ls.Close()
		return nil, err
	}
	return ls, nil
}

func vlTempDir(tag string) string {
	base := os.Getenv("VERIF_SCRATCH")
	if base == "" {
		base = os.TempDir()
	}
	base = filepath.Join(base, "ledgers")
	vhMust(os.MkdirAll(base, 0o755))
	d, err := ioutil.TempDir(base, "b-ledger-"+tag+"-")
	vhMust(err)
	return d
}

// ---------------------------------------------------------------------------------------------- transactions

func vlSignTx(tx *types.MutableTransaction, signers ...*account.Account) {
	h := tx.Hash()
	for _, a := range signers {
		sig, err := signature.Sign(a, h[:])
		vhMust(err)
		tx.Sigs = append(tx.Sigs, types.Sig{PubKeys: []keypair.PublicKey{a.PublicKey}, M: 1, SigData: [][]byte{sig}})
	}
}

// vlMultiSignTx adds one m-of-n signature of the given keys (signed by the first m accounts).
func vlMultiSignTx(tx *types.MutableTransaction, m int, accts []*account.Account) {
	h := tx.Hash()
	var pks []keypair.PublicKey
	var sigs [][]byte
	for i, a := range accts {
		pks = append(pks, a.PublicKey)
		if i < m {
			sig, err := signature.Sign(a, h[:])
			vhMust(err)
			sigs = append(sigs, sig)
		}
	}
	tx.Sigs = append(tx.Sigs, types.Sig{PubKeys: pks, M: uint16(m), SigData: sigs})
}

func vlNativeTx(contract common.Address, method string, params []interface{}, nonce uint32, gasPrice, gasLimit uint64, payer common.Address) *types.MutableTransaction {
	code, err := cutils.BuildNativeInvokeCode(contract, 0, method, params)
	vhMust(err)
	return &types.MutableTransaction{GasPrice: gasPrice, GasLimit: gasLimit, TxType: types.InvokeNeo, Nonce: nonce,
		Payer: payer, Payload: &payload.InvokeCode{Code: code}}
}

// vlTransfer builds a signed ONT ("ont") or ONG ("ong") transfer.
func vlTransfer(token string, from *account.Account, to common.Address, amount uint64, nonce uint32, gasPrice uint64) *types.Transaction {
	c := nutils.OntContractAddress
	if token == "ong" {
		c = nutils.OngContractAddress
	}
	st := &ont.TransferState{From: from.Address, To: to, Value: amount}
	mt := vlNativeTx(c, "transfer", []interface{}{[]*ont.TransferState{st}}, nonce, gasPrice, vlGasLimit, from.Address)
	vlSignTx(mt, from)
	tx, err := mt.IntoImmutable()
	vhMust(err)
	return tx
}

// vlTransferMulti: ONT transfer out of the bookkeepers' multi-signature address.
func (n *vlNet) vlTransferFromOntOwner(to common.Address, amount uint64, nonce uint32) *types.Transaction {
	if len(n.keepers) == 1 {
		return vlTransfer("ont", n.keepers[0], to, amount, nonce, 0)
	}
	st := &ont.TransferState{From: n.ontAddr, To: to, Value: amount}
	mt := vlNativeTx(nutils.OntContractAddress, "transfer", []interface{}{[]*ont.TransferState{st}}, nonce, 0, vlGasLimit, n.ontAddr)
	vlMultiSignTx(mt, (5*len(n.keepers)+6)/7, n.keepers)
	tx, err := mt.IntoImmutable()
	vhMust(err)
	return tx
}

func vlBalanceTx(token string, addr common.Address) *types.Transaction {
	c := nutils.OntContractAddress
	if token == "ong" {
		c = nutils.OngContractAddress
	}
	mt := vlNativeTx(c, "balanceOf", []interface{}{addr[:]}, 0, 0, 0, common.ADDRESS_EMPTY)
	tx, err := mt.IntoImmutable()
	vhMust(err)
	return tx
}

func vlEvmSign(key *ecdsa.PrivateKey, etx *ethtypes.Transaction) *types.Transaction {
	chainId := big.NewInt(int64(config.DefConfig.P2PNode.EVMChainId))
	signed, err := ethtypes.SignTx(etx, ethtypes.NewEIP155Signer(chainId), key)
	vhMust(err)
	tx, err := types.TransactionFromEIP155(signed)
	vhMust(err)
	return tx
}

func vlGwei(v uint64) *big.Int { return new(big.Int).Mul(big.NewInt(int64(v)), big.NewInt(constants.GWei)) }

func vlEvmTransfer(key *ecdsa.PrivateKey, nonce uint64, to ethcom.Address, amount uint64) *types.Transaction {
	return vlEvmSign(key, ethtypes.NewTransaction(nonce, to, vlGwei(amount), vlGasLimit, vlGwei(vlGasPrice), nil))
}

func vlEvmCreate(key *ecdsa.PrivateKey, nonce uint64, initCode []byte) *types.Transaction {
	return vlEvmSign(key, ethtypes.NewContractCreation(nonce, big.NewInt(0), vlGasLimit, vlGwei(vlGasPrice), initCode))
}

func vlEvmCreateP(key *ecdsa.PrivateKey, nonce uint64, initCode []byte, gasPrice uint64) *types.Transaction {
	return vlEvmSign(key, ethtypes.NewContractCreation(nonce, big.NewInt(0), vlGasLimit, vlGwei(gasPrice), initCode))
}

func vlEvmCall(key *ecdsa.PrivateKey, nonce uint64, to ethcom.Address, data []byte) *types.Transaction {
	return vlEvmSign(key, ethtypes.NewTransaction(nonce, to, big.NewInt(0), vlGasLimit, vlGwei(vlGasPrice), data))
}

// vlLoggerRuntime: for every 32-byte word w of the call data emit LOG1(topic = w) with empty data, and if the
// call data length is not a multiple of 32 ... (not used).  Hand-assembled:
//   00 PUSH1 0            i := 0
//   02 JUMPDEST
//   03 DUP1 CALLDATASIZE GT ISZERO PUSH1 0x19 JUMPI      if !(calldatasize > i) goto end
//   0a DUP1 CALLDATALOAD  topic := calldata[i:i+32]
//   0c PUSH1 0 PUSH1 0 LOG1
//   11 PUSH1 0x20 ADD     i += 32
//   14 PUSH1 2 JUMP
//   17 INVALID INVALID (padding)
//   19 JUMPDEST STOP
var vlLoggerRuntime = []byte{
	0x60, 0x00,
	0x5b,
	0x80, 0x36, 0x11, 0x15, 0x60, 0x19, 0x57,
	0x80, 0x35,
	0x60, 0x00, 0x60, 0x00, 0xa1,
	0x60, 0x20, 0x01,
	0x60, 0x02, 0x56,
	0xfe, 0xfe,
	0x5b, 0x00,
}

// vlLogger2Runtime: emits ONE LOG2(topic1 = calldata[0:32], topic2 = calldata[32:64]) with 32 bytes of data
// (calldata[64:96]) and stores topic1 at storage slot 0 (so that the transaction also writes EVM state).
//   PUSH1 0x40 CALLDATALOAD PUSH1 0 MSTORE                mem[0:32] = calldata[64:96]
//   PUSH1 0 CALLDATALOAD PUSH1 0 SSTORE                   storage[0] = topic1
//   PUSH1 0x20 CALLDATALOAD  PUSH1 0 CALLDATALOAD  PUSH1 0x20 PUSH1 0 LOG2   STOP
var vlLogger2Runtime = []byte{
	0x60, 0x40, 0x35, 0x60, 0x00, 0x52,
	0x60, 0x00, 0x35, 0x60, 0x00, 0x55,
	0x60, 0x20, 0x35, 0x60, 0x00, 0x35, 0x60, 0x20, 0x60, 0x00, 0xa2, 0x00,
}

// vlInitCode wraps runtime code into init code:  PUSH1 len DUP1 PUSH1 0x0b PUSH1 0 CODECOPY PUSH1 0 RETURN <runtime>
func vlInitCode(runtime []byte) []byte {
	if len(runtime) > 255 {
		panic("runtime too long")
	}
	init := []byte{0x60, byte(len(runtime)), 0x80, 0x60, 0x0b, 0x60, 0x00, 0x39, 0x60, 0x00, 0xf3}
	return append(init, runtime...)
}

func vlTopic(i int) ethcom.Hash {
	return ethcom.BytesToHash(ethcrypto.Keccak256([]byte(fmt.Sprintf("verif-topic-%d", i))))
}

// ---------------------------------------------------------------------------------------------- blocks

type vlBlockOpt struct {
	Height     *uint32
	PrevHash   *common.Uint256
	Timestamp  *uint32
	BlockRoot  *common.Uint256
	TxRoot     *common.Uint256
	Signers    []*account.Account   // who signs (default: the first m bookkeepers)
	Keepers    []keypair.PublicKey  // header.Bookkeepers (default: all bookkeepers)
	NoSign     bool
	ConsensusData uint64
}

// vlHeaderFor builds the unsigned header of a next block on top of (prev hash, height) of ledger ls.
func (n *vlNet) vlMakeBlock(ls *LedgerStoreImp, txs []*types.Transaction, o *vlBlockOpt) *types.Block {
	if o == nil {
		o = &vlBlockOpt{}
	}
	height, prevHash := ls.GetCurrentBlock()
	prevHdr, err := ls.GetHeaderByHash(prevHash)
	vhMust(err)
	var hashes []common.Uint256
	for _, t := range txs {
		hashes = append(hashes, t.Hash())
	}
	txRoot := common.ComputeMerkleRoot(hashes)
	if o.TxRoot != nil {
		txRoot = *o.TxRoot
	}
	blockRoot := ls.GetBlockRootWithNewTxRoots(height+1, []common.Uint256{txRoot})
	next, err := types.AddressFromBookkeepers(n.keeperKeys())
	vhMust(err)
	hdr := &types.Header{
		Version:          0,
		PrevBlockHash:    prevHash,
		TransactionsRoot: txRoot,
		BlockRoot:        blockRoot,
		Timestamp:        prevHdr.Timestamp + 1,
		Height:           height + 1,
		ConsensusData:    uint64(height+1) + o.ConsensusData,
		NextBookkeeper:   next,
	}
	if o.Height != nil {
		hdr.Height = *o.Height
	}
	if o.PrevHash != nil {
		hdr.PrevBlockHash = *o.PrevHash
	}
	if o.Timestamp != nil {
		hdr.Timestamp = *o.Timestamp
	}
	if o.BlockRoot != nil {
		hdr.BlockRoot = *o.BlockRoot
	}
	blk := &types.Block{Header: hdr, Transactions: txs}
	hdr.Bookkeepers = n.keeperKeys()
	if o.Keepers != nil {
		hdr.Bookkeepers = o.Keepers
	}
	if !o.NoSign {
		signers := o.Signers
		if signers == nil {
			m := len(n.keepers) - (len(n.keepers)-1)/3
			signers = n.keepers[:m]
		}
		n.vlSignBlock(blk, signers)
	}
	return blk
}

func (n *vlNet) vlSignBlock(blk *types.Block, signers []*account.Account) {
	h := blk.Hash()
	blk.Header.SigData = nil
	for _, a := range signers {
		sig, err := signature.Sign(a, h[:])
		vhMust(err)
		blk.Header.SigData = append(blk.Header.SigData, sig)
	}
}

// vlCloneBlock deep-copies a block through its wire encoding WITHOUT the checks of Block.Deserialization
// (header and transactions are decoded separately), so that mutations never alias the original.
func vlCloneBlock(b *types.Block) *types.Block {
	sink := common.NewZeroCopySink(nil)
	b.Header.Serialization(sink)
	h := new(types.Header)
	vhMust(h.Deserialization(common.NewZeroCopySource(sink.Bytes())))
	nb := &types.Block{Header: h}
	for _, t := range b.Transactions {
		nb.Transactions = append(nb.Transactions, vlCloneTx(t))
	}
	return nb
}

func vlCloneTx(t *types.Transaction) *types.Transaction {
	sink := common.NewZeroCopySink(nil)
	t.Serialization(sink)
	nt := new(types.Transaction)
	vhMust(nt.Deserialization(common.NewZeroCopySource(sink.Bytes())))
	return nt
}

// vlStateRoot executes the block on the ledger (no commit) and returns the state merkle root a proposer would
// announce; the error of ExecuteBlock is returned as is.
func vlStateRoot(ls *LedgerStoreImp, blk *types.Block) (common.Uint256, error) {
	res, err := ls.ExecuteBlock(blk)
	return res.MerkleRoot, err
}

// ---------------------------------------------------------------------------------------------- dumps

type vlDump struct {
	Block, State, Event, Cross, Merkle string // sha256 digests (hex, 16 chars) of the full key/value content
	NBlock, NState, NEvent       int
}

func vlDigestIter(it scom.StoreIterator) (string, int) { return vlDigestIterSkip(it, nil) }

func vlDigestIterSkip(it scom.StoreIterator, skip []byte) (string, int) {
	h := sha256.New()
	n := 0
	var l [8]byte
	for ok := it.First(); ok; ok = it.Next() {
		k, v := it.Key(), it.Value()
		if skip != nil && bytes.Equal(k, skip) {
			continue
		}
		binary.LittleEndian.PutUint32(l[:4], uint32(len(k)))
		binary.LittleEndian.PutUint32(l[4:], uint32(len(v)))
		h.Write(l[:])
		h.Write(k)
		h.Write(v)
		n++
	}
	vhMust(it.Error())
	it.Release()
	return hex.EncodeToString(h.Sum(nil))[:16], n
}

// vlDumpStores hashes the whole persisted content: the block, state, event and cross-chain LevelDB stores and
// the merkle hash file.
func vlDumpStores(ls *LedgerStoreImp, dir string) vlDump {
	var d vlDump
	d.Block, d.NBlock = vlDigestIter(ls.blockStore.store.NewIterator(nil))
	d.State, d.NState = vlDigestIter(ls.stateStore.store.NewIterator(nil))
	d.Event, d.NEvent = vlDigestIter(ls.eventStore.store.NewIterator(nil))
	d.Cross, _ = vlDigestIter(ls.crossChainStore.store.NewIterator(nil))
	mb, err := ioutil.ReadFile(filepath.Join(dir, MerkleTreeStorePath))
	if err != nil && !os.IsNotExist(err) {
		panic(err)
	}
	mh := sha256.Sum256(mb)
	d.Merkle = hex.EncodeToString(mh[:])[:16]
	return d
}

func (d vlDump) String() string {
	return strings.Join([]string{d.Block, d.State, d.Event, d.Cross, d.Merkle}, "/")
}

// vlKV is a full key/value listing of one store (used to name the differing keys in a violation report).
func vlListStore(it scom.StoreIterator) map[string]string {
	m := map[string]string{}
	for ok := it.First(); ok; ok = it.Next() {
		m[hex.EncodeToString(it.Key())] = hex.EncodeToString(it.Value())
	}
	it.Release()
	return m
}

func vlDiffKeys(a, b map[string]string) []string {
	var out []string
	for k, v := range a {
		if w, ok := b[k]; !ok {
			out = append(out, "-"+k)
		} else if w != v {
			out = append(out, "~"+k)
		}
	}
	for k := range b {
		if _, ok := a[k]; !ok {
			out = append(out, "+"+k)
		}
	}
	sort.Strings(out)
	if len(out) > 8 {
		out = append(out[:8], fmt.Sprintf("... %d more", len(out)-8))
	}
	return out
}

func vlShort(h common.Uint256) string { return h.ToHexString()[:12] }

func vlBlockBytesEqual(a, b *types.Block) bool {
	if a == nil || b == nil {
		return false
	}
	return bytes.Equal(a.ToArray(), b.ToArray())
}

func vlHeaderBytesEqual(a, b *types.Header) bool {
	if a == nil || b == nil {
		return false
	}
	sa, sb := common.NewZeroCopySink(nil), common.NewZeroCopySink(nil)
	a.Serialization(sa)
	b.Serialization(sb)
	return bytes.Equal(sa.Bytes(), sb.Bytes())
}

func vlTxBytesEqual(a, b *types.Transaction) bool {
	if a == nil || b == nil {
		return false
	}
	sa, sb := common.NewZeroCopySink(nil), common.NewZeroCopySink(nil)
	a.Serialization(sa)
	b.Serialization(sb)
	return bytes.Equal(sa.Bytes(), sb.Bytes())
}
