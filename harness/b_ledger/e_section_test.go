package ledgerstore

// One full bloom-bits section (BloomBitsBlocks = 4096 blocks) on a real ledger: EVM logs in the first blocks, around
// restarts and in the last blocks of the section and the first of the next one; restarts inside the section (the bloom
// cache has to be reloaded by LoadBloomBits).  Reports every per-block bloom and the decompressed index vectors.

import (
	"fmt"
	"os"
	"testing"

	"github.com/ethereum/go-ethereum/common/bitutil"
	ethtypes "github.com/ethereum/go-ethereum/core/types"
	"github.com/ontio/ontology/common"
	"github.com/ontio/ontology/core/types"
)

type lqSectionIn struct {
	N        int                    `json:"n"`        // real height to reach
	LogsAt   map[string][][2]string `json:"logsAt"`   // real height -> logs
	Restarts []int                  `json:"restarts"` // real heights after which the ledger is reopened
	NKeepers int                    `json:"nkeepers"`
}

func TestVerifLQSection(t *testing.T) {
	var sin lqSectionIn
	vhIn(&sin)
	out := vhOpenOut()
	defer out.Close()
	in := &lqInput{Shapes: map[string]lqShape{}, NKeepers: sin.NKeepers}
	r := newLqRun(in)
	defer os.RemoveAll(lqLedgerBase())
	r.start(false)
	restart := map[int]bool{}
	for _, h := range sin.Restarts {
		restart[h] = true
	}
	emitted := map[int][][2]string{}
	for int(r.ls.GetCurrentBlockHeight()) < sin.N {
		real := int(r.ls.GetCurrentBlockHeight()) + 1
		var txs []*types.Transaction
		if logs, ok := sin.LogsAt[fmt.Sprint(real)]; ok {
			sh := lqShape{Ntx: len(logs), Logs: logs}
			r.in.Shapes[lqShapeName(sh)] = sh
			txs = r.modelTxs(lqShapeName(sh), 0)
			emitted[real] = logs
		}
		blk := r.n.vlMakeBlock(r.ls, txs, nil)
		root := common.UINT256_EMPTY
		if len(txs) > 0 {
			var err error
			root, err = vlStateRoot(r.ls, blk)
			vhMust(err)
		}
		vhMust(r.ls.AddBlock(blk, nil, root))
		r.names = append(r.names, "x")
		if restart[real] {
			vhMust(r.ls.Close())
			ls, err := r.n.vlOpen(r.dir)
			if err != nil {
				out.Emit(map[string]interface{}{"event": "RestartFailed", "height": real, "err": err.Error()})
				return
			}
			r.ls = ls
		}
	}
	// per-block blooms (non-empty ones) and all logs the event store knows
	ls := r.ls
	cur := int(ls.GetCurrentBlockHeight())
	blooms := map[int]ethtypes.Bloom{}
	for h := 0; h <= cur; h++ {
		bl, err := ls.GetBloomData(uint32(h))
		vhMust(err)
		blooms[h] = bl
		if bits := lqBloomBits(bl); len(bits) > 0 || emitted[h] != nil {
			out.Emit(map[string]interface{}{"event": "Bloom", "h": h, "bits": bits, "logs": emitted[h]})
		}
	}
	// the index of every complete section
	nsec := (cur + 1) / BloomBitsBlocks
	for sec := 0; sec < nsec; sec++ {
		for bit := 0; bit < ethtypes.BloomBitLength; bit++ {
			comp, err := ReadBloomBits(ls.GetIndexStore(), uint(bit), uint32(sec))
			if err != nil {
				out.Emit(map[string]interface{}{"event": "IndexMissing", "sec": sec, "bit": bit, "err": err.Error()})
				continue
			}
			vec, err := bitutil.DecompressBytes(comp, BloomBitsBlocks/8)
			if err != nil {
				out.Emit(map[string]interface{}{"event": "IndexCorrupt", "sec": sec, "bit": bit, "err": err.Error()})
				continue
			}
			pos := []int{}
			for i := 0; i < BloomBitsBlocks; i++ {
				if vec[i/8]&(1<<uint(7-i%8)) != 0 {
					pos = append(pos, i)
				}
			}
			if len(pos) > 0 {
				out.Emit(map[string]interface{}{"event": "Index", "sec": sec, "bit": bit, "pos": pos})
			}
		}
	}
	_, status := ls.BloomStatus()
	out.Emit(map[string]interface{}{"event": "End", "cur": cur, "sections": nsec, "S": BloomBitsBlocks, "bloomStatusSections": status,
		"filterStart": ls.GetFilterStart()})
}
