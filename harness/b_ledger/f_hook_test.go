//go:build verif

package ledgerstore

// with the build tag "verif" the commit points of submitBlock call VerifHook
func lqSetHook(f func(name string, height uint32)) bool {
	VerifHook = f
	return true
}
