package types

// Conformance harness for spec/BlockWire.tla (C20).

import (
	"crypto/elliptic"
	"encoding/hex"
	"fmt"
	"testing"

	"github.com/ontio/ontology-crypto/ec"
	"github.com/ontio/ontology-crypto/keypair"
	"github.com/ontio/ontology/common"
)

type bwKey struct {
	What  string `json:"what"`
	Enc   []int  `json:"enc"`
	Ok    bool   `json:"ok"`
	Canon []int  `json:"canon"`
	Err   string `json:"err,omitempty"`
}

func bwProbe(what string, enc []byte) (k bwKey) {
	k = bwKey{What: what, Enc: twInts(enc)}
	defer func() {
		if e := recover(); e != nil {
			k.Ok = false
			k.Err = "panic: " + fmt.Sprint(e)
		}
	}()
	pk, err := keypair.DeserializePublicKey(enc)
	if err != nil {
		k.Err = err.Error()
		return
	}
	k.Ok = true
	k.Canon = twInts(keypair.SerializePublicKey(pk))
	return
}

// TestVerifBlockGen probes keypair.DeserializePublicKey / SerializePublicKey with candidate encodings of real keys
// (the public-key codec is outside C20: the specification takes its accept set and re-serialization as a table).
func TestVerifBlockGen(t *testing.T) {
	out := vhOpenOut()
	defer out.Close()
	for n := 0; n < 2; n++ {
		_, pub, err := keypair.GenerateKeyPair(keypair.PK_ECDSA, keypair.P256)
		vhMust(err)
		canon := keypair.SerializePublicKey(pub)
		out.Emit(bwProbe("canonical", canon))
		if n > 0 {
			continue
		}
		out.Emit(bwProbe("alt:algorithm-and-curve-prefix", append([]byte{byte(keypair.PK_ECDSA), keypair.P256}, canon...)))
		unc := bwUncompressed(pub)
		if unc != nil {
			out.Emit(bwProbe("alt:uncompressed", unc))
			out.Emit(bwProbe("alt:algorithm-and-curve-prefix-uncompressed", append([]byte{byte(keypair.PK_ECDSA), keypair.P256}, unc...)))
		}
		bad := append([]byte{}, canon...)
		bad[0] = 5
		out.Emit(bwProbe("bad:prefix", bad))
		out.Emit(bwProbe("bad:short", canon[:3]))
		out.Emit(bwProbe("bad:truncated", canon[:32]))
		out.Emit(bwProbe("bad:empty", []byte{}))
		long := append(append([]byte{}, canon...), 0)
		out.Emit(bwProbe("bad:extra-byte", long))
	}
}

// uncompressed SEC1 form 04 || X || Y of a P-256 key
func bwUncompressed(pub keypair.PublicKey) []byte {
	k, ok := pub.(*ec.PublicKey)
	if !ok {
		return nil
	}
	return elliptic.Marshal(k.Curve, k.X, k.Y)
}

type bwIn struct {
	Cases  [][]int   `json:"cases"`
	Leaves [][][]int `json:"leaves"`
}

type bwOut struct {
	I       int      `json:"i"`
	Ok      bool     `json:"ok"`
	Err     string   `json:"err,omitempty"`
	Panic   string   `json:"panic,omitempty"`
	N       int      `json:"n"`
	ToArrOk bool     `json:"toarrok"`
	ToArr   string   `json:"toarr,omitempty"`
	Hash    string   `json:"hash"`
	HdHash  string   `json:"hdhash"`
	TxHash  []string `json:"txhash"`
	NKeys   int      `json:"nkeys"`
	NSigs   int      `json:"nsigs"`
	// BlockFromRawBytes on the same bytes
	RawOk     bool   `json:"rawok"`
	RawHash   string `json:"rawhash"`
	RawToArr  bool   `json:"rawtoarr"`
	RawPanic  string `json:"rawpanic,omitempty"`
	// HeaderFromRawBytes on the same bytes
	HdrOk    bool   `json:"hdrok"`
	HdrToArr bool   `json:"hdrtoarr"`
	HdrN     int    `json:"hdrn"`
	Root     string `json:"root,omitempty"`
}

func bwRun(raw []byte) (o bwOut) {
	input := append([]byte{}, raw...)
	func() {
		defer func() {
			if e := recover(); e != nil {
				o.Ok = false
				o.Panic = fmt.Sprint(e)
			}
		}()
		src := common.NewZeroCopySource(append([]byte{}, raw...))
		blk := new(Block)
		if err := blk.Deserialization(src); err != nil {
			o.Err = err.Error()
			return
		}
		o.Ok = true
		o.N = int(src.Pos())
		arr := blk.ToArray()
		o.ToArrOk = o.N <= len(input) && string(arr) == string(input[:o.N])
		if !o.ToArrOk {
			o.ToArr = hex.EncodeToString(arr)
		}
		h := blk.Hash()
		o.Hash = hex.EncodeToString(h[:])
		hh := blk.Header.Hash()
		o.HdHash = hex.EncodeToString(hh[:])
		for _, tx := range blk.Transactions {
			th := tx.Hash()
			o.TxHash = append(o.TxHash, hex.EncodeToString(th[:]))
		}
		o.NKeys, o.NSigs = len(blk.Header.Bookkeepers), len(blk.Header.SigData)
	}()
	func() {
		defer func() {
			if e := recover(); e != nil {
				o.RawOk = false
				o.RawPanic = fmt.Sprint(e)
			}
		}()
		blk, err := BlockFromRawBytes(append([]byte{}, raw...))
		if err != nil {
			return
		}
		o.RawOk = true
		h := blk.Hash()
		o.RawHash = hex.EncodeToString(h[:])
		arr := blk.ToArray()
		o.RawToArr = len(arr) <= len(input) && string(arr) == string(input[:len(arr)])
	}()
	func() {
		defer func() {
			if e := recover(); e != nil {
				o.HdrOk = false
				o.RawPanic += " header: " + fmt.Sprint(e)
			}
		}()
		src := common.NewZeroCopySource(append([]byte{}, raw...))
		hd := new(Header)
		if err := hd.Deserialization(src); err != nil {
			return
		}
		o.HdrOk = true
		o.HdrN = int(src.Pos())
		o.HdrToArr = string(hd.ToArray()) == string(input[:o.HdrN])
	}()
	return
}

func TestVerifBlockCalls(t *testing.T) {
	var in bwIn
	vhIn(&in)
	out := vhOpenOut()
	defer out.Close()
	for i, c := range in.Cases {
		o := bwRun(twBytes(c))
		o.I = i
		out.Emit(&o)
	}
	// common.ComputeMerkleRoot on explicit leaf lists
	for i, ls := range in.Leaves {
		hs := make([]common.Uint256, len(ls))
		for j, l := range ls {
			copy(hs[j][:], twBytes(l))
		}
		o := bwOut{I: -1 - i}
		func() {
			defer func() {
				if e := recover(); e != nil {
					o.Panic = fmt.Sprint(e)
				}
			}()
			r := common.ComputeMerkleRoot(hs)
			o.Root = hex.EncodeToString(r[:])
			o.Ok = true
		}()
		out.Emit(&o)
	}
}
