package types

// Conformance harness for spec/TxWire.tla (C19): generator of really signed EIP-155 transactions (as RLP
// item lists for the TLC model), executor of the TLC-generated cases on TransactionFromRawBytes /
// Transaction.Deserialization / ToArray / Hash, and a seeded random mutation driver whose log is
// validated by TxWire_Trace.

import (
	"crypto/sha256"
	"encoding/hex"
	"fmt"
	"math/big"
	"math/rand"
	"testing"

	ethcomm "github.com/ethereum/go-ethereum/common"
	ethtypes "github.com/ethereum/go-ethereum/core/types"
	ethcrypto "github.com/ethereum/go-ethereum/crypto"
	"github.com/ontio/ontology/common"
	"github.com/ontio/ontology/common/config"
	"github.com/ontio/ontology/core/payload"
)

func twBytes(v []int) []byte {
	b := make([]byte, len(v))
	for i, x := range v {
		b[i] = byte(x)
	}
	return b
}

func twInts(b []byte) []int {
	v := make([]int, len(b))
	for i, x := range b {
		v[i] = int(x)
	}
	return v
}

// ---------------------------------------------------------------- EIP-155 generator

type twGenOut struct {
	Tag   string  `json:"tag"`
	Items [][]int `json:"items"`
	Payer []int   `json:"payer"`
}

func twItems(tx *ethtypes.Transaction, v, r, s *big.Int) [][]int {
	to := []byte{}
	if tx.To() != nil {
		to = tx.To().Bytes()
	}
	return [][]int{twInts(new(big.Int).SetUint64(tx.Nonce()).Bytes()), twInts(tx.GasPrice().Bytes()),
		twInts(new(big.Int).SetUint64(tx.Gas()).Bytes()), twInts(to), twInts(tx.Value().Bytes()), twInts(tx.Data()),
		twInts(v.Bytes()), twInts(r.Bytes()), twInts(s.Bytes())}
}

func TestVerifTxGen(t *testing.T) {
	out := vhOpenOut()
	defer out.Close()
	rng := vhRand()
	keyBytes := make([]byte, 32)
	rng.Read(keyBytes)
	keyBytes[0] &= 0x7f
	keyBytes[31] |= 1
	key, err := ethcrypto.ToECDSA(keyBytes)
	vhMust(err)
	payer := ethcrypto.PubkeyToAddress(key.PublicKey)
	// the chain id the decoder expects when CheckChainID is on (the package's own tests switch it on)
	chainID := big.NewInt(int64(config.DefConfig.P2PNode.EVMChainId))
	signer := ethtypes.NewEIP155Signer(chainID)
	gwei := big.NewInt(1000000000)
	to := ethcomm.BytesToAddress([]byte{1, 2, 3, 4, 5, 6, 7, 8, 9, 10, 11, 12, 13, 14, 15, 16, 17, 18, 19, 20})
	emit := func(tag string, tx *ethtypes.Transaction) {
		stx, err := ethtypes.SignTx(tx, signer, key)
		vhMust(err)
		v, r, s := stx.RawSignatureValues()
		out.Emit(&twGenOut{Tag: tag, Items: twItems(stx, v, r, s), Payer: twInts(payer.Bytes())})
		if tag == "valid" {
			// the malleated twin: s' = N - s, recovery bit flipped
			n := ethcrypto.S256().Params().N
			s2 := new(big.Int).Sub(n, s)
			v2 := new(big.Int).Set(v)
			if v2.Bit(0) == 1 { // 35+2c (odd) <-> 36+2c (even)
				v2.Add(v2, big.NewInt(1))
			} else {
				v2.Sub(v2, big.NewInt(1))
			}
			out.Emit(&twGenOut{Tag: "high-s", Items: twItems(stx, v2, r, s2), Payer: twInts(payer.Bytes())})
		}
	}
	price := new(big.Int).Mul(big.NewInt(2500), gwei)
	emit("valid", ethtypes.NewTransaction(1, to, big.NewInt(int64(rng.Intn(1000000))), 21000, price, []byte{0xab, byte(rng.Intn(256))}))
	emit("valid", ethtypes.NewContractCreation(uint64(rng.Intn(100)+128), big.NewInt(0), 300000, price, []byte{0x60, 0x00}))
	emit("not-gwei", ethtypes.NewTransaction(2, to, big.NewInt(5), 21000, new(big.Int).Add(price, big.NewInt(1)), nil))
	emit("big-nonce", ethtypes.NewTransaction(1<<32, to, big.NewInt(5), 21000, price, nil))
}

// ---------------------------------------------------------------- case executor

type twScaled struct {
	Delta int `json:"delta"`
	Trail int `json:"trail"`
}

type twCase struct {
	Kind   string   `json:"kind"`
	Raw    []int    `json:"raw"`
	Scaled twScaled `json:"scaled"`
}

type twIn struct {
	Cases  []twCase `json:"cases"`
	Seeds  [][]int  `json:"seeds"`
	NTrace int      `json:"ntrace"`
}

type twOut struct {
	I        int    `json:"i"`
	Ok       bool   `json:"ok"`
	Err      string `json:"err,omitempty"`
	Panic    string `json:"panic,omitempty"`
	N        int    `json:"n"`        // consumed bytes = len(tx.Raw)
	RawOk    bool   `json:"rawok"`    // tx.Raw == input[:n]
	ToArrOk  bool   `json:"toarrok"`  // tx.ToArray() == input[:n]
	ReencOk  bool   `json:"reencok"`  // field-by-field re-serialization == input[:n]
	Reenc    string `json:"reenc,omitempty"`
	Hash     string `json:"hash"`
	Payer    string `json:"payer,omitempty"`
	Type     int    `json:"type"`
	InLen    int    `json:"inlen"`
	// the same bytes through Transaction.Deserialization at offset > 0 of a longer source (the block path)
	EmbOk   bool   `json:"embok"`
	EmbN    int    `json:"embn"`
	EmbHash string `json:"embhash"`
	EmbPanic string `json:"embpanic,omitempty"`
}

// field-by-field re-serialization through the real serializers
func twReencode(tx *Transaction) (b []byte, perr string) {
	defer func() {
		if e := recover(); e != nil {
			perr = fmt.Sprint(e)
		}
	}()
	sink := common.NewZeroCopySink(nil)
	if tx.TxType == EIP155 {
		sink.WriteByte(tx.Version)
		sink.WriteByte(byte(tx.TxType))
		tx.Payload.(*payload.EIP155Code).Serialization(sink)
		return sink.Bytes(), ""
	}
	m := &MutableTransaction{Version: tx.Version, TxType: tx.TxType, Nonce: tx.Nonce, GasPrice: tx.GasPrice, GasLimit: tx.GasLimit,
		Payer: tx.Payer, Payload: tx.Payload, attributes: tx.attributes}
	if err := m.serializeUnsigned(sink); err != nil {
		return nil, err.Error()
	}
	sink.WriteVarUint(uint64(len(tx.Sigs)))
	for _, s := range tx.Sigs {
		s.Serialization(sink)
	}
	return sink.Bytes(), ""
}

func twRun(raw []byte) (o twOut) {
	o.InLen = len(raw)
	input := append([]byte{}, raw...)
	func() {
		defer func() {
			if e := recover(); e != nil {
				o.Ok = false
				o.Panic = fmt.Sprint(e)
			}
		}()
		tx, err := TransactionFromRawBytes(raw)
		if err != nil {
			o.Err = err.Error()
			return
		}
		o.Ok = true
		o.N = len(tx.Raw)
		o.Type = int(tx.TxType)
		pre := input
		if o.N <= len(input) {
			pre = input[:o.N]
		}
		o.RawOk = string(tx.Raw) == string(pre)
		o.ToArrOk = string(tx.ToArray()) == string(pre)
		re, perr := twReencode(tx)
		o.ReencOk = perr == "" && string(re) == string(pre)
		if !o.ReencOk {
			o.Reenc = perr + ":" + hex.EncodeToString(re)
			if len(o.Reenc) > 400 {
				o.Reenc = o.Reenc[:400]
			}
		}
		h := tx.Hash()
		o.Hash = hex.EncodeToString(h[:])
		o.Payer = hex.EncodeToString(tx.Payer[:])
	}()
	// embedded: 3 junk bytes, the transaction, 2 junk bytes
	func() {
		defer func() {
			if e := recover(); e != nil {
				o.EmbOk = false
				o.EmbPanic = fmt.Sprint(e)
			}
		}()
		buf := append([]byte{9, 9, 9}, input...)
		buf = append(buf, 7, 7)
		src := common.NewZeroCopySource(buf)
		src.Skip(3)
		tx := new(Transaction)
		if err := tx.Deserialization(src); err != nil {
			return
		}
		o.EmbOk = true
		o.EmbN = int(src.Pos()) - 3
		h := tx.Hash()
		o.EmbHash = hex.EncodeToString(h[:])
	}()
	return
}

// an invoke transaction without signatures whose total length is MAX_TX_SIZE + delta, plus trail zero bytes
func twScaledRaw(sc twScaled, model []byte) []byte {
	total := MAX_TX_SIZE + sc.Delta
	codeLen := total - 49 // 42 header + 5 length prefix + code + attributes + sig count
	sink := common.NewZeroCopySink(nil)
	sink.WriteBytes(model[:42])
	sink.WriteVarBytes(make([]byte, codeLen))
	sink.WriteByte(0)
	sink.WriteByte(0)
	if len(sink.Bytes()) != total {
		panic("harness: scaled transaction has the wrong size")
	}
	return append(sink.Bytes(), make([]byte, sc.Trail)...)
}

func TestVerifTxCalls(t *testing.T) {
	var in twIn
	vhIn(&in)
	out := vhOpenOut()
	defer out.Close()
	for i, c := range in.Cases {
		raw := twBytes(c.Raw)
		if c.Scaled.Trail >= 0 {
			raw = twScaledRaw(c.Scaled, raw)
		}
		o := twRun(raw)
		o.I = i
		out.Emit(&o)
	}
}

// ---------------------------------------------------------------- random mutation driver (code -> spec)

func twMutate(rng *rand.Rand, seed []byte) []byte {
	b := append([]byte{}, seed...)
	n := 1 + rng.Intn(2)
	for k := 0; k < n; k++ {
		switch rng.Intn(9) {
		case 0: // byte flip
			if len(b) > 0 {
				b[rng.Intn(len(b))] ^= byte(1 << uint(rng.Intn(8)))
			}
		case 1: // set a byte to a varuint marker / boundary value
			if len(b) > 0 {
				b[rng.Intn(len(b))] = []byte{0, 1, 0xFC, 0xFD, 0xFE, 0xFF, 0xd0, 0xd1, 0xd2, 0xd3, 16, 17}[rng.Intn(12)]
			}
		case 2: // truncate
			if len(b) > 0 {
				b = b[:rng.Intn(len(b))]
			}
		case 3: // insert
			p := rng.Intn(len(b) + 1)
			b = append(b[:p], append([]byte{byte(rng.Intn(256))}, b[p:]...)...)
		case 4: // delete
			if len(b) > 0 {
				p := rng.Intn(len(b))
				b = append(b[:p], b[p+1:]...)
			}
		case 5: // widen a byte into a 3-byte varuint (non-minimal if it was a length prefix)
			if len(b) > 42 {
				p := 42 + rng.Intn(len(b)-42)
				if b[p] < 0xFD {
					b = append(b[:p], append([]byte{0xFD, b[p], 0}, b[p+1:]...)...)
				}
			}
		case 6: // append
			b = append(b, byte(rng.Intn(256)))
		case 7: // edit in the tail (signature list region)
			if len(b) > 4 {
				b[len(b)-1-rng.Intn(4)] ^= 0x01
			}
		case 8: // unchanged
		}
	}
	return b
}

func TestVerifTxTrace(t *testing.T) {
	var in twIn
	vhIn(&in)
	out := vhOpenOut()
	defer out.Close()
	rng := vhRand()
	for i := 0; i < in.NTrace; i++ {
		var raw []byte
		if rng.Intn(12) == 0 {
			raw = make([]byte, rng.Intn(80))
			rng.Read(raw)
			if len(raw) > 2 && rng.Intn(2) == 0 {
				raw[0] = 0
				raw[1] = byte(0xd0 + rng.Intn(4))
			}
		} else {
			raw = twMutate(rng, twBytes(in.Seeds[rng.Intn(len(in.Seeds))]))
		}
		o := twRun(raw)
		hd := sha256.Sum256(nil)
		_ = hd
		out.Emit(map[string]interface{}{"event": "FromRaw", "raw": twInts(raw), "ok": o.Ok, "n": o.N, "panic": o.Panic,
			"rawok": o.RawOk, "toarrok": o.ToArrOk, "reencok": o.ReencOk, "hash": o.Hash, "embok": o.EmbOk, "embn": o.EmbN,
			"embhash": o.EmbHash, "embpanic": o.EmbPanic, "type": o.Type})
	}
}
