package vbft

// Binds the proposer's validHeight logic of spec/TxPool.tla (action Propose) to the real
// consensus/vbft Server.validHeight: for every (validator window, ledger height) of the model the real
// method is called on a Server whose only initialised field is the real IncrementValidator.

import (
	"testing"

	"github.com/ontio/ontology/core/types"
	"github.com/ontio/ontology/validator/increment"
)

type vhCase struct {
	VBase     uint32 `json:"vbase"`
	VLen      uint32 `json:"vlen"`
	Height    uint32 `json:"height"`
	MaxBlocks int    `json:"maxBlocks"`
}

type vhOutRec struct {
	Case  int    `json:"case"`
	Valid uint32 `json:"valid"`
	Start uint32 `json:"start"`
	End   uint32 `json:"end"`
}

func TestVerifValidHeight(t *testing.T) {
	var cases []vhCase
	vhIn(&cases)
	out := vhOpenOut()
	defer out.Close()
	for i, c := range cases {
		iv := increment.NewIncrementValidator(c.MaxBlocks)
		for h := c.VBase; h < c.VBase+c.VLen; h++ {
			iv.AddBlock(&types.Block{Header: &types.Header{Height: h}})
		}
		srv := &Server{incrValidator: iv}
		valid := srv.validHeight(c.Height + 1) // proposal for block height+1
		s, e := iv.BlockRange()
		out.Emit(&vhOutRec{Case: i, Valid: valid, Start: s, End: e})
	}
}
