package crossvm_codec

// Executes the cases enumerated by TLC from spec/CrossVM.tla on the real EncodeValue / DecodeValue /
// DeserializeCallParam / parseNotify / DeserializeNotify (property C25) and reports, per case, what the
// real code did.  Values travel as {"t": type, "b": payload bytes, "e": elements}; the conversion to and
// from Go values (incl. 128-bit two's complement) is done here with math/big only.

import (
	"bytes"
	"encoding/json"
	"fmt"
	"math/big"
	"os"
	"runtime"
	"runtime/debug"
	"sync"
	"testing"

	"github.com/ontio/ontology/common"
)

type cvVal struct {
	T string  `json:"t"`
	B []int   `json:"b"`
	E []cvVal `json:"e"`
}

type cvCase struct {
	Name  string `json:"name"`
	Kind  string `json:"kind"`
	In    []int  `json:"in"`
	Out   []int  `json:"out"`
	Res   string `json:"res"`
	Val   cvVal  `json:"val"`
	Back  cvVal  `json:"back"`
	Used  int    `json:"used"`
	Reenc []int  `json:"reenc"`
}

type cvObs struct {
	I     int    `json:"i"`
	Res   string `json:"res"`
	Bad   string `json:"bad,omitempty"`
	Canon *bool  `json:"canon,omitempty"` // accepted input: does the decoded value re-encode to the bytes consumed?
}

func cvBytes(xs []int) []byte {
	b := make([]byte, len(xs))
	for i, x := range xs {
		b[i] = byte(x)
	}
	return b
}

func cvInts(b []byte) []int {
	xs := make([]int, len(b))
	for i, x := range b {
		xs[i] = int(x)
	}
	return xs
}

var cvTwo128 = new(big.Int).Lsh(big.NewInt(1), 128)
var cvTwo127 = new(big.Int).Lsh(big.NewInt(1), 127)

// 16 little-endian bytes, two's complement -> integer
func cvIntFromBytes(b []byte) *big.Int {
	be := make([]byte, len(b))
	for i := range b {
		be[len(b)-1-i] = b[i]
	}
	v := new(big.Int).SetBytes(be)
	if v.Cmp(cvTwo127) >= 0 {
		v.Sub(v, cvTwo128)
	}
	return v
}

func cvIntToBytes(v *big.Int) []byte {
	w := new(big.Int).Set(v)
	if w.Sign() < 0 {
		w.Add(w, cvTwo128)
	}
	be := w.Bytes()
	out := make([]byte, 16)
	for i := 0; i < len(be) && i < 16; i++ {
		out[i] = be[len(be)-1-i]
	}
	return out
}

func cvToGo(v cvVal) interface{} {
	b := cvBytes(v.B)
	switch v.T {
	case "bytes":
		return b
	case "str":
		return string(b)
	case "addr":
		var a common.Address
		copy(a[:], b)
		return a
	case "bool":
		return b[0] == 1
	case "int":
		return cvIntFromBytes(b)
	case "h256":
		var h common.Uint256
		copy(h[:], b)
		return h
	case "list":
		l := make([]interface{}, 0, len(v.E))
		for _, e := range v.E {
			l = append(l, cvToGo(e))
		}
		return l
	}
	panic("unknown value type " + v.T)
}

func cvFromGo(x interface{}) cvVal {
	switch val := x.(type) {
	case []byte:
		return cvVal{T: "bytes", B: cvInts(val), E: []cvVal{}}
	case string:
		return cvVal{T: "str", B: cvInts([]byte(val)), E: []cvVal{}}
	case common.Address:
		return cvVal{T: "addr", B: cvInts(val[:]), E: []cvVal{}}
	case bool:
		if val {
			return cvVal{T: "bool", B: []int{1}, E: []cvVal{}}
		}
		return cvVal{T: "bool", B: []int{0}, E: []cvVal{}}
	case *big.Int:
		return cvVal{T: "int", B: cvInts(cvIntToBytes(val)), E: []cvVal{}}
	case common.Uint256:
		return cvVal{T: "h256", B: cvInts(val[:]), E: []cvVal{}}
	case []interface{}:
		l := cvVal{T: "list", B: []int{}, E: []cvVal{}}
		for _, e := range val {
			l.E = append(l.E, cvFromGo(e))
		}
		return l
	}
	return cvVal{T: fmt.Sprintf("unexpected Go type %T", x)}
}

func cvCanon(v cvVal) string {
	if v.B == nil {
		v.B = []int{}
	}
	s := v.T + fmt.Sprint(v.B) + "["
	for _, e := range v.E {
		s += cvCanon(e) + ","
	}
	return s + "]"
}

func cvErrName(err error) string {
	switch err {
	case nil:
		return "ok"
	case ERROR_PARAM_FORMAT:
		return "format"
	case ERROR_PARAM_NOT_SUPPORTED_TYPE:
		return "type"
	}
	return "other:" + err.Error()
}

func cvCatch(f func()) (p string) {
	defer func() {
		if r := recover(); r != nil {
			p = fmt.Sprint(r)
		}
	}()
	f()
	return ""
}

func TestVerifCrossVMCases(t *testing.T) {
	var in struct {
		Cases []cvCase `json:"cases"`
	}
	vhIn(&in)
	out := vhOpenOut()
	defer out.Close()
	progress := os.Getenv("VERIF_PROGRESS")
	for i, c := range in.Cases {
		o := cvObs{I: i}
		if progress != "" && (c.Kind == "count" || c.Kind == "byte") {
			os.WriteFile(progress, []byte(fmt.Sprint(i)), 0644)
		}
		p := cvCatch(func() {
			switch c.Name {
			case "Encode":
				gv := cvToGo(c.Val)
				enc, err := EncodeValue(gv)
				if err != nil {
					o.Res = "encode-error:" + err.Error()
					return
				}
				if !bytes.Equal(enc, cvBytes(c.Out)) {
					o.Bad = fmt.Sprintf("EncodeValue bytes %x, specification %x", enc, cvBytes(c.Out))
				}
				src := common.NewZeroCopySource(enc)
				back, err := DecodeValue(src)
				o.Res = cvErrName(err)
				if err == nil {
					if cvCanon(cvFromGo(back)) != cvCanon(c.Val) {
						o.Bad += fmt.Sprintf(" decoded value %s differs from the encoded value %s", cvCanon(cvFromGo(back)), cvCanon(c.Val))
					}
					if int(src.Pos()) != c.Used {
						o.Bad += fmt.Sprintf(" consumed %d bytes, specification %d", src.Pos(), c.Used)
					}
				}
			case "Decode", "Call", "Notify":
				inb := cvBytes(c.In)
				var v interface{}
				var err error
				pos := -1
				switch c.Name {
				case "Decode":
					src := common.NewZeroCopySource(inb)
					v, err = DecodeValue(src)
					pos = int(src.Pos())
				case "Call":
					v, err = DeserializeCallParam(inb)
				case "Notify":
					v, err = parseNotify(inb)
					// the exported entry point: returns the input itself on error, a stringified value otherwise
					sv := DeserializeNotify(inb)
					if err != nil {
						if b, ok := sv.([]byte); !ok || !bytes.Equal(b, inb) {
							o.Bad += " DeserializeNotify does not return the input on error"
						}
					} else if sv == nil {
						o.Bad += " DeserializeNotify returns nil"
					}
				}
				o.Res = cvErrName(err)
				if err == nil {
					if c.Res == "ok" && cvCanon(cvFromGo(v)) != cvCanon(c.Val) {
						o.Bad += fmt.Sprintf(" decoded value %s, specification %s", cvCanon(cvFromGo(v)), cvCanon(c.Val))
					}
					if c.Res == "ok" && pos >= 0 && pos != c.Used {
						o.Bad += fmt.Sprintf(" consumed %d bytes, specification %d", pos, c.Used)
					}
					re, eerr := EncodeValue(v)
					skip := map[string]int{"Decode": 0, "Call": 1, "Notify": 4}[c.Name]
					canon := eerr == nil && len(inb) >= skip+len(re) && bytes.Equal(re, inb[skip:skip+len(re)]) && (pos < 0 || pos == len(re))
					o.Canon = &canon
					if eerr != nil {
						o.Bad += " re-encoding fails: " + eerr.Error()
					} else if c.Res == "ok" && !bytes.Equal(re, cvBytes(c.Reenc)) {
						o.Bad += fmt.Sprintf(" re-encoding %x, specification %x", re, cvBytes(c.Reenc))
					}
				}
			default:
				panic("unknown case " + c.Name)
			}
		})
		if p != "" {
			o.Res = "panic:" + p
		}
		out.Emit(o)
	}
}

// ---------------------------------------------------------------------------------------------------
// Histories of codec calls with RETAINED results (HistSpec of spec/CrossVM.tla).  A path is a behaviour
// of the specification: EncodeValue / EncodeList / EncodeBigInt / EncodePar (two goroutines) append the
// slice the real code returned -- the slice itself, never a copy -- to `real`; Decode / Compare read a
// retained slice; Release drops one.  After EVERY step every retained slice is compared with the
// specification's state (kept[i].bs) and decoded again (kept[i].v).

type cvHeld struct {
	V   cvVal `json:"v"`
	Bs  []int `json:"bs"`
	Buf int   `json:"buf"`
}

type cvHState struct {
	Kept []cvHeld `json:"kept"`
}

type cvHAct struct {
	Name string `json:"name"`
	Val  cvVal  `json:"val"`
	Val2 cvVal  `json:"val2"`
	Out  []int  `json:"out"`
	Out2 []int  `json:"out2"`
	I    int    `json:"i"`
	J    int    `json:"j"`
	Res  string `json:"res"`
	Back cvVal  `json:"back"`
	Used int    `json:"used"`
	Eq   bool   `json:"eq"`
}

type cvHStep struct {
	Act cvHAct   `json:"act"`
	To  cvHState `json:"to"`
}

type cvHPath struct {
	Init  cvHState  `json:"init"`
	Steps []cvHStep `json:"steps"`
}

type cvHBad struct {
	Step   int    `json:"step"` // 0-based index of the step after which it was observed
	Act    string `json:"act"`  // that step's action
	What   string `json:"what"` // class of the deviation
	Api    string `json:"api"`  // the call that returned the encoding concerned
	Idx    int    `json:"idx"`  // its position among the retained encodings (1-based), 0 = the call itself
	Born   int    `json:"born"` // the step that returned it
	Detail string `json:"detail"`
}

type cvHObs struct {
	I     int      `json:"i"`
	Res   string   `json:"res"`
	Steps int      `json:"steps"`
	Bad   []cvHBad `json:"bad,omitempty"`
}

type cvRetained struct {
	api  string
	born int
	enc  []byte // what the codec returned; deliberately NOT copied
	snap []byte // private copy taken at that moment
}

// one call of the codec that hands an encoding to the caller
func cvHEncode(api string, v cvVal) ([]byte, error) {
	gv := cvToGo(v)
	switch api {
	case "EncodeValue":
		return EncodeValue(gv)
	case "EncodeList":
		sink := common.NewZeroCopySink(nil)
		err := EncodeList(sink, gv.([]interface{}))
		return sink.Bytes(), err
	case "EncodeBigInt":
		sink := common.NewZeroCopySink(nil)
		err := EncodeBigInt(sink, gv.(*big.Int))
		return sink.Bytes(), err
	}
	panic("unknown encoder " + api)
}

func cvHRun(pi int, path cvHPath) (o cvHObs) {
	o = cvHObs{I: pi, Res: "ok"}
	if len(path.Init.Kept) != 0 {
		o.Res = "harness:initial state holds encodings"
		return
	}
	var real []cvRetained
	for si, st := range path.Steps {
		a := st.Act
		bad := func(what, api string, idx, born int, detail string) {
			o.Bad = append(o.Bad, cvHBad{Step: si, Act: a.Name, What: what, Api: api, Idx: idx, Born: born, Detail: detail})
		}
		keep := func(api string, enc []byte, err error, spec []int) {
			if err != nil {
				bad("encode-error", api, 0, si, err.Error())
				enc = nil
			} else if !bytes.Equal(enc, cvBytes(spec)) {
				bad("wrong-encoding", api, 0, si, fmt.Sprintf("returned %x, specification %x", enc, cvBytes(spec)))
			}
			real = append(real, cvRetained{api: api, born: si, enc: enc, snap: append([]byte(nil), enc...)})
		}
		p := cvCatch(func() {
			switch a.Name {
			case "EncodeValue", "EncodeList", "EncodeBigInt":
				enc, err := cvHEncode(a.Name, a.Val)
				keep(a.Name, enc, err, a.Out)
			case "EncodePar":
				// two goroutines, released together; the results are looked at only after both have returned
				vals := [2]interface{}{cvToGo(a.Val), cvToGo(a.Val2)}
				var encs [2][]byte
				var errs [2]error
				var pans [2]string
				var wg sync.WaitGroup
				start := make(chan struct{})
				for g := 0; g < 2; g++ {
					wg.Add(1)
					go func(g int) {
						defer wg.Done()
						<-start
						pans[g] = cvCatch(func() { encs[g], errs[g] = EncodeValue(vals[g]) })
					}(g)
				}
				close(start)
				wg.Wait()
				for g := 0; g < 2; g++ {
					if pans[g] != "" {
						panic(pans[g])
					}
				}
				keep("EncodeValue", encs[0], errs[0], a.Out)
				keep("EncodeValue", encs[1], errs[1], a.Out2)
			case "Decode":
				r := real[a.I-1]
				src := common.NewZeroCopySource(r.enc)
				back, err := DecodeValue(src)
				if cvErrName(err) != a.Res {
					bad("retained-encoding-decodes-differently", r.api, a.I, r.born, fmt.Sprintf("DecodeValue: %s, specification %s; bytes now %x, when returned %x", cvErrName(err), a.Res, r.enc, r.snap))
				} else if err == nil && (cvCanon(cvFromGo(back)) != cvCanon(a.Back) || int(src.Pos()) != a.Used) {
					bad("retained-encoding-decodes-differently", r.api, a.I, r.born, fmt.Sprintf("DecodeValue: %s (%d bytes), specification %s (%d bytes); bytes now %x, when returned %x",
						cvCanon(cvFromGo(back)), src.Pos(), cvCanon(a.Back), a.Used, r.enc, r.snap))
				}
			case "Compare":
				ri, rj := real[a.I-1], real[a.J-1]
				if eq := bytes.Equal(ri.enc, rj.enc); eq != a.Eq {
					bad("retained-encodings-compare-differently", ri.api, a.I, ri.born, fmt.Sprintf("encodings %d and %d equal: %v, specification %v; %x (when returned %x) / %x (when returned %x)",
						a.I, a.J, eq, a.Eq, ri.enc, ri.snap, rj.enc, rj.snap))
				}
			case "Release":
				real = append(real[:a.I-1:a.I-1], real[a.I:]...)
			default:
				panic("unknown history action " + a.Name)
			}
		})
		if p != "" {
			o.Res = "panic:" + p
			o.Steps = si
			return
		}
		// the state after the step: every retained encoding against the specification's state
		if len(real) != len(st.To.Kept) {
			o.Res = fmt.Sprintf("harness:%d retained encodings, specification %d", len(real), len(st.To.Kept))
			return
		}
		for j, r := range real {
			want := st.To.Kept[j]
			if !bytes.Equal(r.enc, cvBytes(want.Bs)) {
				if bytes.Equal(r.snap, cvBytes(want.Bs)) {
					bad("retained-encoding-changed", r.api, j+1, r.born, fmt.Sprintf("when returned %x, now %x", r.snap, r.enc))
				} else if r.born != si {
					bad("retained-encoding-differs-from-specification", r.api, j+1, r.born, fmt.Sprintf("now %x, when returned %x, specification %x", r.enc, r.snap, cvBytes(want.Bs)))
				}
			}
			var back interface{}
			var err error
			what := "retained-encoding-decodes-differently"
			if r.born == si {
				what = "fresh-encoding-decodes-differently"
			}
			if pp := cvCatch(func() { back, err = DecodeValue(common.NewZeroCopySource(r.enc)) }); pp != "" {
				bad(what, r.api, j+1, r.born, "DecodeValue panics: "+pp)
			} else if err != nil {
				bad(what, r.api, j+1, r.born, fmt.Sprintf("DecodeValue: %s; bytes now %x, when returned %x", cvErrName(err), r.enc, r.snap))
			} else if cvCanon(cvFromGo(back)) != cvCanon(want.V) {
				bad(what, r.api, j+1, r.born, fmt.Sprintf("DecodeValue: %s, encoded value %s; bytes now %x, when returned %x", cvCanon(cvFromGo(back)), cvCanon(want.V), r.enc, r.snap))
			}
		}
		o.Steps = si + 1
		if len(o.Bad) > 0 {
			return // the real state has left the specification's behaviour
		}
	}
	return
}

func TestVerifCrossVMHist(t *testing.T) {
	var in struct {
		Paths []cvHPath `json:"paths"`
	}
	vhIn(&in)
	out := vhOpenOut()
	defer out.Close()
	for i, p := range in.Paths {
		out.Emit(cvHRun(i, p))
	}
}

// Child-process part: a chain of VERIF_DEPTH singleton lists, closed by a boolean ("closed") or cut off
// ("open").  The process may die with a fatal stack overflow; the parent treats that as an outcome.
func TestVerifCrossVMDeep(t *testing.T) {
	depth := vhEnvInt("VERIF_DEPTH", 1000)
	kind := os.Getenv("VERIF_KIND")
	if mb := vhEnvInt("VERIF_MAXSTACK_MB", 0); mb > 0 {
		debug.SetMaxStack(mb << 20)
	}
	buf := make([]byte, 0, depth*5+2)
	for i := 0; i < depth; i++ {
		buf = append(buf, ListType, 1, 0, 0, 0)
	}
	if kind == "closed" {
		buf = append(buf, BooleanType, 1)
	}
	var ms0, ms1 runtime.MemStats
	runtime.ReadMemStats(&ms0)
	var v interface{}
	var err error
	entry := os.Getenv("VERIF_ENTRY")
	p := cvCatch(func() {
		switch entry {
		case "call":
			v, err = DeserializeCallParam(append([]byte{0}, buf...))
		case "notify":
			r := DeserializeNotify(append([]byte("evt\x00"), buf...))
			if _, isInput := r.([]byte); isInput {
				err = ERROR_PARAM_FORMAT
			} else {
				v = r
			}
		default:
			v, err = DecodeValue(common.NewZeroCopySource(buf))
		}
	})
	runtime.ReadMemStats(&ms1)
	res := cvErrName(err)
	if p != "" {
		res = "panic:" + p
	}
	got := 0
	if err == nil && p == "" && entry != "notify" {
		for {
			l, ok := v.([]interface{})
			if !ok || len(l) != 1 {
				break
			}
			got++
			v = l[0]
		}
	}
	b, _ := json.Marshal(map[string]interface{}{"res": res, "depth": depth, "nested": got, "input_bytes": len(buf),
		"alloc_bytes": ms1.TotalAlloc - ms0.TotalAlloc, "stack_sys": ms1.StackSys})
	fmt.Printf("DEEP-RESULT %s\n", b)
}
