package ledgerstore

// C28: threshold extraction from LedgerStoreImp.verifyHeader (VBFT branch).  A LedgerStoreImp skeleton whose header cache
// holds a height-0 chain-config header (NewChainConfig with N peers and the given C) is asked to verify a height-1 header
// listing k distinct member bookkeepers with k valid signatures, k = 0..N; the least accepted k is reported.

import (
	"encoding/json"
	"testing"

	"github.com/ontio/ontology-crypto/keypair"
	"github.com/ontio/ontology/account"
	"github.com/ontio/ontology/common"
	"github.com/ontio/ontology/common/config"
	vconfig "github.com/ontio/ontology/consensus/vbft/config"
	"github.com/ontio/ontology/core/signature"
	"github.com/ontio/ontology/core/types"
)

type vhThrIn struct {
	Pairs      [][2]int `json:"pairs"`
	CryptoMaxN int      `json:"cryptoMaxN"`
}

type vhThrRow struct {
	Fn string `json:"fn"`
	N  int    `json:"n"`
	C  int    `json:"c"`
	K  int    `json:"k"`
	Up int    `json:"up"`
	// number of VALID signatures among the k listed that the accepted header really needed: the harness also probes
	// k listed bookkeepers of which only v carry a valid signature (the others carry a signature over another hash)
	V int `json:"v"`
}

func TestVerifVHThresholds(t *testing.T) {
	var in vhThrIn
	vhIn(&in)
	out := vhOpenOut()
	defer out.Close()
	config.DefConfig.Genesis.ConsensusType = "vbft"
	maxN := 1
	for _, p := range in.Pairs {
		if p[0] > maxN && p[0] <= in.CryptoMaxN {
			maxN = p[0]
		}
	}
	accts := make([]*account.Account, maxN+1)
	for i := 1; i <= maxN; i++ {
		accts[i] = account.NewAccount("")
	}
	for _, p := range in.Pairs {
		n, c := p[0], p[1]
		if n > in.CryptoMaxN {
			continue
		}
		peers := make([]*vconfig.PeerConfig, 0, n)
		peerInfo := map[string]uint32{}
		for i := 1; i <= n; i++ {
			id := vconfig.PubkeyID(accts[i].PublicKey)
			peers = append(peers, &vconfig.PeerConfig{Index: uint32(i), ID: id})
			peerInfo[id] = uint32(i)
		}
		cc := &vconfig.ChainConfig{Version: 1, View: 1, N: uint32(n), C: uint32(c), Peers: peers, PosTable: []uint32{1}, MaxBlockChangeView: 1000}
		info0 := &vconfig.VbftBlockInfo{Proposer: 0, LastConfigBlockNum: 0, NewChainConfig: cc}
		pl0, err := json.Marshal(info0)
		vhMust(err)
		h0 := &types.Header{Height: 0, Timestamp: 100, ConsensusPayload: pl0}
		info1 := &vconfig.VbftBlockInfo{Proposer: 1, LastConfigBlockNum: 0}
		pl1, err := json.Marshal(info1)
		vhMust(err)
		h1 := &types.Header{Height: 1, Timestamp: 101, PrevBlockHash: h0.Hash(), ConsensusPayload: pl1}
		hash1 := h1.Hash()
		other := common.Uint256{9, 9}
		sigs := make([][]byte, n+1)
		bad := make([][]byte, n+1)
		for i := 1; i <= n; i++ {
			sigs[i], err = signature.Sign(accts[i], hash1[:])
			vhMust(err)
			bad[i], err = signature.Sign(accts[i], other[:])
			vhMust(err)
		}
		st := &LedgerStoreImp{
			headerCache:      map[common.Uint256]*types.Header{h0.Hash(): h0},
			headerIndexCache: NewHeaderIndexCache(),
			vbftPeerInfoMap:  map[uint32]map[string]uint32{0: peerInfo},
		}
		st.headerIndexCache.setHeaderIndex(0, 0, h0.Hash())
		try := func(k, v int) bool {
			hdr := *h1
			hdr.Bookkeepers = make([]keypair.PublicKey, 0, k)
			hdr.SigData = make([][]byte, 0, k)
			for i := 1; i <= k; i++ {
				hdr.Bookkeepers = append(hdr.Bookkeepers, accts[i].PublicKey)
				if i <= v {
					hdr.SigData = append(hdr.SigData, sigs[i])
				} else {
					hdr.SigData = append(hdr.SigData, bad[i])
				}
			}
			return st.verifyHeader(&hdr) == nil
		}
		least, up := -1, 1
		for k := 0; k <= n; k++ {
			if try(k, k) {
				least = k
				break
			}
		}
		leastV := -1
		if least >= 0 {
			for _, k := range []int{least + 1, (least + n) / 2, n} {
				if k > least && k <= n && !try(k, k) {
					up = 0
				}
			}
			// least number of valid signatures among k >= least listed bookkeepers (descending scan + explicit 0/1 probes)
			leastV = least
			for _, k := range []int{least, least + 1, n} {
				if k > n {
					continue
				}
				for v := leastV - 1; v >= 0 && try(k, v); v-- {
					leastV = v
				}
				for _, v := range []int{0, 1} {
					if v < leastV && try(k, v) {
						leastV = v
					}
				}
			}
		}
		out.Emit(vhThrRow{Fn: "verifyHeader", N: n, C: c, K: least, Up: up, V: leastV})
		// ---- the non-vbft (dbft/solo) branch: all n bookkeepers listed (their multi-address is the previous header's
		// NextBookkeeper), k of them sign; probed once per n (C plays no role there), n <= 16 (multi-address size limit)
		if c == 0 && n <= 16 {
			keys := make([]keypair.PublicKey, 0, n)
			for i := 1; i <= n; i++ {
				keys = append(keys, accts[i].PublicKey)
			}
			addr, err := types.AddressFromBookkeepers(keys)
			if err == nil {
				config.DefConfig.Genesis.ConsensusType = "dbft"
				g0 := &types.Header{Height: 0, Timestamp: 100, NextBookkeeper: addr}
				d1 := &types.Header{Height: 1, Timestamp: 101, PrevBlockHash: g0.Hash()}
				dh := d1.Hash()
				st2 := &LedgerStoreImp{headerCache: map[common.Uint256]*types.Header{g0.Hash(): g0}, headerIndexCache: NewHeaderIndexCache(),
					vbftPeerInfoMap: map[uint32]map[string]uint32{}}
				st2.headerIndexCache.setHeaderIndex(0, 0, g0.Hash())
				dsigs := make([][]byte, 0, n)
				for i := 1; i <= n; i++ {
					sg, err := signature.Sign(accts[i], dh[:])
					vhMust(err)
					dsigs = append(dsigs, sg)
				}
				tryD := func(k int) bool {
					hdr := *d1
					hdr.Bookkeepers = keys
					hdr.SigData = dsigs[:k]
					return st2.verifyHeader(&hdr) == nil
				}
				dl, dup := -1, 1
				for k := 0; k <= n; k++ {
					if tryD(k) {
						dl = k
						break
					}
				}
				if dl >= 0 {
					for _, k := range []int{dl + 1, (dl + n) / 2, n} {
						if k > dl && k <= n && !tryD(k) {
							dup = 0
						}
					}
				}
				config.DefConfig.Genesis.ConsensusType = "vbft"
				out.Emit(vhThrRow{Fn: "verifyHeaderDbft", N: n, C: 0, K: dl, Up: dup, V: dl})
			}
		}
	}
}
