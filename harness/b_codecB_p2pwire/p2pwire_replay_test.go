package types

// Executes the frames enumerated by TLC from spec/P2PWire.tla on the real ReadMessage / WriteMessage
// (property C24).  A frame description is materialised to bytes here (header built by hand, checksum
// with crypto/sha256, opaque tokens replaced by real encodings built with the repository's own types),
// fed to ReadMessage through a reader that records how many bytes were requested, and the accepted
// message is written back with WriteMessage.

import (
	"bytes"
	"crypto/sha256"
	"encoding/binary"
	"encoding/hex"
	"fmt"
	"io"
	"os"
	"runtime"
	"strings"
	"testing"
	"time"

	"github.com/ontio/ontology-crypto/keypair"
	"github.com/ontio/ontology/account"
	comm "github.com/ontio/ontology/common"
	"github.com/ontio/ontology/common/config"
	vconfig "github.com/ontio/ontology/consensus/vbft/config"
	"github.com/ontio/ontology/core/payload"
	"github.com/ontio/ontology/core/signature"
	ct "github.com/ontio/ontology/core/types"
	"github.com/ontio/ontology/p2pserver/common"
)

type pwFrame struct {
	Hdr     int    `json:"hdr"`
	Magic   string `json:"magic"`
	Cmd     string `json:"cmd"`
	Payload []int  `json:"payload"`
	Lenf    string `json:"lenf"`
	Cks     string `json:"cks"`
}

type pwCase struct {
	Kind   string   `json:"kind"`
	Frame  pwFrame  `json:"frame"`
	Res    string   `json:"res"`
	Out    []int    `json:"out"`
	Req    string   `json:"req"`
	Frame2 *pwFrame `json:"frame2"` // ReadPair: the frame read after Frame, before anything is re-serialized
	Res2   string   `json:"res2"`
	Out2   []int    `json:"out2"`
}

type pwObs struct {
	I      int    `json:"i"`
	Res    string `json:"res"` // ok | magic | toolong | checksum | err | panic:<text> | write-panic:<text>
	Err    string `json:"err,omitempty"`
	Asked  int64  `json:"asked"`  // highest number of stream bytes ReadMessage asked its reader for
	Alloc  uint64 `json:"alloc"`  // bytes allocated while ReadMessage ran
	Stream int    `json:"stream"` // length of the byte stream offered
	Decl   int64  `json:"decl"`   // value of the length field
	Bad    string `json:"bad,omitempty"`
	Same   bool   `json:"same"` // accepted: WriteMessage reproduces the frame that was read
	Later  bool   `json:"later"` // accepted: the message's serialization changed after further frames were read
}

// reader that records the largest read offset requested
type pwReader struct {
	data  []byte
	off   int
	asked int64
}

func (r *pwReader) Read(p []byte) (int, error) {
	if want := int64(r.off) + int64(len(p)); want > r.asked {
		r.asked = want
	}
	if r.off >= len(r.data) {
		return 0, io.EOF
	}
	n := copy(p, r.data[r.off:])
	r.off += n
	return n, nil
}

const (
	pwTokHdr     = 1001
	pwTokBlk     = 1002
	pwTokTx      = 1003
	pwTokCcm     = 1004
	pwTokMemReq  = 1005
	pwTokOffline = 1006
	pwTokKadId   = 1007
	pwCut        = 10
)

var pwGoodKey, _ = hex.DecodeString("036b17d1f2e12c4247f8bce6e563a440f277037d812deb33a0f4a13945d898c296")

func pwSer(f func(sink *comm.ZeroCopySink)) []byte {
	sink := comm.NewZeroCopySink(nil)
	f(sink)
	return append([]byte{}, sink.Bytes()...)
}

// real encodings standing for the tokens of the specification
func pwFixtures() map[int][]byte {
	fx := map[int][]byte{}
	acc1 := account.NewAccount("")
	acc2 := account.NewAccount("")
	// transaction: a signed invoke transaction
	mtx := &ct.MutableTransaction{TxType: ct.InvokeNeo, Nonce: 7, GasPrice: 2500, GasLimit: 20000, Payer: acc1.Address,
		Payload: &payload.InvokeCode{Code: []byte{0x51, 0x52, 0x93}}, Sigs: nil}
	txHash := mtx.Hash()
	sig, err := signature.Sign(acc1, txHash[:])
	vhMust(err)
	mtx.Sigs = []ct.Sig{{PubKeys: []keypair.PublicKey{acc1.PublicKey}, M: 1, SigData: [][]byte{sig}}}
	tx, err := mtx.IntoImmutable()
	vhMust(err)
	fx[pwTokTx] = pwSer(tx.Serialization)
	// header and block
	hdr := &ct.Header{Version: 0, PrevBlockHash: comm.Uint256{1, 2, 3}, BlockRoot: comm.Uint256{4, 5}, Timestamp: 1600000000, Height: 12,
		ConsensusData: 99, ConsensusPayload: []byte("consensus-payload"), NextBookkeeper: acc2.Address,
		Bookkeepers: []keypair.PublicKey{acc1.PublicKey, acc2.PublicKey}}
	hdr.TransactionsRoot = comm.ComputeMerkleRoot([]comm.Uint256{tx.Hash()})
	hh := hdr.Hash()
	s1, err := signature.Sign(acc1, hh[:])
	vhMust(err)
	s2, err := signature.Sign(acc2, hh[:])
	vhMust(err)
	hdr.SigData = [][]byte{s1, s2}
	fx[pwTokHdr] = pwSer(hdr.Serialization)
	blk := &ct.Block{Header: hdr, Transactions: []*ct.Transaction{tx}}
	fx[pwTokBlk] = pwSer(blk.Serialization)
	ccm := &ct.CrossChainMsg{Version: 1, Height: 12, StatesRoot: comm.Uint256{9, 9}, SigData: [][]byte{s1}}
	fx[pwTokCcm] = pwSer(ccm.Serialization)
	// signed subnet members request (fresh time stamp)
	from := common.PseudoPeerIdFromUint64(11)
	to := common.PseudoPeerIdFromUint64(12)
	req, err := NewMembersRequest(from, to, acc1)
	vhMust(err)
	fx[pwTokMemReq] = pwSer(req.Serialization)
	// offline witness with proposer signature and one vote
	ow := &OfflineWitnessMsg{Timestamp: uint32(time.Now().Unix()), View: 3,
		NodePubKeys: []string{vconfig.PubkeyID(acc1.PublicKey), vconfig.PubkeyID(acc2.PublicKey)}, Proposer: vconfig.PubkeyID(acc1.PublicKey)}
	vhMust(ow.AddProposeSig(acc1))
	vhMust(ow.VoteFor(acc2, []uint8{0}))
	fx[pwTokOffline] = pwSer(ow.Serialization)
	// kad id: a key meeting the (lowered, to keep key generation short) difficulty
	common.Difficulty = 8
	kid := common.RandPeerKeyId()
	fx[pwTokKadId] = pwSer((&UpdatePeerKeyId{KadKeyId: kid}).Serialization)
	for _, t := range []int{pwTokHdr, pwTokBlk, pwTokTx, pwTokCcm, pwTokMemReq, pwTokOffline, pwTokKadId} {
		b := fx[t]
		fx[t+pwCut] = b[:len(b)-1]
	}
	return fx
}

func pwMaterialize(xs []int, fx map[int][]byte) []byte {
	var b []byte
	for _, x := range xs {
		if x < 256 {
			b = append(b, byte(x))
		} else if blob, ok := fx[x]; ok {
			b = append(b, blob...)
		} else {
			panic(fmt.Sprintf("unknown token %d", x))
		}
	}
	return b
}

func pwChecksum(b []byte) []byte {
	t := sha256.Sum256(b)
	s := sha256.Sum256(t[:])
	return s[:4]
}

func pwHeader(magic uint32, cmd string, length uint32, cks []byte) []byte {
	h := make([]byte, 24)
	binary.LittleEndian.PutUint32(h[0:], magic)
	copy(h[4:16], cmd)
	binary.LittleEndian.PutUint32(h[16:], length)
	copy(h[20:], cks)
	return h
}

func pwCatch(f func()) (p string) {
	defer func() {
		if r := recover(); r != nil {
			p = fmt.Sprint(r)
		}
	}()
	f()
	return ""
}

func TestVerifP2PWireCases(t *testing.T) {
	var in struct {
		Cases []pwCase `json:"cases"`
	}
	vhIn(&in)
	out := vhOpenOut()
	defer out.Close()
	progress := os.Getenv("VERIF_PROGRESS")
	magic := uint32(0x8c77ab60)
	config.DefConfig.P2PNode.NetworkMagic = magic
	fx := pwFixtures()
	for i, c := range in.Cases {
		f := c.Frame
		payloadBytes := pwMaterialize(f.Payload, fx)
		decl := int64(len(payloadBytes))
		switch f.Lenf {
		case "plus1":
			decl++
		case "minus1":
			decl--
		case "max":
			decl = common.MAX_PAYLOAD_LEN
		case "maxplus1":
			decl = common.MAX_PAYLOAD_LEN + 1
		case "huge":
			decl = 0xFFFFFFFF
		}
		covered := payloadBytes
		if decl < int64(len(payloadBytes)) {
			covered = payloadBytes[:decl]
		}
		cks := pwChecksum(covered)
		if f.Cks != "good" {
			cks[2] ^= 0x10
		}
		m := magic
		if f.Magic != "good" {
			m = magic + 1
		}
		stream := append(pwHeader(m, f.Cmd, uint32(decl), cks)[:f.Hdr], payloadBytes...)
		if progress != "" && (c.Kind == "count" || c.Kind == "length" || c.Kind == "random" || c.Kind == "randomtrail" || c.Kind == "wrap" || c.Kind == "wrapany") {
			os.WriteFile(progress, []byte(fmt.Sprint(i)), 0644)
		}
		o := pwObs{I: i, Stream: len(stream), Decl: decl}
		rd := &pwReader{data: stream}
		var msg Message
		var err error
		var ms0, ms1 runtime.MemStats
		measure := c.Kind != "byte" && c.Kind != "trail" && c.Kind != "trunc" // hostile counts / lengths / random streams
		if measure {
			runtime.ReadMemStats(&ms0)
		}
		p := pwCatch(func() { msg, _, err = ReadMessage(rd) })
		if measure {
			runtime.ReadMemStats(&ms1)
			o.Alloc = ms1.TotalAlloc - ms0.TotalAlloc
		}
		o.Asked = rd.asked
		switch {
		case p != "":
			o.Res = "panic:" + p
		case err != nil:
			o.Err = err.Error()
			switch {
			case strings.Contains(o.Err, "unmatched magic"):
				o.Res = "magic"
			case strings.Contains(o.Err, "exceed max payload"):
				o.Res = "toolong"
			case strings.Contains(o.Err, "checksum mismatch"):
				o.Res = "checksum"
			default:
				o.Res = "err"
			}
			if len(o.Err) > 120 {
				o.Err = o.Err[:120]
			}
		default:
			o.Res = "ok"
			sink := comm.NewZeroCopySink(nil)
			if wp := pwCatch(func() { WriteMessage(sink, msg) }); wp != "" {
				o.Res = "write-panic:" + wp
				break
			}
			written := sink.Bytes()
			o.Same = bytes.Equal(written, stream)
			if c.Res == "ok" {
				expPayload := pwMaterialize(c.Out, fx)
				exp := append(pwHeader(magic, f.Cmd, uint32(len(expPayload)), pwChecksum(expPayload)), expPayload...)
				if !bytes.Equal(written, exp) {
					o.Bad = fmt.Sprintf("WriteMessage gives %d bytes %s..., specification %d bytes %s...", len(written), pwHexHead(written), len(exp), pwHexHead(exp))
				}
			}
			// a returned message is a value of its own: reading further frames (here: the second frame of a
			// ReadPair case, then an unknown-command frame of 512 filler bytes, from another reader) must not
			// change what it serializes to
			first := append([]byte{}, written...)
			if c.Frame2 != nil {
				p2 := pwMaterialize(c.Frame2.Payload, fx)
				s2 := append(pwHeader(magic, c.Frame2.Cmd, uint32(len(p2)), pwChecksum(p2)), p2...)
				var m2 Message
				var e2 error
				if pp := pwCatch(func() { m2, _, e2 = ReadMessage(bytes.NewReader(s2)) }); pp != "" {
					o.Bad += " second frame panics: " + pp
				} else if (e2 == nil) != (c.Res2 == "ok") && c.Res2 != "any" {
					o.Bad += fmt.Sprintf(" second frame: real error %v, specification %s", e2, c.Res2)
				} else if e2 == nil && c.Res2 == "ok" {
					sk := comm.NewZeroCopySink(nil)
					WriteMessage(sk, m2)
					e2p := pwMaterialize(c.Out2, fx)
					if !bytes.Equal(sk.Bytes(), append(pwHeader(magic, c.Frame2.Cmd, uint32(len(e2p)), pwChecksum(e2p)), e2p...)) {
						o.Bad += " second frame does not re-serialize as specified"
					}
				}
			}
			filler := bytes.Repeat([]byte{0xEE}, 512)
			ReadMessage(bytes.NewReader(append(pwHeader(magic, "filler", 512, pwChecksum(filler)), filler...)))
			again := comm.NewZeroCopySink(nil)
			if wp := pwCatch(func() { WriteMessage(again, msg) }); wp != "" || !bytes.Equal(again.Bytes(), first) {
				o.Later = true
				o.Bad += fmt.Sprintf(" the message changed after later reads: first %s..., now %s... %s", pwHexHead(first), pwHexHead(again.Bytes()), wp)
			}
			written = first
			// what was written must be readable again and yield the same bytes
			msg2, _, err2 := ReadMessage(bytes.NewReader(written))
			if err2 != nil {
				o.Bad += " re-reading the written frame fails: " + err2.Error()
			} else {
				sink2 := comm.NewZeroCopySink(nil)
				WriteMessage(sink2, msg2)
				if !bytes.Equal(sink2.Bytes(), written) {
					o.Bad += " the written frame does not round-trip"
				}
			}
		}
		out.Emit(o)
	}
}

func pwHexHead(b []byte) string {
	if len(b) > 96 {
		return hex.EncodeToString(b[:96])
	}
	return hex.EncodeToString(b)
}
