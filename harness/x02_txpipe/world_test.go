package proc

// X02 harness, shared set-up: a REAL solo-genesis ledger (ledger.DefLedger), funded payer accounts,
// real signed ONG transfers and the REAL TXPoolServer whose response loop (start()) is taken over by
// the harness so that the order in which validator responses reach handleRsp is the model's.
//
// One ledger per process; every replayed path gets fresh accounts / transactions (fresh hashes) and a
// fresh server; model heights are relative to the ledger height at the start of the path.

import (
	"encoding/hex"
	"fmt"
	"os"
	"testing"
	"time"

	"github.com/ontio/ontology-crypto/keypair"
	"github.com/ontio/ontology-eventbus/actor"
	"github.com/ontio/ontology/account"
	"github.com/ontio/ontology/common"
	"github.com/ontio/ontology/common/config"
	"github.com/ontio/ontology/common/log"
	"github.com/ontio/ontology/core/genesis"
	"github.com/ontio/ontology/core/ledger"
	"github.com/ontio/ontology/core/payload"
	"github.com/ontio/ontology/core/signature"
	"github.com/ontio/ontology/core/types"
	cutils "github.com/ontio/ontology/core/utils"
	"github.com/ontio/ontology/errors"
	hComm "github.com/ontio/ontology/http/base/common"
	"github.com/ontio/ontology/smartcontract/service/native/ont"
	nutils "github.com/ontio/ontology/smartcontract/service/native/utils"
	tc "github.com/ontio/ontology/txnpool/common"
	vt "github.com/ontio/ontology/validator/types"
)

const (
	xpGasPrice  = 2500  // the server's admission threshold (config Common.GasPrice; the genesis global param is 0)
	xpGasLimit  = 20000 // = neovm.MIN_TRANSACTION_GAS: what a native transfer is charged
	xpDrainKeep = 0     // ONG left on payer A after t1
)

type xpWorld struct {
	dir   string
	gacc  *account.Account
	bks   []keypair.PublicKey
	nonce uint32
	ready [][2]*account.Account // funded payer pairs (A, B) not yet used by a scenario
}

var xpPrices = map[string]uint64{"t1": xpGasPrice + 6, "t2": xpGasPrice + 5, "t3": xpGasPrice + 4, "t4": xpGasPrice + 3, "t6": xpGasPrice + 2, "t5": 100}

const xpDrainAmount = uint64(1000000000)

// payers hands out a fresh funded pair: A holds exactly t1's amount + t1's fee, B plenty.  Pairs are funded in
// batches (one block of transfers from the genesis holder per batch, gas price 0).
func (w *xpWorld) payers() [2]*account.Account {
	if len(w.ready) == 0 {
		const batch = 24
		fundA := xpDrainAmount + xpPrices["t1"]*xpGasLimit + xpDrainKeep
		fundB := uint64(50) * 1000000000
		var txs []*types.Transaction
		for i := 0; i < batch; i++ {
			a, b := account.NewAccount(""), account.NewAccount("")
			w.nonce += 2
			txs = append(txs, w.mkTransfer(w.gacc, a.Address, fundA, 0, w.nonce, false), w.mkTransfer(w.gacc, b.Address, fundB, 0, w.nonce+1, false))
			w.ready = append(w.ready, [2]*account.Account{a, b})
		}
		w.saveBlock(txs)
		last := w.ready[len(w.ready)-1]
		if w.ongBalance(last[0].Address) != fundA || w.ongBalance(last[1].Address) != fundB {
			panic(fmt.Sprintf("funding block did not execute as expected: A=%d (want %d) B=%d (want %d)",
				w.ongBalance(last[0].Address), fundA, w.ongBalance(last[1].Address), fundB))
		}
	}
	p := w.ready[0]
	w.ready = w.ready[1:]
	return p
}

var xpW *xpWorld

func TestMain(m *testing.M) {
	log.InitLog(log.FatalLog) // no writers: discard
	os.Exit(m.Run())
}

func xpWorldGet() *xpWorld {
	if xpW != nil {
		return xpW
	}
	base := os.Getenv("VERIF_SCRATCH")
	if base == "" {
		base = os.TempDir()
	}
	dir, err := os.MkdirTemp(base, "x02-ledger-")
	vhMust(err)
	acct := account.NewAccount("")
	config.DefConfig.Genesis.ConsensusType = config.CONSENSUS_TYPE_SOLO
	config.DefConfig.Genesis.SOLO = &config.SOLOConfig{GenBlockTime: 6,
		Bookkeepers: []string{hex.EncodeToString(keypair.SerializePublicKey(acct.PublicKey))}}
	config.DefConfig.P2PNode.NetworkId = config.NETWORK_ID_SOLO_NET // all ONG goes to the genesis holder
	config.DefConfig.Common.GasPrice = xpGasPrice
	config.DefConfig.Common.MinGasLimit = xpGasLimit
	bks := []keypair.PublicKey{acct.PublicKey}
	gb, err := genesis.BuildGenesisBlock(bks, config.DefConfig.Genesis)
	vhMust(err)
	ledger.DefLedger, err = ledger.InitLedger(dir, 0, bks, gb)
	vhMust(err)
	xpW = &xpWorld{dir: dir, gacc: acct, bks: bks, nonce: uint32(vhSeed()) * 1000000}
	return xpW
}

func (w *xpWorld) close() {
	ledger.DefLedger.Close()
	os.RemoveAll(w.dir)
	xpW = nil
}

func (w *xpWorld) height() uint32 { return ledger.DefLedger.GetCurrentBlockHeight() }

// mkTransfer: a signed native ONG transfer.  corrupt: the signature bytes are damaged after signing
// (same transaction hash: the hash covers the unsigned part only).
func (w *xpWorld) mkTransfer(from *account.Account, to common.Address, amount uint64, price uint64, nonce uint32, corrupt bool) *types.Transaction {
	sts := []*ont.TransferState{{From: from.Address, To: to, Value: amount}}
	code, err := cutils.BuildNativeInvokeCode(nutils.OngContractAddress, 0, "transfer", []interface{}{sts})
	vhMust(err)
	mtx := &types.MutableTransaction{GasPrice: price, GasLimit: xpGasLimit, TxType: types.InvokeNeo, Nonce: nonce,
		Payer: from.Address, Payload: &payload.InvokeCode{Code: code}}
	txHash := mtx.Hash()
	sig, err := signature.Sign(from, txHash.ToArray())
	vhMust(err)
	if corrupt {
		sig = append([]byte{}, sig...)
		sig[len(sig)-3] ^= 0x5a
	}
	mtx.Sigs = []types.Sig{{PubKeys: []keypair.PublicKey{from.PublicKey}, M: 1, SigData: [][]byte{sig}}}
	tx, err := mtx.IntoImmutable()
	vhMust(err)
	return tx
}

// saveBlock: what the solo consensus does with a list of transactions (makeBlock + genBlock).
func (w *xpWorld) saveBlock(txs []*types.Transaction) *types.Block {
	hashes := make([]common.Uint256, 0, len(txs))
	for _, t := range txs {
		hashes = append(hashes, t.Hash())
	}
	txRoot := common.ComputeMerkleRoot(hashes)
	l := ledger.DefLedger
	prev := l.GetCurrentBlockHash()
	h := l.GetCurrentBlockHeight() + 1
	prevHeader, err := l.GetHeaderByHash(prev)
	vhMust(err)
	nb, err := types.AddressFromBookkeepers(w.bks)
	vhMust(err)
	header := &types.Header{Version: 0, PrevBlockHash: prev, TransactionsRoot: txRoot,
		BlockRoot: l.GetBlockRootWithNewTxRoots(h, []common.Uint256{txRoot}),
		Timestamp: prevHeader.Timestamp + 10, Height: h, ConsensusData: uint64(h), NextBookkeeper: nb}
	block := &types.Block{Header: header, Transactions: txs}
	bh := block.Hash()
	bsig, err := signature.Sign(w.gacc, bh[:])
	vhMust(err)
	block.Header.Bookkeepers = w.bks
	block.Header.SigData = [][]byte{bsig}
	res, err := l.ExecuteBlock(block)
	vhMust(err)
	vhMust(l.SubmitBlock(block, nil, res))
	return block
}

func (w *xpWorld) ongBalance(a common.Address) uint64 {
	// as isBalanceEnough (txnpool_actor.go) reads it: version-0 (9 decimals) units
	bal, _, err := hComm.GetNativeTokenBalance(0, []common.Address{nutils.OngContractAddress}, a, false)
	vhMust(err)
	return bal[0].MustToInteger64()
}

// ---------------------------------------------------------------------------------------------
// one scenario = fresh accounts, the named transaction universe, a fresh server

type xpScn struct {
	w     *xpWorld
	base  uint32 // real ledger height that stands for the model height h0
	h0    int
	txs   map[string]*types.Transaction // variant name -> transaction
	hname map[common.Uint256]string     // hash -> name of the hash (= name of its first variant)
	vname map[*types.Transaction]string // object -> variant name
	hashOf map[string]string            // variant name -> hash name
	s     *TXPoolServer
	svc   *TxPoolService
	// submissions
	subs []*xpSub
	// in-flight validator responses (the harness stands for the server's start() loop)
	slBag   map[string][]*vt.CheckResponse         // variant -> real stateless responses not yet delivered
	sfCount map[string]int                         // hash name -> number of real stateful responses received and not yet delivered
	sfCache map[string]map[uint32]*vt.CheckResponse // variant -> real ledger height -> real stateful response computed at that height
	sentinel *types.Transaction
	vbCh    chan *tc.VerifyBlockRsp
	vbPid   *actor.PID
	notes   []string
}

type xpSub struct {
	tx   string // variant
	ch   chan *tc.TxResult
	got  int
}

func xpErrName(e errors.ErrCode) string {
	switch e {
	case errors.ErrNoError:
		return "ok"
	case errors.ErrDuplicateInput:
		return "dupinput"
	case errors.ErrTxPoolFull:
		return "full"
	case errors.ErrUnknown:
		return "unknown"
	case errors.ErrVerifySignature:
		return "badsig"
	case errors.ErrDuplicatedTx:
		return "duptx"
	case errors.ErrGasPrice:
		return "gasprice"
	case errors.ErrDoubleSpend:
		return "doublespend"
	case errors.ErrNoAccount:
		return "noaccount"
	}
	return fmt.Sprintf("err%d", int(e))
}

// newScn funds two fresh payers with one block (real height base = model height h0) and builds
//   t1   payer A: sends all of A's ONG but its own fee  (after it is on chain A cannot pay any fee)
//   t1b  same hash as t1, damaged signature
//   t2   payer A: small transfer                         (valid until t1 is on chain: "becomes invalid after a block")
//   t3   payer B: small transfer
//   t4   payer B: small transfer, damaged signature
//   t5   payer B: gas price below the threshold
//   t6   payer B: small transfer
// gas prices are distinct (t1 > t2 > t3 > t4 > t6): GetTxPool's order by fee is deterministic.
func xpNewScn(w *xpWorld, h0 int, maxTx int, preExec bool) *xpScn {
	return xpNewScnOpt(w, h0, maxTx, preExec, true)
}

// takeOver: the harness replaces the server's response loop (replay); otherwise the server runs on its own (traces)
func xpNewScnOpt(w *xpWorld, h0 int, maxTx int, preExec bool, takeOver bool) *xpScn {
	sc := &xpScn{w: w, h0: h0, txs: map[string]*types.Transaction{}, hname: map[common.Uint256]string{},
		vname: map[*types.Transaction]string{}, hashOf: map[string]string{},
		slBag: map[string][]*vt.CheckResponse{}, sfCount: map[string]int{}, sfCache: map[string]map[uint32]*vt.CheckResponse{}}
	var sink common.Address
	copy(sink[:], []byte("x02-sink-address-000"))
	price := xpPrices
	v := xpDrainAmount
	pair := w.payers()
	a, b := pair[0], pair[1]
	w.nonce += 16
	n := w.nonce
	sc.base = w.height()
	add := func(name, hashName string, t *types.Transaction) {
		sc.txs[name] = t
		sc.vname[t] = name
		sc.hashOf[name] = hashName
		if name == hashName {
			sc.hname[t.Hash()] = name
		} else if sc.txs[hashName].Hash() != t.Hash() {
			panic("variant with a different hash")
		}
	}
	add("t1", "t1", w.mkTransfer(a, sink, v, price["t1"], n+2, false))
	add("t1b", "t1", w.mkTransfer(a, sink, v, price["t1"], n+2, true))
	add("t2", "t2", w.mkTransfer(a, sink, 1, price["t2"], n+3, false))
	add("t3", "t3", w.mkTransfer(b, sink, 1, price["t3"], n+4, false))
	add("t4", "t4", w.mkTransfer(b, sink, 1, price["t4"], n+5, true))
	add("t5", "t5", w.mkTransfer(b, sink, 1, price["t5"], n+6, false))
	add("t6", "t6", w.mkTransfer(b, sink, 1, price["t6"], n+7, false))
	sc.sentinel = w.mkTransfer(b, sink, 1, xpGasPrice, n+8, false)

	config.DefConfig.Consensus.MaxTxInBlock = uint(maxTx)
	s := NewTxPoolServer(!preExec, true)
	// take over the response loop: start() returns when it receives from stopCh (unbuffered: the send
	// completes only when start() has taken it), after that nobody but the harness reads rspCh
	if takeOver {
		s.stopCh <- true
	}
	sc.s = s
	sc.svc = NewTxPoolService(s)
	sc.vbCh = make(chan *tc.VerifyBlockRsp, 8)
	sc.vbPid = actor.Spawn(actor.FromFunc(func(ctx actor.Context) {
		if rsp, ok := ctx.Message().(*tc.VerifyBlockRsp); ok {
			sc.vbCh <- rsp
		}
	}))
	if takeOver {
		sc.refreshSfCache()
	}
	return sc
}

func (sc *xpScn) done() {
	sc.vbPid.Stop()
}

func (sc *xpScn) modelH(real uint32) int {
	if real == 0 {
		return 0
	}
	return int(real) - int(sc.base) + sc.h0
}

func (sc *xpScn) realH(model int) uint32 { return uint32(model - sc.h0 + int(sc.base)) }

// statefulNow runs the REAL stateful validator on tx against the ledger as it is now.
func (sc *xpScn) statefulNow(tx *types.Transaction) *vt.CheckResponse {
	ch := make(chan *vt.CheckResponse, 1)
	sc.s.stateful.SubmitVerifyTask(tx, ch)
	select {
	case r := <-ch:
		return r
	case <-time.After(60 * time.Second):
		panic("stateful validator did not answer")
	}
}

// refreshSfCache: the answers the stateful validator gives at the current ledger height (called at
// the start and after every block), so that a response "computed at height h, delivered later" can
// be handed to handleRsp when the model schedules it.
func (sc *xpScn) refreshSfCache() {
	h := sc.w.height()
	for name, tx := range sc.txs {
		if sc.sfCache[name] == nil {
			sc.sfCache[name] = map[uint32]*vt.CheckResponse{}
		}
		r := sc.statefulNow(tx)
		if r.Height != h {
			panic("stateful response height differs from the ledger height")
		}
		sc.sfCache[name][h] = r
	}
}

// collect reads the server's response channel until the sentinel's stateful response shows up: the
// stateful pool has ONE worker, so every stateful task submitted before the sentinel has answered by
// then; nSL stateless responses are awaited as well (they come from another pool).
func (sc *xpScn) collect(nSL int) {
	sc.s.stateful.SubmitVerifyTask(sc.sentinel, sc.s.rspCh)
	sh := sc.sentinel.Hash()
	gotSentinel := false
	deadline := time.After(120 * time.Second)
	for !gotSentinel || nSL > 0 {
		select {
		case r := <-sc.s.rspCh:
			if r.Hash == sh {
				gotSentinel = true
				continue
			}
			if r.Type == vt.Stateless {
				sc.slBag[sc.vname[r.Tx]] = append(sc.slBag[sc.vname[r.Tx]], r)
				nSL--
			} else {
				hn := sc.hname[r.Hash]
				sc.sfCount[hn]++
				// sanity: the real response equals what the validator says right now (it ran just now)
				c := sc.sfCache[sc.vname[r.Tx]][sc.w.height()]
				if c == nil || c.ErrCode != r.ErrCode || c.Height != r.Height {
					sc.notes = append(sc.notes, fmt.Sprintf("stateful response of %s differs from a direct evaluation", hn))
				}
			}
		case <-deadline:
			sc.notes = append(sc.notes, fmt.Sprintf("timeout waiting for validator responses (stateless missing %d, sentinel %v)", nSL, gotSentinel))
			return
		}
	}
	// late stateless extras show up at a later collect; stateful ones cannot be late (sentinel)
	for {
		select {
		case r := <-sc.s.rspCh:
			if r.Type == vt.Stateless {
				sc.slBag[sc.vname[r.Tx]] = append(sc.slBag[sc.vname[r.Tx]], r)
			} else if r.Hash != sh {
				sc.sfCount[sc.hname[r.Hash]]++
			}
		default:
			return
		}
	}
}
