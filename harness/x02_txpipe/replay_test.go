package proc

// X02 replay driver: TLC-generated behaviours of spec/TxPipe.tla are executed action by action on the
// real TXPoolServer; after every action the projected abstract state is written out (the python side
// compares it with the model's successor state).

import (
	"fmt"
	"sort"
	"testing"
	"time"

	"github.com/ontio/ontology/core/types"
	"github.com/ontio/ontology/errors"
	tc "github.com/ontio/ontology/txnpool/common"
	vt "github.com/ontio/ontology/validator/types"
)

type xpAct struct {
	Name    string   `json:"name"`
	Tx      string   `json:"tx"`
	Kind    string   `json:"kind"`
	Stale   bool     `json:"stale"`
	H       int      `json:"h"`
	ByCount bool     `json:"bycount"`
	List    []string `json:"list"`
	Block   []string `json:"block"`
}

type xpPath struct {
	Steps []xpAct `json:"steps"`
}

type xpIn struct {
	Cap     int      `json:"cap"`
	Lim     int      `json:"lim"`
	MaxTx   int      `json:"maxtx"`
	PreExec bool     `json:"preexec"`
	H0      int      `json:"h0"`
	Paths   []xpPath `json:"paths"`
}

type xpPoolEnt struct {
	Tx string `json:"tx"`
	Vh int    `json:"vh"`
}

type xpPendEnt struct {
	Tx  string `json:"tx"`
	Src string `json:"src"`
	Ch  bool   `json:"ch"`
	Sl  bool   `json:"sl"`
	Sf  bool   `json:"sf"`
	Chk int    `json:"chk"`
}

type xpReply struct {
	Tx  string `json:"tx"`
	Err string `json:"err"`
}

type xpObs struct {
	Path    int                  `json:"path"`
	Step    int                  `json:"step"`
	Name    string               `json:"name"`
	Pool    map[string]xpPoolEnt `json:"pool"`
	Pend    map[string]xpPendEnt `json:"pend"`
	Slots   int                  `json:"slots"`
	SHeight int                  `json:"sheight"`
	Height  int                  `json:"height"`
	FlySL   map[string]int       `json:"flysl"`
	FlySF   map[string]int       `json:"flysf"`
	Replies []xpReply            `json:"replies"`
	Double  []string             `json:"double,omitempty"`
	Ans     []xpPoolEnt          `json:"ans,omitempty"`
	Valid   *bool                `json:"valid,omitempty"`
	Errs    []string             `json:"errs,omitempty"`
	Blocked bool                 `json:"blocked,omitempty"`
	Notes   []string             `json:"notes,omitempty"`
	Err     string               `json:"err,omitempty"`
}

func (sc *xpScn) project(o *xpObs) {
	s := sc.s
	o.Pool = map[string]xpPoolEnt{}
	for _, h := range s.txPool.GetTransactionHashList() {
		st := s.txPool.GetTxStatus(h)
		tx := s.txPool.GetTransaction(h)
		e := xpPoolEnt{Tx: sc.vname[tx], Vh: -1}
		if st != nil && len(st.Attrs) == 2 {
			e.Vh = sc.modelH(st.Attrs[1].Height)
		}
		o.Pool[sc.hname[h]] = e
	}
	o.Pend = map[string]xpPendEnt{}
	s.mu.RLock()
	for h, pt := range s.allPendingTxs {
		src := "rev"
		switch pt.sender {
		case tc.HttpSender:
			src = "http"
		case tc.NetSender:
			src = "net"
		}
		o.Pend[sc.hname[h]] = xpPendEnt{Tx: sc.vname[pt.tx], Src: src, Ch: pt.ch != nil, Sl: pt.checkingStatus.GetStateless(),
			Sf: pt.checkingStatus.GetStateful(), Chk: sc.modelH(pt.checkingStatus.CheckHeight)}
	}
	s.mu.RUnlock()
	o.Slots = len(s.slots)
	o.SHeight = sc.modelH(s.getHeight())
	o.Height = sc.modelH(sc.w.height())
	o.FlySL = map[string]int{}
	for k, v := range sc.slBag {
		if len(v) > 0 {
			o.FlySL[k] = len(v)
		}
	}
	o.FlySF = map[string]int{}
	for k, v := range sc.sfCount {
		if v != 0 {
			o.FlySF[k] = v
		}
	}
	o.Replies = []xpReply{}
	for _, sub := range sc.subs {
		for {
			select {
			case r := <-sub.ch:
				sub.got++
				if sub.got == 1 {
					o.Replies = append(o.Replies, xpReply{Tx: sub.tx, Err: xpErrName(r.Err)})
				} else {
					o.Double = append(o.Double, sub.tx)
				}
				continue
			default:
			}
			break
		}
	}
	o.Notes = sc.notes
	sc.notes = nil
}

func (sc *xpScn) kind(k string) tc.SenderType {
	if k == "net" {
		return tc.NetSender
	}
	return tc.HttpSender
}

func (sc *xpScn) step(a *xpAct, o *xpObs, blocks map[int]*types.Block) {
	s := sc.s
	nSL := 0
	switch a.Name {
	case "Submit":
		tx := sc.txs[a.Tx]
		sub := &xpSub{tx: a.Tx, ch: make(chan *tc.TxResult, 4)}
		sc.subs = append(sc.subs, sub)
		hn := sc.hashOf[a.Tx]
		_, pending := s.allPendingTxs[tx.Hash()]
		inPool := s.txPool.GetTransaction(tx.Hash()) != nil
		before := len(s.allPendingTxs)
		if a.Stale {
			// a submission whose admission checks (handleTransaction) passed earlier: its last two statements
			if len(s.slots) == 0 {
				o.Blocked = true
				return
			}
			<-s.slots
			if s.startTxVerify(tx, sc.kind(a.Kind), sub.ch) {
				nSL = 1
			}
		} else {
			// handleTransaction blocks on the slots channel when the admission checks pass and no slot is free;
			// the model has no such step enabled, so this would be a divergence, not a wait
			if len(s.slots) == 0 {
				done := make(chan bool, 1)
				go func() { sc.svc.handleTransaction(sc.kind(a.Kind), tx, sub.ch); done <- true }()
				select {
				case <-done:
				case <-time.After(20 * time.Second):
					o.Blocked = true
					return
				}
			} else {
				sc.svc.handleTransaction(sc.kind(a.Kind), tx, sub.ch)
			}
			if !pending && !inPool && len(s.allPendingTxs) == before+1 {
				nSL = 1
			}
		}
		_ = hn
	case "DeliverSL":
		bag := sc.slBag[a.Tx]
		if len(bag) == 0 {
			o.Err = "no real stateless response in flight for " + a.Tx
			return
		}
		r := bag[0]
		sc.slBag[a.Tx] = bag[1:]
		s.handleRsp(r)
	case "DeliverSF":
		hn := sc.hashOf[a.Tx]
		if sc.sfCount[hn] == 0 {
			o.Err = "no real stateful response in flight for " + hn
			return
		}
		c := sc.sfCache[a.Tx][sc.realH(a.H)]
		if c == nil {
			o.Err = fmt.Sprintf("no stateful evaluation of %s at model height %d", a.Tx, a.H)
			return
		}
		sc.sfCount[hn]--
		r := *c
		s.handleRsp(&r)
	case "GetTxPool":
		res := s.getTxPool(a.ByCount, sc.realH(a.H))
		o.Ans = []xpPoolEnt{}
		for _, e := range res {
			o.Ans = append(o.Ans, xpPoolEnt{Tx: sc.vname[e.Tx], Vh: sc.modelH(e.VerifiedHeight)})
		}
	case "VerifyBlock":
		var txs []*types.Transaction
		for _, n := range a.List {
			txs = append(txs, sc.txs[n])
		}
		s.verifyBlock(&tc.VerifyBlockReq{Height: sc.realH(a.H), Txs: txs}, sc.vbPid)
		select {
		case rsp := <-sc.vbCh:
			valid := true
			for _, e := range rsp.TxnPool {
				if e.ErrCode != errors.ErrNoError {
					valid = false
					o.Errs = append(o.Errs, xpErrName(e.ErrCode))
				}
			}
			sort.Strings(o.Errs)
			o.Valid = &valid
		case <-time.After(60 * time.Second):
			o.Err = "verifyBlock sent no answer"
		}
	case "LedgerSave":
		var txs []*types.Transaction
		for _, n := range a.Block {
			txs = append(txs, sc.txs[n])
		}
		b := sc.w.saveBlock(txs)
		blocks[sc.modelH(b.Header.Height)] = b
		sc.refreshSfCache()
	case "BlockSaved":
		b := blocks[a.H]
		if b == nil {
			o.Err = fmt.Sprintf("no block of model height %d", a.H)
			return
		}
		// the TxPoolActor's reaction to SaveBlockCompleteMsg
		s.cleanTransactionList(b.Transactions, b.Header.Height)
	default:
		o.Err = "unknown action " + a.Name
		return
	}
	sc.collect(nSL)
}

func TestVerifTxPipeReplay(t *testing.T) {
	var in xpIn
	vhIn(&in)
	out := vhOpenOut()
	defer out.Close()
	if tc.MAX_CAPACITY != in.Cap || tc.MAX_LIMITATION != in.Lim {
		t.Fatalf("constants of the build (MAX_CAPACITY=%d MAX_LIMITATION=%d) are not the model's (%d, %d)", tc.MAX_CAPACITY, tc.MAX_LIMITATION, in.Cap, in.Lim)
	}
	w := xpWorldGet()
	defer w.close()
	for pi, p := range in.Paths {
		sc := xpNewScn(w, in.H0, in.MaxTx, in.PreExec)
		blocks := map[int]*types.Block{}
		o := xpObs{Path: pi, Step: 0, Name: "Init"}
		sc.project(&o)
		out.Emit(&o)
		for si := range p.Steps {
			a := &p.Steps[si]
			o := xpObs{Path: pi, Step: si + 1, Name: a.Name}
			func() {
				defer func() {
					if r := recover(); r != nil {
						o.Err = fmt.Sprintf("panic: %v", r)
					}
				}()
				sc.step(a, &o, blocks)
			}()
			sc.project(&o)
			out.Emit(&o)
			if o.Err != "" || o.Blocked {
				break
			}
		}
		sc.done()
	}
}

var _ = vt.Stateless
