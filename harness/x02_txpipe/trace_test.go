package proc

// X02 trace driver: random CONCURRENT submissions (several goroutines through TxPoolService.handleTransaction)
// against the RUNNING TXPoolServer (its own start() loop, the real validator pools), while one more goroutine plays
// the consensus / ledger side (getTxPool, verifyBlock, block save + cleanTransactionList, as the single-threaded
// TxPoolActor would).  Only observable points are logged: every call and every return with its result, under one
// mutex (the log order is a real-time order).  spec/TxPipe_Trace.tla must explain the log.

import (
	"math/rand"
	"runtime"
	"sync"
	"testing"
	"time"

	"github.com/ontio/ontology/core/types"
	"github.com/ontio/ontology/errors"
	tc "github.com/ontio/ontology/txnpool/common"
)

type xpTraceIn struct {
	Cap     int  `json:"cap"`
	Lim     int  `json:"lim"`
	MaxTx   int  `json:"maxtx"`
	PreExec bool `json:"preexec"`
	H0      int  `json:"h0"`
	MaxH    int  `json:"maxh"`
	NTraces int  `json:"ntraces"`
	NSub    int  `json:"nsub"`
	NPer    int  `json:"nper"`
	NOps    int  `json:"nops"`
}

type xpEv struct {
	E     string      `json:"e"`
	Id    int         `json:"id"`
	Tx    string      `json:"tx,omitempty"`
	Kind  string      `json:"kind,omitempty"`
	Err   string      `json:"err,omitempty"`
	Bc    bool        `json:"bc"`
	H     int         `json:"h"`
	List  []string    `json:"list"`
	Block []string    `json:"block"`
	Ans   []xpPoolEnt `json:"ans"`
}

type xpLog struct {
	mu  sync.Mutex
	out *vhOut
	id  int
}

func (l *xpLog) emit(e *xpEv) {
	l.mu.Lock()
	if e.List == nil {
		e.List = []string{}
	}
	if e.Block == nil {
		e.Block = []string{}
	}
	if e.Ans == nil {
		e.Ans = []xpPoolEnt{}
	}
	l.out.Emit(e)
	l.mu.Unlock()
}

func (l *xpLog) nextID() int {
	l.mu.Lock()
	defer l.mu.Unlock()
	l.id++
	return l.id
}

func TestVerifTxPipeTrace(t *testing.T) {
	var in xpTraceIn
	vhIn(&in)
	out := vhOpenOut()
	defer out.Close()
	if tc.MAX_CAPACITY != in.Cap || tc.MAX_LIMITATION != in.Lim {
		t.Fatalf("constants of the build (MAX_CAPACITY=%d MAX_LIMITATION=%d) are not the model's (%d, %d)", tc.MAX_CAPACITY, tc.MAX_LIMITATION, in.Cap, in.Lim)
	}
	out.Emit(map[string]interface{}{"e": "Header", "cap": in.Cap, "lim": in.Lim, "maxtx": in.MaxTx, "preexec": in.PreExec, "h0": in.H0, "maxh": in.MaxH})
	w := xpWorldGet()
	defer w.close()
	rng := vhRand()
	lg := &xpLog{out: out}
	variants := []string{"t1", "t1", "t1b", "t2", "t2", "t3", "t3", "t4", "t5", "t6"}
	good := []string{"t1", "t2", "t3", "t6"}
	for tr := 0; tr < in.NTraces; tr++ {
		sc := xpNewScnOpt(w, in.H0, in.MaxTx, in.PreExec, false)
		lg.emit(&xpEv{E: "Reset"})
		var wg sync.WaitGroup
		failed := make(chan string, 64)
		for g := 0; g < in.NSub; g++ {
			wg.Add(1)
			r := rand.New(rand.NewSource(rng.Int63()))
			go func() {
				defer wg.Done()
				for i := 0; i < in.NPer; i++ {
					name := variants[r.Intn(len(variants))]
					kind := "http"
					if r.Intn(3) == 0 {
						kind = "net"
					}
					id := lg.nextID()
					ch := make(chan *tc.TxResult, 4)
					lg.emit(&xpEv{E: "SubCall", Id: id, Tx: name, Kind: kind})
					done := make(chan bool, 1)
					go func() { sc.svc.handleTransaction(sc.kind(kind), sc.txs[name], ch); done <- true }()
					select {
					case res := <-ch:
						lg.emit(&xpEv{E: "SubRet", Id: id, Tx: name, Err: xpErrName(res.Err)})
						// a second answer on the same channel?
						select {
						case res2 := <-ch:
							lg.emit(&xpEv{E: "SubRet", Id: id, Tx: name, Err: xpErrName(res2.Err)})
						default:
						}
					case <-time.After(90 * time.Second):
						lg.emit(&xpEv{E: "SubTimeout", Id: id, Tx: name})
						failed <- "no answer for " + name
						return
					}
					if r.Intn(2) == 0 {
						runtime.Gosched()
					}
				}
			}()
		}
		wg.Add(1)
		cr := rand.New(rand.NewSource(rng.Int63()))
		go func() {
			defer wg.Done()
			onchain := map[string]bool{}
			blocks := map[int]*types.Block{}
			next := in.H0 + 1 // next block to announce to the pool
			for i := 0; i < in.NOps; i++ {
				h := sc.modelH(w.height())
				switch op := cr.Intn(10); {
				case op < 3:
					id := lg.nextID()
					hh := in.H0 + cr.Intn(h-in.H0+1)
					bc := cr.Intn(2) == 0
					lg.emit(&xpEv{E: "GetCall", Id: id, Bc: bc, H: hh})
					res := sc.s.getTxPool(bc, sc.realH(hh))
					ans := []xpPoolEnt{}
					for _, e := range res {
						ans = append(ans, xpPoolEnt{Tx: sc.vname[e.Tx], Vh: sc.modelH(e.VerifiedHeight)})
					}
					lg.emit(&xpEv{E: "GetRet", Id: id, Ans: ans})
				case op < 5:
					id := lg.nextID()
					hh := in.H0 + cr.Intn(h-in.H0+1)
					n := 1 + cr.Intn(2)
					var list []string
					var txs []*types.Transaction
					for j := 0; j < n; j++ {
						name := variants[cr.Intn(len(variants))]
						list = append(list, name)
						txs = append(txs, sc.txs[name])
					}
					lg.emit(&xpEv{E: "VerCall", Id: id, List: list, H: hh})
					sc.s.verifyBlock(&tc.VerifyBlockReq{Height: sc.realH(hh), Txs: txs}, sc.vbPid)
					errName := "noanswer"
					select {
					case rsp := <-sc.vbCh:
						errName = "ok"
						for _, e := range rsp.TxnPool {
							if e.ErrCode != errors.ErrNoError {
								errName = xpErrName(e.ErrCode)
							}
						}
					case <-time.After(60 * time.Second):
					}
					lg.emit(&xpEv{E: "VerRet", Id: id, Err: errName})
				case op < 7 && h < in.MaxH && next > h:
					// the ledger saves a block (every earlier one has been announced: lag <= 1)
					var names []string
					var txs []*types.Transaction
					for _, name := range good {
						if !onchain[name] && cr.Intn(3) == 0 && len(names) < 2 {
							names = append(names, name)
							txs = append(txs, sc.txs[name])
						}
					}
					id := lg.nextID()
					lg.emit(&xpEv{E: "SaveCall", Id: id, Block: names})
					b := w.saveBlock(txs)
					blocks[sc.modelH(b.Header.Height)] = b
					for _, name := range names {
						onchain[name] = true
					}
					lg.emit(&xpEv{E: "SaveRet", Id: id})
				case next <= h:
					id := lg.nextID()
					b := blocks[next]
					lg.emit(&xpEv{E: "BsCall", Id: id, H: next})
					sc.s.cleanTransactionList(b.Transactions, b.Header.Height)
					lg.emit(&xpEv{E: "BsRet", Id: id})
					next++
				default:
					runtime.Gosched()
				}
			}
		}()
		wg.Wait()
		sc.done()
		select {
		case msg := <-failed:
			lg.emit(&xpEv{E: "Abort", Tx: msg})
			return
		default:
		}
	}
}
