package vbft

// Harness of /verif for C29 (participant selection) and the production path of C30 (getChainConfig).
//   TestVerifSelect    : real calcParticipantPeers on every case (= one Select edge of spec/ChainConfig.tla)
//   TestVerifSeedTrace : blocks -> real getParticipantSelectionSeed -> real buildParticipantConfig; logs seed + sets
//   TestVerifChainCfg  : governance storage in an overlay MemDB -> real GetPeersConfig (Go map iteration) ->
//                        real getChainConfig (GenesisChainConfig)

import (
	"bytes"
	"crypto/sha512"
	"encoding/base64"
	"encoding/hex"
	"fmt"
	"reflect"
	"testing"

	"github.com/ontio/ontology/common"
	vconfig "github.com/ontio/ontology/consensus/vbft/config"
	"github.com/ontio/ontology/core/states"
	scommon "github.com/ontio/ontology/core/store/common"
	"github.com/ontio/ontology/core/store/overlaydb"
	"github.com/ontio/ontology/core/types"
	gov "github.com/ontio/ontology/smartcontract/service/native/governance"
	nutils "github.com/ontio/ontology/smartcontract/service/native/utils"
)

type vsPeer struct {
	Idx uint32 `json:"idx"`
	Key string `json:"key"`
}

type vsChain struct {
	N        uint32   `json:"N"`
	C        uint32   `json:"C"`
	Peers    []vsPeer `json:"peers"`
	PosTable []uint32 `json:"posTable"`
}

func (c vsChain) real() *vconfig.ChainConfig {
	cc := &vconfig.ChainConfig{Version: 1, View: 1, N: c.N, C: c.C, PosTable: append([]uint32{}, c.PosTable...)}
	for _, p := range c.Peers {
		cc.Peers = append(cc.Peers, &vconfig.PeerConfig{Index: p.Idx, ID: p.Key})
	}
	return cc
}

type vsSelOut struct {
	ID    int      `json:"id"`
	Res   string   `json:"res"` // ok | panic
	Err   string   `json:"err,omitempty"`
	P     []uint32 `json:"P"`
	E     []uint32 `json:"E"`
	Cm    []uint32 `json:"Cm"`
	Same  bool     `json:"same"` // all repetitions returned the same three lists
	Calls int      `json:"calls"`
}

func cp32(s []uint32) []uint32 { return append([]uint32{}, s...) }

func vsSelect(id int, chain *vconfig.ChainConfig, vrf vconfig.VRFValue, reps int) (o vsSelOut) {
	o.ID = id
	defer func() {
		if r := recover(); r != nil {
			o.Res = "panic"
			o.Err = fmt.Sprint(r)
		}
	}()
	o.Same = true
	for r := 0; r < reps; r++ {
		cfg := &BlockParticipantConfig{BlockNum: 7, Vrf: vrf, ChainConfig: chain}
		p, e, c := calcParticipantPeers(cfg, chain)
		p, e, c = cp32(p), cp32(e), cp32(c)
		if r == 0 {
			o.P, o.E, o.Cm = p, e, c
		} else if !reflect.DeepEqual(p, o.P) || !reflect.DeepEqual(e, o.E) || !reflect.DeepEqual(c, o.Cm) {
			o.Same = false
		}
		o.Calls++
	}
	o.Res = "ok"
	return
}

func TestVerifSelect(t *testing.T) {
	var in struct {
		Chains []vsChain `json:"chains"`
		Cases  []struct {
			ID    int   `json:"id"`
			Chain int   `json:"chain"`
			Vrf   []int `json:"vrf"`
		} `json:"cases"`
		Reps int `json:"reps"`
	}
	vhIn(&in)
	out := vhOpenOut()
	defer out.Close()
	for _, c := range in.Cases {
		var vrf vconfig.VRFValue
		if len(c.Vrf) != vconfig.VRF_SIZE {
			panic("vrf length")
		}
		for i, b := range c.Vrf {
			vrf[i] = byte(b)
		}
		out.Emit(vsSelect(c.ID, in.Chains[c.Chain].real(), vrf, in.Reps))
	}
}

// ---------------------------------------------------------------- seed + production path of the selection

type vsSeedOut struct {
	vsSelOut
	Chain     int    `json:"chain"`
	Vrf       []int  `json:"vrf"`       // the 64-byte selection seed the real code derived
	SeedSame  bool   `json:"seedSame"`  // same (blockNum, proposer, vrfValue) in a different block object => same seed
	SeedModel bool   `json:"seedModel"` // seed = sha512(sha512(json{block_num+1, prev_block_proposer, vrf_value}))
	Height    uint32 `json:"height"`
}

func vsBlock(height, proposer uint32, vrfValue []byte, salt byte) *Block {
	hdr := &types.Header{Height: height, Timestamp: uint32(salt) * 77}
	hdr.PrevBlockHash[0] = salt
	return &Block{
		Block: &types.Block{Header: hdr},
		Info:  &vconfig.VbftBlockInfo{Proposer: proposer, VrfValue: append([]byte{}, vrfValue...), VrfProof: []byte{salt, salt}, LastConfigBlockNum: uint32(salt)},
	}
}

func TestVerifSeedTrace(t *testing.T) {
	var in struct {
		Chains []vsChain `json:"chains"`
		Blocks []struct {
			ID       int    `json:"id"`
			Chain    int    `json:"chain"`
			Height   uint32 `json:"height"`
			Proposer uint32 `json:"proposer"`
			VrfValue string `json:"vrfValue"` // hex
		} `json:"blocks"`
		Reps int `json:"reps"`
	}
	vhIn(&in)
	out := vhOpenOut()
	defer out.Close()
	srv := &Server{Index: 1, stateMgr: &StateMgr{currentState: Syncing}}
	for _, b := range in.Blocks {
		vv, err := hex.DecodeString(b.VrfValue)
		vhMust(err)
		chain := in.Chains[b.Chain].real()
		blk := vsBlock(b.Height, b.Proposer, vv, 1)
		seed := getParticipantSelectionSeed(blk)
		seed2 := getParticipantSelectionSeed(vsBlock(b.Height, b.Proposer, vv, 2))
		js := fmt.Sprintf(`{"block_num":%d,"prev_block_proposer":%d,"vrf_value":%s}`, b.Height+1, b.Proposer, vsB64(vv))
		h1 := sha512.Sum512([]byte(js))
		h2 := sha512.Sum512(h1[:])
		o := vsSeedOut{Chain: b.Chain, Height: b.Height}
		o.SeedSame = bytes.Equal(seed[:], seed2[:])
		o.SeedModel = bytes.Equal(seed[:], h2[:])
		for _, x := range seed {
			o.Vrf = append(o.Vrf, int(x))
		}
		// production path: buildParticipantConfig(blkNum, block, chainCfg)
		func() {
			defer func() {
				if r := recover(); r != nil {
					o.Res = "panic"
					o.Err = fmt.Sprint(r)
				}
			}()
			pc, err := srv.buildParticipantConfig(b.Height+1, blk, chain)
			if err != nil {
				o.Res = "err"
				o.Err = err.Error()
				return
			}
			if pc.Vrf != seed {
				o.SeedSame = false
			}
			o.P, o.E, o.Cm = cp32(pc.Proposers), cp32(pc.Endorsers), cp32(pc.Committers)
			o.Res = "ok"
			o.Same = true
			o.Calls = 1
			// determinism: the direct function on the same (seed, configuration), repeated
			d := vsSelect(b.ID, chain, seed, in.Reps)
			o.Calls += d.Calls
			if d.Res != "ok" || !d.Same || !reflect.DeepEqual(d.P, o.P) || !reflect.DeepEqual(d.E, o.E) || !reflect.DeepEqual(d.Cm, o.Cm) {
				o.Same = false
			}
		}()
		o.ID = b.ID
		out.Emit(o)
	}
}

func vsB64(b []byte) string {
	if b == nil {
		return "null"
	}
	return `"` + base64.StdEncoding.EncodeToString(b) + `"`
}

// ---------------------------------------------------------------- C30: production path getChainConfig

type vcPeer struct {
	Idx    uint32 `json:"idx"`
	Key    string `json:"key"`
	Stake  uint64 `json:"stake"`  // InitPos + TotalPos
	Status int    `json:"status"` // gov.Status; only Candidate / Consensus peers are eligible
}

type vcCase struct {
	ID   int      `json:"id"`
	Pool []vcPeer `json:"pool"`
	K    uint32   `json:"K"`
	L    uint32   `json:"L"`
	C    uint32   `json:"C"`
	Env  struct {
		ID     int    `json:"id"`
		TxHash string `json:"txhash"`
		Height uint32 `json:"height"`
	} `json:"env"`
	Reps int `json:"reps"`
}

func vcRaw(key []byte) []byte {
	raw := []byte{byte(scommon.ST_STORAGE)}
	raw = append(raw, nutils.GovernanceContractAddress[:]...)
	return append(raw, key...)
}

func vcMemDB(c vcCase, rep int) *overlaydb.MemDB {
	db := overlaydb.NewMemDB(16*1024, 16)
	tb, err := hex.DecodeString(c.Env.TxHash)
	vhMust(err)
	txh, err := common.Uint256ParseFromBytes(tb)
	vhMust(err)
	const view = 5
	gv := &gov.GovernanceView{View: view, Height: 100, TxHash: txh}
	buf := new(bytes.Buffer)
	vhMust(gv.Serialize(buf))
	db.Put(vcRaw([]byte(gov.GOVERNANCE_VIEW)), states.GenRawStorageItem(buf.Bytes()))
	// peer pool of the current view; split the stake between InitPos and TotalPos differently per repetition
	pm := &gov.PeerPoolMap{PeerPoolMap: map[string]*gov.PeerPoolItem{}}
	for i, p := range c.Pool {
		tot := uint64(0)
		if (i+rep)%2 == 1 {
			tot = p.Stake / 2
		}
		pm.PeerPoolMap[p.Key] = &gov.PeerPoolItem{Index: p.Idx, PeerPubkey: p.Key, Status: gov.Status(p.Status),
			InitPos: p.Stake - tot, TotalPos: tot}
	}
	sink := common.NewZeroCopySink(nil)
	vhMust(pm.Serialization(sink))
	db.Put(vcRaw(append([]byte(gov.PEER_POOL), gov.GetUint32Bytes(view)...)), states.GenRawStorageItem(sink.Bytes()))
	// no pending pre-config (deleted key => ErrNotFound), current configuration
	db.Delete(vcRaw([]byte(gov.PRE_CONFIG)))
	cfg := &gov.Configuration{N: c.K, C: c.C, K: c.K, L: c.L, BlockMsgDelay: 10000, HashMsgDelay: 10000,
		PeerHandshakeTimeout: 10, MaxBlockChangeView: 1000}
	sink = common.NewZeroCopySink(nil)
	cfg.Serialization(sink)
	db.Put(vcRaw([]byte(gov.VBFT_CONFIG)), states.GenRawStorageItem(sink.Bytes()))
	return db
}

func TestVerifChainCfg(t *testing.T) {
	var in struct {
		Cases []vcCase `json:"cases"`
	}
	vhIn(&in)
	out := vhOpenOut()
	defer out.Close()
	for _, c := range in.Cases {
		for rep := 0; rep < c.Reps; rep++ {
			o := map[string]interface{}{"id": c.ID, "rep": rep}
			func() {
				defer func() {
					if r := recover(); r != nil {
						o["res"] = "panic"
						o["err"] = fmt.Sprint(r)
					}
				}()
				db := vcMemDB(c, rep)
				// what the map iteration yields this time (the list handed to GenesisChainConfig)
				lst, err := GetPeersConfig(db)
				if err != nil {
					o["res"], o["err"] = "err", err.Error()
					return
				}
				order := []uint32{}
				stakes := []uint64{}
				for _, p := range lst {
					order = append(order, p.Index)
					stakes = append(stakes, p.InitPos)
				}
				o["order"], o["stakes"] = order, stakes
				cc, err := getChainConfig(db, c.Env.Height)
				if err != nil {
					o["res"], o["err"] = "err", err.Error()
					return
				}
				ps := []vsPeer{}
				for _, p := range cc.Peers {
					ps = append(ps, vsPeer{p.Index, p.ID})
				}
				o["res"], o["N"], o["C"], o["view"] = "ok", cc.N, cc.C, cc.View
				o["peers"], o["posTable"] = ps, cc.PosTable
			}()
			out.Emit(o)
		}
	}
}
