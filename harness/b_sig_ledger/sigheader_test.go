package ledgerstore

// Conformance harness for spec/SigHeader.tla (C32): a real LedgerStoreImp initialised from a real VBFT genesis
// block (N consensus peers whose keys the harness owns); headers of height 1 are built and signed by the
// harness and offered to AddHeaders (and AddBlock); the observed verdict is reported per TLC row.

import (
	"encoding/hex"
	"encoding/json"
	"fmt"
	"os"
	"path/filepath"
	"strings"
	"testing"

	"github.com/ontio/ontology-crypto/keypair"
	s "github.com/ontio/ontology-crypto/signature"
	"github.com/ontio/ontology/common"
	"github.com/ontio/ontology/common/config"
	"github.com/ontio/ontology/common/log"
	vconfig "github.com/ontio/ontology/consensus/vbft/config"
	"github.com/ontio/ontology/core/genesis"
	"github.com/ontio/ontology/core/types"
)

type shRow struct {
	Bk   []int           `json:"bk"`
	Sigs [][]interface{} `json:"sigs"` // [kind, by]
}
type shInput struct {
	N    int     `json:"n"`
	C    int     `json:"c"`
	Rows []shRow `json:"rows"`
}

type shKey struct {
	pri keypair.PrivateKey
	pub keypair.PublicKey
}

type shWorld struct {
	keys    []*shKey // 1..N members, N+1 non-member
	store   *LedgerStoreImp
	genesis *types.Block
	sigc    map[string][]byte
}

func (w *shWorld) sign(k int, msg []byte) []byte {
	ck := fmt.Sprintf("%d/%x", k, msg)
	if v, ok := w.sigc[ck]; ok {
		return v
	}
	sig, err := s.Sign(s.SHA256withECDSA, w.keys[k-1].pri, msg, nil)
	vhMust(err)
	b, err := s.Serialize(sig)
	vhMust(err)
	w.sigc[ck] = b
	return b
}

func shNewKey() *shKey {
	pri, pub, err := keypair.GenerateKeyPair(keypair.PK_ECDSA, keypair.P256)
	vhMust(err)
	return &shKey{pri, pub}
}

func shNewWorld(n, c int) *shWorld {
	w := &shWorld{sigc: map[string][]byte{}}
	for i := 0; i <= n; i++ {
		w.keys = append(w.keys, shNewKey())
	}
	var peers []*config.VBFTPeerStakeInfo
	var bookkeepers []keypair.PublicKey
	for i := 0; i < n; i++ {
		addr := types.AddressFromPubKey(w.keys[i].pub)
		peers = append(peers, &config.VBFTPeerStakeInfo{
			Index:      uint32(i + 1),
			PeerPubkey: vconfig.PubkeyID(w.keys[i].pub),
			Address:    addr.ToBase58(),
			InitPos:    10000,
		})
		bookkeepers = append(bookkeepers, w.keys[i].pub)
	}
	pol := config.PolarisConfig.VBFT
	config.DefConfig.Genesis.ConsensusType = config.CONSENSUS_TYPE_VBFT
	config.DefConfig.Genesis.VBFT = &config.VBFTConfig{
		N: uint32(n), C: uint32(c), K: uint32(n), L: uint32(16 * n),
		BlockMsgDelay: pol.BlockMsgDelay, HashMsgDelay: pol.HashMsgDelay, PeerHandshakeTimeout: pol.PeerHandshakeTimeout,
		MaxBlockChangeView: pol.MaxBlockChangeView, AdminOntID: pol.AdminOntID, MinInitStake: pol.MinInitStake,
		VrfValue: pol.VrfValue, VrfProof: pol.VrfProof, Peers: peers,
	}
	blk, err := genesis.BuildGenesisBlock(bookkeepers, config.DefConfig.Genesis)
	vhMust(err)
	dir := filepath.Join(os.Getenv("VERIF_SCRATCH"), fmt.Sprintf("b-sig-ledger-%d-%d", n, os.Getpid()))
	os.RemoveAll(dir)
	st, err := NewLedgerStore(dir, 0)
	vhMust(err)
	vhMust(st.InitLedgerStoreWithGenesisBlock(blk, bookkeepers))
	w.store, w.genesis = st, blk
	return w
}

func (w *shWorld) header(r *shRow, salt uint64) *types.Header {
	info := &vconfig.VbftBlockInfo{Proposer: 1, LastConfigBlockNum: 0}
	payload, err := json.Marshal(info)
	vhMust(err)
	h := &types.Header{
		Version:          0,
		PrevBlockHash:    w.genesis.Hash(),
		TransactionsRoot: common.UINT256_EMPTY,
		BlockRoot:        common.UINT256_EMPTY,
		Timestamp:        w.genesis.Header.Timestamp + 10,
		Height:           1,
		ConsensusData:    salt,
		ConsensusPayload: payload,
	}
	hash := h.Hash()
	other := common.Uint256{}
	copy(other[:], hash[:])
	other[0] ^= 0xFF
	for _, k := range r.Bk {
		h.Bookkeepers = append(h.Bookkeepers, w.keys[k-1].pub)
	}
	for _, sg := range r.Sigs {
		kind := sg[0].(string)
		by := int(sg[1].(float64))
		switch kind {
		case "g":
			h.SigData = append(h.SigData, w.sign(by, hash[:]))
		case "s":
			h.SigData = append(h.SigData, w.sign(by, other[:]))
		default:
			h.SigData = append(h.SigData, []byte{0x01})
		}
	}
	return h
}

func (w *shWorld) undo(h *types.Header) {
	st := w.store
	st.lock.Lock()
	st.headerIndexCache.delHeaderIndex(1)
	st.headerIndexCache.setLastIndex(0)
	delete(st.headerCache, h.Hash())
	st.lock.Unlock()
}

func TestVerifSigHeaderLedger(t *testing.T) {
	log.InitLog(log.FatalLog, log.Stdout)
	var in shInput
	vhIn(&in)
	out := vhOpenOut()
	defer out.Close()
	w := shNewWorld(in.N, in.C)
	defer func() {
		w.store.Close()
	}()
	peerInfo := w.store.vbftPeerInfoMap[0]
	out.Emit(map[string]interface{}{"meta": true, "peers": len(peerInfo), "genesis": w.genesis.Hash().ToHexString(),
		"headerHeight": w.store.GetCurrentHeaderHeight()})
	var lastAcc *types.Header
	var rejected []*types.Header
	for i := range in.Rows {
		h := w.header(&in.Rows[i], 7)
		o := map[string]interface{}{"i": i}
		func() {
			defer func() {
				if r := recover(); r != nil {
					o["panic"] = fmt.Sprint(r)
					o["acc"] = false
				}
			}()
			err := w.store.AddHeaders([]*types.Header{h})
			o["acc"] = err == nil
			if err != nil {
				o["err"] = err.Error()
				if len(rejected) < 40 || i%53 == 0 {
					rejected = append(rejected, h)
				}
			} else {
				o["hh"] = w.store.GetCurrentHeaderHeight()
				w.undo(h)
				lastAcc = h
			}
		}()
		out.Emit(o)
	}
	// the same gate behind AddBlock: rejected headers must be refused by verifyHeader there too; one accepted header
	// must get past it (whatever saveBlock then says about the empty block)
	nb, nbRej := 0, 0
	for _, h := range rejected {
		err := w.store.AddBlock(&types.Block{Header: h}, nil, common.UINT256_EMPTY)
		nb++
		if err != nil && strings.HasPrefix(err.Error(), "verifyHeader error") {
			nbRej++
		}
	}
	accPast := ""
	if lastAcc != nil {
		func() {
			defer func() {
				if r := recover(); r != nil {
					accPast = "panic-after-verifyHeader: " + fmt.Sprint(r)
				}
			}()
			err := w.store.AddBlock(&types.Block{Header: lastAcc}, nil, common.UINT256_EMPTY)
			if err == nil {
				accPast = "saved"
			} else if strings.HasPrefix(err.Error(), "verifyHeader error") {
				accPast = "REFUSED:" + err.Error()
			} else {
				accPast = "past-verifyHeader: " + err.Error()
			}
		}()
	}
	out.Emit(map[string]interface{}{"done": true, "addBlockRejectedTried": nb, "addBlockRejectedRefused": nbRej, "addBlockAccepted": accPast})
}

var _ = hex.EncodeToString
