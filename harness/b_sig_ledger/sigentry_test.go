package ledgerstore

// Conformance harness for spec/SigEntry.tla (C32, entry points and their order): TLC paths of AddHeader / AddHeaders /
// AddBlock / ExecuteBlock+SubmitBlock calls are replayed on ONE real VBFT-genesis LedgerStoreImp.  Every path starts at
// the ledger's current block (the "origin", whatever height the earlier paths left it at - the governing configuration
// stays the genesis one); only the in-memory header index above the current block and the header cache are reset
// between paths.  An object = one of four unsigned headers (height origin+1 / origin+2, content a / b, <<2,x>> names
// <<1,x>> as predecessor) + a signature section built from the section table (bookkeepers, signatures over the
// object's hash by harness-owned keys).  After every call the harness reports the observed state; for every block in
// the block store it reads the STORED header back and counts, with the real signature.Verify, the distinct consensus
// peers that have a valid signature on it.

import (
	"fmt"
	"testing"

	"github.com/ontio/ontology/common"
	"github.com/ontio/ontology/common/log"
	vconfig "github.com/ontio/ontology/consensus/vbft/config"
	"github.com/ontio/ontology/core/signature"
	"github.com/ontio/ontology/core/types"
)

type enHdr struct {
	H   int    `json:"h"`
	Id  string `json:"id"`
	Sec string `json:"sec"`
}
type enStep struct {
	Op string  `json:"op"`
	Hs []enHdr `json:"hs"`
}
type enInput struct {
	N     int              `json:"n"`
	C     int              `json:"c"`
	Ids   []string         `json:"ids"`
	MaxH  int              `json:"maxh"`
	Secs  map[string]shRow `json:"secs"`
	Paths [][]enStep       `json:"paths"`
}

func enSecKey(h *types.Header) string {
	s := ""
	for _, b := range h.Bookkeepers {
		s += vconfig.PubkeyID(b) + ","
	}
	s += "|"
	for _, g := range h.SigData {
		s += fmt.Sprintf("%x,", g)
	}
	return s
}

// number of distinct consensus peers (keys 1..n) with a valid signature over the header's hash among its SigData
var enValidMemo = map[string]int{}

func (w *shWorld) validMemberSigners(h *types.Header, n int) int {
	hash := h.Hash()
	mk := fmt.Sprintf("%x/", hash[:]) + enSecKey(h)
	if v, ok := enValidMemo[mk]; ok {
		return v
	}
	cnt := 0
	defer func() { enValidMemo[mk] = cnt }()
	for k := 0; k < n; k++ {
		for _, sg := range h.SigData {
			if signature.Verify(w.keys[k].pub, hash[:], sg) == nil {
				cnt++
				break
			}
		}
	}
	return cnt
}

func TestVerifSigEntryLedger(t *testing.T) {
	log.InitLog(log.FatalLog, log.Stdout)
	var in enInput
	vhIn(&in)
	out := vhOpenOut()
	defer out.Close()
	w := shNewWorld(in.N, in.C)
	defer w.store.Close()
	st := w.store
	out.Emit(map[string]interface{}{"meta": true, "peers": len(st.vbftPeerInfoMap[0]), "headerHeight": st.GetCurrentHeaderHeight()})
	for pi, path := range in.Paths {
		// ---- origin: the current block; forget every header synced above it
		st.lock.Lock()
		base := st.currBlockHeight
		for h := base + 1; h <= base+uint32(in.MaxH)+2; h++ {
			st.headerIndexCache.delHeaderIndex(h)
		}
		st.headerIndexCache.setLastIndex(base)
		st.headerCache = make(map[common.Uint256]*types.Header)
		st.lock.Unlock()
		baseHdr, err := st.GetHeaderByHeight(base)
		vhMust(err)
		// ---- the unsigned headers of this path
		unsigned := map[string]*types.Header{} // "<h><id>"
		label := map[common.Uint256]string{}
		empties := []common.Uint256{}
		for h := 1; h <= in.MaxH; h++ {
			empties = append(empties, common.UINT256_EMPTY)
			root := st.GetBlockRootWithNewTxRoots(base+1, empties)
			for ii, id := range in.Ids {
				prev := baseHdr
				if h > 1 {
					prev = unsigned[fmt.Sprintf("%d%s", h-1, id)]
				}
				u := w.header(&shRow{}, uint64(1000*pi+10*h+ii))
				u.PrevBlockHash = prev.Hash()
				u.Height = base + uint32(h)
				u.Timestamp = baseHdr.Timestamp + uint32(10*h)
				u.BlockRoot = root
				u = &types.Header{Version: u.Version, PrevBlockHash: u.PrevBlockHash, TransactionsRoot: u.TransactionsRoot, BlockRoot: u.BlockRoot,
					Timestamp: u.Timestamp, Height: u.Height, ConsensusData: u.ConsensusData, ConsensusPayload: u.ConsensusPayload}
				unsigned[fmt.Sprintf("%d%s", h, id)] = u
				label[u.Hash()] = id
			}
		}
		secOf := map[string]string{} // signature section bytes -> section name
		build := func(x enHdr) *types.Header {
			u := unsigned[fmt.Sprintf("%d%s", x.H, x.Id)]
			row := in.Secs[x.Sec]
			// w.header signs the hash of ITS header; sign here over the object's own hash
			h := &types.Header{Version: u.Version, PrevBlockHash: u.PrevBlockHash, TransactionsRoot: u.TransactionsRoot, BlockRoot: u.BlockRoot,
				Timestamp: u.Timestamp, Height: u.Height, ConsensusData: u.ConsensusData, ConsensusPayload: u.ConsensusPayload}
			hash := h.Hash()
			other := hash
			other[0] ^= 0xFF
			for _, k := range row.Bk {
				h.Bookkeepers = append(h.Bookkeepers, w.keys[k-1].pub)
			}
			for _, sg := range row.Sigs {
				by := int(sg[1].(float64))
				switch sg[0].(string) {
				case "g":
					h.SigData = append(h.SigData, w.sign(by, hash[:]))
				case "s":
					h.SigData = append(h.SigData, w.sign(by, other[:]))
				default:
					h.SigData = append(h.SigData, []byte{0x01})
				}
			}
			secOf[fmt.Sprintf("%x/", hash[:4])+enSecKey(h)] = x.Sec
			return h
		}
		nameOf := func(h *types.Header) string {
			hash := h.Hash()
			if s, ok := secOf[fmt.Sprintf("%x/", hash[:4])+enSecKey(h)]; ok {
				return s
			}
			return "?"
		}
		observe := func(o map[string]interface{}) {
			cur := st.GetCurrentBlockHeight()
			o["cur"] = int(cur - base)
			o["hh"] = int(st.GetCurrentHeaderHeight() - base)
			hidx := []string{}
			cache := []map[string]string{}
			st.lock.RLock()
			for h := 1; h <= in.MaxH; h++ {
				l := "-"
				if hash, ok := st.headerIndexCache.headerIndex[base+uint32(h)]; ok {
					if l, ok = label[hash]; !ok {
						l = "?"
					}
				}
				hidx = append(hidx, l)
				row := map[string]string{}
				for _, id := range in.Ids {
					row[id] = "-"
					if c, ok := st.headerCache[unsigned[fmt.Sprintf("%d%s", h, id)].Hash()]; ok {
						row[id] = nameOf(c)
					}
				}
				cache = append(cache, row)
			}
			ncache := len(st.headerCache)
			st.lock.RUnlock()
			o["hidx"], o["cache"], o["ncache"] = hidx, cache, ncache
			blocks := []map[string]interface{}{}
			for h := base + 1; h <= cur; h++ {
				b := map[string]interface{}{"id": "?", "sec": "?", "valid": -1}
				hash, err := st.blockStore.GetBlockHash(h)
				if err == nil {
					var sh *types.Header
					if sh, err = st.blockStore.GetHeader(hash); err == nil { // the STORED header, not the cached one
						if l, ok := label[hash]; ok {
							b["id"] = l
						}
						b["sec"] = nameOf(sh)
						b["valid"] = w.validMemberSigners(sh, in.N)
						b["nbk"] = len(sh.Bookkeepers)
						b["nsig"] = len(sh.SigData)
					}
				}
				if err != nil {
					b["err"] = err.Error()
				}
				blocks = append(blocks, b)
			}
			o["blocks"] = blocks
		}
		for si := range path {
			step := &path[si]
			o := map[string]interface{}{"p": pi, "s": si}
			func() {
				defer func() {
					if r := recover(); r != nil {
						o["panic"] = fmt.Sprint(r)
					}
				}()
				var err error
				switch step.Op {
				case "AddHeader":
					err = st.AddHeader(build(step.Hs[0]))
				case "AddHeaders":
					var hs []*types.Header
					for i := len(step.Hs) - 1; i >= 0; i-- { // handed over unsorted
						hs = append(hs, build(step.Hs[i]))
					}
					err = st.AddHeaders(hs)
				case "AddBlock":
					err = st.AddBlock(&types.Block{Header: build(step.Hs[0])}, nil, common.UINT256_EMPTY)
				case "SubmitBlock":
					blk := &types.Block{Header: build(step.Hs[0])}
					res, e := st.ExecuteBlock(blk)
					err = e
					if err == nil {
						err = st.SubmitBlock(blk, nil, res)
					}
				default:
					panic("unknown op " + step.Op)
				}
				o["ok"] = err == nil
				if err != nil {
					es := err.Error()
					if len(es) > 140 {
						es = es[:140]
					}
					o["err"] = es
				}
			}()
			observe(o)
			out.Emit(o)
		}
	}
	out.Emit(map[string]interface{}{"done": true, "height": st.GetCurrentBlockHeight()})
}
