package ledgerstore

// Conformance harness for spec/SigEpoch.tla, Which = "ledger" (stateful part of C32): TLC histories of AddHeader /
// AddBlock steps (config-change headers, headers pointing at a configuration height, forged blocks while header sync
// is ahead of block sync) are replayed on one real VBFT-genesis LedgerStoreImp; between histories only the in-memory
// header index, header cache and vbftPeerInfoMap are reset (nothing of a header-only history reaches the disk).

import (
	"encoding/json"
	"fmt"
	"testing"

	"github.com/ontio/ontology/common"
	"github.com/ontio/ontology/common/log"
	vconfig "github.com/ontio/ontology/consensus/vbft/config"
	"github.com/ontio/ontology/core/types"
)

type seStep struct {
	Op      string `json:"op"`
	Height  int    `json:"height"`
	Signers []int  `json:"signers"`
	Cfg     []int  `json:"cfg"`
	LastCfg int    `json:"lastcfg"`
}
type seInput struct {
	N     int        `json:"n"`
	C     int        `json:"c"`
	Keys  int        `json:"keys"`
	Paths [][]seStep `json:"paths"`
}

func (w *shWorld) epochHeader(st *seStep, prev *types.Header, c int, salt uint64) *types.Header {
	info := &vconfig.VbftBlockInfo{Proposer: 1, LastConfigBlockNum: uint32(st.LastCfg)}
	if len(st.Cfg) > 0 {
		cc := &vconfig.ChainConfig{N: uint32(len(st.Cfg)), C: uint32(c)}
		for i, k := range st.Cfg {
			cc.Peers = append(cc.Peers, &vconfig.PeerConfig{Index: uint32(i + 1), ID: vconfig.PubkeyID(w.keys[k-1].pub)})
		}
		info.NewChainConfig = cc
	}
	payload, err := json.Marshal(info)
	vhMust(err)
	h := &types.Header{
		PrevBlockHash:    prev.Hash(),
		TransactionsRoot: common.UINT256_EMPTY,
		BlockRoot:        common.UINT256_EMPTY,
		Timestamp:        prev.Timestamp + 10,
		Height:           prev.Height + 1,
		ConsensusData:    salt,
		ConsensusPayload: payload,
	}
	hash := h.Hash()
	for _, k := range st.Signers {
		h.Bookkeepers = append(h.Bookkeepers, w.keys[k-1].pub)
		h.SigData = append(h.SigData, w.sign(k, hash[:]))
	}
	return h
}

func TestVerifSigEpochLedger(t *testing.T) {
	log.InitLog(log.FatalLog, log.Stdout)
	var in seInput
	vhIn(&in)
	out := vhOpenOut()
	defer out.Close()
	w := shNewWorld(in.N, in.C)
	for len(w.keys) < in.Keys { // outsiders beyond N+1
		w.keys = append(w.keys, shNewKey())
	}
	defer w.store.Close()
	st := w.store
	genesisPeers := map[string]uint32{}
	for k, v := range st.vbftPeerInfoMap[0] {
		genesisPeers[k] = v
	}
	out.Emit(map[string]interface{}{"meta": true, "peers": len(genesisPeers)})
	for pi, path := range in.Paths {
		// reset the in-memory header state to "genesis only"
		st.lock.Lock()
		for h := uint32(1); h <= 8; h++ {
			st.headerIndexCache.delHeaderIndex(h)
		}
		st.headerIndexCache.setLastIndex(0)
		st.headerCache = make(map[common.Uint256]*types.Header)
		gp := map[string]uint32{}
		for k, v := range genesisPeers {
			gp[k] = v
		}
		st.vbftPeerInfoMap = map[uint32]map[string]uint32{0: gp}
		st.lock.Unlock()
		chain := []*types.Header{w.genesis.Header}
		var accs []bool
		var errs []string
		for si := range path {
			step := &path[si]
			acc := false
			es := ""
			func() {
				defer func() {
					if r := recover(); r != nil {
						es = "panic: " + fmt.Sprint(r)
					}
				}()
				if step.Height < 1 || step.Height > len(chain) {
					es = "harness: no real predecessor at this height (earlier divergence)"
					return
				}
				h := w.epochHeader(step, chain[step.Height-1], in.C, uint64(100+si))
				var err error
				if step.Op == "AddBlock" {
					err = st.AddBlock(&types.Block{Header: h}, nil, common.UINT256_EMPTY)
					// verifyHeader passed iff the error (there always is one for this empty block) comes from later stages
					acc = err == nil || len(err.Error()) < 18 || err.Error()[:18] != "verifyHeader error"
				} else {
					err = st.AddHeaders([]*types.Header{h})
					acc = err == nil
					if acc {
						chain = append(chain[:step.Height], h)
					}
				}
				if err != nil {
					es = err.Error()
				}
			}()
			accs = append(accs, acc)
			if len(es) > 120 {
				es = es[:120]
			}
			errs = append(errs, es)
		}
		out.Emit(map[string]interface{}{"p": pi, "acc": accs, "err": errs})
	}
	out.Emit(map[string]interface{}{"done": true})
}
