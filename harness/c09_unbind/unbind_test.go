package utils

// Conformance harness for spec/Unbind.tla (C09).  It never decides anything about the
// specification: it only evaluates the real CalcUnbindOng / CalcGovernanceUnbindOng /
// config.GetOntHolderUnboundDeadline / config.GetGovUnboundDeadline on the inputs named by
// $VERIF_IN and writes what they returned (plus the arithmetic identity a+b=c on those
// returned values for every grid triple) to $VERIF_OUT.

import (
	"fmt"
	"testing"

	"github.com/ontio/ontology/common/config"
	"github.com/ontio/ontology/common/constants"
)

type ubNet struct {
	Name   string   `json:"name"`
	Id     uint32   `json:"id"`
	Points []uint32 `json:"points"` // sorted ascending, distinct
}

type ubProbe struct {
	Id  string `json:"id"`
	Net string `json:"net"`
	A   uint32 `json:"a"`
	B   uint32 `json:"b"`
	C   uint32 `json:"c"`
}

type ubIn struct {
	Mode     string    `json:"mode"` // consts | grid | probe
	Nets     []ubNet   `json:"nets"`
	Balances []uint64  `json:"balances"`
	Ends     []uint32  `json:"ends"`
	Probes   []ubProbe `json:"probes"`
	MaxFails int       `json:"maxfails"`
}

type ubVal struct {
	V     uint64
	Panic string
}

func ubHolder(bal uint64, a, b uint32) (r ubVal) {
	defer func() {
		if e := recover(); e != nil {
			r = ubVal{0, fmt.Sprint(e)}
		}
	}()
	return ubVal{CalcUnbindOng(bal, a, b), ""}
}

func ubGov(a, b uint32) (r ubVal) {
	defer func() {
		if e := recover(); e != nil {
			r = ubVal{0, fmt.Sprint(e)}
		}
	}()
	return ubVal{CalcGovernanceUnbindOng(a, b), ""}
}

func ubConsts(out *vhOut, n ubNet) {
	rec := map[string]interface{}{"kind": "consts", "net": n.Name, "id": n.Id}
	func() {
		defer func() {
			if e := recover(); e != nil {
				rec["panic"] = fmt.Sprint(e)
			}
		}()
		rec["T"] = constants.UNBOUND_TIME_INTERVAL
		rec["T_utils"] = TIME_INTERVAL
		rec["rate"] = constants.UNBOUND_GENERATION_AMOUNT[:]
		rec["newrate"] = constants.NEW_UNBOUND_GENERATION_AMOUNT[:]
		rec["rate_utils"] = GENERATION_AMOUNT[:]
		rec["newrate_utils"] = NEW_GENERATION_AMOUNT[:]
		rec["ont_supply"] = uint64(constants.ONT_TOTAL_SUPPLY)
		rec["ong_supply"] = uint64(constants.ONG_TOTAL_SUPPLY)
		rec["D"] = config.GetOntHolderUnboundDeadline()
		gd, gap := config.GetGovUnboundDeadline()
		rec["GD"] = gd
		rec["gap"] = gap
	}()
	out.Emit(rec)
}

func TestVerifUnbind(t *testing.T) {
	var in ubIn
	vhIn(&in)
	out := vhOpenOut()
	defer out.Close()
	if in.MaxFails == 0 {
		in.MaxFails = 200000
	}
	netByName := map[string]ubNet{}
	for _, n := range in.Nets {
		netByName[n.Name] = n
	}
	switch in.Mode {
	case "consts":
		for _, n := range in.Nets {
			config.DefConfig.P2PNode.NetworkId = n.Id
			ubConsts(out, n)
		}
	case "grid":
		for _, n := range in.Nets {
			config.DefConfig.P2PNode.NetworkId = n.Id
			ubGrid(out, &in, n)
		}
	case "probe":
		for _, p := range in.Probes {
			n := netByName[p.Net]
			config.DefConfig.P2PNode.NetworkId = n.Id
			rec := map[string]interface{}{"kind": "probe", "id": p.Id, "net": p.Net, "a": p.A, "b": p.B, "c": p.C}
			put := func(k string, v ubVal) {
				rec[k] = v.V
				if v.Panic != "" {
					rec[k+"_panic"] = v.Panic
				}
			}
			put("h_ac", ubHolder(1, p.A, p.C))
			put("h_ab", ubHolder(1, p.A, p.B))
			put("h_bc", ubHolder(1, p.B, p.C))
			put("g_ac", ubGov(p.A, p.C))
			put("g_ab", ubGov(p.A, p.B))
			put("g_bc", ubGov(p.B, p.C))
			put("hs_0c", ubHolder(constants.ONT_TOTAL_SUPPLY, 0, p.C))
			put("g_0c", ubGov(0, p.C))
			out.Emit(rec)
		}
	default:
		t.Fatalf("unknown mode %q", in.Mode)
	}
}

func ubGrid(out *vhOut, in *ubIn, n ubNet) {
	P := n.Points
	N := len(P)
	h := make([][]uint64, N)
	g := make([][]uint64, N)
	npanic := 0
	for i := 0; i < N; i++ {
		h[i] = make([]uint64, N-i)
		g[i] = make([]uint64, N-i)
		for j := i; j < N; j++ {
			hv := ubHolder(1, P[i], P[j])
			gv := ubGov(P[i], P[j])
			if hv.Panic != "" && npanic < 50 {
				npanic++
				out.Emit(map[string]interface{}{"kind": "panic", "net": n.Name, "fn": "holder", "a": P[i], "b": P[j], "msg": hv.Panic})
			}
			if gv.Panic != "" && npanic < 50 {
				npanic++
				out.Emit(map[string]interface{}{"kind": "panic", "net": n.Name, "fn": "gov", "a": P[i], "b": P[j], "msg": gv.Panic})
			}
			h[i][j-i] = hv.V
			g[i][j-i] = gv.V
		}
		out.Emit(map[string]interface{}{"kind": "row", "net": n.Name, "i": i, "a": P[i], "h": h[i], "g": g[i]})
	}
	// reversed pairs (start > end): a sample
	for i := 1; i < N; i += 1 + N/64 {
		hv := ubHolder(1, P[i], P[i-1])
		gv := ubGov(P[i], P[i-1])
		hv0 := ubHolder(1, P[N-1], P[N-1-i])
		gv0 := ubGov(P[N-1], P[N-1-i])
		out.Emit(map[string]interface{}{"kind": "rev", "net": n.Name, "a": P[i], "b": P[i-1], "h": hv.V, "g": gv.V, "panic": hv.Panic + gv.Panic})
		out.Emit(map[string]interface{}{"kind": "rev", "net": n.Name, "a": P[N-1], "b": P[N-1-i], "h": hv0.V, "g": gv0.V, "panic": hv0.Panic + gv0.Panic})
	}
	// the final multiplication by the balance (uint64, may wrap for absurd balances only)
	for _, bal := range in.Balances {
		for i := 0; i < N; i += 1 + N/40 {
			for j := i; j < N; j += 1 + N/40 {
				hv := ubHolder(bal, P[i], P[j])
				out.Emit(map[string]interface{}{"kind": "mul", "net": n.Name, "bal": bal, "a": P[i], "b": P[j], "h": hv.V, "panic": hv.Panic})
			}
		}
	}
	// totals: everything issued from offset 0 up to e
	for _, e := range in.Ends {
		hv := ubHolder(constants.ONT_TOTAL_SUPPLY, 0, e)
		gv := ubGov(0, e)
		out.Emit(map[string]interface{}{"kind": "total", "net": n.Name, "end": e, "h": hv.V, "g": gv.V, "panic": hv.Panic + gv.Panic})
	}
	// additivity on the values returned above, every triple i <= j <= k of the grid
	var triples, hf, gf uint64
	for i := 0; i < N; i++ {
		for j := i; j < N; j++ {
			hij, gij := h[i][j-i], g[i][j-i]
			for k := j; k < N; k++ {
				triples++
				if h[i][k-i] != hij+h[j][k-j] {
					hf++
					if hf <= uint64(in.MaxFails) {
						out.Emit(map[string]interface{}{"kind": "addfail", "net": n.Name, "fn": "holder", "a": P[i], "b": P[j], "c": P[k],
							"whole": h[i][k-i], "left": hij, "right": h[j][k-j]})
					}
				}
				if g[i][k-i] != gij+g[j][k-j] {
					gf++
					if gf <= uint64(in.MaxFails) {
						out.Emit(map[string]interface{}{"kind": "addfail", "net": n.Name, "fn": "gov", "a": P[i], "b": P[j], "c": P[k],
							"whole": g[i][k-i], "left": gij, "right": g[j][k-j]})
					}
				}
			}
		}
	}
	out.Emit(map[string]interface{}{"kind": "addsum", "net": n.Name, "points": N, "triples": triples, "holder_fails": hf, "gov_fails": gf})
}
