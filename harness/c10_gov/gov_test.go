package ledgerstore

// Conformance harness for spec/Governance.tla (C10, C11).
//
// A REAL ledger store is created from the repository's own genesis block with a 7-peer VBFT
// configuration, so the governance contract is initialised by the repository's own genesis
// transaction (InitConfig).  Set-up (all through real native calls): the premise of C11 (the
// governance address is funded with the genesis peers' InitPos), funding of the actors, the
// global parameters of the model configuration (candidate fee 0), max-authorization of the
// genesis peers, and six commitDpos calls (views 1..6 use the old executeSplit; the properties
// anchor executeCommitDpos2/executeSplit2, reached from view 7 on).  The set-up state is then
// committed to the state store; every replayed path runs on a fresh OverlayDB on top of it.
//
// Per call: fresh CacheDB + SmartContract{Config{Time,Height,Tx}} + NativeService.NativeCall,
// cache.Commit() on success, dropped on failure (what HandleInvokeTransaction does); the
// signers are the transaction's SignedAddr (what CheckWitness reads).
// After every call the whole governance bookkeeping is read back from storage.

import (
	"encoding/hex"
	"fmt"
	"math"
	"os"
	"path/filepath"
	"sort"
	"testing"

	"github.com/ontio/ontology-crypto/keypair"
	"github.com/ontio/ontology/account"
	"github.com/ontio/ontology/common"
	"github.com/ontio/ontology/common/config"
	"github.com/ontio/ontology/common/constants"
	"github.com/ontio/ontology/common/log"
	"github.com/ontio/ontology/core/genesis"
	cstates "github.com/ontio/ontology/core/states"
	"github.com/ontio/ontology/core/store/overlaydb"
	"github.com/ontio/ontology/core/types"
	"github.com/ontio/ontology/smartcontract"
	"github.com/ontio/ontology/smartcontract/service/native"
	gov "github.com/ontio/ontology/smartcontract/service/native/governance"
	"github.com/ontio/ontology/smartcontract/service/native/ont"
	nutils "github.com/ontio/ontology/smartcontract/service/native/utils"
	"github.com/ontio/ontology/smartcontract/storage"
)

type gvCfg struct {
	A            uint32            `json:"A"`
	B            uint32            `json:"B"`
	Penalty      uint32            `json:"penalty"`
	PosLimit     uint32            `json:"posLimit"`
	MinInitStake uint32            `json:"minInitStake"`
	MinAuthPos   uint32            `json:"minAuthorizePos"` // 0: leave GlobalParam2 unset (default 500)
	DappFee      uint32            `json:"dappFee"`
	SplitNum     uint32            `json:"splitNum"`
	CandNum      uint32            `json:"candidateNum"`   // GlobalParam.CandidateNum (0: 49)
	GenesisPos   []uint64          `json:"genesisInitPos"` // g1..g7
	GenesisMax   uint32            `json:"genesisMaxAuthorize"`
	GenesisOwner []string          `json:"genesisOwners"` // owner (actor name) of g1..g7; default og
	PkOrder      []string          `json:"pkorder"`       // peer names in ascending order of their hex public keys
	Fund         map[string]uint64 `json:"fund"`          // ONT given to each actor
	SetupCommits int               `json:"setupCommits"`
}

type gvAct struct {
	Name string `json:"name"`
	A    string `json:"a"`
	P    string `json:"p"`
	X    uint64 `json:"x"`
	Y    uint64 `json:"y"`
	Z    uint64 `json:"z"`
}

type gvPath struct {
	Steps []gvAct `json:"steps"`
}

type gvIn struct {
	Cfg   gvCfg    `json:"cfg"`
	Paths []gvPath `json:"paths"`
}

type gvWorld struct {
	dir    string
	store  *LedgerStoreImp
	cfg    gvCfg
	addr   map[string]common.Address // actor name -> address (incl. admin, bank, gov, dapp)
	aname  map[common.Address]string
	pk     map[string]string // peer name -> hex pubkey
	pname  map[string]string // hex pubkey -> peer name
	height uint32
	gc     common.Address
}

func gvAddrN(n byte) common.Address {
	var a common.Address
	for i := range a {
		a[i] = n
	}
	a[0] = 0xA0
	return a
}

func gvNewWorld(cfg gvCfg) *gvWorld {
	log.InitLog(log.FatalLog)
	base := os.Getenv("VERIF_SCRATCH")
	if base == "" {
		base = os.TempDir()
	}
	dir, err := os.MkdirTemp(base, "b-gov-ledger-")
	vhMust(err)
	w := &gvWorld{dir: dir, cfg: cfg, addr: map[string]common.Address{}, aname: map[common.Address]string{},
		pk: map[string]string{}, pname: map[string]string{}, height: 3000000, gc: nutils.GovernanceContractAddress}
	// keys: as many as peer names, sorted by hex string, assigned in the order the model wants
	n := len(cfg.PkOrder)
	keys := make([]string, 0, n)
	pubs := map[string]keypair.PublicKey{}
	for i := 0; i < n; i++ {
		acct := account.NewAccount("")
		h := hex.EncodeToString(keypair.SerializePublicKey(acct.PublicKey))
		keys = append(keys, h)
		pubs[h] = acct.PublicKey
	}
	sort.Strings(keys)
	for i, name := range cfg.PkOrder {
		w.pk[name] = keys[i]
		w.pname[keys[i]] = name
	}
	for i, name := range []string{"og", "o1", "o2", "a1", "a2", "dapp"} {
		w.addr[name] = gvAddrN(byte(0x11 * (i + 1)))
	}
	w.addr["gov"] = nutils.GovernanceContractAddress
	// genesis configuration: 7 peers g1..g7, all owned by og
	var peers []*config.VBFTPeerStakeInfo
	var bookkeepers []keypair.PublicKey
	for i := 0; i < 7; i++ {
		name := fmt.Sprintf("g%d", i+1)
		og := w.addr[w.gowner(i)]
		peers = append(peers, &config.VBFTPeerStakeInfo{Index: uint32(i + 1), PeerPubkey: w.pk[name],
			Address: og.ToBase58(), InitPos: cfg.GenesisPos[i]})
		bookkeepers = append(bookkeepers, pubs[w.pk[name]])
	}
	pol := config.PolarisConfig.VBFT
	config.DefConfig.Genesis = &config.GenesisConfig{
		ConsensusType: config.CONSENSUS_TYPE_VBFT,
		VBFT: &config.VBFTConfig{N: 7, C: 2, K: 7, L: 112, BlockMsgDelay: 10000, HashMsgDelay: 10000, PeerHandshakeTimeout: 10,
			MaxBlockChangeView: 100000000, MinInitStake: 10000, AdminOntID: pol.AdminOntID, VrfValue: pol.VrfValue, VrfProof: pol.VrfProof,
			Peers: peers},
		DBFT: &config.DBFTConfig{}, SOLO: &config.SOLOConfig{},
	}
	config.DefConfig.P2PNode.NetworkId = config.NETWORK_ID_SOLO_NET // all height switches 0, no holder unbound deadline
	sorted, err := config.DefConfig.GetBookkeepers()
	vhMust(err)
	admin, err := types.AddressFromMultiPubKeys(sorted, (5*len(sorted)+6)/7)
	vhMust(err)
	w.addr["admin"] = admin
	w.addr["bank"] = types.AddressFromPubKey(sorted[0]) // OngInit on network id 3 gives the ONG supply to this address
	for k, v := range w.addr {
		w.aname[v] = k
	}
	blk, err := genesis.BuildGenesisBlock(bookkeepers, config.DefConfig.Genesis)
	vhMust(err)
	st, err := NewLedgerStore(filepath.Join(dir, "ledger"), 0)
	vhMust(err)
	vhMust(st.InitLedgerStoreWithGenesisBlock(blk, bookkeepers))
	w.store = st
	return w
}

func (w *gvWorld) gowner(i int) string {
	if i < len(w.cfg.GenesisOwner) && w.cfg.GenesisOwner[i] != "" {
		return w.cfg.GenesisOwner[i]
	}
	return "og"
}

func (w *gvWorld) Close() {
	w.store.Close()
	os.RemoveAll(w.dir)
}

type gvRes struct {
	Err   string
	Panic bool
}

func (w *gvWorld) svc(cache *storage.CacheDB, signers []common.Address) *native.NativeService {
	tx := &types.Transaction{TxType: types.InvokeNeo, SignedAddr: append([]common.Address{}, signers...)}
	if len(tx.SignedAddr) == 0 {
		tx.SignedAddr = []common.Address{{0xfe, 0xfe}}
	}
	sc := smartcontract.SmartContract{
		Config:  &smartcontract.Config{Time: constants.GENESIS_BLOCK_TIMESTAMP, Height: w.height, Tx: tx},
		CacheDB: cache, Store: w.store, Gas: math.MaxUint64,
	}
	s, err := sc.NewNativeService()
	vhMust(err)
	return s
}

// call = one transaction: new height, fresh cache, commit on success / drop on failure
func (w *gvWorld) call(ovl *overlaydb.OverlayDB, contract common.Address, method string, args []byte, signers ...common.Address) (res gvRes) {
	w.height++
	cache := storage.NewCacheDB(ovl)
	defer func() {
		if r := recover(); r != nil {
			res = gvRes{Err: fmt.Sprint("panic: ", r), Panic: true}
		}
	}()
	_, err := w.svc(cache, signers).NativeCall(contract, method, args)
	if err != nil {
		return gvRes{Err: err.Error()}
	}
	cache.Commit()
	return gvRes{}
}

func (w *gvWorld) must(r gvRes, what string) {
	if r.Err != "" {
		panic(fmt.Sprintf("set-up step %s failed: %s", what, r.Err))
	}
}

func gvTransferArgs(from, to common.Address, amount uint64) []byte {
	return common.SerializeToBytes(&ont.TransferStates{States: []ont.TransferState{{From: from, To: to, Value: amount}}})
}

func gvSer(f func(sink *common.ZeroCopySink)) []byte {
	sink := common.NewZeroCopySink(nil)
	f(sink)
	return sink.Bytes()
}

func (w *gvWorld) setup() {
	ovl := w.store.stateStore.NewOverlayDB()
	a := w.addr
	var sum uint64
	for _, p := range w.cfg.GenesisPos {
		sum += p
	}
	// premise of C11: the genesis block records the genesis peers' TotalStake without moving ONT
	w.must(w.call(ovl, nutils.OntContractAddress, "transfer", gvTransferArgs(a["admin"], a["gov"], sum), a["admin"]), "fund governance")
	for name, v := range w.cfg.Fund {
		w.must(w.call(ovl, nutils.OntContractAddress, "transfer", gvTransferArgs(a["admin"], a[name], v), a["admin"]), "fund "+name)
	}
	if w.cfg.CandNum == 0 {
		w.cfg.CandNum = 49
	}
	gp := &gov.GlobalParam{CandidateFee: 0, MinInitStake: w.cfg.MinInitStake, CandidateNum: w.cfg.CandNum, PosLimit: w.cfg.PosLimit,
		A: w.cfg.A, B: w.cfg.B, Yita: 5, Penalty: w.cfg.Penalty}
	w.must(w.call(ovl, w.gc, gov.UPDATE_GLOBAL_PARAM, common.SerializeToBytes(gp), a["admin"]), "updateGlobalParam")
	if w.cfg.MinAuthPos != 0 {
		gp2 := &gov.GlobalParam2{MinAuthorizePos: w.cfg.MinAuthPos, CandidateFeeSplitNum: w.cfg.SplitNum, DappFee: w.cfg.DappFee}
		w.must(w.call(ovl, w.gc, gov.UPDATE_GLOBAL_PARAM2, gvSer(func(s *common.ZeroCopySink) { vhMust(gp2.Serialization(s)) }), a["admin"]), "updateGlobalParam2")
		if w.cfg.DappFee != 0 {
			ga := &gov.GasAddress{Address: a["dapp"]}
			w.must(w.call(ovl, w.gc, gov.SET_GAS_ADDRESS, common.SerializeToBytes(ga), a["admin"]), "setGasAddress")
		}
	}
	for i := 1; i <= 7; i++ {
		ow := a[w.gowner(i-1)]
		p := &gov.ChangeMaxAuthorizationParam{PeerPubkey: w.pk[fmt.Sprintf("g%d", i)], Address: ow, MaxAuthorize: w.cfg.GenesisMax}
		w.must(w.call(ovl, w.gc, gov.CHANGE_MAX_AUTHORIZATION, common.SerializeToBytes(p), ow), "changeMaxAuthorization")
	}
	for i := 0; i < w.cfg.SetupCommits; i++ {
		w.must(w.call(ovl, w.gc, gov.COMMIT_DPOS, []byte{}, a["admin"]), "commitDpos")
	}
	w.store.stateStore.NewBatch()
	ovl.CommitTo()
	vhMust(w.store.stateStore.CommitTo())
}

// ---------------------------------------------------------------------------------------------- actions

func (w *gvWorld) apply(ovl *overlaydb.OverlayDB, s gvAct) gvRes {
	a := w.addr
	who := a[s.A]
	pk := w.pk[s.P]
	switch s.Name {
	case "Register":
		p := &gov.RegisterCandidateParam{PeerPubkey: pk, Address: who, InitPos: uint32(s.X), Caller: []byte("did:ont:x"), KeyNo: 1}
		return w.call(ovl, w.gc, gov.REGISTER_CANDIDATE, common.SerializeToBytes(p), who)
	case "SetMax":
		p := &gov.ChangeMaxAuthorizationParam{PeerPubkey: pk, Address: who, MaxAuthorize: uint32(s.X)}
		return w.call(ovl, w.gc, gov.CHANGE_MAX_AUTHORIZATION, common.SerializeToBytes(p), who)
	case "Authorize", "UnAuthorize":
		p := &gov.AuthorizeForPeerParam{Address: who, PeerPubkeyList: []string{pk}, PosList: []uint32{uint32(s.X)}}
		m := gov.AUTHORIZE_FOR_PEER
		if s.Name == "UnAuthorize" {
			m = gov.UNAUTHORIZE_FOR_PEER
		}
		return w.call(ovl, w.gc, m, gvSer(func(k *common.ZeroCopySink) { vhMust(p.Serialization(k)) }), who)
	case "Withdraw":
		p := &gov.WithdrawParam{Address: who, PeerPubkeyList: []string{pk}, WithdrawList: []uint32{uint32(s.X)}}
		return w.call(ovl, w.gc, gov.WITHDRAW, gvSer(func(k *common.ZeroCopySink) { vhMust(p.Serialization(k)) }), who)
	case "Quit":
		p := &gov.QuitNodeParam{PeerPubkey: pk, Address: who}
		return w.call(ovl, w.gc, gov.QUIT_NODE, common.SerializeToBytes(p), who)
	case "Black":
		p := &gov.BlackNodeParam{PeerPubkeyList: []string{pk}}
		return w.call(ovl, w.gc, gov.BLACK_NODE, common.SerializeToBytes(p), a["admin"])
	case "White":
		p := &gov.WhiteNodeParam{PeerPubkey: pk}
		return w.call(ovl, w.gc, gov.WHITE_NODE, common.SerializeToBytes(p), a["admin"])
	case "Commit":
		return w.call(ovl, w.gc, gov.COMMIT_DPOS, []byte{}, a["admin"])
	case "AddInit", "ReduceInit":
		p := &gov.ChangeInitPosParam{PeerPubkey: pk, Address: who, Pos: uint32(s.X)}
		m := gov.ADD_INIT_POS
		if s.Name == "ReduceInit" {
			m = gov.REDUCE_INIT_POS
		}
		return w.call(ovl, w.gc, m, common.SerializeToBytes(p), who)
	case "SetCost":
		p := &gov.SetFeePercentageParam{PeerPubkey: pk, Address: who, PeerCost: uint32(s.X), StakeCost: uint32(s.Y)}
		return w.call(ovl, w.gc, gov.SET_FEE_PERCENTAGE, gvSer(func(k *common.ZeroCopySink) { vhMust(p.Serialization(k)) }), who)
	case "Fee": // gas fees of other transactions accumulating on the governance address
		return w.call(ovl, nutils.OngContractAddress, "transfer", gvTransferArgs(a["bank"], a["gov"], s.X), a["bank"])
	case "WithdrawFee":
		p := &gov.WithdrawFeeParam{Address: who}
		return w.call(ovl, w.gc, gov.WITHDRAW_FEE, common.SerializeToBytes(p), who)
	case "SetGas": // setGasAddress: x = 1 the account "dapp", x = 0 the empty address
		ga := &gov.GasAddress{}
		if s.X == 1 {
			ga.Address = a["dapp"]
		}
		return w.call(ovl, w.gc, gov.SET_GAS_ADDRESS, common.SerializeToBytes(ga), a["admin"])
	case "SetParam2": // updateGlobalParam2: DappFee = x, CandidateFeeSplitNum = y, the configuration's MinAuthorizePos
		gp2 := &gov.GlobalParam2{MinAuthorizePos: 500, CandidateFeeSplitNum: uint32(s.Y), DappFee: uint32(s.X)}
		if w.cfg.MinAuthPos != 0 {
			gp2.MinAuthorizePos = w.cfg.MinAuthPos
		}
		return w.call(ovl, w.gc, gov.UPDATE_GLOBAL_PARAM2, gvSer(func(k *common.ZeroCopySink) { vhMust(gp2.Serialization(k)) }), a["admin"])
	case "SetParam": // updateGlobalParam: A = x, B = y, CandidateNum = z, the configuration's other fields
		gp := &gov.GlobalParam{CandidateFee: 0, MinInitStake: w.cfg.MinInitStake, CandidateNum: uint32(s.Z), PosLimit: w.cfg.PosLimit,
			A: uint32(s.X), B: uint32(s.Y), Yita: 5, Penalty: w.cfg.Penalty}
		return w.call(ovl, w.gc, gov.UPDATE_GLOBAL_PARAM, common.SerializeToBytes(gp), a["admin"])
	case "TransferPenalty":
		p := &gov.TransferPenaltyParam{PeerPubkey: pk, Address: who}
		return w.call(ovl, w.gc, gov.TRANSFER_PENALTY, common.SerializeToBytes(p), a["admin"])
	}
	return gvRes{Err: "harness: unknown action " + s.Name, Panic: true}
}

// ---------------------------------------------------------------------------------------------- observation

type gvPeer struct {
	St    int    `json:"st"`
	Init  uint64 `json:"init"`
	Total uint64 `json:"total"`
	Owner string `json:"owner"`
}
type gvAuth struct {
	P  string `json:"p"`
	A  string `json:"a"`
	C  uint64 `json:"c"`
	D  uint64 `json:"d"`
	N  uint64 `json:"n"`
	WC uint64 `json:"wc"`
	WD uint64 `json:"wd"`
	WU uint64 `json:"wu"`
}
type gvAttr struct {
	T   uint64 `json:"t"`
	T1  uint64 `json:"t1"`
	T2  uint64 `json:"t2"`
	S   uint64 `json:"s"`
	S1  uint64 `json:"s1"`
	S2  uint64 `json:"s2"`
	Max uint64 `json:"max"`
}
type gvObs struct {
	Path     int               `json:"path"`
	Step     int               `json:"step"`
	Res      string            `json:"res"`
	Err      string            `json:"err,omitempty"`
	View     uint32            `json:"view"`
	Pool     map[string]gvPeer `json:"pool"`
	Prev     map[string]gvPeer `json:"prev"`
	Au       []gvAuth          `json:"au"`
	Stake    map[string]uint64 `json:"stake"`
	Pen      map[string]uint64 `json:"pen"`
	Ont      map[string]uint64 `json:"ont"`
	Ong      map[string]uint64 `json:"ong"`
	Fee      map[string]uint64 `json:"fee"`
	SplitFee uint64            `json:"splitFee"`
	Attr     map[string]gvAttr `json:"attr"`
	Black    []string          `json:"black"`
	DappFee  uint32            `json:"dappFee"`
	HasDapp  bool              `json:"hasDapp"`
	SplitNum int64             `json:"splitNum"` // stored GlobalParam2.CandidateFeeSplitNum, -1: no GlobalParam2 record
	PA       uint32            `json:"pA"`
	PB       uint32            `json:"pB"`
	CandNum  uint32            `json:"candNum"`
}

func (w *gvWorld) an(a common.Address) string {
	if n, ok := w.aname[a]; ok {
		return n
	}
	return "?" + a.ToHexString()
}
func (w *gvWorld) pn(pk string) string {
	if n, ok := w.pname[pk]; ok {
		return n
	}
	return "?" + pk
}

func (w *gvWorld) balance(cache *storage.CacheDB, token, who common.Address) uint64 {
	sink := common.NewZeroCopySink(nil)
	nutils.EncodeAddress(sink, who)
	ret, err := w.svc(cache, nil).NativeCall(token, "balanceOf", sink.Bytes())
	vhMust(err)
	return common.BigIntFromNeoBytes(ret).Uint64()
}

func gvRaw(v []byte) []byte {
	r, err := cstates.GetValueFromRawStorageItem(v)
	vhMust(err)
	return r
}

func (w *gvWorld) poolOf(svc *native.NativeService, view uint32) map[string]gvPeer {
	out := map[string]gvPeer{}
	m, err := gov.GetPeerPoolMap(svc, w.gc, view)
	if err != nil {
		return out
	}
	for k, it := range m.PeerPoolMap {
		out[w.pn(k)] = gvPeer{St: int(it.Status), Init: it.InitPos, Total: it.TotalPos, Owner: w.an(it.Address)}
	}
	return out
}

func (w *gvWorld) observe(ovl *overlaydb.OverlayDB, o *gvObs) {
	cache := storage.NewCacheDB(ovl)
	svc := w.svc(cache, nil)
	view, err := gov.GetView(svc, w.gc)
	vhMust(err)
	o.View = view
	o.Pool = w.poolOf(svc, view)
	o.Prev = w.poolOf(svc, view-1)
	o.Au = []gvAuth{}
	o.Stake, o.Pen, o.Ont, o.Ong, o.Fee, o.Attr = map[string]uint64{}, map[string]uint64{}, map[string]uint64{}, map[string]uint64{}, map[string]uint64{}, map[string]gvAttr{}
	o.Black = []string{}
	iter := func(prefix []byte, f func(key, val []byte)) {
		it := cache.NewIterator(nutils.ConcatKey(w.gc, prefix))
		defer it.Release()
		for has := it.First(); has; has = it.Next() {
			f(append([]byte{}, it.Key()...), append([]byte{}, it.Value()...))
		}
		vhMust(it.Error())
	}
	iter(gov.AUTHORIZE_INFO_POOL, func(k, v []byte) {
		var ai gov.AuthorizeInfo
		vhMust(ai.Deserialization(common.NewZeroCopySource(gvRaw(v))))
		o.Au = append(o.Au, gvAuth{P: w.pn(ai.PeerPubkey), A: w.an(ai.Address), C: ai.ConsensusPos, D: ai.CandidatePos, N: ai.NewPos,
			WC: ai.WithdrawConsensusPos, WD: ai.WithdrawCandidatePos, WU: ai.WithdrawUnfreezePos})
	})
	iter([]byte(gov.TOTAL_STAKE), func(k, v []byte) {
		var ts gov.TotalStake
		vhMust(ts.Deserialization(common.NewZeroCopySource(gvRaw(v))))
		o.Stake[w.an(ts.Address)] += ts.Stake
	})
	iter([]byte(gov.PENALTY_STAKE), func(k, v []byte) {
		var ps gov.PenaltyStake
		vhMust(ps.Deserialization(common.NewZeroCopySource(gvRaw(v))))
		o.Pen[w.pn(ps.PeerPubkey)] += ps.InitPos + ps.AuthorizePos
	})
	lp := len(w.gc) + len(gov.SPLIT_FEE_ADDRESS)
	iter([]byte(gov.SPLIT_FEE_ADDRESS), func(k, v []byte) {
		var sf gov.SplitFeeAddress
		vhMust(sf.Deserialization(common.NewZeroCopySource(gvRaw(v))))
		addr, err := common.AddressParseFromBytes(k[lp:])
		vhMust(err)
		o.Fee[w.an(addr)] += sf.Amount
	})
	if v, err := cache.Get(nutils.ConcatKey(w.gc, []byte(gov.SPLIT_FEE))); err == nil && v != nil {
		n, err := gov.GetBytesUint64(gvRaw(v))
		vhMust(err)
		o.SplitFee = n
	}
	iter([]byte(gov.PEER_ATTRIBUTES), func(k, v []byte) {
		var pa gov.PeerAttributes
		vhMust(pa.Deserialization(common.NewZeroCopySource(gvRaw(v))))
		o.Attr[w.pn(pa.PeerPubkey)] = gvAttr{T: pa.TPeerCost, T1: pa.T1PeerCost, T2: pa.T2PeerCost, S: pa.TStakeCost, S1: pa.T1StakeCost, S2: pa.T2StakeCost, Max: pa.MaxAuthorize}
	})
	iter([]byte(gov.BLACK_LIST), func(k, v []byte) {
		var bl gov.BlackListItem
		vhMust(bl.Deserialization(common.NewZeroCopySource(gvRaw(v))))
		o.Black = append(o.Black, w.pn(bl.PeerPubkey))
	})
	if v, err := cache.Get(nutils.ConcatKey(w.gc, []byte(gov.GLOBAL_PARAM2))); err == nil && v != nil {
		var g2 gov.GlobalParam2
		vhMust(g2.Deserialization(common.NewZeroCopySource(gvRaw(v))))
		o.DappFee = g2.DappFee
		o.SplitNum = int64(g2.CandidateFeeSplitNum)
	} else {
		o.SplitNum = -1
	}
	if v, err := cache.Get(nutils.ConcatKey(w.gc, []byte(gov.GLOBAL_PARAM))); err == nil && v != nil {
		var g gov.GlobalParam
		vhMust(g.Deserialization(common.NewZeroCopySource(gvRaw(v))))
		o.PA, o.PB, o.CandNum = g.A, g.B, g.CandidateNum
	}
	if v, err := cache.Get(nutils.ConcatKey(w.gc, []byte(gov.GAS_ADDRESS))); err == nil && v != nil {
		var ga gov.GasAddress
		vhMust(ga.Deserialization(common.NewZeroCopySource(gvRaw(v))))
		o.HasDapp = ga.Address != common.ADDRESS_EMPTY
	}
	sort.Strings(o.Black)
	sort.Slice(o.Au, func(i, j int) bool { return o.Au[i].P+"/"+o.Au[i].A < o.Au[j].P+"/"+o.Au[j].A })
	for name, ad := range w.addr {
		if name == "admin" || name == "bank" {
			continue
		}
		o.Ont[name] = w.balance(cache, nutils.OntContractAddress, ad)
		o.Ong[name] = w.balance(cache, nutils.OngContractAddress, ad)
	}
}

func TestVerifGov(t *testing.T) {
	var in gvIn
	vhIn(&in)
	out := vhOpenOut()
	defer out.Close()
	w := gvNewWorld(in.Cfg)
	defer w.Close()
	w.setup()
	names := map[string]string{}
	for k, v := range w.pk {
		names[k] = v
	}
	out.Emit(map[string]interface{}{"kind": "world", "pk": names, "height": w.height})
	h0 := w.height
	for pi, p := range in.Paths {
		w.height = h0
		ovl := w.store.stateStore.NewOverlayDB()
		o := gvObs{Path: pi, Step: 0, Res: "init"}
		w.observe(ovl, &o)
		out.Emit(&o)
		for si, s := range p.Steps {
			r := w.apply(ovl, s)
			o := gvObs{Path: pi, Step: si + 1, Res: "ok", Err: r.Err}
			if r.Panic {
				o.Res = "panic"
			} else if r.Err != "" {
				o.Res = "err"
				if len(o.Err) > 300 {
					o.Err = o.Err[len(o.Err)-300:]
				}
			}
			w.observe(ovl, &o)
			out.Emit(&o)
		}
	}
}

// ---------------------------------------------------------------------------------------------- random histories (trace validation)

type gvTraceIn struct {
	Cfg     gvCfg    `json:"cfg"`
	NTraces int      `json:"ntraces"`
	NSteps  int      `json:"nsteps"`
	Peers   []string `json:"peers"`
	Amounts []uint64 `json:"amounts"`
	Fees    []uint64 `json:"fees"`
	Prefix  []gvAct  `json:"prefix"`
}

// TestVerifGovTrace drives the real contract with seeded random calls (valid and invalid) and records, per call,
// the call, its outcome and the whole bookkeeping read back from storage.  TLC validates the record against
// Governance (code -> specification).
func TestVerifGovTrace(t *testing.T) {
	var in gvTraceIn
	vhIn(&in)
	out := vhOpenOut()
	defer out.Close()
	w := gvNewWorld(in.Cfg)
	defer w.Close()
	w.setup()
	rng := vhRand()
	owner := map[string]string{"p1": "o1", "p2": "o2"}
	for i := 1; i <= 7; i++ {
		owner[fmt.Sprintf("g%d", i)] = w.gowner(i - 1)
	}
	holders := []string{"a1", "a2", "o1", "o2"}
	names := []string{"Register", "SetMax", "Authorize", "Authorize", "Authorize", "UnAuthorize", "UnAuthorize", "Withdraw", "Withdraw",
		"Quit", "Black", "White", "Commit", "Commit", "Commit", "AddInit", "ReduceInit", "SetCost", "Fee", "Fee", "WithdrawFee", "TransferPenalty",
		"SetGas", "SetParam2", "SetParam"}
	h0 := w.height
	for ti := 0; ti < in.NTraces; ti++ {
		w.height = h0
		ovl := w.store.stateStore.NewOverlayDB()
		o := gvObs{Path: ti, Step: 0, Res: "init"}
		w.observe(ovl, &o)
		out.Emit(&o)
		last := o
		for si := 0; si < in.NSteps; si++ {
			var s gvAct
			if si < len(in.Prefix) {
				s = in.Prefix[si]
			} else {
				s.Name = names[rng.Intn(len(names))]
				s.P = in.Peers[rng.Intn(len(in.Peers))]
				amt := in.Amounts[rng.Intn(len(in.Amounts))]
				switch s.Name {
				case "Register":
					s.P = []string{"p1", "p2"}[rng.Intn(2)]
					s.A = owner[s.P]
					s.X = []uint64{10000, 16000, 22000, 9000}[rng.Intn(4)]
				case "SetMax":
					s.A = owner[s.P]
					s.X = []uint64{100000, 3000, 400001}[rng.Intn(3)]
				case "Authorize":
					s.A = holders[rng.Intn(len(holders))]
					s.X = amt
				case "UnAuthorize", "Withdraw":
					s.A = holders[rng.Intn(len(holders))]
					s.X = amt
					// often aim at an existing position
					if len(last.Au) > 0 && rng.Intn(4) != 0 {
						r := last.Au[rng.Intn(len(last.Au))]
						s.A, s.P = r.A, r.P
						if s.Name == "Withdraw" && r.WU > 0 && rng.Intn(3) != 0 {
							s.X = r.WU
						}
						if s.Name == "UnAuthorize" && rng.Intn(2) == 0 {
							// the amounts at which unAuthorizeForPeer changes its branch: the fresh NewPos, one step
							// beyond it (fresh + part of the committed pos), fresh + all committed pos of either kind
							s.X = []uint64{r.N, r.N + 500, r.N + r.C, r.N + r.D, r.N + r.C + r.D}[rng.Intn(5)]
						}
					}
				case "Quit", "AddInit", "ReduceInit":
					s.A = owner[s.P]
					s.X = []uint64{1000, 500, 6000}[rng.Intn(3)]
				case "SetCost":
					s.A = owner[s.P]
					s.X = uint64(rng.Intn(102))
					s.Y = uint64(rng.Intn(102))
				case "SetGas":
					s.P = ""
					s.X = uint64(rng.Intn(3) & 1)
					if rng.Intn(2) == 0 { // keep the admin calls rarer
						s.Name, s.X = "Commit", 0
					}
				case "SetParam2": // DappFee, CandidateFeeSplitNum around K = 7 and the possible pool sizes 7..9
					s.P = ""
					s.X = []uint64{0, 20, 50, 100}[rng.Intn(4)]
					s.Y = []uint64{49, 8, 9, 7, 8, 6, 10}[rng.Intn(7)]
					if rng.Intn(2) == 0 {
						s.Name, s.X, s.Y = "Commit", 0, 0
					}
				case "SetParam": // A, B, CandidateNum (A + B != 100 and CandidateNum < 4K are refused)
					s.P = ""
					v := [][3]uint64{{50, 50, 49}, {0, 100, 49}, {100, 0, 28}, {30, 70, 49}, {60, 50, 49}, {50, 50, 27}}[rng.Intn(6)]
					s.X, s.Y, s.Z = v[0], v[1], v[2]
					if rng.Intn(2) == 0 {
						s.Name, s.X, s.Y, s.Z = "Commit", 0, 0, 0
					}
				case "Fee":
					s.P = ""
					s.X = in.Fees[rng.Intn(len(in.Fees))]
				case "WithdrawFee":
					s.P = ""
					s.A = []string{"og", "o1", "o2", "a1", "a2"}[rng.Intn(5)]
				case "TransferPenalty":
					s.A = holders[rng.Intn(2)]
				case "Black":
					if rng.Intn(3) != 0 { // keep black-listing rarer than the rest
						s.Name = "Commit"
						s.P = ""
					}
				case "Commit":
					s.P = ""
				}
			}
			r := w.apply(ovl, s)
			o := gvObs{Path: ti, Step: si + 1, Res: "ok", Err: r.Err}
			if r.Panic {
				o.Res = "panic"
			} else if r.Err != "" {
				o.Res = "err"
				if len(o.Err) > 200 {
					o.Err = o.Err[len(o.Err)-200:]
				}
			}
			w.observe(ovl, &o)
			out.Emit(map[string]interface{}{"kind": "act", "path": ti, "step": si + 1, "act": s})
			out.Emit(&o)
			last = o
		}
	}
}
