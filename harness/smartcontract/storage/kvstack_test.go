package storage

// Conformance harness for spec/KVStack.tla (C03, C04, C44): replays TLC paths into the real
// CacheDB -> OverlayDB -> LevelDB(mem) stack and records the observable state after every step;
// and a seeded random driver that records an NDJSON trace for KVStack_Trace.

import (
	"encoding/hex"
	"testing"

	comm "github.com/ontio/ontology/common"
	"github.com/ontio/ontology/core/payload"
	"github.com/ontio/ontology/core/store/common"
	"github.com/ontio/ontology/core/store/leveldbstore"
	"github.com/ontio/ontology/core/store/overlaydb"
)

type kvAct struct {
	Name string `json:"name"`
	K    int    `json:"k"`
	V    string `json:"v"`
	C    []int  `json:"c"`
	D    []int  `json:"d"`
}

type kvPath struct {
	Disk  []string `json:"disk"`
	Steps []kvAct  `json:"steps"`
}

type kvInput struct {
	KeySeq    [][]int  `json:"keyseq"`
	Prefixes  [][]int  `json:"prefixes"`
	Contracts [][]int  `json:"contracts"`
	AddrKeys  bool     `json:"addrkeys"`
	Height    uint32   `json:"height"`
	Paths     []kvPath `json:"paths"`
}

type kvWorld struct {
	in    *kvInput
	store *leveldbstore.LevelDBStore
	ovl   *overlaydb.OverlayDB
	cache *CacheDB
	keys  [][]byte // unprefixed storage keys in KeySeq order
	pfx   [][]byte
}

var kvContractCache = map[int]*payload.DeployCode{}

// kvContract returns a deploy code whose (hash-derived) address starts with byte c, so that the byte
// order of real storage keys equals the order of the abstract keys.
func kvContract(c []int) *payload.DeployCode {
	if dc, ok := kvContractCache[c[0]]; ok {
		return dc
	}
	for nonce := 0; ; nonce++ {
		code := []byte{0x51, byte(c[0]), 0x75, 0x02, byte(nonce), byte(nonce >> 8), 0x75, 0x66}
		dc, err := payload.NewDeployCode(code, payload.NEOVM_TYPE, "c", "1", "a", "e", "d")
		vhMust(err)
		addr := dc.Address()
		if addr[0] == byte(c[0]) {
			kvContractCache[c[0]] = dc
			return dc
		}
	}
}

func (w *kvWorld) keyBytes(k []int) []byte {
	if len(k) == 0 {
		return nil
	}
	var out []byte
	rest := k
	if w.in.AddrKeys {
		addr := kvContract(k[:1]).Address()
		out = append(out, addr[:]...)
		rest = k[1:]
	}
	for _, b := range rest {
		out = append(out, byte(b))
	}
	return out
}

func newKvWorld(in *kvInput, disk []string) *kvWorld {
	w := &kvWorld{in: in}
	w.store = leveldbstore.NewMemLevelDBStore()
	for _, k := range in.KeySeq {
		w.keys = append(w.keys, w.keyBytes(k))
	}
	for _, p := range in.Prefixes {
		w.pfx = append(w.pfx, w.keyBytes(p))
	}
	for i, v := range disk {
		if v != "" {
			vhMust(w.store.Put(w.okey(i), []byte(v)))
		}
	}
	w.ovl = overlaydb.NewOverlayDB(w.store)
	w.cache = NewCacheDB(w.ovl)
	return w
}

// key as seen by the overlay / store (CacheDB prepends the ST_STORAGE prefix)
func (w *kvWorld) okey(i int) []byte {
	return append([]byte{byte(common.ST_STORAGE)}, w.keys[i]...)
}

func (w *kvWorld) rank(key []byte) int {
	for i, k := range w.keys {
		if string(k) == string(key) {
			return i + 1
		}
	}
	return -1
}

func (w *kvWorld) apply(a kvAct) string {
	switch a.Name {
	case "CachePut", "ContractPut":
		w.cache.Put(w.keys[a.K-1], []byte(a.V))
	case "PutRefused":
		// Storage.Put's checkStorageContext / APPCALL: only a live contract (GetContract != nil) writes
		got, _, err := w.cache.GetContract(kvContract(a.C).Address())
		if err != nil {
			return "err:" + err.Error()
		}
		if got == nil {
			return "refused"
		}
		w.cache.Put(w.keys[a.K-1], []byte(a.V))
	case "MarkDestroyed":
		// native global-param addDestroyedContract: marker only, record and storage stay
		w.cache.SetContractDestroyed(kvContract(a.C).Address(), w.in.Height)
	case "CacheDelete":
		w.cache.Delete(w.keys[a.K-1])
	case "CacheCommit":
		w.cache.Commit()
	case "CacheReset":
		w.cache.Reset()
	case "OvlPut":
		w.ovl.Put(w.okey(a.K-1), []byte(a.V))
	case "OvlDelete":
		w.ovl.Delete(w.okey(a.K-1))
	case "OvlCommit":
		// what StateStore does per block: NewBatch, overlay.CommitTo, BatchCommit, fresh overlay
		w.store.NewBatch()
		w.ovl.CommitTo()
		vhMust(w.store.BatchCommit())
		w.ovl = overlaydb.NewOverlayDB(w.store)
		w.cache = NewCacheDB(w.ovl)
	case "Migrate":
		old, nw := kvContract(a.C), kvContract(a.D)
		w.cache.PutContract(nw)
		if err := w.cache.MigrateContractStorage(old.Address(), nw.Address(), w.in.Height); err != nil {
			return "err:" + err.Error()
		}
	case "Destroy":
		if err := w.cache.CleanContractStorage(kvContract(a.C).Address(), w.in.Height); err != nil {
			return "err:" + err.Error()
		}
	case "Deploy", "DeployRefused":
		dc := kvContract(a.C)
		got, destroyed, err := w.cache.GetContract(dc.Address())
		if err != nil {
			return "err:" + err.Error()
		}
		if got != nil || destroyed {
			return "refused"
		}
		w.cache.PutContract(dc)
	default:
		panic("unknown action " + a.Name)
	}
	return "ok"
}

type kvIterObs struct {
	P []int      `json:"p"`
	C [][]string `json:"c"` // via CacheDB.NewIterator: [rank, value]
	O [][]string `json:"o"` // via OverlayDB.NewIterator
}

type kvObs struct {
	Path      int         `json:"path"`
	Step      int         `json:"step"`
	Res       string      `json:"res"`
	ReadC     []string    `json:"readC"`
	ReadO     []string    `json:"readO"`
	Iter      []kvIterObs `json:"iter"`
	Hash      string      `json:"hash"`
	WS        [][]string  `json:"ws"`
	Deployed  [][]int     `json:"deployed"`
	Destroyed [][]int     `json:"destroyed"`
	Err       string      `json:"err,omitempty"`
}

func itoa(i int) string { return string([]byte{byte('0' + i/10), byte('0' + i%10)}) }

func (w *kvWorld) observe(o *kvObs) {
	// Iterators are opened FIRST, the point reads come next and only then are the iterators walked:
	// reads do not change the state, so the single ordered map gives the same iteration whatever
	// happens between NewIterator and First (an iterator must not borrow a buffer that reads reuse).
	type itPair struct {
		c, o interface {
			First() bool
			Next() bool
			Key() []byte
			Value() []byte
			Error() error
			Release()
		}
	}
	its := make([]itPair, len(w.pfx))
	for pi, p := range w.pfx {
		its[pi].c = w.cache.NewIterator(p)
		its[pi].o = w.ovl.NewIterator(append([]byte{byte(common.ST_STORAGE)}, p...))
	}
	for i := range w.keys {
		v, err := w.cache.Get(w.keys[i])
		if err != nil {
			o.Err += "cacheGet:" + err.Error() + ";"
		}
		o.ReadC = append(o.ReadC, string(v))
		v2, err := w.ovl.Get(w.okey(i))
		if err != nil {
			o.Err += "ovlGet:" + err.Error() + ";"
		}
		o.ReadO = append(o.ReadO, string(v2))
	}
	for pi := range w.pfx {
		io := kvIterObs{P: w.in.Prefixes[pi], C: [][]string{}, O: [][]string{}}
		it := its[pi].c
		for has := it.First(); has; has = it.Next() {
			io.C = append(io.C, []string{itoa(w.rank(it.Key())), string(it.Value())})
		}
		if it.Error() != nil {
			o.Err += "cacheIter:" + it.Error().Error() + ";"
		}
		it.Release()
		it2 := its[pi].o
		for has := it2.First(); has; has = it2.Next() {
			k := it2.Key()
			io.O = append(io.O, []string{itoa(w.rank(k[1:])), string(it2.Value())})
		}
		if it2.Error() != nil {
			o.Err += "ovlIter:" + it2.Error().Error() + ";"
		}
		it2.Release()
		o.Iter = append(o.Iter, io)
	}
	h := w.ovl.ChangeHash()
	o.Hash = hex.EncodeToString(h[:])
	o.WS = [][]string{}
	w.ovl.GetWriteSet().ForEach(func(key, val []byte) {
		o.WS = append(o.WS, []string{hex.EncodeToString(key), string(val)})
	})
	o.Deployed, o.Destroyed = [][]int{}, [][]int{}
	for _, c := range w.in.Contracts {
		addr := kvContract(c).Address()
		dc, destroyed, err := w.cache.GetContract(addr)
		if err != nil {
			o.Err += "getContract:" + err.Error() + ";"
		}
		if dc != nil {
			o.Deployed = append(o.Deployed, c)
		}
		if destroyed {
			o.Destroyed = append(o.Destroyed, c)
		}
	}
	if err := w.ovl.Error(); err != nil {
		o.Err += "dbErr:" + err.Error() + ";"
	}
}

// TestVerifKVReplay: spec -> code.  Every path of the transition cover is applied to a fresh stack.
func TestVerifKVReplay(t *testing.T) {
	var in kvInput
	vhIn(&in)
	out := vhOpenOut()
	defer out.Close()
	for pi, p := range in.Paths {
		w := newKvWorld(&in, p.Disk)
		o := kvObs{Path: pi, Step: 0, Res: "init"}
		w.observe(&o)
		out.Emit(o)
		for si, a := range p.Steps {
			o := kvObs{Path: pi, Step: si + 1}
			func() {
				defer func() {
					if r := recover(); r != nil {
						o.Res = "panic"
						o.Err += "panic;"
					}
				}()
				o.Res = w.apply(a)
				w.observe(&o)
			}()
			out.Emit(o)
			if o.Res == "panic" {
				break
			}
		}
		w.store.Close()
	}
}

var _ = comm.ADDRESS_EMPTY
