package storage

import (
	"math/rand"
	"testing"
)

// TestVerifKVTrace: code -> spec.  Seeded random histories on the real stack; one NDJSON event per
// spec action, carrying the arguments and what the real code returns for every read and iteration
// after the step.  Validated by spec/KVStack_Trace.tla.

type kvTraceIn struct {
	kvInput
	Vals    []string `json:"vals"`
	NTraces int      `json:"ntraces"`
	NSteps  int      `json:"nsteps"`
	Mode    string   `json:"mode"` // "kv" (C03/C04) or "contract" (C44)
}

type kvEvent struct {
	Event     string       `json:"event"`
	K         int          `json:"k,omitempty"`
	V         string       `json:"v,omitempty"`
	C         []int        `json:"c,omitempty"`
	D         []int        `json:"d,omitempty"`
	Res       string       `json:"res"`
	Disk      []string     `json:"disk,omitempty"`
	ReadC     []string     `json:"readC"`
	ReadO     []string     `json:"readO"`
	IterC     [][][]interface{} `json:"iterC"`
	IterO     [][][]interface{} `json:"iterO"`
	Deployed  [][]int      `json:"deployed"`
	Destroyed [][]int      `json:"destroyed"`
	Hash      string       `json:"hash"`
	WS        [][]string   `json:"ws"`
	Ovl       []string     `json:"-"`
}

func atoi2(s string) int { return int(s[0]-'0')*10 + int(s[1]-'0') }

func kvEventOf(a kvAct, o *kvObs) kvEvent {
	e := kvEvent{Event: a.Name, K: a.K, V: a.V, C: a.C, D: a.D, Res: o.Res, ReadC: o.ReadC, ReadO: o.ReadO,
		Deployed: o.Deployed, Destroyed: o.Destroyed, Hash: o.Hash, WS: o.WS}
	for _, it := range o.Iter {
		c := [][]interface{}{}
		for _, kv := range it.C {
			c = append(c, []interface{}{atoi2(kv[0]), kv[1]})
		}
		oo := [][]interface{}{}
		for _, kv := range it.O {
			oo = append(oo, []interface{}{atoi2(kv[0]), kv[1]})
		}
		e.IterC = append(e.IterC, c)
		e.IterO = append(e.IterO, oo)
	}
	return e
}

func TestVerifKVTrace(t *testing.T) {
	var in kvTraceIn
	vhIn(&in)
	out := vhOpenOut()
	defer out.Close()
	rng := vhRand()
	n := len(in.KeySeq)
	randDisk := func() []string {
		d := make([]string, n)
		for i := range d {
			if in.Mode == "kv" && rng.Intn(3) == 0 {
				d[i] = in.Vals[rng.Intn(len(in.Vals))]
			}
		}
		return d
	}
	disk := randDisk()
	out.Emit(map[string]interface{}{"event": "Config", "keyseq": in.KeySeq, "vals": in.Vals,
		"contracts": in.Contracts, "prefixes": in.Prefixes, "disk": disk})
	for tr := 0; tr < in.NTraces; tr++ {
		if tr > 0 {
			disk = randDisk()
			out.Emit(map[string]interface{}{"event": "Reset", "disk": disk})
		}
		w := newKvWorld(&in.kvInput, disk)
		clean := true
		deployed := map[int]bool{}
		destroyed := map[int]bool{}
		for s := 0; s < in.NSteps; s++ {
			a := kvGenAct(rng, &in, clean, deployed, destroyed)
			o := kvObs{}
			o.Res = w.apply(a)
			w.observe(&o)
			if a.Name == "Deploy" && o.Res == "refused" {
				a.Name = "DeployRefused"
			}
			switch a.Name {
			case "CachePut", "CacheDelete", "ContractPut", "Migrate", "Destroy", "Deploy", "MarkDestroyed":
				clean = false
			case "CacheCommit", "CacheReset", "OvlCommit":
				clean = true
			}
			deployed, destroyed = map[int]bool{}, map[int]bool{}
			for _, c := range o.Deployed {
				deployed[c[0]] = true
			}
			for _, c := range o.Destroyed {
				destroyed[c[0]] = true
			}
			out.Emit(kvEventOf(a, &o))
		}
		w.store.Close()
	}
}

func kvGenAct(rng *rand.Rand, in *kvTraceIn, clean bool, deployed, destroyed map[int]bool) kvAct {
	n := len(in.KeySeq)
	val := func() string { return in.Vals[rng.Intn(len(in.Vals))] }
	for {
		if in.Mode == "kv" {
			switch r := rng.Intn(100); {
			case r < 35:
				return kvAct{Name: "CachePut", K: 1 + rng.Intn(n), V: val()}
			case r < 55:
				return kvAct{Name: "CacheDelete", K: 1 + rng.Intn(n)}
			case r < 65:
				return kvAct{Name: "CacheCommit"}
			case r < 72:
				return kvAct{Name: "CacheReset"}
			case r < 84:
				if clean {
					return kvAct{Name: "OvlPut", K: 1 + rng.Intn(n), V: val()}
				}
			case r < 92:
				if clean {
					return kvAct{Name: "OvlDelete", K: 1 + rng.Intn(n)}
				}
			default:
				if clean {
					return kvAct{Name: "OvlCommit"}
				}
			}
			continue
		}
		// contract mode
		c := in.Contracts[rng.Intn(len(in.Contracts))]
		switch r := rng.Intn(100); {
		case r < 40:
			if deployed[c[0]] {
				// a key under contract c
				var ks []int
				for i, k := range in.KeySeq {
					if k[0] == c[0] {
						ks = append(ks, i+1)
					}
				}
				return kvAct{Name: "ContractPut", C: c, K: ks[rng.Intn(len(ks))], V: val()}
			}
			if rng.Intn(3) == 0 {
				// a write in the name of an address that is not a live contract: must be refused
				var ks []int
				for i, k := range in.KeySeq {
					if k[0] == c[0] {
						ks = append(ks, i+1)
					}
				}
				return kvAct{Name: "PutRefused", C: c, K: ks[rng.Intn(len(ks))], V: val()}
			}
		case r < 55:
			return kvAct{Name: "Deploy", C: c}
		case r < 63:
			return kvAct{Name: "CacheCommit"}
		case r < 67:
			return kvAct{Name: "CacheReset"}
		case r < 74:
			if clean {
				return kvAct{Name: "OvlCommit"}
			}
		case r < 77:
			// operator lists the address as destroyed (live contracts preferred: record and storage stay)
			if !destroyed[c[0]] && (deployed[c[0]] || rng.Intn(4) == 0) {
				return kvAct{Name: "MarkDestroyed", C: c}
			}
		case r < 88:
			d := in.Contracts[rng.Intn(len(in.Contracts))]
			if deployed[c[0]] && d[0] != c[0] && !deployed[d[0]] && !destroyed[d[0]] {
				return kvAct{Name: "Migrate", C: c, D: d}
			}
		default:
			if deployed[c[0]] {
				return kvAct{Name: "Destroy", C: c}
			}
		}
	}
}
