package netserver

// Conformance harness for spec/Handshake.tla (system spec X03).
//
// Every node of the model is a REAL NetServer (NewCustomNetServer: real ConnectController, real NbrPeers) with
//   * a listener whose Accept returns the connections the schedule hands over (the real startNetAccept loop runs),
//   * a Dialer that holds the dialling goroutine inside Dial,
//   * an in-memory message-oriented net.Conn (hsEnd) that holds the calling goroutine in every Write and in every
//     Read that starts a new message ("gates").  The real HandshakeClient / HandshakeServer / Link.Rx code runs in
//     its own goroutines; one model action releases exactly one gate (or calls one public function) and the harness
//     then waits, by channel events only, until that goroutine is parked at its next gate or has returned.
// No sleeps: the handshake deadline is observed through SetDeadline and "fires" by failing the parked Read with a
// net.Error whose Timeout() is true.  After each action the harness reads NbrPeers, the ConnectController records
// (public counters + reflection on the unexported sets), the state of every connection end and the messages in flight.
//
// TestVerifX03Replay : replays TLC-generated action sequences (edge cover / simulation walks).
// TestVerifX03Trace  : random schedules chosen by the harness (VERIF_SEED), written as an NDJSON trace for
//                      Handshake_Trace.tla.

import (
	"encoding/binary"
	"errors"
	"fmt"
	"io"
	"math/rand"
	"net"
	"reflect"
	"runtime"
	"sort"
	"strconv"
	"strings"
	"sync"
	"testing"
	"time"
	"unsafe"

	comm "github.com/ontio/ontology/common"
	"github.com/ontio/ontology/common/config"
	"github.com/ontio/ontology/common/log"
	"github.com/ontio/ontology/p2pserver/common"
	"github.com/ontio/ontology/p2pserver/connect_controller"
	"github.com/ontio/ontology/p2pserver/handshake"
	"github.com/ontio/ontology/p2pserver/message/types"
	p2p "github.com/ontio/ontology/p2pserver/net/protocol"
	"github.com/ontio/ontology/p2pserver/peer"
	"github.com/scylladb/go-set/strset"
)

const hsWait = 40 * time.Second
const hsGrace = 3 * time.Second

// ------------------------------------------------------------------ input / output

type hsNodeSpec struct {
	Name   string `json:"name"`
	Id     string `json:"id"`
	Magic  int    `json:"magic"`
	Soft   string `json:"soft"` // "dht" | "old"
	Ver    uint32 `json:"ver"`
	Svc    uint64 `json:"svc"`
	Port   uint16 `json:"port"`
	Height uint64 `json:"height"`
	Ip     string `json:"ip"`
	Addr   string `json:"addr"`
}

type hsConnSpec struct {
	Name string `json:"name"`
	Cl   string `json:"cl"`
	Sv   string `json:"sv"`
	Eph  string `json:"eph"`
}

type hsAct struct {
	Name string `json:"name"`
	C    string `json:"c"`
	E    string `json:"e"`
	Res  string `json:"res"`
}

type hsRandom struct {
	Walks     int      `json:"walks"`
	Steps     int      `json:"steps"`
	Faults    []string `json:"faults"`
	MaxFaults int      `json:"maxFaults"`
	Closes    bool     `json:"closes"`
}

type hsInput struct {
	Nodes  []hsNodeSpec `json:"nodes"`
	Conns  []hsConnSpec `json:"conns"`
	Paths  [][]hsAct    `json:"paths"`
	Random *hsRandom    `json:"random"`
}

type hsNbrObs struct {
	Id     string `json:"id"`
	C      string `json:"c"`
	Port   uint16 `json:"port"`
	Height uint64 `json:"height"`
	Svc    uint64 `json:"svc"`
	Ver    uint32 `json:"ver"`
	Soft   string `json:"soft"`
	Addr   string `json:"addr"`
}

type hsNodeObs struct {
	Nbr    []hsNbrObs        `json:"nbr"`
	Cnt    uint32            `json:"cnt"`
	In     uint              `json:"in"`
	Out    uint              `json:"out"`
	Own    string            `json:"own"`
	Inb    []string          `json:"inb"`
	Outb   []string          `json:"outb"`
	Lsn    []string          `json:"lsn"`
	Cing   []string          `json:"cing"`
	Peers  map[string]string `json:"peers"`
	MaxH   uint64            `json:"maxh"`
	Fatal  []string          `json:"fatal"`
	Reflect string           `json:"reflect,omitempty"`
}

type hsEndObs struct {
	Made   bool   `json:"made"`
	Closed bool   `json:"closed"`
	Gate   string `json:"gate"` // "", "D", "R", "W"
	Hs     bool   `json:"hs"`   // the parked goroutine is the handshake goroutine (not Link.Rx)
	Dl     bool   `json:"dl"`   // a deadline is armed
}

type hsMsgObs struct {
	T  string `json:"t"`
	Ok bool   `json:"ok"`
}

type hsJobs struct {
	Jobs []hsInput `json:"jobs"`
}

type hsObs struct {
	Job   int                   `json:"job"`
	Path  int                   `json:"path"`
	Step  int                   `json:"step"`
	Act   *hsAct                `json:"act,omitempty"`
	Res   string                `json:"res"`
	Err   string                `json:"err,omitempty"`
	Infra string                `json:"infra,omitempty"`
	Nodes map[string]*hsNodeObs `json:"nodes"`
	Ends  map[string]*hsEndObs  `json:"ends"`
	Q     map[string][]hsMsgObs `json:"q"`
	Brk   map[string]bool       `json:"brk"`
}

// ------------------------------------------------------------------ world

type hsAddr string

func (a hsAddr) Network() string { return "tcp" }
func (a hsAddr) String() string  { return string(a) }

type hsCmd struct {
	err  error
	data []byte
}

type hsGate struct {
	kind  string
	hs    bool
	reply chan hsCmd
}

type hsEvent struct {
	kind string // gate | ret | close | warn | sys
	end  *hsEnd
	node string
	gk   string
	hs   bool
	sub  string // sys: connected | disconnected | hostaddr
	err  error
	text string
}

type hsTimeoutErr struct{}

func (hsTimeoutErr) Error() string   { return "verif: i/o timeout" }
func (hsTimeoutErr) Timeout() bool   { return true }
func (hsTimeoutErr) Temporary() bool { return true }

var errHsReset = errors.New("verif: reset by peer")
var errHsClosed = errors.New("verif: use of closed connection")
var errHsPipe = errors.New("verif: broken pipe")
var errHsDial = errors.New("verif: dial refused")
var errHsTeardown = errors.New("verif: teardown")

type hsEnd struct {
	w      *hsWorld
	conn   *hsConn
	side   string // "c" | "s"
	owner  *hsNode
	remote *hsNode
	other  *hsEnd
	local  hsAddr
	raddr  hsAddr

	// guarded by w.mu
	inbox  [][]byte
	cur    []byte
	closed bool
	parked *hsGate
	dl     bool
	hsGid  uint64
	nclose int
}

type hsConn struct {
	spec   hsConnSpec
	ce, se *hsEnd
	made   bool
	broken bool
	begun, accepted bool
}

type hsNode struct {
	spec   hsNodeSpec
	key    *common.PeerKeyId
	pseudo common.PeerId
	ns     *NetServer
	lis    *hsListener
	logger *hsLogger
	w      *hsWorld
	// events seen by the protocol stub (guarded by w.mu)
	nConnected, nHostAddr, nDisconnected int
}

type hsWorld struct {
	in      *hsInput
	mu      sync.Mutex
	nodes   map[string]*hsNode
	conns   map[string]*hsConn
	dialing map[string]*hsConn // node name + "|" + address -> connection being dialled
	ev      chan hsEvent
	buf     []hsEvent
	magic   uint32
	idName  map[common.PeerId]string
	nfaults int
}

func hsGid() uint64 {
	var b [64]byte
	n := runtime.Stack(b[:], false)
	f := strings.Fields(string(b[:n]))
	if len(f) < 2 {
		return 0
	}
	id, _ := strconv.ParseUint(f[1], 10, 64)
	return id
}

// ---- net.Conn

func (e *hsEnd) park(kind string) hsCmd {
	gid := hsGid()
	e.w.mu.Lock()
	if e.hsGid == 0 {
		e.hsGid = gid
	}
	g := &hsGate{kind: kind, hs: gid == e.hsGid, reply: make(chan hsCmd, 1)}
	e.parked = g
	e.w.mu.Unlock()
	e.w.ev <- hsEvent{kind: "gate", end: e, gk: kind, hs: g.hs}
	return <-g.reply
}

func (e *hsEnd) Read(b []byte) (int, error) {
	e.w.mu.Lock()
	if len(e.cur) == 0 && e.closed {
		e.w.mu.Unlock()
		return 0, errHsClosed
	}
	if len(e.cur) > 0 {
		n := copy(b, e.cur)
		e.cur = e.cur[n:]
		e.w.mu.Unlock()
		return n, nil
	}
	e.w.mu.Unlock()
	if len(b) == 0 {
		return 0, nil
	}
	cmd := e.park("R")
	if cmd.err != nil {
		return 0, cmd.err
	}
	e.w.mu.Lock()
	n := copy(b, cmd.data)
	e.cur = cmd.data[n:]
	e.w.mu.Unlock()
	return n, nil
}

func (e *hsEnd) Write(b []byte) (int, error) {
	e.w.mu.Lock()
	closed := e.closed
	e.w.mu.Unlock()
	if closed {
		return 0, errHsClosed
	}
	cmd := e.park("W")
	if cmd.err != nil {
		return 0, cmd.err
	}
	blob := append([]byte{}, b...)
	if len(blob) >= 4 && e.owner.spec.Magic != e.remote.spec.Magic {
		// the sender belongs to another network: its header carries another magic than the receiver expects
		binary.LittleEndian.PutUint32(blob, binary.LittleEndian.Uint32(blob)+1)
	}
	e.w.mu.Lock()
	e.other.inbox = append(e.other.inbox, blob)
	e.w.mu.Unlock()
	return len(b), nil
}

func (e *hsEnd) Close() error {
	e.w.mu.Lock()
	e.nclose++
	already := e.closed
	e.closed = true
	g := e.parked
	if g != nil {
		e.parked = nil
	}
	e.w.mu.Unlock()
	if g != nil {
		g.reply <- hsCmd{err: errHsClosed}
	}
	if !already {
		e.w.ev <- hsEvent{kind: "close", end: e}
	}
	return nil
}

func (e *hsEnd) LocalAddr() net.Addr  { return e.local }
func (e *hsEnd) RemoteAddr() net.Addr { return e.raddr }
func (e *hsEnd) SetDeadline(t time.Time) error {
	e.w.mu.Lock()
	e.dl = !t.IsZero()
	e.w.mu.Unlock()
	return nil
}
func (e *hsEnd) SetReadDeadline(t time.Time) error  { return nil }
func (e *hsEnd) SetWriteDeadline(t time.Time) error { return nil }

// ---- listener / dialer / logger / protocol

type hsListener struct {
	ch   chan net.Conn
	addr hsAddr
	once sync.Once
}

func (l *hsListener) Accept() (net.Conn, error) {
	c, ok := <-l.ch
	if !ok {
		return nil, errors.New("verif: listener closed")
	}
	return c, nil
}
func (l *hsListener) Close() error   { l.once.Do(func() { close(l.ch) }); return nil }
func (l *hsListener) Addr() net.Addr { return l.addr }

type hsDialer struct {
	w    *hsWorld
	node string
}

func (d *hsDialer) Dial(addr string) (net.Conn, error) {
	d.w.mu.Lock()
	c := d.w.dialing[d.node+"|"+addr]
	d.w.mu.Unlock()
	if c == nil {
		return nil, fmt.Errorf("verif: unexpected dial of %s to %s", d.node, addr)
	}
	cmd := c.ce.park("D")
	if cmd.err != nil {
		return nil, cmd.err
	}
	d.w.mu.Lock()
	c.made = true
	d.w.mu.Unlock()
	return c.ce, nil
}

type hsLogger struct {
	n     *hsNode
	mu    sync.Mutex
	fatal []string
}

func (l *hsLogger) Debug(a ...interface{})                 {}
func (l *hsLogger) Info(a ...interface{})                  {}
func (l *hsLogger) Warn(a ...interface{})                  {}
func (l *hsLogger) Error(a ...interface{})                 {}
func (l *hsLogger) Debugf(format string, a ...interface{}) {}
func (l *hsLogger) Infof(format string, a ...interface{})  {}
func (l *hsLogger) Errorf(format string, a ...interface{}) {}
func (l *hsLogger) Warnf(format string, a ...interface{}) {
	if strings.Contains(format, "client connect error") {
		var err error
		if len(a) > 0 {
			if e, ok := a[0].(error); ok {
				err = e
			}
		}
		if err == nil {
			err = errors.New(fmt.Sprintf(format, a...))
		}
		l.n.w.ev <- hsEvent{kind: "warn", node: l.n.spec.Name, err: err}
	}
}
func (l *hsLogger) Fatal(a ...interface{}) {
	l.mu.Lock()
	l.fatal = append(l.fatal, fmt.Sprint(a...))
	l.mu.Unlock()
}
func (l *hsLogger) Fatalf(format string, a ...interface{}) {
	l.mu.Lock()
	l.fatal = append(l.fatal, fmt.Sprintf(format, a...))
	l.mu.Unlock()
}

type hsProto struct{ n *hsNode }

func (p *hsProto) HandlePeerMessage(ctx *p2p.Context, msg types.Message) {}
func (p *hsProto) HandleSystemMessage(net p2p.P2P, msg p2p.SystemMessage) {
	sub := ""
	p.n.w.mu.Lock()
	switch msg.(type) {
	case p2p.PeerConnected:
		p.n.nConnected++
		sub = "connected"
	case p2p.PeerDisConnected:
		p.n.nDisconnected++
		sub = "disconnected"
	case p2p.HostAddrDetected:
		p.n.nHostAddr++
		sub = "hostaddr"
	}
	p.n.w.mu.Unlock()
	if sub != "" {
		p.n.w.ev <- hsEvent{kind: "sys", node: p.n.spec.Name, sub: sub}
	}
}

// ---- construction

var hsKeys = map[string]*common.PeerKeyId{}

func hsKey(name string) *common.PeerKeyId {
	if k, ok := hsKeys[name]; ok {
		return k
	}
	k := common.RandPeerKeyId()
	hsKeys[name] = k
	return k
}

func hsSoft(s string) string {
	if s == "dht" {
		return "v2.0.0"
	}
	return "v1.8.0"
}

func newHsWorld(in *hsInput) *hsWorld {
	w := &hsWorld{in: in, nodes: map[string]*hsNode{}, conns: map[string]*hsConn{}, dialing: map[string]*hsConn{},
		ev: make(chan hsEvent, 4096), magic: config.DefConfig.P2PNode.NetworkMagic, idName: map[common.PeerId]string{}}
	for _, s := range in.Nodes {
		n := &hsNode{spec: s, key: hsKey(s.Id), w: w}
		n.pseudo = common.PseudoPeerIdFromUint64(n.key.Id.ToUint64())
		w.idName[n.key.Id] = s.Id
		w.idName[n.pseudo] = "p" + s.Id
		n.logger = &hsLogger{n: n}
		n.lis = &hsListener{ch: make(chan net.Conn, 64), addr: hsAddr(s.Addr)}
		info := peer.NewPeerInfo(n.key.Id, s.Ver, s.Svc, true, 0, s.Port, s.Height, hsSoft(s.Soft), "")
		opt := connect_controller.NewConnCtrlOption().WithDialer(&hsDialer{w: w, node: s.Name})
		n.ns = NewCustomNetServer(n.key, info, &hsProto{n: n}, n.lis, opt, n.logger)
		w.nodes[s.Name] = n
		go n.ns.startNetAccept(n.lis)
	}
	for _, s := range in.Conns {
		c := &hsConn{spec: s}
		cl, sv := w.nodes[s.Cl], w.nodes[s.Sv]
		c.ce = &hsEnd{w: w, conn: c, side: "c", owner: cl, remote: sv, local: hsAddr(s.Eph), raddr: hsAddr(sv.spec.Addr)}
		c.se = &hsEnd{w: w, conn: c, side: "s", owner: sv, remote: cl, local: hsAddr(sv.spec.Addr), raddr: hsAddr(s.Eph)}
		c.ce.other, c.se.other = c.se, c.ce
		w.conns[s.Name] = c
	}
	return w
}

func (w *hsWorld) teardown() {
	for _, c := range w.conns {
		for _, e := range []*hsEnd{c.ce, c.se} {
			w.mu.Lock()
			g := e.parked
			e.parked = nil
			w.mu.Unlock()
			if g != nil {
				g.reply <- hsCmd{err: errHsTeardown}
			}
		}
	}
	for _, n := range w.nodes {
		_ = n.lis.Close()
	}
}

// ------------------------------------------------------------------ events

// next returns the first buffered or incoming event accepted by match.
func (w *hsWorld) next(match func(ev hsEvent) bool, d time.Duration) (hsEvent, bool) {
	for i, ev := range w.buf {
		if match(ev) {
			w.buf = append(w.buf[:i], w.buf[i+1:]...)
			return ev, true
		}
	}
	t := time.After(d)
	for {
		select {
		case ev := <-w.ev:
			if match(ev) {
				return ev, true
			}
			w.buf = append(w.buf, ev)
		case <-t:
			return hsEvent{}, false
		}
	}
}

// startAction forgets the asynchronous left-overs of earlier actions; a left-over gate is a harness error.
func (w *hsWorld) startAction() string {
	for {
		select {
		case ev := <-w.ev:
			w.buf = append(w.buf, ev)
			continue
		default:
		}
		break
	}
	for _, ev := range w.buf {
		if ev.kind == "gate" || ev.kind == "ret" {
			return fmt.Sprintf("unexpected left-over event %s on %s.%s", ev.kind, ev.end.conn.spec.Name, ev.end.side)
		}
	}
	w.buf = w.buf[:0]
	return ""
}

func hsClass(err error) string {
	if err == nil {
		return "ok"
	}
	s := err.Error()
	switch {
	case strings.Contains(s, "error sending messge"):
		return "werr"
	case strings.Contains(s, "verif: reset"):
		return "reset"
	case strings.Contains(s, "i/o timeout"):
		return "timeout"
	case strings.Contains(s, "verif: dial"):
		return "dialfail"
	case strings.Contains(s, "unmatched magic"):
		return "badmagic"
	case strings.Contains(s, "expected version message"), strings.Contains(s, "expect kad id"),
		strings.Contains(s, "expected update kadkeyid"), strings.Contains(s, "expect verack"),
		strings.Contains(s, "expected version ack"):
		return "badtype"
	case strings.Contains(s, "already in connection records"):
		return "rej-addr"
	case strings.Contains(s, "connecting with self address"):
		return "rej-self"
	case strings.Contains(s, "connecting list"):
		return "rej-connecting"
	case strings.Contains(s, "handshake with itself"):
		return "self"
	case strings.Contains(s, "same peer id from different addr"):
		return "rej-kid"
	case strings.Contains(s, "EOF"):
		return "eof"
	case strings.Contains(s, "verif: teardown"):
		return "teardown"
	}
	return "other:" + s
}

// ------------------------------------------------------------------ actions

func (w *hsWorld) end(c *hsConn, e string) *hsEnd {
	if e == "c" {
		return c.ce
	}
	return c.se
}

func (w *hsWorld) release(e *hsEnd, kinds string, cmd hsCmd) string {
	w.mu.Lock()
	g := e.parked
	if g == nil || !strings.Contains(kinds, g.kind) {
		w.mu.Unlock()
		k := "nothing"
		if g != nil {
			k = g.kind
		}
		return fmt.Sprintf("%s.%s is parked at %s, wanted %s", e.conn.spec.Name, e.side, k, kinds)
	}
	e.parked = nil
	w.mu.Unlock()
	g.reply <- cmd
	return ""
}

// ioCmd computes what the transport answers to the parked call of end e (from the REAL state of the wire)
func (w *hsWorld) ioCmd(e *hsEnd) (hsCmd, string) {
	w.mu.Lock()
	defer w.mu.Unlock()
	g := e.parked
	if g == nil {
		return hsCmd{}, fmt.Sprintf("%s.%s is not parked", e.conn.spec.Name, e.side)
	}
	switch g.kind {
	case "W":
		if e.conn.broken {
			return hsCmd{err: errHsReset}, ""
		}
		if e.other.closed {
			return hsCmd{err: errHsPipe}, ""
		}
		return hsCmd{}, ""
	case "R":
		if e.conn.broken {
			return hsCmd{err: errHsReset}, ""
		}
		if len(e.inbox) > 0 {
			d := e.inbox[0]
			e.inbox = e.inbox[1:]
			return hsCmd{data: d}, ""
		}
		if e.other.closed {
			return hsCmd{err: io.EOF}, ""
		}
		return hsCmd{}, "nothing to receive on " + e.conn.spec.Name + "." + e.side
	}
	return hsCmd{}, "parked at " + g.kind
}

// settle waits until the handshake goroutine of end e is parked again or its attempt has ended; it returns the
// result class ("ok" = still running or admitted).
func (w *hsWorld) settle(e *hsEnd) (res string, errText string, infra string) {
	node := e.owner
	if e.side == "c" {
		ev, ok := w.next(func(ev hsEvent) bool {
			return (ev.kind == "gate" && ev.end == e && ev.hs) || (ev.kind == "ret" && ev.end == e)
		}, hsWait)
		if !ok {
			return "", "", "timeout waiting for the dialling goroutine of " + e.conn.spec.Name
		}
		if ev.kind == "gate" {
			return "ok", "", ""
		}
		if ev.err != nil {
			return hsClass(ev.err), ev.err.Error(), ""
		}
		// connect returned nil: admitted, or self connection detected
		if _, ok := w.next(func(ev hsEvent) bool { return ev.kind == "sys" && ev.node == node.spec.Name && ev.sub == "hostaddr" }, 0); ok {
			return "self", "", ""
		}
		if _, ok := w.next(func(ev hsEvent) bool { return ev.kind == "sys" && ev.node == node.spec.Name && ev.sub == "connected" }, hsGrace); !ok {
			return "", "", "connect returned nil without PeerConnected / HostAddrDetected"
		}
		if _, ok := w.next(func(ev hsEvent) bool { return ev.kind == "gate" && ev.end == e && !ev.hs }, hsWait); !ok {
			return "", "", "Link.Rx of " + e.conn.spec.Name + ".c did not start reading"
		}
		return "ok", "", ""
	}
	ev, ok := w.next(func(ev hsEvent) bool {
		return (ev.kind == "gate" && ev.end == e && ev.hs) || (ev.kind == "warn" && ev.node == node.spec.Name) ||
			(ev.kind == "sys" && ev.node == node.spec.Name && ev.sub == "connected")
	}, hsWait)
	if !ok {
		return "", "", "timeout waiting for the accepting goroutine of " + e.conn.spec.Name
	}
	switch ev.kind {
	case "gate":
		return "ok", "", ""
	case "warn":
		res = hsClass(ev.err)
		if _, ok := w.next(func(ev hsEvent) bool { return ev.kind == "close" && ev.end == e }, hsGrace); !ok {
			w.mu.Lock()
			closed := e.closed
			w.mu.Unlock()
			if !closed {
				res += "+noclose"
			}
		}
		return res, ev.err.Error(), ""
	}
	if _, ok := w.next(func(ev hsEvent) bool { return ev.kind == "gate" && ev.end == e && !ev.hs }, hsWait); !ok {
		return "", "", "Link.Rx of " + e.conn.spec.Name + ".s did not start reading"
	}
	return "ok", "", ""
}

func (w *hsWorld) recId(of *hsNode, at *hsNode) common.PeerId {
	if of.spec.Soft == "dht" && at.spec.Soft == "dht" {
		return of.key.Id
	}
	return of.pseudo
}

func (w *hsWorld) step(a hsAct) (res string, errText string, infra string) {
	if msg := w.startAction(); msg != "" {
		return "", "", msg
	}
	c := w.conns[a.C]
	if c == nil {
		return "", "", "unknown connection " + a.C
	}
	switch a.Name {
	case "CBegin":
		addr := c.se.owner.spec.Addr
		w.mu.Lock()
		c.begun = true
		w.dialing[c.spec.Cl+"|"+addr] = c
		w.mu.Unlock()
		ns := c.ce.owner.ns
		ce := c.ce
		go func() {
			w.mu.Lock()
			ce.hsGid = hsGid()
			w.mu.Unlock()
			err := ns.connect(addr)
			w.ev <- hsEvent{kind: "ret", end: ce, err: err}
		}()
		return w.settle(c.ce)
	case "CDial":
		if msg := w.release(c.ce, "D", hsCmd{}); msg != "" {
			return "", "", msg
		}
		return w.settle(c.ce)
	case "DialFail":
		if msg := w.release(c.ce, "D", hsCmd{err: errHsDial}); msg != "" {
			return "", "", msg
		}
		w.nfaults++
		return w.settle(c.ce)
	case "CSend", "CRecv", "SSend", "SRecv":
		e := c.ce
		if a.Name[0] == 'S' {
			e = c.se
		}
		want := "W"
		if strings.HasSuffix(a.Name, "Recv") {
			want = "R"
		}
		cmd, msg := w.ioCmd(e)
		if msg != "" {
			return "", "", msg
		}
		w.mu.Lock()
		hs := e.parked != nil && e.parked.hs
		w.mu.Unlock()
		if !hs {
			return "", "", a.Name + ": the parked goroutine of " + a.C + " is not the handshake goroutine"
		}
		if msg := w.release(e, want, cmd); msg != "" {
			return "", "", msg
		}
		return w.settle(e)
	case "SAccept":
		w.mu.Lock()
		made := c.made
		w.mu.Unlock()
		if !made {
			return "", "", "SAccept before the dial completed"
		}
		c.accepted = true
		c.se.owner.lis.ch <- c.se
		return w.settle(c.se)
	case "Timeout":
		e := w.end(c, a.E)
		w.mu.Lock()
		dl := e.dl
		hs := e.parked != nil && e.parked.hs && e.parked.kind == "R"
		w.mu.Unlock()
		if !hs {
			return "", "", "Timeout: " + a.C + "." + a.E + " is not in a handshake read"
		}
		if msg := w.release(e, "R", hsCmd{err: hsTimeoutErr{}}); msg != "" {
			return "", "", msg
		}
		w.nfaults++
		res, errText, infra = w.settle(e)
		if !dl && infra == "" {
			res += "+nodeadline" // the read had no deadline: on a real socket it would block forever
		}
		return
	case "Break":
		w.mu.Lock()
		c.broken = true
		w.mu.Unlock()
		w.nfaults++
		return "ok", "", ""
	case "Junk", "BadMagic":
		e := c.se // queue client -> server
		if a.E == "sc" {
			e = c.ce
		}
		w.mu.Lock()
		defer w.mu.Unlock()
		if len(e.inbox) == 0 {
			return "", "", a.Name + ": nothing in flight"
		}
		if a.Name == "Junk" {
			e.inbox[0] = hsJunk(binary.LittleEndian.Uint32(e.inbox[0]))
		} else {
			blob := append([]byte{}, e.inbox[0]...)
			binary.LittleEndian.PutUint32(blob, w.magic+1)
			e.inbox[0] = blob
		}
		w.nfaults++
		return "ok", "", ""
	case "RxEOF":
		e := w.end(c, a.E)
		w.mu.Lock()
		rx := e.parked != nil && !e.parked.hs && e.parked.kind == "R"
		w.mu.Unlock()
		if !rx {
			return "", "", "RxEOF: Link.Rx of " + a.C + "." + a.E + " is not parked in Read"
		}
		cmd, msg := w.ioCmd(e)
		if msg != "" {
			return "", "", msg
		}
		if cmd.err == nil {
			return "", "", "RxEOF: the transport would deliver data"
		}
		if msg := w.release(e, "R", cmd); msg != "" {
			return "", "", msg
		}
		if _, ok := w.next(func(ev hsEvent) bool { return ev.kind == "close" && ev.end == e }, hsGrace*3); !ok {
			return "noclose", "", ""
		}
		return "closed", "", ""
	case "PeerClose":
		e := w.end(c, a.E)
		p := e.owner.ns.GetPeer(w.recId(e.remote, e.owner))
		if p == nil {
			return "nopeer", "", ""
		}
		p.Close()
		w.mu.Lock()
		closed := e.closed
		w.mu.Unlock()
		if !closed {
			return "noclose", "", ""
		}
		return "closed", "", ""
	}
	return "", "", "unknown action " + a.Name
}

func hsJunk(magic uint32) []byte {
	sink := comm.NewZeroCopySink(nil)
	types.WriteMessage(sink, &types.Addr{})
	blob := append([]byte{}, sink.Bytes()...)
	binary.LittleEndian.PutUint32(blob, magic)
	return blob
}

// ------------------------------------------------------------------ observation

func hsUnexported(fv reflect.Value) reflect.Value {
	return reflect.NewAt(fv.Type(), unsafe.Pointer(fv.UnsafeAddr())).Elem()
}

func hsSorted(xs []string) []string {
	out := append([]string{}, xs...)
	sort.Strings(out)
	return out
}

func (w *hsWorld) ctrlDump(n *hsNode, o *hsNodeObs) {
	defer func() {
		if r := recover(); r != nil {
			o.Reflect = fmt.Sprint(r)
		}
	}()
	v := reflect.ValueOf(n.ns.connCtrl).Elem()
	sets := hsUnexported(v.FieldByName("inoutbounds")).Interface().([2]*strset.Set)
	o.Inb = hsSorted(sets[connect_controller.INBOUND_INDEX].List())
	o.Outb = hsSorted(sets[connect_controller.OUTBOUND_INDEX].List())
	o.Lsn = hsSorted(hsUnexported(v.FieldByName("inboundListenAddress")).Interface().(*strset.Set).List())
	o.Cing = hsSorted(hsUnexported(v.FieldByName("connecting")).Interface().(*strset.Set).List())
	o.Peers = map[string]string{}
	pm := hsUnexported(v.FieldByName("peers"))
	it := pm.MapRange()
	for it.Next() {
		id := it.Key().Interface().(common.PeerId)
		name, ok := w.idName[id]
		if !ok {
			name = "?" + id.ToHexString()
		}
		addr := "?"
		if !it.Value().IsNil() {
			addr = it.Value().Elem().FieldByName("addr").String()
		}
		o.Peers[name] = addr
	}
}

func hsConnName(c net.Conn) string {
	for i := 0; i < 4 && c != nil; i++ {
		switch x := c.(type) {
		case *hsEnd:
			return x.conn.spec.Name
		case *Conn:
			c = x.Conn
		case *connect_controller.Conn:
			c = x.Conn
		default:
			return "?"
		}
	}
	return "?"
}

func (w *hsWorld) observe(o *hsObs) {
	o.Nodes = map[string]*hsNodeObs{}
	o.Ends = map[string]*hsEndObs{}
	o.Q = map[string][]hsMsgObs{}
	o.Brk = map[string]bool{}
	for name, n := range w.nodes {
		no := &hsNodeObs{Nbr: []hsNbrObs{}, Fatal: []string{}}
		n.ns.Np.RLock()
		for id, cp := range n.ns.Np.List {
			idn, ok := w.idName[id]
			if !ok {
				idn = "?" + id.ToHexString()
			}
			e := hsNbrObs{Id: idn, C: "?"}
			if cp.Peer != nil {
				e.C = hsConnName(cp.Peer.Link.GetConn())
				e.Port, e.Height, e.Svc, e.Ver = cp.Peer.Info.Port, cp.Peer.Info.Height(), cp.Peer.Info.Services, cp.Peer.Info.Version
				e.Soft, e.Addr = cp.Peer.Info.SoftVersion, cp.Peer.Info.Addr
				if cp.Peer.Info.Id != id {
					e.Id += "!=" + w.idName[cp.Peer.Info.Id]
				}
			}
			no.Nbr = append(no.Nbr, e)
		}
		n.ns.Np.RUnlock()
		sort.Slice(no.Nbr, func(i, j int) bool { return no.Nbr[i].Id < no.Nbr[j].Id })
		no.Cnt = n.ns.GetConnectionCnt()
		no.MaxH = n.ns.GetMaxPeerBlockHeight()
		no.In = n.ns.connCtrl.InboundsCount()
		no.Out = n.ns.GetOutConnRecordLen()
		no.Own = n.ns.connCtrl.OwnAddress()
		w.ctrlDump(n, no)
		n.logger.mu.Lock()
		no.Fatal = append(no.Fatal, n.logger.fatal...)
		n.logger.mu.Unlock()
		o.Nodes[name] = no
	}
	w.mu.Lock()
	for name, c := range w.conns {
		o.Brk[name] = c.broken
		for _, e := range []*hsEnd{c.ce, c.se} {
			eo := &hsEndObs{Made: c.made, Closed: e.closed, Dl: e.dl}
			if e.parked != nil {
				eo.Gate, eo.Hs = e.parked.kind, e.parked.hs
			}
			o.Ends[name+"."+e.side] = eo
			q := []hsMsgObs{}
			for _, b := range e.inbox {
				m := hsMsgObs{T: "?"}
				if len(b) >= 16 {
					m.Ok = binary.LittleEndian.Uint32(b) == w.magic
					m.T = strings.TrimRight(string(b[4:16]), "\x00")
				}
				q = append(q, m)
			}
			if e.side == "s" {
				o.Q[name+".cs"] = q
			} else {
				o.Q[name+".sc"] = q
			}
		}
	}
	w.mu.Unlock()
}

func hsSetup() {
	common.Difficulty = 1
	handshake.HANDSHAKE_DURATION = 10 * time.Minute // the deadline never fires by itself: Timeout is an action of the schedule
	log.InitLog(log.ErrorLog, log.Stdout)
}

func TestVerifX03Replay(t *testing.T) {
	hsSetup()
	var jobs hsJobs
	vhIn(&jobs)
	out := vhOpenOut()
	defer out.Close()
	for ji := range jobs.Jobs {
		in := &jobs.Jobs[ji]
		for pi, path := range in.Paths {
			w := newHsWorld(in)
			o := hsObs{Job: ji, Path: pi, Step: 0, Res: "init"}
			w.observe(&o)
			out.Emit(&o)
			for si := range path {
				a := path[si]
				res, errText, infra := w.step(a)
				o := hsObs{Job: ji, Path: pi, Step: si + 1, Res: res, Err: errText, Infra: infra}
				w.observe(&o)
				out.Emit(&o)
				if infra != "" || res != a.Res {
					break // diverged from the model (or harness problem): the rest of the schedule is meaningless
				}
			}
			w.teardown()
		}
	}
}

// ------------------------------------------------------------------ random schedules (trace validation)

// enabled lists the actions that are possible in the REAL state of the world.
func (w *hsWorld) enabled(r *hsRandom) []hsAct {
	var acts []hsAct
	has := func(k string) bool {
		if w.nfaults >= r.MaxFaults {
			return false
		}
		for _, f := range r.Faults {
			if f == k {
				return true
			}
		}
		return false
	}
	names := make([]string, 0, len(w.conns))
	for n := range w.conns {
		names = append(names, n)
	}
	sort.Strings(names)
	w.mu.Lock()
	defer w.mu.Unlock()
	for _, name := range names {
		c := w.conns[name]
		if !c.begun {
			acts = append(acts, hsAct{Name: "CBegin", C: name, E: "c"})
		}
		if c.made && !c.accepted {
			acts = append(acts, hsAct{Name: "SAccept", C: name, E: "s"})
		}
		alive := 0
		for _, e := range []*hsEnd{c.ce, c.se} {
			g := e.parked
			if g == nil {
				continue
			}
			alive++
			pre := "C"
			if e.side == "s" {
				pre = "S"
			}
			switch {
			case g.kind == "D":
				acts = append(acts, hsAct{Name: "CDial", C: name, E: "c"})
				if has("dialfail") {
					acts = append(acts, hsAct{Name: "DialFail", C: name, E: "c"})
				}
			case g.kind == "W" && g.hs:
				acts = append(acts, hsAct{Name: pre + "Send", C: name, E: e.side})
			case g.kind == "R" && g.hs:
				if c.broken || len(e.inbox) > 0 || e.other.closed {
					acts = append(acts, hsAct{Name: pre + "Recv", C: name, E: e.side})
				} else if has("timeout") {
					acts = append(acts, hsAct{Name: "Timeout", C: name, E: e.side})
				}
			case g.kind == "R" && !g.hs:
				if c.broken || (e.other.closed && len(e.inbox) == 0) {
					acts = append(acts, hsAct{Name: "RxEOF", C: name, E: e.side})
				}
				if r.Closes {
					acts = append(acts, hsAct{Name: "PeerClose", C: name, E: e.side})
				}
			}
		}
		if c.made && !c.broken && has("break") && (alive > 0) {
			acts = append(acts, hsAct{Name: "Break", C: name})
		}
		for _, d := range []string{"cs", "sc"} {
			e := c.se
			if d == "sc" {
				e = c.ce
			}
			if len(e.inbox) > 0 {
				b := e.inbox[0]
				ok := len(b) >= 16 && binary.LittleEndian.Uint32(b) == w.magic && strings.TrimRight(string(b[4:16]), "\x00") != "addr"
				if ok && has("junk") {
					acts = append(acts, hsAct{Name: "Junk", C: name, E: d})
				}
				if ok && has("magic") {
					acts = append(acts, hsAct{Name: "BadMagic", C: name, E: d})
				}
			}
		}
	}
	return acts
}

func TestVerifX03Trace(t *testing.T) {
	hsSetup()
	var jobs hsJobs
	vhIn(&jobs)
	out := vhOpenOut()
	defer out.Close()
	rnd := rand.New(rand.NewSource(vhSeed()*7919 + 13))
	for ji := range jobs.Jobs {
		in := &jobs.Jobs[ji]
		r := in.Random
		for wi := 0; wi < r.Walks; wi++ {
			w := newHsWorld(in)
			o := hsObs{Job: ji, Path: wi, Step: 0, Res: "init", Act: &hsAct{Name: "Reset"}}
			w.observe(&o)
			out.Emit(&o)
			for si := 0; si < r.Steps; si++ {
				acts := w.enabled(r)
				if len(acts) == 0 {
					break
				}
				a := acts[rnd.Intn(len(acts))]
				res, errText, infra := w.step(a)
				a.Res = res
				o := hsObs{Job: ji, Path: wi, Step: si + 1, Res: res, Err: errText, Infra: infra, Act: &a}
				w.observe(&o)
				out.Emit(&o)
				if infra != "" {
					break
				}
			}
			w.teardown()
		}
	}
}
