package common

// Conformance harness for spec/TxPool.tla (C35): replays TLC paths on the real TXPool and the real
// IncrementValidator.  Transactions are real EIP-155 transactions signed with fixed keys (the payer is
// recovered from the signature by TransactionFromEIP155) and real Ontology invoke transactions.
// ledger.DefLedger is a Ledger whose store is the harness ledger below: it answers GetEthAccount with
// the account nonce that results from the blocks committed so far (every committed EVM transaction
// advances the nonce of its sender by one).  Nothing else of the ledger is reached by the code under test;
// any other call would hit the nil embedded interface and panic (reported as an infrastructure error).

import (
	"fmt"
	"math/big"
	"sort"
	"testing"

	ethcomm "github.com/ethereum/go-ethereum/common"
	ethtypes "github.com/ethereum/go-ethereum/core/types"
	"github.com/ethereum/go-ethereum/crypto"
	"github.com/ontio/ontology/common"
	"github.com/ontio/ontology/common/config"
	"github.com/ontio/ontology/common/constants"
	"github.com/ontio/ontology/common/log"
	"github.com/ontio/ontology/core/ledger"
	"github.com/ontio/ontology/core/payload"
	"github.com/ontio/ontology/core/store"
	"github.com/ontio/ontology/core/types"
	"github.com/ontio/ontology/errors"
	"github.com/ontio/ontology/smartcontract/storage"
	"github.com/ontio/ontology/validator/increment"
)

type tpTx struct {
	S  string `json:"s"`
	N  uint64 `json:"n"`
	Gp uint64 `json:"gp"`
	V  int    `json:"v"`
}

func (t tpTx) id() string { return fmt.Sprintf("%s/%d/%d/%d", t.S, t.N, t.Gp, t.V) }

type tpAct struct {
	Name  string `json:"name"`
	Tx    *tpTx  `json:"tx"`
	Vh    uint32 `json:"vh"`
	G     uint64 `json:"g"`
	Block []tpTx `json:"block"`
	H     uint32 `json:"h"`
}

type tpInput struct {
	EvmSenders []string          `json:"evmSenders"`
	InitNonce  map[string]uint64 `json:"initNonce"`
	H0         uint32            `json:"h0"`
	MaxBlocks  int               `json:"maxBlocks"`
	MaxTx      uint              `json:"maxTx"`
	Paths      [][]tpAct         `json:"paths"`
}

type tpEntry struct {
	Tx string `json:"tx"`
	Vh uint32 `json:"vh"`
}

type tpObs struct {
	Path     int       `json:"path"`
	Step     int       `json:"step"`
	Res      string    `json:"res"`
	Code     string    `json:"code,omitempty"`
	OldTx    string    `json:"oldTx,omitempty"` // transaction that occupied the (sender, nonce) slot before a Submit
	Valid    []tpEntry `json:"valid"`           // validTxMap
	Eip      []string  `json:"eip"`             // eipTxPool: ids of every stored transaction
	EipOK    bool      `json:"eipOK"`           // heap index of every txSortedMap = its key set; slot keys = tx nonces
	VStart   uint32    `json:"vstart"`
	VEnd     uint32    `json:"vend"`
	ValidH   uint32    `json:"validH"`
	Raw      []string  `json:"raw,omitempty"` // GetTxPool output
	Out      []string  `json:"out,omitempty"` // after IncrementValidator.Verify
	Expired  []string  `json:"expired,omitempty"`
	Infra    string    `json:"infra,omitempty"`
	NextNonc map[string]uint64 `json:"nextNonce,omitempty"`
}

// ---------------------------------------------------------------- harness ledger
type tpLedger struct {
	store.LedgerStore // nil: anything but the methods below is outside the code under test
	h0                uint32
	init              map[common.Address]uint64
	blocks            []*types.Block // blocks h0+1 ..
}

func (l *tpLedger) height() uint32 { return l.h0 + uint32(len(l.blocks)) }

func (l *tpLedger) nonceAt(addr common.Address, h uint32) uint64 {
	n := l.init[addr]
	for i := 0; i < int(h-l.h0) && i < len(l.blocks); i++ {
		for _, tx := range l.blocks[i].Transactions {
			if tx.IsEipTx() && tx.Payer == addr {
				n++
			}
		}
	}
	return n
}

func (l *tpLedger) GetEthAccount(address ethcomm.Address) (*storage.EthAccount, error) {
	return &storage.EthAccount{Nonce: l.nonceAt(common.Address(address), l.height())}, nil
}

func (l *tpLedger) GetCurrentBlockHeight() uint32 { return l.height() }

// ---------------------------------------------------------------- transactions
var tpKeys = map[string]string{
	"a": "fad9c8855b740a0b7ed4c221dbad0f33a83a49cad6b3fe8d5817ac83d38b6a19",
	"b": "1b2c3d4e5f60718293a4b5c6d7e8f9010a1b2c3d4e5f60718293a4b5c6d7e8f9",
	"c": "2c3d4e5f60718293a4b5c6d7e8f9010a1b2c3d4e5f60718293a4b5c6d7e8f901",
	"d": "3d4e5f60718293a4b5c6d7e8f9010a1b2c3d4e5f60718293a4b5c6d7e8f9010a",
}

var tpCache = map[string]*types.Transaction{}
var tpIds = map[common.Uint256]string{}

func tpIsEvm(s string) bool { _, ok := tpKeys[s]; return ok }

func tpMake(t tpTx) *types.Transaction {
	id := t.id()
	if tx, ok := tpCache[id]; ok {
		return tx
	}
	var tx *types.Transaction
	if hexkey, ok := tpKeys[t.S]; ok {
		key, err := crypto.HexToECDSA(hexkey)
		vhMust(err)
		to := ethcomm.HexToAddress("0x4592d8f8d7b001e72cb26a73e4fa1806a51ac79d")
		gasPrice := new(big.Int).Mul(big.NewInt(int64(t.Gp)), big.NewInt(constants.GWei))
		etx := ethtypes.NewTransaction(t.N, to, big.NewInt(1000000+int64(t.V)), 21000, gasPrice, nil)
		signed, err := ethtypes.SignTx(etx, ethtypes.NewEIP155Signer(big.NewInt(int64(config.DefConfig.P2PNode.EVMChainId))), key)
		vhMust(err)
		tx, err = types.TransactionFromEIP155(signed)
		vhMust(err)
		if uint64(tx.Nonce) != t.N || tx.GasPrice != t.Gp || !tx.IsEipTx() {
			panic("EIP155 conversion changed nonce / gas price")
		}
	} else {
		var payer common.Address
		copy(payer[:], []byte("verif-ont-payer-"+t.S))
		m := &types.MutableTransaction{TxType: types.InvokeNeo, Nonce: uint32(1000 + len(tpCache)), GasPrice: t.Gp, GasLimit: 20000,
			Payer: payer, Payload: &payload.InvokeCode{Code: []byte("verif:" + id)}}
		var err error
		tx, err = m.IntoImmutable()
		vhMust(err)
	}
	tpCache[id] = tx
	tpIds[tx.Hash()] = id
	return tx
}

func tpId(tx *types.Transaction) string {
	if id, ok := tpIds[tx.Hash()]; ok {
		return id
	}
	return "?" + tx.Hash().ToHexString()
}

func tpAddr(sender string) common.Address {
	return tpMake(tpTx{S: sender, N: 0, Gp: 1, V: 0}).Payer
}

// ---------------------------------------------------------------- world
type tpWorld struct {
	in   *tpInput
	pool *TXPool
	iv   *increment.IncrementValidator
	ldg  *tpLedger
}

func newTpWorld(in *tpInput) *tpWorld {
	w := &tpWorld{in: in}
	w.pool = NewTxPool()
	w.iv = increment.NewIncrementValidator(in.MaxBlocks)
	w.ldg = &tpLedger{h0: in.H0, init: map[common.Address]uint64{}}
	for s, n := range in.InitNonce {
		w.ldg.init[tpAddr(s)] = n
	}
	ledger.DefLedger = &ledger.Ledger{LedgerStore: w.ldg}
	config.DefConfig.Consensus.MaxTxInBlock = in.MaxTx
	return w
}

func (w *tpWorld) slot(t tpTx) *types.Transaction {
	w.pool.RLock()
	defer w.pool.RUnlock()
	l := w.pool.eipTxPool[tpAddr(t.S)]
	if l == nil {
		return nil
	}
	return l.items[t.N]
}

func (w *tpWorld) apply(a tpAct, o *tpObs) {
	switch a.Name {
	case "Submit":
		tx := tpMake(*a.Tx)
		var nonce uint64
		var old *types.Transaction
		if tx.IsEipTx() {
			nonce = w.ldg.nonceAt(tx.Payer, a.Vh) // what the stateful validator puts into CheckResponse.Nonce
			old = w.slot(*a.Tx)
		}
		code := w.pool.AddTxList(&VerifiedTx{Tx: tx, VerifiedHeight: a.Vh, Nonce: nonce})
		o.Code = code.Error()
		switch code {
		case errors.ErrNoError:
			o.Res = "added"
			if old != nil {
				o.OldTx = tpId(old)
				now := w.slot(*a.Tx)
				if now != nil && now.Hash() != old.Hash() {
					o.Res = "replaced"
				} else if now != nil {
					o.Res = "replaced-by-itself"
				}
			}
		case errors.ErrSameNonceExist:
			o.Res = "same-nonce"
		case errors.ErrDuplicatedTx:
			o.Res = "duplicate"
		default:
			o.Res = "error:" + code.Error()
		}
	case "RemoveBelowGas":
		w.pool.RemoveTxsBelowGasPrice(a.G)
		o.Res = "ok"
	case "LedgerCommit":
		if a.H != w.ldg.height()+1 {
			o.Infra = fmt.Sprintf("LedgerCommit height %d on ledger height %d", a.H, w.ldg.height())
			return
		}
		blk := &types.Block{Header: &types.Header{Height: a.H}}
		for _, t := range a.Block {
			blk.Transactions = append(blk.Transactions, tpMake(t))
		}
		w.ldg.blocks = append(w.ldg.blocks, blk)
		o.Res = "ok"
	case "ValAddBlock":
		w.iv.AddBlock(w.ldg.blocks[a.H-w.ldg.h0-1])
		o.Res = "ok"
	case "PoolClean":
		blk := w.ldg.blocks[a.H-w.ldg.h0-1]
		txs := append([]*types.Transaction{}, blk.Transactions...) // the actor passes msg.Block.Transactions
		w.pool.CleanCompletedTransactionList(txs, a.H)
		o.Res = "ok"
	case "ValReset":
		w.iv.Clean()
		o.Res = "ok"
	case "Propose":
		// consensus/solo makeBlock (identical to vbft validHeight + makeProposal for blkNum = height+1)
		height := w.ldg.height()
		validHeight := height
		start, end := w.iv.BlockRange()
		if height+1 == end {
			validHeight = start
		} else {
			w.iv.Clean()
		}
		list, old := w.pool.GetTxPool(true, validHeight)
		nonceCtx := make(map[common.Address]uint64)
		o.Raw, o.Out, o.Expired = []string{}, []string{}, []string{}
		for _, e := range list {
			o.Raw = append(o.Raw, tpId(e.Tx))
			if err := w.iv.Verify(e.Tx, validHeight, nonceCtx); err == nil {
				o.Out = append(o.Out, tpId(e.Tx))
			}
		}
		for _, t := range old {
			o.Expired = append(o.Expired, tpId(t))
		}
		o.ValidH = validHeight
		o.Res = "ok"
	default:
		o.Infra = "unknown action " + a.Name
	}
}

func (w *tpWorld) observe(o *tpObs) {
	p := w.pool
	p.RLock()
	o.Valid = []tpEntry{}
	for h, e := range p.validTxMap {
		if e.Tx.Hash() != h {
			o.Infra = "validTxMap key differs from the hash of its transaction"
		}
		o.Valid = append(o.Valid, tpEntry{Tx: tpId(e.Tx), Vh: e.VerifiedHeight})
	}
	sort.Slice(o.Valid, func(i, j int) bool { return o.Valid[i].Tx < o.Valid[j].Tx })
	o.Eip = []string{}
	o.EipOK = true
	for addr, l := range p.eipTxPool {
		idx := append([]uint64{}, (*l.index)...)
		sort.Slice(idx, func(i, j int) bool { return idx[i] < idx[j] })
		if len(idx) != len(l.items) {
			o.EipOK = false
		}
		for i, n := range idx {
			if i > 0 && idx[i-1] == n {
				o.EipOK = false
			}
			if l.items[n] == nil {
				o.EipOK = false
			}
		}
		for n, tx := range l.items {
			if uint64(tx.Nonce) != n || tx.Payer != addr {
				o.EipOK = false
			}
			o.Eip = append(o.Eip, tpId(tx))
		}
	}
	sort.Strings(o.Eip)
	p.RUnlock()
	o.VStart, o.VEnd = w.iv.BlockRange()
}

func TestVerifTxPoolReplay(t *testing.T) {
	log.InitLog(log.ErrorLog+1, log.Stdout)
	config.DefConfig.P2PNode.EVMChainId = 12345
	var in tpInput
	vhIn(&in)
	out := vhOpenOut()
	defer out.Close()
	for pi, path := range in.Paths {
		w := newTpWorld(&in)
		o := tpObs{Path: pi, Step: 0, Res: "init"}
		w.observe(&o)
		out.Emit(&o)
		for si, a := range path {
			o := tpObs{Path: pi, Step: si + 1}
			func() {
				defer func() {
					if r := recover(); r != nil {
						o.Infra = fmt.Sprintf("panic in %s: %v", a.Name, r)
					}
				}()
				w.apply(a, &o)
				w.observe(&o)
			}()
			out.Emit(&o)
			if o.Infra != "" {
				break
			}
		}
	}
}
