package vbft

// C28: extraction of the decision thresholds from the real code.  For every (N, C) asked for, and every decision
// function, the least number k of distinct signers (the proposer included) for which the real function accepts.

import (
	"fmt"
	"math"
	"testing"

	"github.com/ontio/ontology-crypto/keypair"
	"github.com/ontio/ontology/account"
	"github.com/ontio/ontology/common"
	vconfig "github.com/ontio/ontology/consensus/vbft/config"
	"github.com/ontio/ontology/core/signature"
	"github.com/ontio/ontology/core/types"
	"github.com/ontio/ontology/core/validation"
)

type vbThrIn struct {
	Pairs [][2]int `json:"pairs"` // (N, C)
	// functions that involve signatures are only probed up to this N
	CryptoMaxN int `json:"cryptoMaxN"`
}

type vbThrRow struct {
	Fn string `json:"fn"`
	N  int    `json:"n"`
	C  int    `json:"c"`
	K  int    `json:"k"`  // least accepted number of distinct signers; -1: none accepted for k <= N
	Up int    `json:"up"` // 1: every k' in [k, N] probed was accepted as well (monotone), 0 otherwise
}

func vbLeast(n int, accept func(k int) bool) (int, int) {
	least := -1
	for k := 0; k <= n; k++ {
		if accept(k) {
			least = k
			break
		}
	}
	if least < 0 {
		return -1, 1
	}
	up := 1
	for _, k := range []int{least + 1, least + 2, (least + n) / 2, n} {
		if k > least && k <= n && !accept(k) {
			up = 0
		}
	}
	return least, up
}

func vbDummySig(i int) []byte { return []byte(fmt.Sprintf("sig-%d", i)) }

// commit message of committer `com` for proposer 1 claiming the endorsers ends
func vbPlainCommit(com int, ends []int) *blockCommitMsg {
	m := &blockCommitMsg{Committer: uint32(com), BlockProposer: 1, BlockNum: vbHeight, EndorsersSig: map[uint32][]byte{}, CommitterSig: vbDummySig(com)}
	for _, e := range ends {
		m.EndorsersSig[uint32(e)] = vbDummySig(e)
	}
	return m
}

func TestVerifVBThresholds(t *testing.T) {
	var in vbThrIn
	vhIn(&in)
	out := vhOpenOut()
	defer out.Close()
	vbInit()
	maxN := 1
	for _, p := range in.Pairs {
		if p[0] > maxN {
			maxN = p[0]
		}
	}
	accts := make([]*account.Account, maxN+1)
	for i := 1; i <= maxN; i++ {
		accts[i] = account.NewAccount("")
	}
	// one block per N signed by everybody (VerifyBlock): built lazily
	type blkN struct {
		blk  *types.Block
		sigs [][]byte
		keys []keypair.PublicKey
	}
	blocks := map[int]*blkN{}
	getBlk := func(n int) *blkN {
		if b, ok := blocks[n]; ok {
			return b
		}
		hdr := &types.Header{Height: 1, Timestamp: 100, ConsensusData: uint64(n)}
		blk := &types.Block{Header: hdr}
		h := blk.Hash()
		b := &blkN{blk: blk}
		for i := 1; i <= n; i++ {
			s, err := signature.Sign(accts[i], h[:])
			vhMust(err)
			b.sigs = append(b.sigs, s)
			b.keys = append(b.keys, accts[i].PublicKey)
		}
		blocks[n] = b
		return b
	}
	netCache := map[int]*vbNet{}
	var srvCache *Server
	for _, p := range in.Pairs {
		n, c := p[0], p[1]
		emit := func(fn string, accept func(k int) bool) {
			k, up := vbLeast(n, accept)
			out.Emit(vbThrRow{Fn: fn, N: n, C: c, K: k, Up: up})
		}
		// --- getCommitConsensus: one commit message whose committer is peer 2 and which carries endorser signatures 3..k
		emit("getCommitConsensus", func(k int) bool {
			var msgs []*blockCommitMsg
			if k >= 2 {
				ends := []int{}
				for e := 3; e <= k; e++ {
					ends = append(ends, e)
				}
				msgs = append(msgs, vbPlainCommit(2, ends))
			}
			pr, _ := getCommitConsensus(msgs, c, n)
			return pr == 1
		})
		// --- getCommitConsensus, k-1 commit messages without endorser signatures
		emit("getCommitConsensus/spread", func(k int) bool {
			var msgs []*blockCommitMsg
			for i := 2; i <= k; i++ {
				msgs = append(msgs, vbPlainCommit(i, nil))
			}
			pr, _ := getCommitConsensus(msgs, c, n)
			return pr == 1
		})
		// --- getCommitConsensus, k-1 commit messages for the EMPTY block (the function modifies its C once more than C
		// empty commits were seen, so its threshold must be probed on this shape too)
		emit("getCommitConsensus/empty", func(k int) bool {
			var msgs []*blockCommitMsg
			for i := 2; i <= k; i++ {
				m := vbPlainCommit(i, nil)
				m.CommitForEmpty = true
				msgs = append(msgs, m)
			}
			pr, _ := getCommitConsensus(msgs, c, n)
			return pr == 1
		})
		// --- the same with one commit message carrying the endorser signatures, preceded by C+1 empty commits of peers
		// that are part of the k signers
		emit("getCommitConsensus/emptyThenClaims", func(k int) bool {
			var msgs []*blockCommitMsg
			nEmpty := c + 1
			if nEmpty > k-1 {
				nEmpty = k - 1
			}
			for i := 2; i < 2+nEmpty; i++ {
				m := vbPlainCommit(i, nil)
				m.CommitForEmpty = true
				msgs = append(msgs, m)
			}
			if 2+nEmpty <= k {
				ends := []int{}
				for e := 2 + nEmpty + 1; e <= k; e++ {
					ends = append(ends, e)
				}
				msgs = append(msgs, vbPlainCommit(2+nEmpty, ends))
			}
			pr, _ := getCommitConsensus(msgs, c, n)
			return pr == 1
		})
		// --- pool level: one net + one server skeleton (peer n) per N; C and the participant roles are re-installed per pair
		net := netCache[n]
		if net == nil {
			net = vbNetWith(accts[:n+1], n, c)
			netCache = map[int]*vbNet{n: net}
			srvCache = net.vbServer(uint32(n))
		}
		net.c = c
		net.cfg.C = uint32(c)
		bp := &BlockParticipantConfig{BlockNum: vbHeight, Vrf: net.part.Vrf, ChainConfig: net.cfg}
		bp.Proposers, bp.Endorsers, bp.Committers = calcParticipantPeers(bp, net.cfg)
		net.part = bp
		s := srvCache
		s.config.C = uint32(c)
		s.currentParticipantConfig = bp
		prop := net.proposal(1, 0)
		cur := -1
		// incremental pool builder: k distinct signers = the proposal of peer 1 plus entries of peers 2..k
		mkPool := func(k int, commitToo bool) *Server {
			if cur < 0 || k < cur {
				s.blockPool.clean()
				cur = 0
			}
			for e := cur + 1; e <= k; e++ {
				if e == 1 {
					vhMust(s.blockPool.newBlockProposal(prop))
				} else if commitToo {
					vhMust(s.blockPool.newBlockCommitment(vbPlainCommit(e, nil)))
				} else {
					s.blockPool.newBlockEndorsement(&blockEndorseMsg{Endorser: uint32(e), EndorsedProposer: 1, BlockNum: vbHeight, EndorserSig: vbDummySig(e)})
				}
			}
			cur = k
			return s
		}
		emit("commitDone/sigs", func(k int) bool {
			s := mkPool(k, false)
			pr, _, done := s.blockPool.commitDone(vbHeight, uint32(c), uint32(n))
			return done && pr == 1
		})
		cur = -1
		emit("commitDone/msgs", func(k int) bool {
			s := mkPool(k, true)
			pr, _, done := s.blockPool.commitDone(vbHeight, uint32(c), uint32(n))
			return done && pr == 1
		})
		cur = -1
		emit("endorseDone", func(k int) bool {
			s := mkPool(k, false)
			pr, _, done := s.blockPool.endorseDone(vbHeight, uint32(c))
			return done && pr == 1
		})
		// CheckSubmitBlock uses the same closed form on state-root submit messages
		cur = -1
		emit("CheckSubmitBlock", func(k int) bool {
			if cur < 0 || k < cur {
				s.msgPool.clean()
				cur = 0
			}
			root := common.Uint256{1}
			for i := cur + 1; i <= k; i++ {
				m := &blockSubmitMsg{BlockStateRoot: root, BlockNum: vbHeight, SubmitMsgSig: vbDummySig(i)}
				h, _ := HashMsg(m)
				vhMust(s.msgPool.AddMsg(m, h))
			}
			cur = k
			return s.CheckSubmitBlock(vbHeight, root)
		})
		if n <= in.CryptoMaxN {
			b := getBlk(n)
			emit("VerifyBlock", func(k int) bool {
				hdr := *b.blk.Header
				hdr.Bookkeepers = b.keys
				hdr.SigData = b.sigs[:k]
				return vbVerifyBlockSigStage(&types.Block{Header: &hdr})
			})
			if n <= 16 {
				addr, err := types.AddressFromBookkeepers(b.keys)
				if err == nil {
					emit("AddressFromBookkeepers", func(k int) bool {
						if k < 1 {
							return false
						}
						if n == 1 {
							return k == 1
						}
						a2, err := types.AddressFromMultiPubKeys(b.keys, k)
						return err == nil && a2 == addr
					})
				}
			}
		}
	}
	_ = math.MaxUint32
	_ = vconfig.VRF_SIZE
}

// vbVerifyBlockSigStage: validation.VerifyBlock with no ledger: the multi-signature stage comes first; if it passes the
// function dereferences the (nil) ledger, which is recovered here and counted as "signature stage passed".
func vbVerifyBlockSigStage(blk *types.Block) (passed bool) {
	defer func() {
		if r := recover(); r != nil {
			passed = true
		}
	}()
	err := validation.VerifyBlock(blk, nil, false)
	if err == nil {
		return true
	}
	switch err.Error() {
	case "not enough signatures in multi-signature", "multi-signature verification failed", "invalid signature data":
		return false
	}
	return true
}

// vbNetWith: a net over given accounts (no identity-order search; roles are whatever calcParticipantPeers yields)
func vbNetWith(accts []*account.Account, n, c int) *vbNet {
	net := vbNewNetAccts(accts, n, c, false)
	return net
}
