package vbft

// C31: replay of TLC-generated message sequences on a real BlockPool (through the intake signature check of Server.run)
// and observation of commitDone / endorseDone together with the REAL validity (real keys, real signatures) of every
// signature the pool holds.

import (
	"math"
	"sort"
	"testing"

	"github.com/ontio/ontology/common"
)

type vbClaim struct {
	I  int  `json:"i"`
	Ok bool `json:"ok"`
}

// one fed message (fields as in spec/VBFTPool.tla)
type vbFeed struct {
	Name string    `json:"name"` // FeedProposal | FeedEndorse | FeedCommit
	P    int       `json:"p"`    // proposer
	V    int       `json:"v"`    // proposal variant
	I    int       `json:"i"`    // endorser (FeedEndorse)
	Cm   int       `json:"c"`    // committer (FeedCommit)
	E    bool      `json:"e"`    // for empty block
	Ok   bool      `json:"ok"`   // FeedEndorse: endorser signature valid
	Cc   bool      `json:"cc"`   // FeedEndorse: the message also carries the endorser's (valid) cross-chain-msg signature
	Cok  bool      `json:"cok"`  // FeedCommit: committer signature valid
	Pok  bool      `json:"pok"`  // FeedCommit: carried proposer signature valid
	Es   []vbClaim `json:"es"`   // FeedCommit: claimed endorser signatures
}

type vbC31In struct {
	N     int        `json:"n"`
	C     int        `json:"c"`
	Self  int        `json:"self"`
	Byz   int        `json:"byz"` // the peer whose key signs forged material
	Paths [][]vbFeed `json:"paths"`
}

type vbEntryObs struct {
	P  int  `json:"p"`
	E  bool `json:"e"`
	Ok bool `json:"ok"`
}

type vbCmObs struct {
	C   int       `json:"c"`
	P   int       `json:"p"`
	E   bool      `json:"e"`
	Cok bool      `json:"cok"`
	Pok bool      `json:"pok"`
	Es  []vbClaim `json:"es"`
}

type vbPoolObs struct {
	Path   int            `json:"path"`
	Step   int            `json:"step"`
	Intake string         `json:"intake"` // ok | dropped (signature check of Server.run) | err:<pool error>
	Props  []int          `json:"props"`
	Esigs  [][]vbEntryObs `json:"esigs"` // index endorser-1
	Cmsgs  []vbCmObs      `json:"cmsgs"`
	// decisions
	CD      bool `json:"cd"`
	CDP     int  `json:"cdp"`
	CDE     bool `json:"cde"`
	ViaMsgs bool `json:"viaMsgs"`
	ED      bool `json:"ed"`
	EDP     int  `json:"edp"`
	EDE     bool `json:"ede"`
	EF      bool `json:"ef"`
	// distinct peers with a VALID signature over the decided block (commitDone result), real crypto
	Valid []int `json:"valid"`
	Roles [][]uint32 `json:"roles,omitempty"`
}

var vbGarbage = common.Uint256{0xde, 0xad}
var vbCCHash = common.Uint256{0xcc, 0x01}

func (net *vbNet) mkEndorse(f *vbFeed, byz int) (*blockEndorseMsg, uint32) {
	h := net.blockHash(f.P, f.V, f.E)
	m := &blockEndorseMsg{Endorser: uint32(f.I), EndorsedProposer: uint32(f.P), BlockNum: vbHeight, EndorsedBlockHash: h, EndorseForEmpty: f.E}
	prop := net.proposal(f.P, f.V)
	if f.E {
		m.ProposerSig = prop.EmptyBlockProposerSig
	} else {
		m.ProposerSig = prop.BlockProposerSig
	}
	sender := uint32(f.I)
	if f.Cc && f.Ok {
		m.CrossChainMsgHash = vbCCHash
		m.CrossChainMsgEndorserSig = net.sign(f.I, vbCCHash)
	}
	if f.Ok {
		m.EndorserSig = net.sign(f.I, h)
	} else {
		sender = uint32(byz)
		if f.I == byz {
			// own signature, but over something else than the endorsed block
			m.EndorsedBlockHash = vbGarbage
			m.EndorserSig = net.sign(byz, vbGarbage)
		} else {
			// forged Endorser field: the signature is the sender's
			m.EndorserSig = net.sign(byz, h)
		}
	}
	return m, sender
}

func (net *vbNet) mkCommit(f *vbFeed, byz int) (*blockCommitMsg, uint32) {
	h := net.blockHash(f.P, f.V, f.E)
	prop := net.proposal(f.P, f.V)
	m := &blockCommitMsg{Committer: uint32(f.Cm), BlockProposer: uint32(f.P), BlockNum: vbHeight, CommitBlockHash: h, CommitForEmpty: f.E,
		EndorsersSig: map[uint32][]byte{}}
	if f.Pok {
		if f.E {
			m.ProposerSig = prop.EmptyBlockProposerSig
		} else {
			m.ProposerSig = prop.BlockProposerSig
		}
	} else {
		m.ProposerSig = net.sign(byz, vbGarbage)
	}
	for _, cl := range f.Es {
		if cl.Ok {
			m.EndorsersSig[uint32(cl.I)] = net.sign(cl.I, h)
		} else if cl.I == byz {
			m.EndorsersSig[uint32(cl.I)] = net.sign(byz, vbGarbage)
		} else {
			m.EndorsersSig[uint32(cl.I)] = net.sign(byz, h)
		}
	}
	sender := uint32(f.Cm)
	if f.Cok {
		m.CommitterSig = net.sign(f.Cm, h)
	} else {
		sender = uint32(byz)
		if f.Cm == byz {
			m.CommitBlockHash = vbGarbage
			m.CommitterSig = net.sign(byz, vbGarbage)
		} else {
			m.CommitterSig = net.sign(byz, h)
		}
	}
	return m, sender
}

// observe the pool of server s (height 1)
func (net *vbNet) observePool(s *Server) *vbPoolObs {
	o := &vbPoolObs{Props: []int{}, Cmsgs: []vbCmObs{}, Valid: []int{}}
	pool := s.blockPool
	pool.lock.RLock()
	cand := pool.candidateBlocks[vbHeight]
	variant := map[int]int{}
	o.Esigs = make([][]vbEntryObs, net.n)
	for i := range o.Esigs {
		o.Esigs[i] = []vbEntryObs{}
	}
	hashOf := func(p int, e bool) common.Uint256 {
		if p < 1 || p > net.n {
			return vbGarbage
		}
		return net.blockHash(p, variant[p], e)
	}
	if cand != nil {
		for _, p := range cand.Proposals {
			pr := int(p.Block.getProposer())
			o.Props = append(o.Props, pr)
			for v := 0; v < 2; v++ {
				if q, ok := net.props[[2]int{pr, v}]; ok && q.Block.Block.Hash() == p.Block.Block.Hash() {
					variant[pr] = v
				}
			}
		}
		sort.Ints(o.Props)
		for endorser, l := range cand.EndorseSigs {
			if endorser < 1 || int(endorser) > net.n {
				continue
			}
			for _, x := range l {
				h := hashOf(int(x.EndorsedProposer), x.ForEmpty)
				ok := net.validSig(endorser, h, x.Signature)
				o.Esigs[endorser-1] = append(o.Esigs[endorser-1], vbEntryObs{P: int(x.EndorsedProposer), E: x.ForEmpty, Ok: ok})
			}
		}
		for _, m := range cand.CommitMsgs {
			h := hashOf(int(m.BlockProposer), m.CommitForEmpty)
			co := vbCmObs{C: int(m.Committer), P: int(m.BlockProposer), E: m.CommitForEmpty, Es: []vbClaim{}}
			co.Cok = net.validSig(m.Committer, h, m.CommitterSig)
			co.Pok = net.validSig(m.BlockProposer, h, m.ProposerSig)
			for i, sg := range m.EndorsersSig {
				co.Es = append(co.Es, vbClaim{I: int(i), Ok: net.validSig(i, h, sg)})
			}
			sort.Slice(co.Es, func(a, b int) bool { return co.Es[a].I < co.Es[b].I })
			o.Cmsgs = append(o.Cmsgs, co)
		}
	}
	var viaP uint32 = math.MaxUint32
	if cand != nil {
		viaP, _ = getCommitConsensus(cand.CommitMsgs, net.c, net.n)
	}
	pool.lock.RUnlock()
	o.ViaMsgs = viaP != math.MaxUint32
	p, e, done := pool.commitDone(vbHeight, uint32(net.c), uint32(net.n))
	o.CD, o.CDE = done, e
	if done {
		o.CDP = int(p)
	}
	p2, e2, done2 := pool.endorseDone(vbHeight, uint32(net.c))
	o.ED, o.EDE = done2, e2
	if done2 {
		o.EDP = int(p2)
	}
	o.EF = pool.endorseFailed(vbHeight, uint32(net.c))
	if done {
		valid := map[uint32]bool{}
		for _, pr := range o.Props {
			if pr == o.CDP {
				valid[uint32(pr)] = true // proposal in the pool: both block signatures were verified at intake
			}
		}
		for i, l := range o.Esigs {
			for _, x := range l {
				if x.P == o.CDP && x.E == o.CDE && x.Ok {
					valid[uint32(i+1)] = true
				}
			}
		}
		for _, m := range o.Cmsgs {
			if m.P != o.CDP || m.E != o.CDE {
				continue
			}
			if m.Cok {
				valid[uint32(m.C)] = true
			}
			if m.Pok {
				valid[uint32(m.P)] = true
			}
			for _, cl := range m.Es {
				if cl.Ok {
					valid[uint32(cl.I)] = true
				}
			}
		}
		for _, v := range vbSortedU32(valid) {
			o.Valid = append(o.Valid, int(v))
		}
	}
	return o
}

// feed one message into the pool of s the way Server.run + processMsgEvent do for the current height:
// signature check against the sender's key, then newBlockProposal / newBlockEndorsement / newBlockCommitment.
func (net *vbNet) feedPool(s *Server, f *vbFeed, byz int) string {
	switch f.Name {
	case "FeedProposal":
		m, _ := vbWire(net.proposal(f.P, f.V))
		if _, ok := vbIntakeVerify(s, uint32(f.P), m); !ok {
			return "dropped"
		}
		if err := s.blockPool.newBlockProposal(m.(*blockProposalMsg)); err != nil {
			return "err:" + err.Error()
		}
	case "FeedEndorse":
		em, sender := net.mkEndorse(f, byz)
		m, _ := vbWire(em)
		if _, ok := vbIntakeVerify(s, sender, m); !ok {
			return "dropped"
		}
		s.blockPool.newBlockEndorsement(m.(*blockEndorseMsg))
	case "FeedCommit":
		cm, sender := net.mkCommit(f, byz)
		m, _ := vbWire(cm)
		if _, ok := vbIntakeVerify(s, sender, m); !ok {
			return "dropped"
		}
		if err := s.blockPool.newBlockCommitment(m.(*blockCommitMsg)); err != nil {
			return "err:" + err.Error()
		}
	default:
		panic("unknown feed " + f.Name)
	}
	return "ok"
}

func TestVerifVBPoolReplay(t *testing.T) {
	var in vbC31In
	vhIn(&in)
	out := vhOpenOut()
	defer out.Close()
	// the identity participant order is only needed where the C34 model states the roles as constants (N = 4, 7);
	// the pool-level model takes the roles of every configuration from this harness
	net := vbNewNet(in.N, in.C, in.N == 4 || in.N == 7)
	s := net.vbServer(uint32(in.Self))
	first := net.observePool(s)
	first.Path, first.Step = -1, 0
	first.Roles = [][]uint32{net.part.Proposers, net.part.Endorsers, net.part.Committers}
	out.Emit(first)
	for pi, path := range in.Paths {
		s.blockPool.clean()
		s.msgPool.clean()
		for si := range path {
			res := net.feedPool(s, &path[si], in.Byz)
			o := net.observePool(s)
			o.Path, o.Step, o.Intake = pi, si+1, res
			out.Emit(o)
		}
	}
}
