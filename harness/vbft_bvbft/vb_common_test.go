package vbft

// Shared skeleton of the b-vbft harnesses (C28, C31, C34): a VBFT "network" of N peers with real keys,
// a real ChainConfig / participant configuration, and per-node *Server skeletons (no goroutines, no ledger,
// no p2p) whose BlockPool / MsgPool / PeerPool / EventTimer are the real ones.

import (
	"encoding/json"
	"fmt"
	"math"
	"os"
	"path/filepath"
	"sort"
	"sync"
	"time"

	"github.com/ontio/ontology-crypto/keypair"
	csig "github.com/ontio/ontology-crypto/signature"
	"github.com/ontio/ontology/account"
	"github.com/ontio/ontology/common"
	"github.com/ontio/ontology/common/log"
	vconfig "github.com/ontio/ontology/consensus/vbft/config"
	"github.com/ontio/ontology/core/ledger"
	"github.com/ontio/ontology/core/signature"
	"github.com/ontio/ontology/core/store/ledgerstore"
	"github.com/ontio/ontology/core/store"
	"github.com/ontio/ontology/core/store/overlaydb"
	"github.com/ontio/ontology/core/types"
)

const vbHeight = uint32(1)

type vbNet struct {
	n, c    int
	accts   []*account.Account // 1..n (0 unused)
	cfg     *vconfig.ChainConfig
	genesis *Block
	part    *BlockParticipantConfig
	// proposal cache: (proposer, variant) -> proposal
	props map[[2]int]*blockProposalMsg
	// signature cache
	sigs map[string][]byte
	ver  map[string]bool
	// an EMPTY real ledger store (no genesis): only so that look-ups of blocks that do not exist return "not found"
	// instead of dereferencing a nil ledger (C34 replays)
	db *ledger.Ledger
}

func (net *vbNet) withEmptyLedger() {
	dir := filepath.Join(os.Getenv("VERIF_SCRATCH"), fmt.Sprintf("vbledger-%d", os.Getpid()))
	os.RemoveAll(dir)
	st, err := ledgerstore.NewLedgerStore(dir, 0)
	vhMust(err)
	net.db = &ledger.Ledger{LedgerStore: st}
}

var vbOnce sync.Once

func vbInit() {
	vbOnce.Do(func() {
		log.InitLog(log.FatalLog, log.Stdout)
		// timers never fire on their own: the harness is the clock
		makeProposalTimeout = int64(24 * time.Hour)
		make2ndProposalTimeout = int64(24 * time.Hour)
		endorseBlockTimeout = int64(24 * time.Hour)
		commitBlockTimeout = int64(24 * time.Hour)
		peerHandshakeTimeout = int64(24 * time.Hour)
		txPooltimeout = int64(24 * time.Hour)
		zeroTxBlockTimeout = int64(24 * time.Hour)
	})
}

// vbNewNet builds N peers (indices 1..N) whose VRF-selected participant order for block 1 is 1,2,..,N
// (the genesis VRF value is searched so that the REAL calcParticipantPeers yields that order, which makes
// the role sequences a fixed function of (N,C) that the specification can state as constants).
func vbNewNet(n, c int, identityOrder bool) *vbNet {
	accts := make([]*account.Account, n+1)
	for i := 1; i <= n; i++ {
		accts[i] = account.NewAccount("")
	}
	return vbNewNetAccts(accts, n, c, identityOrder)
}

func vbNewNetAccts(accts []*account.Account, n, c int, identityOrder bool) *vbNet {
	vbInit()
	net := &vbNet{n: n, c: c, props: map[[2]int]*blockProposalMsg{}, sigs: map[string][]byte{}, ver: map[string]bool{}}
	net.accts = accts
	peers := make([]*vconfig.PeerConfig, 0, n)
	pos := make([]uint32, 0, 2*n)
	for i := 1; i <= n; i++ {
		peers = append(peers, &vconfig.PeerConfig{Index: uint32(i), ID: vconfig.PubkeyID(net.accts[i].PublicKey)})
	}
	for r := 0; r < 2; r++ {
		for i := 1; i <= n; i++ {
			pos = append(pos, uint32(i))
		}
	}
	net.cfg = &vconfig.ChainConfig{Version: 1, View: 1, N: uint32(n), C: uint32(c), BlockMsgDelay: 10 * time.Second,
		HashMsgDelay: 10 * time.Second, PeerHandshakeTimeout: 10 * time.Second, Peers: peers, PosTable: pos, MaxBlockChangeView: 1000000}
	for try := 0; ; try++ {
		info := &vconfig.VbftBlockInfo{Proposer: math.MaxUint32, VrfValue: []byte(fmt.Sprintf("vrf-%d", try)), VrfProof: []byte("p"),
			LastConfigBlockNum: math.MaxUint32}
		payload, err := json.Marshal(info)
		vhMust(err)
		hdr := &types.Header{Height: 0, Timestamp: uint32(time.Now().Unix()) - 1000, ConsensusPayload: payload}
		g := &Block{Block: &types.Block{Header: hdr}, Info: info}
		bp := &BlockParticipantConfig{BlockNum: vbHeight, Vrf: getParticipantSelectionSeed(g), ChainConfig: net.cfg}
		bp.Proposers, bp.Endorsers, bp.Committers = calcParticipantPeers(bp, net.cfg)
		ok := true
		if identityOrder {
			for i := 0; i <= c && ok; i++ {
				ok = bp.Proposers[i] == uint32(i+1)
			}
			// the full VRF order is visible in proposers ++ endorsers0 ++ committers0; check through the role shapes
			exp := vbExpectedRoles(n, c)
			ok = ok && fmt.Sprint(bp.Proposers) == fmt.Sprint(exp[0]) && fmt.Sprint(bp.Endorsers) == fmt.Sprint(exp[1]) && fmt.Sprint(bp.Committers) == fmt.Sprint(exp[2])
		}
		if ok {
			net.genesis = g
			net.part = bp
			break
		}
		if try > 5000000 {
			panic("no VRF value gives the identity participant order")
		}
	}
	return net
}

// vbExpectedRoles: calcParticipantPeers' layout applied to the VRF order 1..min(N, ...) -- used ONLY to select the
// genesis VRF value; the roles installed in the servers are always the output of the real function.
func vbExpectedRoles(n, c int) [3][]uint32 {
	m := n
	if lim := (c + 1) + ((2*c + 1) * 2) + 1; m > lim {
		m = lim
	}
	peers := make([]uint32, m)
	for i := range peers {
		peers[i] = uint32(i + 1)
	}
	nC := 2*c + 1
	prop := peers[0 : c+1]
	n1 := (len(peers) - len(prop)) / 2
	e0 := peers[c+1 : c+1+n1]
	com := append([]uint32{}, peers[c+1+n1:]...)
	end := append([]uint32{}, e0...)
	if len(end) < nC {
		end = append(end, prop[c])
		for i := len(com) - 1; i >= 0 && len(end) < nC; i-- {
			end = append(end, com[i])
		}
		for i := c - 1; i > 0 && len(end) < nC; i-- {
			end = append(end, prop[i])
		}
	}
	if len(com) < nC {
		for i := 1; i < len(prop) && len(com) < nC; i++ {
			com = append(com, prop[i])
		}
		for i := len(e0) - 1; i >= 0 && len(com) < nC; i-- {
			com = append(com, e0[i])
		}
	}
	return [3][]uint32{prop, end, com}
}

// vbServer builds the Server skeleton of peer idx at height 1 in state Synced.
func (net *vbNet) vbServer(idx uint32) *Server {
	s := &Server{Index: idx, msgHistoryDuration: 64, LastConfigBlockNum: math.MaxUint32}
	if idx >= 1 && int(idx) <= net.n {
		s.account = net.accts[idx]
	}
	s.stateMgr = newStateMgr(s)
	s.stateMgr.StateEventC = make(chan *StateEvent, 4096)
	s.stateMgr.setState(Synced)
	cfg := *net.cfg
	s.config = &cfg
	s.chainStore = &ChainStore{chainedBlockNum: 0, pendingBlocks: map[uint32]*PendingBlock{
		0: {block: net.genesis, execResult: &store.ExecuteResult{WriteSet: overlaydb.NewMemDB(1, 1)}, hasSubmitted: true}}}
	if net.db != nil {
		s.chainStore.db = net.db
	}
	var err error
	s.blockPool, err = newBlockPool(s, 64, s.chainStore)
	vhMust(err)
	s.msgPool = newMsgPool(s, 64)
	s.peerPool = NewPeerPool(0, s)
	for _, p := range net.cfg.Peers {
		vhMust(s.peerPool.addPeer(p))
		s.peerPool.peerConnected(p.Index)
	}
	s.timer = NewEventTimer(s)
	s.timer.C = make(chan *TimerEvent, 4096)
	s.syncer = newSyncer(s)
	s.msgRecvC = new(sync.Map)
	s.msgC = make(chan ConsensusMsg, 4096)
	s.bftActionC = make(chan *BftAction, 4096)
	s.msgSendC = make(chan *SendMsgEvent, 4096)
	s.quitC = make(chan struct{})
	s.currentBlockNum = vbHeight
	s.completedBlockNum = 0
	pc := *net.part
	s.currentParticipantConfig = &pc
	return s
}

func (net *vbNet) sign(who int, h common.Uint256) []byte {
	k := fmt.Sprintf("%d:%x", who, h[:])
	if s, ok := net.sigs[k]; ok {
		return s
	}
	s, err := signature.Sign(net.accts[who], h[:])
	vhMust(err)
	net.sigs[k] = s
	return s
}

// validSig: does sig verify under peer who's key for hash h (cached, real crypto)
func (net *vbNet) validSig(who uint32, h common.Uint256, sig []byte) bool {
	if who < 1 || int(who) > net.n || len(sig) == 0 {
		return false
	}
	k := fmt.Sprintf("%d:%x:%x", who, h[:], sig)
	if v, ok := net.ver[k]; ok {
		return v
	}
	v := false
	if so, err := csig.Deserialize(sig); err == nil {
		v = csig.Verify(net.accts[who].PublicKey, h[:], so)
	}
	net.ver[k] = v
	return v
}

// proposal builds (once) the proposal of `proposer`, variant v (v > 0 only for equivocating proposers), the way
// constructProposalMsg does, except that no ledger exists (BlockRoot zero, no transactions); it then goes through
// the wire format so that the receiver-side fields (BlockProposerSig, EmptyBlockProposerSig) are set as on a real node.
func (net *vbNet) proposal(proposer, variant int) *blockProposalMsg {
	key := [2]int{proposer, variant}
	if p, ok := net.props[key]; ok {
		return p
	}
	acc := net.accts[proposer]
	vrfValue, vrfProof, err := computeVrf(acc.PrivateKey, vbHeight, net.genesis.getVrfValue())
	vhMust(err)
	info := &vconfig.VbftBlockInfo{Proposer: uint32(proposer), VrfValue: vrfValue, VrfProof: vrfProof, LastConfigBlockNum: math.MaxUint32}
	payload, err := json.Marshal(info)
	vhMust(err)
	prevHash := net.genesis.Block.Hash()
	mk := func(nonce uint64) *types.Block {
		hdr := &types.Header{PrevBlockHash: prevHash, TransactionsRoot: common.ComputeMerkleRoot(nil), Timestamp: net.genesis.Block.Header.Timestamp + 1 + uint32(variant),
			Height: vbHeight, ConsensusData: nonce, ConsensusPayload: payload}
		blk := &types.Block{Header: hdr}
		h := blk.Hash()
		sig, err := signature.Sign(acc, h[:])
		vhMust(err)
		hdr.Bookkeepers = []keypair.PublicKey{acc.PublicKey}
		hdr.SigData = [][]byte{sig}
		return blk
	}
	base := uint64(proposer*100 + variant*10)
	local := &blockProposalMsg{Block: &Block{Block: mk(base + 1), EmptyBlock: mk(base + 2), Info: info}}
	data, err := SerializeVbftMsg(local)
	vhMust(err)
	m, err := DeserializeVbftMsg(data)
	vhMust(err)
	p := m.(*blockProposalMsg)
	net.props[key] = p
	return p
}

func (net *vbNet) blockHash(proposer, variant int, empty bool) common.Uint256 {
	p := net.proposal(proposer, variant)
	if empty {
		return p.Block.EmptyBlock.Hash()
	}
	return p.Block.Block.Hash()
}

// wire: serialize + deserialize as the network would
func vbWire(msg ConsensusMsg) (ConsensusMsg, []byte) {
	data, err := SerializeVbftMsg(msg)
	vhMust(err)
	m, err := DeserializeVbftMsg(data)
	vhMust(err)
	return m, data
}

// vbIntake transcribes the body of the receive loop in Server.run (service.go): signature check of the message
// against the key of the SENDING peer (for proposals: of the proposer named in the block), then onConsensusMsg.
// Returns false when the message is dropped by the verification.
func vbIntakeVerify(s *Server, fromPeer uint32, msg ConsensusMsg) (uint32, bool) {
	pk := s.peerPool.GetPeerPubKey(fromPeer)
	if pk == nil {
		return fromPeer, false
	}
	if msg.Type() == BlockProposalMessage {
		if proposal := msg.(*blockProposalMsg); proposal != nil {
			fromPeer = proposal.Block.getProposer()
			pk = s.peerPool.GetPeerPubKey(proposal.Block.getProposer())
			if pk == nil {
				return fromPeer, false
			}
		}
	}
	if err := msg.Verify(pk); err != nil {
		return fromPeer, false
	}
	return fromPeer, true
}

func vbSortedU32(m map[uint32]bool) []uint32 {
	out := make([]uint32, 0, len(m))
	for k := range m {
		out = append(out, k)
	}
	sort.Slice(out, func(i, j int) bool { return out[i] < out[j] })
	return out
}
