package vbft

// C34: N real Server skeletons (one per honest peer) driven through the REAL handlers
//   onConsensusMsg -> processProposalMsg -> processMsgEvent,  processTimerEvent,  endorseBlock / commitBlock
// by schedules generated from the TLA+ model (spec/VBFT.tla).  The harness is the network and the clock:
//   * messages broadcast by a node (msgSendC) are collected, serialized and delivered when the schedule says so,
//     through the transcribed receive loop of Server.run (msg.Verify under the sender's key);
//   * timers never fire on their own; a schedule step fires a timer event only if the real EventTimer holds a pending
//     timer of that type (otherwise the step is reported as infeasible);
//   * the action loop is transcribed (EndorseBlock/CommitBlock call the real methods; SealBlock is recorded as the node's
//     seal decision -- executing it needs a ledger -- and the node then leaves the height);
//   * proposals are built by the harness (constructProposalMsg needs a ledger), then follow the real tail of makeProposal.
// Byzantine peers have no Server: their messages are fabricated (own signature valid, everything else arbitrary).

import (
	"fmt"
	"math"
	"math/rand"
	"sort"
	"testing"
	"time"

	"github.com/ontio/ontology/common"
)

type vbMsgDesc struct {
	T  string `json:"t"` // prop | end | com | fetch | other
	P  int    `json:"p"`
	V  int    `json:"v"`
	I  int    `json:"i,omitempty"` // endorser
	Cm int    `json:"c,omitempty"` // committer
	E  bool   `json:"e"`
	Es []int  `json:"es,omitempty"`
}

type vbStep struct {
	K    string    `json:"k"`    // start | deliver | byz | timeout | random
	Seed int64     `json:"seed"` // random: one legal event chosen by the harness (delivery of a message an honest node
	//                              has really sent, or a really pending timer)
	Node int       `json:"node"` // acting / receiving honest node
	Msg  vbMsgDesc `json:"msg"`  // deliver: message previously sent by an honest node (From); byz: fabricated
	From int       `json:"from"` // deliver: sender; byz: the Byzantine sender
	T    string    `json:"timer"`
}

type vbC34In struct {
	N         int        `json:"n"`
	C         int        `json:"c"`
	Byz       []int      `json:"byz"`
	Schedules [][]vbStep `json:"schedules"`
}

type vbNodeObs struct {
	Node          int         `json:"node"`
	Endorsed      int         `json:"endorsed"`
	EndorsedEmpty int         `json:"endorsedEmpty"`
	CommittedP    int         `json:"committedP"`
	CommittedE    bool        `json:"committedE"`
	CDone         bool        `json:"cdone"`
	Sealed        *vbMsgDesc  `json:"sealed"`
	SealPool      *vbPoolObs  `json:"sealPool,omitempty"` // the node's pool (with real signature validity) at the seal decision
	SealValid     []int       `json:"sealValid"` // distinct peers holding a VALID signature over the sealed block in this node's pool at the seal decision
	Resync        bool        `json:"resync"`
	Pending       []string    `json:"pending"`
	Props         [][2]int    `json:"props"`
	Esigs         [][][2]int  `json:"esigs"` // per endorser: list of (proposer, empty?1:0)
	Cmsgs         []vbMsgDesc `json:"cmsgs"`
	MpEnd         []vbMsgDesc `json:"mpEnd"`
	MpProp        [][2]int    `json:"mpProp"`
}

type vbStepObs struct {
	Sched  int         `json:"sched"`
	Step   int         `json:"step"`
	Status string      `json:"status"` // ok | infeasible:<why> | dropped | sealed-node
	Sent   []vbMsgDesc `json:"sent"`
	Obs    *vbNodeObs  `json:"obs"`
	Panic  string      `json:"panic,omitempty"`
	Chosen *vbStep     `json:"chosen,omitempty"` // random steps: the concrete event that was executed
}

type vbSent struct {
	from uint32
	desc vbMsgDesc
	data []byte
}

type vbNode struct {
	idx       int
	s         *Server
	sealValid []int
	sealPool  *vbPoolObs
	sealed    *vbMsgDesc
	resync bool
	fired  map[TimerEventType]*time.Timer
}

type vbWorld struct {
	net   *vbNet
	nodes map[int]*vbNode
	sent  []vbSent
	local map[int]*blockProposalMsg
}

var vbTimerNames = map[string]TimerEventType{"propose": EventProposeBlockTimeout, "backoff2": EventProposalBackoff, "random": EventRandomBackoff,
	"second": EventPropose2ndBlockTimeout, "endorse": EventEndorseBlockTimeout, "endorseEmpty": EventEndorseEmptyBlockTimeout, "commit": EventCommitBlockTimeout}

func (w *vbWorld) describe(msg ConsensusMsg) vbMsgDesc {
	variantOf := func(p int, e bool, h common.Uint256) int {
		for v := 0; v < 2; v++ {
			if _, ok := w.net.props[[2]int{p, v}]; ok && w.net.blockHash(p, v, e) == h {
				return v
			}
		}
		return -1
	}
	switch m := msg.(type) {
	case *blockProposalMsg:
		p := int(m.Block.getProposer())
		return vbMsgDesc{T: "prop", P: p, V: variantOf(p, false, m.Block.Block.Hash())}
	case *blockEndorseMsg:
		p := int(m.EndorsedProposer)
		return vbMsgDesc{T: "end", I: int(m.Endorser), P: p, E: m.EndorseForEmpty, V: variantOf(p, m.EndorseForEmpty, m.EndorsedBlockHash)}
	case *blockCommitMsg:
		p := int(m.BlockProposer)
		d := vbMsgDesc{T: "com", Cm: int(m.Committer), P: p, E: m.CommitForEmpty, V: variantOf(p, m.CommitForEmpty, m.CommitBlockHash), Es: []int{}}
		for e := range m.EndorsersSig {
			d.Es = append(d.Es, int(e))
		}
		sort.Ints(d.Es)
		return d
	case *proposalFetchMsg:
		return vbMsgDesc{T: "fetch", P: int(m.ProposerID)}
	}
	return vbMsgDesc{T: "other"}
}

func sameDesc(a, b vbMsgDesc) bool {
	if a.T != b.T || a.P != b.P || a.V != b.V || a.I != b.I || a.Cm != b.Cm || a.E != b.E || len(a.Es) != len(b.Es) {
		return false
	}
	for i := range a.Es {
		if a.Es[i] != b.Es[i] {
			return false
		}
	}
	return true
}

// harnessMakeProposal: the tail of Server.makeProposal with a harness-built proposal
func (w *vbWorld) harnessMakeProposal(nd *vbNode) {
	s := nd.s
	p := w.local[nd.idx]
	if p == nil {
		wire := w.net.proposal(nd.idx, 0)
		// locally constructed proposals do not carry the receiver-side signature fields (constructProposalMsg)
		p = &blockProposalMsg{Block: wire.Block}
		w.local[nd.idx] = p
	}
	h, _ := HashMsg(p)
	s.msgPool.AddMsg(p, h)
	s.processProposalMsg(p)
	s.broadcast(p)
}

// transcription of the cases of Server.actionLoop that one height needs
func (w *vbWorld) dispatch(nd *vbNode, a *BftAction) {
	s := nd.s
	switch a.Type {
	case MakeProposal:
		if s.GetCurrentBlockNo() > a.BlockNum {
			return
		}
		for _, m := range s.msgPool.GetProposalMsgs(s.GetCurrentBlockNo()) {
			if p, ok := m.(*blockProposalMsg); ok && p.Block.getProposer() == s.Index {
				return
			}
		}
		w.harnessMakeProposal(nd)
	case EndorseBlock:
		s.endorseBlock(a.Proposal, a.forEmpty)
	case CommitBlock:
		s.commitBlock(a.Proposal, a.forEmpty)
	case SealBlock:
		if a.Proposal.GetBlockNum() < s.GetCurrentBlockNo() {
			return
		}
		if nd.sealed == nil {
			d := w.describe(a.Proposal)
			d.T = "seal"
			d.E = a.forEmpty
			nd.sealed = &d
			nd.sealValid = w.validSignersFor(nd.s, d.P, d.V, d.E)
			nd.sealPool = w.net.observePool(nd.s)
		}
	}
}

// validSignersFor: distinct peers with a valid signature (real keys) over block (p, v, e) among everything the node's
// pool holds for proposer p (proposal, endorsement table, commit messages and the signatures they carry)
func (w *vbWorld) validSignersFor(s *Server, p, v int, e bool) []int {
	net := w.net
	out := []int{}
	if p < 1 || p > net.n || v < 0 {
		return out
	}
	h := net.blockHash(p, v, e)
	valid := map[uint32]bool{}
	pool := s.blockPool
	pool.lock.RLock()
	if c := pool.candidateBlocks[vbHeight]; c != nil {
		for _, pr := range c.Proposals {
			if int(pr.Block.getProposer()) == p && w.describe(pr).V == v {
				valid[uint32(p)] = true
			}
		}
		for endorser, l := range c.EndorseSigs {
			for _, x := range l {
				if int(x.EndorsedProposer) == p && x.ForEmpty == e && net.validSig(endorser, h, x.Signature) {
					valid[endorser] = true
				}
			}
		}
		for _, m := range c.CommitMsgs {
			if int(m.BlockProposer) != p || m.CommitForEmpty != e {
				continue
			}
			if net.validSig(m.Committer, h, m.CommitterSig) {
				valid[m.Committer] = true
			}
			if net.validSig(uint32(p), h, m.ProposerSig) {
				valid[uint32(p)] = true
			}
			for i, sg := range m.EndorsersSig {
				if net.validSig(i, h, sg) {
					valid[i] = true
				}
			}
		}
	}
	pool.lock.RUnlock()
	for _, x := range vbSortedU32(valid) {
		out = append(out, int(x))
	}
	return out
}

func (w *vbWorld) pump(nd *vbNode) []vbMsgDesc {
	s := nd.s
	out := []vbMsgDesc{}
	// strict priority, one item at a time: queued consensus messages, then BFT actions, then self-sent timer events
	// (one of the interleavings the three goroutines of the real node can produce; the specification uses the same one)
	for round := 0; round < 10000; round++ {
		progressed := true
		switch {
		case len(s.msgC) > 0:
			if nd.sealed == nil {
				s.processMsgEvent()
			} else {
				<-s.msgC
			}
		case len(s.bftActionC) > 0:
			a := <-s.bftActionC
			if nd.sealed == nil {
				w.dispatch(nd, a)
			}
		case len(s.timer.C) > 0:
			evt := <-s.timer.C
			if nd.sealed == nil {
				w.timerEvent(nd, evt)
			}
		default:
			progressed = false
		}
		for len(s.msgSendC) > 0 {
			evt := <-s.msgSendC
			data, err := SerializeVbftMsg(evt.Msg)
			vhMust(err)
			d := w.describe(evt.Msg)
			w.sent = append(w.sent, vbSent{from: s.Index, desc: d, data: data})
			out = append(out, d)
		}
		for len(s.stateMgr.StateEventC) > 0 {
			e := <-s.stateMgr.StateEventC
			if e.Type == ForceCheckSync {
				nd.resync = true
			}
		}
		for len(s.syncer.syncCheckReqC) > 0 {
			<-s.syncer.syncCheckReqC
		}
		if !progressed {
			break
		}
	}
	return out
}

// timerEvent: processTimerEvent, except for the one case that calls makeProposal (which needs a ledger): transcribed
func (w *vbWorld) timerEvent(nd *vbNode, evt *TimerEvent) {
	s := nd.s
	if evt.evtType == EventProposalBackoff {
		if s.blockPool.endorsedForBlock(evt.blockNum) || !isReady(s.getState()) {
			return
		}
		if len(s.blockPool.getBlockProposals(evt.blockNum)) == 0 && s.is2ndProposer(evt.blockNum, s.Index) {
			w.harnessMakeProposal(nd)
		}
		return
	}
	s.processTimerEvent(evt)
}

func (w *vbWorld) pendingTimers(nd *vbNode) []string {
	out := []string{}
	nd.s.timer.lock.Lock()
	for name, t := range vbTimerNames {
		if tm, ok := nd.s.timer.eventTimers[t][vbHeight]; ok && nd.fired[t] != tm {
			out = append(out, name)
		}
	}
	nd.s.timer.lock.Unlock()
	sort.Strings(out)
	return out
}

func (w *vbWorld) observe(nd *vbNode) *vbNodeObs {
	s := nd.s
	o := &vbNodeObs{Node: nd.idx, Sealed: nd.sealed, SealValid: nd.sealValid, SealPool: nd.sealPool, Resync: nd.resync, Pending: w.pendingTimers(nd), Props: [][2]int{}, Cmsgs: []vbMsgDesc{},
		MpEnd: []vbMsgDesc{}, MpProp: [][2]int{}}
	pool := s.blockPool
	pool.lock.RLock()
	c := pool.candidateBlocks[vbHeight]
	o.Esigs = make([][][2]int, w.net.n)
	for i := range o.Esigs {
		o.Esigs[i] = [][2]int{}
	}
	if c != nil {
		if c.EndorsedProposal != nil {
			o.Endorsed = int(c.EndorsedProposal.Block.getProposer())
		}
		if c.EndorsedEmptyProposal != nil {
			o.EndorsedEmpty = int(c.EndorsedEmptyProposal.Block.getProposer())
		}
		if c.CommittedProposal != nil {
			o.CommittedP = int(c.CommittedProposal.Block.getProposer())
		}
		if c.CommittedEmptyProposal != nil {
			o.CommittedP, o.CommittedE = int(c.CommittedEmptyProposal.Block.getProposer()), true
		}
		o.CDone = c.commitDone
		for _, p := range c.Proposals {
			d := w.describe(p)
			o.Props = append(o.Props, [2]int{d.P, d.V})
		}
		for e, l := range c.EndorseSigs {
			if e >= 1 && int(e) <= w.net.n {
				for _, x := range l {
					em := 0
					if x.ForEmpty {
						em = 1
					}
					o.Esigs[e-1] = append(o.Esigs[e-1], [2]int{int(x.EndorsedProposer), em})
				}
			}
		}
		for _, m := range c.CommitMsgs {
			o.Cmsgs = append(o.Cmsgs, w.describe(m))
		}
	}
	pool.lock.RUnlock()
	for _, m := range s.msgPool.GetEndorsementsMsgs(vbHeight) {
		o.MpEnd = append(o.MpEnd, w.describe(m))
	}
	for _, m := range s.msgPool.GetProposalMsgs(vbHeight) {
		d := w.describe(m)
		o.MpProp = append(o.MpProp, [2]int{d.P, d.V})
	}
	sort.Slice(o.MpEnd, func(a, b int) bool { return fmt.Sprint(o.MpEnd[a]) < fmt.Sprint(o.MpEnd[b]) })
	sort.Slice(o.MpProp, func(a, b int) bool { return fmt.Sprint(o.MpProp[a]) < fmt.Sprint(o.MpProp[b]) })
	sort.Slice(o.Props, func(a, b int) bool { return fmt.Sprint(o.Props[a]) < fmt.Sprint(o.Props[b]) })
	return o
}

// fabricate a Byzantine message: the sender's own signature is valid (it must pass Server.run's check), every other
// field is free
func (w *vbWorld) fabricate(b int, d vbMsgDesc) ConsensusMsg {
	net := w.net
	switch d.T {
	case "prop":
		return net.proposal(d.P, d.V)
	case "end":
		h := net.blockHash(d.P, d.V, d.E)
		return &blockEndorseMsg{Endorser: uint32(d.I), EndorsedProposer: uint32(d.P), BlockNum: vbHeight, EndorsedBlockHash: h, EndorseForEmpty: d.E,
			EndorserSig: net.sign(b, h)}
	case "com":
		h := net.blockHash(d.P, d.V, d.E)
		m := &blockCommitMsg{Committer: uint32(d.Cm), BlockProposer: uint32(d.P), BlockNum: vbHeight, CommitBlockHash: h, CommitForEmpty: d.E,
			EndorsersSig: map[uint32][]byte{}, CommitterSig: net.sign(b, h)}
		for _, e := range d.Es {
			m.EndorsersSig[uint32(e)] = net.sign(b, h)
		}
		return m
	}
	panic("cannot fabricate " + d.T)
}

func (w *vbWorld) intake(nd *vbNode, from uint32, data []byte) string {
	msg, err := DeserializeVbftMsg(data)
	if err != nil {
		return "dropped"
	}
	fromPeer, ok := vbIntakeVerify(nd.s, from, msg)
	if !ok {
		return "dropped"
	}
	nd.s.onConsensusMsg(fromPeer, msg, hashData(data))
	return "ok"
}

func TestVerifVBNetReplay(t *testing.T) {
	var in vbC34In
	vhIn(&in)
	out := vhOpenOut()
	defer out.Close()
	net := vbNewNet(in.N, in.C, true)
	net.withEmptyLedger()
	isByz := map[int]bool{}
	for _, b := range in.Byz {
		isByz[b] = true
	}
	for si, sched := range in.Schedules {
		w := &vbWorld{net: net, nodes: map[int]*vbNode{}, local: map[int]*blockProposalMsg{}}
		for i := 1; i <= in.N; i++ {
			if !isByz[i] {
				w.nodes[i] = &vbNode{idx: i, s: net.vbServer(uint32(i)), fired: map[TimerEventType]*time.Timer{}}
			}
		}
		for k := range sched {
			st := &sched[k]
			so := vbStepObs{Sched: si, Step: k + 1, Status: "ok", Sent: []vbMsgDesc{}}
			nd := w.nodes[st.Node]
			func() {
				defer func() {
					if r := recover(); r != nil {
						so.Panic = fmt.Sprint(r)
						so.Status = "panic"
					}
				}()
				if nd == nil && st.K != "random" {
					so.Status = "infeasible:no-such-honest-node"
					return
				}
				if nd != nil && nd.sealed != nil {
					so.Status = "sealed-node"
					so.Obs = w.observe(nd)
					return
				}
				switch st.K {
				case "start":
					// what EventTxBlockTimeout does at the beginning of a round
					nd.s.startNewProposal(vbHeight)
				case "deliver":
					var found *vbSent
					for j := range w.sent {
						if int(w.sent[j].from) == st.From && sameDesc(w.sent[j].desc, st.Msg) {
							found = &w.sent[j]
							break
						}
					}
					if found == nil {
						so.Status = "infeasible:message-never-sent"
						so.Obs = w.observe(nd)
						return
					}
					so.Status = w.intake(nd, found.from, found.data)
				case "byz":
					data, err := SerializeVbftMsg(w.fabricate(st.From, st.Msg))
					vhMust(err)
					so.Status = w.intake(nd, uint32(st.From), data)
				case "random":
					// a legal event drawn at random on the REAL state: used for random tails after model-generated prefixes
					rng := rand.New(rand.NewSource(st.Seed))
					type ev struct {
						nd   *vbNode
						sent *vbSent
						tt   TimerEventType
						name string
					}
					var evs []ev
					for idx := 1; idx <= in.N; idx++ {
						n2 := w.nodes[idx]
						if n2 == nil || n2.sealed != nil || n2.resync {
							continue
						}
						for j := range w.sent {
							if int(w.sent[j].from) != idx && w.sent[j].desc.T != "fetch" && w.sent[j].desc.T != "other" {
								evs = append(evs, ev{nd: n2, sent: &w.sent[j]})
							}
						}
						for _, name := range []string{"propose", "backoff2", "endorse", "commit"} {
							tt := vbTimerNames[name]
							n2.s.timer.lock.Lock()
							tm, present := n2.s.timer.eventTimers[tt][vbHeight]
							n2.s.timer.lock.Unlock()
							if present && n2.fired[tt] != tm {
								// timers weigh as much as three deliveries
								evs = append(evs, ev{nd: n2, tt: tt, name: name}, ev{nd: n2, tt: tt, name: name}, ev{nd: n2, tt: tt, name: name})
							}
						}
					}
					if len(evs) == 0 {
						so.Status = "infeasible:nothing-enabled"
						return
					}
					e := evs[rng.Intn(len(evs))]
					nd = e.nd
					if e.sent != nil {
						st.K, st.Node, st.From, st.Msg = "deliver", nd.idx, int(e.sent.from), e.sent.desc
						so.Status = w.intake(nd, e.sent.from, e.sent.data)
					} else {
						st.K, st.Node, st.T = "timeout", nd.idx, e.name
						nd.s.timer.lock.Lock()
						nd.fired[e.tt] = nd.s.timer.eventTimers[e.tt][vbHeight]
						nd.s.timer.lock.Unlock()
						w.timerEvent(nd, &TimerEvent{evtType: e.tt, blockNum: vbHeight})
					}
					so.Chosen = st
				case "timeout":
					tt, ok := vbTimerNames[st.T]
					if !ok {
						panic("unknown timer " + st.T)
					}
					nd.s.timer.lock.Lock()
					tm, present := nd.s.timer.eventTimers[tt][vbHeight]
					nd.s.timer.lock.Unlock()
					if !present || nd.fired[tt] == tm {
						so.Status = "infeasible:timer-not-pending"
						so.Obs = w.observe(nd)
						return
					}
					nd.fired[tt] = tm
					w.timerEvent(nd, &TimerEvent{evtType: tt, blockNum: vbHeight})
				default:
					panic("unknown step " + st.K)
				}
				so.Sent = w.pump(nd)
				so.Obs = w.observe(nd)
			}()
			out.Emit(so)
		}
	}
	_ = math.MaxUint32
}
