package test

// C12 directed scenario: Ontology.Contract.Create for an address whose contract was DESTROYED pushes a nil
// *payload.DeployCode (inside a non-nil interface) as interop value; Ontology.Contract.GetScript /
// System.Contract.GetStorageContext type-assert it successfully and dereference nil.  Runs on one shared state
// through the real NeoVM engine, as a CHILD process (a panic here has no recover on the block-execution path).

import (
	"encoding/hex"
	"fmt"
	"os"
	"testing"

	"github.com/ontio/ontology/common"
	"github.com/ontio/ontology/common/config"
	"github.com/ontio/ontology/common/log"
	"github.com/ontio/ontology/core/payload"
	"github.com/ontio/ontology/core/store/leveldbstore"
	"github.com/ontio/ontology/core/store/overlaydb"
	"github.com/ontio/ontology/core/types"
	"github.com/ontio/ontology/smartcontract"
	"github.com/ontio/ontology/smartcontract/service/neovm"
	"github.com/ontio/ontology/smartcontract/storage"
)

func cdSyscall(name string) []byte {
	return append([]byte{0x68, byte(len(name))}, []byte(name)...)
}

func TestVerifContractDestroyed(t *testing.T) {
	log.InitLog(log.FatalLog, log.Stdout)
	config.DefConfig.P2PNode.NetworkId = config.NETWORK_ID_SOLO_NET
	gasTable := make(map[string]uint64)
	neovm.GAS_TABLE.Range(func(k, v interface{}) bool {
		gasTable[k.(string)] = v.(uint64)
		return true
	})
	f, err := os.OpenFile(os.Getenv("VERIF_OUT"), os.O_CREATE|os.O_WRONLY|os.O_APPEND, 0644)
	vhMust(err)
	defer f.Close()
	store := leveldbstore.NewMemLevelDBStore()
	defer store.Close()
	overlay := overlaydb.NewOverlayDB(store)
	cache := storage.NewCacheDB(overlay)
	invoke := func(code []byte) string {
		mtx := &types.MutableTransaction{TxType: types.InvokeNeo, Nonce: 1, GasLimit: 20000, Payload: &payload.InvokeCode{Code: code}}
		tx, err := mtx.IntoImmutable()
		vhMust(err)
		sc := smartcontract.SmartContract{
			Config:   &smartcontract.Config{Time: 10, Height: 10, Tx: tx},
			CacheDB:  cache,
			GasTable: gasTable,
			Gas:      100000000,
		}
		engine, err := sc.NewExecuteEngine(code, types.InvokeNeo)
		if err != nil {
			return "engine: " + err.Error()
		}
		_, err = engine.Invoke()
		if err != nil {
			cache.Reset()
			return "err: " + err.Error()
		}
		cache.Commit()
		return "ok"
	}
	// the contract: its only action is to destroy itself
	body := cdSyscall("System.Contract.Destroy")
	addr := common.AddressFromVmCode(body)
	// desc email author version name vmType code  (code on top), then Ontology.Contract.Create
	params := []byte{}
	for _, s := range []string{"d", "e", "a", "1", "n"} {
		params = append(params, oiPushBytes([]byte(s))...)
	}
	params = append(params, 0x51) // vmType = NEOVM_TYPE (1)
	params = append(params, oiPushBytes(body)...)
	create := append(append([]byte{}, params...), cdSyscall("Ontology.Contract.Create")...)
	steps := []struct {
		name string
		code []byte
	}{
		{"deploy", create},
		{"invoke-destroy", append([]byte{0x67}, addr[:]...)}, // APPCALL addr -> System.Contract.Destroy in the contract's context
	}
	// one consumer per child process (the first one may kill it)
	if os.Getenv("VERIF_VARIANT") == "script" {
		steps = append(steps, struct {
			name string
			code []byte
		}{"create-again+GetScript", append(append([]byte{}, create...), cdSyscall("Ontology.Contract.GetScript")...)})
	} else {
		steps = append(steps, struct {
			name string
			code []byte
		}{"create-again+GetStorageContext", append(append([]byte{}, create...), cdSyscall("System.Contract.GetStorageContext")...)})
	}
	for i, s := range steps {
		fmt.Fprintf(f, "{\"start\":%d,\"op\":\"run\"}\n", i)
		r := invoke(s.code)
		if len(r) > 300 {
			r = r[:300]
		}
		fmt.Fprintf(f, "{\"id\":%d,\"op\":\"run\",\"out\":\"ok\",\"step\":%q,\"res\":%q,\"hex\":%q}\n", i, s.name, r, hex.EncodeToString(s.code))
	}
	fmt.Fprintf(f, "{\"done\":true}\n")
}
