package test

// C12 / C15 harness (spec/NeoVM.tla): NeoVM programs generated from the model's heaps are executed through the real
// SmartContract.NewExecuteEngine(...).Invoke() (transaction mode and pre-execution mode) in fresh engines.
// The test runs as a CHILD process: a program on which the node code dies or hangs kills only this process; the
// parent reads the flushed results and treats the death as the observed outcome of the open item.

import (
	"encoding/hex"
	"encoding/json"
	"fmt"
	"math"
	"os"
	"sort"
	"strings"
	"testing"

	"github.com/ontio/ontology/common/config"
	"github.com/ontio/ontology/common/log"
	"github.com/ontio/ontology/core/payload"
	"github.com/ontio/ontology/core/store/leveldbstore"
	"github.com/ontio/ontology/core/store/overlaydb"
	"github.com/ontio/ontology/core/types"
	"github.com/ontio/ontology/smartcontract"
	_ "github.com/ontio/ontology/smartcontract/service/native/init"
	"github.com/ontio/ontology/smartcontract/service/neovm"
	"github.com/ontio/ontology/smartcontract/storage"
	vmtypes "github.com/ontio/ontology/vm/neovm/types"
)

type pgItem struct {
	Id      int    `json:"id"`
	Hex     string `json:"hex"`
	PreExec bool   `json:"preexec"`
	Gas     uint64 `json:"gas"`
	Reps    int    `json:"reps"`
}

type pgObs struct {
	Ok     bool   `json:"ok"`
	Err    string `json:"err,omitempty"`
	Result string `json:"result"`
	Notify string `json:"notify"`
	Writes string `json:"writes"`
	Gas    uint64 `json:"gas"`
}

type pgRes struct {
	Id     int      `json:"id"`
	Op     string   `json:"op"`
	Out    string   `json:"out"`
	Runs   int      `json:"runs"`
	Obs    []pgObs  `json:"obs"`    // distinct observations (error text and gas included)
	Counts []int    `json:"counts"` // how often each was seen
	Keys   []string `json:"keys"`   // distinct PROPERTY-LEVEL observations: ok | result | notifications | write set
}

// pgDump: safe canonical text of a VM value (cycle and depth aware; public API only).
func pgDump(v *vmtypes.VmValue, depth int, sb *strings.Builder) {
	if depth > 12 || sb.Len() > 4096 {
		sb.WriteString("...")
		return
	}
	switch v.GetType() {
	case vmtypes.ArrayType:
		a, _ := v.AsArrayValue()
		sb.WriteString("a[")
		for i := range a.Data {
			pgDump(&a.Data[i], depth+1, sb)
			sb.WriteString(",")
		}
		sb.WriteString("]")
	case vmtypes.StructType:
		s, _ := v.AsStructValue()
		sb.WriteString("s[")
		for i := range s.Data {
			pgDump(&s.Data[i], depth+1, sb)
			sb.WriteString(",")
		}
		sb.WriteString("]")
	case vmtypes.MapType:
		m, _ := v.AsMapValue()
		keys := make([]string, 0, len(m.Data))
		for k := range m.Data {
			keys = append(keys, k)
		}
		sort.Strings(keys)
		sb.WriteString("m[")
		for _, k := range keys {
			kv := m.Data[k]
			pgDump(&kv[0], depth+1, sb)
			sb.WriteString(":")
			pgDump(&kv[1], depth+1, sb)
			sb.WriteString(",")
		}
		sb.WriteString("]")
	case vmtypes.InterfaceType:
		sb.WriteString("interop")
	default:
		b, err := v.AsBytes()
		if err != nil {
			sb.WriteString("?")
			return
		}
		fmt.Fprintf(sb, "%d:%s", v.GetType(), hex.EncodeToString(b))
	}
}

var pgGasTable map[string]uint64

// pgRunOnce: fresh overlay, cache and engine per run; the (empty) backing store is never written
// (only cache -> overlay is committed), so it can be shared by the runs of one item.
func pgRunOnce(store *leveldbstore.LevelDBStore, code []byte, preExec bool, gas uint64) pgObs {
	overlay := overlaydb.NewOverlayDB(store)
	cache := storage.NewCacheDB(overlay)
	// a properly constructed (deserialized) invoke transaction carrying the program, as on the node
	mtx := &types.MutableTransaction{TxType: types.InvokeNeo, Nonce: 1, GasPrice: 0, GasLimit: 20000,
		Payload: &payload.InvokeCode{Code: code}}
	tx, terr := mtx.IntoImmutable()
	if terr != nil {
		return pgObs{Err: "tx: " + terr.Error()}
	}
	sc := smartcontract.SmartContract{
		Config:   &smartcontract.Config{Time: 10, Height: 10, Tx: tx},
		CacheDB:  cache,
		GasTable: pgGasTable,
		Gas:      gas,
		PreExec:  preExec,
	}
	var obs pgObs
	engine, err := sc.NewExecuteEngine(code, types.InvokeNeo)
	if err != nil {
		obs.Err = "engine: " + err.Error()
		return obs
	}
	res, err := engine.Invoke()
	obs.Gas = sc.Gas
	if err != nil {
		obs.Err = err.Error()
		if len(obs.Err) > 200 {
			obs.Err = obs.Err[:200]
		}
	} else {
		obs.Ok = true
		if res != nil {
			var sb strings.Builder
			pgDump(res.(*vmtypes.VmValue), 0, &sb)
			obs.Result = sb.String()
		}
	}
	nb, _ := json.Marshal(sc.Notifications)
	obs.Notify = string(nb)
	if obs.Ok {
		cache.Commit()
		var ws []string
		overlay.GetWriteSet().ForEach(func(k, v []byte) {
			ws = append(ws, hex.EncodeToString(k)+"="+hex.EncodeToString(v))
		})
		sort.Strings(ws)
		obs.Writes = strings.Join(ws, ";")
	}
	return obs
}

func TestVerifPrograms(t *testing.T) {
	log.InitLog(log.FatalLog, log.Stdout)
	// solo network: HASKEY/KEYS/VALUES/DCALL are enabled from height 0 (the other networks enable them at a later height)
	config.DefConfig.P2PNode.NetworkId = config.NETWORK_ID_SOLO_NET
	pgGasTable = make(map[string]uint64)
	neovm.GAS_TABLE.Range(func(k, v interface{}) bool {
		pgGasTable[k.(string)] = v.(uint64)
		return true
	})
	var in struct {
		Items []pgItem `json:"items"`
	}
	vhIn(&in)
	f, err := os.OpenFile(os.Getenv("VERIF_OUT"), os.O_CREATE|os.O_WRONLY|os.O_APPEND, 0644)
	vhMust(err)
	defer f.Close()
	// one empty backing store per child process: it is never written (only cache -> overlay commits happen)
	store := leveldbstore.NewMemLevelDBStore()
	defer store.Close()
	for _, it := range in.Items {
		fmt.Fprintf(f, "{\"start\":%d,\"op\":\"run\"}\n", it.Id)
		code, err := hex.DecodeString(it.Hex)
		vhMust(err)
		gas := it.Gas
		if it.PreExec {
			gas = math.MaxUint64
		}
		reps := it.Reps
		if reps < 1 {
			reps = 1
		}
		r := pgRes{Id: it.Id, Op: "run", Out: "ok", Runs: reps}
		idx := map[pgObs]int{}
		keys := map[string]bool{}
		for i := 0; i < reps; i++ {
			o := pgRunOnce(store, code, it.PreExec, gas)
			if j, ok := idx[o]; ok {
				r.Counts[j]++
			} else {
				idx[o] = len(r.Obs)
				r.Obs = append(r.Obs, o)
				r.Counts = append(r.Counts, 1)
			}
			keys[fmt.Sprintf("%v|%s|%s|%s", o.Ok, o.Result, o.Notify, o.Writes)] = true
		}
		for k := range keys {
			r.Keys = append(r.Keys, k)
		}
		sort.Strings(r.Keys)
		b, _ := json.Marshal(r)
		f.Write(append(b, '\n'))
	}
	fmt.Fprintf(f, "{\"done\":true}\n")
}
