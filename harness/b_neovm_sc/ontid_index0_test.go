package test

// C12 directed scenario (reported by the OntId property's builder): ontid.removeKeyByController with key index 0 and a
// VALID controller proof.  revokePkByIndex does `index -= 1` on a uint32 before indexing the key list; there is no
// recover() between a native contract and the block-execution goroutine, so a Go panic here ends the process.
// The scenario runs through the real NeoVM path (Ontology.Native.Invoke) on one shared state, as a CHILD process.

import (
	"encoding/hex"
	"fmt"
	"os"
	"testing"

	"github.com/ontio/ontology-crypto/keypair"
	"github.com/ontio/ontology/account"
	"github.com/ontio/ontology/common"
	"github.com/ontio/ontology/common/config"
	"github.com/ontio/ontology/common/log"
	"github.com/ontio/ontology/core/store/leveldbstore"
	"github.com/ontio/ontology/core/store/overlaydb"
	"github.com/ontio/ontology/core/types"
	"github.com/ontio/ontology/smartcontract"
	"github.com/ontio/ontology/smartcontract/service/neovm"
	"github.com/ontio/ontology/smartcontract/storage"
)

func oiPushBytes(b []byte) []byte {
	if len(b) <= 75 {
		return append([]byte{byte(len(b))}, b...)
	}
	return append([]byte{0x4c, byte(len(b))}, b...)
}

func oiPushInt(n int) []byte {
	if n == 0 {
		return []byte{0x00}
	}
	return []byte{byte(0x50 + n)}
}

// code: struct[args...] method address version SYSCALL Ontology.Native.Invoke
func oiCall(method string, args ...interface{}) []byte {
	code := []byte{0x00, 0xC6} // PUSH0 NEWSTRUCT
	for _, a := range args {
		code = append(code, 0x76) // DUP
		switch v := a.(type) {
		case []byte:
			code = append(code, oiPushBytes(v)...)
		case int:
			code = append(code, oiPushInt(v)...)
		}
		code = append(code, 0xC8) // APPEND
	}
	code = append(code, oiPushBytes([]byte(method))...)
	addr := make([]byte, 20)
	addr[19] = 3 // OntID contract
	code = append(code, oiPushBytes(addr)...)
	code = append(code, 0x00)
	name := "Ontology.Native.Invoke"
	code = append(code, 0x68, byte(len(name)))
	code = append(code, []byte(name)...)
	return code
}

func TestVerifOntIdIndex0(t *testing.T) {
	log.InitLog(log.FatalLog, log.Stdout)
	config.DefConfig.P2PNode.NetworkId = config.NETWORK_ID_SOLO_NET
	gasTable := make(map[string]uint64)
	neovm.GAS_TABLE.Range(func(k, v interface{}) bool {
		gasTable[k.(string)] = v.(uint64)
		return true
	})
	f, err := os.OpenFile(os.Getenv("VERIF_OUT"), os.O_CREATE|os.O_WRONLY|os.O_APPEND, 0644)
	vhMust(err)
	defer f.Close()
	height := uint32(vhEnvInt("VERIF_HEIGHT", 10))
	acc := account.NewAccount("")
	id0, _ := account.GenerateID()
	id1, _ := account.GenerateID()
	pk := keypair.SerializePublicKey(acc.PublicKey)
	store := leveldbstore.NewMemLevelDBStore()
	defer store.Close()
	overlay := overlaydb.NewOverlayDB(store)
	cache := storage.NewCacheDB(overlay)
	invoke := func(code []byte) string {
		tx := &types.Transaction{SignedAddr: []common.Address{acc.Address}}
		sc := smartcontract.SmartContract{
			Config:   &smartcontract.Config{Time: 10, Height: height, Tx: tx},
			CacheDB:  cache,
			GasTable: gasTable,
			Gas:      1000000,
		}
		engine, err := sc.NewExecuteEngine(code, types.InvokeNeo)
		if err != nil {
			return "engine: " + err.Error()
		}
		_, err = engine.Invoke()
		if err != nil {
			cache.Reset()
			return "err: " + err.Error()
		}
		cache.Commit()
		return "ok"
	}
	steps := []struct {
		name string
		code []byte
	}{
		{"regIDWithPublicKey", oiCall("regIDWithPublicKey", []byte(id0), pk)},
		{"regIDWithController", oiCall("regIDWithController", []byte(id1), []byte(id0), 1)},
		{"removeKeyByController-index1", oiCall("removeKeyByController", []byte(id1), 1, 1)},
		{"removeKeyByController-index0", oiCall("removeKeyByController", []byte(id1), 0, 1)},
	}
	for i, s := range steps {
		fmt.Fprintf(f, "{\"start\":%d,\"op\":\"run\"}\n", i)
		r := invoke(s.code)
		if len(r) > 300 {
			r = r[:300]
		}
		fmt.Fprintf(f, "{\"id\":%d,\"op\":\"run\",\"out\":\"ok\",\"step\":%q,\"res\":%q,\"hex\":%q}\n", i, s.name, r, hex.EncodeToString(s.code))
	}
	fmt.Fprintf(f, "{\"done\":true}\n")
}
