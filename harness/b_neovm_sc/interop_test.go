package test

// C12 harness for spec/NeoVMInterop.tla: every script TLC enumerates from the interop-handle state machine
// (producer for a present / absent / destroyed / out-of-range target, then consumers of the returned handle) is
// executed on a REAL ledger (genesis block + one block that deploys the contract K):
//   transaction mode   -> LedgerStoreImp.ExecuteBlock of a block at the next height holding the one invoke transaction
//   pre-execution mode -> LedgerStoreImp.PreExecuteContract (includes the conversion of the value left on the stack)
// The test runs as a CHILD process: there is no recover on these paths, a nil dereference kills the process and the
// parent takes the death as the observed outcome of the open item.
//
// Scripts arrive with placeholders for the values only this process knows (hashes of stored block / transaction,
// addresses of the contracts K and D).

import (
	"bytes"
	"encoding/hex"
	"encoding/json"
	"fmt"
	"os"
	"path/filepath"
	"runtime"
	"strings"
	"testing"

	"github.com/ontio/ontology-crypto/keypair"
	"github.com/ontio/ontology/account"
	"github.com/ontio/ontology/common"
	"github.com/ontio/ontology/common/config"
	"github.com/ontio/ontology/common/constants"
	"github.com/ontio/ontology/common/log"
	"github.com/ontio/ontology/core/genesis"
	"github.com/ontio/ontology/core/payload"
	"github.com/ontio/ontology/core/signature"
	"github.com/ontio/ontology/core/store/ledgerstore"
	"github.com/ontio/ontology/core/types"
	"github.com/ontio/ontology/smartcontract"
	"github.com/ontio/ontology/smartcontract/event"
	"github.com/ontio/ontology/smartcontract/service/neovm"
)

type ihItem struct {
	Id      int    `json:"id"`
	Hex     string `json:"hex"`
	PreExec bool   `json:"preexec"`
	Legacy  bool   `json:"legacy"`
	Cuts    []int  `json:"cuts"` // byte offsets where the model's steps end (to locate the fatal step of a panicking script)
}

type ihRes struct {
	Id     int    `json:"id"`
	Op     string `json:"op"`
	Out    string `json:"out"`
	Ok     bool   `json:"ok"`
	Err    string `json:"err,omitempty"`
	Result string `json:"result,omitempty"`
	Notify int    `json:"notify"`
	Code   string `json:"code"`
	// after a panic: the shortest prefix (number of steps) that panics as well, and whether that prefix survives when
	// the item it leaves on the stack is dropped (pre-execution converts the result, a consumer of its own)
	FatalK       int  `json:"fatal_k,omitempty"`
	DropSurvives bool `json:"drop_survives,omitempty"`
}

type ihWorld struct {
	dir    string
	ledger *ledgerstore.LedgerStoreImp
	acc    *account.Account
}

func (w *ihWorld) makeBlock(txs []*types.Transaction) *types.Block {
	st := w.ledger
	next, err := types.AddressFromBookkeepers([]keypair.PublicKey{w.acc.PublicKey})
	vhMust(err)
	height := st.GetCurrentBlockHeight()
	var hs []common.Uint256
	for _, x := range txs {
		hs = append(hs, x.Hash())
	}
	txRoot := common.ComputeMerkleRoot(hs)
	hdr := &types.Header{
		PrevBlockHash:    st.GetCurrentBlockHash(),
		TransactionsRoot: txRoot,
		BlockRoot:        st.GetBlockRootWithNewTxRoots(height+1, []common.Uint256{txRoot}),
		Timestamp:        constants.GENESIS_BLOCK_TIMESTAMP + height + 1,
		Height:           height + 1,
		ConsensusData:    uint64(height),
		NextBookkeeper:   next,
	}
	blk := &types.Block{Header: hdr, Transactions: txs}
	h := blk.Hash()
	sig, err := signature.Sign(w.acc, h[:])
	vhMust(err)
	hdr.Bookkeepers = []keypair.PublicKey{w.acc.PublicKey}
	hdr.SigData = [][]byte{sig}
	return blk
}

// ihPanicSite: the innermost frames of the repository's code on the panicking stack
func ihPanicSite() string {
	pcs := make([]uintptr, 40)
	n := runtime.Callers(3, pcs)
	frames := runtime.CallersFrames(pcs[:n])
	var out []string
	for {
		fr, more := frames.Next()
		if strings.Contains(fr.Function, "ontio/ontology") && !strings.Contains(fr.Function, "TestVerif") {
			fn := fr.Function[strings.LastIndex(fr.Function, "/")+1:]
			out = append(out, fmt.Sprintf("%s (%s:%d)", fn, filepath.Base(fr.File), fr.Line))
			if len(out) == 3 {
				break
			}
		}
		if !more {
			break
		}
	}
	return strings.Join(out, " <- ")
}

func ihPlaceholder(fill byte, n int, tag byte) []byte {
	b := bytes.Repeat([]byte{fill}, n)
	b[n-1] = tag
	return b
}

func TestVerifInterop(t *testing.T) {
	log.InitLog(log.FatalLog, log.Stdout)
	var in struct {
		Items []ihItem `json:"items"`
	}
	vhIn(&in)
	f, err := os.OpenFile(os.Getenv("VERIF_OUT"), os.O_CREATE|os.O_WRONLY|os.O_APPEND, 0644)
	vhMust(err)
	defer f.Close()

	// ---- the ledger: genesis (solo, one bookkeeper) + block 1 deploying K
	base := os.Getenv("VERIF_SCRATCH")
	if base == "" {
		base = os.TempDir()
	}
	dir, err := os.MkdirTemp(base, "c12-interop-")
	vhMust(err)
	defer os.RemoveAll(dir)
	acct := account.NewAccount("")
	config.DefConfig.Genesis.ConsensusType = "solo"
	config.DefConfig.Genesis.SOLO.GenBlockTime = 3
	config.DefConfig.Genesis.SOLO.Bookkeepers = []string{hex.EncodeToString(keypair.SerializePublicKey(acct.PublicKey))}
	config.DefConfig.P2PNode.NetworkId = config.NETWORK_ID_SOLO_NET
	bookkeepers := []keypair.PublicKey{acct.PublicKey}
	gblk, err := genesis.BuildGenesisBlock(bookkeepers, config.DefConfig.Genesis)
	vhMust(err)
	ledger, err := ledgerstore.NewLedgerStore(filepath.Join(dir, "ledger"), 0)
	vhMust(err)
	defer ledger.Close()
	vhMust(ledger.InitLedgerStoreWithGenesisBlock(gblk, bookkeepers))
	w := &ihWorld{dir: dir, ledger: ledger, acc: acct}

	kcode, err := hex.DecodeString(os.Getenv("VERIF_KCODE"))
	vhMust(err)
	dcode, err := hex.DecodeString(os.Getenv("VERIF_DCODE"))
	vhMust(err)
	kdep, err := payload.NewDeployCode(kcode, payload.NEOVM_TYPE, "n", "1", "a", "e", "d")
	vhMust(err)
	dtx, err := (&types.MutableTransaction{TxType: types.Deploy, Nonce: 1, GasLimit: 100000000, Payload: kdep}).IntoImmutable()
	vhMust(err)
	blk1 := w.makeBlock([]*types.Transaction{dtx})
	res1, err := ledger.ExecuteBlock(blk1)
	vhMust(err)
	vhMust(ledger.SubmitBlock(blk1, nil, res1))
	kaddr := common.AddressFromVmCode(kcode)
	daddr := common.AddressFromVmCode(dcode)
	if dc, err := ledger.GetContractState(kaddr); err != nil || dc == nil {
		panic(fmt.Sprintf("fixture: contract K is not in the ledger after block 1: %v", err))
	}
	if ledger.GetCurrentBlockHeight() != 1 {
		panic("fixture: ledger height != 1")
	}
	blk1hash := blk1.Hash()
	txhash := dtx.Hash()
	subst := [][2][]byte{
		{ihPlaceholder(0xAA, 32, 0x01), blk1hash.ToArray()},
		{ihPlaceholder(0xAA, 32, 0x02), txhash.ToArray()},
		{ihPlaceholder(0xBB, 20, 0x01), kaddr[:]},
		{ihPlaceholder(0xBB, 20, 0x02), daddr[:]},
	}
	fmt.Fprintf(f, "{\"id\":-1,\"op\":\"fixture\",\"out\":\"ok\",\"height\":%d,\"kaddr\":%q,\"daddr\":%q}\n", ledger.GetCurrentBlockHeight(), kaddr.ToHexString(), daddr.ToHexString())

	gasTable := make(map[string]uint64)
	neovm.GAS_TABLE.Range(func(k, v interface{}) bool {
		gasTable[k.(string)] = v.(uint64)
		return true
	})
	run := func(id int, code []byte, preExec bool) (r ihRes) {
		mtx := &types.MutableTransaction{TxType: types.InvokeNeo, Nonce: uint32(id), GasPrice: 0, GasLimit: 100000000,
			Payload: &payload.InvokeCode{Code: code}}
		tx, err := mtx.IntoImmutable()
		vhMust(err)
		r = ihRes{Id: id, Op: "run", Out: "ok", Code: hex.EncodeToString(code)}
		func() {
			// A Go panic on these paths is what kills the node (nothing recovers between the p2p / RPC entry and here).
			// It is caught HERE, outside the code under test, only so that one child process can report many of them;
			// fatal errors (stack overflow, out of memory) still end the child and are seen by the parent.
			defer func() {
				if x := recover(); x != nil {
					r.Out = "crash"
					r.Ok = false
					r.Err = fmt.Sprintf("panic: %v at %s", x, ihPanicSite())
				}
			}()
			if preExec {
				pres, err := ledger.PreExecuteContract(tx)
				if err != nil {
					r.Err = err.Error()
				} else {
					r.Ok = true
					rb, _ := json.Marshal(pres.Result)
					r.Result = string(rb)
					r.Notify = len(pres.Notify)
				}
			} else {
				blk := w.makeBlock([]*types.Transaction{tx})
				eres, err := ledger.ExecuteBlock(blk)
				if err != nil {
					r.Err = "ExecuteBlock: " + err.Error()
				} else if len(eres.Notify) != 1 {
					r.Err = fmt.Sprintf("ExecuteBlock: %d notify records", len(eres.Notify))
				} else {
					r.Ok = eres.Notify[0].State == event.CONTRACT_STATE_SUCCESS
					r.Notify = len(eres.Notify[0].Notify)
					if !r.Ok {
						// the block path only logs the error text: repeat the invocation the way HandleInvokeTransaction does
						sc := smartcontract.SmartContract{
							Config:   &smartcontract.Config{Time: blk.Header.Timestamp, Height: blk.Header.Height, Tx: tx, BlockHash: blk.Hash()},
							CacheDB:  ledger.GetCacheDB(),
							Store:    ledger,
							GasTable: gasTable,
							Gas:      tx.GasLimit,
						}
						engine, _ := sc.NewExecuteEngine(code, tx.TxType)
						if _, err := engine.Invoke(); err != nil {
							r.Err = err.Error()
						} else {
							r.Err = "(state 0 in the block, no error in the repeated invocation)"
						}
					}
				}
			}
		}()
		return r
	}
	for _, it := range in.Items {
		fmt.Fprintf(f, "{\"start\":%d,\"op\":\"run\"}\n", it.Id)
		code, err := hex.DecodeString(it.Hex)
		vhMust(err)
		for _, s := range subst {
			code = bytes.ReplaceAll(code, s[0], s[1])
		}
		// the legacy syscalls (ServiceMapDeprecated) exist below CONTRACT_DEPRECATE_API_HEIGHT, which is only
		// non-zero on the main network
		if it.Legacy {
			config.DefConfig.P2PNode.NetworkId = config.NETWORK_ID_MAIN_NET
		} else {
			config.DefConfig.P2PNode.NetworkId = config.NETWORK_ID_SOLO_NET
		}
		r := run(it.Id, code, it.PreExec)
		if r.Out == "crash" {
			r.FatalK = len(it.Cuts)
			for k, cut := range it.Cuts {
				if cut <= 0 || cut > len(code) {
					continue
				}
				if p := run(it.Id, code[:cut], it.PreExec); p.Out == "crash" {
					r.FatalK = k + 1
					r.Err = p.Err
					if it.PreExec {
						d := run(it.Id, append(append([]byte{}, code[:cut]...), 0x75), it.PreExec) // DROP
						r.DropSurvives = d.Out != "crash"
					}
					break
				}
			}
		}
		if len(r.Err) > 240 {
			r.Err = r.Err[:240]
		}
		if len(r.Result) > 200 {
			r.Result = r.Result[:200]
		}
		b, _ := json.Marshal(r)
		f.Write(append(b, '\n'))
	}
	fmt.Fprintf(f, "{\"done\":true}\n")
}
