package ledgerstore

// C05 harness: real signed invoke transactions in real blocks on a real (solo) ledger.  Every block
// [t1..tn] is executed by the real executeBlock once per prefix [t1..tk] (executeBlock does not persist
// anything), so the write set of the block "with" and "without" transaction tk are both observed and
// their difference is the surviving effect of tk inside the block (including the per-transaction
// cache.Reset() of executeBlock).  The full block then goes through ExecuteBlock + SubmitBlock.

import (
	"bytes"
	"encoding/hex"
	"fmt"
	"math/big"
	"sort"
	"strings"
	"testing"

	"github.com/ontio/ontology-crypto/keypair"
	"github.com/ontio/ontology/account"
	"github.com/ontio/ontology/common"
	"github.com/ontio/ontology/common/config"
	"github.com/ontio/ontology/common/constants"
	"github.com/ontio/ontology/core/payload"
	"github.com/ontio/ontology/core/signature"
	cstates "github.com/ontio/ontology/core/states"
	scom "github.com/ontio/ontology/core/store/common"
	"github.com/ontio/ontology/core/store/overlaydb"
	"github.com/ontio/ontology/core/types"
	cutils "github.com/ontio/ontology/core/utils"
	"github.com/ontio/ontology/smartcontract/event"
	"github.com/ontio/ontology/smartcontract/service/native/ont"
	"github.com/ontio/ontology/smartcontract/service/native/utils"
	"github.com/ontio/ontology/smartcontract/service/neovm"
	"github.com/ontio/ontology/smartcontract/storage"
	vm "github.com/ontio/ontology/vm/neovm"
)

type txOp struct {
	Op   string `json:"op"` // put | approve | xfer | evminvoke | getparam | regid
	K    string `json:"k,omitempty"`
	V    string `json:"v,omitempty"`
	Tok  string `json:"tok,omitempty"`
	From string `json:"from,omitempty"`
	To   string `json:"to,omitempty"`
	Amt  uint64 `json:"amt,omitempty"` // V1 units
}

type txDesc struct {
	Payer   string   `json:"payer"`
	Price   uint64   `json:"price"`
	Limit   uint64   `json:"limit"`
	Pad     int      `json:"pad"` // script is padded to at least this many bytes
	Ops     []txOp   `json:"ops"`
	End     string   `json:"end"` // ok | throw | loop
	Signers []string `json:"signers"`
	Tag     string   `json:"tag,omitempty"`
}

type txBlock struct {
	Reset bool              `json:"reset"`          // start a new group: fresh accounts for all roles, fresh storage key prefix
	Fund  map[string]uint64 `json:"fund,omitempty"` // role -> ONG (V1 units) sent by the genesis holder (gas price 0)
	FundT map[string]uint64 `json:"fundont,omitempty"`
	Txs   []txDesc          `json:"txs,omitempty"`
}

type txIn struct {
	KU     uint64    `json:"ku"` // V1 ONG units per logged unit
	Roles  []string  `json:"roles"`
	Blocks []txBlock `json:"blocks"`
}

type txEvent struct {
	Event   string           `json:"event"`
	Block   uint32           `json:"block"`
	Idx     int              `json:"idx"`
	Payer   string           `json:"payer,omitempty"`
	Price   uint64           `json:"price"`
	Limit   uint64           `json:"limit"`   // kilo-gas (rounded down)
	CodeGas uint64           `json:"codegas"` // kilo-gas
	MinGas  uint64           `json:"mingas"`
	State   string           `json:"state,omitempty"`
	Gas     int64            `json:"gas"` // reported GasConsumed in KU
	Ong     map[string]int64 `json:"ong"`
	Other   [][]string       `json:"other"` // surviving changes other than the ONG balances of the tracked accounts
	Known   bool             `json:"known"`
	W       [][]string       `json:"w"`    // the writes the script performs if it runs to its end (known scripts)
	D       int64            `json:"d"`    // ONG the script sends payer -> SINK (KU)
	Site    string           `json:"site"` // which branch of HandleInvokeTransaction a stand-alone run of the tx takes
	Err     string           `json:"err,omitempty"`
	Frac    []string         `json:"frac,omitempty"`
	Tag     string           `json:"tag,omitempty"`
	NTx     int              `json:"ntx,omitempty"`
	Notify  int              `json:"notify"`
	Keys    []string         `json:"keys,omitempty"`
	Roles   []string         `json:"roles,omitempty"`
}

type txWorld struct {
	w      *bxWorld
	in     *txIn
	wAddr  common.Address // the deployed NeoVM storage-writer contract
	roles  map[string]*account.Account
	group  int
	gov0   *big.Int
	nonce  uint32
	ku     *big.Int
	hits   map[string]int
}

var txSink = "SINK"
var txGov = "GOV"

func (t *txWorld) addrOf(role string) common.Address {
	if role == txGov {
		return utils.GovernanceContractAddress
	}
	if role == "G" {
		return t.w.gaddr
	}
	a, ok := t.roles[role]
	if !ok {
		panic("unknown role " + role)
	}
	return a.Address
}

func (t *txWorld) newGroup() {
	t.group++
	t.roles = map[string]*account.Account{}
	for _, r := range append(append([]string{}, t.in.Roles...), txSink) {
		t.roles[r] = account.NewAccount("")
	}
	t.gov0 = t.committedOng(utils.GovernanceContractAddress)
}

func (t *txWorld) committedOng(a common.Address) *big.Int {
	cache := storage.NewCacheDB(t.w.store.stateStore.NewOverlayDB())
	v, err := utils.GetNativeTokenBalance(cache, ont.GenBalanceKey(utils.OngContractAddress, a))
	vhMust(err)
	return v.ToBigInt()
}

func txSyscall(b *vm.ParamsBuilder, name string) {
	b.Emit(vm.SYSCALL)
	b.EmitPushByteArray([]byte(name))
}

func txWriterCode() []byte {
	b := vm.NewParamsBuilder(new(bytes.Buffer))
	txSyscall(b, neovm.STORAGE_GETCONTEXT_NAME)
	txSyscall(b, neovm.STORAGE_PUT_NAME)
	b.Emit(vm.RET)
	return b.ToArray()
}

func (t *txWorld) storageKeyOf(k string) []byte { return []byte(fmt.Sprintf("g%d:%s", t.group, k)) }

// symKey names a raw overlay key: ONG balances of tracked accounts are reported separately ("ONG:<role>"),
// writer-contract entries of the current group as "W:<k>", token allowances between roles as "AL:<tok>:<a>:<b>",
// everything else by its hex.
func (t *txWorld) symKey(raw []byte) string {
	if len(raw) > 21 && raw[0] == byte(scom.ST_STORAGE) {
		var c common.Address
		copy(c[:], raw[1:21])
		rest := raw[21:]
		roleOf := func(a []byte) string {
			for r, acc := range t.roles {
				if bytes.Equal(acc.Address[:], a) {
					return r
				}
			}
			if bytes.Equal(utils.GovernanceContractAddress[:], a) {
				return txGov
			}
			if bytes.Equal(utils.OntContractAddress[:], a) {
				return "OC"
			}
			return ""
		}
		tok := ""
		if c == utils.OngContractAddress {
			tok = "ong"
		} else if c == utils.OntContractAddress {
			tok = "ont"
		}
		if tok == "ong" && len(rest) == 20 {
			if r := roleOf(rest); r != "" {
				return "ONG:" + r
			}
		}
		if tok == "ont" && len(rest) == 20 {
			if r := roleOf(rest); r != "" {
				return "ONT:" + r
			}
		}
		if tok == "ont" && len(rest) == len(ont.UNBOUND_TIME_OFFSET_KEY)+20 && string(rest[:len(ont.UNBOUND_TIME_OFFSET_KEY)]) == ont.UNBOUND_TIME_OFFSET_KEY {
			if r := roleOf(rest[len(ont.UNBOUND_TIME_OFFSET_KEY):]); r != "" {
				return "UO:" + r
			}
		}
		if tok != "" && len(rest) == 40 {
			a, b := roleOf(rest[:20]), roleOf(rest[20:])
			if a != "" && b != "" {
				return "AL:" + tok + ":" + a + ":" + b
			}
		}
		if c == t.wAddr {
			pre := []byte(fmt.Sprintf("g%d:", t.group))
			if bytes.HasPrefix(rest, pre) {
				return "W:" + string(rest[len(pre):])
			}
		}
	}
	return "RAW:" + hex.EncodeToString(raw)
}

// buildScript assembles the NeoVM entry script of a transaction and, for scripts made only of writer-contract
// puts, allowance approvals and an ONG transfer payer -> SINK, the writes it performs when it runs to its end.
func (t *txWorld) buildScript(d *txDesc) (code []byte, known bool, w [][]string, drain uint64) {
	buf := new(bytes.Buffer)
	known = true
	wm := map[string]string{}
	for _, op := range d.Ops {
		switch op.Op {
		case "put":
			b := vm.NewParamsBuilder(new(bytes.Buffer))
			b.EmitPushByteArray([]byte(op.V))
			b.EmitPushByteArray(t.storageKeyOf(op.K))
			b.Emit(vm.APPCALL)
			buf.Write(b.ToArray())
			buf.Write(t.wAddr[:])
			wm["W:"+op.K] = hex.EncodeToString(cstates.GenRawStorageItem([]byte(op.V)))
		case "approve":
			c := tkContracts[op.Tok]
			st := ont.TransferState{From: t.addrOf(op.From), To: t.addrOf(op.To), Value: op.Amt}
			piece, err := cutils.BuildNativeInvokeCode(c, 0, "approve", []interface{}{st})
			vhMust(err)
			buf.Write(piece)
			if op.Tok == "ong" {
				wm["AL:ong:"+op.From+":"+op.To] = hex.EncodeToString(cstates.NativeTokenBalanceFromInteger(op.Amt).MustToStorageItemBytes())
			} else {
				wm["AL:ont:"+op.From+":"+op.To] = hex.EncodeToString(utils.GenUInt64StorageItem(op.Amt).ToArray())
			}
		case "xfer":
			c := tkContracts[op.Tok]
			st := ont.TransferState{From: t.addrOf(op.From), To: t.addrOf(op.To), Value: op.Amt}
			piece, err := cutils.BuildNativeInvokeCode(c, 0, "transfer", []interface{}{[]ont.TransferState{st}})
			vhMust(err)
			buf.Write(piece)
			if op.Tok == "ong" && op.From == d.Payer && op.To == txSink && drain == 0 {
				drain = op.Amt
			} else {
				known = false // other transfers (ONT moves unbound offsets etc.) are not described to the model
			}
		case "evminvoke":
			// system.evmInvoke(caller = payer (a signer), target = an account without code, input): a successful EVM call
			// that writes nothing itself; described to the model (no writes of its own)
			type evmInvokeArgs struct {
				Caller common.Address
				Target common.Address
				Input  []byte
			}
			caller := d.Payer
			if op.From != "" {
				caller = op.From
			}
			piece, err := cutils.BuildNativeInvokeCode(utils.SystemContractAddress, 0, "evmInvoke",
				[]interface{}{evmInvokeArgs{Caller: t.addrOf(caller), Target: common.Address{0xaa, 0xbb, 0xcc, 0xdd, byte(t.group)}, Input: []byte{1}}})
			vhMust(err)
			buf.Write(piece)
		case "getparam":
			// global_params.getGlobalParam(["gasPrice"]): a read-only native call; described (no writes)
			piece, err := cutils.BuildNativeInvokeCode(utils.ParamContractAddress, 0, "getGlobalParam", []interface{}{[]interface{}{"gasPrice"}})
			vhMust(err)
			buf.Write(piece)
		case "regid":
			// ontid.regIDWithPublicKey(did:ont:<payer>, payer's key): writes several ONT ID entries; not described (opaque)
			type regArgs struct {
				ID []byte
				PK []byte
			}
			acc := t.roles[d.Payer]
			piece, err := cutils.BuildNativeInvokeCode(utils.OntIDContractAddress, 0, "regIDWithPublicKey",
				[]interface{}{regArgs{ID: []byte("did:ont:" + acc.Address.ToBase58()), PK: keypair.SerializePublicKey(acc.PublicKey)}})
			vhMust(err)
			buf.Write(piece)
			known = false
		default:
			panic("unknown op " + op.Op)
		}
	}
	switch d.End {
	case "ok":
		buf.WriteByte(byte(vm.RET))
	case "throw":
		buf.WriteByte(byte(vm.THROW))
	case "loop":
		buf.Write([]byte{byte(vm.JMP), 0x00, 0x00}) // jump to itself until the gas is gone
	default:
		panic("unknown end " + d.End)
	}
	for buf.Len() < d.Pad {
		buf.WriteByte(byte(vm.NOP))
	}
	keys := make([]string, 0, len(wm))
	for k := range wm {
		keys = append(keys, k)
	}
	sort.Strings(keys)
	for _, k := range keys {
		w = append(w, []string{k, wm[k]})
	}
	return buf.Bytes(), known, w, drain
}

func (t *txWorld) signedTx(code []byte, payer *account.Account, price, limit uint64, signers []*account.Account, typ types.TransactionType, pl types.Payload) *types.Transaction {
	t.nonce++
	mtx := &types.MutableTransaction{GasPrice: price, GasLimit: limit, TxType: typ, Nonce: t.nonce, Payer: payer.Address, Payload: pl}
	if pl == nil {
		mtx.Payload = &payload.InvokeCode{Code: code}
	}
	h := mtx.Hash()
	seen := map[common.Address]bool{}
	for _, s := range append([]*account.Account{payer}, signers...) {
		if seen[s.Address] {
			continue
		}
		seen[s.Address] = true
		sig, err := signature.Sign(s, h[:])
		vhMust(err)
		mtx.Sigs = append(mtx.Sigs, types.Sig{PubKeys: []keypair.PublicKey{s.PublicKey}, M: 1, SigData: [][]byte{sig}})
	}
	tx, err := mtx.IntoImmutable()
	vhMust(err)
	return tx
}

func (t *txWorld) makeBlock(txs []*types.Transaction) *types.Block {
	st := t.w.store
	acc := t.w.gacc
	next, err := types.AddressFromBookkeepers([]keypair.PublicKey{acc.PublicKey})
	vhMust(err)
	height := st.GetCurrentBlockHeight()
	var hs []common.Uint256
	for _, x := range txs {
		hs = append(hs, x.Hash())
	}
	txRoot := common.ComputeMerkleRoot(hs)
	hdr := &types.Header{
		Version:          0,
		PrevBlockHash:    st.GetCurrentBlockHash(),
		TransactionsRoot: txRoot,
		BlockRoot:        st.GetBlockRootWithNewTxRoots(height+1, []common.Uint256{txRoot}),
		Timestamp:        constants.GENESIS_BLOCK_TIMESTAMP + height + 1,
		Height:           height + 1,
		ConsensusData:    uint64(height),
		NextBookkeeper:   next,
	}
	blk := &types.Block{Header: hdr, Transactions: txs}
	h := blk.Hash()
	sig, err := signature.Sign(acc, h[:])
	vhMust(err)
	hdr.Bookkeepers = []keypair.PublicKey{acc.PublicKey}
	hdr.SigData = [][]byte{sig}
	return blk
}

func (t *txWorld) commit(txs []*types.Transaction) []*event.ExecuteNotify {
	blk := t.makeBlock(txs)
	res, err := t.w.store.ExecuteBlock(blk)
	vhMust(err)
	vhMust(t.w.store.SubmitBlock(blk, nil, res))
	return res.Notify
}

func txWSMap(ws *overlaydb.MemDB) map[string][]byte {
	m := map[string][]byte{}
	ws.ForEach(func(k, v []byte) {
		m[string(k)] = append([]byte{}, v...)
	})
	return m
}

func (t *txWorld) ongIn(ws map[string][]byte, a common.Address) *big.Int {
	key := append([]byte{byte(scom.ST_STORAGE)}, ont.GenBalanceKey(utils.OngContractAddress, a)...)
	if v, ok := ws[string(key)]; ok {
		if len(v) == 0 {
			return new(big.Int)
		}
		item := new(cstates.StorageItem)
		vhMust(item.Deserialization(common.NewZeroCopySource(v)))
		b, err := cstates.NativeTokenBalanceFromStorageItem(item)
		vhMust(err)
		return b.ToBigInt()
	}
	return t.committedOng(a)
}

func (t *txWorld) gasTable() map[string]uint64 {
	gt := map[string]uint64{}
	neovm.GAS_TABLE.Range(func(k, v interface{}) bool {
		gt[k.(string)] = v.(uint64)
		return true
	})
	return gt
}

// site: which branch of HandleInvokeTransaction the transaction takes on the state left by its predecessors in
// the block (a stand-alone second execution, used only to attribute the event to a call site for coverage counts)
func (t *txWorld) site(prev map[string][]byte, tx *types.Transaction, blk *types.Block) (string, string) {
	ovl := t.w.store.stateStore.NewOverlayDB()
	for k, v := range prev {
		if len(v) == 0 {
			ovl.Delete([]byte(k))
		} else {
			ovl.Put([]byte(k), v)
		}
	}
	cache := storage.NewCacheDB(ovl)
	notify := &event.ExecuteNotify{TxHash: tx.Hash(), State: event.CONTRACT_STATE_FAIL}
	_, err := t.w.store.stateStore.HandleInvokeTransaction(t.w.store, ovl, t.gasTable(), cache, tx, blk, notify)
	if err == nil {
		return "success", ""
	}
	es := err.Error()
	switch {
	case strings.Contains(es, "less than min gas"):
		return "minGas", es
	case strings.Contains(es, "balance gas insufficient"):
		return "codeLenBalance", es
	case strings.Contains(es, "invoke transaction gasLimit insufficient"):
		return "codeLenLimit", es
	case strings.HasPrefix(es, "gas insufficient, balance"):
		return "drained", es
	case tx.GasPrice == 0:
		return "execErrorFree", es
	}
	return "execError", es
}

func (t *txWorld) toKU(what string, v *big.Int, frac *[]string) int64 {
	unit := new(big.Int).Mul(t.ku, big.NewInt(1000000000))
	q, r := new(big.Int).QuoRem(v, unit, new(big.Int))
	if r.Sign() != 0 || !q.IsInt64() || q.Int64() > 2000000000 || q.Int64() < -2000000000 {
		*frac = append(*frac, what+"="+v.String())
		return -1
	}
	return q.Int64()
}

func (t *txWorld) ongView(ws map[string][]byte, frac *[]string) map[string]int64 {
	m := map[string]int64{}
	for r, a := range t.roles {
		m[r] = t.toKU("ong."+r, t.ongIn(ws, a.Address), frac)
	}
	g := new(big.Int).Sub(t.ongIn(ws, utils.GovernanceContractAddress), t.gov0)
	m[txGov] = t.toKU("ong.GOV", g, frac)
	return m
}

func TestVerifTxExec(t *testing.T) {
	var in txIn
	vhIn(&in)
	out := vhOpenOut()
	defer out.Close()
	w := bxNewWorld(config.NETWORK_ID_SOLO_NET, 5851)
	defer w.Close()
	tw := &txWorld{w: w, in: &in, ku: new(big.Int).SetUint64(in.KU), hits: map[string]int{}}
	// set-up block: deploy the storage-writer contract (gas price 0, paid by the genesis holder)
	code := txWriterCode()
	dc, err := payload.NewDeployCode(code, payload.NEOVM_TYPE, "verif-writer", "1", "verif", "", "C05 storage writer")
	vhMust(err)
	tw.wAddr = dc.Address()
	ns := tw.commit([]*types.Transaction{tw.signedTx(nil, w.gacc, 0, 30000000, nil, types.Deploy, dc)})
	if len(ns) != 1 || ns[0].State != event.CONTRACT_STATE_SUCCESS {
		panic("deploying the writer contract failed")
	}
	tw.newGroup()
	first := true
	for bi := range in.Blocks {
		b := &in.Blocks[bi]
		if b.Reset {
			tw.newGroup()
		}
		if len(b.Fund) > 0 || len(b.FundT) > 0 {
			var txs []*types.Transaction
			for tok, m := range map[string]map[string]uint64{"ong": b.Fund, "ont": b.FundT} {
				roles := make([]string, 0, len(m))
				for r := range m {
					roles = append(roles, r)
				}
				sort.Strings(roles)
				for _, r := range roles {
					if m[r] == 0 {
						continue
					}
					st := ont.TransferState{From: w.gaddr, To: tw.addrOf(r), Value: m[r]}
					piece, err := cutils.BuildNativeInvokeCode(tkContracts[tok], 0, "transfer", []interface{}{[]ont.TransferState{st}})
					vhMust(err)
					txs = append(txs, tw.signedTx(piece, w.gacc, 0, 100000, nil, types.InvokeNeo, nil))
				}
			}
			for _, n := range tw.commit(txs) {
				if n.State != event.CONTRACT_STATE_SUCCESS {
					panic("funding transaction failed")
				}
			}
		}
		if b.Reset || len(b.Fund) > 0 {
			var frac []string
			ev := txEvent{Event: "Reset", Ong: tw.ongView(map[string][]byte{}, &frac), Frac: frac, Block: w.store.GetCurrentBlockHeight(),
				Other: [][]string{}, W: [][]string{}}
			if first {
				ev.Event = "Config"
				ev.Roles = in.Roles
				first = false
			}
			out.Emit(&ev)
		}
		if len(b.Txs) == 0 {
			continue
		}
		// the block's transactions
		var txs []*types.Transaction
		type meta struct {
			known bool
			w     [][]string
			drain uint64
			cl    int
		}
		var metas []meta
		for i := range b.Txs {
			d := &b.Txs[i]
			code, known, wr, drain := tw.buildScript(d)
			var signers []*account.Account
			for _, s := range d.Signers {
				signers = append(signers, tw.roles[s])
			}
			txs = append(txs, tw.signedTx(code, tw.roles[d.Payer], d.Price, d.Limit, signers, types.InvokeNeo, nil))
			metas = append(metas, meta{known, wr, drain, len(code)})
		}
		prev := map[string][]byte{}
		prevNotify := 0
		height := w.store.GetCurrentBlockHeight() + 1
		var finalRes []*event.ExecuteNotify
		for k := 1; k <= len(txs); k++ {
			blk := tw.makeBlock(txs[:k])
			site, siteErr := tw.site(prev, txs[k-1], blk)
			var cur map[string][]byte
			var notifies []*event.ExecuteNotify
			if k < len(txs) {
				res, err := w.store.executeBlock(blk)
				vhMust(err)
				cur, notifies = txWSMap(res.WriteSet), res.Notify
			} else {
				res, err := w.store.ExecuteBlock(blk)
				vhMust(err)
				cur, notifies = txWSMap(res.WriteSet), res.Notify
				vhMust(w.store.SubmitBlock(blk, nil, res))
				finalRes = res.Notify
			}
			_ = prevNotify
			d := &b.Txs[k-1]
			n := notifies[k-1]
			ev := txEvent{Event: "Tx", Block: height, Idx: k - 1, Payer: d.Payer, Price: d.Price, Limit: d.Limit / 1000,
				CodeGas: uint64(metas[k-1].cl/neovm.PER_UNIT_CODE_LEN) * neovm.UINT_INVOKE_CODE_LEN_GAS / 1000, MinGas: neovm.MIN_TRANSACTION_GAS / 1000,
				Known: metas[k-1].known, W: metas[k-1].w, Tag: d.Tag, NTx: len(txs), Notify: len(n.Notify), Other: [][]string{}}
			if ev.W == nil {
				ev.W = [][]string{}
			}
			if d.Limit%1000 != 0 {
				ev.Frac = append(ev.Frac, fmt.Sprintf("limit=%d", d.Limit))
			}
			ev.State = "FAIL"
			if n.State == event.CONTRACT_STATE_SUCCESS {
				ev.State = "OK"
			}
			ev.Gas = tw.toKU("gas", new(big.Int).Mul(new(big.Int).SetUint64(n.GasConsumed), big.NewInt(1000000000)), &ev.Frac)
			ev.D = tw.toKU("drain", new(big.Int).Mul(new(big.Int).SetUint64(metas[k-1].drain), big.NewInt(1000000000)), &ev.Frac)
			ev.Ong = tw.ongView(cur, &ev.Frac)
			// surviving changes of this transaction = entries of the write set that differ from the prefix without it
			keys := map[string]bool{}
			for key := range cur {
				keys[key] = true
			}
			for key := range prev {
				keys[key] = true
			}
			var diff []string
			for key := range keys {
				a, ina := prev[key]
				bb, inb := cur[key]
				if ina != inb || !bytes.Equal(a, bb) {
					diff = append(diff, key)
				}
			}
			sort.Strings(diff)
			for _, key := range diff {
				sk := tw.symKey([]byte(key))
				if strings.HasPrefix(sk, "ONG:") {
					continue
				}
				val := "absent"
				if v, ok := cur[key]; ok {
					val = hex.EncodeToString(v)
					if len(v) == 0 {
						val = "deleted"
					}
				}
				ev.Other = append(ev.Other, []string{sk, val})
			}
			ev.Site, ev.Err = site, siteErr
			if len(ev.Err) > 140 {
				ev.Err = ev.Err[:140]
			}
			out.Emit(&ev)
			prev = cur
		}
		_ = finalRes
	}
}

// TestVerifDeployDestroyed: a deploy transaction for the address of a destroyed contract, with a gas price.
// HandleDeployTransaction charges and COMMITS the fee before it looks the contract up, and returns the
// "can not redeploy destroyed contract" error afterwards without setting notify.GasConsumed.
func TestVerifDeployDestroyed(t *testing.T) {
	out := vhOpenOut()
	defer out.Close()
	w := bxNewWorld(config.NETWORK_ID_SOLO_NET, 5851)
	defer w.Close()
	in := txIn{KU: 1000, Roles: []string{"P"}}
	tw := &txWorld{w: w, in: &in, ku: big.NewInt(1000), hits: map[string]int{}}
	tw.newGroup()
	b := vm.NewParamsBuilder(new(bytes.Buffer))
	txSyscall(b, neovm.CONTRACT_DESTROY_NAME)
	b.Emit(vm.RET)
	code := b.ToArray()
	dc, err := payload.NewDeployCode(code, payload.NEOVM_TYPE, "verif-destroy", "1", "verif", "", "C05 self-destroying contract")
	vhMust(err)
	addr := dc.Address()
	res := map[string]interface{}{}
	ns := tw.commit([]*types.Transaction{tw.signedTx(nil, w.gacc, 0, 30000000, nil, types.Deploy, dc)})
	res["deploy1_state"] = ns[0].State
	call := append([]byte{byte(vm.APPCALL)}, addr[:]...)
	ns = tw.commit([]*types.Transaction{tw.signedTx(call, w.gacc, 0, 100000, nil, types.InvokeNeo, nil)})
	res["destroy_state"] = ns[0].State
	destroyed, err := storage.NewCacheDB(w.store.stateStore.NewOverlayDB()).IsContractDestroyed(addr)
	vhMust(err)
	res["destroyed"] = destroyed
	// fund the payer and redeploy with gas price 2500
	price, limit := uint64(2500), uint64(neovm.CONTRACT_CREATE_GAS+1000000)
	fund := (limit + 1000000) * price
	st := ont.TransferState{From: w.gaddr, To: tw.addrOf("P"), Value: fund}
	piece, err := cutils.BuildNativeInvokeCode(utils.OngContractAddress, 0, "transfer", []interface{}{[]ont.TransferState{st}})
	vhMust(err)
	tw.commit([]*types.Transaction{tw.signedTx(piece, w.gacc, 0, 100000, nil, types.InvokeNeo, nil)})
	p0, g0 := tw.committedOng(tw.addrOf("P")), tw.committedOng(utils.GovernanceContractAddress)
	ns = tw.commit([]*types.Transaction{tw.signedTx(nil, tw.roles["P"], price, limit, nil, types.Deploy, dc)})
	p1, g1 := tw.committedOng(tw.addrOf("P")), tw.committedOng(utils.GovernanceContractAddress)
	unit := big.NewInt(1000000000)
	res["redeploy_state"] = ns[0].State
	res["redeploy_gas_consumed"] = ns[0].GasConsumed
	res["payer_paid"] = new(big.Int).Div(new(big.Int).Sub(p0, p1), unit).String()
	res["gov_received"] = new(big.Int).Div(new(big.Int).Sub(g1, g0), unit).String()
	res["price"], res["limit"] = price, limit
	out.Emit(res)
}
