package ledgerstore

// C44 part 2 (coordinator): the KVStack contract actions through the REAL call sites —
// HandleDeployTransaction, HandleInvokeTransaction -> NeoVM -> Ontology.Contract.Create / Migrate,
// System.Contract.Destroy, System.Storage.Put — on a real ledger's state store.
// A model path is cut into transactions (runs of contract actions closed by CacheCommit = the
// transaction succeeds, or CacheReset = it ends in THROW) and blocks (OvlCommit = the block overlay
// is committed to LevelDB).  After every transaction / block the storage of every abstract contract,
// the deployed set and the destroyed markers are read back through a fresh CacheDB.

import (
	"bytes"
	"fmt"
	"math/big"
	"testing"

	"github.com/ontio/ontology/common"
	"github.com/ontio/ontology/common/config"
	"github.com/ontio/ontology/core/payload"
	"github.com/ontio/ontology/core/states"
	"github.com/ontio/ontology/core/store/overlaydb"
	"github.com/ontio/ontology/core/types"
	cutils "github.com/ontio/ontology/core/utils"
	"github.com/ontio/ontology/smartcontract/event"
	nutils "github.com/ontio/ontology/smartcontract/service/native/utils"
	"github.com/ontio/ontology/smartcontract/service/neovm"
	"github.com/ontio/ontology/smartcontract/storage"
	vm "github.com/ontio/ontology/vm/neovm"
)

type cnAct struct {
	Name string `json:"name"`
	K    int    `json:"k"`
	V    string `json:"v"`
	C    []int  `json:"c"`
	D    []int  `json:"d"`
}

type cnTx struct {
	Acts []cnAct `json:"acts"`
	End  string  `json:"end"` // CacheCommit | CacheReset
}

type cnSeg struct { // one transaction, or a block commit
	Tx     *cnTx `json:"tx,omitempty"`
	Commit bool  `json:"commit,omitempty"`
}

type cnInput struct {
	KeySeq    [][]int   `json:"keyseq"`
	Contracts [][]int   `json:"contracts"`
	Paths     [][]cnSeg `json:"paths"`
}

type cnObs struct {
	Path      int      `json:"path"`
	Seg       int      `json:"seg"`
	Kind      string   `json:"kind"`
	State     int      `json:"state"` // notify.State of the transaction (1 ok, 0 failed); -1 for block commits
	Read      []string `json:"read"`
	Iter      [][]string `json:"iter"` // per contract: [rank,value] of the live keys found by a prefix iterator
	Deployed  [][]int  `json:"deployed"`
	Destroyed [][]int  `json:"destroyed"`
	Err       string   `json:"err,omitempty"`
	Note      string   `json:"note,omitempty"`
}

func cnSyscall(name string) []byte {
	return append([]byte{byte(vm.SYSCALL), byte(len(name))}, []byte(name)...)
}

// cnCode: the universal test contract.  Stack on entry (top first): op, then the arguments.
//   op 1: Storage.Put(GetContext(), key, value)      op 3: Contract.Migrate(7 params)      else: Contract.Destroy
func cnCode(c int, salt int) []byte {
	jmp := func(off int) []byte { return []byte{byte(vm.JMPIFNOT), byte(off), byte(off >> 8)} }
	secPut := append([]byte{byte(vm.DROP)}, cnSyscall(neovm.STORAGE_GETCONTEXT_NAME)...)
	secPut = append(secPut, cnSyscall(neovm.STORAGE_PUT_NAME)...)
	secPut = append(secPut, byte(vm.RET))
	secMig := append([]byte{byte(vm.DROP)}, cnSyscall(neovm.CONTRACT_MIGRATE_NAME)...)
	secMig = append(secMig, byte(vm.RET))
	secDes := append([]byte{byte(vm.DROP)}, cnSyscall(neovm.CONTRACT_DESTROY_NAME)...)
	secDes = append(secDes, byte(vm.RET))
	var code []byte
	// DUP PUSH1 NUMEQUAL JMPIFNOT -> next test (offset counted from the JMPIFNOT opcode)
	code = append(code, byte(vm.DUP), byte(vm.PUSH1), byte(vm.NUMEQUAL))
	code = append(code, jmp(3+len(secPut))...)
	code = append(code, secPut...)
	code = append(code, byte(vm.DUP), byte(vm.PUSH3), byte(vm.NUMEQUAL))
	code = append(code, jmp(3+len(secMig))...)
	code = append(code, secMig...)
	code = append(code, secDes...)
	// never executed: makes the code (and so the address) unique per abstract contract and path
	code = append(code, 0x04, byte(c), byte(salt), byte(salt>>8), byte(salt>>16))
	return code
}

type cnWorld struct {
	t      *txWorld
	in     *cnInput
	salt   int
	height uint32
	ovl    *overlaydb.OverlayDB
}

func (w *cnWorld) deployCode(c []int) *payload.DeployCode {
	dc, err := payload.NewDeployCode(cnCode(c[0], w.salt), payload.NEOVM_TYPE, "c44", "1", "verif", "", "C44 universal contract")
	vhMust(err)
	return dc
}

func (w *cnWorld) storageKey(k []int) []byte {
	addr := w.deployCode(k[:1]).Address()
	key := append([]byte{}, addr[:]...)
	for _, b := range k[1:] {
		key = append(key, byte(b))
	}
	return key
}

func cnPushDeployParams(b *vm.ParamsBuilder, dc *payload.DeployCode) {
	b.EmitPushByteArray([]byte(dc.Description))
	b.EmitPushByteArray([]byte(dc.Email))
	b.EmitPushByteArray([]byte(dc.Author))
	b.EmitPushByteArray([]byte(dc.Version))
	b.EmitPushByteArray([]byte(dc.Name))
	b.EmitPushInteger(big.NewInt(int64(payload.NEOVM_TYPE)))
	b.EmitPushByteArray(dc.GetRawCode())
}

func (w *cnWorld) script(tx *cnTx) []byte {
	raw := new(bytes.Buffer)
	b := vm.NewParamsBuilder(raw)
	for _, a := range tx.Acts {
		switch a.Name {
		case "MarkDestroyed":
			// native global-param addDestroyedContract, signed by the operator (= the genesis bookkeeper)
			addr := w.deployCode(a.C).Address()
			piece, err := cutils.BuildNativeInvokeCode(nutils.ParamContractAddress, 0, "addDestroyedContract",
				[]interface{}{[]common.Address{addr}})
			vhMust(err)
			raw.Write(piece)
			b.Emit(vm.DROP)
		case "ContractPut", "PutRefused":
			k := w.in.KeySeq[a.K-1]
			var suffix []byte
			for _, x := range k[1:] {
				suffix = append(suffix, byte(x))
			}
			addr := w.deployCode(a.C).Address()
			b.EmitPushByteArray([]byte(a.V))
			b.EmitPushByteArray(suffix)
			b.EmitPushInteger(big.NewInt(1))
			b.EmitPushCall(addr[:])
		case "Migrate":
			addr := w.deployCode(a.C).Address()
			cnPushDeployParams(b, w.deployCode(a.D))
			b.EmitPushInteger(big.NewInt(3))
			b.EmitPushCall(addr[:])
			b.Emit(vm.DROP)
		case "Destroy":
			addr := w.deployCode(a.C).Address()
			b.EmitPushInteger(big.NewInt(4))
			b.EmitPushCall(addr[:])
		case "Deploy", "DeployRefused":
			cnPushDeployParams(b, w.deployCode(a.C))
			txSyscall(b, neovm.CONTRACT_CREATE_NAME)
			b.Emit(vm.DROP)
		default:
			panic("c44neo: unknown action " + a.Name)
		}
	}
	if tx.End == "CacheReset" {
		b.Emit(vm.THROW)
	}
	b.Emit(vm.RET)
	return b.ToArray()
}

func (w *cnWorld) observe(o *cnObs) {
	cache := storage.NewCacheDB(w.ovl)
	for _, k := range w.in.KeySeq {
		raw, err := cache.Get(w.storageKey(k))
		if err != nil {
			o.Err += "get:" + err.Error() + ";"
		}
		v := ""
		if len(raw) != 0 {
			val, err := states.GetValueFromRawStorageItem(raw)
			if err != nil {
				o.Err += "item:" + err.Error() + ";"
			}
			v = string(val)
		}
		o.Read = append(o.Read, v)
	}
	o.Deployed, o.Destroyed, o.Iter = [][]int{}, [][]int{}, [][]string{}
	for _, c := range w.in.Contracts {
		addr := w.deployCode(c).Address()
		dc, destroyed, err := cache.GetContract(addr)
		if err != nil {
			o.Err += "getContract:" + err.Error() + ";"
		}
		if dc != nil {
			o.Deployed = append(o.Deployed, c)
		}
		if destroyed {
			o.Destroyed = append(o.Destroyed, c)
		}
		it := cache.NewIterator(addr[:])
		for has := it.First(); has; has = it.Next() {
			rank := -1
			for i, k := range w.in.KeySeq {
				if bytes.Equal(w.storageKey(k), it.Key()) {
					rank = i + 1
				}
			}
			val, _ := states.GetValueFromRawStorageItem(it.Value())
			o.Iter = append(o.Iter, []string{fmt.Sprint(rank), string(val)})
		}
		it.Release()
	}
}

func TestVerifC44Neo(t *testing.T) {
	var in cnInput
	vhIn(&in)
	out := vhOpenOut()
	defer out.Close()
	bw := bxNewWorld(config.NETWORK_ID_SOLO_NET, 5851)
	defer bw.Close()
	tin := txIn{KU: 1000, Roles: []string{"P"}}
	tw := &txWorld{w: bw, in: &tin, ku: big.NewInt(1000), hits: map[string]int{}}
	tw.newGroup()
	gasTable := tw.gasTable()
	w := &cnWorld{t: tw, in: &in, height: 10}
	for pi, segs := range in.Paths {
		w.salt = pi + 1
		w.ovl = bw.store.stateStore.NewOverlayDB()
		cache := storage.NewCacheDB(w.ovl)
		for si, seg := range segs {
			o := cnObs{Path: pi, Seg: si, State: -1}
			func() {
				defer func() {
					if r := recover(); r != nil {
						o.Err += fmt.Sprintf("panic: %v;", r)
					}
				}()
				if seg.Commit {
					o.Kind = "commit"
					bw.store.stateStore.NewBatch()
					w.ovl.CommitTo()
					vhMust(bw.store.stateStore.CommitTo())
					w.ovl = bw.store.stateStore.NewOverlayDB()
					cache = storage.NewCacheDB(w.ovl)
				} else {
					o.Kind = "tx"
					var tx *types.Transaction
					if len(seg.Tx.Acts) == 1 && (seg.Tx.Acts[0].Name == "Deploy" || seg.Tx.Acts[0].Name == "DeployRefused") && seg.Tx.End == "CacheCommit" {
						o.Kind = "deploytx"
						tx = tw.signedTx(nil, bw.gacc, 0, 30000000, nil, types.Deploy, w.deployCode(seg.Tx.Acts[0].C))
					} else {
						tx = tw.signedTx(w.script(seg.Tx), bw.gacc, 0, 2000000000, nil, types.InvokeNeo, nil)
					}
					w.height++
					blk := &types.Block{Header: &types.Header{Height: w.height, Timestamp: bxGenesisTime() + w.height}, Transactions: []*types.Transaction{tx}}
					cache.Reset() // what executeBlock does before every transaction
					// as LedgerStoreImp.handleTransaction does, but keeping the handler's error text for the report
					notify := &event.ExecuteNotify{TxHash: tx.Hash(), State: event.CONTRACT_STATE_FAIL}
					var err error
					if tx.TxType == types.Deploy {
						err = bw.store.stateStore.HandleDeployTransaction(bw.store, w.ovl, gasTable, cache, tx, blk, notify)
					} else {
						_, err = bw.store.stateStore.HandleInvokeTransaction(bw.store, w.ovl, gasTable, cache, tx, blk, notify)
					}
					if w.ovl.Error() != nil {
						o.Err += "overlay error: " + w.ovl.Error().Error() + ";"
					}
					if err != nil {
						o.Note = err.Error()
					}
					o.State = int(notify.State)
				}
				w.observe(&o)
			}()
			out.Emit(o)
		}
	}
}

var _ = event.CONTRACT_STATE_FAIL
