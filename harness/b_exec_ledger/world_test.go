package ledgerstore

// Shared set-up of the b-exec harnesses (C05, C06, C07): a REAL ledger store created from the
// repository's own genesis block, so that every native contract is initialised by the genesis
// transactions.  One configuration per process (config.DefConfig is a process global).

import (
	"encoding/hex"
	"fmt"
	"math"
	"math/big"
	"os"
	"path/filepath"
	"testing"

	"github.com/laizy/bigint"
	"github.com/ontio/ontology-crypto/keypair"
	"github.com/ontio/ontology/account"
	"github.com/ontio/ontology/common"
	"github.com/ontio/ontology/common/config"
	"github.com/ontio/ontology/common/constants"
	"github.com/ontio/ontology/common/log"
	"github.com/ontio/ontology/core/genesis"
	"github.com/ontio/ontology/core/store/overlaydb"
	"github.com/ontio/ontology/core/types"
	"github.com/ontio/ontology/smartcontract"
	"github.com/ontio/ontology/smartcontract/service/native/utils"
	"github.com/ontio/ontology/smartcontract/storage"
)

func TestMain(m *testing.M) {
	log.InitLog(log.FatalLog) // no writers: discard
	os.Exit(m.Run())
}

type bxWorld struct {
	dir    string
	store  *LedgerStoreImp
	gacc   *account.Account // the genesis holder (single bookkeeper): owns all ONT
	gaddr  common.Address
	height uint32 // Height used for direct native calls (all height switches passed)
}

// bxNewWorld creates the ledger.  netID: config.NETWORK_ID_SOLO_NET (3) gives all ONG to the genesis
// holder and no holder unbound deadline; config.NETWORK_ID_POLARIS_NET (2) keeps the ONG in the ONT
// contract and has the deadline at CHANGE_UNBOUND_TIMESTAMP_POLARIS.
func bxNewWorld(netID uint32, evmChainID uint32) *bxWorld {
	base := os.Getenv("VERIF_SCRATCH")
	if base == "" {
		base = os.TempDir()
	}
	dir, err := os.MkdirTemp(base, "b-exec-ledger-")
	vhMust(err)
	acct := account.NewAccount("")
	buf := keypair.SerializePublicKey(acct.PublicKey)
	config.DefConfig.Genesis.ConsensusType = "solo"
	config.DefConfig.Genesis.SOLO.GenBlockTime = 3
	config.DefConfig.Genesis.SOLO.Bookkeepers = []string{hex.EncodeToString(buf)}
	config.DefConfig.P2PNode.NetworkId = netID
	config.DefConfig.P2PNode.EVMChainId = evmChainID
	config.DefConfig.Common.EnableEventLog = true
	bookkeepers := []keypair.PublicKey{acct.PublicKey}
	blk, err := genesis.BuildGenesisBlock(bookkeepers, config.DefConfig.Genesis)
	vhMust(err)
	st, err := NewLedgerStore(filepath.Join(dir, "ledger"), 0)
	vhMust(err)
	vhMust(st.InitLedgerStoreWithGenesisBlock(blk, bookkeepers))
	return &bxWorld{dir: dir, store: st, gacc: acct, gaddr: acct.Address, height: 100}
}

func (w *bxWorld) Close() {
	w.store.Close()
	os.RemoveAll(w.dir)
}

type bxCallRes struct {
	Ret   []byte
	Err   error
	Panic string
}

// nativeCall: what HandleInvokeTransaction does around a native invocation, without the gas part:
// a fresh transaction cache on the block overlay, a SmartContract with the block's time/height and the
// transaction (whose SignedAddr is what CheckWitness reads), NativeCall, commit on success, drop on error.
func (w *bxWorld) nativeCall(ovl *overlaydb.OverlayDB, contract common.Address, method string, args []byte,
	signers []common.Address, time uint32, commit bool) (res bxCallRes) {
	cache := storage.NewCacheDB(ovl)
	tx := &types.Transaction{TxType: types.InvokeNeo, SignedAddr: append([]common.Address{}, signers...)}
	if len(tx.SignedAddr) == 0 {
		tx.SignedAddr = []common.Address{{0xfe, 0xfe}} // nobody (an empty list would be recomputed from Sigs: also nobody)
	}
	sc := smartcontract.SmartContract{
		Config:  &smartcontract.Config{Time: time, Height: w.height, Tx: tx},
		CacheDB: cache,
		Store:   w.store,
		Gas:     math.MaxUint64,
	}
	defer func() {
		if r := recover(); r != nil {
			res.Panic = fmt.Sprint(r)
			res.Err = fmt.Errorf("panic: %v", r)
		}
	}()
	svc, err := sc.NewNativeService()
	vhMust(err)
	ret, err := svc.NativeCall(contract, method, args)
	res.Ret, res.Err = ret, err
	if err == nil && commit {
		cache.Commit()
	}
	return
}

// tokenValue reads a balance (owner) or allowance (owner, spender) in the smallest (V2) unit.
func (w *bxWorld) tokenValue(ovl *overlaydb.OverlayDB, contract common.Address, time uint32, owner common.Address, spender *common.Address) *big.Int {
	sink := common.NewZeroCopySink(nil)
	utils.EncodeAddress(sink, owner)
	method := "balanceOfV2"
	if spender != nil {
		utils.EncodeAddress(sink, *spender)
		method = "allowanceV2"
	}
	r := w.nativeCall(ovl, contract, method, sink.Bytes(), nil, time, false)
	vhMust(r.Err)
	return common.BigIntFromNeoBytes(r.Ret)
}

// tokenSupplyInStorage sums every balance entry (key = contract || holder, 40 bytes) of a token
// as the layered storage shows it: the "sum of all balances" of the property, over all holders.
func (w *bxWorld) tokenSupplyInStorage(ovl *overlaydb.OverlayDB, contract common.Address) *big.Int {
	cache := storage.NewCacheDB(ovl)
	it := cache.NewIterator(contract[:])
	defer it.Release()
	sum := new(big.Int)
	for ok := it.First(); ok; ok = it.Next() {
		if len(it.Key()) != 40 {
			continue
		}
		v, err := utils.GetNativeTokenBalance(cache, it.Key())
		vhMust(err)
		sum.Add(sum, v.ToBigInt())
	}
	vhMust(it.Error())
	return sum
}

func bxGenesisTime() uint32 { return constants.GENESIS_BLOCK_TIMESTAMP }

func bigintOf(v *big.Int) bigint.Int { return bigint.New(v) }
