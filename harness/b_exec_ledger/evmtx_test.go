package ledgerstore

// C07 harness: real signed EIP-155 transactions applied through StateStore.HandleEIP155Transaction on a
// transaction cache over a block overlay of a real (solo, non-mainnet chain id) ledger.  Hand-assembled
// bytecode per target kind; all ONG balances (OngBalanceHandle), sender nonces and the sum of ALL ONG
// balance entries in storage are read back after every transaction.

import (
	"crypto/ecdsa"
	"encoding/hex"
	"fmt"
	"math/big"
	"sort"
	"testing"

	ethcomm "github.com/ethereum/go-ethereum/common"
	ethtypes "github.com/ethereum/go-ethereum/core/types"
	"github.com/ethereum/go-ethereum/crypto"
	"github.com/ontio/ontology/common"
	"github.com/ontio/ontology/common/config"
	"github.com/ontio/ontology/core/store/overlaydb"
	"github.com/ontio/ontology/smartcontract/event"
	evm2 "github.com/ontio/ontology/smartcontract/service/evm"
	"github.com/ontio/ontology/smartcontract/service/native/ong"
	"github.com/ontio/ontology/smartcontract/service/native/ont"
	"github.com/ontio/ontology/smartcontract/service/native/utils"
	"github.com/ontio/ontology/smartcontract/storage"
)

const evChainID = 12345 // not the mainnet id (58)

type evTx struct {
	S      string `json:"s"`
	To     string `json:"to"`               // R | NEW | FWD | SDO | SDS | STO | REV | LOOP | B
	Nd     int    `json:"nd"`               // nonce of the transaction = account nonce + nd
	GlMode string `json:"glmode"`           // below | exact | plus | abs
	Gl     uint64 `json:"gl"`               // plus: intrinsic + gl, abs: gl
	Gp     int64  `json:"gp"`               // gwei
	V      int64  `json:"v"`                // gwei
	Data   string `json:"data,omitempty"`   // hex init code for a creation with arbitrary bytecode
	SetBal *int64 `json:"setbal,omitempty"` // first set the sender's balance to this many gwei (native transfer), -1: derive from class
	Class  string `json:"class,omitempty"`  // zero | lt | ge : balance relative to gasLimit*gasPrice+value
	Height uint32 `json:"height,omitempty"`
	Tag    string `json:"tag,omitempty"`
}

type evGroup struct {
	Fund map[string]int64 `json:"fund"` // gwei for senders and pre-loaded contract balances
	Txs  []evTx           `json:"txs"`
}

type evIn struct {
	Senders []string  `json:"senders"`
	Groups  []evGroup `json:"groups"`
}

type evEvent struct {
	Event   string           `json:"event"` // Config | Reset | Applied | Rejected
	S       string           `json:"s,omitempty"`
	To      string           `json:"to,omitempty"`
	Nd      int              `json:"nd"`
	Gl      uint64           `json:"gl"`
	Gp      int64            `json:"gp"`
	V       int64            `json:"v"`
	Intr    uint64           `json:"intr"`
	Used    uint64           `json:"used"`
	Ok      bool             `json:"ok"`
	Err     string           `json:"err,omitempty"`
	Bal     map[string]int64 `json:"bal"`
	Nonce   map[string]int64 `json:"nonce"`
	Alive   []string         `json:"alive"`
	Burnt   int64            `json:"burnt"`
	Frac    []string         `json:"frac,omitempty"`
	Changed bool             `json:"changed"` // Rejected: the overlay's change hash moved or a read through the cache differs
	Tag     string           `json:"tag,omitempty"`
	Senders []string         `json:"senders,omitempty"`
	Kinds   map[string]string `json:"kinds,omitempty"`
	Height  uint32           `json:"height"`
	Receipt uint64           `json:"receipt_status"`
}

var evKinds = map[string]string{"FWD": "fwd", "SDO": "sdo", "SDS": "sds", "STO": "sto", "REV": "rev", "LOOP": "loop",
	"DD2": "dd2", "DD0": "dd0", "DDS": "dds", "DRD": "drd", "RW": "rw"}

// value of the inner CALLs of the caller contracts: 1000 gwei
var evInnerWei = []byte{0xe8, 0xd4, 0xa5, 0x10, 0x00}

type evWorld struct {
	w       *bxWorld
	in      *evIn
	ovl     *overlaydb.OverlayDB
	keys    map[string]*ecdsa.PrivateKey
	addr    map[string]ethcomm.Address
	created []ethcomm.Address
	fee0    *big.Int
	supply0 *big.Int
	time    uint32
	height  uint32
	txIndex uint32
}

var gwei = big.NewInt(1000000000)

func evInitCode(runtime []byte) []byte {
	// PUSH1 len DUP1 PUSH1 0x0b PUSH1 0 CODECOPY PUSH1 0 RETURN  ++ runtime
	return append([]byte{0x60, byte(len(runtime)), 0x80, 0x60, 0x0b, 0x60, 0x00, 0x39, 0x60, 0x00, 0xf3}, runtime...)
}

// evCall: CALL(gas, to, value, 0, 0, 0, 0); POP.  value: nil = 0, "cv" = CALLVALUE, else PUSH5 wei
func evCall(to ethcomm.Address, value string) []byte {
	c := []byte{0x60, 0x00, 0x60, 0x00, 0x60, 0x00, 0x60, 0x00}
	switch value {
	case "":
		c = append(c, 0x60, 0x00)
	case "cv":
		c = append(c, 0x34)
	default:
		c = append(append(c, 0x64), evInnerWei...)
	}
	c = append(c, 0x73)
	c = append(c, to[:]...)
	return append(c, 0x5a, 0xf1, 0x50)
}

func (e *evWorld) runtime(kind string) []byte {
	switch kind {
	case "dd2": // destruct the victim, re-fund it, destruct it again - in one transaction
		return append(append(evCall(e.addr["SDO"], "amt"), evCall(e.addr["SDO"], "amt")...), 0x00)
	case "dd0":
		return append(append(evCall(e.addr["SDO"], ""), evCall(e.addr["SDO"], "")...), 0x00)
	case "dds":
		return append(append(evCall(e.addr["SDS"], "amt"), evCall(e.addr["SDS"], "amt")...), 0x00)
	case "drd": // destruct inside a frame that is reverted, then destruct for real
		return append(append(evCall(e.addr["RW"], "amt"), evCall(e.addr["SDO"], "amt")...), 0x00)
	case "rw": // CALL(victim, callvalue); REVERT(0, 0)
		return append(evCall(e.addr["SDO"], "cv"), 0x60, 0x00, 0x60, 0x00, 0xfd)
	case "fwd": // CALL(gas, R, callvalue, 0,0,0,0); STOP
		c := []byte{0x60, 0x00, 0x60, 0x00, 0x60, 0x00, 0x60, 0x00, 0x34, 0x73}
		r := e.addr["R"]
		c = append(c, r[:]...)
		return append(c, 0x5a, 0xf1, 0x00)
	case "sdo": // PUSH20 B SELFDESTRUCT
		b := e.addr["B"]
		return append(append([]byte{0x73}, b[:]...), 0xff)
	case "sds": // ADDRESS SELFDESTRUCT
		return []byte{0x30, 0xff}
	case "sto": // SSTORE(0, 1) STOP
		return []byte{0x60, 0x01, 0x60, 0x00, 0x55, 0x00}
	case "rev": // REVERT(0, 0)
		return []byte{0x60, 0x00, 0x60, 0x00, 0xfd}
	case "loop": // JUMPDEST PUSH1 0 JUMP
		return []byte{0x5b, 0x60, 0x00, 0x56}
	}
	panic("unknown kind " + kind)
}

func (e *evWorld) native(method string, from, to common.Address, v *big.Int) {
	st := ont.TransferStatesV2{States: []*ont.TransferStateV2{{From: from, To: to}}}
	st.States[0].Value.Balance = bigintOf(v)
	r := e.w.nativeCall(e.ovl, utils.OngContractAddress, "transferV2", common.SerializeToBytes(&st), []common.Address{from}, e.time, true)
	if r.Err != nil {
		panic(fmt.Sprintf("set-up ONG transfer failed: %v", r.Err))
	}
}

func (e *evWorld) balance(a ethcomm.Address) *big.Int {
	v, err := ong.OngBalanceHandle{}.GetBalance(storage.NewCacheDB(e.ovl), common.Address(a))
	vhMust(err)
	return v
}

func (e *evWorld) setBalance(a ethcomm.Address, target *big.Int) {
	cur := e.balance(a)
	switch cur.Cmp(target) {
	case -1:
		e.native("transferV2", e.w.gaddr, common.Address(a), new(big.Int).Sub(target, cur))
	case 1:
		e.native("transferV2", common.Address(a), e.w.gaddr, new(big.Int).Sub(cur, target))
	}
}

func (e *evWorld) signed(key *ecdsa.PrivateKey, nonce uint64, to *ethcomm.Address, v *big.Int, gl uint64, gp *big.Int, data []byte) *ethtypes.Transaction {
	var tx *ethtypes.Transaction
	if to == nil {
		tx = ethtypes.NewContractCreation(nonce, v, gl, gp, data)
	} else {
		tx = ethtypes.NewTransaction(nonce, *to, v, gl, gp, data)
	}
	stx, err := ethtypes.SignTx(tx, ethtypes.NewEIP155Signer(big.NewInt(evChainID)), key)
	vhMust(err)
	return stx
}

type evResult struct {
	err     error
	used    uint64
	failed  bool
	vmerr   string
	status  uint64
	changed bool
}

func (e *evWorld) nonceOf(cache *storage.CacheDB, a ethcomm.Address) uint64 {
	acct, err := cache.GetEthAccount(a)
	vhMust(err)
	return acct.Nonce
}

// apply: exactly what handleTransaction does for an EIP155 transaction, on a transaction cache over the overlay
func (e *evWorld) apply(tx *ethtypes.Transaction, height uint32) (r evResult) {
	cache := storage.NewCacheDB(e.ovl)
	before := e.ovl.ChangeHash()
	type snap struct {
		bal   string
		nonce uint64
	}
	view := func() map[string]snap {
		m := map[string]snap{}
		for n, a := range e.addr {
			b, err := ong.OngBalanceHandle{}.GetBalance(cache, common.Address(a))
			vhMust(err)
			m[n] = snap{b.String(), e.nonceOf(cache, a)}
		}
		return m
	}
	pre := view()
	e.txIndex++
	ctx := Eip155Context{BlockHash: common.Uint256{byte(e.txIndex), 1}, TxIndex: e.txIndex, Height: height, Timestamp: e.time}
	notify := &event.ExecuteNotify{}
	res, receipt, err := e.w.store.stateStore.HandleEIP155Transaction(e.w.store, cache, tx, ctx, notify, true)
	if err != nil {
		r.err = err
		e.ovl.SetError(nil) // the real ledger drops the whole block here; the harness continues on the same overlay
		post := view()
		for n := range pre {
			if pre[n] != post[n] {
				r.changed = true
			}
		}
		if e.ovl.ChangeHash() != before {
			r.changed = true
		}
		return
	}
	r.used = res.UsedGas
	r.failed = res.Failed()
	if res.Err != nil {
		r.vmerr = res.Err.Error()
	}
	r.status = receipt.Status
	return
}

func (e *evWorld) newGroup(g *evGroup) {
	e.ovl = e.w.store.stateStore.NewOverlayDB()
	e.keys = map[string]*ecdsa.PrivateKey{}
	e.addr = map[string]ethcomm.Address{}
	e.created = nil
	mk := func(n string) {
		k, err := crypto.GenerateKey()
		vhMust(err)
		e.keys[n] = k
		e.addr[n] = crypto.PubkeyToAddress(k.PublicKey)
	}
	for _, s := range e.in.Senders {
		mk(s)
	}
	mk("R")
	mk("B")
	mk("DEPLOYER")
	e.addr["FEE"] = ethcomm.Address(utils.GovernanceContractAddress)
	// deploy the contracts with real creation transactions
	dep := e.addr["DEPLOYER"]
	e.setBalance(dep, new(big.Int).Mul(big.NewInt(100000000), gwei))
	names := make([]string, 0, len(evKinds))
	for n := range evKinds {
		names = append(names, n)
	}
	sort.Strings(names)
	for i, n := range names { // the contracts refer to each other: fix all addresses first
		e.addr[n] = crypto.CreateAddress(dep, uint64(i))
	}
	for i, n := range names {
		tx := e.signed(e.keys["DEPLOYER"], uint64(i), nil, new(big.Int), 300000, gwei, evInitCode(e.runtime(evKinds[n])))
		r := e.apply(tx, e.height)
		if r.err != nil || r.failed {
			panic(fmt.Sprintf("deploying %s failed: %v %s", n, r.err, r.vmerr))
		}
		e.addr[n] = crypto.CreateAddress(dep, uint64(i))
		code, err := storage.NewStateDB(storage.NewCacheDB(e.ovl), ethcomm.Hash{}, ethcomm.Hash{}, ong.OngBalanceHandle{}).GetCode(e.addr[n]), error(nil)
		vhMust(err)
		if hex.EncodeToString(code) != hex.EncodeToString(e.runtime(evKinds[n])) {
			panic("deployed code differs for " + n)
		}
	}
	delete(e.addr, "DEPLOYER")
	for n, v := range g.Fund {
		e.setBalance(e.addr[n], new(big.Int).Mul(big.NewInt(v), gwei))
	}
	e.fee0 = e.balance(e.addr["FEE"])
	e.supply0 = e.w.tokenSupplyInStorage(e.ovl, utils.OngContractAddress)
}

func (e *evWorld) observe(ev *evEvent) {
	ev.Bal = map[string]int64{}
	ev.Nonce = map[string]int64{}
	conv := func(what string, v *big.Int) int64 {
		q, r := new(big.Int).QuoRem(v, gwei, new(big.Int))
		if r.Sign() != 0 || !q.IsInt64() || q.Int64() > 2000000000 || q.Int64() < -2000000000 {
			ev.Frac = append(ev.Frac, what+"="+v.String())
			return -1
		}
		return q.Int64()
	}
	cache := storage.NewCacheDB(e.ovl)
	for n, a := range e.addr {
		b := e.balance(a)
		if n == "FEE" {
			b.Sub(b, e.fee0)
		}
		ev.Bal[n] = conv("bal."+n, b)
	}
	sum := new(big.Int)
	for _, a := range e.created {
		sum.Add(sum, e.balance(a))
	}
	ev.Bal["NEW"] = conv("bal.NEW", sum)
	for _, s := range e.in.Senders {
		ev.Nonce[s] = int64(e.nonceOf(cache, e.addr[s]))
	}
	ev.Alive = []string{}
	sdb := storage.NewStateDB(cache, ethcomm.Hash{}, ethcomm.Hash{}, ong.OngBalanceHandle{})
	for n := range evKinds {
		if len(sdb.GetCode(e.addr[n])) > 0 {
			ev.Alive = append(ev.Alive, n)
		}
	}
	sort.Strings(ev.Alive)
	ev.Burnt = conv("burnt", new(big.Int).Sub(e.supply0, e.w.tokenSupplyInStorage(e.ovl, utils.OngContractAddress)))
}

func TestVerifEvmTx(t *testing.T) {
	var in evIn
	vhIn(&in)
	out := vhOpenOut()
	defer out.Close()
	w := bxNewWorld(config.NETWORK_ID_SOLO_NET, evChainID)
	defer w.Close()
	e := &evWorld{w: w, in: &in, time: bxGenesisTime() + 1000, height: 100}
	first := true
	for gi := range in.Groups {
		g := &in.Groups[gi]
		e.newGroup(g)
		reset := func() {
			ev := evEvent{Event: "Reset"}
			e.observe(&ev)
			if first {
				ev.Event = "Config"
				ev.Senders = in.Senders
				ev.Kinds = evKinds
				first = false
			}
			out.Emit(&ev)
		}
		reset()
		for ti := range g.Txs {
			x := &g.Txs[ti]
			s := e.addr[x.S]
			var to *ethcomm.Address
			var data []byte
			if x.To == "NEW" {
				if x.Data != "" {
					var err error
					data, err = hex.DecodeString(x.Data)
					vhMust(err)
				} else {
					data = evInitCode(e.runtime("sto"))
				}
			} else {
				a := e.addr[x.To]
				to = &a
			}
			intr := evm2.IntrinsicGas(data, to == nil, true, true)
			gl := x.Gl
			switch x.GlMode {
			case "below":
				gl = intr - 1
				if x.Gl < gl {
					gl -= x.Gl
				} else {
					gl = 0
				}
			case "exact":
				gl = intr
			case "plus":
				gl = intr + x.Gl
			}
			if x.Class != "" {
				cost := new(big.Int).Mul(new(big.Int).SetUint64(gl), big.NewInt(x.Gp))
				cost.Add(cost, big.NewInt(x.V))
				target := new(big.Int)
				switch x.Class {
				case "lt":
					target.Div(cost, big.NewInt(2))
				case "ge":
					target.Add(cost, big.NewInt(5000))
				}
				e.setBalance(s, target.Mul(target, gwei))
				reset()
			} else if x.SetBal != nil {
				e.setBalance(s, new(big.Int).Mul(big.NewInt(*x.SetBal), gwei))
				reset()
			}
			cur := e.nonceOf(storage.NewCacheDB(e.ovl), s)
			n := int64(cur) + int64(x.Nd)
			if n < 0 {
				n = int64(cur) + 1
				x.Nd = 1
			}
			height := e.height
			if x.Height != 0 {
				height = x.Height
			}
			tx := e.signed(e.keys[x.S], uint64(n), to, new(big.Int).Mul(big.NewInt(x.V), gwei), gl, new(big.Int).Mul(big.NewInt(x.Gp), gwei), data)
			r := e.apply(tx, height)
			ev := evEvent{Event: "Applied", S: x.S, To: x.To, Nd: x.Nd, Gl: gl, Gp: x.Gp, V: x.V, Intr: intr, Used: r.used, Ok: !r.failed,
				Err: r.vmerr, Tag: x.Tag, Height: height, Receipt: r.status}
			if r.err != nil {
				ev.Event, ev.Ok, ev.Err, ev.Changed = "Rejected", false, r.err.Error(), r.changed
			} else if to == nil && !r.failed {
				e.created = append(e.created, crypto.CreateAddress(s, uint64(n)))
			}
			if len(ev.Err) > 120 {
				ev.Err = ev.Err[:120]
			}
			e.observe(&ev)
			out.Emit(&ev)
		}
	}
}
