package ledgerstore

// C06 harness: replay of TLC edges (spec/Token.tla) on the real ONT/ONG native contracts and recording
// of random histories for TLC trace validation (spec/Token_Trace.tla).
//
// Configuration of the process: solo consensus (one bookkeeper = genesis holder G of all ONT) with the
// Polaris network id, so that the ONG supply sits in the ONT contract and the holder-unbound deadline
// exists (on the solo id the deadline is 0 and no ONG ever accrues).  Every height switch of that id is 0.

import (
	"fmt"
	"math/big"
	"math/rand"
	"sort"
	"testing"

	"github.com/ontio/ontology/common"
	"github.com/ontio/ontology/common/config"
	"github.com/ontio/ontology/common/constants"
	cstates "github.com/ontio/ontology/core/states"
	"github.com/ontio/ontology/core/store/overlaydb"
	"github.com/ontio/ontology/smartcontract/service/native/ont"
	"github.com/ontio/ontology/smartcontract/service/native/utils"
	"github.com/ontio/ontology/smartcontract/storage"
)

type tkState struct {
	Bal   map[string]map[string]int64            `json:"bal"`
	Allow map[string]map[string]map[string]int64 `json:"allow"`
	Phase string                                 `json:"phase"`
}

type tkSt struct {
	From string `json:"from"`
	To   string `json:"to"`
	V    int64  `json:"v"`
}

type tkAct struct {
	Name    string   `json:"name"`
	T       string   `json:"t"`
	Ver     int      `json:"ver"`
	Sts     []tkSt   `json:"sts,omitempty"`
	Sender  string   `json:"sender,omitempty"`
	From    string   `json:"from,omitempty"`
	To      string   `json:"to,omitempty"`
	V       int64    `json:"v"`
	Signers []string `json:"signers"`
	Ph      string   `json:"ph"`
}

type tkPath struct {
	Init  tkState `json:"init"`
	Steps []tkAct `json:"steps"`
}

type tkIn struct {
	Users []string `json:"users"`
	OC    string   `json:"oc"`
	SF    int64    `json:"sf"`
	Huge  int64    `json:"huge"`
	Paths []tkPath `json:"paths"`
	// trace mode
	NTraces int   `json:"ntraces"`
	NSteps  int   `json:"nsteps"`
	MaxDt   int   `json:"maxdt"`
	OntInit int64 `json:"ontinit"` // max initial ONT balance of a user (model units)
	OngInit int64 `json:"onginit"`
	Pool    int64 `json:"pool"` // model value standing for the ONT contract's ONG balance at the start
}

type tkObs struct {
	Path   int               `json:"path"`
	Step   int               `json:"step"`
	Ok     bool              `json:"ok"`
	Err    string            `json:"err,omitempty"`
	Panic  string            `json:"panic,omitempty"`
	State  tkState           `json:"state"`
	Frac   []string          `json:"frac,omitempty"`   // values that are not a whole number of model units
	Supply map[string]string `json:"supply"`           // change of the sum over ALL balance entries in storage (smallest unit)
	GOnt   string            `json:"gont"`             // change of the genesis holder's ONT balance (never a party)
}

type tkWorld struct {
	w       *bxWorld
	in      *tkIn
	ovl     *overlaydb.OverlayDB
	addr    map[string]common.Address
	unit    *big.Int
	time    uint32
	tPre    uint32
	tPost   uint32
	ocBase  *big.Int
	ocModel int64
	supply0 map[string]*big.Int
	gOnt0   *big.Int
	rot     int
}

var tkContracts = map[string]common.Address{"ont": utils.OntContractAddress, "ong": utils.OngContractAddress}

func tkNewWorld(w *bxWorld, in *tkIn) *tkWorld {
	t := &tkWorld{w: w, in: in, addr: map[string]common.Address{}}
	for i, u := range in.Users {
		var a common.Address
		for j := range a {
			a[j] = byte(0xA0 + i)
		}
		a[0] = 0x11
		t.addr[u] = a
	}
	t.addr[in.OC] = utils.OntContractAddress
	if 1000000000%in.SF != 0 {
		panic("SF must divide 10^9")
	}
	t.unit = big.NewInt(1000000000 / in.SF)
	dl := config.GetOntHolderUnboundDeadline()
	if dl == 0 {
		panic("this harness needs a network id with a holder unbound deadline")
	}
	t.tPre = constants.GENESIS_BLOCK_TIMESTAMP + dl - 100000
	t.tPost = constants.GENESIS_BLOCK_TIMESTAMP + dl + 100000
	return t
}

func (t *tkWorld) accounts() []string { return append(append([]string{}, t.in.Users...), t.in.OC) }

func (t *tkWorld) real(v int64) *big.Int { return new(big.Int).Mul(big.NewInt(v), t.unit) }

func (t *tkWorld) must(r bxCallRes, what string) {
	if r.Err != nil {
		panic(fmt.Sprintf("set-up call %s failed: %v", what, r.Err))
	}
}

func tkV2Args(from, to common.Address, v *big.Int) []byte {
	s := ont.TransferStatesV2{States: []*ont.TransferStateV2{{From: from, To: to, Value: cstates.NativeTokenBalance{Balance: bigintOf(v)}}}}
	return common.SerializeToBytes(&s)
}

// setup brings a fresh block overlay to the model's initial state, using only the real contracts:
// the genesis holder G distributes ONT, claims accrued ONG from the ONT contract and distributes it,
// the users approve the initial allowances.  All at one block time, so that every party's unbound
// offset equals that time afterwards (no accrual during calls at the same time).
func (t *tkWorld) setup(init *tkState, time uint32) {
	w := t.w
	t.ovl = w.store.stateStore.NewOverlayDB()
	t.time = time
	G := w.gaddr
	sg := []common.Address{G}
	one := new(big.Int).SetUint64(1000000000)
	t.must(w.nativeCall(t.ovl, utils.OntContractAddress, "transferV2", tkV2Args(G, G, one), sg, time, true), "G->G ont")
	for _, u := range t.in.Users {
		if v := init.Bal["ont"][u]; v > 0 {
			t.must(w.nativeCall(t.ovl, utils.OntContractAddress, "transferV2", tkV2Args(G, t.addr[u], t.real(v)), sg, time, true), "G->user ont")
		}
	}
	// G's accrued ONG: an allowance from the ONT contract before the deadline, a balance after it
	for _, u := range t.in.Users {
		v := init.Bal["ong"][u]
		if v == 0 {
			continue
		}
		if time <= t.deadlineTime() {
			st := ont.TransferFromStateV2{Sender: G, TransferStateV2: ont.TransferStateV2{From: utils.OntContractAddress, To: t.addr[u],
				Value: cstates.NativeTokenBalance{Balance: bigintOf(t.real(v))}}}
			t.must(w.nativeCall(t.ovl, utils.OngContractAddress, "transferFromV2", common.SerializeToBytes(&st), sg, time, true), "claim ong")
		} else {
			t.must(w.nativeCall(t.ovl, utils.OngContractAddress, "transferV2", tkV2Args(G, t.addr[u], t.real(v)), sg, time, true), "G->user ong")
		}
	}
	for tok, m := range init.Allow {
		for owner, mm := range m {
			for spender, v := range mm {
				if v == 0 {
					continue
				}
				if owner == t.in.OC {
					panic("initial allowances of the ONT contract cannot be set up")
				}
				st := ont.TransferStateV2{From: t.addr[owner], To: t.addr[spender], Value: cstates.NativeTokenBalance{Balance: bigintOf(t.real(v))}}
				t.must(w.nativeCall(t.ovl, tkContracts[tok], "approveV2", common.SerializeToBytes(&st), []common.Address{t.addr[owner]}, time, true), "approve")
			}
		}
	}
	t.ocBase = w.tokenValue(t.ovl, utils.OngContractAddress, t.time, utils.OntContractAddress, nil)
	t.ocModel = init.Bal["ong"][t.in.OC]
	t.supply0 = map[string]*big.Int{}
	for tok, c := range tkContracts {
		t.supply0[tok] = w.tokenSupplyInStorage(t.ovl, c)
	}
	t.gOnt0 = w.tokenValue(t.ovl, utils.OntContractAddress, t.time, G, nil)
}

func (t *tkWorld) deadlineTime() uint32 {
	return constants.GENESIS_BLOCK_TIMESTAMP + config.GetOntHolderUnboundDeadline()
}

func (t *tkWorld) phase() string {
	if t.time <= t.deadlineTime() {
		return "pre"
	}
	return "post"
}

func (t *tkWorld) observe(o *tkObs) {
	st := tkState{Bal: map[string]map[string]int64{}, Allow: map[string]map[string]map[string]int64{}, Phase: t.phase()}
	accts := t.accounts()
	conv := func(what string, v *big.Int) int64 {
		q, r := new(big.Int).QuoRem(v, t.unit, new(big.Int))
		if r.Sign() != 0 || !q.IsInt64() || q.Int64() > 2000000000 || q.Int64() < -2000000000 {
			o.Frac = append(o.Frac, what+"="+v.String())
			return -1
		}
		return q.Int64()
	}
	// full read-back straight from the layered contract storage (one read cache on the block overlay) ...
	cache := storage.NewCacheDB(t.ovl)
	read := func(key []byte) *big.Int {
		v, err := utils.GetNativeTokenBalance(cache, key)
		vhMust(err)
		return v.ToBigInt()
	}
	for tok, c := range tkContracts {
		st.Bal[tok] = map[string]int64{}
		st.Allow[tok] = map[string]map[string]int64{}
		for _, a := range accts {
			v := read(ont.GenBalanceKey(c, t.addr[a]))
			if tok == "ong" && a == t.in.OC {
				v = new(big.Int).Sub(v, t.ocBase)
				v.Add(v, t.real(t.ocModel))
			}
			st.Bal[tok][a] = conv("bal."+tok+"."+a, v)
			st.Allow[tok][a] = map[string]int64{}
			for _, s := range accts {
				st.Allow[tok][a][s] = conv("allow."+tok+"."+a+"."+s, read(ont.GenApproveKey(c, t.addr[a], t.addr[s])))
			}
		}
	}
	// ... cross-checked against the contracts' own query methods for a rotating account pair
	t.rot++
	a, s := accts[t.rot%len(accts)], accts[(t.rot/len(accts))%len(accts)]
	sp := t.addr[s]
	for tok, c := range tkContracts {
		if x, y := t.w.tokenValue(t.ovl, c, t.time, t.addr[a], nil), read(ont.GenBalanceKey(c, t.addr[a])); x.Cmp(y) != 0 {
			o.Frac = append(o.Frac, fmt.Sprintf("balanceOfV2(%s.%s)=%s but storage holds %s", tok, a, x, y))
		}
		if x, y := t.w.tokenValue(t.ovl, c, t.time, t.addr[a], &sp), read(ont.GenApproveKey(c, t.addr[a], sp)); x.Cmp(y) != 0 {
			o.Frac = append(o.Frac, fmt.Sprintf("allowanceV2(%s.%s.%s)=%s but storage holds %s", tok, a, s, x, y))
		}
	}
	o.State = st
	o.Supply = map[string]string{}
	for tok, c := range tkContracts {
		o.Supply[tok] = new(big.Int).Sub(t.w.tokenSupplyInStorage(t.ovl, c), t.supply0[tok]).String()
	}
	o.GOnt = new(big.Int).Sub(read(ont.GenBalanceKey(utils.OntContractAddress, t.w.gaddr)), t.gOnt0).String()
}

// amount encodings: V1 = whole V1 units (model amount / SF), V2 = smallest units; Huge = supply + 1
func (t *tkWorld) v1(tok string, v int64) uint64 {
	if v == t.in.Huge {
		if tok == "ont" {
			return constants.ONT_TOTAL_SUPPLY + 1
		}
		return constants.ONG_TOTAL_SUPPLY + 1
	}
	if v%t.in.SF != 0 {
		panic("V1 amount is not a multiple of SF")
	}
	return uint64(v / t.in.SF)
}

func (t *tkWorld) v2(tok string, v int64) *big.Int {
	if v == t.in.Huge {
		if tok == "ont" {
			return new(big.Int).Add(new(big.Int).SetUint64(constants.ONT_TOTAL_SUPPLY_V2), big.NewInt(1))
		}
		return new(big.Int).Add(constants.ONG_TOTAL_SUPPLY_V2.BigInt(), big.NewInt(1))
	}
	return t.real(v)
}

func (t *tkWorld) apply(a *tkAct) (bool, string, string) {
	var signers []common.Address
	for _, s := range a.Signers {
		signers = append(signers, t.addr[s])
	}
	c := tkContracts[a.T]
	var method string
	var args []byte
	switch a.Name {
	case "Transfer":
		if a.Ver == 1 {
			method = "transfer"
			var s ont.TransferStates
			for _, x := range a.Sts {
				s.States = append(s.States, ont.TransferState{From: t.addr[x.From], To: t.addr[x.To], Value: t.v1(a.T, x.V)})
			}
			args = common.SerializeToBytes(&s)
		} else {
			method = "transferV2"
			var s ont.TransferStatesV2
			for _, x := range a.Sts {
				s.States = append(s.States, &ont.TransferStateV2{From: t.addr[x.From], To: t.addr[x.To], Value: cstates.NativeTokenBalance{Balance: bigintOf(t.v2(a.T, x.V))}})
			}
			args = common.SerializeToBytes(&s)
		}
	case "Approve":
		if a.Ver == 1 {
			method = "approve"
			args = common.SerializeToBytes(&ont.TransferState{From: t.addr[a.From], To: t.addr[a.To], Value: t.v1(a.T, a.V)})
		} else {
			method = "approveV2"
			args = common.SerializeToBytes(&ont.TransferStateV2{From: t.addr[a.From], To: t.addr[a.To], Value: cstates.NativeTokenBalance{Balance: bigintOf(t.v2(a.T, a.V))}})
		}
	case "TransferFrom":
		if a.Ver == 1 {
			method = "transferFrom"
			args = common.SerializeToBytes(ont.NewTransferFromState(t.addr[a.Sender], t.addr[a.From], t.addr[a.To], t.v1(a.T, a.V)))
		} else {
			method = "transferFromV2"
			args = common.SerializeToBytes(&ont.TransferFromStateV2{Sender: t.addr[a.Sender], TransferStateV2: ont.TransferStateV2{From: t.addr[a.From], To: t.addr[a.To],
				Value: cstates.NativeTokenBalance{Balance: bigintOf(t.v2(a.T, a.V))}}})
		}
	default:
		panic("unknown action " + a.Name)
	}
	r := t.w.nativeCall(t.ovl, c, method, args, signers, t.time, true)
	es := ""
	if r.Err != nil {
		es = r.Err.Error()
		if len(es) > 160 {
			es = es[:160]
		}
	}
	return r.Err == nil, es, r.Panic
}

func tkWorldConfig() *bxWorld { return bxNewWorld(config.NETWORK_ID_POLARIS_NET, 5851) }

// TestVerifTokenReplay: spec -> code.  Every path (initial state + action sequence from the TLC edge
// cover) is executed on a fresh block overlay; all balances and allowances are read back after each step.
func TestVerifTokenReplay(t *testing.T) {
	var in tkIn
	vhIn(&in)
	out := vhOpenOut()
	defer out.Close()
	w := tkWorldConfig()
	defer w.Close()
	tw := tkNewWorld(w, &in)
	for pi := range in.Paths {
		p := &in.Paths[pi]
		time := tw.tPre
		if len(p.Steps) > 0 && p.Steps[0].Ph == "post" {
			time = tw.tPost
		}
		tw.setup(&p.Init, time)
		o := tkObs{Path: pi, Step: 0, Ok: true}
		tw.observe(&o)
		out.Emit(&o)
		for si := range p.Steps {
			a := &p.Steps[si]
			if a.Ph == "post" {
				tw.time = tw.tPost // the model's phase is monotone; accrual between tPre and tPost is modelled by grants
			}
			o := tkObs{Path: pi, Step: si + 1}
			o.Ok, o.Err, o.Panic = tw.apply(a)
			tw.observe(&o)
			out.Emit(&o)
		}
	}
}

// ---------------------------------------------------------------------------------------------
// trace mode: seeded random histories over both tokens with advancing block times crossing the
// holder-unbound deadline; one NDJSON event per call with arguments, outcome and the full read-back.

type tkEvent struct {
	Event string `json:"event"`
	tkAct
	Dt     int               `json:"dt"`
	Ok     bool              `json:"ok"`
	Err    string            `json:"err,omitempty"`
	Bal    map[string]map[string]int64            `json:"bal"`
	Allow  map[string]map[string]map[string]int64 `json:"allow"`
	Phase  string            `json:"phase"`
	Supply map[string]string `json:"supply"`
	GOnt   string            `json:"gont"`
	Frac   []string          `json:"frac,omitempty"`
	Panic  string            `json:"panic,omitempty"`
}

func TestVerifTokenTrace(t *testing.T) {
	var in tkIn
	vhIn(&in)
	out := vhOpenOut()
	defer out.Close()
	rng := vhRand()
	w := tkWorldConfig()
	defer w.Close()
	tw := tkNewWorld(w, &in)
	for tr := 0; tr < in.NTraces; tr++ {
		init := tkState{Bal: map[string]map[string]int64{"ont": {}, "ong": {}}, Allow: map[string]map[string]map[string]int64{}}
		for _, u := range in.Users {
			if rng.Intn(5) > 0 {
				init.Bal["ont"][u] = rng.Int63n(in.OntInit + 1)
			}
			if rng.Intn(5) > 0 {
				init.Bal["ong"][u] = rng.Int63n(in.OngInit + 1)
			}
		}
		init.Bal["ong"][in.OC] = in.Pool
		// start shortly before (sometimes after) the deadline so that histories cross it
		start := tw.deadlineTime() - uint32(rng.Intn(20*in.MaxDt+1))
		if rng.Intn(6) == 0 {
			start = tw.deadlineTime() + 1 + uint32(rng.Intn(100))
		}
		tw.setup(&init, start)
		o := tkObs{}
		tw.observe(&o)
		ev := map[string]interface{}{"event": "Reset", "bal": o.State.Bal, "allow": o.State.Allow, "phase": o.State.Phase}
		if tr == 0 {
			ev["event"] = "Config"
			ev["users"] = in.Users
			ev["oc"] = in.OC
			ev["sf"] = in.SF
			ev["huge"] = in.Huge
		}
		if len(o.Frac) > 0 {
			ev["frac"] = o.Frac
		}
		out.Emit(ev)
		for s := 0; s < in.NSteps; s++ {
			dt := 0
			if rng.Intn(3) > 0 {
				dt = rng.Intn(in.MaxDt + 1)
			}
			tw.time += uint32(dt)
			a := tw.genAct(rng, &o.State)
			a.Ph = tw.phase()
			o = tkObs{}
			o.Ok, o.Err, o.Panic = tw.apply(&a)
			tw.observe(&o)
			sort.Strings(a.Signers)
			out.Emit(&tkEvent{Event: a.Name, tkAct: a, Dt: dt, Ok: o.Ok, Err: o.Err, Bal: o.State.Bal, Allow: o.State.Allow, Phase: o.State.Phase,
				Supply: o.Supply, GOnt: o.GOnt, Frac: o.Frac, Panic: o.Panic})
		}
	}
}

func (t *tkWorld) genAct(rng *rand.Rand, cur *tkState) tkAct {
	in := t.in
	user := func() string { return in.Users[rng.Intn(len(in.Users))] }
	a := tkAct{T: "ont", Ver: 1 + rng.Intn(2), Signers: []string{}}
	if rng.Intn(2) == 0 {
		a.T = "ong"
	}
	amount := func(limit int64) int64 {
		var v int64
		switch r := rng.Intn(20); {
		case r == 0:
			v = 0
		case r == 1:
			return in.Huge
		case r < 5:
			v = limit + 1 + rng.Int63n(in.SF*3) // over the limit
		case r < 8:
			v = limit // exactly the limit
		default:
			if limit > 0 {
				v = 1 + rng.Int63n(limit)
			}
		}
		if a.Ver == 1 {
			v -= v % in.SF
		}
		return v
	}
	need := ""
	switch r := rng.Intn(10); {
	case r < 4:
		a.Name = "Transfer"
		n := 1
		if rng.Intn(4) == 0 {
			n = 2
		}
		for i := 0; i < n; i++ {
			f := user()
			a.Sts = append(a.Sts, tkSt{From: f, To: user(), V: amount(cur.Bal[a.T][f])})
			if rng.Intn(5) > 0 {
				a.Signers = tkAdd(a.Signers, f)
			}
		}
	case r < 6:
		a.Name = "Approve"
		a.From, a.To = user(), user()
		a.V = amount(cur.Bal[a.T][a.From] + 3*in.SF)
		need = a.From
	default:
		a.Name = "TransferFrom"
		a.Sender, a.From, a.To = user(), user(), user()
		if a.T == "ong" && rng.Intn(3) == 0 {
			a.From = in.OC // claim accrued ONG
			if rng.Intn(2) == 0 {
				a.To = a.Sender
			}
		}
		lim := cur.Allow[a.T][a.From][a.Sender]
		if b := cur.Bal[a.T][a.From]; b < lim && rng.Intn(2) == 0 {
			lim = b
		}
		a.V = amount(lim)
		need = a.Sender
	}
	if need != "" && rng.Intn(5) > 0 {
		a.Signers = tkAdd(a.Signers, need)
	}
	if rng.Intn(3) == 0 {
		a.Signers = tkAdd(a.Signers, user())
	}
	return a
}

func tkAdd(xs []string, x string) []string {
	for _, y := range xs {
		if y == x {
			return xs
		}
	}
	return append(xs, x)
}
