package vconfig

// Harness of /verif for C30 (and the shuffle-hash tables C29/C30 feed to TLC).
//   TestVerifShuffleHash : evaluates the real shuffle_hash(txhash, height, id, i) % i for the model's key universe
//   TestVerifGenesis     : runs the real GenesisChainConfig on every case (a case = one Configure edge of
//                          spec/ChainConfig.tla: stake list in a given order, K, L, C, txhash, height)

import (
	"encoding/hex"
	"fmt"
	"testing"

	"github.com/ontio/ontology/common"
	"github.com/ontio/ontology/common/config"
)

type vhEnv struct {
	ID     int    `json:"id"`
	TxHash string `json:"txhash"` // 64 hex digits
	Height uint32 `json:"height"`
}

func (e vhEnv) hash() common.Uint256 {
	b, err := hex.DecodeString(e.TxHash)
	vhMust(err)
	h, err := common.Uint256ParseFromBytes(b)
	vhMust(err)
	return h
}

type vhHashIn struct {
	Keys []string `json:"keys"`
	IMax int      `json:"imax"`
	Envs []vhEnv  `json:"envs"`
}

func vhHashRow(e vhEnv, key string, imax int) []uint64 {
	row := make([]uint64, 0, imax)
	for i := 1; i <= imax; i++ {
		h, err := shuffle_hash(e.hash(), e.Height, key, i)
		vhMust(err)
		row = append(row, h%uint64(i))
	}
	return row
}

func TestVerifShuffleHash(t *testing.T) {
	var in vhHashIn
	vhIn(&in)
	out := vhOpenOut()
	defer out.Close()
	for _, e := range in.Envs {
		tab := [][]uint64{}
		for _, k := range in.Keys {
			tab = append(tab, vhHashRow(e, k, in.IMax))
		}
		out.Emit(map[string]interface{}{"id": e.ID, "t": tab})
	}
}

type vhPeer struct {
	Idx   uint32 `json:"idx"`
	Key   string `json:"key"`
	Stake uint64 `json:"stake"`
}

type vhGenCase struct {
	ID       int      `json:"id"`
	List     []vhPeer `json:"list"`
	K        uint32   `json:"K"`
	L        uint32   `json:"L"`
	C        uint32   `json:"C"`
	Env      vhEnv    `json:"env"`
	WithHash bool     `json:"with_hash"`
}

type vhPeerOut struct {
	Idx uint32 `json:"idx"`
	Key string `json:"key"`
}

type vhGenOut struct {
	ID       int                 `json:"id"`
	Res      string              `json:"res"` // ok | err | panic
	Err      string              `json:"err,omitempty"`
	N        uint32              `json:"N"`
	C        uint32              `json:"C"`
	Peers    []vhPeerOut         `json:"peers"`
	PosTable []uint32            `json:"posTable"`
	Sh       map[string][]uint64 `json:"sh,omitempty"`
}

func vhRunGenesis(c vhGenCase) (o vhGenOut) {
	o.ID = c.ID
	defer func() {
		if r := recover(); r != nil {
			o.Res = "panic"
			o.Err = fmt.Sprint(r)
		}
	}()
	peers := make([]*config.VBFTPeerStakeInfo, 0, len(c.List))
	for _, p := range c.List {
		peers = append(peers, &config.VBFTPeerStakeInfo{Index: p.Idx, PeerPubkey: p.Key, InitPos: p.Stake})
	}
	conf := &config.VBFTConfig{N: c.K, C: c.C, K: c.K, L: c.L, BlockMsgDelay: 10000, HashMsgDelay: 10000,
		PeerHandshakeTimeout: 10, MaxBlockChangeView: 1000}
	cc, err := GenesisChainConfig(conf, peers, c.Env.hash(), c.Env.Height)
	if err != nil {
		o.Res = "err"
		o.Err = err.Error()
		return
	}
	o.Res = "ok"
	o.N, o.C = cc.N, cc.C
	o.Peers = []vhPeerOut{}
	for _, p := range cc.Peers {
		o.Peers = append(o.Peers, vhPeerOut{p.Index, p.ID})
	}
	o.PosTable = append([]uint32{}, cc.PosTable...)
	return
}

func TestVerifGenesis(t *testing.T) {
	var in struct {
		Cases []vhGenCase `json:"cases"`
	}
	vhIn(&in)
	out := vhOpenOut()
	defer out.Close()
	for _, c := range in.Cases {
		o := vhRunGenesis(c)
		if c.WithHash {
			o.Sh = map[string][]uint64{}
			for _, p := range c.List {
				o.Sh[p.Key] = vhHashRow(c.Env, p.Key, int(c.L))
			}
		}
		out.Emit(o)
	}
}
