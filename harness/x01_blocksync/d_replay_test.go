package block_sync

// X01 harness, part 4: replay of TLC-generated behaviours of spec/BlockSync.tla on the real BlockSyncMgr.
// The internal step functions are called directly, so the schedule is the model's.

import (
	"fmt"
	"runtime"
	"testing"

	"github.com/ontio/ontology/core/types"
)

type xsAct struct {
	Name  string   `json:"name"`
	P     string   `json:"p"`
	H     int      `json:"h"`
	Bad   bool     `json:"bad"`
	Lo    int      `json:"lo"`
	Hi    int      `json:"hi"`
	Ng    int      `json:"ng"`
	Ord   []string `json:"ord"`
	Del   bool     `json:"del"`
	Hold  bool     `json:"hold"`
	Th    []int    `json:"th"`
	Tb    []int    `json:"tb"`
	First bool     `json:"first"`
	NReq  int      `json:"nreq"` // number of requests the model expects (position of the Send to pause in)
	Rej   bool     `json:"rej"`  // SaveBlock: the model expects a rejected block
}

type xsPath struct {
	Steps []xsAct `json:"steps"`
}

type xsInput struct {
	N     int            `json:"n"`
	Empty []int          `json:"empty"`
	Peers map[string]int `json:"peers"`
	Paths []xsPath       `json:"paths"`
}

type xsObs struct {
	Path    int        `json:"path"`
	Step    int        `json:"step"`
	Name    string     `json:"name"`
	State   xsState    `json:"state"`
	Reqs    []xsReq    `json:"reqs"`
	Adds    []xsAdd    `json:"adds"`
	HdrAdds []xsHdrAdd `json:"hdradds"`
	Err     string     `json:"err,omitempty"`
}

func xsSet(xs []int) map[int]bool {
	m := map[int]bool{}
	for _, x := range xs {
		m[x] = true
	}
	return m
}

// firstBadSource: the peer whose cached (tampered) block saveBlock will hit first
func (n *xsNode) firstBadSource() string {
	m := n.mgr
	m.lock.RLock()
	defer m.lock.RUnlock()
	for h := n.store.GetCurrentBlockHeight() + 1; ; h++ {
		e, ok := m.blocksCache.blocksCache[h]
		if !ok {
			return ""
		}
		if int(h) <= n.chain.n && e.block == n.chain.bad[h] {
			return n.net.name(e.nodeID)
		}
	}
}

func (n *xsNode) step(a xsAct) (errText string) {
	m := n.mgr
	c := n.chain
	defer func() {
		if r := recover(); r != nil {
			errText = fmt.Sprintf("panic: %v", r)
		}
	}()
	base := runtime.NumGoroutine()
	// default controls: nothing expired, equal sort counters
	n.setTimes(nil, nil, false)
	n.setOrder(a.Ord, "")
	switch a.Name {
	case "AddNode":
		n.net.mu.Lock()
		n.net.peers[n.ids[a.P]] = n.newPeer(a.P)
		n.net.mu.Unlock()
		m.OnAddNode(n.ids[a.P])
	case "NetDrop":
		n.net.mu.Lock()
		delete(n.net.peers, n.ids[a.P])
		n.net.mu.Unlock()
	case "DelNode":
		n.net.mu.Lock()
		delete(n.net.peers, n.ids[a.P])
		n.net.mu.Unlock()
		m.OnDelNode(n.ids[a.P])
	case "SyncHeader":
		if a.Hold {
			return n.runHeld("H", 1, m.syncHeader)
		}
		m.syncHeader()
	case "SyncHeaderBusy":
		m.syncHeader()
	case "SyncHeaderResume":
		return n.resumeHeld("H")
	case "SyncBlock":
		if a.Hold {
			return n.runHeld("B", a.NReq, m.syncBlock)
		}
		m.syncBlock()
	case "SyncBlockBusy":
		m.syncBlock()
	case "SyncBlockResume":
		return n.resumeHeld("B")
	case "SaveBlock":
		n.setSaveLock(n.heldS)
		defer n.parkSave()
		if a.Rej && a.Del {
			n.setOrder(a.Ord, n.firstBadSource())
		}
		if a.Hold {
			r := n.runHeld("S", 1, m.saveBlock)
			n.heldS = r == ""
			return r
		}
		m.saveBlock()
		if !xsWaitSpawned(base) {
			return "spawned goroutines did not finish"
		}
	case "SaveBlockBusy":
		n.setSaveLock(n.heldS)
		defer n.parkSave()
		m.saveBlock()
	case "SaveBlockResume":
		defer n.parkSave()
		r := n.resumeHeld("S")
		n.heldS = false
		if !xsWaitSpawned(base - 1) {
			return "spawned goroutines did not finish"
		}
		return r
	case "HeaderResp":
		var hs []*types.Header
		for h := a.Lo; h <= a.Hi; h++ {
			if h-a.Lo == a.Ng {
				hs = append(hs, c.badHeader(h))
			} else {
				hs = append(hs, c.goodHeader(h))
			}
		}
		if a.Ng < a.Hi-a.Lo+1 && a.Del {
			n.setOrder(a.Ord, a.P)
		}
		m.OnHeaderReceive(n.ids[a.P], hs)
		ok := xsWaitSpawned(base)
		if !ok {
			return "spawned goroutines did not finish"
		}
	case "BlockResp":
		blk := c.blocks[a.H]
		if a.Bad {
			blk = c.bad[a.H]
		}
		m.OnBlockReceive(n.ids[a.P], 0, blk, nil, c.mroot[a.H])
		ok := xsWaitSpawned(base)
		if !ok {
			return "spawned goroutines did not finish"
		}
	case "CheckTimeout":
		n.setTimes(xsSet(a.Th), xsSet(a.Tb), a.First)
		m.checkTimeout()
	default:
		return "harness: unknown action " + a.Name
	}
	return ""
}

func (n *xsNode) observe(pi, si int, name, err string) xsObs {
	o := xsObs{Path: pi, Step: si, Name: name, Err: err}
	o.State = n.project()
	o.Reqs = n.net.takeReqs()
	o.Adds, o.HdrAdds = n.led.take()
	return o
}

func (n *xsNode) releaseAll() {
	base := runtime.NumGoroutine() - len(n.held)
	for _, k := range []string{"H", "B", "S"} {
		if _, ok := n.held[k]; ok {
			n.resumeHeld(k)
		}
	}
	xsWaitSpawned(base)
}

func TestVerifX01Replay(t *testing.T) {
	var in xsInput
	vhIn(&in)
	out := vhOpenOut()
	defer out.Close()
	c := xsNewChain(in.N, xsSet(in.Empty))
	for pi, p := range in.Paths {
		n := xsNewNode(c, in.Peers)
		out.Emit(n.observe(pi, 0, "Init", ""))
		for si, a := range p.Steps {
			e := n.step(a)
			out.Emit(n.observe(pi, si+1, a.Name, e))
			if e != "" {
				break
			}
		}
		n.releaseAll()
		n.close()
		out.w.Flush()
	}
}
