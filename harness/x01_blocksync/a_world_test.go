package block_sync

// X01 harness, part 1: the world around the real BlockSyncMgr.
//   * source chain: a real solo-genesis ledger on which N blocks are produced (ExecuteBlock + SubmitBlock)
//   * the syncing node: a second real ledger (same genesis) wrapped by xsLedger, which records AddBlock/AddHeaders
//   * xsNet: an implementation of p2p.P2P that records every request the manager sends and can pause a
//     goroutine inside Send (the linearization point "request sent") -- no network is used.

import (
	"encoding/hex"
	"fmt"
	"io"
	"os"
	"path/filepath"
	"runtime"
	"strings"
	"sync"
	"time"

	"github.com/ontio/ontology-crypto/keypair"
	"github.com/ontio/ontology/account"
	"github.com/ontio/ontology/common"
	"github.com/ontio/ontology/common/config"
	"github.com/ontio/ontology/common/log"
	"github.com/ontio/ontology/core/genesis"
	"github.com/ontio/ontology/core/ledger"
	"github.com/ontio/ontology/core/payload"
	"github.com/ontio/ontology/core/signature"
	"github.com/ontio/ontology/core/store"
	"github.com/ontio/ontology/core/store/ledgerstore"
	"github.com/ontio/ontology/core/types"
	cutils "github.com/ontio/ontology/core/utils"
	p2pComm "github.com/ontio/ontology/p2pserver/common"
	mt "github.com/ontio/ontology/p2pserver/message/types"
	"github.com/ontio/ontology/p2pserver/peer"
	"github.com/ontio/ontology/smartcontract/service/native/ont"
	nutils "github.com/ontio/ontology/smartcontract/service/native/utils"
)

// ---------------------------------------------------------------------------------------------- source chain

type xsChain struct {
	n       int
	acct    *account.Account
	bks     []keypair.PublicKey
	genesis *types.Block
	root    string
	tmpl    string           // directory of a freshly initialised ledger (copied per path)
	blocks  []*types.Block   // index = height
	bad     []*types.Block   // same header, tampered body (rejected by AddBlock)
	mroot   []common.Uint256 // state merkle root announced with the block
	height  map[common.Uint256]int
	ndir    int
}

func xsCopyDir(src, dst string) {
	vhMust(filepath.Walk(src, func(p string, info os.FileInfo, err error) error {
		if err != nil {
			return err
		}
		rel, _ := filepath.Rel(src, p)
		t := filepath.Join(dst, rel)
		if info.IsDir() {
			return os.MkdirAll(t, 0755)
		}
		in, err := os.Open(p)
		if err != nil {
			return err
		}
		defer in.Close()
		out, err := os.Create(t)
		if err != nil {
			return err
		}
		defer out.Close()
		_, err = io.Copy(out, in)
		return err
	}))
}

func (c *xsChain) transfer(nonce uint32) *types.Transaction {
	var to common.Address
	for i := range to {
		to[i] = 0xB0
	}
	sts := []*ont.TransferState{{From: c.acct.Address, To: to, Value: 1}}
	code, err := cutils.BuildNativeInvokeCode(nutils.OntContractAddress, 0, "transfer", []interface{}{sts})
	vhMust(err)
	mtx := &types.MutableTransaction{GasPrice: 0, GasLimit: 30000, TxType: types.InvokeNeo, Nonce: nonce,
		Payer: c.acct.Address, Payload: &payload.InvokeCode{Code: code}}
	h := mtx.Hash()
	sig, err := signature.Sign(c.acct, h.ToArray())
	vhMust(err)
	mtx.Sigs = []types.Sig{{PubKeys: []keypair.PublicKey{c.acct.PublicKey}, M: 1, SigData: [][]byte{sig}}}
	tx, err := mtx.IntoImmutable()
	vhMust(err)
	return tx
}

func (c *xsChain) makeBlock(l *ledgerstore.LedgerStoreImp, h int, empty bool) *types.Block {
	var txs []*types.Transaction
	if !empty {
		txs = append(txs, c.transfer(uint32(1000+h)))
	}
	var hashes []common.Uint256
	for _, t := range txs {
		hashes = append(hashes, t.Hash())
	}
	txRoot := common.ComputeMerkleRoot(hashes)
	prev := l.GetCurrentBlockHash()
	prevHeader, err := l.GetHeaderByHash(prev)
	vhMust(err)
	nb, err := types.AddressFromBookkeepers(c.bks)
	vhMust(err)
	header := &types.Header{Version: 0, PrevBlockHash: prev, TransactionsRoot: txRoot,
		BlockRoot: l.GetBlockRootWithNewTxRoots(uint32(h), []common.Uint256{txRoot}),
		Timestamp: prevHeader.Timestamp + 10, Height: uint32(h), ConsensusData: uint64(h), NextBookkeeper: nb}
	block := &types.Block{Header: header, Transactions: txs}
	bh := block.Hash()
	bsig, err := signature.Sign(c.acct, bh[:])
	vhMust(err)
	block.Header.Bookkeepers = c.bks
	block.Header.SigData = [][]byte{bsig}
	return block
}

// xsNewChain builds the source chain 1..n; heights in `empty` carry no transaction.
func xsNewChain(n int, empty map[int]bool) *xsChain {
	log.InitLog(4)
	c := &xsChain{n: n, height: map[common.Uint256]int{}}
	root, err := os.MkdirTemp(os.Getenv("VERIF_SCRATCH"), "x01")
	vhMust(err)
	c.root = root
	c.acct = account.NewAccount("")
	c.bks = []keypair.PublicKey{c.acct.PublicKey}
	config.DefConfig.Genesis.ConsensusType = config.CONSENSUS_TYPE_SOLO
	config.DefConfig.Genesis.SOLO = &config.SOLOConfig{GenBlockTime: 6,
		Bookkeepers: []string{hex.EncodeToString(keypair.SerializePublicKey(c.acct.PublicKey))}}
	c.genesis, err = genesis.BuildGenesisBlock(c.bks, config.DefConfig.Genesis)
	vhMust(err)
	c.tmpl = filepath.Join(root, "tmpl")
	l, err := ledgerstore.NewLedgerStore(c.tmpl, 0)
	vhMust(err)
	vhMust(l.InitLedgerStoreWithGenesisBlock(c.genesis, c.bks))
	vhMust(l.Close())
	srcDir := filepath.Join(root, "src")
	xsCopyDir(c.tmpl, srcDir)
	r, err := ledgerstore.NewLedgerStore(srcDir, 0)
	vhMust(err)
	vhMust(r.InitLedgerStoreWithGenesisBlock(c.genesis, c.bks))
	c.blocks = []*types.Block{c.genesis}
	c.bad = []*types.Block{nil}
	c.mroot = []common.Uint256{{}}
	c.height[c.genesis.Hash()] = 0
	extra := c.transfer(999)
	for h := 1; h <= n; h++ {
		b := c.makeBlock(r, h, empty[h])
		res, err := r.ExecuteBlock(b)
		vhMust(err)
		vhMust(r.SubmitBlock(b, nil, res))
		c.blocks = append(c.blocks, b)
		c.mroot = append(c.mroot, res.MerkleRoot)
		c.height[b.Hash()] = h
		// tampered body: the transactions do not match the header's transaction root
		bad := &types.Block{Header: b.Header}
		if len(b.Transactions) == 0 {
			bad.Transactions = []*types.Transaction{extra}
		}
		c.bad = append(c.bad, bad)
	}
	vhMust(r.Close())
	return c
}

// a copy of header h whose signature is invalid (same hash, AddHeader -> verifyHeader fails)
func (c *xsChain) badHeader(h int) *types.Header {
	sink := common.NewZeroCopySink(nil)
	c.blocks[h].Header.Serialization(sink)
	nh := new(types.Header)
	vhMust(nh.Deserialization(common.NewZeroCopySource(sink.Bytes())))
	sig := append([]byte{}, nh.SigData[0]...)
	sig[len(sig)-1] ^= 0x55
	nh.SigData = [][]byte{sig}
	return nh
}

func (c *xsChain) goodHeader(h int) *types.Header {
	sink := common.NewZeroCopySink(nil)
	c.blocks[h].Header.Serialization(sink)
	nh := new(types.Header)
	vhMust(nh.Deserialization(common.NewZeroCopySource(sink.Bytes())))
	return nh
}

func (c *xsChain) newDir() string {
	c.ndir++
	return filepath.Join(c.root, fmt.Sprintf("n%d", c.ndir))
}

var _ = strings.Contains
var _ = runtime.NumGoroutine
var _ = time.Now
var _ sync.Mutex
var _ store.LedgerStore
var _ *ledger.Ledger
var _ p2pComm.PeerId
var _ mt.Message
var _ *peer.Peer
