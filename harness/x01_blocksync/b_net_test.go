package block_sync

// X01 harness, part 2: recording ledger wrapper and the fake network.

import (
	"sync"

	"github.com/ontio/ontology/common"
	"github.com/ontio/ontology/core/store"
	"github.com/ontio/ontology/core/types"
	p2pComm "github.com/ontio/ontology/p2pserver/common"
	mt "github.com/ontio/ontology/p2pserver/message/types"
	"github.com/ontio/ontology/p2pserver/peer"
)

// ---------------------------------------------------------------------------------------------- ledger wrapper

type xsAdd struct {
	H   int  `json:"h"`
	Cur int  `json:"cur"` // block height of the ledger when AddBlock was called
	Ok  bool `json:"ok"`
	New int  `json:"new"` // block height after the call
}

type xsHdrAdd struct {
	Lo  int  `json:"lo"`
	N   int  `json:"n"`
	Ok  bool `json:"ok"`
	New int  `json:"new"`
}

// xsLedger is the real ledger store; AddBlock / AddHeaders are recorded on the way through.
type xsLedger struct {
	store.LedgerStore
	mu      sync.Mutex
	adds    []xsAdd
	hdrAdds []xsHdrAdd
	onEvent func(kind string) // trace mode: called after every ledger mutation
}

func (l *xsLedger) AddBlock(block *types.Block, ccMsg *types.CrossChainMsg, root common.Uint256) error {
	cur := int(l.LedgerStore.GetCurrentBlockHeight())
	err := l.LedgerStore.AddBlock(block, ccMsg, root)
	l.mu.Lock()
	l.adds = append(l.adds, xsAdd{H: int(block.Header.Height), Cur: cur, Ok: err == nil, New: int(l.LedgerStore.GetCurrentBlockHeight())})
	l.mu.Unlock()
	if l.onEvent != nil {
		l.onEvent("AddBlock")
	}
	return err
}

func (l *xsLedger) AddHeaders(headers []*types.Header) error {
	lo := 0
	if len(headers) > 0 {
		lo = int(headers[0].Height)
		for _, h := range headers {
			if int(h.Height) < lo {
				lo = int(h.Height)
			}
		}
	}
	err := l.LedgerStore.AddHeaders(headers)
	l.mu.Lock()
	l.hdrAdds = append(l.hdrAdds, xsHdrAdd{Lo: lo, N: len(headers), Ok: err == nil, New: int(l.LedgerStore.GetCurrentHeaderHeight())})
	l.mu.Unlock()
	if l.onEvent != nil {
		l.onEvent("AddHeaders")
	}
	return err
}

func (l *xsLedger) take() ([]xsAdd, []xsHdrAdd) {
	l.mu.Lock()
	defer l.mu.Unlock()
	a, h := l.adds, l.hdrAdds
	l.adds, l.hdrAdds = nil, nil
	if a == nil {
		a = []xsAdd{}
	}
	if h == nil {
		h = []xsHdrAdd{}
	}
	return a, h
}

// ---------------------------------------------------------------------------------------------- fake network

type xsReq struct {
	T string `json:"t"` // "hdr" | "blk"
	P string `json:"p"`
	H int    `json:"h"` // requested height (hdr: height after the hash the request names); -1 unknown hash
}

type xsNet struct {
	mu     sync.Mutex
	chain  *xsChain
	peers  map[p2pComm.PeerId]*peer.Peer // GetPeer table
	names  map[p2pComm.PeerId]string
	reqs   []xsReq
	pings  int
	holdAt int           // pause the goroutine sending the holdAt-th request from now (0 = never)
	held   chan struct{} // signalled when a goroutine is paused
	resume chan struct{} // closed/sent to let it continue
	onReq  func(r xsReq) // trace mode
}

func xsNewNet(c *xsChain) *xsNet {
	return &xsNet{chain: c, peers: map[p2pComm.PeerId]*peer.Peer{}, names: map[p2pComm.PeerId]string{},
		held: make(chan struct{}, 4), resume: make(chan struct{})}
}

func (n *xsNet) Send(p *peer.Peer, msg mt.Message) error {
	var r xsReq
	switch m := msg.(type) {
	case *mt.HeadersReq:
		h, ok := n.chain.height[m.HashEnd]
		r = xsReq{T: "hdr", P: n.name(p.GetID()), H: h + 1}
		if !ok {
			r.H = -1
		}
	case *mt.DataReq:
		h, ok := n.chain.height[m.Hash]
		r = xsReq{T: "blk", P: n.name(p.GetID()), H: h}
		if !ok {
			r.H = -1
		}
	case *mt.Ping:
		n.mu.Lock()
		n.pings++
		n.mu.Unlock()
		return nil
	default:
		return nil
	}
	n.mu.Lock()
	n.reqs = append(n.reqs, r)
	pause := false
	if n.holdAt > 0 {
		n.holdAt--
		pause = n.holdAt == 0
	}
	res := n.resume
	cb := n.onReq
	n.mu.Unlock()
	if cb != nil {
		cb(r)
	}
	if pause {
		n.held <- struct{}{}
		<-res
	}
	return nil
}

func (n *xsNet) name(id p2pComm.PeerId) string {
	n.mu.Lock()
	defer n.mu.Unlock()
	if s, ok := n.names[id]; ok {
		return s
	}
	return "?" + id.ToHexString()
}

func (n *xsNet) takeReqs() []xsReq {
	n.mu.Lock()
	defer n.mu.Unlock()
	r := n.reqs
	n.reqs = nil
	if r == nil {
		r = []xsReq{}
	}
	return r
}

func (n *xsNet) GetPeer(id p2pComm.PeerId) *peer.Peer {
	n.mu.Lock()
	defer n.mu.Unlock()
	return n.peers[id]
}

// the rest of p2p.P2P is not used by the block sync manager
func (n *xsNet) Connect(addr string)                       {}
func (n *xsNet) GetHostInfo() *peer.PeerInfo               { return nil }
func (n *xsNet) GetID() p2pComm.PeerId                     { return p2pComm.PseudoPeerIdFromUint64(999) }
func (n *xsNet) GetNeighbors() []*peer.Peer                { return nil }
func (n *xsNet) GetNeighborAddrs() []p2pComm.PeerAddr      { return nil }
func (n *xsNet) GetConnectionCnt() uint32                  { return 0 }
func (n *xsNet) GetMaxPeerBlockHeight() uint64             { return 0 }
func (n *xsNet) SetHeight(uint64)                          {}
func (n *xsNet) SendTo(p p2pComm.PeerId, msg mt.Message)   {}
func (n *xsNet) GetOutConnRecordLen() uint                 { return 0 }
func (n *xsNet) Broadcast(msg mt.Message)                  {}
func (n *xsNet) IsOwnAddress(addr string) bool             { return false }
