package block_sync

// X01 harness, part 3: one syncing node = real BlockSyncMgr + real ledger + fake network, the projection of its
// state onto the variables of spec/BlockSync.tla, and the controls over the nondeterminism the model leaves
// open (peer preference order, which flights have timed out, which goroutine is paused inside Send).

import (
	"fmt"
	"os"
	"runtime"
	"sort"
	"strings"
	"sync/atomic"
	"time"

	"github.com/ontio/ontology/core/ledger"
	"github.com/ontio/ontology/core/store/ledgerstore"
	"github.com/ontio/ontology/core/types"
	p2pComm "github.com/ontio/ontology/p2pserver/common"
	"github.com/ontio/ontology/p2pserver/peer"
)

type xsCacheE struct {
	St   string `json:"st"`
	Node string `json:"node"`
}

type xsState struct {
	Nodes []string   `json:"nodes"`
	Net   []string   `json:"net"`
	HdrH  int        `json:"hdrH"`
	BlkH  int        `json:"blkH"`
	Fh    []string   `json:"fh"`
	Fb    [][]string `json:"fb"`
	Cache []xsCacheE `json:"cache"`
	LkH   bool       `json:"lkH"`
	LkB   bool       `json:"lkB"`
	LkS   bool       `json:"lkS"`
	Extra []string   `json:"extra"` // anything the model has no place for (flight of an unknown hash, ...)
}

type xsNode struct {
	chain   *xsChain
	dir     string
	store   *ledgerstore.LedgerStoreImp
	led     *xsLedger
	net     *xsNet
	mgr     *BlockSyncMgr
	ids     map[string]p2pComm.PeerId
	peerH   map[string]int
	held    map[string]chan struct{} // kind (H|B|S) -> done channel of the paused goroutine
	resume  map[string]chan struct{}
	heldS   bool
	lkSObs  bool // saveBlockLock as the code left it after the last SaveBlock* action
}

func xsNewNode(c *xsChain, peerH map[string]int) *xsNode {
	n := &xsNode{chain: c, ids: map[string]p2pComm.PeerId{}, peerH: peerH,
		held: map[string]chan struct{}{}, resume: map[string]chan struct{}{}}
	n.dir = c.newDir()
	xsCopyDir(c.tmpl, n.dir)
	st, err := ledgerstore.NewLedgerStore(n.dir, 0)
	vhMust(err)
	vhMust(st.InitLedgerStoreWithGenesisBlock(c.genesis, c.bks))
	n.store = st
	n.led = &xsLedger{LedgerStore: st}
	n.net = xsNewNet(c)
	names := make([]string, 0, len(peerH))
	for name := range peerH {
		names = append(names, name)
	}
	sort.Strings(names)
	for i, name := range names {
		id := p2pComm.PseudoPeerIdFromUint64(uint64(i + 1))
		n.ids[name] = id
		n.net.names[id] = name
	}
	n.mgr = NewBlockSyncMgr(n.net, &ledger.Ledger{LedgerStore: n.led})
	n.parkSave()
	return n
}

func (n *xsNode) close() {
	n.store.Close()
	os.RemoveAll(n.dir)
}

func (n *xsNode) newPeer(name string) *peer.Peer {
	info := peer.NewPeerInfo(n.ids[name], 0, 0, true, 0, 0, uint64(n.peerH[name]), "verif", "127.0.0.1:1")
	return &peer.Peer{Info: info}
}

// ---------------------------------------------------------------------------------------------- projection

func (n *xsNode) project() xsState {
	m := n.mgr
	N := n.chain.n
	s := xsState{Nodes: []string{}, Net: []string{}, Fh: make([]string, N), Fb: make([][]string, N),
		Cache: make([]xsCacheE, N), Extra: []string{}}
	s.HdrH = int(n.store.GetCurrentHeaderHeight())
	s.BlkH = int(n.store.GetCurrentBlockHeight())
	n.net.mu.Lock()
	for id := range n.net.peers {
		s.Net = append(s.Net, n.net.names[id])
	}
	n.net.mu.Unlock()
	m.lock.RLock()
	for id := range m.nodeWeights {
		s.Nodes = append(s.Nodes, n.net.name(id))
	}
	for i := 0; i < N; i++ {
		s.Fh[i] = "-"
		s.Fb[i] = []string{}
		s.Cache[i] = xsCacheE{St: "none", Node: "-"}
	}
	for h, info := range m.flightHeaders {
		if h < 1 || int(h) > N {
			s.Extra = append(s.Extra, fmt.Sprintf("header flight at height %d", h))
			continue
		}
		s.Fh[h-1] = n.net.name(info.GetNodeId())
		if info.Height != h {
			s.Extra = append(s.Extra, fmt.Sprintf("header flight key %d has Height %d", h, info.Height))
		}
	}
	for hash, infos := range m.flightBlocks {
		h, ok := n.chain.height[hash]
		if !ok || h < 1 {
			s.Extra = append(s.Extra, "block flight of unknown hash "+hash.ToHexString()[:8])
			continue
		}
		for _, info := range infos {
			s.Fb[h-1] = append(s.Fb[h-1], n.net.name(info.GetNodeId()))
			if int(info.Height) != h {
				s.Extra = append(s.Extra, fmt.Sprintf("block flight of height %d has Height %d", h, info.Height))
			}
		}
	}
	for h, e := range m.blocksCache.blocksCache {
		if h < 1 || int(h) > N {
			s.Extra = append(s.Extra, fmt.Sprintf("cached block at height %d", h))
			continue
		}
		if e.block == n.chain.bad[h] {
			s.Cache[h-1] = xsCacheE{St: "bad", Node: n.net.name(e.nodeID)}
		} else if e.block.Hash() == n.chain.blocks[h].Hash() {
			s.Cache[h-1] = xsCacheE{St: "good", Node: "-"}
		} else {
			s.Extra = append(s.Extra, fmt.Sprintf("cached block at %d is not a block of the source chain", h))
		}
	}
	s.LkH, s.LkB, s.LkS = m.syncHeaderLock, m.syncBlockLock, n.lkSObs
	m.lock.RUnlock()
	sort.Strings(s.Nodes)
	sort.Strings(s.Net)
	sort.Strings(s.Extra)
	return s
}

// ---------------------------------------------------------------------------------------------- controls

// setOrder makes getNextNode prefer the peers in the given order.  NodeWeights.Less is
//   Weight(i) < Weight(j) && errorRespCnt(i) >= errorRespCnt(j) && timeoutCnt(i) >= timeoutCnt(j)
// which is a strict order only if the counters do not contradict the weights.  So: speeds three decimal orders
// apart, timeoutCnt = 1000*rank (checkTimeout increments it before it sorts), errorRespCnt = rank (one increment
// of any peer keeps it monotone); delTarget gets SYNC_MAX_ERROR_RESP_TIMES-1 so that its next error deletes it.
func (n *xsNode) setOrder(ord []string, delTarget string) {
	m := n.mgr
	now := time.Now().UnixNano() / int64(time.Millisecond)
	m.lock.RLock()
	defer m.lock.RUnlock()
	for name, id := range n.ids {
		w := m.nodeWeights[id]
		if w == nil {
			continue
		}
		rank := len(ord)
		for i, o := range ord {
			if o == name {
				rank = i
			}
		}
		sp := float32(1000.0)
		for k := rank; k < len(n.ids); k++ {
			sp *= 1000.0
		}
		w.lock.Lock()
		for i := range w.speed {
			w.speed[i] = sp
		}
		for i := range w.reqTime {
			w.reqTime[i] = now
		}
		w.lock.Unlock()
		atomic.StoreInt64(&w.timeoutCnt, int64(1000*rank))
		e := int64(rank)
		if name == delTarget {
			e = SYNC_MAX_ERROR_RESP_TIMES - 1
		}
		atomic.StoreInt64(&w.errorRespCnt, e)
	}
}

// setTimes: flights listed as expired get a start time far in the past, all others far in the future
// (never a real sleep; robust against a descheduled test process).
func (n *xsNode) setTimes(th map[int]bool, tb map[int]bool, first bool) {
	m := n.mgr
	past := time.Now().Add(-time.Hour).UnixNano()
	future := time.Now().Add(time.Hour).UnixNano()
	m.lock.RLock()
	defer m.lock.RUnlock()
	for h, info := range m.flightHeaders {
		t := future
		if th[int(h)] {
			t = past
		}
		info.lock.Lock()
		info.startTime = t
		info.lock.Unlock()
	}
	for hash, infos := range m.flightBlocks {
		h := n.chain.height[hash]
		for i, info := range infos {
			t := future
			if tb[h] && (!first || i == 0) {
				t = past
			}
			info.lock.Lock()
			info.startTime = t
			info.lock.Unlock()
		}
	}
}

// waitSpawned waits until every goroutine the manager spawned itself (go saveBlock(), go net.Send(ping)) is gone.
// base: runtime.NumGoroutine() before the call.  Cheap test first (goroutine count back to the base), the
// precise test (no goroutine "created by" the manager in the stack dump) when the count stays higher.
var xsStackBuf = make([]byte, 1<<18)

func xsWaitSpawned(base int) bool {
	for i := 0; i < 20000; i++ {
		if runtime.NumGoroutine() <= base {
			return true
		}
		if i >= 20 {
			k := runtime.Stack(xsStackBuf, true)
			s := string(xsStackBuf[:k])
			if !strings.Contains(s, "created by github.com/ontio/ontology/p2pserver/protocols/block_sync.(*BlockSyncMgr).On") &&
				!strings.Contains(s, "created by github.com/ontio/ontology/p2pserver/protocols/block_sync.pingTo") {
				return true
			}
			time.Sleep(200 * time.Microsecond)
		} else {
			runtime.Gosched()
		}
	}
	return false
}

// blockSpawnedSave: the `go this.saveBlock()` at the end of OnHeaderReceive/OnBlockReceive is the model's separate
// SaveBlock action; it is parked by holding the try-lock while the public call runs.
// Between the model's SaveBlock actions the real try-lock flag is kept set (parked), so that a saveBlock goroutine
// spawned by OnHeaderReceive/OnBlockReceive returns at once whenever it gets scheduled; the flag as the code left
// it is observed (lkSObs) before it is parked again.
func (n *xsNode) parkSave() {
	n.mgr.lock.Lock()
	n.lkSObs = n.mgr.saveBlockLock
	n.mgr.saveBlockLock = true
	n.mgr.lock.Unlock()
}

func (n *xsNode) setSaveLock(v bool) {
	n.mgr.lock.Lock()
	n.mgr.saveBlockLock = v
	n.mgr.lock.Unlock()
}

// runHeld runs fn in a goroutine that is paused inside the k-th Send (try-lock held).
func (n *xsNode) runHeld(kind string, k int, fn func()) string {
	done := make(chan struct{})
	res := make(chan struct{})
	n.net.mu.Lock()
	n.net.holdAt = k
	n.net.resume = res
	n.net.mu.Unlock()
	go func() {
		fn()
		close(done)
	}()
	select {
	case <-n.net.held:
		n.held[kind] = done
		n.resume[kind] = res
		return ""
	case <-done:
		n.net.mu.Lock()
		n.net.holdAt = 0
		n.net.mu.Unlock()
		return "call returned without reaching the Send it should be paused in"
	case <-time.After(60 * time.Second):
		return "timeout waiting for the paused Send"
	}
}

func (n *xsNode) resumeHeld(kind string) string {
	done, ok := n.held[kind]
	if !ok {
		return "no paused goroutine of kind " + kind
	}
	close(n.resume[kind])
	select {
	case <-done:
	case <-time.After(60 * time.Second):
		return "timeout waiting for the resumed goroutine"
	}
	delete(n.held, kind)
	delete(n.resume, kind)
	return ""
}

var _ *types.Block
