package merkle

// Replay of TLC-generated paths of spec/Merkle.tla on the real CompactMerkleTree / fileHashStore /
// MerkleVerifier (Part A, property C26) and MerkleLeafPath / MerkleProve / MerkleHashes /
// HashFullTreeWithLeafHash (Part B, property C27).
//
// Hashes of the specification are terms; the names exported by the spec ("3-7" = MTH(D[3:7]),
// "e" empty hash, "z" zero hash, "xK" foreign hash, "vK" leaf of value K, "(l|r)" inner node) are
// evaluated here by an evaluator that shares no code with package merkle.

import (
	"bytes"
	"crypto/sha256"
	"encoding/binary"
	"encoding/hex"
	"fmt"
	"io"
	"os"
	"path/filepath"
	"strconv"
	"strings"
	"testing"

	"github.com/ontio/ontology/common"
)

type mkState struct {
	N      int      `json:"n"`
	Hashes []string `json:"hashes"`
	File   []string `json:"file"`
	Wpos   int      `json:"wpos"`
	Mem    string   `json:"mem"`
	K      int      `json:"k"`
	Nh     int      `json:"nh"` // only in the compact export of bigger trees (hashes / file left out)
}

type mkAct struct {
	Name  string          `json:"name"`
	I     int             `json:"i"`
	J     int             `json:"j"`
	M     int             `json:"m"`
	S     int             `json:"s"`
	Mut   string          `json:"mut"`
	Leaf  string          `json:"leaf"`
	Idx   int             `json:"idx"`
	Size  int             `json:"size"`
	Root  string          `json:"root"`
	R1    string          `json:"r1"`
	R2    string          `json:"r2"`
	Proof []string        `json:"proof"`
	Val   int             `json:"val"`
	Venc  string          `json:"venc"`
	Elems [][]interface{} `json:"elems"`
	Trail int             `json:"trail"`
	Cut   int             `json:"cut"`
	Base  interface{}     `json:"base"`
	Np    []string        `json:"np"`
	Rfc   string          `json:"rfcroot"`
	Vlen  int             `json:"vlen"`
	Vlens []int           `json:"vlens"`
	Lst   string          `json:"lst"`
	Vals  []int           `json:"vals"`   // value ids of the list the path is generated for
	Ovals []int           `json:"ovals"`  // value ids of the other list of the same size and first leaf
	Ovlen []int           `json:"ovlens"`
}

type mkStep struct {
	Act mkAct   `json:"act"`
	To  mkState `json:"to"`
}

type mkIn struct {
	Mode  string `json:"mode"`
	Paths []struct {
		Init  *mkState `json:"init"`
		Steps []mkStep `json:"steps"`
	} `json:"paths"`
}

// names of the perfect-subtree roots / of the post-order hash file of a tree of n leaves, derived from n
// alone (used when the specification's state export leaves them out: bigger trees)
func mkHashNames(n int) []string {
	var out []string
	lo := 0
	for lo < n {
		p := 1
		for p*2 <= n-lo {
			p *= 2
		}
		out = append(out, fmt.Sprintf("%d-%d", lo, lo+p))
		lo += p
	}
	return out
}

func mkPostOrder(lo, hi int, out *[]string) {
	if hi-lo > 1 {
		mid := lo + (hi-lo)/2
		mkPostOrder(lo, mid, out)
		mkPostOrder(mid, hi, out)
	}
	*out = append(*out, fmt.Sprintf("%d-%d", lo, hi))
}

func mkFileNames(n int) []string {
	out := []string{}
	lo := 0
	for lo < n {
		p := 1
		for p*2 <= n-lo {
			p *= 2
		}
		mkPostOrder(lo, lo+p, &out)
		lo += p
	}
	return out
}

type mkObs struct {
	Path int         `json:"path"`
	Step int         `json:"step"`
	Name string      `json:"name"`
	What string      `json:"what"` // "" = verdict record, otherwise kind of mismatch
	Real interface{} `json:"real,omitempty"`
	Exp  interface{} `json:"exp,omitempty"`
}

// ---------------------------------------------------------------- independent evaluator

type mkEval struct {
	leaf func(i int) [32]byte
	memo map[string][32]byte
}

func mkSplit(n int) int { // largest power of two strictly below n
	k := 1
	for k*2 < n {
		k *= 2
	}
	return k
}

func mkNode(l, r [32]byte) [32]byte {
	b := make([]byte, 0, 65)
	b = append(b, 1)
	b = append(b, l[:]...)
	b = append(b, r[:]...)
	return sha256.Sum256(b)
}

func (e *mkEval) mth(lo, hi int) [32]byte {
	if hi == lo {
		return sha256.Sum256(nil)
	}
	if hi == lo+1 {
		return e.leaf(lo)
	}
	k := mkSplit(hi - lo)
	return mkNode(e.mth(lo, lo+k), e.mth(lo+k, hi))
}

func mkForeign(k int) [32]byte { return sha256.Sum256([]byte("foreign-hash-" + strconv.Itoa(k))) }

func (e *mkEval) eval(name string) [32]byte {
	if v, ok := e.memo[name]; ok {
		return v
	}
	var out [32]byte
	switch {
	case name == "e":
		out = sha256.Sum256(nil)
	case name == "z":
	case name[0] == 'x':
		k, err := strconv.Atoi(name[1:])
		vhMust(err)
		out = mkForeign(k)
	case name[0] == 'v':
		k, err := strconv.Atoi(name[1:])
		vhMust(err)
		out = e.leaf(k)
	case name[0] == '(':
		depth, cut := 0, -1
		for i := 0; i < len(name); i++ {
			switch name[i] {
			case '(':
				depth++
			case ')':
				depth--
			case '|':
				if depth == 1 {
					cut = i
				}
			}
		}
		if cut < 0 {
			panic("bad name " + name)
		}
		out = mkNode(e.eval(name[1:cut]), e.eval(name[cut+1:len(name)-1]))
	default:
		parts := strings.Split(name, "-")
		if len(parts) != 2 {
			panic("bad name " + name)
		}
		lo, err := strconv.Atoi(parts[0])
		vhMust(err)
		hi, err := strconv.Atoi(parts[1])
		vhMust(err)
		out = e.mth(lo, hi)
	}
	e.memo[name] = out
	return out
}

func (e *mkEval) evals(names []string) []common.Uint256 {
	out := make([]common.Uint256, len(names))
	for i, n := range names {
		out[i] = common.Uint256(e.eval(n))
	}
	return out
}

func mkHex(hs []common.Uint256) []string {
	out := make([]string, len(hs))
	for i, h := range hs {
		out[i] = hex.EncodeToString(h[:4])
	}
	return out
}

func mkEq(a, b []common.Uint256) bool {
	if len(a) != len(b) {
		return false
	}
	for i := range a {
		if a[i] != b[i] {
			return false
		}
	}
	return true
}

func mkLeafA(i int) [32]byte {
	var b [4]byte
	binary.BigEndian.PutUint32(b[:], uint32(i))
	return sha256.Sum256(b[:])
}

// ---------------------------------------------------------------- Part A

type mkTreeA struct {
	name  string
	store HashStore
	tree  *CompactMerkleTree
	saved []byte // marshalled tree persisted before a torn append
	torn  bool
}

func (t *mkTreeA) fileHashes() []common.Uint256 {
	b, err := os.ReadFile(t.name)
	vhMust(err)
	if len(b)%32 != 0 {
		panic("hash file length is not a multiple of 32")
	}
	out := make([]common.Uint256, len(b)/32)
	for i := range out {
		copy(out[i][:], b[i*32:])
	}
	return out
}

func (t *mkTreeA) offset() int64 {
	fs, ok := t.store.(*fileHashStore)
	if !ok {
		return -1
	}
	off, err := fs.file.Seek(0, io.SeekCurrent)
	vhMust(err)
	return off
}

func TestVerifMerkleReplay(t *testing.T) {
	var in mkIn
	vhIn(&in)
	out := vhOpenOut()
	defer out.Close()
	dir := filepath.Join(os.Getenv("VERIF_SCRATCH"), "merkle-files")
	os.RemoveAll(dir)
	vhMust(os.MkdirAll(dir, 0755))
	defer os.RemoveAll(dir)
	counts := map[string]int{}
	nsteps := 0
	for pi, p := range in.Paths {
		if in.Mode == "B" {
			nsteps += mkReplayB(out, pi, p.Steps, counts)
		} else {
			nsteps += mkReplayA(out, dir, pi, p.Init, p.Steps, counts)
		}
	}
	out.Emit(map[string]interface{}{"done": true, "steps": nsteps, "counts": counts})
}

func mkCatch(f func()) (panicked string) {
	defer func() {
		if r := recover(); r != nil {
			panicked = fmt.Sprint(r)
		}
	}()
	f()
	return ""
}

func mkReplayA(out *vhOut, dir string, pi int, init *mkState, steps []mkStep, counts map[string]int) int {
	ev := &mkEval{leaf: mkLeafA, memo: map[string][32]byte{}}
	ta := &mkTreeA{name: filepath.Join(dir, fmt.Sprintf("tree-%d.db", pi))}
	os.Remove(ta.name)
	var err error
	ta.store, err = NewFileHashStore(ta.name, 0)
	vhMust(err)
	ta.tree = NewTree(0, nil, ta.store)
	verifier := NewMerkleVerifier()
	bad := func(si int, name, what string, real, exp interface{}) {
		out.Emit(mkObs{Path: pi, Step: si, Name: name, What: what, Real: real, Exp: exp})
	}
	checkState := func(si int, a mkAct, to mkState) {
		// observable state of the real tree against the model state
		if to.Nh > 0 && to.Hashes == nil {
			to.Hashes, to.File = mkHashNames(to.N), mkFileNames(to.N)
		}
		if !ta.torn {
			if int(ta.tree.TreeSize()) != to.N {
				bad(si, a.Name, "treesize", ta.tree.TreeSize(), to.N)
			}
			expRoot := common.Uint256(ev.eval(fmt.Sprintf("0-%d", to.N)))
			if to.N == 0 {
				expRoot = common.Uint256(ev.eval("e"))
			}
			if ta.tree.Root() != expRoot {
				bad(si, a.Name, "root", hex.EncodeToString(func() []byte { r := ta.tree.Root(); return r[:] }()), hex.EncodeToString(expRoot[:]))
			}
			if !mkEq(ta.tree.Hashes(), ev.evals(to.Hashes)) {
				bad(si, a.Name, "hashes", mkHex(ta.tree.Hashes()), to.Hashes)
			}
			if off := ta.offset(); off != int64(to.Wpos)*32 {
				bad(si, a.Name, "file-offset", off, to.Wpos*32)
			}
		}
		if !mkEq(ta.fileHashes(), ev.evals(to.File)) {
			bad(si, a.Name, "file", mkHex(ta.fileHashes()), to.File)
		}
	}
	if init != nil && init.N > 0 {
		// the path starts from a tree that already has init.N leaves: build it (reloading now and then)
		for i := 0; i < init.N; i++ {
			ta.tree.AppendHash(common.Uint256(mkLeafA(i)))
			if i%53 == 17 {
				buf, err := ta.tree.Marshal()
				vhMust(err)
				ta.store.Close()
				ta.store, err = NewFileHashStore(ta.name, ta.tree.TreeSize())
				vhMust(err)
				ta.tree = NewTree(0, nil, ta.store)
				vhMust(ta.tree.UnMarshal(buf))
			}
		}
		counts["InitBuild"]++
		checkState(-1, mkAct{Name: "InitBuild"}, *init)
	}
	// a second tree object: the persisted image (Marshal) of the live tree plus a freshly opened hash file
	reloaded := func() (*CompactMerkleTree, HashStore) {
		buf, err := ta.tree.Marshal()
		vhMust(err)
		st2, err := NewFileHashStore(ta.name, ta.tree.TreeSize())
		vhMust(err)
		t2 := NewTree(0, nil, st2)
		vhMust(t2.UnMarshal(append([]byte{}, buf...)))
		return t2, st2
	}
	for si, st := range steps {
		a := st.Act
		counts[a.Name]++
		switch a.Name {
		case "Append":
			// the root announced for "this leaf appended" (GetRootWithNewLeaf / GetRootWithNewLeaves are what
			// the ledger uses to compute a block's root before committing) must be the root after the append
			leaf := common.Uint256(mkLeafA(a.I))
			expNext := common.Uint256(ev.eval(fmt.Sprintf("0-%d", st.To.N)))
			if p := mkCatch(func() {
				if r := ta.tree.GetRootWithNewLeaf(leaf); r != expNext {
					bad(si, a.Name, "GetRootWithNewLeaf", hex.EncodeToString(r[:]), fmt.Sprintf("0-%d", st.To.N))
				}
				if r := ta.tree.GetRootWithNewLeaves([]common.Uint256{leaf}); r != expNext {
					bad(si, a.Name, "GetRootWithNewLeaves", hex.EncodeToString(r[:]), fmt.Sprintf("0-%d", st.To.N))
				}
			}); p != "" {
				bad(si, a.Name, "panic", p, nil)
			}
			if p := mkCatch(func() { ta.tree.AppendHash(leaf) }); p != "" {
				bad(si, a.Name, "panic", p, nil)
			}
			checkState(si, a, st.To)
		case "TornAppend":
			// the ledger persisted the tree (size, hashes) before this append; the process dies after
			// a.J hashes of the append reached the file
			buf, err := ta.tree.Marshal()
			vhMust(err)
			ta.saved = buf
			clone := NewTree(0, nil, ta.store)
			vhMust(clone.UnMarshal(append([]byte{}, buf...)))
			before := ta.offset()
			old, err := os.ReadFile(ta.name)
			vhMust(err)
			clone.AppendHash(common.Uint256(mkForeign(1)))
			now, err := os.ReadFile(ta.name)
			vhMust(err)
			// only the first a.J hashes of the append reached the disk; what was there before stays
			cut := int(before) + a.J*32
			img := append([]byte{}, now[:cut]...)
			if len(old) > cut {
				img = append(img, old[cut:]...)
			}
			vhMust(os.WriteFile(ta.name, img, 0644))
			ta.torn = true
			checkState(si, a, st.To)
		case "Reload":
			var buf []byte
			if ta.torn {
				buf = ta.saved
			} else {
				buf, err = ta.tree.Marshal()
				vhMust(err)
			}
			size := binary.BigEndian.Uint32(buf[0:4])
			ta.store.Close()
			ta.store, err = NewFileHashStore(ta.name, size)
			if err != nil {
				bad(si, a.Name, "reopen", err.Error(), nil)
				return len(steps)
			}
			ta.tree = NewTree(0, nil, ta.store)
			if e := ta.tree.UnMarshal(append([]byte{}, buf...)); e != nil {
				bad(si, a.Name, "unmarshal", e.Error(), nil)
			}
			ta.torn = false
			checkState(si, a, st.To)
		case "GenIncl":
			var proof []common.Uint256
			var perr error
			if p := mkCatch(func() { proof, perr = ta.tree.InclusionProof(uint32(a.M), uint32(a.S)) }); p != "" {
				bad(si, a.Name, "panic", p, a)
			} else if perr != nil {
				bad(si, a.Name, "error", perr.Error(), a)
			} else if !mkEq(proof, ev.evals(a.Proof)) {
				bad(si, a.Name, "proof", mkHex(proof), a)
			} else {
				t2, st2 := reloaded()
				p2, e2 := t2.InclusionProof(uint32(a.M), uint32(a.S))
				if e2 != nil || !mkEq(p2, proof) || t2.Root() != ta.tree.Root() {
					bad(si, a.Name, "proof-after-reload", mkHex(p2), a)
				}
				st2.Close()
			}
		case "GenCons":
			var proof []common.Uint256
			if p := mkCatch(func() { proof = ta.tree.ConsistencyProof(uint32(a.M), uint32(a.S)) }); p != "" {
				bad(si, a.Name, "panic", p, a)
			} else if !mkEq(proof, ev.evals(a.Proof)) {
				bad(si, a.Name, "proof", mkHex(proof), a)
			} else {
				t2, st2 := reloaded()
				p2 := t2.ConsistencyProof(uint32(a.M), uint32(a.S))
				if !mkEq(p2, proof) || t2.Root() != ta.tree.Root() {
					bad(si, a.Name, "proof-after-reload", mkHex(p2), a)
				}
				st2.Close()
			}
		case "VerifyIncl":
			var verr error
			real := interface{}(nil)
			if p := mkCatch(func() {
				verr = verifier.VerifyLeafHashInclusion(common.Uint256(ev.eval(a.Leaf)), uint32(a.Idx), ev.evals(a.Proof),
					common.Uint256(ev.eval(a.Root)), uint32(a.Size))
			}); p != "" {
				real = "panic: " + p
			} else {
				real = verr == nil
			}
			out.Emit(mkObs{Path: pi, Step: si, Name: a.Name, Real: real})
		case "VerifyCons":
			var verr error
			real := interface{}(nil)
			if p := mkCatch(func() {
				verr = verifier.VerifyConsistency(uint32(a.M), uint32(a.S), common.Uint256(ev.eval(a.R1)),
					common.Uint256(ev.eval(a.R2)), ev.evals(a.Proof))
			}); p != "" {
				real = "panic: " + p
			} else {
				real = verr == nil
			}
			out.Emit(mkObs{Path: pi, Step: si, Name: a.Name, Real: real})
		default:
			panic("unknown action " + a.Name)
		}
	}
	ta.store.Close()
	os.Remove(ta.name)
	return len(steps)
}

// ---------------------------------------------------------------- Part B

// value v with exactly vlen bytes (the specification fixes the lengths: VLen)
func mkValueB(v int, np [][32]byte, vlen int) []byte {
	if v >= 1000 {
		// the bytes of an inner node's preimage offered as a value
		b := []byte{1}
		b = append(b, np[0][:]...)
		b = append(b, np[1][:]...)
		return b
	}
	b := []byte(fmt.Sprintf("cross-chain-value-%04d:", v))
	for i := len(b); i < vlen; i++ {
		b = append(b, byte(i*7+v))
	}
	return b[:vlen]
}

var mkVlens = map[int]int{} // member index -> value length, as announced by the specification

func mkLeafB(i int) [32]byte {
	vlen, ok := mkVlens[i]
	if !ok {
		vlen = 24
	}
	v := mkValueB(i, nil, vlen)
	return sha256.Sum256(append([]byte{0}, v...))
}

func mkVarUint(n int) []byte {
	switch {
	case n < 0xFD:
		return []byte{byte(n)}
	case n <= 0xFFFF:
		return []byte{0xFD, byte(n), byte(n >> 8)}
	default:
		return []byte{0xFE, byte(n), byte(n >> 8), byte(n >> 16), byte(n >> 24)}
	}
}

func mkReplayB(out *vhOut, pi int, steps []mkStep, counts map[string]int) int {
	ev := &mkEval{leaf: mkLeafB, memo: map[string][32]byte{}}
	k := 0
	bad := func(si int, name, what string, real, exp interface{}) {
		out.Emit(mkObs{Path: pi, Step: si, Name: name, What: what, Real: real, Exp: exp})
	}
	list := func() []common.Uint256 {
		hs := make([]common.Uint256, k)
		for i := range hs {
			hs[i] = HashLeaf(mkValueB(i, nil, mkVlens[i]))
		}
		return hs
	}
	for si, st := range steps {
		a := st.Act
		counts[a.Name]++
		if a.Vals != nil {
			for j, l := range a.Vlens {
				mkVlens[a.Vals[j]] = l
			}
			for j, l := range a.Ovlen {
				mkVlens[a.Ovals[j]] = l
			}
		} else {
			for j, l := range a.Vlens {
				mkVlens[j] = l
			}
		}
		switch a.Name {
		case "Grow":
			k++
			if k != st.To.K {
				panic("list size drift")
			}
			// the root stored by executeBlock and the root of the pairwise tree used for the paths
			hs := list()
			r1 := TreeHasher{}.HashFullTreeWithLeafHash(hs)
			lv := MerkleHashes(hs, depth(len(hs)))
			exp := common.Uint256(ev.eval(fmt.Sprintf("0-%d", k)))
			if r1 != exp {
				bad(si, a.Name, "HashFullTreeWithLeafHash", hex.EncodeToString(r1[:]), fmt.Sprintf("0-%d", k))
			}
			if len(lv) == 0 || len(lv[0]) != 1 || lv[0][0] != exp {
				bad(si, a.Name, "MerkleHashes-root", len(lv), fmt.Sprintf("0-%d", k))
			}
		case "GenPath":
			// history: first a path of the OTHER list (same size, same first leaf), in a slice that is then
			// overwritten in place with the hashes of the list asked about
			hs := make([]common.Uint256, len(a.Vals))
			for i, v := range a.Ovals {
				hs[i] = HashLeaf(mkValueB(v, nil, mkVlens[v]))
			}
			oi := (a.Idx + 1) % len(a.Ovals)
			mkCatch(func() { MerkleLeafPath(mkValueB(a.Ovals[oi], nil, mkVlens[a.Ovals[oi]]), hs) })
			for i, v := range a.Vals {
				hs[i] = HashLeaf(mkValueB(v, nil, mkVlens[v]))
			}
			val := mkValueB(a.Val, nil, a.Vlen)
			var path []byte
			var perr error
			if p := mkCatch(func() { path, perr = MerkleLeafPath(val, hs) }); p != "" {
				bad(si, a.Name, "panic", p, a)
				continue
			}
			if perr != nil {
				bad(si, a.Name, "error", perr.Error(), a)
				continue
			}
			// expected bytes, built independently: varbytes(value) ++ (side, hash)*
			expb := mkPathBytes(val, "ok", a.Elems, 0, ev)
			if !bytes.Equal(path, expb) {
				bad(si, a.Name, "path", hex.EncodeToString(path), hex.EncodeToString(expb))
			}
			if common.Uint256(ev.eval(a.Root)) != common.Uint256(ev.eval(a.Rfc)) {
				bad(si, a.Name, "roots", a.Root, a.Rfc)
			}
			// the honest path proves the value against the root of its own list
			if got, err := MerkleProve(path, common.Uint256(ev.eval(a.Root))); err != nil || !bytes.Equal(got, val) {
				bad(si, a.Name, "generated-path-does-not-prove", fmt.Sprint(err), a)
			}
		case "Prove":
			var np [][32]byte
			for _, n := range a.Np {
				np = append(np, ev.eval(n))
			}
			val := mkValueB(a.Val, np, a.Vlen)
			path := mkPathBytes(val, a.Venc, a.Elems, a.Trail, ev)
			var got []byte
			var perr error
			real := ""
			if p := mkCatch(func() { got, perr = MerkleProve(path, common.Uint256(ev.eval(a.Root))) }); p != "" {
				real = "panic: " + p
			} else if perr != nil {
				real = "err"
			} else if bytes.Equal(got, val) {
				real = "ok"
			} else {
				real = "ok-other-value:" + hex.EncodeToString(got)
			}
			out.Emit(mkObs{Path: pi, Step: si, Name: a.Name, Real: real})
		default:
			panic("unknown action " + a.Name)
		}
	}
	return len(steps)
}

func mkPathBytes(val []byte, venc string, elems [][]interface{}, trail int, ev *mkEval) []byte {
	var b []byte
	switch venc {
	case "ok":
		b = append(b, mkVarUint(len(val))...)
		b = append(b, val...)
	case "irr": // non-canonical length prefix: one form longer than needed
		n := len(val)
		switch {
		case n < 0xFD:
			b = append(b, 0xFD, byte(n), 0)
		case n <= 0xFFFF:
			b = append(b, 0xFE, byte(n), byte(n>>8), 0, 0)
		default:
			b = append(b, 0xFF, byte(n), byte(n>>8), byte(n>>16), byte(n>>24), 0, 0, 0, 0)
		}
		b = append(b, val...)
	case "trunc": // the announced length exceeds what is there; nothing follows
		b = append(b, mkVarUint(len(val))...)
		b = append(b, val[:len(val)-1]...)
		return b
	}
	for _, e := range elems {
		side := int(e[0].(float64))
		h := ev.eval(e[1].(string))
		b = append(b, byte(side))
		b = append(b, h[:]...)
	}
	for i := 0; i < trail; i++ {
		b = append(b, byte(0xA0+i%7))
	}
	return b
}
