package kbucket

// Harness of /verif for C37: drives a real RouteTable through action sequences (the edge cover of
// spec/KBucket.tla, or long random histories over 160-bit ids) and reports, after every step, the result of
// the call, the real bucket structure (rt.Buckets, front of each list first) and, for NearestPeers, the answer.

import (
	"encoding/hex"
	"fmt"
	"strconv"
	"strings"
	"testing"

	ocommon "github.com/ontio/ontology/common"
	"github.com/ontio/ontology/p2pserver/common"
)

type kbStep struct {
	Name string `json:"name"` // Update | Remove | Nearest
	P    int    `json:"p,omitempty"`
	A    int    `json:"a,omitempty"` // Update: which address string the peer announces (0/1 = first)
	T    int    `json:"t,omitempty"`
	N    int    `json:"n,omitempty"`
}

type kbIn struct {
	Local string     `json:"local"` // 40 hex digits
	IDs   []string   `json:"ids"`   // peer id number (1-based) -> 40 hex digits
	K     int        `json:"k"`
	Paths [][]kbStep `json:"paths"`
}

type kbObs struct {
	Path    int     `json:"path"`
	Step    int     `json:"step"`
	Res     string  `json:"res"`
	Err     string  `json:"err,omitempty"`
	Buckets [][]int `json:"buckets"`
	Out     []int   `json:"out"`
	Addr    []int   `json:"addr"`    // peer number -> address index recorded in the table (0: peer not in the table; -1: several pairs)
	Size    int     `json:"size"`    // RouteTable.Size()
	Listed  int     `json:"listed"`  // len(RouteTable.ListPeers())
	Found   bool    `json:"found"`   // Remove: RouteTable.Find(p) still succeeds after the removal
	Added   int     `json:"added"`   // PeerAdded callbacks during the step
	Removed int     `json:"removed"` // PeerRemoved callbacks during the step
}

func kbID(h string) common.PeerId {
	b, err := hex.DecodeString(h)
	vhMust(err)
	if len(b) != 20 {
		panic("peer id must have 20 bytes")
	}
	var id common.PeerId
	vhMust(id.Deserialization(ocommon.NewZeroCopySource(b)))
	return id
}

func TestVerifKBReplay(t *testing.T) {
	var in kbIn
	vhIn(&in)
	out := vhOpenOut()
	defer out.Close()
	local := kbID(in.Local)
	ids := make([]common.PeerId, len(in.IDs)+1)
	num := map[common.PeerId]int{}
	for i, h := range in.IDs {
		ids[i+1] = kbID(h)
		num[ids[i+1]] = i + 1
	}
	snapshot := func(rt *RouteTable) [][]int {
		bs := [][]int{}
		for _, b := range rt.Buckets {
			l := []int{}
			for _, p := range b.Peers() {
				n, ok := num[p.ID]
				if !ok {
					n = -1
				}
				l = append(l, n)
			}
			bs = append(bs, l)
		}
		return bs
	}
	// address strings: "10.<a>.0.<p%250>:20338" -- the second octet tells which address the pair was inserted with
	addrOf := func(p, a int) string {
		if a < 1 {
			a = 1
		}
		return fmt.Sprintf("10.%d.0.%d:20338", a, p%250)
	}
	addrSnapshot := func(rt *RouteTable) []int {
		res := make([]int, len(in.IDs))
		for _, b := range rt.Buckets {
			for _, p := range b.Peers() {
				n, ok := num[p.ID]
				if !ok {
					continue
				}
				a := -1
				if parts := strings.Split(p.Address, "."); len(parts) == 4 {
					if v, err := strconv.Atoi(parts[1]); err == nil {
						a = v
					}
				}
				if res[n-1] != 0 {
					a = -1 // the same peer id twice in the table
				}
				res[n-1] = a
			}
		}
		return res
	}
	for pi, path := range in.Paths {
		rt := NewRoutingTable(in.K, local)
		added, removed := 0, 0
		rt.PeerAdded = func(common.PeerId) { added++ }
		rt.PeerRemoved = func(common.PeerId) { removed++ }
		dead := false
		for si, st := range path {
			if dead {
				break
			}
			o := kbObs{Path: pi, Step: si + 1}
			added, removed = 0, 0
			func() {
				defer func() {
					if r := recover(); r != nil {
						o.Res = "panic"
						o.Err = fmt.Sprint(r)
						dead = true
					}
				}()
				switch st.Name {
				case "Update":
					err := rt.Update(ids[st.P], addrOf(st.P, st.A))
					if err == nil {
						o.Res = "ok"
					} else if err == ErrPeerRejectedNoCapacity {
						o.Res = "nocap"
					} else {
						o.Res = "err"
						o.Err = err.Error()
					}
				case "Remove":
					rt.Remove(ids[st.P])
					o.Res = "ok"
					_, o.Found = rt.Find(ids[st.P])
				case "Nearest":
					o.Res = "ok"
					o.Out = []int{}
					for _, p := range rt.NearestPeers(ids[st.T], st.N) {
						n, ok := num[p.ID]
						if !ok {
							n = -1
						}
						o.Out = append(o.Out, n)
					}
				default:
					panic("unknown step " + st.Name)
				}
				o.Buckets = snapshot(rt)
				o.Addr = addrSnapshot(rt)
				o.Size = rt.Size()
				o.Listed = len(rt.ListPeers())
			}()
			o.Added, o.Removed = added, removed
			out.Emit(o)
		}
	}
}
