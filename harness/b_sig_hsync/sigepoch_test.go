package test

// Conformance harness for spec/SigEpoch.tla, Which = "sync" (stateful part of C33): TLC histories of SyncBlockHeader
// steps (key headers announcing a new peer set and ordinary headers, heights in any order) are replayed on the real
// header_sync contract, one CacheDB per history on top of the state left by SyncGenesisHeader.

import (
	"bytes"
	"encoding/json"
	"fmt"
	"testing"

	"github.com/ontio/ontology/common"
	"github.com/ontio/ontology/common/log"
	vconfig "github.com/ontio/ontology/consensus/vbft/config"
	"github.com/ontio/ontology/core/types"
	"github.com/ontio/ontology/smartcontract"
	"github.com/ontio/ontology/smartcontract/service/native"
	cccom "github.com/ontio/ontology/smartcontract/service/native/cross_chain/common"
	"github.com/ontio/ontology/smartcontract/service/native/cross_chain/header_sync"
	"github.com/ontio/ontology/smartcontract/service/native/utils"
	"github.com/ontio/ontology/smartcontract/storage"
)

type heStep struct {
	Op      string `json:"op"`
	Height  int    `json:"height"`
	Signers []int  `json:"signers"`
	Cfg     []int  `json:"cfg"`
	LastCfg int    `json:"lastcfg"`
}
type heInput struct {
	N     int        `json:"n"`
	Keys  int        `json:"keys"`
	Paths [][]heStep `json:"paths"`
}

func TestVerifSigEpochSync(t *testing.T) {
	log.InitLog(log.FatalLog, log.Stdout)
	var in heInput
	vhIn(&in)
	out := vhOpenOut()
	defer out.Close()
	w := hsNewWorld(in.N)
	for len(w.keys) < in.Keys {
		w.keys = append(w.keys, hsNewKey())
	}
	out.Emit(map[string]interface{}{"meta": true, "peers": in.N})
	for pi, path := range in.Paths {
		cache := storage.NewCacheDB(w.overlay) // one contract state per history, thrown away afterwards
		var accs []bool
		var errs []string
		for si := range path {
			st := &path[si]
			acc := false
			es := ""
			func() {
				defer func() {
					if r := recover(); r != nil {
						es = "panic: " + fmt.Sprint(r)
					}
				}()
				info := &vconfig.VbftBlockInfo{Proposer: 1, LastConfigBlockNum: 0}
				if len(st.Cfg) > 0 {
					cc := &vconfig.ChainConfig{N: uint32(len(st.Cfg))}
					for i, k := range st.Cfg {
						cc.Peers = append(cc.Peers, &vconfig.PeerConfig{Index: uint32(i + 1), ID: vconfig.PubkeyID(w.keys[k-1].pub)})
					}
					info.NewChainConfig = cc
				}
				payload, err := json.Marshal(info)
				vhMust(err)
				h := &cccom.Header{Version: 0, ChainID: hsChain, Height: uint32(10 * st.Height), Timestamp: uint32(100 + st.Height),
					ConsensusData: uint64(si), ConsensusPayload: payload}
				hash := h.Hash()
				for _, k := range st.Signers {
					h.Bookkeepers = append(h.Bookkeepers, w.keys[k-1].pub)
					h.SigData = append(h.SigData, w.sign(k, hash[:]))
				}
				sink := common.NewZeroCopySink(nil)
				h.Serialization(sink)
				psink := common.NewZeroCopySink(nil)
				(&header_sync.SyncBlockHeaderParam{Address: w.admin, Headers: [][]byte{sink.Bytes()}}).Serialization(psink)
				ns := &native.NativeService{CacheDB: cache, Input: psink.Bytes(),
					ContextRef: &smartcontract.SmartContract{Config: &smartcontract.Config{Tx: &types.Transaction{SignedAddr: []common.Address{w.admin}}}}}
				res, err := header_sync.SyncBlockHeader(ns)
				acc = err == nil && bytes.Equal(res, utils.BYTE_TRUE)
				if err != nil {
					es = err.Error()
				}
			}()
			accs = append(accs, acc)
			if len(es) > 140 {
				es = es[len(es)-140:]
			}
			errs = append(errs, es)
		}
		out.Emit(map[string]interface{}{"p": pi, "acc": accs, "err": errs})
	}
	out.Emit(map[string]interface{}{"done": true})
}
