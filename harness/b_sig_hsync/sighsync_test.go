package test

// Conformance harness for spec/SigHeader.tla (C33): the header_sync native contract with a peer set stored through
// its own SyncGenesisHeader path; side-chain headers of height 1 are built and signed by the harness and offered
// to SyncBlockHeader (-> ProcessHeader -> VerifyHeader) and to VerifyHeader directly.

import (
	"bytes"
	"encoding/json"
	"fmt"
	"testing"

	"github.com/ontio/ontology-crypto/keypair"
	s "github.com/ontio/ontology-crypto/signature"
	"github.com/ontio/ontology/common"
	"github.com/ontio/ontology/common/log"
	vconfig "github.com/ontio/ontology/consensus/vbft/config"
	"github.com/ontio/ontology/core/states"
	"github.com/ontio/ontology/core/store/leveldbstore"
	"github.com/ontio/ontology/core/store/overlaydb"
	"github.com/ontio/ontology/core/types"
	"github.com/ontio/ontology/smartcontract"
	"github.com/ontio/ontology/smartcontract/service/native"
	cccom "github.com/ontio/ontology/smartcontract/service/native/cross_chain/common"
	"github.com/ontio/ontology/smartcontract/service/native/cross_chain/header_sync"
	"github.com/ontio/ontology/smartcontract/service/native/global_params"
	"github.com/ontio/ontology/smartcontract/service/native/utils"
	"github.com/ontio/ontology/smartcontract/storage"
)

type hsRow struct {
	Bk   []int           `json:"bk"`
	Sigs [][]interface{} `json:"sigs"`
}
type hsInput struct {
	N    int     `json:"n"`
	Rows []hsRow `json:"rows"`
	// several peer-set sizes in one call (threshold probes of SigHeader's quorum mode): one world per entry,
	// every observation carries the entry's index "w"
	Batch []hsInput `json:"batch"`
}
type hsKey struct {
	pri keypair.PrivateKey
	pub keypair.PublicKey
}
type hsWorld struct {
	keys    []*hsKey
	overlay *overlaydb.OverlayDB
	admin   common.Address
	sigc    map[string][]byte
}

func (w *hsWorld) sign(k int, msg []byte) []byte {
	ck := fmt.Sprintf("%d/%x", k, msg)
	if v, ok := w.sigc[ck]; ok {
		return v
	}
	sig, err := s.Sign(s.SHA256withECDSA, w.keys[k-1].pri, msg, nil)
	vhMust(err)
	b, err := s.Serialize(sig)
	vhMust(err)
	w.sigc[ck] = b
	return b
}

func (w *hsWorld) service(input []byte) *native.NativeService {
	return &native.NativeService{
		CacheDB: storage.NewCacheDB(w.overlay),
		Input:   input,
		ContextRef: &smartcontract.SmartContract{
			Config: &smartcontract.Config{Tx: &types.Transaction{SignedAddr: []common.Address{w.admin}}},
		},
	}
}

const hsChain = 3

func hsNewKey() *hsKey {
	pri, pub, err := keypair.GenerateKeyPair(keypair.PK_ECDSA, keypair.P256)
	vhMust(err)
	return &hsKey{pri, pub}
}

func hsNewWorld(n int) *hsWorld {
	w := &hsWorld{sigc: map[string][]byte{}}
	for i := 0; i <= n; i++ {
		w.keys = append(w.keys, hsNewKey())
	}
	w.admin = types.AddressFromPubKey(w.keys[0].pub)
	w.overlay = overlaydb.NewOverlayDB(leveldbstore.NewMemLevelDBStore())
	// the peer set goes in through the contract's own genesis-header path
	var peers []*vconfig.PeerConfig
	for i := 0; i < n; i++ {
		peers = append(peers, &vconfig.PeerConfig{Index: uint32(i + 1), ID: vconfig.PubkeyID(w.keys[i].pub)})
	}
	payload, err := json.Marshal(&vconfig.VbftBlockInfo{NewChainConfig: &vconfig.ChainConfig{Peers: peers}})
	vhMust(err)
	gh := &cccom.Header{Version: 0, ChainID: hsChain, Height: 0, ConsensusPayload: payload}
	sink := common.NewZeroCopySink(nil)
	gh.Serialization(sink)
	psink := common.NewZeroCopySink(nil)
	(&header_sync.SyncGenesisHeaderParam{GenesisHeader: sink.Bytes()}).Serialization(psink)
	ns := w.service(psink.Bytes())
	bf := common.NewZeroCopySink(nil)
	utils.EncodeAddress(bf, w.admin)
	ns.CacheDB.Put(global_params.GenerateOperatorKey(utils.ParamContractAddress), (&states.StorageItem{Value: bf.Bytes()}).ToArray())
	res, err := header_sync.SyncGenesisHeader(ns)
	vhMust(err)
	if !bytes.Equal(res, utils.BYTE_TRUE) {
		panic("SyncGenesisHeader returned false")
	}
	ns.CacheDB.Commit()
	return w
}

func (w *hsWorld) header(r *hsRow) (*cccom.Header, []byte) {
	payload, err := json.Marshal(&vconfig.VbftBlockInfo{Proposer: 1, LastConfigBlockNum: 0})
	vhMust(err)
	h := &cccom.Header{Version: 0, ChainID: hsChain, Height: 1, Timestamp: 100, ConsensusData: 9, ConsensusPayload: payload}
	hash := h.Hash()
	other := hash
	other[0] ^= 0xFF
	for _, k := range r.Bk {
		h.Bookkeepers = append(h.Bookkeepers, w.keys[k-1].pub)
	}
	for _, sg := range r.Sigs {
		kind := sg[0].(string)
		by := int(sg[1].(float64))
		switch kind {
		case "g":
			h.SigData = append(h.SigData, w.sign(by, hash[:]))
		case "s":
			h.SigData = append(h.SigData, w.sign(by, other[:]))
		default:
			h.SigData = append(h.SigData, []byte{0x01})
		}
	}
	sink := common.NewZeroCopySink(nil)
	h.Serialization(sink)
	return h, sink.Bytes()
}

func TestVerifSigHeaderSync(t *testing.T) {
	log.InitLog(log.FatalLog, log.Stdout)
	var in hsInput
	vhIn(&in)
	out := vhOpenOut()
	defer out.Close()
	if len(in.Batch) == 0 {
		hsRunWorld(out, -1, &in)
	}
	for wi := range in.Batch {
		hsRunWorld(out, wi, &in.Batch[wi])
	}
	out.Emit(map[string]interface{}{"done": true})
}

// one stored peer set of in.N peers; every row's header goes to SyncBlockHeader and to VerifyHeader
func hsRunWorld(out *vhOut, wi int, in *hsInput) {
	w := hsNewWorld(in.N)
	// the size of the peer set the contract has stored for the genesis key height (what VerifyHeader will read)
	npeers := -1
	cb, _ := utils.GetUint64Bytes(hsChain)
	hb, _ := utils.GetUint32Bytes(0)
	if item, err := w.service(nil).CacheDB.Get(utils.ConcatKey(utils.HeaderSyncContractAddress, []byte(header_sync.CONSENSUS_PEER), cb, hb)); err == nil && item != nil {
		if val, err := states.GetValueFromRawStorageItem(item); err == nil {
			cp := &header_sync.ConsensusPeers{PeerMap: map[string]*header_sync.Peer{}}
			if cp.Deserialization(common.NewZeroCopySource(val)) == nil {
				npeers = len(cp.PeerMap)
			}
		}
	}
	out.Emit(map[string]interface{}{"meta": true, "peers": in.N, "w": wi, "storedPeers": npeers})
	for i := range in.Rows {
		h, raw := w.header(&in.Rows[i])
		o := map[string]interface{}{"i": i, "w": wi}
		func() {
			defer func() {
				if r := recover(); r != nil {
					o["panic"] = fmt.Sprint(r)
					o["acc"] = false
				}
			}()
			// the contract entry point on a throw-away cache
			psink := common.NewZeroCopySink(nil)
			(&header_sync.SyncBlockHeaderParam{Address: w.admin, Headers: [][]byte{raw}}).Serialization(psink)
			ns := w.service(psink.Bytes())
			res, err := header_sync.SyncBlockHeader(ns)
			acc := err == nil && bytes.Equal(res, utils.BYTE_TRUE)
			stored, _ := header_sync.GetHeaderByHeight(ns, hsChain, 1)
			o["acc"] = acc
			o["stored"] = stored != nil
			if err != nil {
				o["err"] = err.Error()
			}
			// and the anchored function directly
			o["direct"] = header_sync.VerifyHeader(w.service(nil), h) == nil
		}()
		out.Emit(o)
	}
}
