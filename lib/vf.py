"""Common machinery for the /verif checks.

Every property check is a python module props/<ID>.py with a function run(ctx).
ctx (class Ctx) offers:
  * ctx.tlc(...)            run TLC on a spec in a scratch copy, parse counts / errors / EDGE lines / coverage
  * ctx.apalache(...)       run apalache-mc check
  * ctx.go_test_bin(...)    build an in-package (overlay-injected) Go test binary from /repo's working tree
  * ctx.run_bin(...)        run a harness binary with VERIF_* environment
  * ctx.cover(...)          turn TLC's edge list into action sequences covering every edge
  * ctx.trace_validate(...) validate an NDJSON trace recorded from the real code against a <Module>_Trace spec
  * ctx.violation(...)      record a violation observed on the real code (known-finding aware)
  * ctx.infra(...)          record an infrastructure failure (exit 2, never a verdict)
  * ctx.finish(...)         write evidence/<id>.json and exit with the contract's exit code

Exit codes: 0 property held on everything explored; 1 violation on the real code (VIOLATION line);
2 infrastructure failure / model drift / vacuity (never a verdict).
"""
import hashlib
import json
import os
import random
import re
import shutil
import subprocess
import sys
import threading
import time

VERIF = os.path.dirname(os.path.dirname(os.path.abspath(__file__)))
REPO = os.environ.get("VERIF_REPO", "/repo")
TLA_CP = "/opt/veriftools/tla/tla2tools.jar:/opt/veriftools/tla/CommunityModules-deps.jar"
NCPU = int(os.environ.get("VERIF_WORKERS", os.cpu_count() or 4))  # VERIF_WORKERS caps TLC workers (development only)


def canon(x):
    """canonical JSON string (sorted keys) used as state identity"""
    return json.dumps(x, sort_keys=True, separators=(",", ":"))


def norm_set(xs):
    """TLC prints sets as JSON arrays in its own order: sort them canonically"""
    return sorted(xs, key=canon)


class TLCResult:
    def __init__(self):
        self.generated = 0
        self.distinct = 0
        self.depth = 0
        self.status = "error"  # ok | violation | error | timeout
        self.violated = None  # name of invariant / property
        self.errors = []
        self.prints = {}  # tag -> list of json objects
        self.coverage = {}  # action name -> (distinct, generated)
        self.out_path = None
        self.wall = 0.0
        self.cmd = ""
        self.trace_text = ""


class Ctx:
    def __init__(self, pid, tier="quick", seed=None, replay=None):
        self.pid = pid
        self.tier = tier
        self.seed = int(seed if seed is not None else os.environ.get("VERIF_SEED", "1"))
        self.rng = random.Random(self.seed)
        self.t0 = time.time()
        self.replay_in = replay
        # one scratch directory per process (concurrent runs of the same check must not wipe each other);
        # removed again by finish() on a clean exit, stale ones (> 3 h) are removed here.
        rundir = os.path.join(VERIF, "build", "run")
        os.makedirs(rundir, exist_ok=True)
        for d in os.listdir(rundir):
            if d.startswith("%s-%s" % (pid, tier)):
                pth = os.path.join(rundir, d)
                try:
                    if time.time() - os.path.getmtime(pth) > 3 * 3600 or d == "%s-%s" % (pid, tier):
                        shutil.rmtree(pth, ignore_errors=True)
                except OSError:
                    pass
        self.scratch = os.path.join(rundir, "%s-%s-%d" % (pid, tier, os.getpid()))
        shutil.rmtree(self.scratch, ignore_errors=True)
        os.makedirs(self.scratch, exist_ok=True)
        os.makedirs(os.path.join(VERIF, "build", "replay"), exist_ok=True)
        os.makedirs(os.path.join(VERIF, "evidence"), exist_ok=True)
        self.violations = []  # (key, detail, replay_path)
        self.known_hits = []
        self.infra_errors = []
        self.notes = []
        self._tlc_n = 0
        self._findings = self._load_findings()
        self.stats = {"states": 0, "transitions": 0, "traces": 0}
        self.samples = []
        self.extra = {}
        self.assumptions = []
        self.thorough = tier == "thorough"

    # ------------------------------------------------------------------ logging
    def log(self, *a):
        print("[%s %6.1fs]" % (self.pid, time.time() - self.t0), *a, flush=True)

    # ------------------------------------------------------------------ findings
    def _load_findings(self):
        # known_findings.json is the committed list (assembled by bin/mkmanifest from known_findings.d/*.json);
        # it is never written at run time.
        p = os.path.join(VERIF, "known_findings.json")
        if not os.path.exists(p):
            return []
        with open(p) as f:
            return json.load(f).get("findings", [])

    def known_keys(self):
        return {f["key"] for f in self._findings if f.get("status") == "known" and f.get("property") == self.pid}

    def violation(self, key, detail, replay_obj):
        """Record a violation OBSERVED ON THE REAL CODE.  key is a structural identifier
        (e.g. 'recoverStore:crash-after-blk'); if it is listed as status=known for this
        property in known_findings.json, a KNOWN-FINDING line is printed instead."""
        if key in self.known_keys():
            if key not in [k for k, _ in self.known_hits]:
                self.known_hits.append((key, detail))
                print("KNOWN-FINDING: property=%s %s: %s" % (self.pid, key, detail), flush=True)
            return
        n = len(self.violations)
        # replay files only for the first 50 violations of a run (the rest are counted): a broken
        # tree can produce hundreds of thousands
        path = os.path.join(VERIF, "build", "replay", "%s-%s-%d-%d.json" % (self.pid, self.tier, os.getpid(), min(n, 49)))
        if n < 50:
            with open(path, "w") as f:
                json.dump({"property": self.pid, "key": key, "detail": detail, "seed": self.seed,
                           "tier": self.tier, "replay": replay_obj}, f, indent=1, default=str)
        self.violations.append((key, detail, path))
        if n < 20:
            print("VIOLATION property=%s replay=%s" % (self.pid, path), flush=True)
            print("  key=%s detail=%s" % (key, str(detail)[:600]), flush=True)

    def infra(self, msg):
        self.infra_errors.append(msg)
        print("INFRA-ERROR property=%s %s" % (self.pid, msg), flush=True)

    # ------------------------------------------------------------------ spec staging
    _stage_lock = threading.Lock()

    def stage_specs(self, extra_files=None):
        with Ctx._stage_lock:
            d = os.path.join(self.scratch, "spec%d" % self._tlc_n)
            self._tlc_n += 1
        os.makedirs(d, exist_ok=True)
        src = os.path.join(VERIF, "spec")
        for root, _, files in os.walk(src):
            for fn in files:
                if fn.endswith((".tla", ".cfg")):
                    shutil.copy(os.path.join(root, fn), os.path.join(d, fn))
        for name, content in (extra_files or {}).items():
            if isinstance(content, str) and os.path.isabs(content) and os.path.exists(content) and "\n" not in content:
                shutil.copy(content, os.path.join(d, name))
            else:
                with open(os.path.join(d, name), "w") as f:
                    f.write(content)
        return d

    # ------------------------------------------------------------------ TLC
    def tlc(self, module, cfg=None, workers=None, simulate=None, depth=None, extra=(), timeout=900,
            coverage=False, files=None, deque=False, seed=None, xss="64m", heap=None, deadlock=True,
            expect_violation=False, tags=("EDGE", "INIT", "ROW", "BEHAVIOUR", "NOTE")):
        """Run TLC.  simulate: 'num=N' string (uses -simulate).  Returns TLCResult."""
        d = self.stage_specs(files)
        cfg = cfg or (module + ".cfg")
        meta = os.path.join(d, "meta")
        w = workers if workers is not None else NCPU
        cmd = ["java", "-XX:+UseParallelGC", "-XX:ParallelGCThreads=4", "-Xss" + xss]
        if heap:
            cmd.append("-Xmx" + heap)
        if deque:
            cmd.append("-Dtlc2.tool.queue.IStateQueue=StateDeque")
        cmd += ["-cp", TLA_CP, "tlc2.TLC", "-metadir", meta, "-workers", str(w), "-config", cfg]
        if not deadlock:
            cmd.append("-deadlock")
        if coverage:
            cmd += ["-coverage", "1"]
        if simulate:
            cmd += ["-simulate", simulate]
            if depth:
                cmd += ["-depth", str(depth)]
            cmd += ["-seed", str(seed if seed is not None else self.seed)]
        cmd += list(extra)
        cmd.append(module + ".tla")
        out_path = os.path.join(d, "tlc.out")
        r = TLCResult()
        r.cmd = " ".join(cmd)
        r.out_path = out_path
        t = time.time()
        with open(out_path, "w") as out:
            try:
                p = subprocess.run(cmd, cwd=d, stdout=out, stderr=subprocess.STDOUT, timeout=timeout)
                rc = p.returncode
            except subprocess.TimeoutExpired:
                rc = -9
                r.status = "timeout"
        r.wall = time.time() - t
        self._parse_tlc(r, rc, tags)
        if r.status == "error":
            self.log("TLC error (%s): %s" % (module, "; ".join(r.errors[:3])))
        self.stats["states"] += r.distinct
        self.stats["transitions"] += r.generated
        return r

    _re_counts = re.compile(r"^(\d+) states generated, (\d+) distinct states found")
    _re_depth = re.compile(r"^The depth of the complete state graph search is (\d+)")
    _re_cov = re.compile(r"^<(\w+) line \d+, col \d+ to line \d+, col \d+ of module (\w+)>: (\d+):(\d+)")
    _re_tag = re.compile(r'^<<"([A-Z]+)", (.*)>>$')

    def _parse_tlc(self, r, rc, tags):
        ok = False
        in_trace = False
        trace_lines = []
        with open(r.out_path, errors="replace") as f:
            for line in f:
                line = line.rstrip("\n")
                if line.startswith("<<\""):
                    m = self._re_tag.match(line)
                    if m and m.group(1) in tags:
                        payload = m.group(2)
                        try:
                            if payload.startswith('"'):
                                obj = json.loads(json.loads(payload))
                            else:
                                obj = payload
                        except Exception:
                            obj = payload
                        r.prints.setdefault(m.group(1), []).append(obj)
                        continue
                m = self._re_counts.match(line)
                if m:
                    r.generated, r.distinct = int(m.group(1)), int(m.group(2))
                    continue
                m = self._re_depth.match(line)
                if m:
                    r.depth = int(m.group(1))
                    continue
                m = self._re_cov.match(line)
                if m:
                    name = m.group(1)
                    dd, gg = int(m.group(3)), int(m.group(4))
                    a = r.coverage.get(name, (0, 0))
                    r.coverage[name] = (a[0] + dd, a[1] + gg)
                    continue
                if line.startswith("Model checking completed. No error has been found."):
                    ok = True
                if line.startswith("Error:"):
                    r.errors.append(line)
                    m2 = re.match(r"Error: Invariant (\S+) is violated", line)
                    m3 = re.match(r"Error: Action property (\S+) is violated", line) or \
                        re.match(r"Error: The invariant of (\S+) is equal to FALSE", line)
                    if m2 or m3:
                        r.violated = (m2 or m3).group(1)
                    if "Deadlock reached" in line:
                        r.violated = "Deadlock"
                    if "Temporal properties were violated" in line:
                        r.violated = "Temporal"
                    in_trace = True
                if in_trace and len(trace_lines) < 4000:
                    trace_lines.append(line)
        r.trace_text = "\n".join(trace_lines)
        if r.status == "timeout":
            return
        if r.violated:
            r.status = "violation"
        elif r.errors:
            r.status = "error"
        elif ok or rc == 0:
            r.status = "ok"
        else:
            r.status = "error"
            r.errors.append("tlc exit code %s" % rc)

    def vacuous(self, r, required_actions):
        """exit-2 condition: an action of the spec never taken (needs coverage=True)"""
        missing = [a for a in required_actions if r.coverage.get(a, (0, 0))[1] == 0]
        if missing:
            self.infra("vacuous model run: actions never taken: %s" % missing)
        return missing

    # ------------------------------------------------------------------ Apalache
    def apalache(self, module_file, inv, init=None, next_=None, length=1, cinit=None, timeout=600, files=None, extra=()):
        d = self.stage_specs(files)
        # apalache specs live in spec/apa, staged flat as well
        cmd = ["apalache-mc", "check", "--inv=" + inv, "--length=%d" % length,
               "--out-dir=" + os.path.join(d, "apa-out"), "--run-dir=" + os.path.join(d, "apa-run")]
        if init:
            cmd.append("--init=" + init)
        if next_:
            cmd.append("--next=" + next_)
        if cinit:
            cmd.append("--cinit=" + cinit)
        cmd += list(extra)
        cmd.append(module_file)
        t = time.time()
        try:
            p = subprocess.run(cmd, cwd=d, stdout=subprocess.PIPE, stderr=subprocess.STDOUT, timeout=timeout, text=True)
            out, rc = p.stdout, p.returncode
        except subprocess.TimeoutExpired as e:
            out, rc = (e.stdout or b"").decode(errors="replace") if isinstance(e.stdout, bytes) else (e.stdout or ""), -9
        res = {"rc": rc, "out": out, "wall": time.time() - t, "cmd": " ".join(cmd), "dir": d}
        if rc == 0 and "The outcome is: NoError" in out:
            res["status"] = "ok"
        elif "The outcome is: Error" in out or rc == 12:
            res["status"] = "violation"
        elif rc == -9:
            res["status"] = "timeout"
        else:
            res["status"] = "error"
        return res

    # ------------------------------------------------------------------ Go
    def go_env(self, tags=None):
        env = dict(os.environ)
        env.update({"GOFLAGS": "-mod=mod", "GOPROXY": "off", "GOSUMDB": "off", "GOTOOLCHAIN": "local",
                    "CGO_LDFLAGS": "-L%s -lwasmjit_stub" % os.path.join(VERIF, "build", "stub")})
        return env

    def go_test_bin(self, pkg, harness=None, tags=(), hide_own_tests=False, name=None, new_pkg=False, with_=()):
        """Build a test binary of /repo/<pkg> with the files of /verif/harness/<harness or pkg>/ injected
        (go -overlay; files are only ADDED; with hide_own_tests the package's own _test.go files are
        hidden so that TestMain does not clash).  new_pkg: <pkg> does not exist in the repository
        (a harness-only package living under /repo/<pkg> through the overlay)."""
        stub = os.path.join(VERIF, "build", "stub", "libwasmjit_stub.a")
        if not os.path.exists(stub):
            subprocess.run([os.path.join(VERIF, "bin", "setup")], check=True, stdout=subprocess.DEVNULL)
        hdir = os.path.join(VERIF, "harness", harness or pkg)
        name = name or (harness or pkg).replace("/", "_")
        ov = {}
        pkgdir = os.path.join(REPO, pkg)
        if hide_own_tests and os.path.isdir(pkgdir):
            for fn in os.listdir(pkgdir):
                if fn.endswith("_test.go"):
                    ov[os.path.join(pkgdir, fn)] = ""
        n = 0
        pkgname = None
        for fn in sorted(os.listdir(hdir)):
            if fn.endswith(".go"):
                ov[os.path.join(pkgdir, "zz_verif_" + fn)] = os.path.join(hdir, fn)
                n += 1
                if pkgname is None:
                    m = re.search(r"^package\s+(\w+)", open(os.path.join(hdir, fn)).read(), re.M)
                    pkgname = m.group(1) if m else None
        if n == 0:
            self.infra("no harness files in %s" % hdir)
            return None
        bdir = os.path.join(self.scratch, "bin")
        os.makedirs(bdir, exist_ok=True)
        # shared helpers (harness/_common/*.go.tmpl) are instantiated for the harness's package
        # with_=('_ledger',) adds further shared template directories harness/<dir>/*.go.tmpl
        for cname in ("_common",) + tuple(with_):
            cdir = os.path.join(VERIF, "harness", cname)
            for fn in sorted(os.listdir(cdir)):
                if fn.endswith(".go.tmpl"):
                    gen = os.path.join(bdir, name + cname + "_" + fn[:-8] + "_test.go")
                    with open(gen, "w") as f:
                        f.write(open(os.path.join(cdir, fn)).read().replace("PKGNAME", pkgname))
                    ov[os.path.join(pkgdir, "zz_verif" + cname + "_" + fn[:-8] + "_test.go")] = gen
        ovp = os.path.join(bdir, name + ".overlay.json")
        with open(ovp, "w") as f:
            json.dump({"Replace": ov}, f)
        out = os.path.join(bdir, name + ".test")
        cmd = ["go", "test", "-c", "-vet=off", "-overlay", ovp, "-o", out]
        if tags:
            cmd += ["-tags", ",".join(tags)]
        cmd.append("./" + pkg)
        t = time.time()
        p = subprocess.run(cmd, cwd=REPO, env=self.go_env(), stdout=subprocess.PIPE, stderr=subprocess.STDOUT, text=True)
        if p.returncode != 0 or not os.path.exists(out):
            self.infra("go build of harness %s failed:\n%s" % (name, p.stdout[-3000:]))
            return None
        self.log("built %s in %.1fs" % (name, time.time() - t))
        return out

    def run_bin(self, binary, run, env=None, timeout=900, cwd=None, args=(), quiet=False):
        """Run a harness test function.  Returns (rc, output)."""
        e = self.go_env()
        e["VERIF_SEED"] = str(self.seed)
        e["VERIF_TIER"] = self.tier
        e["VERIF_SCRATCH"] = self.scratch
        for k, v in (env or {}).items():
            e[k] = str(v)
        wd = cwd or os.path.join(self.scratch, "wd")
        os.makedirs(wd, exist_ok=True)
        cmd = [binary, "-test.run", "^%s$" % run, "-test.v", "-test.timeout", "%ds" % (timeout + 30)] + list(args)
        try:
            p = subprocess.run(cmd, cwd=wd, env=e, stdout=subprocess.PIPE, stderr=subprocess.STDOUT, timeout=timeout, text=True,
                               errors="replace")
            rc, out = p.returncode, p.stdout
        except subprocess.TimeoutExpired as ex:
            rc = -9
            out = ex.stdout.decode(errors="replace") if isinstance(ex.stdout, bytes) else (ex.stdout or "")
        if rc != 0 and not quiet:
            self.log("harness %s rc=%s tail:\n%s" % (run, rc, out[-2500:]))
        return rc, out

    # ------------------------------------------------------------------ cover
    def cover(self, edges, inits, max_len=120, max_paths=None):
        """edges: list of {from, act, to}; inits: list of states.  Returns list of paths; a path is a
        dict {init: state, steps: [{act, to}]}.  Every edge reachable from an init state is in some path."""
        if len(edges) > 60000:
            # the greedy stitcher below is quadratic in bad cases; big graphs use the linear BFS-prefix cover
            paths, ncov, _ = fast_cover(edges, inits, max_len)
            return (paths[:max_paths] if max_paths else paths), ncov
        sid = {}

        def ident(s):
            c = canon(s)
            if c not in sid:
                sid[c] = len(sid)
            return sid[c]

        out = {}
        E = []
        for e in edges:
            a, b = ident(e["from"]), ident(e["to"])
            key = (a, canon(e["act"]), b)
            if key in out.setdefault(a, {}):
                continue
            out[a][key] = len(E)
            E.append((a, e["act"], b, e["to"]))
        adj = {}
        for i, (a, _, b, _) in enumerate(E):
            adj.setdefault(a, []).append(i)
        covered = [False] * len(E)
        ncov = 0
        init_ids = []
        for s in inits:
            init_ids.append((ident(s), s))
        if not init_ids:
            return [], 0
        # reachable set (for reporting unreachable edges)
        paths = []
        unc_out = {a: len(v) for a, v in adj.items()}  # uncovered out-edge count per node

        def bfs_to_uncovered(start):
            # shortest edge path from start to a node with an uncovered out-edge
            if unc_out.get(start, 0) > 0:
                return []
            prev = {start: None}
            q = [start]
            qi = 0
            while qi < len(q):
                u = q[qi]
                qi += 1
                for ei in adj.get(u, ()):
                    v = E[ei][2]
                    if v in prev:
                        continue
                    prev[v] = (u, ei)
                    if unc_out.get(v, 0) > 0:
                        path = []
                        while prev[v] is not None:
                            u2, e2 = prev[v]
                            path.append(e2)
                            v = u2
                        path.reverse()
                        return path
                    q.append(v)
            return None

        stuck_inits = set()
        while ncov < len(E):
            progressed = False
            for (i0, s0) in init_ids:
                if i0 in stuck_inits:
                    continue
                cur = i0
                steps = []
                new_in_path = 0
                while len(steps) < max_len:
                    nxt = None
                    for ei in adj.get(cur, ()):
                        if not covered[ei]:
                            nxt = [ei]
                            break
                    if nxt is None:
                        nxt = bfs_to_uncovered(cur)
                        if not nxt:
                            break
                        if len(steps) + len(nxt) + 1 > max_len and steps:
                            break
                    for ei in nxt:
                        if not covered[ei]:
                            covered[ei] = True
                            ncov += 1
                            new_in_path += 1
                            unc_out[E[ei][0]] -= 1
                        steps.append({"act": E[ei][1], "to": E[ei][3]})
                        cur = E[ei][2]
                if new_in_path == 0:
                    stuck_inits.add(i0)
                    continue
                progressed = True
                paths.append({"init": s0, "steps": steps})
                if max_paths and len(paths) >= max_paths:
                    return paths, ncov
            if not progressed:
                break
        return paths, ncov

    # ------------------------------------------------------------------ trace validation
    def trace_validate(self, module, trace_path, cfg=None, files=None, timeout=600, n_events=None, deque=True):
        """Validate an NDJSON trace against spec module <module> (a *_Trace spec which reads
        'trace.ndjson' from its working directory and sets TLC register 1 to the highest consumed index).
        Returns dict(accepted, matched, total, result)."""
        ff = dict(files or {})
        ff["trace.ndjson"] = trace_path
        r = self.tlc(module, cfg=cfg, workers=1, files=ff, timeout=timeout, deque=deque, tags=("HW", "NOTE"))
        total = n_events
        if total is None:
            with open(trace_path) as f:
                total = sum(1 for l in f if l.strip())
        matched = 0
        for o in r.prints.get("HW", []):
            try:
                matched = max(matched, int(o))
            except Exception:
                pass
        m = re.search(r"HWMARK=(\d+)", open(r.out_path, errors="replace").read())
        if m:
            matched = max(matched, int(m.group(1)))
        accepted = r.status == "ok" and matched >= total
        return {"accepted": accepted, "matched": matched, "total": total, "result": r}

    # ------------------------------------------------------------------ finish
    def finish(self, level, coverage, assumptions=None):
        cov = dict(coverage)
        cov.setdefault("samples", self.samples[:6] or ["(none)"])
        ev = {
            "property_id": self.pid,
            "tier": self.tier,
            "seed": self.seed,
            "level": level,
            "coverage": cov,
            "assumptions": (assumptions or []) + self.assumptions,
            "wall_s": round(time.time() - self.t0, 2),
            "violations": len(self.violations),
            "known_findings_hit": [k for k, _ in self.known_hits],
            "infra_errors": self.infra_errors,
            "notes": self.notes,
        }
        # evidence/<id>.json describes runs against /repo only; runs against another checkout (VERIF_REPO:
        # mutation / seeded-change testing) write to build/evidence-alt/ instead
        evdir = os.path.join(VERIF, "evidence") if os.path.realpath(REPO) == "/repo" else os.path.join(VERIF, "build", "evidence-alt")
        if evdir.endswith("evidence") and not self.pid.startswith("C"):
            # system-level specifications beyond the listed properties (X01, X02, ...): not part of the interface
            evdir = os.path.join(VERIF, "evidence-extra")
        os.makedirs(evdir, exist_ok=True)
        with open(os.path.join(evdir, "%s.json" % self.pid), "w") as f:
            json.dump(ev, f, indent=1, default=str)
        if not self.violations and not self.infra_errors and not os.environ.get("VERIF_KEEP"):
            shutil.rmtree(self.scratch, ignore_errors=True)
        if self.violations:
            print("RESULT property=%s violations=%d" % (self.pid, len(self.violations)))
            sys.exit(1)
        if self.infra_errors:
            print("RESULT property=%s infra_errors=%d (no verdict)" % (self.pid, len(self.infra_errors)))
            sys.exit(2)
        print("RESULT property=%s OK wall=%.1fs" % (self.pid, time.time() - self.t0))
        sys.exit(0)


def fast_cover(edges, inits, max_len=60):
    sid = {}
    states = []

    def ident(s):
        c = canon(s)
        i = sid.get(c)
        if i is None:
            i = sid[c] = len(states)
            states.append(s)
        return i

    seen = set()
    E = []          # (from, act, to)
    adj = {}
    for e in edges:
        a, b = ident(e["from"]), ident(e["to"])
        k = (a, canon(e["act"]), b)
        if k in seen:
            continue
        seen.add(k)
        adj.setdefault(a, []).append(len(E))
        E.append((a, e["act"], b))
    roots = [ident(s) for s in inits]
    parent = {r: None for r in roots}   # node -> edge index of the BFS tree
    root_of = {r: r for r in roots}
    order = list(roots)
    qi = 0
    while qi < len(order):
        u = order[qi]
        qi += 1
        for ei in adj.get(u, ()):
            v = E[ei][2]
            if v not in parent:
                parent[v] = ei
                root_of[v] = root_of[u]
                order.append(v)
    covered = [False] * len(E)
    nxt = {u: 0 for u in adj}           # per node: index of the first possibly uncovered out-edge
    ncov = 0
    paths = []

    def uncovered_edge(u):
        lst = adj.get(u)
        if not lst:
            return None
        i = nxt[u]
        while i < len(lst) and covered[lst[i]]:
            i += 1
        nxt[u] = i
        return lst[i] if i < len(lst) else None

    for u in order:
        while uncovered_edge(u) is not None:
            pre = []
            x = u
            while parent[x] is not None:
                pre.append(parent[x])
                x = E[parent[x]][0]
            pre.reverse()
            chain = []
            cur = u
            while len(pre) + len(chain) < max(max_len, len(pre) + 1):
                ei = uncovered_edge(cur)
                if ei is None:
                    break
                covered[ei] = True
                ncov += 1
                chain.append(ei)
                cur = E[ei][2]
            for ei in pre:
                if not covered[ei]:
                    covered[ei] = True
                    ncov += 1
            paths.append({"init": states[root_of[u]],
                          "steps": [{"act": E[ei][1], "to": states[E[ei][2]]} for ei in pre + chain]})
    reachable_edges = sum(len(adj.get(u, ())) for u in order)
    return paths, ncov, reachable_edges


def read_ndjson(path):
    out = []
    with open(path) as f:
        for line in f:
            line = line.strip()
            if line:
                out.append(json.loads(line))
    return out


def write_json(path, obj):
    with open(path, "w") as f:
        json.dump(obj, f)


def sha(x):
    return hashlib.sha256(canon(x).encode()).hexdigest()[:16]
