----------------------------- MODULE Unbind_MC -----------------------------
(* TLC side of C09: tabulates Unbind's closed forms on the grid (ROW lines, compared    *)
(* point by point with what the real Go functions returned) and checks on the same grid *)
(* that the closed forms equal the literal transcription of the Go loops.               *)
EXTENDS Integers, Sequences, TLC, Json, Unbind_K, Unbind_G

U == INSTANCE Unbind WITH T <- K_T, Rate <- K_Rate, NewRate <- K_NewRate, D <- K_D,
                          OntSupply <- K_OntSupply, OngSupply <- K_OngSupply, GovDeadline <- K_GD, Gap <- K_Gap, GapAtDeadline <- K_GapAtDeadline

(* ---- literal loops of unbind_ong.go ---- *)
RECURSIVE Loop(_, _, _, _, _, _)
Loop(tab, ustart, istart, uend, iend, amount) ==
    IF ustart < uend
    THEN Loop(tab, ustart + 1, 0, uend, iend, amount + (K_T - istart) * tab[ustart + 1])
    ELSE amount + (iend - istart) * tab[ustart + 1]

HolderLoop(s, e) ==
    IF s >= e THEN 0
    ELSE IF s < K_D
         THEN LET e1 == IF e >= K_D THEN K_D ELSE e
              IN Loop(K_Rate, s \div K_T, s % K_T, e1 \div K_T, e1 % K_T, 0)
         ELSE 0

(* ---- literal loops of config.GetGovUnboundDeadline ---- *)
RECURSIVE CountA(_, _)
CountA(i, index) == IF i < index THEN K_Rate[i + 1] * K_T + CountA(i + 1, index) ELSE 0
RECURSIVE CountB(_)
CountB(i) == IF i < Len(K_NewRate) THEN K_NewRate[i + 1] * K_T + CountB(i + 1) ELSE 0
LIndex == K_D \div K_T
LGapIn == K_D - LIndex * K_T
LCount == CountA(0, LIndex) + K_Rate[LIndex + 1] * LGapIn + K_NewRate[LIndex + 1] * (K_T - LGapIn) + CountB(LIndex + 1)
LDeadline == K_T * Len(K_NewRate) - ((LCount - K_OntSupply) \div 3) - 1
LGap == 3 - ((LCount - K_OntSupply) % 3)

GovLoop(s, e) ==
    IF e < K_D THEN 0
    ELSE LET s1 == IF s < K_D THEN K_D ELSE s IN
         IF s1 >= e THEN 0
         ELSE IF s1 < LDeadline \/ (K_GapAtDeadline /\ s1 = LDeadline)
              THEN LET e1 == IF e > LDeadline THEN LDeadline ELSE e
                       gap == IF e > LDeadline THEN LGap ELSE 0
                   IN Loop(K_NewRate, s1 \div K_T, s1 % K_T, e1 \div K_T, e1 % K_T, 0) + gap
              ELSE 0

P == G_Points
N == Len(P)
Row(i) == [i |-> i - 1, a |-> P[i],
           h |-> [j \in 1..(N - i + 1) |-> U!HolderAmt(P[i], P[i + j - 1])],
           g |-> [j \in 1..(N - i + 1) |-> U!GovAmt(P[i], P[i + j - 1])],
           loopok |-> \A j \in i..N : /\ HolderLoop(P[i], P[j]) = U!HolderAmt(P[i], P[j])
                                      /\ GovLoop(P[i], P[j]) = U!GovAmt(P[i], P[j])]
\* start > end (the callers never do it; both functions return 0)
Rev(i) == [a |-> P[i], b |-> P[1], h |-> U!HolderAmt(P[i], P[1]), g |-> U!GovAmt(P[i], P[1])]

ASSUME PrintT(<<"NOTE", ToJson([net |-> K_Net, sane |-> U!Sane, count |-> U!Count, GD |-> U!GovDeadlineAsCoded, gap |-> U!GapAsCoded,
                                  lGD |-> LDeadline, lgap |-> LGap, lcount |-> LCount, npoints |-> N,
                                  fixed |-> K_GapAtDeadline])>>)
ASSUME \A i \in 1..N : PrintT(<<"ROW", ToJson(Row(i))>>)
ASSUME \A i \in 2..N : U!HolderAmt(P[i], P[1]) = 0 /\ U!GovAmt(P[i], P[1]) = 0

VARIABLE x
Init == x = 0
Next == x' = x
=============================================================================
