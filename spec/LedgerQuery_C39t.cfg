SPECIFICATION Spec
CONSTANTS
  Shapes <- ShapesC39
  MaxBlocks = 1
  Paths <- AllPaths
  Muts <- Double
  PreKinds <- NoKinds
  DuringKinds <- NoKinds
  Points <- NoKinds
  W = 2
  S = 2
  BitsOf <- RealBits
  BodyChecked = TRUE
  AllowRestart = TRUE
  AllowSync = TRUE
  FreshInits <- BothFresh
VIEW view
INVARIANTS TypeOK Coherent NoMiss IndexAgrees IndexComplete CacheComplete
PROPERTIES RejectedUnchanged PreExecUnchanged
CONSTRAINT InitOut
ACTION_CONSTRAINT Edge
CHECK_DEADLOCK FALSE
