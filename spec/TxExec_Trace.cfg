SPECIFICATION TSpec
CONSTANTS
  Payers <- TPayers
  GOV = "GOV"
  SINK = "SINK"
  Keys <- TKeys
  Vals <- TVals
  Prices <- TDummy
  Limits <- TDummy
  MinGas = 20
  CodeGasOf <- TCodeGas
  Fees <- TDummy
  InitOng <- TInitOng
  ResetBeforeTx = TRUE
  MaxOps = 100000000
INVARIANTS NonNeg
PROPERTIES TFailedOnlyFee TOnlyOwnWrites
CONSTRAINT HW
POSTCONDITION Accepted
CHECK_DEADLOCK FALSE
