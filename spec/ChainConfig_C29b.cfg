SPECIFICATION Spec
CONSTANTS
  Pools <- PoolsC29b
  Confs <- ConfsC29b
  Hashes <- HashOne
  Vrfs <- Vrfs4q
  ListsOf <- CanonOnly
  Acts <- ActsC29
VIEW view
INVARIANTS OrderFree ConfigInv WellFormedInv DomainInv
CONSTRAINT InitOut
ACTION_CONSTRAINT EdgeSel
CHECK_DEADLOCK FALSE
