SPECIFICATION TSpec
CONSTANTS
  Pools <- TNone
  Confs <- TNone
  Hashes <- TNone
  Vrfs <- TNone
  ListsOf <- TLists
  Acts <- TActs
INVARIANTS OrderFree ConfigInv
CONSTRAINT HW
POSTCONDITION Accepted
CHECK_DEADLOCK FALSE
