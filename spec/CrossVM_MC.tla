----------------------------- MODULE CrossVM_MC -----------------------------
EXTENDS CrossVM, Json
BytesA == {<<>>, <<1, 2>>}
AddrA == {[i \in 1..20 |-> i], Rep(255, 20)}
\* 16-byte little-endian two's complement: -1, -2^127, 2^127-1, and the 64-bit boundaries
\* 2^63, -2^63, 2^64-1, -(2^64-1), 2^64, -2^64 (a 64-bit fast path in the encoder must not truncate them)
IntA == {Rep(255, 16), Rep(0, 15) \o <<128>>, Rep(255, 15) \o <<127>>,
         Rep(0, 7) \o <<128>> \o Rep(0, 8), Rep(0, 7) \o <<128>> \o Rep(255, 8),
         Rep(255, 8) \o Rep(0, 8), <<1>> \o Rep(0, 7) \o Rep(255, 8),
         Rep(0, 8) \o <<1>> \o Rep(0, 7), Rep(0, 8) \o Rep(255, 8)}
HashA == {[i \in 1..32 |-> 32 - i], Rep(0, 32)}
AtomsFull == {Atom("bytes", b) : b \in BytesA} \cup {Atom("str", b) : b \in {<<>>, <<104, 105>>}}
             \cup {Atom("addr", b) : b \in AddrA} \cup {Atom("bool", <<b>>) : b \in {0, 1}}
             \cup {Atom("int", b) : b \in IntA} \cup {Atom("h256", b) : b \in HashA}
AtomsMid3 == {Atom("bytes", <<>>), Atom("bool", <<1>>), Atom("int", Rep(255, 16))}
AtomsDeep1 == {Atom("bool", <<1>>)}
AtomsMid4 == AtomsMid3 \cup {Atom("str", <<104, 105>>)}
AtomsDeep2 == {Atom("bool", <<1>>), Atom("bytes", <<1, 2>>)}
ReplQ == {0, 1, 3, 16, 255}
ReplT == {0, 1, 2, 3, 5, 6, 16, 17, 255}
\* histories: values of different encoded lengths (2, 5, 7, 17, 21, 33 bytes; lists of 7 / 40 / 12 bytes), so that a
\* recycled buffer is overwritten partly, exactly and beyond the length of an encoding still held
HBool == Atom("bool", <<1>>)
HBytes == Atom("bytes", <<1, 2>>)
HStr == Atom("str", <<104, 105>>)
HInt == Atom("int", Rep(255, 15) \o <<127>>)
HAddr == Atom("addr", [i \in 1..20 |-> i])
HHash == Atom("h256", [i \in 1..32 |-> 32 - i])
HL1 == List(<<HBool>>)
HL2 == List(<<HStr, List(<<HAddr, HInt>>), HBool>>)
HL3 == List(<<HBytes>>)
HistQ == {HBool, HStr, HInt, HHash, HL1, HL2}
HistT == {HBool, HBytes, HStr, HInt, HAddr, HL1, HL2, HL3, List(<<>>)}
ParQ == {HStr, HL2}
HEdge == PrintT(<<"EDGE", ToJson([from |-> HState, act |-> act', to |-> HState'])>>)
HInitOut == (TLCGet("level") = 1) => PrintT(<<"INIT", ToJson(HState)>>)
Edge == PrintT(<<"EDGE", ToJson([from |-> State, act |-> act', to |-> State'])>>)
InitOut == (TLCGet("level") = 1) => PrintT(<<"INIT", ToJson(State)>>)
=============================================================================
