----------------------------- MODULE CrossVM_MC -----------------------------
EXTENDS CrossVM, Json
BytesA == {<<>>, <<1, 2>>}
AddrA == {[i \in 1..20 |-> i], Rep(255, 20)}
IntA == {Rep(255, 16), Rep(0, 15) \o <<128>>}          \* -1, -2^127
HashA == {[i \in 1..32 |-> 32 - i], Rep(0, 32)}
AtomsFull == {Atom("bytes", b) : b \in BytesA} \cup {Atom("str", b) : b \in {<<>>, <<104, 105>>}}
             \cup {Atom("addr", b) : b \in AddrA} \cup {Atom("bool", <<b>>) : b \in {0, 1}}
             \cup {Atom("int", b) : b \in IntA} \cup {Atom("h256", b) : b \in HashA}
AtomsMid3 == {Atom("bytes", <<>>), Atom("bool", <<1>>), Atom("int", Rep(255, 16))}
AtomsDeep1 == {Atom("bool", <<1>>)}
AtomsMid4 == AtomsMid3 \cup {Atom("str", <<104, 105>>)}
AtomsDeep2 == {Atom("bool", <<1>>), Atom("bytes", <<1, 2>>)}
ReplQ == {0, 1, 3, 16, 255}
ReplT == {0, 1, 2, 3, 5, 6, 16, 17, 255}
Edge == PrintT(<<"EDGE", ToJson([from |-> State, act |-> act', to |-> State'])>>)
InitOut == (TLCGet("level") = 1) => PrintT(<<"INIT", ToJson(State)>>)
=============================================================================
