------------------------------ MODULE Num_Apa ------------------------------
(* EV for C21: Apalache (true unbounded integers) evaluates the integer-arithmetic definition of minimal       *)
(* little-endian two's complement on a table of (value, bytes) pairs recorded from the real                    *)
(* BigIntToNeoBytes / I128FromBigInt, at the 2^63 .. 2^256 boundaries TLC's 32-bit integers cannot reach.        *)
EXTENDS Integers, Sequences, Apalache, Num_ApaTab

VARIABLE
    \* @type: Int;
    dummy

\* @type: (<<Int, Int>>, Int) => <<Int, Int>>;
Step(acc, b) == <<acc[1] + b * acc[2], acc[2] * 256>>
\* @type: Seq(Int) => <<Int, Int>>;
Horner(bs) == ApaFoldSeqLeft(Step, <<0, 1>>, bs)
\* the integer a little-endian two's complement byte string denotes
\* @type: Seq(Int) => Int;
TwosValue(bs) == LET h == Horner(bs) IN
                 IF Len(bs) = 0 THEN 0 ELSE IF bs[Len(bs)] >= 128 THEN h[1] - h[2] ELSE h[1]
\* no redundant sign byte, zero is the empty string
\* @type: Seq(Int) => Bool;
Minimal(bs) == LET n == Len(bs) IN
               /\ ~(n = 1 /\ bs[1] = 0)
               /\ n >= 2 => ~((bs[n] = 0 /\ bs[n - 1] < 128) \/ (bs[n] = 255 /\ bs[n - 1] >= 128))
\* @type: { v: Int, bs: Seq(Int), min: Bool } => Bool;
Conforms(r) == /\ \A i \in DOMAIN r.bs : r.bs[i] >= 0 /\ r.bs[i] <= 255
               /\ TwosValue(r.bs) = r.v
               /\ r.min => Minimal(r.bs)
Init == dummy = 0
Next == UNCHANGED dummy
TableOK == \A i \in DOMAIN Table : Conforms(Table[i])
=============================================================================
