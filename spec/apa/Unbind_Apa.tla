----------------------------- MODULE Unbind_Apa -----------------------------
(* Apalache obligations of C09 over symbolic 32-bit offsets a, b, c (the parameters of *)
(* Unbind are those of Unbind_K, regenerated per network from the current tree).       *)
(*   apalache-mc check --length=0 --init=Init --next=Next --inv=<Obligation> Unbind_Apa.tla *)
EXTENDS Integers, Sequences, Unbind_K

VARIABLES
    \* @type: Int;
    a,
    \* @type: Int;
    b,
    \* @type: Int;
    c

U == INSTANCE Unbind WITH T <- K_T, Rate <- K_Rate, NewRate <- K_NewRate, D <- K_D,
                          OntSupply <- K_OntSupply, OngSupply <- K_OngSupply, GovDeadline <- K_GD, Gap <- K_Gap, GapAtDeadline <- K_GapAtDeadline

Init == /\ a \in Int /\ b \in Int /\ c \in Int
        /\ 0 <= a /\ a <= 4294967295
        /\ 0 <= b /\ b <= 4294967295
        /\ 0 <= c /\ c <= 4294967295
Next == UNCHANGED <<a, b, c>>

ObSane == U!Sane
ObHolderAdditive == U!HolderAdditive(a, b, c)
ObGovAdditive == U!GovAdditive(a, b, c)
ObGovAdditiveOffDeadline == U!GovAdditiveOffDeadline(a, b, c)
ObGovLossIsGap == U!GovLossIsGap(a, b, c)
ObTotalIsSupply == U!TotalIsSupply(c)
ObNeverAboveSupply == U!NeverAboveSupply(c)
ObNoWrap == U!NoWrap(a, c, 18446744073709551615)
ObSaturation == U!Saturation(a, c)
=============================================================================
