----------------------------- MODULE Quorum_Apa -----------------------------
(* Apalache obligations for C28 over UNBOUNDED integers N, C, T1, T2 (one-state "system": all content is in Init and the
   invariants; --length=0).  The closed forms are those of Quorum.tla, repeated with type annotations. *)
EXTENDS Integers

VARIABLES
  \* @type: Int;
  n,
  \* @type: Int;
  c,
  \* @type: Int;
  t1,
  \* @type: Int;
  t2

\* @type: (Int) => Int;
Q(x) == x - ((x - 1) \div 3)
\* @type: (Int) => Int;
HdrSigs(x) == x - ((6 * x) \div 7)
\* @type: (Int, Int) => Bool;
Admissible(x, y) == y >= 0 /\ x >= 3 * y + 1
\* @type: (Int, Int, Int, Int) => Bool;
Intersect(a, b, x, y) == a + b - x >= y + 1

Init == n \in Int /\ c \in Int /\ t1 \in Int /\ t2 \in Int
Next == UNCHANGED <<n, c, t1, t2>>

\* O1: any two thresholds that dominate Q(N) intersect in more than C peers
InvQQ == (Admissible(n, c) /\ t1 >= Q(n) /\ t2 >= Q(n)) => Intersect(t1, t2, n, c)
\* O2: a signer set meeting a threshold >= C+1 contains a peer outside any C faulty peers
InvWitness == (c >= 0 /\ t1 >= c + 1) => t1 - c >= 1
\* O3: Q(N) is the usual "more than two thirds": 3Q >= 2N+1 and Q <= N for N >= 1, and it is tight for Intersect at N = 3C+1
InvQForm == (n >= 1) => (3 * Q(n) >= 2 * n + 1 /\ Q(n) <= n /\ 3 * Q(n) <= 2 * n + 3)
\* O4: Q cannot be lowered by one: at N = 3C+1 two sets of Q-1 signers need not share an honest peer
InvQTight == (c >= 1 /\ n = 3 * c + 1) => ~Intersect(Q(n) - 1, Q(n) - 1, n, c)
\* O5: admissible configurations make Q reachable by the honest peers alone (N - C >= Q)
InvQLive == Admissible(n, c) => n - c >= Q(n)
\* X1 (EXPECTED TO FAIL -- documents the finding on LedgerStoreImp.verifyHeader): a threshold of HdrSigs(N) signatures
\* does not intersect a commit quorum in an honest peer
InvHdrWouldIntersect == (Admissible(n, c) /\ c >= 1 /\ t1 >= HdrSigs(n) /\ t2 >= Q(n)) => Intersect(t1, t2, n, c)
\* X2 (EXPECTED TO FAIL): the header check as it is since f6fb1e52, max(HdrSigs(N), C+1) signatures, is a witness check
\* (at least one honest signer), not a quorum: it does not intersect a commit quorum in an honest peer
InvHdrWitnessWouldIntersect == (Admissible(n, c) /\ c >= 1 /\ t1 >= HdrSigs(n) /\ t1 >= c + 1 /\ t2 >= Q(n)) => Intersect(t1, t2, n, c)
=============================================================================
