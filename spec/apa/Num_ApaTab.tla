---------------------------- MODULE Num_ApaTab ----------------------------
EXTENDS Integers, Sequences
\* placeholder table: props/C21.py generates this module from the outputs of the real functions
\* @type: Seq({ v: Int, bs: Seq(Int), min: Bool });
Table == << [v |-> 18446744073709551616, bs |-> <<0,0,0,0,0,0,0,0,1>>, min |-> TRUE],
            [v |-> -170141183460469231731687303715884105728, bs |-> <<0,0,0,0,0,0,0,0,0,0,0,0,0,0,0,128>>, min |-> TRUE],
            [v |-> -1, bs |-> <<255,255,255,255,255,255,255,255,255,255,255,255,255,255,255,255>>, min |-> FALSE],
            [v |-> 0, bs |-> <<>>, min |-> TRUE] >>
=============================================================================
