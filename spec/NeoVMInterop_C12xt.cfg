SPECIFICATION Spec
CONSTANTS
  Modes <- BothModes
  Apis <- BothApis
  ContractView = "committed"
  LedgerOnce = FALSE
  NilOnAbsent <- AllProducers
VIEW view
INVARIANTS TypeOK CrashOnlyByNil Defined
CONSTRAINT InitOut
ACTION_CONSTRAINT Edge
CHECK_DEADLOCK FALSE
