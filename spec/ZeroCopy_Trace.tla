--------------------------- MODULE ZeroCopy_Trace ---------------------------
(* Trace validation for C18: an NDJSON log of random call sequences on the real ZeroCopySource    *)
(* (harness TestVerifZCTrace) must be explained call by call by ZeroCopy!ReadOp at the property   *)
(* level (eof / irregular indication, value and offset of every complete read, no panic, offset   *)
(* inside the buffer), and the logged outcomes themselves must satisfy Canonical and EofOK.       *)
EXTENDS ZeroCopy, Json
Tr == ndJsonDeserialize("trace.ndjson")
VARIABLE l
tvars == <<vars, l>>

ASSUME TLCSet(1, 0)
Max(a, b) == IF a > b THEN a ELSE b
HW == TLCSet(1, Max(TLCGet(1), l))
Accepted == /\ PrintT(<<"HW", TLCGet(1) - 1>>)
            /\ TLCGet(1) = Len(Tr) + 1

Ev == Tr[l]
SizeOps == {"NextVarUint", "NextVarBytes", "NextString"}
ErrOps == {"ReadVarBytes", "ReadString", "ReadVarUint", "ReadUint32", "ReadUint64"}

\* property-level agreement of a logged outcome e with the specification's result r
Conforms(name, e, r) ==
    /\ e.panic = "" /\ e.vdiff = ""
    /\ e.off <= Len(buf)
    /\ IF name \in ErrOps
       THEN /\ e.err = r.err
            /\ r.err = "ok" => (e.val = r.val /\ e.off = r.off)
       ELSE /\ e.eof = r.eof
            /\ ~r.eof => e.irr = r.irr
            /\ (~r.eof /\ ~r.irr) => /\ e.off = r.off
                                     /\ name # "Skip" => e.val = r.val
                                     /\ name \in SizeOps => e.size = r.size

TInit == /\ l = 1 /\ buf = <<>> /\ off = 0 /\ sink = <<>> /\ spare = <<>> /\ items = <<>>
         /\ res = NoRes /\ act = [name |-> "Init", n |-> 0] /\ ncalls = 0

TReset == /\ l <= Len(Tr) /\ Ev.event = "Reset" /\ l' = l + 1
          /\ buf' = Ev.buf /\ off' = 0 /\ res' = NoRes /\ act' = [name |-> "Reset", n |-> 0]
          /\ UNCHANGED <<sink, spare, items, ncalls>>

\* the next state continues from the offset the real reader reports (after an eof / irregular outcome the
\* position is not property relevant; it only has to stay inside the buffer)
TRead == /\ l <= Len(Tr) /\ Ev.event \in NullaryOps \cup CountOps /\ l' = l + 1
         /\ Conforms(Ev.event, Ev, ReadOp(Ev.event, Ev.n, buf, off))
         /\ off' = Ev.off
         /\ res' = Res(Ev.val, Ev.size, Ev.irr, Ev.eof, Ev.off, Ev.err)
         /\ act' = [name |-> Ev.event, n |-> Ev.n]
         /\ UNCHANGED <<buf, sink, spare, items, ncalls>>

TBack == /\ l <= Len(Tr) /\ Ev.event = "BackUp" /\ l' = l + 1
         /\ Ev.n <= off /\ Ev.panic = "" /\ Ev.off = off - Ev.n
         /\ off' = off - Ev.n /\ res' = NoRes /\ act' = [name |-> "BackUp", n |-> Ev.n]
         /\ UNCHANGED <<buf, sink, spare, items, ncalls>>

TNext == TReset \/ TRead \/ TBack
TSpec == TInit /\ [][TNext]_tvars
TCanonical == [][CanonicalStep]_tvars
TEofOK == [][EofStep]_tvars
=============================================================================
