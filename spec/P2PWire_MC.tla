----------------------------- MODULE P2PWire_MC -----------------------------
EXTENDS P2PWire, Json, P2PWire_Extra
Edge == PrintT(<<"EDGE", ToJson([from |-> State, act |-> act', to |-> State'])>>)
InitOut == (TLCGet("level") = 1) => PrintT(<<"INIT", ToJson(State)>>)
=============================================================================
