SPECIFICATION Spec
CONSTANTS
  KeyLists <- ListsQ
  Thresholds <- Thr
  RawLen = 4
  Alphabet <- AlphaQ
  AgainLists <- AgainL
  AgainThr <- AgainT
  MaxHeld = 1
INVARIANTS HeldStable RoundTrip OrderFree BuildRejectsInvalid BuildAcceptsValid ParseRejectsInvalid
ACTION_CONSTRAINT Edge
CHECK_DEADLOCK FALSE
