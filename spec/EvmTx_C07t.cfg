SPECIFICATION Spec
CONSTANTS
  Senders <- SendersV
  R = "R"
  B = "B"
  FEE = "FEE"
  NEWC = "NEW"
  KindOf <- KindsV
  GasLimits <- GLV
  GasPrices <- GPV
  Values <- VV
  NonceDeltas <- NDV
  SDOV = "SDO"
  SDSV = "SDS"
  InnerAmt = 1
  Intrinsic = 1
  InitBal <- BalV
  InitNonce <- NonceV
  SelfBeneficiaryBurns = TRUE
  MaxOps = 3
VIEW view
INVARIANTS TypeOK NonNeg
PROPERTIES Conserved ChargeBound NonceStep RejectedNoOp FeeExact
CHECK_DEADLOCK FALSE
