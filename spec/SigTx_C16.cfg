SPECIFICATION SpecC16q
CONSTANTS
  TxSpace <- Small16
  EthKeys <- NoKeys
  MaskByPosition = FALSE
  RawScriptFallback = FALSE
  MutClasses <- MutAll
INVARIANTS Sound MutatedRejected SameSigners
ACTION_CONSTRAINT Edge
CHECK_DEADLOCK FALSE
