SPECIFICATION SpecC16q
CONSTANTS
  TxSpace <- Small16
  EthKeys <- NoKeys
  MaskByPosition = FALSE
  RawScriptFallback = FALSE
  MutClasses <- MutAll
  PreOps <- PreAll
  SkipIfSignedAddr = FALSE
INVARIANTS Sound VerdictPure MutatedRejected SameSigners
ACTION_CONSTRAINT Edge
CHECK_DEADLOCK FALSE
