SPECIFICATION Spec
CONSTANTS
  Shapes <- ShapesC43t3
  MaxBlocks = 4
  Paths <- WireOnly
  Muts <- OnlyValid
  PreKinds <- NoKinds
  DuringKinds <- NoKinds
  Points <- NoKinds
  W = 2
  S = 2
  BitsOf <- RealBits
  BodyChecked = TRUE
  AllowRestart = TRUE
  AllowSync = FALSE
  FreshInits <- BothFresh
VIEW view
INVARIANTS TypeOK Coherent NoMiss IndexAgrees IndexComplete CacheComplete
PROPERTIES RejectedUnchanged PreExecUnchanged
CONSTRAINT InitOut
ACTION_CONSTRAINT Edge
CHECK_DEADLOCK FALSE
