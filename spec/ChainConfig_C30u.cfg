SPECIFICATION Spec
CONSTANTS
  Pools <- PoolsC30u
  Confs <- ConfsC30u
  Hashes <- HashOne
  Vrfs <- NoVrfs
  ListsOf <- AllPerms
  Acts <- ActsC30
VIEW view
INVARIANTS OrderFree ConfigInv WellFormedInv DomainInv
CONSTRAINT InitOut
ACTION_CONSTRAINT Edge
CHECK_DEADLOCK FALSE
