------------------------------ MODULE VBFT_MC ------------------------------
(* Model-checking / simulation harness for VBFT (C34): constants for N=4, C=1 (roles and thresholds from the generated
   module VBFTConst), history variable hist (the schedule), exporters. *)
EXTENDS VBFT, Json, VBFTConst

VARIABLE hist
varsH == <<node, sent, nbyz, act, hist>>
view == <<node, sent, nbyz>>

Byz1 == {1}
Byz2 == {2}
Byz4 == {4}
ByzNone == {}
ByzProps1 == {[p |-> 1, v |-> 0], [p |-> 1, v |-> 1]}
ByzProps2 == {[p |-> 2, v |-> 0], [p |-> 2, v |-> 1]}
ByzProps4 == {[p |-> 4, v |-> 0]}
NoProps == {}
Claims4 == {{}, {2}, {3}, {2, 3}, {3, 4}, {2, 4}}
Claims4s == {{}, {2}, {2, 3}}
NoClaims == {{}}

CONSTANTS MaxDepth

InitH == Init /\ hist = <<>>
NextH == Next /\ hist' = Append(hist, act')
SpecH == InitH /\ [][NextH]_varsH

Depth == Len(hist) <= MaxDepth
NodeOut(i) == IF i \in Honest THEN node[i] ELSE [byz |-> TRUE]
State == [node |-> [i \in Peers |-> NodeOut(i)], sent |-> sent, nbyz |-> nbyz]
Edge == PrintT(<<"EDGE", ToJson([from |-> State, act |-> act', to |-> State'])>>)
InitOut == (TLCGet("level") = 1) => PrintT(<<"INIT", ToJson(State)>>)
\* every Agreement-violating state reports its schedule (candidate counterexample, to be replayed on the real nodes) and is
\* not explored further; at most 40 reports
AgreementOut == Agreement \/ (TLCGet(2) < 40 /\ TLCSet(2, TLCGet(2) + 1) /\ PrintT(<<"ROW", ToJson(hist)>>) /\ FALSE)
ASSUME TLCSet(2, 0)
\* every state at the depth bound reports its schedule (exhaustive family of model schedules of that length; they are
\* executed on the real nodes for the Agreement oracle only)
FrontierOut == Len(hist) < MaxDepth \/ PrintT(<<"ROW", ToJson(hist)>>)
SomeSealed == \E i \in Honest : node[i].hasSealed
=============================================================================
