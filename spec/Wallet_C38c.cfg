\* Reference copy of the two-thread configuration of C38 (props/C38.py generates it from props/_wallet.conc_cfg with
\* generated prepared wallets): two client threads make one call each on one ClientImpl, from a prepared wallet;
\* Split = the operations whose check segment and act segment are separate critical sections in the code as found
\* (ImportAccount only).  With Split = {"Import", "Delete"} (or ChangePassword, SetDefault, SetLabel) TLC must report
\* a violation of Persist / DefaultListed / AuthCurrent -- props/_wallet.split_selftest.
INIT InitRef
NEXT Next
CONSTANTS
  ImportIds = {1}
  NewIdSeq <- NewSeq2
  ArgLabels = {"", "x"}
  Pwds = {"p", "q"}
  Schemes = {"SHA256withECDSA"}
  BadScheme = "SM3withSM2"
  WScrypt = "low"
  MaxObj = 3
  MaxOps = 2
  Acts = {"New", "Import", "Delete", "SetDefault", "SetLabel", "ChangePassword", "ChangeScheme", "Open"}
  NewIgnoresWalletScrypt = FALSE
  DupAddrImport = FALSE
  Threads = {1, 2}
  Split = {"Import"}
  OneShot = TRUE
VIEW viewn
INVARIANTS TypeOK Saved Persist Opens OneDefault DefaultListed
PROPERTIES FailNoChange AuthCurrent
CHECK_DEADLOCK FALSE
