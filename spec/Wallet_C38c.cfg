\* Reference copy of the two-thread configuration of C38 (props/C38.py generates it from props/_wallet.cfg_text, run "E"):
\* two client threads call into one ClientImpl; Split = the operations whose check segment and act segment are separate
\* critical sections in the code as found (ImportAccount only).  With Split = {"Import", "Delete"} (or ChangePassword,
\* SetDefault, SetLabel) TLC must report a violation of Persist / DefaultListed / AuthCurrent -- props/_wallet.split_selftest.
SPECIFICATION Spec
CONSTANTS
  ImportIds = {1, 2}
  NewIdSeq <- NewSeq3
  ArgLabels = {"", "x"}
  Pwds = {"p", "q"}
  Schemes = {"SHA256withECDSA"}
  BadScheme = "SM3withSM2"
  WScrypt = "low"
  MaxObj = 4
  MaxOps = 4
  Acts = {"New", "Import", "Delete", "SetDefault", "SetLabel", "ChangePassword", "ChangeScheme", "Open"}
  NewIgnoresWalletScrypt = FALSE
  DupAddrImport = FALSE
  Threads = {1, 2}
  Split = {"Import"}
  OneShot = TRUE
VIEW view
INVARIANTS TypeOK Saved Persist Opens OneDefault DefaultListed
PROPERTIES FailNoChange AuthCurrent
CHECK_DEADLOCK FALSE
