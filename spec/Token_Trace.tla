----------------------------- MODULE Token_Trace -----------------------------
(* Trace validation for C06: an NDJSON log recorded from the real ONT/ONG native contracts      *)
(* (harness TestVerifTokenTrace: random calls, advancing block times crossing the unbound       *)
(* deadline) must be a behaviour of Token whose every step also satisfies the step forms of the *)
(* C06 properties.  Logged per call: arguments, signer set, phase, outcome and ALL balances and *)
(* allowances read back afterwards.  The accrued-ONG amounts (grants) are not logged: they are   *)
(* inferred from the observed ONG movement of the parties.                                       *)
EXTENDS Token, Json
Tr == ndJsonDeserialize("trace.ndjson")
VARIABLE l
tvars == <<vars, l>>

ToSet(s) == {s[i] : i \in DOMAIN s}
TUsers == ToSet(Tr[1].users)
TOC == Tr[1].oc
TSF == Tr[1].sf
THuge == Tr[1].huge
TInitBal == Tr[1].bal
TInitAllow == Tr[1].allow
TTokens == {"ont", "ong"}
TPhases == {"pre", "post"}
TSigs == {{}}
TAmts == {0}
TGrants == {-1}

ASSUME TLCSet(1, 0)
Max(a, b) == IF a > b THEN a ELSE b
HW == TLCSet(1, Max(TLCGet(1), l))
Accepted == /\ PrintT(<<"HW", TLCGet(1) - 1>>)
            /\ TLCGet(1) = Len(Tr) + 1

Ev == Tr[l]
IsEvent(n) == l <= Len(Tr) /\ Ev.event = n /\ l' = l + 1
ObsOK == bal' = Ev.bal /\ allow' = Ev.allow

AllSkip == [x \in Users |-> -1]
\* the grant argument of party x that would explain its observed ONG movement
GrantOf(x, ph) == IF ph = "pre" THEN Ev.allow["ong"][OC][x] - allow["ong"][OC][x]
                  ELSE IF Ev.bal["ong"][x] = bal["ong"][x] /\ Ev.allow["ong"][OC][x] = allow["ong"][OC][x] THEN -1
                  ELSE Ev.bal["ong"][x] - bal["ong"][x] - allow["ong"][OC][x]
GrantCands(parties, ph) ==
    LET c == [x \in Users |-> IF x \in parties THEN GrantOf(x, ph) ELSE -1]
    IN {AllSkip} \cup (IF \A x \in Users : c[x] >= -1 THEN {c} ELSE {})

TInit == /\ l = 2 /\ Init
TReset == /\ IsEvent("Reset")
          /\ bal' = Ev.bal /\ allow' = Ev.allow /\ phase' = Ev.phase
          /\ nops' = 0 /\ act' = [name |-> "Reset"]

TTransfer == /\ IsEvent("Transfer")
             /\ \E m \in GrantCands(PartiesOf(Ev.sts), Ev.ph) : Transfer(Ev.t, Ev.ver, Ev.sts, ToSet(Ev.signers), Ev.ph, m)
             /\ ObsOK
TApprove == /\ IsEvent("Approve")
            /\ Approve(Ev.t, Ev.ver, Ev.from, Ev.to, Ev.v, ToSet(Ev.signers), Ev.ph)
            /\ ObsOK
TTransferFrom == /\ IsEvent("TransferFrom")
                 /\ \E m \in GrantCands(IF Ev.from = OC THEN {Ev.to} ELSE {Ev.from, Ev.to}, Ev.ph) :
                        TransferFrom(Ev.t, Ev.ver, Ev.sender, Ev.from, Ev.to, Ev.v, ToSet(Ev.signers), Ev.ph, m)
                 /\ ObsOK

TNext == TReset \/ TTransfer \/ TApprove \/ TTransferFrom
TSpec == TInit /\ [][TNext]_tvars

\* the C06 properties, step by step, on the recorded behaviour
IsCall == act'.name # "Reset" /\ nops' # nops
TConserved == [][IsCall => ConservedStep]_vars
TDebitAuthorized == [][IsCall => DebitAuthorizedStep]_vars
TAllowanceRespected == [][IsCall => AllowanceRespectedStep]_vars
TFailedCallIsNoOp == [][IsCall => FailedCallIsNoOpStep]_vars
TCrossToken == [][IsCall => CrossTokenStep]_vars
=============================================================================
