\* generated by props/_handshake.py (table CFGS) -- do not edit by hand
SPECIFICATION Spec
CONSTANTS
  Nodes = {"A", "B", "M", "O"}
  Conns = {"c1", "o1", "o2", "a1", "m1", "m2", "o4", "o8"}
  Cl <- ClM
  Sv <- SvM
  Eph <- EphM
  Info <- InfoM
  Pseudo <- PseudoM
  MagicOf <- MagicM
  IpOf <- IpM
  Addr <- AddrM
  Scenarios <- ScQ4
  FaultKinds <- FaultsAll
  MaxFaults = 2
  Closes = TRUE
  CheckVersion = FALSE
  MinVer = 1
  LsnCounted = FALSE
CHECK_DEADLOCK FALSE
INVARIANTS TypeOK EntryOK NoSelf OneLive Books Clean Agree FailNoEntry NoIncompat EstQuiet
PROPERTIES AdmitAtEnd
VIEW view
CONSTRAINT InitOut
ACTION_CONSTRAINT Edge
