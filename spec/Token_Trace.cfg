SPECIFICATION TSpec
CONSTANTS
  Users <- TUsers
  OC <- TOC
  ActTokens <- TTokens
  SF <- TSF
  AmtsV1 <- TAmts
  AmtsV2 <- TAmts
  Huge <- THuge
  SignerSets <- TSigs
  FromOC = TRUE
  MaxStates = 2
  Phases <- TPhases
  GrantChoices <- TGrants
  InitBal <- TInitBal
  InitAllow <- TInitAllow
  MaxOps = 1000000
INVARIANTS NonNeg
PROPERTIES TConserved TDebitAuthorized TAllowanceRespected TFailedCallIsNoOp TCrossToken
CONSTRAINT HW
POSTCONDITION Accepted
CHECK_DEADLOCK FALSE
