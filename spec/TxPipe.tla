------------------------------- MODULE TxPipe -------------------------------
(***************************************************************************)
(* X02 - the transaction pool SERVER PIPELINE of ontio/ontology:           *)
(*   txnpool/proc/txnpool_actor.go   TxPoolService.handleTransaction,      *)
(*                                   TxPoolActor.Receive                   *)
(*   txnpool/proc/txnpool_server.go  TXPoolServer: startTxVerify,          *)
(*        setPendingTx, handleRsp, movePendingTxToPool, removePendingTx,   *)
(*        getTxPool, reVerifyStateful, verifyBlock, cleanTransactionList   *)
(*   txnpool/common/transaction_pool.go  TXPool: AddTxList, GetTxPool,     *)
(*        GetUnverifiedTxs, CleanCompletedTransactionList, Remain          *)
(*   validator/stateless, validator/stateful  (the two worker pools whose  *)
(*        CheckResponses reach handleRsp through rspCh in any order)       *)
(* One action per entry point / critical section:                          *)
(*   Submit(t,k,stale)  handleTransaction (admission filters, slot) +      *)
(*                      startTxVerify; stale = the admission filters were  *)
(*                      passed earlier (only `<-slots; startTxVerify`)     *)
(*   DeliverSL(f)       handleRsp with a stateless response                *)
(*   DeliverSF(f,h)     handleRsp with a stateful response that the        *)
(*                      validator computed when the ledger was at height h *)
(*   GetTxPool(bc,h)    getTxPool (GetTxnPoolReq of the consensus)         *)
(*   VerifyBlock(l,h)   verifyBlock (VerifyBlockReq)                       *)
(*   LedgerSave(b)      the ledger saves a block (outside the pool; seen   *)
(*                      at once by the stateful validator and preExec)     *)
(*   BlockSaved         cleanTransactionList (SaveBlockCompleteMsg, in     *)
(*                      block order, possibly lagging behind the ledger)   *)
(* A transaction VARIANT t has a hash HashOf[t]; two variants with one     *)
(* hash differ in their signature data only (the hash does not cover it).  *)
(* Pool, pending list, validator tasks and the ledger are keyed by hash.   *)
(* Heights: H0 is the ledger height of the initial state; 0 = "none".      *)
(***************************************************************************)
EXTENDS Naturals, Sequences, FiniteSets, TLC

CONSTANTS Txs,          \* transaction variants
          HashOf,       \* [Txs -> hash]
          BadSig,       \* variants failing the stateless validator (validation.VerifyTransaction)
          LowGas,       \* variants whose gas price is below the server's threshold
          Price,        \* [Txs -> Nat] gas price; distinct for different hashes (GetTxPool orders by it)
          Drains,       \* [Txs -> SUBSET hashes]: once one of these is on chain the payer of t cannot pay t's fee (preExecCheck fails)
          SubmitTxs, StaleTxs, Kinds, Blocks, VLists,   \* what the environment offers (StaleTxs: submissions with stale admission checks)
          Cap,          \* tc.MAX_CAPACITY
          Lim,          \* tc.MAX_LIMITATION (slots)
          MaxTx,        \* config Consensus.MaxTxInBlock
          PreExec,      \* NOT disablePreExec
          H0, MaxHeight, MaxLag,
          MaxFly, MaxPerTx,   \* exploration bounds on validator tasks in flight (not limits of the code)
          ByCounts,           \* values of GetTxnPoolReq.ByCount that are explored
          QuietVerify,        \* exploration bound: VerifyBlock requests only while nothing is pending (its answer does not depend on the pending list)
          \* named deviations of the code from the intended design (TRUE = as the code is)
          InvertedExpiry,   \* GetUnverifiedTxs: entries verified at an OLDER height count as verified, fresh ones are re-verified
          CheckThenActCap,  \* the pool-full test is made at submission only; AddTxList inserts unconditionally
          SlotOverReturn,   \* removePendingTxLocked hands a slot back by the LENGTH of the pending list: also for re-verify entries (which never took one), and not for a user's entry while many re-verify entries are pending
          SlotLostOnDup     \* a submission answered "duplicate" because the hash is pending keeps the slot it took

VARIABLES chain,    \* ledger blocks H0+1.. : sequence of sequences of variants
          pnext,    \* height of the next block whose SaveBlockCompleteMsg the pool actor has not processed yet
          pool,     \* TXPool.validTxMap: set of [tx, vh]
          pend,     \* TXPoolServer.allPendingTxs: set of [tx, src, ch, sl, sf, chk]
          fly,      \* validator tasks/responses in flight: bag as set of [ty, tx, c, n] (c: ledger height at creation, n: multiplicity)
          sheight,  \* TXPoolServer.height
          slots,    \* len(TXPoolServer.slots)
          act       \* the last action with its outputs (history variable, not in the view)

vars == <<chain, pnext, pool, pend, fly, sheight, slots, act>>
view == <<chain, pnext, pool, pend, fly, sheight, slots>>

SeqSet(q) == {q[i] : i \in 1..Len(q)}
Hashes == {HashOf[t] : t \in Txs}
HashesOf(q) == {HashOf[q[i]] : i \in 1..Len(q)}
Min2(a, b) == IF a < b THEN a ELSE b

(******************************** ledger ***********************************)
Height == H0 + Len(chain)
OnChainAt(h) == UNION {HashesOf(chain[i]) : i \in 1..(h - H0)}
OnChain == OnChainAt(Height)
\* preExecCheck: the payer can cover gasPrice * gas on the ledger as it is now
Payable(t) == Drains[t] \cap OnChain = {}

(*************************** pool / pending list ***************************)
InPool(x) == \E e \in pool : HashOf[e.tx] = x
PoolEnt(x) == CHOOSE e \in pool : HashOf[e.tx] = x
IsPend(x) == \E e \in pend : HashOf[e.tx] = x
PendEnt(x) == CHOOSE e \in pend : HashOf[e.tx] = x
NewEnt(t, k) == [tx |-> t, src |-> k, ch |-> TRUE, sl |-> FALSE, sf |-> FALSE, chk |-> 0]
\* reVerifyStateful: no reply channel, NilSender, stateless already passed
RevEnt(t) == [tx |-> t, src |-> "rev", ch |-> FALSE, sl |-> TRUE, sf |-> FALSE, chk |-> 0]

(****************************** task bag ***********************************)
Same(F, ty, t, c) == {f \in F : f.ty = ty /\ f.tx = t /\ f.c = c}
FlyPut(F, ty, t, c) ==
    IF Same(F, ty, t, c) = {} THEN F \cup {[ty |-> ty, tx |-> t, c |-> c, n |-> 1]}
    ELSE LET f == CHOOSE g \in Same(F, ty, t, c) : TRUE IN (F \ {f}) \cup {[f EXCEPT !.n = f.n + 1]}
FlyTake(F, f) == IF f.n = 1 THEN F \ {f} ELSE (F \ {f}) \cup {[f EXCEPT !.n = f.n - 1]}
RECURSIVE SumN(_)
SumN(S) == IF S = {} THEN 0 ELSE LET f == CHOOSE g \in S : TRUE IN f.n + SumN(S \ {f})
FlyCount(F, ty, x) == SumN({f \in F : f.ty = ty /\ HashOf[f.tx] = x})
RECURSIVE FlyPutAll(_, _, _)
FlyPutAll(F, S, c) == IF S = {} THEN F ELSE LET t == CHOOSE u \in S : TRUE IN FlyPutAll(FlyPut(F, "SF", t, c), S \ {t}, c)

(************************** removePendingTxLocked **************************)
\* P: pending list, S: free slots; the entry of hash x is removed with error err:
\* reply on its channel (if any), delete, hand a slot back when fewer than Lim entries are left
Remove(P, S, x, err) ==
    LET e == CHOOSE g \in P : HashOf[g.tx] = x
        P2 == P \ {e}
        \* as coded: whoever leaves, a slot goes back iff the list (re-verify entries included) is now shorter than Lim;
        \* design: a slot goes back exactly when an entry that took one leaves
        back == IF SlotOverReturn THEN Cardinality(P2) < Lim ELSE e.src # "rev"
    IN [pend |-> P2,
        slots |-> IF back /\ S < Lim THEN S + 1 ELSE S,
        reply |-> IF e.ch THEN <<[tx |-> e.tx, err |-> err]>> ELSE <<>>]

\* handleRsp: both checks passed -> movePendingTxToPool (AddTxList + removePendingTxLocked with its result)
MoveToPool(P, e, F, name, more) ==
    LET x == HashOf[e.tx]
        err == IF InPool(x) THEN "duptx"
               ELSE IF ~CheckThenActCap /\ Cardinality(pool) >= Cap THEN "full"
               ELSE "ok"
        r == Remove(P, slots, x, err)
    IN /\ pool' = IF err = "ok" THEN pool \cup {[tx |-> e.tx, vh |-> e.chk]} ELSE pool
       /\ pend' = r.pend /\ slots' = r.slots /\ fly' = F
       /\ act' = [name |-> name, replies |-> r.reply] @@ more

(******************************** actions **********************************)
Quiet(name, more, F) ==
    /\ fly' = F /\ act' = [name |-> name, replies |-> <<>>] @@ more
    /\ UNCHANGED <<pool, pend, slots>>

\* TxPoolService.handleTransaction(sender, txn, ch) ... startTxVerify
Submit(t, k, stale) ==
    LET x == HashOf[t]
        pre == IF stale THEN "pass"
               ELSE IF InPool(x) THEN "dupinput"                       \* getTransaction(hash) != nil
               ELSE IF Cardinality(pool) >= Cap THEN "full"            \* getTransactionCount() >= MAX_CAPACITY
               ELSE IF t \in LowGas THEN "unknown"                     \* gasLimit / gasPrice filter
               ELSE IF PreExec /\ ~Payable(t) THEN "unknown"           \* preExecCheck
               ELSE "pass"
        more == [tx |-> t, kind |-> k, stale |-> stale]
    IN /\ stale => t \in StaleTxs /\ t \notin LowGas
       /\ UNCHANGED <<chain, pnext, sheight>>
       /\ IF pre # "pass"
          THEN /\ act' = [name |-> "Submit", replies |-> <<[tx |-> t, err |-> pre]>>] @@ more
               /\ UNCHANGED <<pool, pend, fly, slots>>
          ELSE /\ slots > 0                                            \* <-ta.server.slots (blocks otherwise)
               /\ IF IsPend(x)                                         \* setPendingTx returns nil
                  THEN /\ slots' = IF SlotLostOnDup THEN slots - 1 ELSE slots
                       /\ act' = [name |-> "Submit", replies |-> <<[tx |-> t, err |-> "dupinput"]>>] @@ more
                       /\ UNCHANGED <<pool, pend, fly>>
                  ELSE IF InPool(x)                                    \* entry made, found in the pool, removed again
                  THEN LET r == Remove(pend \cup {NewEnt(t, k)}, slots - 1, x, "dupinput")
                       IN /\ pend' = r.pend /\ slots' = r.slots
                          /\ act' = [name |-> "Submit", replies |-> r.reply] @@ more
                          /\ UNCHANGED <<pool, fly>>
                  ELSE /\ FlyCount(fly, "SL", x) < MaxPerTx /\ FlyCount(fly, "SF", x) < MaxPerTx
                       /\ pend' = pend \cup {NewEnt(t, k)}
                       /\ slots' = slots - 1
                       /\ fly' = FlyPut(FlyPut(fly, "SL", t, 0), "SF", t, Height)
                       /\ act' = [name |-> "Submit", replies |-> <<>>] @@ more
                       /\ UNCHANGED pool

\* handleRsp(rsp), rsp.Type = Stateless
DeliverSL(f) ==
    LET x == HashOf[f.tx]
        F == FlyTake(fly, f)
        more == [tx |-> f.tx]
    IN /\ f.ty = "SL"
       /\ UNCHANGED <<chain, pnext, sheight>>
       /\ IF ~IsPend(x) THEN Quiet("DeliverSL", more, F)
          ELSE IF f.tx \in BadSig
          THEN LET r == Remove(pend, slots, x, "badsig")
               IN /\ pend' = r.pend /\ slots' = r.slots /\ fly' = F /\ UNCHANGED pool
                  /\ act' = [name |-> "DeliverSL", replies |-> r.reply] @@ more
          ELSE LET e == PendEnt(x)
                   e2 == [e EXCEPT !.sl = TRUE]
                   P == (pend \ {e}) \cup {e2}
               IN IF e2.sf THEN MoveToPool(P, e2, F, "DeliverSL", more)
                  ELSE /\ pend' = P /\ fly' = F /\ UNCHANGED <<pool, slots>>
                       /\ act' = [name |-> "DeliverSL", replies |-> <<>>] @@ more

\* handleRsp(rsp), rsp.Type = Stateful, rsp.Height = h: the validator read the ledger height (h) and then asked the
\* ledger for the hash (IsContainTransaction) when the ledger was at height hc >= h
DeliverSF2(f, h, hc) ==
    LET x == HashOf[f.tx]
        F == FlyTake(fly, f)
        more == [tx |-> f.tx, h |-> h]
    IN /\ f.ty = "SF" /\ h >= f.c /\ hc >= h /\ hc <= Height
       /\ UNCHANGED <<chain, pnext, sheight>>
       /\ IF ~IsPend(x) THEN Quiet("DeliverSF", more, F)
          ELSE IF x \in OnChainAt(hc)                                  \* IsContainTransaction -> ErrDuplicatedTx
          THEN LET r == Remove(pend, slots, x, "duptx")
               IN /\ pend' = r.pend /\ slots' = r.slots /\ fly' = F /\ UNCHANGED pool
                  /\ act' = [name |-> "DeliverSF", replies |-> r.reply] @@ more
          ELSE IF h < sheight                                          \* older than the height the consensus asked for: again
          THEN Quiet("DeliverSF", more, FlyPut(F, "SF", f.tx, Height))
          ELSE LET e == PendEnt(x)
                   e2 == [e EXCEPT !.sf = TRUE, !.chk = IF e.chk < h THEN h ELSE e.chk]
                   P == (pend \ {e}) \cup {e2}
               IN IF e2.sl THEN MoveToPool(P, e2, F, "DeliverSF", more)
                  ELSE /\ pend' = P /\ fly' = F /\ UNCHANGED <<pool, slots>>
                       /\ act' = [name |-> "DeliverSF", replies |-> <<>>] @@ more

\* the replayed model: both reads of the validator see the same ledger
DeliverSF(f, h) == DeliverSF2(f, h, h)

\* TXPool.GetTxPool's order: by gas price, highest first (EIP-155 transactions are not modelled)
RECURSIVE ByFee(_)
ByFee(S) == IF S = {} THEN <<>>
            ELSE LET e == CHOOSE g \in S : \A o \in S : Price[o.tx] <= Price[g.tx] IN <<e>> \o ByFee(S \ {e})

\* reVerifyStateful for every entry of S (skipped when the hash is already pending)
Reverify(S, P) == {RevEnt(e.tx) : e \in {g \in S : ~\E p \in P : HashOf[p.tx] = HashOf[g.tx]}}

\* getTxPool(byCount, h)
GetTxPool(bc, h) ==
    LET total == Cardinality(pool)
        count == IF MaxTx > 0 /\ bc /\ MaxTx <= total THEN MaxTx ELSE total
        fresh == SelectSeq(ByFee(pool), LAMBDA e : e.vh >= h)
        ans == SubSeq(fresh, 1, Min2(count, Len(fresh)))
        old == {e \in pool : e.vh < h}                                 \* IsVerfiyExpired(h): removed and re-verified
        rev == Reverify(old, pend)
    IN /\ h >= H0 /\ h <= Height
       /\ sheight' = h
       /\ pool' = pool \ old
       /\ pend' = pend \cup rev
       /\ fly' = FlyPutAll(fly, {e.tx : e \in rev}, Height)
       /\ act' = [name |-> "GetTxPool", bycount |-> bc, h |-> h, ans |-> ans, replies |-> <<>>]
       /\ UNCHANGED <<chain, pnext, slots>>

\* verifyBlock(req): the answer (no state but server.height changes)
VerifyAnswer(l, h) ==
    LET firstBad == {i \in 1..Len(l) : l[i] \in LowGas \/ \E j \in 1..(i - 1) : HashOf[l[j]] = HashOf[l[i]]}
        unver == {l[i] : i \in {j \in 1..Len(l) : ~InPool(HashOf[l[j]])}}
        again(e) == IF InvertedExpiry THEN e.vh >= h ELSE e.vh < h    \* GetUnverifiedTxs -> OldTxs
        olds == {e.tx : e \in {g \in pool : HashOf[g.tx] \in HashesOf(l) /\ again(g)}}
    IN IF firstBad # {}
       THEN LET i == CHOOSE k \in firstBad : \A m \in firstBad : k <= m
            IN IF l[i] \in LowGas THEN "gasprice" ELSE "doublespend"
       ELSE IF unver \cap BadSig # {} THEN "badsig"                    \* stateless pass over the unverified ones
       ELSE IF \E t \in unver \cup olds : HashOf[t] \in OnChain THEN "duptx"   \* stateful pass on the ledger as it is now
       ELSE "ok"

VerifyBlock(l, h) ==
    /\ h >= H0 /\ h <= Height /\ Len(l) > 0
    /\ QuietVerify => pend = {}
    /\ sheight' = h
    /\ act' = [name |-> "VerifyBlock", list |-> l, h |-> h, err |-> VerifyAnswer(l, h), replies |-> <<>>]
    /\ UNCHANGED <<chain, pnext, pool, pend, fly, slots>>

LedgerSave(b) ==
    /\ Height < MaxHeight
    /\ Height + 2 - pnext <= MaxLag                                    \* blocks not yet announced to the pool, this one included
    /\ Cardinality(HashesOf(b)) = Len(b) /\ HashesOf(b) \cap OnChain = {}
    /\ chain' = Append(chain, b)
    /\ act' = [name |-> "LedgerSave", block |-> b, replies |-> <<>>]
    /\ UNCHANGED <<pnext, pool, pend, fly, sheight, slots>>

\* TxPoolActor: SaveBlockCompleteMsg -> cleanTransactionList(block.Transactions, height)
BlockSaved ==
    LET b == chain[pnext - H0]
        pool1 == {e \in pool : HashOf[e.tx] \notin HashesOf(b)}        \* CleanCompletedTransactionList
        redo == PreExec /\ Len(b) # 0                                  \* Remain(): the whole pool is taken out ...
        keep == {e \in pool1 : Payable(e.tx)}                          \* ... preExecCheck drops the unpayable ones silently ...
        rev == Reverify(keep, pend)                                    \* ... the rest is re-verified (stateful only)
    IN /\ pnext <= Height
       /\ pnext' = pnext + 1
       /\ IF redo THEN /\ pool' = {} /\ pend' = pend \cup rev
                       /\ fly' = FlyPutAll(fly, {e.tx : e \in rev}, Height)
                  ELSE pool' = pool1 /\ UNCHANGED <<pend, fly>>
       /\ act' = [name |-> "BlockSaved", h |-> pnext, replies |-> <<>>]
       /\ UNCHANGED <<chain, sheight, slots>>

Init == /\ chain = <<>> /\ pnext = H0 + 1 /\ pool = {} /\ pend = {} /\ fly = {}
        /\ sheight = 0 /\ slots = Lim /\ act = [name |-> "Init", replies |-> <<>>]

Next == /\ \/ \E t \in SubmitTxs, k \in Kinds, st \in BOOLEAN : Submit(t, k, st)
           \/ \E f \in fly : DeliverSL(f)
           \/ \E f \in fly : \E h \in H0..MaxHeight : DeliverSF(f, h)
           \/ \E bc \in ByCounts, h \in H0..MaxHeight : GetTxPool(bc, h)
           \/ \E l \in VLists, h \in H0..MaxHeight : VerifyBlock(l, h)
           \/ \E b \in Blocks : LedgerSave(b)
           \/ BlockSaved
        /\ SumN(fly') <= MaxFly

Spec == Init /\ [][Next]_vars

(******************************* properties ********************************)
PendRec == [tx : Txs, src : Kinds \cup {"rev"}, ch : BOOLEAN, sl : BOOLEAN, sf : BOOLEAN, chk : {0} \cup (H0..MaxHeight)]
TypeOK == /\ pool \subseteq [tx : Txs, vh : H0..MaxHeight]
          /\ pend \subseteq PendRec
          /\ \A f \in fly : f.ty \in {"SL", "SF"} /\ f.tx \in Txs /\ f.n >= 1 /\ f.c <= Height
          /\ pnext \in (H0 + 1)..(Height + 1)
          /\ sheight \in {0} \cup (H0..Height) /\ slots \in 0..Lim

\* (a) what is in the pool passed BOTH validators, the stateful one on a ledger of height vh that did not contain it
PoolSound == \A e \in pool : /\ e.tx \notin BadSig /\ e.tx \notin LowGas
                             /\ e.vh <= Height /\ HashOf[e.tx] \notin OnChainAt(e.vh)
\* (a) a GetTxPool answer for height h: entries of the pool, verified at >= h, not on the ledger of height h, no hash twice, at most MaxTx
GetTxPoolOK == [][act'.name = "GetTxPool" =>
                   LET a == act'.ans IN
                   /\ \A i \in 1..Len(a) : /\ a[i] \in pool /\ a[i].vh >= act'.h /\ a[i].tx \notin BadSig
                                           /\ HashOf[a[i].tx] \notin OnChainAt(act'.h)
                   /\ \A i, j \in 1..Len(a) : i # j => HashOf[a[i].tx] # HashOf[a[j].tx]
                   /\ (act'.bycount /\ MaxTx > 0) => Len(a) <= MaxTx]_vars

\* (b) a hash is at most once in pool + pending list
Unique == /\ \A e1, e2 \in pool : HashOf[e1.tx] = HashOf[e2.tx] => e1 = e2
          /\ \A e1, e2 \in pend : HashOf[e1.tx] = HashOf[e2.tx] => e1 = e2
          /\ \A e \in pool, p \in pend : HashOf[e.tx] # HashOf[p.tx]
\* (b) a duplicate submission gets the duplicate error (unless an admission filter that comes first refuses it:
\* pool full, gas price, preExec) and disturbs nothing
Filtered(t) == Cardinality(pool) >= Cap \/ t \in LowGas \/ (PreExec /\ ~Payable(t))
DupAnswered == [][(act'.name = "Submit" /\ (IsPend(HashOf[act'.tx]) \/ InPool(HashOf[act'.tx]))) =>
                    LET r == act'.replies IN
                    /\ Len(r) = 1 /\ r[1].tx = act'.tx
                    /\ r[1].err = "dupinput" \/ (~act'.stale /\ Filtered(act'.tx) /\ r[1].err \in {"full", "unknown"})
                    /\ pool' = pool /\ pend' = pend /\ fly' = fly]_vars

\* (c) limits
FromUsers(P) == {e \in P : e.src # "rev"}
PoolCapStrict == Cardinality(pool) <= Cap
PendLimStrict == Cardinality(FromUsers(pend)) <= Lim
LimitsStrict == PoolCapStrict /\ PendLimStrict
SlotsExact == slots + Cardinality(FromUsers(pend)) = Lim
\* what the code as it is guarantees
LimitsCoded == /\ Cardinality(pool) + Cardinality(pend) <= Cap + 2 * Lim
               /\ Cardinality(FromUsers(pend)) <= 2 * Lim - 1

\* (d) after the pool has processed a saved block none of its transactions is in the pool
BlockSavedOK == [][act'.name = "BlockSaved" => \A e \in pool' : HashOf[e.tx] \notin HashesOf(chain[act'.h - H0])]_vars

\* (e) exactly one answer per submission: a reply is sent exactly when an entry with a channel leaves the pending
\* list (or a submission is refused at once), and nothing else ever answers
OpenH(P) == {HashOf[e.tx] : e \in {g \in P : g.ch}}
ReplyOnce == [][LET r == act'.replies
                    closed == OpenH(pend) \ OpenH(pend')
                    opened == OpenH(pend') \ OpenH(pend)
                IN IF act'.name = "Submit"
                   THEN \/ opened = {HashOf[act'.tx]} /\ closed = {} /\ r = <<>>
                        \/ opened = {} /\ closed = {} /\ Len(r) = 1 /\ r[1].tx = act'.tx
                   ELSE /\ opened = {} /\ Len(r) = Cardinality(closed)
                        /\ {HashOf[r[i].tx] : i \in 1..Len(r)} = closed]_vars
\* (e) no lost reply: a pending entry always has the validator work in flight that will complete or remove it
NoOrphan == \A e \in pend : /\ ~(e.sl /\ e.sf)
                            /\ ~e.sl => FlyCount(fly, "SL", HashOf[e.tx]) > 0
                            /\ ~e.sf => FlyCount(fly, "SF", HashOf[e.tx]) > 0
                            /\ e.src = "rev" <=> ~e.ch

\* (f) VerifyBlock
HasDup(l) == Cardinality(HashesOf(l)) # Len(l)
GoodList(l) == ~HasDup(l) /\ SeqSet(l) \cap (BadSig \cup LowGas) = {} /\ HashesOf(l) \cap OnChain = {}
VerifyBlockOK == [][act'.name = "VerifyBlock" =>
                      /\ GoodList(act'.list) => act'.err = "ok"
                      /\ HasDup(act'.list) => act'.err # "ok"
                      /\ HashesOf(act'.list) \cap OnChainAt(act'.h) # {} => act'.err # "ok"]_vars
\* the part that holds for the code as it is (InvertedExpiry)
VerifyBlockCoded == [][act'.name = "VerifyBlock" =>
                      /\ GoodList(act'.list) => act'.err = "ok"
                      /\ HasDup(act'.list) => act'.err # "ok"]_vars

State == [chain |-> chain, pnext |-> pnext, pool |-> pool, pend |-> pend, fly |-> fly, sheight |-> sheight, slots |-> slots]
=============================================================================
