------------------------------- MODULE SigBase -------------------------------
(***************************************************************************)
(* Pure definitions shared by the signature-checking specifications        *)
(*   SigScript (C23), SigTx (C16, C17), SigHeader (C32, C33).              *)
(*                                                                         *)
(* Keys are naturals; the numeric order of the abstract keys IS the order  *)
(* of keypair.SortPublicKeys on the real keys the harness binds them to.   *)
(* Cryptography is ideal: a signature symbol [kind |-> "g", by |-> k] is a  *)
(* signature of key k over exactly the message under verification; "s" is  *)
(* a (well-formed) signature of key k over ANOTHER message, "c" a          *)
(* well-formed signature with a corrupted byte, "x" bytes that do not      *)
(* deserialize as a signature, "me".."mw" malformed blobs (see Malformed). *)
(*                                                                         *)
(* Verification scripts are sequences of tokens (all tokens carry the same *)
(* fields so that TLC can compare them):                                   *)
(*   [t |-> "num", v |-> n, enc |-> "op"|"b1"|"b2"|"d1", push |-> "-"]      *)
(*        number n as PUSH0..PUSH16 ("op"), PUSHBYTES1 n ("b1"),           *)
(*        PUSHBYTES2 00 n ("b2"), PUSHDATA1 01 n ("d1")                    *)
(*   [t |-> "key", v |-> k, enc |-> e, push |-> p]  public key k in         *)
(*        encoding e ("c" = the canonical one of SerializePublicKey,       *)
(*        other names = other byte strings DeserializePublicKey maps to    *)
(*        the same key, "bad" = bytes it rejects) pushed with              *)
(*        p \in {"direct","d1","d2","d4"} (PUSHBYTESn / PUSHDATA1/2/4)     *)
(*   [t |-> "op", v |-> 0, enc |-> "CHECKSIG"|"CHECKMULTISIG"|"NOP", ...]   *)
(*   [t |-> "junk", ...]  a push of 4 bytes that are not a public key       *)
(***************************************************************************)
EXTENDS Naturals, Sequences, FiniteSets, TLC

MaxKeysInScript == 16      \* constants.MULTI_SIG_MAX_PUBKEY_SIZE
MaxSigSets      == 16      \* constants.TX_MAX_SIG_SIZE

Range(s) == {s[i] : i \in DOMAIN s}
MinOf(S) == CHOOSE x \in S : \A y \in S : x <= y

\* keypair.SortPublicKeys on a sequence of keys (duplicates are kept): insertion sort
RECURSIVE Insert(_, _)
Insert(s, x) == IF s = <<>> THEN <<x>>
                ELSE IF x <= Head(s) THEN <<x>> \o s
                ELSE <<Head(s)>> \o Insert(Tail(s), x)
RECURSIVE SortKeys(_)
SortKeys(s) == IF s = <<>> THEN <<>> ELSE Insert(SortKeys(Tail(s)), Head(s))

HasDup(s) == \E i, j \in DOMAIN s : i # j /\ s[i] = s[j]

-----------------------------------------------------------------------------
(* tokens *)
NumTok(v, e)      == [t |-> "num", v |-> v, enc |-> e, push |-> "-"]
Num(v)            == NumTok(v, IF v <= 16 THEN "op" ELSE "b1")     \* ProgramBuilder.PushNum
KeyTok(k, e, p)   == [t |-> "key", v |-> k, enc |-> e, push |-> p]
CanonKey(k)       == KeyTok(k, "c", "direct")                       \* ProgramBuilder.PushPubKey
OpTok(o)          == [t |-> "op", v |-> 0, enc |-> o, push |-> "-"]
JunkTok           == [t |-> "junk", v |-> 0, enc |-> "-", push |-> "direct"]

\* a push that DeserializePublicKey accepts
IsKeyTok(t) == t.t = "key" /\ t.enc # "bad"
\* size in bytes, only as far as GetProgramInfo's "len(program) <= 2" test needs it
TokLen(t) == IF t.t = "op" \/ (t.t = "num" /\ t.enc = "op") THEN 1
             ELSE IF t.t = "num" /\ t.enc = "b1" THEN 2 ELSE 3
RECURSIVE ByteLen(_)
ByteLen(s) == IF s = <<>> THEN 0 ELSE
              LET r == ByteLen(Tail(s)) IN IF r > 2 THEN 3 ELSE TokLen(Head(s)) + r

-----------------------------------------------------------------------------
(* program.ProgramFromPubKey / ProgramFromMultiPubKey (EncodeMultiPubKeyProgramInto) *)
NoScript == <<>>
MultiParamOK(m, n) == 1 <= m /\ m <= n /\ n > 1 /\ n <= MaxKeysInScript

BuildSingle(k) == << CanonKey(k), OpTok("CHECKSIG") >>
BuildMultiOK(keys, m) == MultiParamOK(m, Len(keys))
BuildMulti(keys, m) ==      \* only meaningful when BuildMultiOK
    LET sk == SortKeys(keys) IN
    <<Num(m)>> \o [i \in 1..Len(sk) |-> CanonKey(sk[i])] \o <<Num(Len(keys)), OpTok("CHECKMULTISIG")>>
\* a script assembled at byte level: any order, duplicates, any m, any token encodings
RawMulti(mtok, keytoks, ntok) == <<mtok>> \o keytoks \o <<ntok, OpTok("CHECKMULTISIG")>>

-----------------------------------------------------------------------------
(* program.GetProgramInfo, token by token as coded *)
ParseFail == [ok |-> FALSE, keys |-> <<>>, m |-> 0]
ParseOk(keytoks, m) == [ok |-> TRUE, keys |-> keytoks, m |-> m]

\* programParser.ReadNum: PUSH0..PUSH16, or pushed bytes whose value is in (16, MaxUint16]
ReadNumOK(t) == t.t = "num" /\ (t.enc = "op" \/ (t.enc \in {"b1", "d1"} /\ t.v > 16))

ParseSingle(s) ==           \* program ends with CHECKSIG
    IF Len(s) = 2 /\ IsKeyTok(s[1]) THEN ParseOk(<<s[1]>>, 1) ELSE ParseFail

ParseMulti(s) ==            \* program ends with CHECKMULTISIG
    LET L == Len(s) IN
    IF ~ReadNumOK(s[1]) THEN ParseFail
    ELSE LET m == s[1].v IN
    IF m + 1 > L THEN ParseFail                                   \* EOF inside the first loop
    ELSE IF \E i \in 2..(m+1) : ~IsKeyTok(s[i]) THEN ParseFail    \* the first m pushes must be keys
    ELSE LET rest  == SubSeq(s, m + 2, L)
             stops == {i \in 1..Len(rest) : rest[i].t = "op"}     \* the second loop stops at CHECKMULTISIG,
         IN                                                        \* any other opcode is an error
    IF stops = {} THEN ParseFail
    ELSE LET f == MinOf(stops) IN
    IF rest[f].enc # "CHECKMULTISIG" \/ f # Len(rest) THEN ParseFail   \* ExpectEOF
    ELSE LET bufs == SubSeq(rest, 1, f - 1) IN
    IF Len(bufs) < 1 THEN ParseFail                                \* "missing pubkey length"
    ELSE LET nt   == bufs[Len(bufs)]
             more == SubSeq(bufs, 1, Len(bufs) - 1)
         IN
    IF nt.t # "num" THEN ParseFail           \* a key pushed where n belongs: its value never equals the key count
    ELSE IF \E i \in DOMAIN more : ~IsKeyTok(more[i]) THEN ParseFail
    ELSE LET keytoks == SubSeq(s, 2, m + 1) \o more
             n == nt.v
         IN
    IF Len(keytoks) # n \/ ~MultiParamOK(m, n) THEN ParseFail
    ELSE ParseOk(keytoks, m)

Parse(s) ==
    IF s = <<>> \/ ByteLen(s) <= 2 THEN ParseFail
    ELSE LET last == s[Len(s)] IN
         IF last.t = "op" /\ last.enc = "CHECKSIG" THEN ParseSingle(s)
         ELSE IF last.t = "op" /\ last.enc = "CHECKMULTISIG" THEN ParseMulti(s)
         ELSE ParseFail

KeyVals(keytoks) == [i \in DOMAIN keytoks |-> keytoks[i].v]

-----------------------------------------------------------------------------
(* addresses: a hash is a free constructor over the script it hashes *)
NoAddr == [tag |-> "Z", k |-> 0, s |-> <<>>]
HashAddr(script) == [tag |-> "H", k |-> 0, s |-> script]       \* common.AddressFromVmCode
EthAddr(k) == [tag |-> "E", k |-> k, s |-> <<>>]              \* crypto.PubkeyToAddress (keccak of the point)

\* types.AddressFromPubKey; isEth(k) = the key is an Ethereum-type (PK_ETHECDSA) key
AddrOfKey(k, isEth) == IF isEth THEN EthAddr(k) ELSE HashAddr(BuildSingle(k))
\* types.AddressFromMultiPubKeys
AddrOfMulti(keys, m) == IF BuildMultiOK(keys, m) THEN HashAddr(BuildMulti(keys, m)) ELSE NoAddr

-----------------------------------------------------------------------------
(* signatures *)
Good(k)  == [kind |-> "g", by |-> k]
Stale(k) == [kind |-> "s", by |-> k]
Corrupt(k) == [kind |-> "c", by |-> k]
Garbage  == [kind |-> "x", by |-> 0]
\* MALFORMED SIGNATURE BLOBS: bytes pushed where a signature belongs that are NOT a serialized signature of the size
\* the scheme of key `by` prescribes.  A serialized signature is  scheme byte || value  (the value has one fixed
\* length per key type); the shapes name what is wrong with the blob:
\*   "me" nothing pushed (empty)          "mo" a scheme byte and nothing else
\*   "mt" scheme byte of the key's own scheme || a TRUNCATED value (fewer bytes than the scheme prescribes)
\*   "ml" the key's own scheme || an OVER-LONG value (a complete value followed by more bytes)
\*   "mw" a scheme byte that does not belong to the key's type || a value of any length
\* Ideal cryptography: none of them is a signature of anybody over anything (ValidFor is FALSE).  Whether
\* s.Deserialize accepts the blob depends on the scheme ("me"/"mo" are always refused: fewer than 2 bytes); what
\* the library's Verify does with a blob of unexpected length is NOT constrained here beyond "does not say valid"
\* (it may return false or abort the call - see SigTx!Analyze.malex).
MalShapes == {"me", "mo", "mt", "ml", "mw"}
Malformed(sh, k) == [kind |-> sh, by |-> k]
IsMalformed(sig) == sig.kind \in MalShapes
ValidFor(sig, k) == sig.kind = "g" /\ sig.by = k       \* s.Verify(key, data, sig)
WellFormed(sig) == sig.kind \notin {"x", "me", "mo"}   \* s.Deserialize(sig) succeeds (for mt/ml/mw: may succeed)

\* signature.VerifyMultiSignature as coded: the first m signatures, each matched with the first
\* not yet used key that verifies it.  byPosition = TRUE is the code (a key is "used" per list
\* POSITION); byPosition = FALSE is the named deviation switched off (a used key value masks all of
\* its occurrences, so m signatures need m distinct keys).
RECURSIVE VMStep(_, _, _, _, _, _)
VMStep(keys, m, sigs, i, mask, byPosition) ==
    IF i > m THEN TRUE
    ELSE IF ~WellFormed(sigs[i]) THEN FALSE
    ELSE LET cand == {j \in DOMAIN keys : j \notin mask /\ ValidFor(sigs[i], keys[j])} IN
         IF cand = {} THEN FALSE
         ELSE LET j == MinOf(cand)
                  used == IF byPosition THEN {j} ELSE {p \in DOMAIN keys : keys[p] = keys[j]}
              IN VMStep(keys, m, sigs, i + 1, mask \cup used, byPosition)

VerifyMulti(keys, m, sigs, byPosition) ==
    IF Len(sigs) < m THEN FALSE ELSE VMStep(keys, m, sigs, 1, {}, byPosition)

\* the distinct keys of a list that have a valid signature among sigs
Signers(keys, sigs) == {k \in Range(keys) : \E i \in DOMAIN sigs : ValidFor(sigs[i], k)}
=============================================================================
