\* reference configuration (the check generates its configurations from props/_connctrl.py: cfg_text)
SPECIFICATION Spec
CONSTANTS
  Conns <- ConnsQ
  Dir <- DirM
  IpOf <- IpM
  PortOf <- PortM
  LPortOf <- LPortM
  KidOf <- KidM
  Plans <- PlansBase
  PlanTab <- PlanM
  ListenAsCoded = TRUE
  MaxIn = 2
  MaxPerIp = 1
  MaxOut = 1
  CheckThenAct = FALSE
  SplitCheck = FALSE
  TrackSnap = TRUE
VIEW view
CHECK_DEADLOCK FALSE
INVARIANTS TypeOK Book
CONSTRAINT InitOut
ACTION_CONSTRAINT Edge
