\* reference configuration (the check generates its configurations from props/_connctrl.py: cfg_text)
SPECIFICATION Spec
CONSTANTS
  Conns <- ConnsQ
  Dir <- DirM
  IpOf <- IpM
  AddrOf <- AddrM
  ListenOf <- ListenM
  KidOf <- KidM
  IpOfAddr <- IpOfAddrM
  MaxIn = 2
  MaxPerIp = 1
  MaxOut = 1
  CheckThenAct = TRUE
  SplitCheck = FALSE
  TrackSnap = TRUE
VIEW view
CHECK_DEADLOCK FALSE
INVARIANTS TypeOK Book
CONSTRAINT InitOut
ACTION_CONSTRAINT Edge
