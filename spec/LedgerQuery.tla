----------------------------- MODULE LedgerQuery -----------------------------
(***************************************************************************)
(* The committed chain of core/store/ledgerstore as seen through its query  *)
(* interface, one action per public entry point of LedgerStoreImp:           *)
(*   Submit   = (Block.Deserialization ->) AddBlock | ExecuteBlock+SubmitBlock*)
(*              with the checks in the order the code applies them           *)
(*              (AddBlock height tests, verifyHeader, saveBlock/executeBlock,*)
(*              state root, submitBlock block root) followed, when all pass, *)
(*              by saveBlockToBlockStore / saveBlockToStateStore /           *)
(*              saveBlockToEventStore / setCurrentBlock                      *)
(*   PreExec  = PreExecuteContract(Batch) / PreExecuteEIP155 / PreExecuteEip155Tx *)
(*   Restart  = Close; NewLedgerStore; InitLedgerStoreWithGenesisBlock       *)
(*              (loadCurrentBlock, loadHeaderIndexList, LoadBloomBits)       *)
(* Durable variables are named after the LevelDB key families they stand    *)
(* for; in-memory variables after the struct fields.  Crash interleavings   *)
(* between the three batch commits belong to LedgerCommit (C01), here a     *)
(* successful Submit is one step.                                           *)
(*                                                                         *)
(* Hashes are free constructors: the id of a block is the sequence of the   *)
(* shape names of the chain up to and including it (it binds its history   *)
(* like PrevBlockHash does); the id of its j-th transaction is <<id, j>>.   *)
(*                                                                         *)
(* Properties: Coherent (C40), RejectedUnchanged + OnlyValidCommitted (C39),*)
(* PreExecUnchanged (C42), NoMiss + IndexAgrees + CacheComplete (C43).      *)
(***************************************************************************)
EXTENDS Naturals, Sequences, FiniteSets, TLC

CONSTANTS Shapes,       \* block shapes [name |-> STRING, ntx |-> Nat, logs |-> SUBSET (Items \X Items)]
          MaxBlocks,    \* bound on the number of blocks after genesis
          Paths,        \* delivery paths: "wire" (bytes -> BlockFromRawBytes -> AddBlock), "mem" (AddBlock on the
                        \* object), "exec" (ExecuteBlock + SubmitBlock on the object)
          Muts,         \* mutation records offered to Submit (see ValidMut)
          PreKinds,     \* pre-execution kinds
          DuringKinds,  \* non-atomic pre-execution kinds that are also run WHILE a block is being committed
          Points,       \* commit points of submitBlock at which they run: staged | blk | evt | st | cur
          W,            \* HEADER_INDEX_MAX_SIZE
          S,            \* BloomBitsBlocks
          BitsOf(_),    \* item -> set of bloom bit positions (bloom9 of the address / topic)
          BodyChecked,  \* named deviation: TRUE = design intent and the code since fix dc238bda (verifyBlockBody: a body that
                        \* does not match the header's transaction root is always refused); FALSE = the code before the
                        \* fix (only Block.Deserialization compared them)
          AllowRestart, \* BOOLEAN
          AllowSync,    \* BOOLEAN: is SyncHeader (header sync ahead of the blocks) part of the behaviours
          FreshInits    \* set of initial values of `fresh`

VARIABLES chain,      \* ghost: the shapes of the committed blocks 1..cur
          hashAt,     \* block store DATA_BLOCK_HASH: sequence, hashAt[h+1] = id of block h
          hdrOf,      \* block store DATA_HEADER: id -> height recorded in the header
          bodyOf,     \* block store DATA_HEADER (tx hash list): id -> sequence of transaction ids
          txAt,       \* block store DATA_TRANSACTION: transaction id -> height
          blkCur,     \* block store SYS_CURRENT_BLOCK: <<height, id>>
          bloomAt,    \* block store DATA_BLOOM: sequence, bloomAt[h+1] = set of bits of block h
          bitIdx,     \* block store bloom bits index: sequence over complete sections of [bit -> Seq(BOOLEAN)]
          fstart,     \* block store ST_ETH_FILTER_START: -1 (absent) or a height ... kept as Nat+1, 0 = absent
          stApplied,  \* state store: the ids whose write sets were applied, in order (the abstract state)
          evTx,       \* event store: transaction ids with a stored notify record
          evCur,      \* event store current height
          memCur,     \* LedgerStoreImp.currBlockHeight/currBlockHash
          hidx,       \* HeaderIndexCache [first, last, m]
          hcache,     \* LedgerStoreImp.headerCache: ids of the headers added by AddHeader(s) and not yet committed
          bcache,     \* BlockStore.bloomCache: height -> bits
          fmem,       \* BlockStore.filterStart
          fresh,      \* TRUE iff nothing was committed since the ledger was (re)opened
          halt,       \* TRUE after a named-deviation commit (exploration stops there)
          act         \* history: the last action with arguments and result (not in the VIEW)

durable == <<chain, hashAt, hdrOf, bodyOf, txAt, blkCur, bloomAt, bitIdx, stApplied, evTx, evCur>>
memory  == <<memCur, hidx, hcache, bcache, fmem>>
vars == <<durable, fstart, memory, fresh, halt, act>>
view == <<durable, fstart, memory, fresh, halt>>

Max(a, b) == IF a > b THEN a ELSE b
Range(f) == {f[x] : x \in DOMAIN f}
Names(c) == [i \in 1..Len(c) |-> c[i].name]
GenesisId == <<>>
Cur == memCur[1]

ValidMut == [height |-> "next", prev |-> "cur", ts |-> "gt", broot |-> "ok", troot |-> "ok", body |-> "ok",
             sigs |-> "ok", keepers |-> "ok", sroot |-> "ok"]
IsValid(m) == m = ValidMut

TxIds(id, n) == [j \in 1..n |-> <<id, j>>]
\* the transaction list actually delivered with the block
Delivered(id, sh, m) ==
    CASE m.body = "drop"  -> TxIds(id, sh.ntx - 1)
      [] m.body = "alter" -> [j \in 1..sh.ntx |-> IF j = sh.ntx THEN <<id, 99>> ELSE <<id, j>>]
      [] m.body = "dup"   -> Append(TxIds(id, sh.ntx), <<id, 1>>)
      [] m.body = "evmnonce" -> [j \in 1..sh.ntx |-> IF j = sh.ntx THEN <<id, 98>> ELSE <<id, j>>]
      [] OTHER -> TxIds(id, sh.ntx)

\* does the delivered body match the header's transaction root ?
BodyMatches(m) == m.body \in {"ok", "evmnonce"} /\ m.troot = "ok"
\* troot: "bad"/"zero" = arbitrary / all-zero transaction root with the block root of the valid block;
\*        "badc"/"zeroc" = the same with a block root recomputed for it (only Block.Deserialization can notice)
RootInconsistent(m) == m.troot \in {"bad", "zero"}

Applicable(p, sh, m) ==
    /\ (m.body # "ok" => sh.ntx >= 1)
    /\ (m.troot \in {"zero", "zeroc"} => sh.ntx >= 1)     \* the zero root IS the root of an empty block
    /\ (m.prev = "old" => Cur >= 1)
    /\ (p = "exec" => m.sroot = "ok")          \* SubmitBlock takes the execution result, not a root

(* The checks in code order.  Result: "ok" (committed), "ignored" (nil returned, nothing done) or the    *)
(* name of the refusing check.                                                                            *)
Outcome(p, sh, m) ==
    LET nexec == Len(Delivered(<<>>, sh, m)) IN
    IF p = "wire" /\ m.body = "dup" THEN "decode"                    \* Block.Deserialization: duplicated transaction
    ELSE IF p = "wire" /\ ~BodyMatches(m) THEN "decode"              \* Block.Deserialization: mismatched transaction root
    ELSE IF m.height = "stale" THEN "ignored"                        \* AddBlock/SubmitBlock: height <= current
    ELSE IF m.height = "skip" THEN "height"                          \* height # current + 1
    ELSE IF m.prev = "unknown" THEN "prev"                           \* verifyHeader: cannot find pre header
    ELSE IF m.prev = "old" THEN "prevheight"                         \* verifyHeader: prevHeader.Height+1 # Height
    ELSE IF m.ts # "gt" THEN "timestamp"                             \* verifyHeader: timestamp
    ELSE IF m.keepers # "ok" THEN "bookkeeper"                       \* verifyHeader: bookkeeper address
    ELSE IF m.sigs # "ok" THEN "signature"                           \* verifyHeader: VerifyMultiSignature
    ELSE IF ~BodyMatches(m) /\ BodyChecked THEN "txroot"             \* verifyBlockBody (AddBlock/SubmitBlock, since dc238bda)
    ELSE IF m.body = "evmnonce" THEN "exec"                          \* executeBlock: handleTransaction error
    ELSE IF m.sroot = "bad" /\ nexec > 0 THEN "stateroot"            \* saveBlock (empty blocks are not checked)
    ELSE IF m.broot = "bad" \/ RootInconsistent(m) THEN "blockroot"  \* submitBlock
    ELSE "ok"

BloomOf(sh) == UNION {BitsOf(l[1]) \cup BitsOf(l[2]) : l \in sh.logs}

\* HeaderIndexCache.setHeaderIndex(curBlockHeight, curHeaderHeight, blockHash)
SetHeaderIndex(c, curBlk, hh, id) ==
    LET m1 == [k \in DOMAIN c.m \cup {hh} |-> IF k = hh THEN id ELSE c.m[k]]
        last1 == Max(c.last, hh)
        size == IF c.first < curBlk THEN curBlk - c.first + 1 ELSE 0
        k == IF size > W THEN size - W ELSE 0
        first1 == c.first + k
    IN [first |-> first1, last |-> last1,
        m |-> [x \in {y \in DOMAIN m1 : ~(y >= c.first /\ y < first1)} |-> m1[x]]]

\* LedgerStoreImp.getHeaderIndex: cache, then DATA_BLOCK_HASH
NONE == <<"none">>
GBH(hx, ha, h) == IF h \in DOMAIN hx.m THEN hx.m[h]
                  ELSE IF h + 1 <= Len(ha) THEN ha[h + 1] ELSE NONE
GetBlockHash(h) == GBH(hidx, hashAt, h)

\* loadHeaderIndexList
RECURSIVE LoadIdx(_, _, _)
LoadIdx(c, i, cur) == IF i > cur THEN c ELSE LoadIdx(SetHeaderIndex(c, cur, i, hashAt[i + 1]), i + 1, cur)
LoadHeaderIndexList(cur) ==
    LET start == IF cur + 1 > W THEN cur - W + 1 ELSE 0
    IN LoadIdx([first |-> start, last |-> start, m |-> <<>>], start, cur)

\* BlockStore.SaveBloomData: returns <<bloomAt', bcache', bitIdx'>>
\* PutBloomIndex over the S cached blooms of the section ending at h (a missing cache entry is a nil dereference
\* in the code and an evaluation error here)
SectionOf(cache, h) == [b \in UNION {cache[h + i - S] : i \in 1..S} |-> [i \in 1..S |-> b \in cache[h + i - S]]]
SaveBloom(h, bits) ==
    IF h < fmem THEN <<Append(bloomAt, {}), bcache, bitIdx>>        \* below the filter start nothing is recorded
    ELSE LET c1 == [x \in DOMAIN bcache \cup {h} |-> IF x = h THEN bits ELSE bcache[x]]
             c2 == IF h > 2 * S THEN [x \in DOMAIN c1 \ {h - 2 * S} |-> c1[x]] ELSE c1
         IN <<Append(bloomAt, bits), c2,
              IF (h + 1) % S = 0 THEN Append(bitIdx, SectionOf(c2, h)) ELSE bitIdx>>

Init == /\ chain = <<>>
        /\ hashAt = <<GenesisId>> /\ hdrOf = (GenesisId :> 0) /\ bodyOf = (GenesisId :> <<>>)
        /\ txAt = <<>> /\ blkCur = <<0, GenesisId>>
        /\ bloomAt = <<{}>> /\ bitIdx = <<>> /\ stApplied = <<GenesisId>> /\ evTx = {} /\ evCur = 0
        /\ memCur = <<0, GenesisId>>
        /\ hidx = [first |-> 0, last |-> 0, m |-> (0 :> GenesisId)]
        /\ bcache = (0 :> {}) /\ hcache = {}
        /\ fresh \in FreshInits
        /\ fstart = IF fresh THEN 1 ELSE 0     \* a reopened ledger has stored its filter start (0, kept as 0+1)
        /\ fmem = 0
        /\ halt = FALSE
        /\ act = [name |-> "Init"]

Commit(sh, m) ==
    LET h == Cur + 1
        id == Append(memCur[2], sh.name)
        body == Delivered(id, sh, m)
        sb == SaveBloom(h, BloomOf(sh))
    IN /\ chain' = Append(chain, sh)
       /\ hashAt' = Append(hashAt, id)                                             \* SaveBlockHash
       /\ hdrOf' = [x \in DOMAIN hdrOf \cup {id} |-> IF x = id THEN h ELSE hdrOf[x]]    \* SaveHeader
       /\ bodyOf' = [x \in DOMAIN bodyOf \cup {id} |-> IF x = id THEN body ELSE bodyOf[x]]
       /\ txAt' = [t \in DOMAIN txAt \cup Range(body) |-> IF t \in Range(body) THEN h ELSE txAt[t]]  \* SaveTransaction
       /\ blkCur' = <<h, id>>                                                      \* SaveCurrentBlock
       /\ bloomAt' = sb[1] /\ bcache' = sb[2] /\ bitIdx' = sb[3]                    \* SaveBloomData
       /\ hidx' = SetHeaderIndex(hidx, Cur, h, id)                                 \* setHeaderIndex
       /\ stApplied' = Append(stApplied, id)                                       \* saveBlockToStateStore
       /\ evTx' = evTx \cup Range(body) /\ evCur' = h                              \* saveBlockToEventStore
       /\ memCur' = <<h, id>>                                                      \* setCurrentBlock
       /\ hcache' = hcache \ {id}                                                  \* delHeaderCache
       /\ UNCHANGED <<fstart, fmem>>

Submit(p, sh, m) ==
    /\ ~halt /\ Applicable(p, sh, m)
    /\ LET r == Outcome(p, sh, m) IN
         /\ act' = [name |-> "Submit", path |-> p, shape |-> sh.name, mut |-> m, res |-> r]
         /\ IF r = "ok"
            THEN /\ Cur < MaxBlocks
                 /\ Commit(sh, m)
                 /\ fresh' = FALSE
                 /\ halt' = ~BodyMatches(m)
            ELSE UNCHANGED <<durable, fstart, memory, fresh, halt>>

(* A valid block is committed while a non-atomic pre-execution of kind k runs at commit point pt of submitBlock       *)
(* (it does not take the block-saving lock).  A pre-execution works on its own overlay, so the outcome is exactly the    *)
(* commit of the block: same post-state as Submit with the valid block.                                                 *)
SubmitPre(p, sh, k, pt) ==
    /\ ~halt /\ Cur < MaxBlocks
    /\ Commit(sh, ValidMut)
    /\ fresh' = FALSE /\ halt' = FALSE
    /\ act' = [name |-> "Submit", path |-> p, shape |-> sh.name, mut |-> ValidMut, res |-> "ok", kind |-> k, point |-> pt]

(* AddHeaders with the VALID header of a next block of shape sh (header sync runs ahead of the blocks): verifyHeader,  *)
(* addHeaderCache, setHeaderIndex.  Nothing durable changes.  verifyHeader never consults the header cache: a block     *)
(* delivered later is checked in full (Outcome does not depend on hcache).                                              *)
SyncHeader(sh) ==
    /\ ~halt /\ AllowSync
    /\ hidx.last <= Cur                          \* AddHeader: height = current header height + 1 (one header ahead)
    /\ LET id == Append(memCur[2], sh.name) IN
         /\ hcache' = hcache \cup {id}
         /\ hidx' = SetHeaderIndex(hidx, Cur, Cur + 1, id)
    /\ act' = [name |-> "SyncHeader", shape |-> sh.name]
    /\ UNCHANGED <<durable, fstart, memCur, bcache, fmem, fresh, halt>>

PreExec(k) == /\ ~halt /\ act' = [name |-> "PreExec", kind |-> k]
              /\ UNCHANGED <<durable, fstart, memory, fresh, halt>>

\* BlockStore.LoadBloomBits (AddDecimalsHeight = 0 on this network)
Restart ==
    /\ ~halt /\ AllowRestart
    /\ LET cur == blkCur[1]
           initStart == (cur + S - 1) \div S                 \* as coded: a section count stored as a height
           start == IF fstart = 0 THEN initStart ELSE fstart - 1
           loadStart == cur - (cur % S)
       IN /\ memCur' = blkCur                                \* loadCurrentBlock
          /\ hidx' = LoadHeaderIndexList(cur)                \* loadHeaderIndexList
          /\ fstart' = start + 1 /\ fmem' = start            \* GetOrSetFilterStart
          /\ bcache' = IF cur < start THEN <<>>
                       ELSE [x \in loadStart..cur |-> bloomAt[x + 1]]
          /\ hcache' = {}                                   \* the header cache is not persistent
    /\ fresh' = TRUE
    /\ act' = [name |-> "Restart"]
    /\ UNCHANGED <<durable, halt>>

Next == \/ \E p \in Paths, sh \in Shapes, m \in Muts : Submit(p, sh, m)
        \/ \E k \in PreKinds : PreExec(k)
        \/ \E p \in Paths, sh \in Shapes, k \in DuringKinds, pt \in Points : SubmitPre(p, sh, k, pt)
        \/ \E sh \in Shapes : SyncHeader(sh)
        \/ Restart
Spec == Init /\ [][Next]_vars

-----------------------------------------------------------------------------
(* C40 *)
IdOfHeight(h) == SubSeq(Names(chain), 1, h)
Coherent ==
    /\ Cur = Len(chain) /\ blkCur = memCur /\ memCur[2] = IdOfHeight(Cur)
    /\ \A h \in 0..Cur :
         LET id == GetBlockHash(h) IN
           /\ id = IdOfHeight(h)                               \* hash by height names the committed block
           /\ id \in DOMAIN hdrOf /\ hdrOf[id] = h             \* header by hash
           /\ id \in DOMAIN bodyOf                             \* block by hash / by height
           /\ (halt \/ h = 0 \/ Len(bodyOf[id]) = chain[h].ntx)
           /\ \A j \in DOMAIN bodyOf[id] :                     \* transactions by hash, with their height
                bodyOf[id][j] \in DOMAIN txAt /\ txAt[bodyOf[id][j]] = h
    \* above the current height only a synced header is named
    /\ (GetBlockHash(Cur + 1) = NONE \/ (GetBlockHash(Cur + 1) \in hcache /\ hidx.last = Cur + 1))
    /\ GetBlockHash(Cur + 2) = NONE
    /\ Len(stApplied) = Cur + 1 /\ evCur = Cur

(* C39 *)
RejectedUnchanged == [][(act'.name = "Submit" /\ act'.res # "ok") => UNCHANGED <<durable, fstart, memory>>]_vars
OnlyValidCommitted ==
    [][(act'.name = "Submit" /\ act'.res = "ok") =>
          \/ IsValid(act'.mut)
          \* the state root argument of an empty block is not part of the block and is not checked
          \/ /\ [act'.mut EXCEPT !.sroot = "ok"] = ValidMut
             /\ \E sh \in Shapes : sh.name = act'.shape /\ sh.ntx = 0]_vars

(* C42 *)
PreExecUnchanged == [][act'.name = "PreExec" => UNCHANGED <<durable, fstart, memory>>]_vars

(* C43 *)
NoMiss == \A h \in 1..Len(chain) : \A l \in chain[h].logs : (BitsOf(l[1]) \cup BitsOf(l[2])) \subseteq bloomAt[h + 1]
IndexAgrees == \A sec \in 1..Len(bitIdx) : \A b \in DOMAIN bitIdx[sec] : \A i \in 1..S :
                   bitIdx[sec][b][i] = (b \in bloomAt[(sec - 1) * S + i])
IndexComplete == /\ Len(bitIdx) = (Cur + 1) \div S
                 /\ \A sec \in 1..Len(bitIdx) : \A i \in 1..S : bloomAt[(sec - 1) * S + i] \subseteq DOMAIN bitIdx[sec]
CacheComplete == \A x \in (Cur - (Cur % S))..Cur : x >= fmem => (x \in DOMAIN bcache /\ bcache[x] = bloomAt[x + 1])

TypeOK == /\ Len(hashAt) = Len(chain) + 1 /\ Len(bloomAt) = Len(chain) + 1
          /\ hidx.first <= hidx.last /\ fresh \in BOOLEAN /\ halt \in BOOLEAN
=============================================================================
