------------------------------- MODULE KBucket -------------------------------
(***************************************************************************)
(* The kademlia routing table of ontio/ontology, transcribed as coded:     *)
(*   p2pserver/dht/kbucket/table.go    Update, Remove, nextBucket,         *)
(*                                     NearestPeers                        *)
(*   p2pserver/dht/kbucket/bucket.go   Has, MoveToFront, PushFront,        *)
(*                                     Remove, Split                       *)
(*   p2pserver/dht/kbucket/sorting.go  peerDistanceSorter (XOR distance)   *)
(*   p2pserver/common/id.go            CommonPrefixLen, Distance           *)
(* Peer ids are numbers 1..Len(IdBits); IdBits[p] is the id's bit string   *)
(* (a sequence of 0/1, most significant bit first), LocalBits the local    *)
(* id's.  Only comparisons of bits are used, so the same module describes  *)
(* 6-bit model ids and the real 160-bit ids (trace validation).            *)
(* A bucket is a sequence of peer ids, front of the Go list first.         *)
(* Update(p, a) carries the address string the peer announces (discovery   *)
(* calls dht.Update(info.Id, info.RemoteListenAddress())); a peer that     *)
(* reconnects from another IP / listen port is Updated with a different    *)
(* address.  As coded, a known peer is recognised BY ITS ID only: it is    *)
(* moved to the front and keeps the address recorded when it was inserted. *)
(* Properties (C37): Valid = NoDup /\ BucketLenOK /\ RightBucket,          *)
(*                   NearestOK (distinct, sorted by XOR distance),         *)
(*                   AddrOK (one address per peer id in the table, i.e.    *)
(*                   Size = number of distinct ids), RemoveGone (a removed *)
(*                   peer is not found any more).                          *)
(***************************************************************************)
EXTENDS Integers, Sequences, FiniteSets, TLC

CONSTANTS IdBits,     \* peer id -> bit string
          LocalBits,  \* bit string of the local peer id
          K,          \* bucket size
          Peers,      \* ids offered to Update / Remove
          Addrs,      \* peer id -> set of address strings the peer may announce (positive numbers)
          Targets,    \* ids used as NearestPeers targets
          Counts,     \* `count` arguments of NearestPeers
          MaxOps      \* bound on the number of operations of a behaviour

VARIABLES buckets,  \* rt.Buckets: sequence of buckets (index i+1 = Go bucket i)
          addr,     \* peer id -> address of its PeerIDAddressPair in the table, 0 if the peer is not in the table
          res,      \* result of the last call: "ok" | "nocap" (ErrPeerRejectedNoCapacity) | "init"
          nops,     \* number of operations so far (bound)
          act       \* last action with arguments (history variable, not in the VIEW)

vars == <<buckets, addr, res, nops, act>>
view == <<buckets, addr, res>>

\* ------------------------------------------------------------------ helpers
Min(a, b) == IF a < b THEN a ELSE b
ToSet(s) == {s[i] : i \in DOMAIN s}
InSeq(x, s) == \E i \in DOMAIN s : s[i] = x
Without(s, x) == SelectSeq(s, LAMBDA y : y # x)

\* common.CommonPrefixLen(a, b): number of leading zero bits of a XOR b
RECURSIVE CplFrom(_, _, _)
CplFrom(x, y, i) == IF i > Len(x) THEN Len(x) ELSE IF x[i] # y[i] THEN i - 1 ELSE CplFrom(x, y, i + 1)
Cpl(x, y) == CplFrom(x, y, 1)
CplL(p) == Cpl(IdBits[p], LocalBits)

\* bytes.Compare(target.Distance(a), target.Distance(b)) < 0
RECURSIVE DistLessFrom(_, _, _, _)
DistLessFrom(t, a, b, i) == IF i > Len(t) THEN FALSE
                            ELSE IF a[i] = b[i] THEN DistLessFrom(t, a, b, i + 1)
                            ELSE a[i] = t[i]
DistLess(t, a, b) == DistLessFrom(IdBits[t], IdBits[a], IdBits[b], 1)

\* bucketID := cpl; if bucketID >= len(rt.Buckets) { bucketID = len(rt.Buckets) - 1 }     (1-based here)
BucketIdx(bs, p) == Min(CplL(p), Len(bs) - 1) + 1

\* ------------------------------------------------------------------ nextBucket / Split
\* Bucket.Split(cpl, local): the receiver keeps the peers with CPL <= cpl, the new bucket gets the others (order kept)
Stay(b, cpl)  == SelectSeq(b, LAMBDA q : CplL(q) <= cpl)
Moved(b, cpl) == SelectSeq(b, LAMBDA q : CplL(q) > cpl)

RECURSIVE NextBucket(_)
NextBucket(bs) ==
  LET n   == Len(bs)
      new == Moved(bs[n], n - 1)
      bs2 == Append([bs EXCEPT ![n] = Stay(bs[n], n - 1)], new)
  IN IF Len(new) >= K THEN NextBucket(bs2) ELSE bs2

\* ------------------------------------------------------------------ actions
PushFront(bs, i, p) == [bs EXCEPT ![i] = <<p>> \o bs[i]]

Update(p, a) ==
  LET i == BucketIdx(buckets, p)
      b == buckets[i]
      ins == [addr EXCEPT ![p] = a]                                            \* the pair (p, a) is pushed
  IN /\ nops < MaxOps
     /\ nops' = nops + 1
     /\ act' = [name |-> "Update", p |-> p, a |-> a]
     /\ IF InSeq(p, b)
        THEN /\ buckets' = [buckets EXCEPT ![i] = <<p>> \o Without(b, p)]      \* bucket.Has(id) -> MoveToFront(id):
             /\ res' = "ok" /\ addr' = addr                                   \* whatever address is announced
        ELSE IF Len(b) < K
        THEN /\ buckets' = PushFront(buckets, i, p)
             /\ res' = "ok" /\ addr' = ins
        ELSE IF i = Len(buckets)
        THEN LET bs2 == NextBucket(buckets)                                    \* unfold the wildcard bucket
                 i2  == BucketIdx(bs2, p)
             IN IF Len(bs2[i2]) >= K
                THEN /\ buckets' = bs2 /\ res' = "nocap" /\ addr' = addr       \* the unfolding stays
                ELSE /\ buckets' = PushFront(bs2, i2, p) /\ res' = "ok" /\ addr' = ins
        ELSE /\ buckets' = buckets /\ res' = "nocap" /\ addr' = addr

Remove(p) ==
  LET i == BucketIdx(buckets, p)
  IN /\ nops < MaxOps
     /\ nops' = nops + 1
     /\ act' = [name |-> "Remove", p |-> p]
     /\ buckets' = [buckets EXCEPT ![i] = Without(buckets[i], p)]
     /\ addr' = [addr EXCEPT ![p] = 0]
     /\ res' = "ok"

\* ------------------------------------------------------------------ NearestPeers(id, count), a read
RECURSIVE Right(_, _, _, _)
Right(bs, acc, i, count) == IF i > Len(bs) \/ Len(acc) >= count THEN acc ELSE Right(bs, acc \o bs[i], i + 1, count)
RECURSIVE Left(_, _, _, _)
Left(bs, acc, i, count) == IF i < 1 \/ Len(acc) >= count THEN acc ELSE Left(bs, acc \o bs[i], i - 1, count)

RECURSIVE InsertByDist(_, _, _)
InsertByDist(s, x, t) == IF s = <<>> THEN <<x>>
                         ELSE IF DistLess(t, x, Head(s)) THEN <<x>> \o s
                         ELSE <<Head(s)>> \o InsertByDist(Tail(s), x, t)
RECURSIVE SortByDist(_, _)
SortByDist(s, t) == IF s = <<>> THEN <<>> ELSE InsertByDist(SortByDist(Tail(s), t), Head(s), t)

Nearest(bs, t, count) ==
  LET c     == Min(Cpl(IdBits[t], LocalBits), Len(bs) - 1) + 1
      cands == Left(bs, Right(bs, bs[c], c + 1, count), c - 1, count)
      srt   == SortByDist(cands, t)
  IN SubSeq(srt, 1, Min(count, Len(srt)))

\* the public call: a read, the answer is recorded in the history variable only
NearestPeers(t, n) == /\ act' = [name |-> "Nearest", t |-> t, n |-> n, out |-> Nearest(buckets, t, n)]
                      /\ UNCHANGED <<buckets, addr, res, nops>>

Init == /\ buckets = << <<>> >> /\ addr = [p \in DOMAIN IdBits |-> 0] /\ res = "init" /\ nops = 0 /\ act = [name |-> "Init"]
Next == \/ \E p \in Peers : Remove(p) \/ \E a \in Addrs[p] : Update(p, a)
        \/ \E t \in Targets : \E n \in Counts : NearestPeers(t, n)
Spec == Init /\ [][Next]_vars

\* ------------------------------------------------------------------ properties (C37)
All(bs) == UNION {ToSet(bs[i]) : i \in DOMAIN bs}
RECURSIVE SumLen(_, _)
SumLen(bs, i) == IF i = 0 THEN 0 ELSE Len(bs[i]) + SumLen(bs, i - 1)
NoDup(bs)       == SumLen(bs, Len(bs)) = Cardinality(All(bs))
BucketLenOK(bs) == \A i \in DOMAIN bs : Len(bs[i]) <= K
RightBucket(bs) == \A i \in DOMAIN bs : \A j \in DOMAIN bs[i] : BucketIdx(bs, bs[i][j]) = i
ValidTable(bs)  == NoDup(bs) /\ BucketLenOK(bs) /\ RightBucket(bs)

NearestOKFor(bs, t, n, r) ==
  /\ Len(r) <= n /\ Cardinality(ToSet(r)) = Len(r) /\ ToSet(r) \subseteq All(bs)
  /\ \A i \in 1..(Len(r) - 1) : DistLess(t, r[i], r[i + 1])

Valid     == ValidTable(buckets)
\* every peer id of the table has exactly one recorded address (and no other id has one): the number of
\* PeerIDAddressPairs held (RouteTable.Size) is the number of distinct peer ids
AddrOK    == \A p \in DOMAIN IdBits : (addr[p] # 0) = (p \in All(buckets))
SizeOK    == SumLen(buckets, Len(buckets)) = Cardinality({p \in DOMAIN IdBits : addr[p] # 0})
\* a removed peer is gone: Find(p) after Remove(p) fails
RemoveGone == [][act'.name = "Remove" /\ nops' # nops => act'.p \notin All(buckets')]_vars
NearestOK == \A t \in Targets : \A n \in Counts : NearestOKFor(buckets, t, n, Nearest(buckets, t, n))
=============================================================================
