-------------------------- MODULE Governance_Trace --------------------------
(* Trace validation (code -> specification) for C10 / C11: an NDJSON record of seeded random calls    *)
(* made on the real governance contract (harness TestVerifGovTrace), each with the call, its outcome   *)
(* and the whole bookkeeping read back from storage, must be a behaviour of Governance: every call is  *)
(* the action Do(call) (success or failure decided by the specification's guards) and the state read    *)
(* back equals the specification's post-state.                                                          *)
EXTENDS Governance_Gen
Tr == ndJsonDeserialize("trace.ndjson")
VARIABLE l
tvars == <<vars, l>>

ASSUME TLCSet(1, 0)
Max2(a, b) == IF a > b THEN a ELSE b
HW == TLCSet(1, Max2(TLCGet(1), l))
Accepted == /\ PrintT(<<"HW", TLCGet(1) - 1>>)
            /\ TLCGet(1) = Len(Tr) + 1

Ev == Tr[l]
ToSet(s) == {s[i] : i \in DOMAIN s}
IsEvent(n) == l <= Len(Tr) /\ Ev.event = n /\ l' = l + 1

\* the bookkeeping the harness read back (sparse form, as XState) = the post-state
ObsOK == LET o == Ev.state
             x == XState'
         IN /\ ToSet(o.pool) = x.pool /\ ToSet(o.prev) = x.prev /\ ToSet(o.au) = x.au
            /\ ToSet(o.stake) = x.stake /\ ToSet(o.pen) = x.pen /\ ToSet(o.ont) = x.ont
            /\ ToSet(o.ong) = x.ong /\ ToSet(o.fee) = x.fee /\ o.splitFee = x.splitFee
            /\ ToSet(o.attr) = x.attr /\ ToSet(o.black) = x.black
            /\ o.dappFee = x.dappFee /\ o.hasDapp = x.hasDapp
            /\ o.splitNum = x.splitNum /\ o.pA = x.pA /\ o.pB = x.pB /\ o.candNum = x.candNum

TInit == l = 2 /\ Init
TReset == /\ IsEvent("Reset")
          /\ pool' = [p \in Peers |-> IF p \in GenPeers THEN [st |-> ConsSt, init |-> GenesisPos[p], total |-> 0] ELSE NoPeer]
          /\ prev' = pool'
          /\ au' = [p \in Peers |-> [a \in Addrs |-> ZeroBk]]
          /\ stake' = [a \in Addrs |-> SumSet({q \in GenPeers : OwnerOf[q] = a}, LAMBDA p : GenesisPos[p])]
          /\ pen' = [p \in Peers |-> 0]
          /\ ont' = [a \in Addrs \cup {"gov"} |-> IF a = "gov" THEN SumSet(GenPeers, LAMBDA p : GenesisPos[p]) ELSE Fund[a]]
          /\ ong' = [a \in Addrs \cup {"gov", "dapp"} |-> 0]
          /\ fee' = [a \in Addrs |-> 0]
          /\ splitFee' = 0
          /\ attr' = [p \in Peers |-> IF p \in GenPeers THEN [DefAttr EXCEPT !.max = GenesisMax] ELSE DefAttr]
          /\ promise' = [p \in Peers |-> -1]
          /\ black' = {}
          /\ dappFee' = DappFee /\ hasDapp' = HasDapp
          /\ splitNum' = (IF P2Stored THEN SplitNum ELSE -1)
          /\ pA' = A /\ pB' = B /\ candNum' = CandNum
          /\ nops' = 0 /\ act' = [name |-> "Init"]
          /\ ObsOK
TCall == /\ IsEvent("Call")
         /\ Do(Ev.act)
         /\ act'.ok = Ev.ok
         /\ ObsOK
TNext == TReset \/ TCall
TSpec == TInit /\ [][TNext]_tvars
=============================================================================
