----------------------------- MODULE TxWire_Tab -----------------------------
(* placeholder: props/C19.py generates this module for every run (really signed EIP-155 transactions as RLP item lists, *)
(* arbitrary byte strings)                                                                                                 *)
EXTENDS TLC
EipTxs == <<>>
ArbRaw == {}
=============================================================================
