\* generated by props/_handshake.py (table CFGS) -- do not edit by hand
SPECIFICATION Spec
CONSTANTS
  Nodes = {"A", "B", "V"}
  Conns = {"c1", "c2", "v1"}
  Cl <- ClM
  Sv <- SvM
  Eph <- EphM
  Info <- InfoM
  Pseudo <- PseudoM
  MagicOf <- MagicM
  IpOf <- IpM
  Addr <- AddrM
  Scenarios <- ScQ2
  FaultKinds <- FaultsAll
  MaxFaults = 2
  Closes = TRUE
  CheckVersion = FALSE
  MinVer = 1
  LsnCounted = FALSE
CHECK_DEADLOCK FALSE
INVARIANTS TypeOK EntryOK NoSelf OneLive Books Clean Agree FailNoEntry NoIncompat EstQuiet
PROPERTIES AdmitAtEnd
VIEW view
CONSTRAINT InitOut
ACTION_CONSTRAINT Edge
