------------------------------- MODULE TxPool -------------------------------
(***************************************************************************)
(* The verified-transaction pool and the proposer's incremental filter of  *)
(* ontio/ontology:                                                         *)
(*   txnpool/common/transaction_pool.go  (TXPool)                          *)
(*   txnpool/common/tx_list.go           (txSortedMap: per-sender nonces)  *)
(*   validator/increment/increment.go    (IncrementValidator)              *)
(*   consensus/{solo,vbft}: validHeight / makeBlock / makeProposal         *)
(* One action per public call:                                             *)
(*   Submit         TXPool.AddTxList (a VerifiedTx produced by the         *)
(*                  stateful validator at a ledger height that may be      *)
(*                  stale by the time it reaches the pool)                 *)
(*   RemoveBelowGas TXPool.RemoveTxsBelowGasPrice                          *)
(*   LedgerCommit   a block is saved in the ledger (height, account        *)
(*                  nonces); the two subscribers are told asynchronously:  *)
(*   ValAddBlock      IncrementValidator.AddBlock                          *)
(*   PoolClean        TXPool.CleanCompletedTransactionList                 *)
(*   ValReset       IncrementValidator.Clean (consensus stop/start)        *)
(*   Propose        validHeight + TXPool.GetTxPool(true, validHeight)      *)
(*                  filtered by IncrementValidator.Verify with one         *)
(*                  nonceCtx, as makeBlock / makeProposal do               *)
(* Transactions are records [s, n, gp, v]: sender, nonce, gas price and a  *)
(* variant that distinguishes transactions equal in the other fields; the  *)
(* record stands for the hash.  For a non-EVM (Ontology) transaction s is  *)
(* its identity and n is unused.                                           *)
(* C35: ProposalOK (action property on every Propose), ReplaceOnlyHigher.  *)
(***************************************************************************)
EXTENDS Naturals, Sequences, FiniteSets, TLC

CONSTANTS EvmTxs,       \* universe of EVM transactions
          OntTxs,       \* universe of Ontology transactions
          EvmSenders,
          InitNonce,    \* EvmSenders -> account nonce at height H0
          H0,           \* ledger height of the initial state
          MaxBlocks,    \* IncrementValidator window
          MaxTx,        \* config Consensus.MaxTxInBlock (0: no limit)
          MaxStale,     \* a verification result is at most this many blocks old when it reaches the pool
          MaxLag,       \* the block subscribers lag at most this many blocks behind the ledger
          MaxBlockTxs,  \* bound on the size of a committed block
          MaxHeight,    \* bound on the ledger height
          MaxOps, Acts

VARIABLES pool,     \* set of [tx, vh]: validTxMap; its EVM part is eipTxPool
          blocks,   \* ledger blocks H0+1 .. : sequence of sequences of transactions
          vbase, vlen,  \* IncrementValidator: window of block heights [vbase, vbase+vlen)
          vnext,    \* next block height to be delivered to the validator
          pnext,    \* next block height to be delivered to the pool
          nops, act

vars == <<pool, blocks, vbase, vlen, vnext, pnext, nops, act>>
view == <<pool, blocks, vbase, vlen, vnext, pnext>>

TxU == EvmTxs \cup OntTxs
IsEvm(t) == t \in EvmTxs
Max(S) == CHOOSE x \in S : \A y \in S : y <= x
Min(S) == CHOOSE x \in S : \A y \in S : x <= y
SeqSet(q) == {q[i] : i \in 1..Len(q)}

(******************************** ledger ***********************************)
Height == H0 + Len(blocks)
BlockAt(h) == blocks[h - H0]
TxsUpTo(h) == UNION {SeqSet(blocks[i]) : i \in 1..(h - H0)}
\* committed EVM transactions of a sender advance its account nonce by one each (C07)
NonceAt(s, h) == InitNonce[s] + Cardinality({t \in TxsUpTo(h) : IsEvm(t) /\ t.s = s})

\* blocks the ledger accepts: distinct transactions, none on chain, per EVM sender consecutive nonces from the account nonce
RECURSIVE BlocksFrom(_, _, _)
BlocksFrom(b, ctx, k) ==
    IF k = 0 THEN {b}
    ELSE LET ext == {t \in TxU : /\ t \notin TxsUpTo(Height) /\ t \notin SeqSet(b)
                                 /\ IsEvm(t) => t.n = ctx[t.s]}
         IN {b} \cup UNION {BlocksFrom(Append(b, t), IF IsEvm(t) THEN [ctx EXCEPT ![t.s] = t.n + 1] ELSE ctx, k - 1) : t \in ext}
BlockChoices == BlocksFrom(<<>>, [s \in EvmSenders |-> NonceAt(s, Height)], MaxBlockTxs)

(********************************* pool ************************************)
Slot(s, n) == {e \in pool : IsEvm(e.tx) /\ e.tx.s = s /\ e.tx.n = n}
EntryAt(s, n) == CHOOSE e \in Slot(s, n) : TRUE
NoncesOf(s) == {e.tx.n : e \in {x \in pool : IsEvm(x.tx) /\ x.tx.s = s}}

\* txSortedMap.Heading: the run of consecutive nonces starting at the smallest nonce present
RECURSIVE RunFrom(_, _)
RunFrom(s, n) == IF Slot(s, n) = {} THEN <<>> ELSE <<EntryAt(s, n)>> \o RunFrom(s, n + 1)
Heading(s) == IF NoncesOf(s) = {} THEN <<>> ELSE RunFrom(s, Min(NoncesOf(s)))

\* selectSortEIP155WithLock / sort by fee: repeatedly take the head with the highest gas price (ties: any)
RECURSIVE Merges(_)
Merges(ls) ==
    LET ne == {k \in DOMAIN ls : ls[k] # <<>>} IN
    IF ne = {} THEN {<<>>}
    ELSE LET mx == Max({Head(ls[k]).tx.gp : k \in ne})
             cands == {k \in ne : Head(ls[k]).tx.gp = mx}
         IN UNION {{<<Head(ls[k])>> \o r : r \in Merges([ls EXCEPT ![k] = Tail(ls[k])])} : k \in cands}

OntEntries == {e \in pool : ~IsEvm(e.tx)}
\* the candidate lists GetTxPool may build: EVM transactions first, then the others by fee
Ordered == {m \o o : m \in Merges([s \in EvmSenders |-> Heading(s)]),
                     o \in Merges([e \in OntEntries |-> <<e>>])}
Examined == UNION {SeqSet(Heading(s)) : s \in EvmSenders} \cup OntEntries
Fresh(q, valid) == SelectSeq(q, LAMBDA e : e.vh >= valid)
Trunc(q) == IF MaxTx > 0 /\ Len(q) > MaxTx THEN SubSeq(q, 1, MaxTx) ELSE q

(*************************** increment validator ***************************)
WinHeights(b, l) == {h \in b..(b + l) : h < b + l}
\* nonce recorded by AddBlock for sender s in the block of height h (0: none)
BlockNonce(s, h) == LET ns == {t.n : t \in {x \in SeqSet(BlockAt(h)) : IsEvm(x) /\ x.s = s}}
                    IN IF ns = {} THEN 0 ELSE Max(ns) + 1
\* Verify's cache lookup: the last block of the whole window with an entry for s
WinNonce(s, b, l) == LET hs == {h \in WinHeights(b, l) : BlockNonce(s, h) # 0}
                     IN IF hs = {} THEN 0 ELSE BlockNonce(s, Max(hs))

\* IncrementValidator.Verify applied to the sequence q with one nonceCtx; window [b, b+l), start height valid
RECURSIVE Filter(_, _, _, _, _)
Filter(q, ctx, valid, b, l) ==
    IF q = <<>> THEN <<>>
    ELSE LET t == Head(q).tx
             dup == \E h \in WinHeights(b, l) : h >= valid /\ t \in SeqSet(BlockAt(h))
         IN IF valid < b \/ dup THEN Filter(Tail(q), ctx, valid, b, l)
            ELSE IF ~IsEvm(t) THEN <<t>> \o Filter(Tail(q), ctx, valid, b, l)
            ELSE LET c0 == ctx[t.s]
                     c1 == IF c0 # 0 THEN c0
                           ELSE IF WinNonce(t.s, b, l) # 0 THEN WinNonce(t.s, b, l) ELSE NonceAt(t.s, Height)
                 IN IF t.n = c1 THEN <<t>> \o Filter(Tail(q), [ctx EXCEPT ![t.s] = t.n + 1], valid, b, l)
                                ELSE Filter(Tail(q), [ctx EXCEPT ![t.s] = c1], valid, b, l)

(******************************** actions **********************************)
Step(a) == nops < MaxOps /\ a.name \in Acts /\ nops' = nops + 1 /\ act' = a

\* AddTxList.  The stateful validator admitted t at height vh: not on chain, nonce not below the account nonce.
Submit(t, stale) ==
    LET vh == Height - stale IN
    /\ stale <= MaxStale /\ Height >= H0 + stale
    /\ t \notin TxsUpTo(vh)
    /\ IsEvm(t) => t.n >= NonceAt(t.s, vh)
    /\ LET res == IF IsEvm(t)
                  THEN IF Slot(t.s, t.n) = {} THEN "added"
                       ELSE IF t.gp > (EntryAt(t.s, t.n).tx.gp * 101) \div 100 THEN "replaced" ELSE "same-nonce"
                  ELSE IF \E e \in pool : e.tx = t THEN "duplicate" ELSE "added"
       IN /\ Step([name |-> "Submit", tx |-> t, vh |-> vh, res |-> res])
          /\ pool' = CASE res = "added" -> pool \cup {[tx |-> t, vh |-> vh]}
                       [] res = "replaced" -> (pool \ Slot(t.s, t.n)) \cup {[tx |-> t, vh |-> vh]}
                       [] OTHER -> pool
    /\ UNCHANGED <<blocks, vbase, vlen, vnext, pnext>>

RemoveBelowGas(g) ==
    /\ Step([name |-> "RemoveBelowGas", g |-> g])
    /\ pool' = {e \in pool : e.tx.gp >= g}
    /\ UNCHANGED <<blocks, vbase, vlen, vnext, pnext>>

LedgerCommit(b) ==
    /\ Height < MaxHeight
    /\ Height + 1 - vnext < MaxLag /\ Height + 1 - pnext < MaxLag
    /\ Step([name |-> "LedgerCommit", block |-> b, h |-> Height + 1])
    /\ blocks' = Append(blocks, b)
    /\ UNCHANGED <<pool, vbase, vlen, vnext, pnext>>

ValAddBlock ==
    /\ vnext <= Height
    /\ Step([name |-> "ValAddBlock", h |-> vnext])
    /\ IF vlen = 0 THEN vbase' = vnext /\ vlen' = 1
       ELSE IF vbase + vlen # vnext THEN UNCHANGED <<vbase, vlen>>          \* "discontinue block is not allowed"
       ELSE IF vlen >= MaxBlocks THEN vbase' = vbase + 1 /\ vlen' = vlen
       ELSE vbase' = vbase /\ vlen' = vlen + 1
    /\ vnext' = vnext + 1
    /\ UNCHANGED <<pool, blocks, pnext>>

\* CleanCompletedTransactionList: per EVM transaction of the block, Forward(nonce+1) of its sender's list; then by hash
PoolClean ==
    /\ pnext <= Height
    /\ Step([name |-> "PoolClean", h |-> pnext])
    /\ LET b == SeqSet(BlockAt(pnext))
           fwd(e) == IsEvm(e.tx) /\ \E t \in b : IsEvm(t) /\ t.s = e.tx.s /\ e.tx.n <= t.n
       IN pool' = {e \in pool : ~fwd(e) /\ e.tx \notin b}
    /\ pnext' = pnext + 1
    /\ UNCHANGED <<blocks, vbase, vlen, vnext>>

\* consensus stopped and started again: the window is dropped, blocks saved meanwhile are never delivered
ValReset ==
    /\ Step([name |-> "ValReset"])
    /\ vbase' = 0 /\ vlen' = 0 /\ vnext' = Height + 1
    /\ UNCHANGED <<pool, blocks, pnext>>

\* makeBlock / makeProposal for block Height+1: validHeight(), GetTxPool(true, valid), Verify with one nonceCtx
Propose ==
    LET sync == (Height + 1 = vbase + vlen)      \* the validator has seen every block of the ledger
        valid == IF sync THEN vbase ELSE Height
        b == IF sync THEN vbase ELSE 0           \* otherwise incrValidator.Clean()
        l == IF sync THEN vlen ELSE 0
        outs == {Filter(Trunc(Fresh(q, valid)), [s \in EvmSenders |-> 0], valid, b, l) : q \in Ordered}
    IN \E out \in outs :
          /\ Step([name |-> "Propose", valid |-> valid, out |-> out])
          /\ pool' = {e \in pool : ~(e \in Examined /\ e.vh < valid)}
          /\ vbase' = b /\ vlen' = l
          /\ UNCHANGED <<blocks, vnext, pnext>>

Init == /\ pool = {} /\ blocks = <<>>
        /\ vbase = 0 /\ vlen = 0 /\ vnext = H0 + 1 /\ pnext = H0 + 1
        /\ nops = 0 /\ act = [name |-> "Init"]

Next == \/ \E t \in TxU, st \in 0..MaxStale : Submit(t, st)
        \/ \E g \in {t.gp : t \in TxU} : RemoveBelowGas(g)
        \/ \E b \in BlockChoices : LedgerCommit(b)
        \/ ValAddBlock \/ PoolClean \/ ValReset \/ Propose

Spec == Init /\ [][Next]_vars

(******************************* properties ********************************)
TypeOK == /\ \A e \in pool : e.tx \in TxU /\ e.vh \in H0..Height
          /\ vnext \in (H0 + 1)..(Height + 1) /\ pnext \in (H0 + 1)..(Height + 1)
          /\ vlen <= MaxBlocks /\ (vlen > 0 => vbase > H0 /\ vbase + vlen <= Height + 1)

\* the validator window always ends with the newest block delivered to it, however often it has slid: Verify's
\* nonce cache (WinNonce) and duplicate check therefore cover the newest block (histories longer than MaxBlocks
\* exercise the sliding: configurations with MaxHeight - H0 > MaxBlocks)
WindowNewest == vlen > 0 => vbase + vlen = vnext

\* the two indexes of the pool agree: at most one entry per transaction and per (sender, nonce)
PoolOK == /\ \A e1, e2 \in pool : e1.tx = e2.tx => e1 = e2
          /\ \A e1, e2 \in pool : IsEvm(e1.tx) /\ IsEvm(e2.tx) /\ e1.tx.s = e2.tx.s /\ e1.tx.n = e2.tx.n => e1 = e2

NoncesIn(out, s) == LET q == SelectSeq(out, LAMBDA t : IsEvm(t) /\ t.s = s) IN [i \in 1..Len(q) |-> q[i].n]
ProposalOKOf(out) ==
    /\ \A i, j \in 1..Len(out) : i # j => out[i] # out[j]                      \* no duplicate hash
    /\ \A i \in 1..Len(out) : out[i] \notin TxsUpTo(Height)                     \* none already on chain
    /\ \A s \in EvmSenders : LET ns == NoncesIn(out, s)                         \* consecutive from the account nonce
                             IN \A i \in 1..Len(ns) : ns[i] = NonceAt(s, Height) + i - 1
\* C35 (a): every proposal
ProposalOK == [][act'.name = "Propose" /\ nops' # nops => ProposalOKOf(act'.out)]_vars
\* C35 (b): a replacement only with a higher gas price
ReplaceOnlyHigher == [][act'.name = "Submit" /\ nops' # nops /\ act'.res = "replaced" =>
                          \E e \in pool : e.tx.s = act'.tx.s /\ e.tx.n = act'.tx.n /\ e \notin pool' /\ act'.tx.gp > e.tx.gp]_vars

State == [pool |-> pool, blocks |-> blocks, vbase |-> vbase, vlen |-> vlen, vnext |-> vnext, pnext |-> pnext]
=============================================================================
