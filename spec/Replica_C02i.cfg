SPECIFICATION Spec
CONSTANTS
  Kinds <- KindsIntent
  NeedsWitness <- Needs
  FeeKinds <- Fees
  ParamKind = "setparam"
  MaxParam = 1
  MaxRestart = 1
  StaleGasTable = FALSE
  Variants <- ProbedVariants
  SameAddr <- ProbedSameAddr
  MaxTx = 2
  MaxBlocks = 2
  EnvKinds <- KindsEnv
  Paths <- PathsAll
  EnvFromIndex = FALSE
  LazyFromRaw = FALSE
VIEW view
INVARIANT Agreement
CHECK_DEADLOCK FALSE
