SPECIFICATION Spec
CONSTANTS
  Kinds <- KindsChain
  NeedsWitness <- Needs
  FeeKinds <- Fees
  ParamKind = "setparam"
  MaxParam = 1
  MaxRestart = 1
  StaleGasTable = FALSE
  Variants <- ProbedVariants
  SameAddr <- ProbedSameAddr
  MaxTx = 2
  MaxBlocks = 2
  LazyFromRaw = FALSE
VIEW view
INVARIANT Agreement
CHECK_DEADLOCK FALSE
