SPECIFICATION Spec
CONSTANTS
  Kinds <- KindsAll
  NeedsWitness <- Needs
  Variants <- ProbedVariants
  SameAddr <- ProbedSameAddr
  MaxTx = 2
  MaxBlocks = 2
  LazyFromRaw = FALSE
VIEW view
INVARIANT Agreement
CHECK_DEADLOCK FALSE
