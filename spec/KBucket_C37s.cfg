SPECIFICATION Spec
CONSTANTS
  IdBits <- Ids6
  LocalBits <- Local6
  K = 2
  Peers <- Peers10
  Addrs <- Addrs2
  Targets <- Targets10
  Counts <- Counts4
  MaxOps = 40
VIEW view
INVARIANTS Valid NearestOK AddrOK SizeOK
PROPERTIES RemoveGone
CONSTRAINT InitOut
ACTION_CONSTRAINT Edge
CHECK_DEADLOCK FALSE
