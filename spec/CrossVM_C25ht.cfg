SPECIFICATION HistSpec
CONSTANTS
  WideSizes = {255, 256, 1023, 1024, 1025, 2000, 4097}
  Atoms <- AtomsFull
  AtomsMid <- AtomsMid4
  AtomsDeep <- AtomsDeep2
  MaxLen = 2
  MaxNest = 24
  Repl <- ReplT
  HistValues <- HistT
  ParValues <- HistT
  MaxKept = 3
  SinkReuse = FALSE
VIEW hview
INVARIANT Stable
PROPERTIES DecodeLater CompareOK Untouched
CONSTRAINT HInitOut
ACTION_CONSTRAINT HEdge
CHECK_DEADLOCK FALSE
