\* below the new-ONT-ID fork height (version-0 key records, old methods only)
\* the property's action properties and invariants on the specification; no edge export
SPECIFICATION Spec
CONSTANTS
  Ids <- Ids3
  Keys <- Keys3
  AttrNames <- Attrs1
  MaxKeys = 2
  Groups <- Groups2
  SgSets <- SgSets4
  SignerSets <- AllSigners
  MaxOps = 2
  Acts <- ActsAll
  InitStates <- InitsPreQ
  NewOntId = FALSE
VIEW view
INVARIANTS TypeOK RevokedEmpty NoneEmpty KeysDistinct
PROPERTIES OnlyAuthorized RevokedFinal RevokedNotRegistered
CHECK_DEADLOCK FALSE
