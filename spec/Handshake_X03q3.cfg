\* generated by props/_handshake.py (table CFGS) -- do not edit by hand
SPECIFICATION Spec
CONSTANTS
  Nodes = {"A", "B", "D"}
  Conns = {"c1", "c3", "c4", "c8", "d2"}
  Cl <- ClM
  Sv <- SvM
  Eph <- EphM
  Info <- InfoM
  Pseudo <- PseudoM
  MagicOf <- MagicM
  IpOf <- IpM
  Addr <- AddrM
  Scenarios <- ScQ3
  FaultKinds <- FaultsAll
  MaxFaults = 2
  Closes = TRUE
  CheckVersion = FALSE
  MinVer = 1
  LsnCounted = FALSE
CHECK_DEADLOCK FALSE
INVARIANTS TypeOK EntryOK NoSelf OneLive Books Clean Agree FailNoEntry NoIncompat EstQuiet
PROPERTIES AdmitAtEnd
VIEW view
CONSTRAINT InitOut
ACTION_CONSTRAINT Edge
