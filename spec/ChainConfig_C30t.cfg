SPECIFICATION Spec
CONSTANTS
  Pools <- PoolsC30t
  Confs <- ConfsC30t
  Hashes <- RealHashes
  Vrfs <- NoVrfs
  ListsOf <- AllPerms
  Acts <- ActsC30
VIEW view
INVARIANTS OrderFree ConfigInv WellFormedInv DomainInv
CONSTRAINT InitOut
ACTION_CONSTRAINT Edge
CHECK_DEADLOCK FALSE
