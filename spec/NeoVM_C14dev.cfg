INIT Init
NEXT Next
CONSTANTS
  NC = 2
  MaxSlots = 2
  MaxDepth = 10
  NotifyMax = 8
  CycleCheckFirstOnly = TRUE
  HeapMode = "all"
  ChainLens = {10, 11, 12}
  WithMutations = FALSE
INVARIANTS DetectorSound AcyclicAccepted CyclicRejected Total RoundTrip DecoderTotal OrderFree

CHECK_DEADLOCK FALSE
