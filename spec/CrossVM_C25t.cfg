SPECIFICATION Spec
CONSTANTS
  WideSizes = {255, 256, 1023, 1024, 1025, 2000, 4097}
  Atoms <- AtomsFull
  AtomsMid <- AtomsMid4
  AtomsDeep <- AtomsDeep2
  MaxLen = 2
  MaxNest = 24
  Repl <- ReplT
  HistValues <- HistT
  ParValues <- HistT
  MaxKept = 3
  SinkReuse = FALSE
VIEW view
PROPERTIES RoundTrip Canonical PrefixFree WrapperOK CountOK
CONSTRAINT InitOut
ACTION_CONSTRAINT Edge
CHECK_DEADLOCK FALSE
