SPECIFICATION Spec
CONSTANTS
  Atoms <- AtomsFull
  AtomsMid <- AtomsMid4
  AtomsDeep <- AtomsDeep2
  MaxLen = 2
  MaxNest = 24
  Repl <- ReplT
VIEW view
PROPERTIES RoundTrip Canonical PrefixFree WrapperOK CountOK
CONSTRAINT InitOut
ACTION_CONSTRAINT Edge
CHECK_DEADLOCK FALSE
