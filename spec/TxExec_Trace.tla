---------------------------- MODULE TxExec_Trace ----------------------------
(* Trace validation for C05.  The log (harness TestVerifTxExec) has one event per transaction executed by the  *)
(* real executeBlock inside a real block: payer, gas price, gas limit, code-length gas, reported state and      *)
(* GasConsumed, the ONG balances of all tracked accounts afterwards and every OTHER surviving write-set change   *)
(* of the transaction (difference of the block's write set with and without it).  Scripts assembled from puts,  *)
(* approvals and a payer->SINK transfer are described to the model (w, d) and must match ExecInvoke; all other   *)
(* scripts go through ExecOpaque, which only constrains failures (the C05 statement).                            *)
EXTENDS TxExec, Json
Tr == ndJsonDeserialize("trace.ndjson")
VARIABLE l
tvars == <<vars, l>>

ToSet(s) == {s[i] : i \in DOMAIN s}
TPayers == ToSet(Tr[1].roles)
TKeys == ToSet(Tr[1].keys)
TInitOng == Tr[1].ong
TCodeGas == [n \in 0..400 |-> n]
TDummy == {0}
TVals == {"x"}

ASSUME TLCSet(1, 0)
Max(a, b) == IF a > b THEN a ELSE b
HW == TLCSet(1, Max(TLCGet(1), l))
Accepted == /\ PrintT(<<"HW", TLCGet(1) - 1>>)
            /\ TLCGet(1) = Len(Tr) + 1

Ev == Tr[l]
IsEvent(n) == l <= Len(Tr) /\ Ev.event = n /\ l' = l + 1

ValOf(v) == IF v = "deleted" THEN NoVal ELSE v
Written(other) == {other[i][1] : i \in DOMAIN other}
ApplyOther(st, other) == [k \in Keys |-> IF k \in Written(other)
                                         THEN ValOf(other[CHOOSE i \in DOMAIN other : other[i][1] = k][2]) ELSE st[k]]
WFun(w) == [k \in Keys |-> IF k \in Written(w) THEN w[CHOOSE i \in DOMAIN w : w[i][1] = k][2] ELSE UNKS]

TInit == /\ l = 2 /\ Init
TReset == /\ IsEvent("Reset")
          /\ ong' = Ev.ong /\ store' = [k \in Keys |-> NoVal] /\ cache' = EmptyCache
          /\ nops' = 0 /\ act' = [name |-> "Reset"]

Reported == act'.state = Ev.state /\ act'.gas = Ev.gas /\ ong' = Ev.ong

TKnown == /\ IsEvent("Tx") /\ Ev.known
          /\ \E e \in {"ok", "fault"} :
                ExecInvoke([payer |-> Ev.payer, price |-> Ev.price, limit |-> Ev.limit, size |-> Ev.codegas,
                            w |-> WFun(Ev.w), d |-> Ev.d, end |-> e], Ev.gas)
          /\ Reported
          /\ store' = ApplyOther(store, Ev.other)
          /\ Ev.state = "FAIL" => Ev.other = <<>>

TOpaque == /\ IsEvent("Tx") /\ ~Ev.known
           /\ ExecOpaque(Ev.payer, Ev.price, Ev.state, Ev.gas, Ev.ong, ApplyOther(store, Ev.other))
           /\ Reported
           /\ Ev.state = "FAIL" => Ev.other = <<>>

TNext == TReset \/ TKnown \/ TOpaque
TSpec == TInit /\ [][TNext]_tvars

TFailedOnlyFee == [][FailedOnlyFeeStep]_vars
TOnlyOwnWrites == [][OnlyOwnWritesStep]_vars
=============================================================================
