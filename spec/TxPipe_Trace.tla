---------------------------- MODULE TxPipe_Trace ----------------------------
(* Trace validation for X02: an NDJSON log of CONCURRENT runs of the real TXPoolServer (harness                *)
(* TestVerifTxPipeTrace: several submitter goroutines, one consensus/ledger goroutine, the server's own        *)
(* response loop and validator pools) must be a behaviour of TxPipe.  The log holds observable points only:    *)
(* calls and returns.  An operation takes effect somewhere between its call and its return; the deliveries of  *)
(* validator responses are hidden steps.  The actor-side requests are split at their critical sections here:   *)
(*   getTxPool            = TXPool.GetTxPool (answer, expired entries taken out)  ; reVerifyStateful per entry *)
(*   cleanTransactionList = CleanCompletedTransactionList ; Remain() ; preExecCheck + reVerifyStateful per tx  *)
(* so that a submission or a validator response may fall between them (a transaction that is, for a moment,    *)
(* neither in the pool nor pending).                                                                           *)
EXTENDS TxPipe_MC
Tr == ndJsonDeserialize("trace.ndjson")
VARIABLES l,        \* next event
          ops,      \* operations called and not yet returned: id -> [st, ...]
          outbox,   \* answers produced by the model and not yet seen in the log: bag as set of [tx, err, n]
          actor     \* what the consensus-side goroutine still has to do inside its current request
tvars == <<vars, l, ops, outbox, actor>>
tview == <<view, l, ops, outbox, actor>>

Hd == Tr[1]
TCap == Hd.cap
TLim == Hd.lim
TMaxTx == Hd.maxtx
TPreExec == Hd.preexec
TH0 == Hd.h0
TMaxH == Hd.maxh
TInv == Hd.inverted
TCta == Hd.checkthenact
TSor == Hd.slotoverreturn
TSld == Hd.slotlostondup

ASSUME TLCSet(1, 0)
Max2(a, b) == IF a > b THEN a ELSE b
HW == TLCSet(1, Max2(TLCGet(1), l))
Accepted == /\ PrintT(<<"HW", TLCGet(1) - 1>>)
            /\ TLCGet(1) = Len(Tr) + 1

Ev == Tr[l]
IsEvent(n) == l <= Len(Tr) /\ Ev.e = n /\ l' = l + 1
Idle == [ph |-> "idle"]

\* ------------------------------------------------------------------ answers
SameR(B, t, e) == {b \in B : b.tx = t /\ b.err = e}
RECURSIVE BoxAdd(_, _)
BoxAdd(B, q) == IF q = <<>> THEN B
                ELSE LET r == Head(q)
                         s == SameR(B, r.tx, r.err)
                         B2 == IF s = {} THEN B \cup {[tx |-> r.tx, err |-> r.err, n |-> 1]}
                               ELSE LET b == CHOOSE c \in s : TRUE IN (B \ {b}) \cup {[b EXCEPT !.n = b.n + 1]}
                     IN BoxAdd(B2, Tail(q))
BoxTake(B, b) == IF b.n = 1 THEN B \ {b} ELSE (B \ {b}) \cup {[b EXCEPT !.n = b.n - 1]}

\* ------------------------------------------------------------------ hidden steps: the server's response loop
HDeliver == /\ \/ \E f \in fly : DeliverSL(f)
               \/ \E f \in fly : \E h \in TH0..Height : \E hc \in h..Height : DeliverSF2(f, h, hc)
            /\ outbox' = BoxAdd(outbox, act'.replies)
            /\ UNCHANGED <<l, ops, actor>>

\* ------------------------------------------------------------------ operations taking effect
Called(k) == {id \in DOMAIN ops : ops[id].k = k /\ ops[id].st = "called"}
Done(id, res) == ops' = [ops EXCEPT ![id] = [@ EXCEPT !.st = "done"] @@ res]

PSubmit == \E id \in Called("sub") : \E st \in BOOLEAN :
              /\ Submit(ops[id].tx, ops[id].kind, st)
              /\ outbox' = BoxAdd(outbox, act'.replies)
              /\ Done(id, <<>>)
              /\ UNCHANGED <<l, actor>>

PVerify == \E id \in Called("ver") :
              /\ actor = Idle
              /\ VerifyBlock(ops[id].list, ops[id].h)
              /\ Done(id, [err |-> act'.err])
              /\ UNCHANGED <<l, outbox, actor>>

PSave == \E id \in Called("save") :
              /\ actor = Idle
              /\ LedgerSave(ops[id].block)
              /\ Done(id, <<>>)
              /\ UNCHANGED <<l, outbox, actor>>

\* getTxPool, first critical section: TXPool.GetTxPool
PGet == \E id \in Called("get") :
          LET h == ops[id].h
              bc == ops[id].bc
              total == Cardinality(pool)
              count == IF MaxTx > 0 /\ bc /\ MaxTx <= total THEN MaxTx ELSE total
              fresh == SelectSeq(ByFee(pool), LAMBDA e : e.vh >= h)
              ans == SubSeq(fresh, 1, Min2(count, Len(fresh)))
              old == {e \in pool : e.vh < h}
          IN /\ actor = Idle
             /\ sheight' = h /\ pool' = pool \ old
             /\ actor' = [ph |-> "rev", id |-> id, q |-> {e.tx : e \in old}, pre |-> FALSE]
             /\ ops' = [ops EXCEPT ![id] = [@ EXCEPT !.st = "run"] @@ [ans |-> ans]]
             /\ act' = [name |-> "GetTxPool", replies |-> <<>>]
             /\ UNCHANGED <<chain, pnext, pend, fly, slots, l, outbox>>

\* cleanTransactionList, first critical section: CleanCompletedTransactionList
PClean == \E id \in Called("bs") :
            LET b == chain[pnext - H0] IN
            /\ actor = Idle /\ pnext <= Height /\ ops[id].h = pnext
            /\ pool' = {e \in pool : HashOf[e.tx] \notin HashesOf(b)}
            /\ actor' = [ph |-> "remain", id |-> id, redo |-> (PreExec /\ Len(b) # 0)]
            /\ ops' = [ops EXCEPT ![id] = [@ EXCEPT !.st = "run"]]
            /\ pnext' = pnext + 1
            /\ act' = [name |-> "BlockSaved", replies |-> <<>>]
            /\ UNCHANGED <<chain, pend, fly, sheight, slots, l, outbox>>

\* second: Remain() takes everything out of the pool
PRemain == /\ actor.ph = "remain"
           /\ IF actor.redo THEN /\ pool' = {}
                                 /\ actor' = [ph |-> "rev", id |-> actor.id, q |-> {e.tx : e \in pool}, pre |-> TRUE]
                            ELSE /\ actor' = [ph |-> "rev", id |-> actor.id, q |-> {}, pre |-> TRUE]
                                 /\ UNCHANGED pool
           /\ act' = [name |-> "Remain", replies |-> <<>>]
           /\ UNCHANGED <<chain, pnext, pend, fly, sheight, slots, l, ops, outbox>>

\* then, one transaction at a time: (preExecCheck and) reVerifyStateful
PRevOne == /\ actor.ph = "rev"
           /\ \E t \in actor.q :
                 /\ actor' = [actor EXCEPT !.q = @ \ {t}]
                 /\ IF (actor.pre /\ ~Payable(t)) \/ IsPend(HashOf[t])
                    THEN UNCHANGED <<pend, fly>>
                    ELSE pend' = pend \cup {RevEnt(t)} /\ fly' = FlyPut(fly, "SF", t, Height)
           /\ act' = [name |-> "RevOne", replies |-> <<>>]
           /\ UNCHANGED <<chain, pnext, pool, sheight, slots, l, ops, outbox>>

PRevEnd == /\ actor.ph = "rev" /\ actor.q = {}
           /\ actor' = Idle
           /\ ops' = [ops EXCEPT ![actor.id] = [@ EXCEPT !.st = "done"]]
           /\ UNCHANGED <<vars, l, outbox>>

\* ------------------------------------------------------------------ events
NoOp(id) == id \notin DOMAIN ops
Drop(id) == ops' = [i \in DOMAIN ops \ {id} |-> ops[i]]
Keep == UNCHANGED <<vars, outbox, actor>>

EReset == /\ IsEvent("Reset")
          /\ chain' = <<>> /\ pnext' = H0 + 1 /\ pool' = {} /\ pend' = {} /\ fly' = {}
          /\ sheight' = 0 /\ slots' = Lim /\ act' = [name |-> "Init", replies |-> <<>>]
          /\ ops' = <<>> /\ outbox' = {} /\ actor' = Idle

ECall == \/ /\ IsEvent("SubCall") /\ ops' = ops @@ (Ev.id :> [k |-> "sub", st |-> "called", tx |-> Ev.tx, kind |-> Ev.kind]) /\ Keep
         \/ /\ IsEvent("GetCall") /\ ops' = ops @@ (Ev.id :> [k |-> "get", st |-> "called", bc |-> Ev.bc, h |-> Ev.h]) /\ Keep
         \/ /\ IsEvent("VerCall") /\ ops' = ops @@ (Ev.id :> [k |-> "ver", st |-> "called", list |-> Ev.list, h |-> Ev.h]) /\ Keep
         \/ /\ IsEvent("SaveCall") /\ ops' = ops @@ (Ev.id :> [k |-> "save", st |-> "called", block |-> Ev.block]) /\ Keep
         \/ /\ IsEvent("BsCall") /\ ops' = ops @@ (Ev.id :> [k |-> "bs", st |-> "called", h |-> Ev.h]) /\ Keep

ERet == \/ /\ IsEvent("SubRet") /\ Ev.id \in DOMAIN ops /\ ops[Ev.id].st = "done"
           /\ \E b \in SameR(outbox, Ev.tx, Ev.err) : outbox' = BoxTake(outbox, b)
           /\ Drop(Ev.id) /\ UNCHANGED <<vars, actor>>
        \/ /\ IsEvent("GetRet") /\ Ev.id \in DOMAIN ops /\ ops[Ev.id].st = "done"
           /\ ops[Ev.id].ans = Ev.ans
           /\ Drop(Ev.id) /\ Keep
        \/ /\ IsEvent("VerRet") /\ Ev.id \in DOMAIN ops /\ ops[Ev.id].st = "done"
           /\ ops[Ev.id].err = Ev.err
           /\ Drop(Ev.id) /\ Keep
        \/ /\ IsEvent("SaveRet") /\ Ev.id \in DOMAIN ops /\ ops[Ev.id].st = "done" /\ Drop(Ev.id) /\ Keep
        \/ /\ IsEvent("BsRet") /\ Ev.id \in DOMAIN ops /\ ops[Ev.id].st = "done" /\ Drop(Ev.id) /\ Keep

TInit == /\ l = 2 /\ Init /\ ops = <<>> /\ outbox = {} /\ actor = Idle
TNext == \/ EReset \/ ECall \/ ERet
         \/ HDeliver \/ PSubmit \/ PVerify \/ PSave \/ PGet \/ PClean \/ PRemain \/ PRevOne \/ PRevEnd
TSpec == TInit /\ [][TNext]_tvars
=============================================================================
