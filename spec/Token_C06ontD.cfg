SPECIFICATION Spec
CONSTANTS
  Users <- U2
  OC <- OCv
  ActTokens <- TOnt
  SF = 2
  AmtsV1 <- AV1q
  AmtsV2 <- AV2q
  Huge <- HugeV
  SignerSets <- Sig2
  FromOC = FALSE
  MaxStates = 1
  Phases <- PPre
  GrantChoices <- NoGrant
  InitBal <- Bal2
  InitAllow <- Allow2
  MaxOps = 3
VIEW view
INVARIANTS TypeOK NonNeg Conserved
PROPERTIES DebitAuthorized AllowanceRespected FailedCallIsNoOp CrossToken
CHECK_DEADLOCK FALSE
CONSTRAINT InitOut
ACTION_CONSTRAINT Edge
