---------------------------- MODULE SigEpoch_MC ----------------------------
EXTENDS SigEpoch, Json
\* sync: peers A..E = 1..5; genesis {A,B,C,D}; a later set retires D for E
GenS == {1, 2, 3, 4}
SetsS == {{1, 2, 3, 5}}
SignersS == {{1, 2, 3}, {1, 2, 4}, {1, 2, 5}, {1, 2, 3, 4}, {1, 2, 3, 5}}
\* ledger: members 1..4, outsiders 5..8
GenL == {1, 2, 3, 4}
SetsL == {{1, 2, 3, 4}, {5, 6, 7, 8}}
SignersL == {{1, 2, 3}, {5, 6, 7}}
H3 == 1..3
StepT(s) == <<s.op, s.h.height, s.h.signers, s.h.cfg, s.h.lastcfg, s.acc, s.ok, s.stale>>
\* one row per maximal history (its prefixes are contained in it)
RowOut == (Len(hist) = MaxSteps) => PrintT(<<"ROW", ToJson([i \in DOMAIN hist |-> StepT(hist[i])])>>)
=============================================================================
