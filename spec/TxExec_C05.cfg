SPECIFICATION Spec
CONSTANTS
  Payers <- PayersV
  GOV = "GOV"
  SINK = "SINK"
  Keys <- KeysV
  Vals <- ValsV
  Prices <- PricesV
  Limits <- LimitsV
  MinGas = 2
  CodeGasOf <- CodeGasV
  Fees <- FeesV
  InitOng <- InitOngV
  ResetBeforeTx = TRUE
  MaxOps = 2
VIEW view
INVARIANTS TypeOK NonNeg Conserved
PROPERTIES FailedOnlyFee OnlyOwnWrites GasOnlyIfPriced
CHECK_DEADLOCK FALSE
CONSTRAINT InitOut
ACTION_CONSTRAINT Edge
