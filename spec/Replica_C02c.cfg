SPECIFICATION Spec
CONSTANTS
  Kinds <- KindsAll
  NeedsWitness <- Needs
  Variants <- QuickVariants
  SameAddr <- ProbedSameAddr
  MaxTx = 1
  MaxBlocks = 3
  LazyFromRaw = TRUE
VIEW view
CONSTRAINT InitOut
ACTION_CONSTRAINT Edge
CHECK_DEADLOCK FALSE
