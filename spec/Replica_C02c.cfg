SPECIFICATION Spec
CONSTANTS
  Kinds <- KindsChain
  NeedsWitness <- Needs
  FeeKinds <- Fees
  ParamKind = "setparam"
  MaxParam = 1
  MaxRestart = 1
  StaleGasTable = FALSE
  Variants <- ChainVariants
  SameAddr <- ProbedSameAddr
  MaxTx = 1
  MaxBlocks = 3
  EnvKinds <- KindsEnv
  Paths <- PathsOne
  EnvFromIndex = FALSE
  LazyFromRaw = TRUE
VIEW view
CONSTRAINT InitOut
ACTION_CONSTRAINT Edge
CHECK_DEADLOCK FALSE
