------------------------------- MODULE Quorum -------------------------------
(* C28 -- BFT quorum thresholds of ontio/ontology and their intersection property.

   Closed forms (the formulas the Go code uses; the CODE's thresholds are not transcribed from here but extracted by
   probing the real functions -- see props/C28.py -- and compared with these forms by TLC):
     Q(N)        = N - (N-1) div 3   core/validation VerifyBlock (over the listed bookkeepers), types.AddressFromBookkeepers,
                                     consensus/vbft getCommitConsensus / BlockPool.commitDone / Server.CheckSubmitBlock
     EndorseT(C) = C + 1             BlockPool.endorseDone
     HdrSigs(N)  = N - 6N div 7      LedgerStoreImp.verifyHeader: number of signatures that are verified
     HdrListed   = max(HdrSigs, C+1) LedgerStoreImp.verifyHeader: number of distinct member bookkeepers that must be listed

   Intersect(T1,T2,N,C): two signer sets of sizes >= T1, >= T2 out of N peers share at least C+1 peers, i.e. at least one
   peer outside any set of C faulty peers.  HonestWitness(T,C): one signer set of size >= T contains a peer outside any
   set of C faulty peers. *)
EXTENDS Integers

Q(n) == n - ((n - 1) \div 3)
EndorseT(c) == c + 1
HdrSigs(n) == n - ((6 * n) \div 7)
Max2(a, b) == IF a >= b THEN a ELSE b
HdrListed(n, c) == Max2(HdrSigs(n), c + 1)

Admissible(n, c) == c >= 0 /\ n >= 3 * c + 1
Intersect(t1, t2, n, c) == t1 + t2 - n >= c + 1
HonestWitness(t, c) == t - c >= 1
=============================================================================
