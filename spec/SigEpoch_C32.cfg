SPECIFICATION Spec
CONSTANTS
  Which = "ledger"
  MaxSteps = 3
  Genesis <- GenL
  PeerSets <- SetsL
  SignerSets <- SignersL
  Heights <- H3
  C = 1
  SkipLowerKeyHeight = FALSE
  StoreBeforeCheck = FALSE
  TrustsHeaderLastConfig = FALSE
INVARIANTS EpochSound
CONSTRAINT RowOut
CHECK_DEADLOCK FALSE
