---------------------------- MODULE SigEntry_MC ----------------------------
EXTENDS SigEntry, Json
Q == C + 1
Outsider == N + 1
\* the signature sections (SigHeader's classes, one representative each), relative to the hash of the object they ride on
SecDefMC(name) ==
    CASE name = "quorum"    -> [bk |-> [i \in 1..Q |-> i],     sigs |-> [i \in 1..Q |-> Good(i)]]          \* C+1 members signed
      [] name = "quorum2"   -> [bk |-> [i \in 1..Q |-> i + 1], sigs |-> [i \in 1..Q |-> Good(i + 1)]]      \* ... other C+1 members
      [] name = "fewsigs"   -> [bk |-> [i \in 1..Q |-> i],     sigs |-> [i \in 1..Q |-> IF i < Q THEN Good(i) ELSE Garbage]]
      [] name = "fewlisted" -> [bk |-> [i \in 1..C |-> i],     sigs |-> [i \in 1..C |-> Good(i)]]          \* only C members
      [] name = "outsider"  -> [bk |-> <<Outsider>>,           sigs |-> <<Good(Outsider)>>]                \* one non-member key
      [] name = "outsiders" -> [bk |-> [i \in 1..Q |-> IF i = 1 THEN Outsider ELSE i], sigs |-> [i \in 1..Q |-> IF i = 1 THEN Good(Outsider) ELSE Good(i)]]
      [] name = "dup"       -> [bk |-> [i \in 1..Q |-> 1],     sigs |-> [i \in 1..Q |-> Good(1)]]          \* one member, C+1 times
      [] name = "stale"     -> [bk |-> [i \in 1..Q |-> i],     sigs |-> [i \in 1..Q |-> Stale(i)]]         \* signatures over another hash
      [] name = "unsigned"  -> [bk |-> [i \in 1..Q |-> i],     sigs |-> <<>>]                              \* listed, nobody signed
      [] name = "empty"     -> [bk |-> <<>>,                   sigs |-> <<>>]
AllSections == {"quorum", "quorum2", "fewsigs", "fewlisted", "outsider", "outsiders", "dup", "stale", "unsigned", "empty"}
QuickSections == {"quorum", "quorum2", "fewsigs", "outsider", "dup", "empty"}
Batch3 == {"quorum", "fewsigs", "outsider"}
IdsAB == {"a", "b"}
NoSkip == {}
SkipAddBlock == {"AddBlock"}
SkipSubmitBlock == {"SubmitBlock"}

SigT(sg) == [j \in DOMAIN sg |-> <<sg[j].kind, sg[j].by>>]
\* one SEC line per section: what it is, the model's verdict, the property's judgement
SecOut == (TLCGet("level") = 1) =>
              /\ PrintT(<<"INIT", ToJson(State)>>)
              /\ \A s \in Sections \cup BatchSections :
                     PrintT(<<"ROW", ToJson(<<"SEC", s, SecDefMC(s).bk, SigT(SecDefMC(s).sigs), SectionAccept(SecDefMC(s)), SectionOK(SecDefMC(s))>>)>>)
Edge == PrintT(<<"EDGE", ToJson([from |-> State, act |-> act', to |-> State'])>>)
=============================================================================
