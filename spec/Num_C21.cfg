SPECIFICATION Spec
CONSTANTS
  Calls <- CallsQ
PROPERTIES AllCallsOK
ACTION_CONSTRAINT Row
CHECK_DEADLOCK FALSE
