----------------------------- MODULE KVStack_MC -----------------------------
EXTENDS KVStack, Json
\* key universe for C03/C04: "a" < "ab" < "b"  (1 = 'a', 2 = 'b')
KeySeq3 == << <<1>>, <<1, 2>>, <<2>> >>
\* key universe for C44: contracts A=<<1>>, B=<<2>>; storage keys "", "a", "ab" under each
KeySeqC == << <<1>>, <<1, 1>>, <<1, 2>>, <<2>>, <<2, 1>>, <<2, 2>> >>
ContractsC == { <<1>>, <<2>> }
NoContracts == {}
Vals1 == {"x"}
Vals2 == {"x", "y"}
\* values of different lengths: the memdb keeps records in an append-only buffer, so overwriting with a
\* longer/shorter value takes different code paths than a same-size overwrite
Vals3 == {"x", "yyyy", "zzzzzzz"}
ValsL == {"x", "yyyy"}
ActsC04 == {"CachePut", "CacheDelete", "CacheCommit", "CacheReset", "OvlCommit"}
\* OvlCommit + non-empty initial disks: a block may rewrite exactly the value an earlier block persisted
ActsC03 == {"OvlPut", "OvlDelete", "OvlCommit"}
ActsC44 == {"ContractPut", "CacheCommit", "CacheReset", "OvlCommit", "Migrate", "Destroy", "Deploy", "DeployRefused", "MarkDestroyed", "PutRefused"}
\* ledger-level binding (transactions = runs of contract actions closed by CacheCommit/CacheReset, blocks = OvlCommit)
ActsC44n == {"ContractPut", "CacheCommit", "CacheReset", "OvlCommit", "Migrate", "Destroy", "Deploy", "DeployRefused", "MarkDestroyed", "PutRefused"}
DiskAll3 == [1..3 -> {"", "x"}]
DiskEmpty3 == {[i \in 1..3 |-> ""]}
DiskEmpty6 == {[i \in 1..6 |-> ""]}

Edge == PrintT(<<"EDGE", ToJson([from |-> State, act |-> act', to |-> State'])>>)
InitOut == (TLCGet("level") = 1) => PrintT(<<"INIT", ToJson(State)>>)
=============================================================================
