SPECIFICATION Spec
CONSTANTS
  Atoms <- AtomsFull
  AtomsMid <- AtomsMid3
  AtomsDeep <- AtomsDeep1
  MaxLen = 2
  MaxNest = 12
  Repl <- ReplQ
VIEW view
PROPERTIES RoundTrip Canonical PrefixFree WrapperOK CountOK
CONSTRAINT InitOut
ACTION_CONSTRAINT Edge
CHECK_DEADLOCK FALSE
