SPECIFICATION Spec
CONSTANTS
  KeyLists <- ListsQ
  Thresholds <- Thr
  RawLen = 5
  Alphabet <- AlphaQ
  AgainLists <- AgainL
  AgainThr <- AgainT
  MaxHeld = 2
INVARIANTS HeldStable RoundTrip OrderFree BuildRejectsInvalid BuildAcceptsValid ParseRejectsInvalid
ACTION_CONSTRAINT Edge
CHECK_DEADLOCK FALSE
