SPECIFICATION Spec
CONSTANTS
  KeyLists <- ListsQ
  Thresholds <- Thr
  RawLen = 5
  Alphabet <- AlphaQ
INVARIANTS RoundTrip OrderFree BuildRejectsInvalid BuildAcceptsValid ParseRejectsInvalid
ACTION_CONSTRAINT Edge
CHECK_DEADLOCK FALSE
