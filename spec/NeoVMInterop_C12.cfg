SPECIFICATION Spec
CONSTANTS
  Modes <- BothModes
  Apis <- BothApis
  ContractView = "committed"
  NilOnAbsent <- NoDeviation
VIEW view
INVARIANTS TypeOK Total NoNilHandle HandleRefOK Defined
CONSTRAINT InitOut
ACTION_CONSTRAINT Edge
CHECK_DEADLOCK FALSE
