SPECIFICATION Spec
CONSTANTS
  Modes <- BothModes
  Apis <- BothApis
  ContractView = "committed"
  LedgerOnce = TRUE
  NilOnAbsent <- NoDeviation
VIEW view
INVARIANTS TypeOK Total NoNilHandle HandleRefOK Defined NilOnlyByDeviation
CHECK_DEADLOCK FALSE
