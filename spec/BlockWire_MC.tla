---------------------------- MODULE BlockWire_MC ----------------------------
(* Model-checking configuration of BlockWire.  BlockWire_Tab is written by props/C20.py: raw transactions, the       *)
(* public-key encodings probed by the harness, and the merkle roots of all index lists (independent sha256 tree).    *)
EXTENDS BlockWire, Json, BlockWire_Tab, Integers

MaxTx == 1048576
TxTabMC == [i \in 1..Len(TxRaws) |-> DecTx(TxRaws[i], 0, MaxTx).hashterm]
ASSUME \A i \in 1..Len(TxRaws) : LET d == DecTx(TxRaws[i], 0, MaxTx) IN d.ok /\ d.end = Len(TxRaws[i])

Ramp(n, s) == [i \in 1..n |-> (s + i) % 256]
LE32(n) == <<n % 256, (n \div 256) % 256, 0, 0>>
BumpByte(bs, j) == [i \in 1..Len(bs) |-> IF i = j THEN (bs[i] + 1) % 256 ELSE bs[i]]
\* header value: the 9 unsigned fields, raw key encodings, signatures
Hd(root, keys, sigs) == [f |-> <<<<0, 0, 0, 0>>, Ramp(32, 1), root, Ramp(32, 3), <<4, 3, 2, 1>>, <<7, 0, 0, 0>>, Ramp(8, 9), <<1, 2>>, Ramp(20, 5)>>,
                         keys |-> keys, sigs |-> sigs]
\* chunks: so that mutations can address length prefixes
LenChunk(n) == [t |-> "len", b |-> EncVarUint(LenAs8(n))]
Fix(bs) == [t |-> "fix", b |-> bs]
VB(bs) == <<LenChunk(Len(bs)), Fix(bs)>>
ListChunks(vals) == <<LenChunk(Len(vals))>> \o Concat([i \in 1..Len(vals) |-> VB(vals[i])])
HdChunks(hd) == [i \in 1..7 |-> Fix(hd.f[i])] \o VB(hd.f[8]) \o <<Fix(hd.f[9])>> \o ListChunks(hd.keys) \o ListChunks(hd.sigs)
BlockChunks(hd, idx) == HdChunks(hd) \o <<Fix(LE32(Len(idx)))>> \o [i \in 1..Len(idx) |-> Fix(TxRaws[idx[i]])]
Bytes(chs) == Concat([i \in 1..Len(chs) |-> chs[i].b])
Widen(b, form) == LET v == IF Len(b) = 1 THEN <<b[1]>> ELSE Tail(b) IN
                  <<IF form = 3 THEN 253 ELSE IF form = 5 THEN 254 ELSE 255>> \o Pad(v, form - 1)
SetChunk(chs, k, b) == [i \in 1..Len(chs) |-> IF i = k THEN [t |-> chs[i].t, b |-> b] ELSE chs[i]]

K1 == CanonKeys[1]
S1 == <<<<1, 2, 3>>>>
Blk(rootidx, idx) == Bytes(BlockChunks(Hd(RootTab[rootidx], <<K1>>, S1), idx))
Case(kind, raw, expect) == [kind |-> kind, raw |-> raw, expect |-> expect]

NT == Len(TxRaws)
ValidLists == {<<>>, <<1>>, <<2, 1>>, <<1, 2, 3>>, <<3, 1, 2>>} \cup (IF NT >= 4 THEN {<<1, 2, 3, 4>>, <<4>>} ELSE {})
SigEdit(raw) == SubSeq(raw, 1, Len(raw) - 1) \o <<1, 1, 9, 0>>     \* a transaction without signatures gets one (same hash)
ListCases ==
    {Case("valid", Blk(l, l), "accept") : l \in ValidLists}
    \cup {Case("trailing-bytes", Blk(l, l) \o <<0, 1>>, "accept") : l \in {<<>>, <<1, 2, 3>>}}
    \cup {Case("reordered", Blk(<<1, 2, 3>>, l), "reject") : l \in {<<2, 1, 3>>, <<1, 3, 2>>, <<3, 2, 1>>}}
    \cup {Case("dropped", Blk(<<1, 2, 3>>, l), "reject") : l \in {<<1, 2>>, <<2, 3>>, <<1, 3>>, <<>>}}
    \cup {Case("added", Blk(<<1, 2>>, <<1, 2, 3>>), "reject"), Case("added", Blk(<<>>, <<1>>), "reject")}
    \cup {Case("replaced", Blk(<<1, 2, 3>>, <<1, 2, 1>>), "reject"), Case("replaced", Blk(<<1, 2>>, <<1, 3>>), "reject")}
    \* duplicated transactions: with the root of the duplicated list, and with the root of the list without the
    \* repeated last element (equal roots by construction of the tree)
    \cup {Case("duplicated", Blk(l, l), "reject") : l \in {<<1, 1>>, <<1, 2, 2>>, <<1, 2, 1>>, <<1, 2, 3, 3>>}}
    \cup {Case("duplicated-last-same-root", Blk(<<1, 2, 3>>, <<1, 2, 3, 3>>), "reject"), Case("duplicated-last-same-root", Blk(<<1>>, <<1, 1>>), "reject")}
    \cup {Case("tx-unsigned-edit", Bytes(SetChunk(BlockChunks(Hd(RootTab[<<1, 2>>], <<K1>>, S1), <<1, 2>>), Len(BlockChunks(Hd(RootTab[<<1, 2>>], <<K1>>, S1), <<1, 2>>)),
                                                   BumpByte(TxRaws[2], 3))), "reject"),
          Case("tx-signature-edit", Bytes(SetChunk(BlockChunks(Hd(RootTab[<<1, 2>>], <<K1>>, S1), <<1, 2>>), Len(BlockChunks(Hd(RootTab[<<1, 2>>], <<K1>>, S1), <<1, 2>>)),
                                                   SigEdit(TxRaws[2]))), "accept")}
    \cup {Case("tx-count", Bytes(SetChunk(BlockChunks(Hd(RootTab[<<1, 2>>], <<K1>>, S1), <<1, 2>>), Len(HdChunks(Hd(RootTab[<<1, 2>>], <<K1>>, S1))) + 1, c)), "reject")
            : c \in {LE32(1), LE32(3), <<2, 0, 1, 0>>, <<255, 255, 255, 255>>, LE32(0)}}

HeaderCases(PrefixStep) ==
    LET l == <<1, 2>>
        hd == Hd(RootTab[l], <<K1>>, S1)
        chs == BlockChunks(hd, l)
        e == Bytes(chs)
    IN {Case("header-field-edit", Bytes(SetChunk(chs, k, BumpByte(chs[k].b, 1))), IF k = 3 THEN "reject" ELSE "accept") : k \in {1, 2, 3, 4, 5, 6, 7, 9, 10}}
       \cup {Case("signature-list-edit", Bytes(BlockChunks(Hd(RootTab[l], ks, ss), l)), "accept")
               : ks \in {<<>>, <<K1>>, <<K1, K1>>} \cup (IF Len(CanonKeys) > 1 THEN {<<CanonKeys[2], K1>>} ELSE {}), ss \in {<<>>, <<<<9>>>>, <<<<1, 2, 3>>, <<>>>>}}
       \cup UNION {{Case("non-minimal-length", Bytes(SetChunk(chs, k, Widen(chs[k].b, form))), "reject") : form \in {3, 5, 9}}
                     : k \in {j \in 1..Len(chs) : chs[j].t = "len"}}
       \cup {Case("truncated", SubSeq(e, 1, k), "reject") : k \in {j \in 0..(Len(e) - 1) : j % PrefixStep = 0 \/ j > Len(e) - 3}}
       \cup {Case("bookkeeper-key-invalid", Bytes(BlockChunks(Hd(RootTab[l], <<k>>, S1), l)), "reject") : k \in BadKeys}
       \cup {Case("bookkeeper-key-alternative-encoding", Bytes(BlockChunks(Hd(RootTab[l], <<k>>, S1), l)), "accept") : k \in {a \in DOMAIN KeyTabGen : KeyTabGen[a] # a}}
BigCount(hi) == <<255, 1, 0, 0, 0, 0, 0, 0, hi>>
CountCases ==
    LET l == <<1>>
        hd == Hd(RootTab[l], <<>>, <<>>)
        un == Bytes([i \in 1..7 |-> Fix(hd.f[i])] \o VB(hd.f[8]) \o <<Fix(hd.f[9])>>)
        tail == LE32(1) \o TxRaws[1]
    IN {Case("bookkeeper-count-ge-2^63", un \o BigCount(hi) \o <<0>> \o tail, IF CountAsInt THEN "accept" ELSE "reject") : hi \in {128, 255}}
       \cup {Case("sig-count-ge-2^63", un \o <<0>> \o BigCount(hi) \o tail, IF CountAsInt THEN "accept" ELSE "reject") : hi \in {128, 255}}
       \cup {Case("count-huge", un \o BigCount(127) \o <<0>> \o tail, "reject"), Case("count-huge", un \o <<0>> \o <<254, 0, 0, 0, 1>> \o tail, "reject")}

CasesFor(PrefixStep) == ListCases \cup HeaderCases(PrefixStep) \cup CountCases
CasesQ == CasesFor(9)
CasesT == CasesFor(1)

Row == PrintT(<<"ROW", ToJson([call |-> [kind |-> call'.kind, raw |-> call'.raw, expect |-> call'.expect],
                               res |-> IF res'.v = "reject" THEN [v |-> "reject", err |-> res'.err, n |-> 0, hashlen |-> 0, idx |-> <<>>, reencok |-> TRUE, reenc |-> <<>>]
                                       ELSE [v |-> "accept", err |-> "", n |-> res'.n, hashlen |-> Len(res'.hashterm), idx |-> res'.idx,
                                             reencok |-> res'.reenc = SubSeq(call'.raw, 1, res'.n),
                                             reenc |-> IF res'.reenc = SubSeq(call'.raw, 1, res'.n) THEN <<>> ELSE res'.reenc]])>>)
=============================================================================
