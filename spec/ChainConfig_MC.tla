--------------------------- MODULE ChainConfig_MC ---------------------------
(* Model-checking instances of ChainConfig: input spaces for C29 / C30 and the edge export. *)
EXTENDS ChainConfig, Json, ChainConfig_Hash

\* peer universe: key rank k (order of the public-key strings)  ->  peer index (deliberately not monotone)
IdxOf == <<3, 1, 4, 2, 7, 5, 6, 9, 8, 10>>
PoolOf(f) == {[idx |-> IdxOf[k], key |-> k, stake |-> f[k]] : k \in DOMAIN f}
AllPools(n, stakeVals) == {PoolOf(f) : f \in [1..n -> stakeVals]}

\* stake shape classes (equal / one dominant / zeros / staircase / ties at the top-K cut)
Shapes5 == { <<1,1,1,1,1>>, <<9,1,1,1,1>>, <<0,0,0,0,0>>, <<0,0,4,0,1>>, <<5,4,3,2,1>>, <<2,2,7,2,2>> }
Shapes6 == { <<1,1,1,1,1,1>>, <<1,6,1,0,3,3>>, <<0,0,0,0,0,2>>, <<3,3,3,3,1,1>> }
Shapes7 == { <<1,1,1,1,1,1,1>>, <<9,1,1,1,1,1,1>>, <<0,0,0,0,0,0,5>>, <<7,6,5,4,3,2,1>>, <<3,3,3,1,1,0,0>>,
             <<0,0,0,0,0,0,0>>, <<2,5,2,5,2,5,2>> }
Shapes8 == { <<4,4,4,4,4,4,4,4>>, <<1,2,3,4,4,3,2,1>>, <<0,0,0,9,0,0,0,1>> }
Shapes10 == { <<1,1,1,1,1,1,1,1,1,1>>, <<10,9,8,7,6,5,4,3,2,1>>, <<0,0,0,0,8,0,0,0,0,1>>, <<5,5,5,5,5,1,1,1,1,1>> }

\* ---- C30 input spaces
Shapes6q == { <<1,6,1,0,3,3>>, <<3,3,3,3,1,1>> }
PoolsC30q == AllPools(4, {0, 1, 3}) \cup {PoolOf(f) : f \in Shapes5 \cup Shapes6q}
ConfsC30q == {[K |-> 4, L |-> 8, C |-> 1], [K |-> 4, L |-> 16, C |-> 1]}
PoolsC30t == AllPools(4, {0, 1, 2, 5}) \cup AllPools(5, {0, 2}) \cup {PoolOf(f) : f \in Shapes5 \cup Shapes6}
ConfsC30t == {[K |-> 4, L |-> 8, C |-> 1], [K |-> 4, L |-> 16, C |-> 1], [K |-> 4, L |-> 32, C |-> 1]}
\* K = 7 of 7 / 4 of 7, every permutation (thorough)
Shapes7u == { <<1,1,1,1,1,1,1>>, <<7,6,5,4,3,2,1>>, <<3,3,3,1,1,0,0>>, <<2,5,2,5,2,5,2>> }
PoolsC30u == {PoolOf(f) : f \in Shapes7u}
ConfsC30u == {[K |-> 7, L |-> 14, C |-> 2], [K |-> 7, L |-> 56, C |-> 2], [K |-> 4, L |-> 8, C |-> 1]}
\* K = 7 of 7..10 peers, a sample of orderings (rotations of the ascending and descending lists)
PoolsC30v == {PoolOf(f) : f \in Shapes7 \cup Shapes8 \cup Shapes10}
ConfsC30v == {[K |-> 7, L |-> 14, C |-> 2], [K |-> 7, L |-> 28, C |-> 2]}

\* ---- C29 input spaces (one shuffle hash: the stake shapes already vary the tables)
HashOne == {h \in RealHashes : h.id = 1}
PoolsC29a == AllPools(4, {0, 1, 3}) \cup {PoolOf(f) : f \in Shapes5}
ConfsC29a == {[K |-> 4, L |-> 8, C |-> 1], [K |-> 5, L |-> 10, C |-> 1]}
ConfsC29at == {[K |-> 4, L |-> 8, C |-> 1], [K |-> 4, L |-> 12, C |-> 1], [K |-> 4, L |-> 16, C |-> 1], [K |-> 5, L |-> 10, C |-> 1]}
PoolsC29b == {PoolOf(f) : f \in Shapes7u \cup Shapes10}
PoolsC29bt == {PoolOf(f) : f \in Shapes7 \cup Shapes10}
ConfsC29b == {[K |-> 7, L |-> 14, C |-> 2], [K |-> 7, L |-> 28, C |-> 2], [K |-> 10, L |-> 20, C |-> 1],
              [K |-> 10, L |-> 30, C |-> 3]}

Pad(prefix, fill) == prefix \o [i \in 1..(64 - Len(prefix)) |-> fill]
Alpha4 == {0, 77, 202, 255}
Alpha5 == {0, 3, 77, 202, 255}
Alpha6 == {0, 3, 77, 128, 202, 255}
Alpha8 == {0, 1, 3, 77, 128, 131, 202, 255}
Vrfs3q == {Pad(<<a, b, c>>, 0) : a, b, c \in Alpha4}
Vrfs4q == {Pad(<<a, b, c, d>>, 9) : a, b, c, d \in Alpha4}
Vrfs3t == {Pad(<<a, b, c>>, 0) : a, b, c \in Alpha8}
Vrfs4t == {Pad(<<a, b, c, d>>, 9) : a, b, c, d \in Alpha6}
NoVrfs == {}

\* ---- orderings offered to Configure
RECURSIVE Perms(_)
Perms(S) == IF S = {} THEN {<<>>} ELSE UNION {{<<x>> \o p : p \in Perms(S \ {x})} : x \in S}
AllPerms(pl) == Perms(pl)
CanonOnly(pl) == {ListBy(pl)}
Rot(s, r) == [i \in 1..Len(s) |-> s[((i - 1 + r) % Len(s)) + 1]]
SomePerms(pl) == LET c == ListBy(pl) IN {Rot(c, r) : r \in 0..(Len(c) - 1)} \cup {Rot(Reverse(c), r) : r \in 0..(Len(c) - 1)}

ActsC30 == {"Configure"}
ActsC29 == {"Configure", "Select"}

\* ---- edge export (the State record determines every variable of the VIEW; sh is identified by its id)
State == [pool |-> pool, conf |-> conf, sh |-> sh.id, chain |-> chain, parts |-> parts]
Edge == PrintT(<<"EDGE", ToJson([from |-> State, act |-> act', to |-> State'])>>)
InitOut == (TLCGet("level") = 1) => PrintT(<<"INIT", ToJson(State)>>)
\* C29 runs export only the Select edges (the Configure edges are C30's business)
EdgeSel == (act'.name = "Select") => Edge
=============================================================================
