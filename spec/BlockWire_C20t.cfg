SPECIFICATION Spec
CONSTANTS
  Cases <- CasesT
  MaxTxSize <- MaxTx
  KeyTab <- KeyTabGen
  TxTab <- TxTabMC
  RootTab <- RootTabGen
INVARIANT BindsList
PROPERTIES AllOK
ACTION_CONSTRAINT Row
CHECK_DEADLOCK FALSE
