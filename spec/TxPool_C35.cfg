SPECIFICATION Spec
CONSTANTS
  EvmTxs <- EvmS
  OntTxs <- OntQ
  EvmSenders <- SendersAB
  InitNonce <- InitNonceAB
  H0 = 1
  MaxBlocks = 2
  MaxTx = 3
  MaxStale = 1
  MaxLag = 1
  MaxBlockTxs = 2
  MaxHeight = 3
  MaxOps = 5
  Acts <- ActsAll
VIEW view
INVARIANTS TypeOK PoolOK WindowNewest
PROPERTIES ProposalOK ReplaceOnlyHigher
CHECK_DEADLOCK FALSE
