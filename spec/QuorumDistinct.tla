--------------------------- MODULE QuorumDistinct ---------------------------
(* C28 -- "two signer sets that each meet a threshold share a peer outside any C faulty peers" is a statement about SETS of
   signers.  The VBFT block pool does not hold sets: BlockPool.endorseDone (C+1) and the signature-count fallback of
   BlockPool.commitDone (N-(N-1)/3) run COUNTERS over the entries of CandidateInfo.EndorseSigs (`endorseCount[p] += 1`
   per entry).  The thresholds of spec/Quorum.tla therefore speak about the code only as long as the counters count
   DISTINCT peers, i.e. as long as the bookkeeping of BlockPool.addBlockEndorsementLocked (VBFTPool!AddEnd) keeps

        one entry per (endorser, endorsed proposer), at most one empty endorsement per endorser (the last entry)

   whatever a peer sends: the same endorsement again, endorsements for several proposers in any order (P, Q, P, ...),
   empty endorsements, commit messages (its own, replacing its entries, or other peers' carrying its claimed
   endorsement).  This module states that on the pool model shared with C31 / C34 (VBFTPool: AddEnd, NewEndorse,
   NewCommit, EndorseDoneResults, FallbackResults); QuorumDistinct_MC enumerates the re-sending behaviours. *)
EXTENDS VBFTPool

\* the distinct peers recorded with a (non-empty) signature for proposer p / with an empty endorsement
SignersNE(es, p) == {i \in Peers : \E k \in 1..Len(es[i]) : es[i][k].p = p /\ ~es[i][k].e}
SignersE(es) == {i \in Peers : HasEmpty(es[i])}
\* what the counters of endorseDone / commitDone add up: ENTRIES
EntriesNE(es, p) == {<<i, k>> \in Peers \X (1..8) : k <= Len(es[i]) /\ es[i][k].p = p /\ ~es[i][k].e}
EntriesE(es) == {<<i, k>> \in Peers \X (1..8) : k <= Len(es[i]) /\ es[i][k].e}

\* the bookkeeping invariant of addBlockEndorsementLocked
OneEntryPerPair(es) ==
  \A i \in Peers : \A k, l \in 1..Len(es[i]) :
     k < l => /\ ~es[i][k].e                                  \* an empty endorsement is sticky: nothing follows it
              /\ (es[i][l].e \/ es[i][k].p # es[i][l].p)      \* two block endorsements of one peer name different proposers

\* ... which is what makes every counter equal to the size of a signer SET
CountersCountPeers(es) ==
  /\ \A p \in Peers : Cardinality(EntriesNE(es, p)) = Cardinality(SignersNE(es, p))
  /\ Cardinality(EntriesE(es)) = Cardinality(SignersE(es))

DecisionSigners(es, r) == IF r.e THEN SignersE(es) ELSE SignersNE(es, r.p)

\* endorseDone reports proposer r.p only when TE distinct peers are recorded for it (TE = C+1: one of them is honest)
EndorseDistinct(pool) ==
  \A r \in EndorseDoneResults(pool) : Cardinality(DecisionSigners(pool.esigs, r)) >= TE
\* the signature-count fallback of commitDone reports r.p only when QS distinct peers are recorded for its block
FallbackDistinct(pool) ==
  ~ViaMsgs(pool) => \A r \in FallbackResults(pool) : Cardinality(SignersNE(pool.esigs, r.p)) >= QS
\* hence (C28): the signer set behind a fallback commit decision meets every other set of QS peers (the quorum some other
\* node may have counted) in at least C+1 peers, and the signer set behind an endorse decision contains a non-faulty peer
CommitQuorumIntersects(pool) ==
  ~ViaMsgs(pool) => \A r \in FallbackResults(pool) : \A B \in SUBSET Peers :
      Cardinality(B) >= QS => Cardinality(SignersNE(pool.esigs, r.p) \cap B) >= C + 1
EndorseHasHonestWitness(pool) ==
  \A r \in EndorseDoneResults(pool) : \A F \in SUBSET Peers :
      Cardinality(F) <= C => DecisionSigners(pool.esigs, r) \ F # {}
=============================================================================
