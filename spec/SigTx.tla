-------------------------------- MODULE SigTx --------------------------------
(***************************************************************************)
(* Transaction signature checking of ontio/ontology (properties C16, C17). *)
(*                                                                         *)
(*   VerifyTransaction  = core/validation.VerifyTransaction ->             *)
(*                        checkTransactionSignatures (RawSig.GetSig ->      *)
(*                        program.GetProgramInfo, signature.Verify /        *)
(*                        VerifyMultiSignature, types.AddressFromPubKey /   *)
(*                        AddressFromMultiPubKeys, payer test, SignedAddr)  *)
(*   GetSignatureAddressesEarly = somebody asks the still UNVERIFIED object *)
(*                        for its signers (tx pool sender-limit check):     *)
(*                        SignedAddr is filled lazily from the scripts      *)
(*   VerifyAgain        = the same object is offered to the validator a     *)
(*                        second time after it was rejected                 *)
(*   Mutate*            = an adversary changes the bytes of an accepted     *)
(*                        transaction (signed content, a signature, payer)  *)
(*   ExecFresh          = another node decodes the same bytes afresh (block *)
(*                        sync) and contract code asks for the signers:     *)
(*                        Transaction.GetSignatureAddresses with an empty   *)
(*                        SignedAddr (hash of each RAW verification script) *)
(*                                                                         *)
(* A transaction is [payer, sets]; a signature set describes the bytes of  *)
(* its verification script                                                 *)
(*   [form |-> "single"|"multi", keys |-> Seq([v, enc, push]), m, menc,    *)
(*    n, nenc, sigs]   (ScriptOf gives the token sequence, see SigBase;    *)
(*    keys in the listed order, duplicates possible, n = the pushed count) *)
(* plus the pushed signatures.  The payer is part of the signed content,   *)
(* so signature symbols are relative to the final content ("g" = over this *)
(* transaction's hash).  payer = [kind |-> "set", i] (the account of set i)*)
(* | [kind |-> "key", i] (single-key account of key i) | [kind |-> "none"] *)
(*                                                                         *)
(* Named deviations (TRUE = the code as it was FOUND; both were repaired in *)
(* the repository by fix commits 900ecb87 and 7a71c155, so the checks run  *)
(* with both switches FALSE; *_asfound.cfg keep the as-found model):       *)
(*   MaskByPosition    VerifyMultiSignature marks used keys by position    *)
(*   RawScriptFallback GetSignatureAddresses hashes the raw script instead *)
(*                     of deriving the address from the parsed keys        *)
(* Model self-test switch (never observed in the repository; TRUE must     *)
(* make TLC refute SameSigners / SignersAreScriptAccounts on the input     *)
(* class "surplus signatures", see SigTx_C17_selftest.cfg):                *)
(*   AddrBySigCount    the validator derives the multi-signature account   *)
(*                     from the NUMBER OF SIGNATURES SUPPLIED instead of   *)
(*                     the threshold m of the script                       *)
(*                                                                         *)
(* Three derivations of "the account of a signature set" are kept apart,   *)
(* as they are three pieces of code / specification:                       *)
(*   ScriptAccount  (ghost) the account the verification script stands for *)
(*   ValidatorAddr  checkTransactionSignatures -> tx.SignedAddr            *)
(*   DecodedAddr    RawSig.signerAddress on a node that only decoded bytes *)
(* Input classes beyond the honest ones: surplus signatures (more than m   *)
(* signatures supplied, only the first m are examined) and malformed       *)
(* signature blobs (SigBase!Malformed).                                    *)
(***************************************************************************)
EXTENDS SigBase

CONSTANTS TxSpace,            \* the transactions the environment may submit
          EthKeys,            \* abstract keys bound to Ethereum-type (PK_ETHECDSA) keys
          MaskByPosition,
          RawScriptFallback,
          MutClasses,         \* subset of {"content", "sig", "payer"}
          PreOps,             \* subset of {"query", "reverify"}: operations on the object before (re-)verification
          SkipIfSignedAddr,   \* named deviation (FALSE = the code): the validator treats a non-empty SignedAddr as
                              \* "already verified" and accepts without looking at the signatures
          AddrBySigCount      \* model self-test switch (FALSE = the code), see the header

VARIABLES tx,        \* the transaction under consideration
          phase,     \* "idle" | "submitted" | "verified" | "executed"
          verdict,   \* result of the last VerifyTransaction (TRUE = ErrNoError)
          signed,    \* tx.SignedAddr as established by the validator (set of addresses)
          raw,       \* signer set seen by a node that decoded the bytes afresh
          mutated,   \* "" or the class of the mutation applied to an accepted transaction
          pre,       \* history of this Transaction object: "fresh" | "queried" (GetSignatureAddresses was called
                     \* before verification) | "reverify" (a first VerifyTransaction rejected it)
          facts,     \* what VerifyTransaction established about tx in one pass (see Analyze), incl. ghost property facts
          act        \* last action (history)

vars == <<tx, phase, verdict, signed, raw, mutated, pre, facts, act>>
State == [tx |-> tx, phase |-> phase, verdict |-> verdict, signed |-> signed, raw |-> raw, mutated |-> mutated,
          pre |-> pre, facts |-> facts]

NoTx == [payer |-> [kind |-> "none", i |-> 0], sets |-> <<>>]
IsEth(k) == k \in EthKeys

KeyTokOf(kd) == KeyTok(kd.v, kd.enc, kd.push)
\* the verification script bytes of a set descriptor (assembled at byte level, nothing normalised)
ScriptOf(s) ==
    IF s.form = "single" THEN << KeyTokOf(s.keys[1]), OpTok("CHECKSIG") >>
    ELSE RawMulti(NumTok(s.m, s.menc), [i \in DOMAIN s.keys |-> KeyTokOf(s.keys[i])], NumTok(s.n, s.nenc))

-----------------------------------------------------------------------------
(* one signature set, as checkTransactionSignatures treats it.  p = Parse(ScriptOf(s)) is passed in so that   *)
(* TLC parses every script once per transaction                                                            *)
SetFail == [ok |-> FALSE, addr |-> NoAddr]

\* (ghost) the account a parsed verification script stands for: the single key's account, or the account of the
\* m-of-n script over the parsed keys with the script's OWN threshold m (also the payer descriptor "set i")
ScriptAccount(p) ==
    IF ~p.ok THEN NoAddr
    ELSE IF Len(p.keys) = 1 THEN AddrOfKey(p.keys[1].v, IsEth(p.keys[1].v))
    ELSE AddrOfMulti(KeyVals(p.keys), p.m)

\* checkTransactionSignatures: the address recorded in tx.SignedAddr for a set that verified
\* (types.AddressFromPubKey / types.AddressFromMultiPubKeys(sig.PubKeys, m); an error of the latter rejects)
ValidatorAddr(s, p) ==
    IF ~p.ok THEN NoAddr
    ELSE IF Len(p.keys) = 1 THEN AddrOfKey(p.keys[1].v, IsEth(p.keys[1].v))
    ELSE AddrOfMulti(KeyVals(p.keys), IF AddrBySigCount THEN Len(s.sigs) ELSE p.m)

\* RawSig.signerAddress on a freshly decoded transaction (nobody ran the validator on that object): from the parsed
\* keys and the script's m; the hash of the raw script if the script does not parse (or with the as-found fallback)
DecodedAddr(s, p) ==
    IF RawScriptFallback \/ ~p.ok THEN HashAddr(ScriptOf(s))
    ELSE IF Len(p.keys) = 1 THEN AddrOfKey(p.keys[1].v, IsEth(p.keys[1].v))
    ELSE LET a == AddrOfMulti(KeyVals(p.keys), p.m) IN IF a = NoAddr THEN HashAddr(ScriptOf(s)) ELSE a

\* a malformed blob is among the signatures the validator hands to the crypto library for this set: the first one
\* of a single-key set, the first m of a multi-signature set (surplus signatures are never looked at)
ExaminesMalformed(s, p) ==
    /\ p.ok
    /\ ~(Len(p.keys) > MaxKeysInScript \/ Len(s.sigs) < p.m \/ p.m > Len(p.keys) \/ p.m <= 0)
    /\ \E j \in 1..p.m : IsMalformed(s.sigs[j])

CheckSet(s, p, addr) ==                                            \* p: result of RawSig.GetSig
    IF ~p.ok THEN SetFail
    ELSE LET kn == Len(p.keys)
             sn == Len(s.sigs)
             m  == p.m
         IN
    IF kn > MaxKeysInScript \/ sn < m \/ m > kn \/ m <= 0 THEN SetFail     \* "wrong tx sig param length"
    ELSE IF kn = 1
         THEN IF ValidFor(s.sigs[1], p.keys[1].v)                           \* signature.Verify on SigData[0]
              THEN [ok |-> TRUE, addr |-> addr] ELSE SetFail
         ELSE IF VerifyMulti(KeyVals(p.keys), m, s.sigs, MaskByPosition) /\ addr # NoAddr
              THEN [ok |-> TRUE, addr |-> addr] ELSE SetFail

(* the property C16 as stated: what an accepted transaction must satisfy *)
SetOK(s, p) ==
    /\ p.ok
    /\ 1 <= p.m /\ p.m <= Len(p.keys) /\ Len(p.keys) <= MaxKeysInScript
    /\ Cardinality(Signers(KeyVals(p.keys), s.sigs)) >= p.m        \* m DISTINCT keys signed this content

\* C17: canonical = the raw script is byte-for-byte what the builders produce from the parsed keys
CanonicalSet(s, p) ==
    /\ p.ok
    /\ IF Len(p.keys) = 1 THEN ScriptOf(s) = BuildSingle(p.keys[1].v) /\ ~IsEth(p.keys[1].v)
       ELSE BuildMultiOK(KeyVals(p.keys), p.m) /\ ScriptOf(s) = BuildMulti(KeyVals(p.keys), p.m)

\* Everything the actions and properties need to know about a transaction, computed in one pass:
\*   accept  = core/validation.checkTransactionSignatures returns nil (decoding refuses more than 16 sets)
\*   signers = the SignedAddr it establishes;  raw = Transaction.GetSignatureAddresses on a fresh decode
\*   txok    = the property C16: every set has m distinct valid signers and the payer is one of the accounts
\*   dup     = some script lists a key twice (the only shape on which position masking matters)
\*   exact   = builder shape: every set carries exactly m signatures
\*   canon   = every script is byte-for-byte what the builders produce (and no single Ethereum-type key)
\*   accts   = (ghost) the accounts the presented verification scripts stand for
\*   malex   = the validator hands a malformed signature blob to the crypto library.  The model does not say what
\*             the library does with it beyond "not valid": returning false and aborting the call (a panic that
\*             unwinds VerifyTransaction) are both "transaction NOT accepted"; an abort is allowed ONLY on such rows
Analyze(t) ==
    LET I   == DOMAIN t.sets
        ps  == [i \in I |-> Parse(ScriptOf(t.sets[i]))]
        ad  == [i \in I |-> ScriptAccount(ps[i])]
        cs  == [i \in I |-> CheckSet(t.sets[i], ps[i], ValidatorAddr(t.sets[i], ps[i]))]
        d   == t.payer
        pay == IF d.kind = "set" THEN (IF d.i \in I THEN ad[d.i] ELSE NoAddr)
               ELSE IF d.kind = "key" THEN AddrOfKey(d.i, IsEth(d.i))
               ELSE NoAddr                                            \* an unrelated account
    IN [accept  |-> /\ Len(t.sets) <= MaxSigSets
                    /\ \A i \in I : cs[i].ok
                    /\ pay # NoAddr /\ pay \in {cs[i].addr : i \in I},
        signers |-> {cs[i].addr : i \in I},
        raw     |-> {DecodedAddr(t.sets[i], ps[i]) : i \in I},
        accts   |-> {ad[i] : i \in I},
        malex   |-> \E i \in I : ExaminesMalformed(t.sets[i], ps[i]),
        txok    |-> /\ Len(t.sets) >= 1 /\ Len(t.sets) <= MaxSigSets
                    /\ \A i \in I : SetOK(t.sets[i], ps[i])
                    /\ pay # NoAddr /\ pay \in {ad[i] : i \in I},
        dup     |-> \E i \in I : ps[i].ok /\ HasDup(KeyVals(ps[i].keys)),
        exact   |-> \A i \in I : ps[i].ok /\ Len(t.sets[i].sigs) = ps[i].m,
        canon   |-> \A i \in I : CanonicalSet(t.sets[i], ps[i])]

NoFacts == [accept |-> FALSE, signers |-> {}, raw |-> {}, accts |-> {}, malex |-> FALSE, txok |-> FALSE, dup |-> FALSE,
            exact |-> FALSE, canon |-> FALSE]

-----------------------------------------------------------------------------
Init == /\ tx = NoTx /\ phase = "idle" /\ verdict = FALSE /\ signed = {} /\ raw = {} /\ mutated = "" /\ pre = "fresh" /\ facts = NoFacts
        /\ act = [name |-> "Init"]

Submit(t) ==
    /\ phase = "idle"
    /\ tx' = t /\ phase' = "submitted"
    /\ UNCHANGED <<verdict, signed, raw, mutated, pre, facts>>
    /\ act' = [name |-> "Submit"]

VerifyTransaction ==
    /\ phase = "submitted"
    /\ facts' = Analyze(tx)                              \* evaluated once; the other variables read it
    /\ IF SkipIfSignedAddr /\ signed # {}
       THEN verdict' = TRUE /\ signed' = signed          \* deviation: "already verified"
       ELSE /\ verdict' = facts'.accept                   \* the verdict is a function of the bytes only
            /\ signed' = IF facts'.accept THEN facts'.signers ELSE signed
    /\ phase' = "verified"
    /\ UNCHANGED <<tx, raw, mutated, pre>>
    /\ act' = [name |-> "VerifyTransaction"]

\* Transaction.GetSignatureAddresses on the not yet verified object: SignedAddr is filled from the scripts
GetSignatureAddressesEarly ==
    /\ phase = "submitted" /\ pre = "fresh" /\ mutated = "" /\ "query" \in PreOps
    /\ signed' = Analyze(tx).raw
    /\ pre' = "queried"
    /\ UNCHANGED <<tx, phase, verdict, raw, mutated, facts>>
    /\ act' = [name |-> "GetSignatureAddressesEarly"]

\* the rejected object is handed to the validator again
VerifyAgain ==
    /\ phase = "verified" /\ ~verdict /\ pre = "fresh" /\ mutated = "" /\ "reverify" \in PreOps
    /\ phase' = "submitted" /\ pre' = "reverify"
    /\ UNCHANGED <<tx, verdict, signed, raw, mutated, facts>>
    /\ act' = [name |-> "VerifyAgain"]

\* mutations are applied to accepted transactions in builder shape only; the mutated bytes are decoded
\* into a new Transaction object (verdict and SignedAddr start afresh)
MutEnabled(c) == phase = "verified" /\ verdict /\ mutated = "" /\ pre = "fresh" /\ c \in MutClasses /\ facts.exact

StaleSigs(sigs) == [j \in DOMAIN sigs |-> IF sigs[j].kind = "g" THEN Stale(sigs[j].by) ELSE sigs[j]]

\* any byte of the signed content changes: every signature is now over another message
MutateContent ==
    /\ MutEnabled("content")
    /\ tx' = [tx EXCEPT !.sets = [i \in DOMAIN tx.sets |-> [tx.sets[i] EXCEPT !.sigs = StaleSigs(@)]]]
    /\ phase' = "submitted" /\ mutated' = "content" /\ pre' = "fresh"
    /\ verdict' = FALSE /\ signed' = {} /\ facts' = NoFacts /\ UNCHANGED raw
    /\ act' = [name |-> "MutateContent"]

\* the payer field (part of the signed content) changes to an unrelated account
MutatePayer ==
    /\ MutEnabled("payer")
    /\ tx' = [payer |-> [kind |-> "none", i |-> 0],
              sets |-> [i \in DOMAIN tx.sets |-> [tx.sets[i] EXCEPT !.sigs = StaleSigs(@)]]]
    /\ phase' = "submitted" /\ mutated' = "payer" /\ pre' = "fresh"
    /\ verdict' = FALSE /\ signed' = {} /\ facts' = NoFacts /\ UNCHANGED raw
    /\ act' = [name |-> "MutatePayer"]

\* one byte of signature j of set i changes
MutateSig(i, j) ==
    /\ MutEnabled("sig")
    /\ i \in DOMAIN tx.sets /\ j \in DOMAIN tx.sets[i].sigs
    /\ tx' = [tx EXCEPT !.sets[i].sigs[j] = Corrupt(@.by)]
    /\ phase' = "submitted" /\ mutated' = "sig" /\ pre' = "fresh"
    /\ verdict' = FALSE /\ signed' = {} /\ facts' = NoFacts /\ UNCHANGED raw
    /\ act' = [name |-> "MutateSig", i |-> i, j |-> j]

\* a node that did not validate the transaction executes it from the decoded bytes
ExecFresh ==
    /\ phase = "verified" /\ verdict /\ mutated = "" /\ pre = "fresh"
    /\ raw' = facts.raw
    /\ phase' = "executed"
    /\ UNCHANGED <<tx, verdict, signed, mutated, pre, facts>>
    /\ act' = [name |-> "ExecFresh"]

\* everything except the environment's choice of a transaction
Other == \/ VerifyTransaction
         \/ GetSignatureAddressesEarly \/ VerifyAgain
         \/ MutateContent \/ MutatePayer
         \/ \E i \in 1..2, j \in 1..3 : MutateSig(i, j)
         \/ ExecFresh

Next == \/ (phase = "idle" /\ \E t \in TxSpace : Submit(t))
        \/ Other

Spec == Init /\ [][Next]_vars

-----------------------------------------------------------------------------
(* properties *)
Verified == phase \in {"verified", "executed"}

\* C16, first half: accepted only if every set has m distinct valid signers and the payer is one of them
Sound == (Verified /\ verdict) => facts.txok
\* with the deviation on, every unsound acceptance is explained by a duplicated key in a script
SoundUpToDupKeys == (Verified /\ verdict /\ ~facts.txok) => facts.dup
\* the verdict is a function of the transaction bytes only, whatever was done with the object before
VerdictPure == Verified => (verdict = facts.accept)
\* C16, second half: a mutated accepted transaction is rejected
MutatedRejected == (phase = "verified" /\ mutated # "") => ~verdict
\* C17: what contract code sees on a fresh decode equals what the validator established
SameSigners == (phase = "executed") => raw = signed
\* with the raw-script fallback every difference is explained by a non-canonical script or an Ethereum-type key
SameSignersUpToCanon == (phase = "executed" /\ raw # signed) => ~facts.canon
\* the converse sanity: honest canonical transactions agree even with the fallback
CanonAgree == (phase = "executed" /\ facts.canon) => raw = signed
\* C17, validator side: the signer set an acceptance establishes is exactly the set of accounts the presented
\* scripts stand for - however many signatures were supplied beyond the threshold
SignersAreScriptAccounts == (Verified /\ verdict) => signed = facts.accts
\* C16, malformed signatures: a blob that is not a signature never counts towards an acceptance
MalformedNeverCounts == (Verified /\ verdict) => ~facts.malex
=============================================================================
