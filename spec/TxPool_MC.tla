----------------------------- MODULE TxPool_MC -----------------------------
EXTENDS TxPool, Json

Tx(s, n, gp, v) == [s |-> s, n |-> n, gp |-> gp, v |-> v]
SendersAB == {"a", "b"}
InitNonceAB == "a" :> 0 @@ "b" :> 1

\* quick: a: nonces 0..2, b: nonces 1..2 (account nonce of b is 1), gas prices 1 and 2, one Ontology transaction
EvmQ == {Tx("a", n, gp, 0) : n \in 0..2, gp \in {1, 2}} \cup {Tx("a", 0, 1, 1)} \cup {Tx("b", n, gp, 0) : n \in 1..2, gp \in {1, 2}}
OntQ == {Tx("x", 0, 2, 0)}
\* small: exercises every action with a tiny universe (used for the exhaustive edge cover of the quick tier)
EvmS == {Tx("a", n, gp, 0) : n \in 0..1, gp \in {1, 2}} \cup {Tx("b", 1, 1, 0), Tx("b", 2, 1, 0)}
\* deep: one sender, two competing transactions for nonce 1; small enough for the COMPLETE reachable graph (no depth bound)
EvmD == {Tx("a", 0, 1, 0), Tx("a", 1, 1, 0), Tx("a", 1, 2, 0)}
\* holes: the sender with a non-zero account nonce, three consecutive nonces, no other transaction; COMPLETE reachable graph:
\* every way in which expiry, commits and missing head nonces can punch holes into one sender's nonce run
EvmH == {Tx("b", 1, 1, 0), Tx("b", 2, 1, 0), Tx("b", 3, 1, 0)}
OntNone == {}
\* thorough: gas prices around the 1% replacement threshold, variants (equal price, different hash), two Ontology transactions
EvmT == {Tx("a", n, gp, v) : n \in 0..2, gp \in {100, 101, 102}, v \in {0}} \cup {Tx("a", 0, 100, 1)}
        \cup {Tx("b", n, gp, 0) : n \in 1..3, gp \in {100, 102}}
OntT == {Tx("x", 0, 102, 0), Tx("y", 0, 100, 0)}

ActsAll == {"Submit", "RemoveBelowGas", "LedgerCommit", "ValAddBlock", "PoolClean", "ValReset", "Propose"}

Edge == PrintT(<<"EDGE", ToJson([from |-> State, act |-> act', to |-> State'])>>)
InitOut == (TLCGet("level") = 1) => PrintT(<<"INIT", ToJson(State)>>)
=============================================================================
