------------------------- MODULE LedgerQuery_Section -------------------------
(* Evaluation of the C43 properties of LedgerQuery (NoMiss, IndexAgrees) on the data of one real bloom-bits section    *)
(* (harness/b_ledger TestVerifLQSection): per-block blooms read back with GetBloomData, the logs the harness emitted,   *)
(* and the decompressed ReadBloomBits vectors.  The formulas are those of LedgerQuery with the real section size.        *)
EXTENDS Naturals, Sequences, FiniteSets, TLC, Json
D == ndJsonDeserialize("section.ndjson")
ToSet(s) == {s[i] : i \in DOMAIN s}
Hdr == D[1]
End == D[Len(D)]
S == End.S
Cur == End.cur
BitsOf(x) == ToSet(Hdr.bits[x])
BloomEv == {i \in DOMAIN D : D[i].event = "Bloom"}
IndexEv == {i \in DOMAIN D : D[i].event = "Index"}
bloomAt == [h \in 0..Cur |-> IF \E i \in BloomEv : D[i].h = h THEN ToSet(D[CHOOSE i \in BloomEv : D[i].h = h].bits) ELSE {}]
logsAt == [h \in 0..Cur |-> IF \E i \in BloomEv : D[i].h = h /\ D[i].logs # <<>> THEN ToSet(D[CHOOSE i \in BloomEv : D[i].h = h].logs) ELSE {}]
UsedBits == UNION {bloomAt[h] : h \in 0..Cur} \cup {D[i].bit : i \in IndexEv}
bitIdx == [sec \in 0..(End.sections - 1) |-> [b \in UsedBits |->
              IF \E i \in IndexEv : D[i].sec = sec /\ D[i].bit = b
              THEN ToSet(D[CHOOSE i \in IndexEv : D[i].sec = sec /\ D[i].bit = b].pos) ELSE {}]]

NoMiss == \A h \in 0..Cur : \A l \in logsAt[h] : (BitsOf(l[1]) \cup BitsOf(l[2])) \subseteq bloomAt[h]
\* bits outside UsedBits occur in no bloom and have no index entry: both sides are FALSE
IndexAgrees == \A sec \in DOMAIN bitIdx : \A b \in UsedBits : \A i \in 0..(S - 1) :
                   (i \in bitIdx[sec][b]) = (b \in bloomAt[sec * S + i])
IndexComplete == End.sections = (Cur + 1) \div S /\ End.sections >= Hdr.minSections
LogsPresent == Cardinality({h \in 0..Cur : logsAt[h] # {}}) >= Hdr.minLogBlocks

ASSUME PrintT(<<"NOTE", ToJson([usedBits |-> Cardinality(UsedBits), logBlocks |-> Cardinality({h \in 0..Cur : logsAt[h] # {}}),
                                  noMiss |-> NoMiss, indexAgrees |-> IndexAgrees, indexComplete |-> IndexComplete,
                                  logsPresent |-> LogsPresent])>>)
VARIABLE x
Spec == x = 0 /\ [][x' = x]_x
=============================================================================
