SPECIFICATION TSpec
CONSTANTS
  Senders <- TSenders
  R = "R"
  B = "B"
  FEE = "FEE"
  NEWC = "NEW"
  KindOf <- TKinds
  GasLimits <- TDummy
  GasPrices <- TDummy
  Values <- TDummy
  NonceDeltas <- TDummy
  SDOV = "SDO"
  SDSV = "SDS"
  InnerAmt = 1000
  Intrinsic = 21000
  InitBal <- TBal
  InitNonce <- TNonce
  SelfBeneficiaryBurns = TRUE
  MaxOps = 100000000
INVARIANTS NonNeg
PROPERTIES Conserved ChargeBound NonceStep RejectedNoOp FeeExact
CONSTRAINT HW
POSTCONDITION Accepted
CHECK_DEADLOCK FALSE
