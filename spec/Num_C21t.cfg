SPECIFICATION Spec
CONSTANTS
  Calls <- CallsT
PROPERTIES AllCallsOK
ACTION_CONSTRAINT Row
CHECK_DEADLOCK FALSE
