----------------------------- MODULE EvmTx_Trace -----------------------------
(* Trace validation for C07: every EIP-155 transaction the harness applied through the real                 *)
(* HandleEIP155Transaction (arguments, gas used, EVM success flag, all ONG balances in gwei, sender nonces,  *)
(* contracts that still have code, ONG missing from the sum of all balance entries) must be a step of EvmTx  *)
(* and satisfy the step forms of the C07 properties.                                                         *)
EXTENDS EvmTx, Json
Tr == ndJsonDeserialize("trace.ndjson")
VARIABLE l
tvars == <<vars, l>>
ToSet(s) == {s[i] : i \in DOMAIN s}
TSenders == ToSet(Tr[1].senders)
TKinds == Tr[1].kinds
TBal == Tr[1].bal
TNonce == Tr[1].nonce
TDummy == {0}

ASSUME TLCSet(1, 0)
Max(a, b) == IF a > b THEN a ELSE b
HW == TLCSet(1, Max(TLCGet(1), l))
Accepted == /\ PrintT(<<"HW", TLCGet(1) - 1>>)
            /\ TLCGet(1) = Len(Tr) + 1
Ev == Tr[l]
IsEvent(n) == l <= Len(Tr) /\ Ev.event = n /\ l' = l + 1
Observed == bal' = Ev.bal /\ nonce' = Ev.nonce /\ alive' = ToSet(Ev.alive) /\ burnt' = Ev.burnt

TInit == /\ l = 2 /\ Init
TReset == /\ IsEvent("Reset")
          /\ bal' = Ev.bal /\ nonce' = Ev.nonce /\ alive' = ToSet(Ev.alive) /\ burnt' = Ev.burnt
          /\ nops' = 0 /\ act' = [name |-> "Reset"]
TApplied == /\ IsEvent("Applied") /\ Ev.nd = 0      \* only a transaction carrying the account nonce may be applied
            /\ Apply(Ev.s, Ev.to, Ev.gl, Ev.gp, Ev.v, Ev.used, Ev.ok, Ev.intr)
            /\ Observed
TRejected == /\ IsEvent("Rejected")
             /\ Reject(Ev.s, Ev.to, Ev.nd, Ev.gl, Ev.gp, Ev.v)
             /\ Observed /\ ~Ev.changed
TNext == TReset \/ TApplied \/ TRejected
TSpec == TInit /\ [][TNext]_tvars
=============================================================================
