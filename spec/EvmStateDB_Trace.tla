--------------------------- MODULE EvmStateDB_Trace ---------------------------
(* Trace validation for EvmStateDB: logs recorded from the real StateDB (harness    *)
(* c08_statedb, TestVerifSdTrace).  Every event carries the action, its arguments   *)
(* and the value of every getter after the call.                                    *)
EXTENDS EvmStateDB, Json
Tr == ndJsonDeserialize("trace.ndjson")
VARIABLE l
tvars == <<vars, l>>
ToSet(s) == {s[i] : i \in DOMAIN s}
TAddrs == ToSet(Tr[1].addrs)
TSlots == ToSet(Tr[1].slots)
TCodes == ToSet(Tr[1].codes)
TActs == {"SetState", "SetNonce", "SetCode", "AddBalance", "SubBalance", "AddLog", "AddRefund", "SubRefund",
          "Suicide", "Snapshot", "Revert", "Discard", "Commit"}
TBases == {Tr[2].base}

ASSUME TLCSet(1, 0)
Max(a, b) == IF a > b THEN a ELSE b
HW == TLCSet(1, Max(TLCGet(1), l))
Accepted == /\ PrintT(<<"HW", TLCGet(1) - 1>>)
            /\ TLCGet(1) = Len(Tr) + 1
Ev == Tr[l]
IsEvent(n) == l <= Len(Tr) /\ Ev.event = n /\ l' = l + 1

ObsMatches(o) == /\ \A a \in Addrs : /\ \A s \in Slots : o.slot[a][s] = Obs'.slot[a][s]
                                     /\ o.nonce[a] = Obs'.nonce[a] /\ o.code[a] = Obs'.code[a]
                                     /\ o.bal[a] = Obs'.bal[a] /\ o.suicided[a] = Obs'.suicided[a]
                                     /\ o.exist[a] = Obs'.exist[a] /\ o.empty[a] = Obs'.empty[a]
                 /\ o.logs = Obs'.logs /\ o.refund = Obs'.refund
ObsOK == ObsMatches(Ev.obs) /\ Ev.nsnaps = Len(snaps')

TInit == /\ l = 3 /\ Init
TReset == /\ IsEvent("Reset")
          /\ base' = Ev.base /\ mem' = EmptyMem /\ suicided' = {} /\ logs' = 0 /\ refund' = 0
          /\ snaps' = <<>> /\ saved' = <<>> /\ nops' = 0 /\ act' = [name |-> "Init"]
          /\ ObsMatches(Ev.obs)
TNext == \/ TReset
         \/ IsEvent("SetState") /\ SetState(Ev.a, Ev.s, Ev.v) /\ ObsOK /\ Ev.res = "ok"
         \/ IsEvent("SetNonce") /\ SetNonce(Ev.a, Ev.n) /\ ObsOK /\ Ev.res = "ok"
         \/ IsEvent("SetCode") /\ SetCode(Ev.a, Ev.c) /\ ObsOK /\ Ev.res = "ok"
         \/ IsEvent("AddBalance") /\ AddBalance(Ev.a, Ev.d) /\ ObsOK /\ Ev.res = "ok"
         \/ IsEvent("SubBalance") /\ SubBalance(Ev.a, Ev.d) /\ ObsOK /\ Ev.res = "ok"
         \/ IsEvent("AddLog") /\ AddLog /\ ObsOK /\ Ev.res = "ok"
         \/ IsEvent("AddRefund") /\ AddRefund(Ev.g) /\ ObsOK /\ Ev.res = "ok"
         \/ IsEvent("SubRefund") /\ SubRefund(Ev.g) /\ ObsOK /\ Ev.res = "ok"
         \/ IsEvent("Suicide") /\ Suicide(Ev.a) /\ ObsOK /\ Ev.res = (IF AcctEmpty(Ev.a) THEN "false" ELSE "true")
         \/ IsEvent("Snapshot") /\ Snapshot /\ ObsOK /\ Ev.res = "ok"
         \/ IsEvent("Revert") /\ Revert(Ev.i) /\ ObsOK /\ Ev.res = "ok"
         \/ IsEvent("Discard") /\ Discard(Ev.i) /\ ObsOK /\ Ev.res = "ok"
         \/ IsEvent("Commit") /\ Commit /\ ObsOK /\ Ev.res = "ok"
TSpec == TInit /\ [][TNext]_tvars
=============================================================================
