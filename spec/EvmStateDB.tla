------------------------------ MODULE EvmStateDB ------------------------------
(***************************************************************************)
(* smartcontract/storage/statedb.go: the EVM StateDB over a CacheDB.       *)
(* All mutators write into the transaction memdb `mem` (storage slots, the  *)
(* EthAccount record {nonce, code hash}, the ONG balance through the        *)
(* OngBalanceHandle); reads fall through to the committed `base`.           *)
(* Snapshot deep-clones `mem` together with the suicide set, log length and *)
(* refund counter; RevertToSnapshot(i) swaps them back and truncates the    *)
(* snapshot stack to i; DiscardSnapshot(i) truncates it to i (as coded).    *)
(* Commit = CommitToCacheDB (suicided accounts and their storage deleted)   *)
(* followed by CacheDB.Commit (mem published into base).                    *)
(* Property C08: after Revert(i) every getter reads as when snapshot i was  *)
(* taken (ghost `saved`).                                                   *)
(***************************************************************************)
EXTENDS Integers, Sequences, FiniteSets, TLC

CONSTANTS Addrs, Slots, Vals, MaxNonce, Codes, MaxBal, MaxLogs, MaxRefund, MaxSnaps, MaxOps, Acts, BaseInits

VARIABLES mem, base, suicided, logs, refund, snaps, saved, nops, act
vars == <<mem, base, suicided, logs, refund, snaps, saved, nops, act>>
view == <<mem, base, suicided, logs, refund, snaps, saved>>

UNK == -1
NoCode == "none"
UnkAcct == [nonce |-> UNK, code |-> NoCode]
EmptyMem == [slot |-> [a \in Addrs |-> [s \in Slots |-> UNK]],
             acct |-> [a \in Addrs |-> UnkAcct],
             bal  |-> [a \in Addrs |-> UNK]]

\* reads through the transaction memdb
Slot(a, s) == IF mem.slot[a][s] = UNK THEN base.slot[a][s] ELSE mem.slot[a][s]
Acct(a)    == IF mem.acct[a].nonce = UNK THEN base.acct[a] ELSE mem.acct[a]
Bal(a)     == IF mem.bal[a] = UNK THEN base.bal[a] ELSE mem.bal[a]
AcctEmpty(a) == Acct(a).nonce = 0 /\ Acct(a).code = NoCode

\* everything the getters of StateDB return
Obs == [slot |-> [a \in Addrs |-> [s \in Slots |-> Slot(a, s)]],
        nonce |-> [a \in Addrs |-> Acct(a).nonce],
        code |-> [a \in Addrs |-> Acct(a).code],
        bal |-> [a \in Addrs |-> Bal(a)],
        suicided |-> [a \in Addrs |-> a \in suicided],
        exist |-> [a \in Addrs |-> a \in suicided \/ ~AcctEmpty(a) \/ Bal(a) > 0],
        empty |-> [a \in Addrs |-> AcctEmpty(a) /\ Bal(a) = 0],
        logs |-> logs, refund |-> refund]

Init == /\ base \in BaseInits /\ mem = EmptyMem
        /\ suicided = {} /\ logs = 0 /\ refund = 0 /\ snaps = <<>> /\ saved = <<>>
        /\ nops = 0 /\ act = [name |-> "Init"]

Step(a) == nops < MaxOps /\ a.name \in Acts /\ nops' = nops + 1 /\ act' = a
Keep == UNCHANGED <<base, snaps, saved>>

SetState(a, s, v) == /\ Step([name |-> "SetState", a |-> a, s |-> s, v |-> v])
                     /\ mem' = [mem EXCEPT !.slot[a][s] = v]
                     /\ UNCHANGED <<suicided, logs, refund>> /\ Keep
SetNonce(a, n) == /\ Step([name |-> "SetNonce", a |-> a, n |-> n])
                  /\ mem' = [mem EXCEPT !.acct[a] = [nonce |-> n, code |-> Acct(a).code]]
                  /\ UNCHANGED <<suicided, logs, refund>> /\ Keep
SetCode(a, c) == /\ Step([name |-> "SetCode", a |-> a, c |-> c])
                 /\ mem' = [mem EXCEPT !.acct[a] = [nonce |-> Acct(a).nonce, code |-> c]]
                 /\ UNCHANGED <<suicided, logs, refund>> /\ Keep
AddBalance(a, d) == /\ Bal(a) + d <= MaxBal
                    /\ Step([name |-> "AddBalance", a |-> a, d |-> d])
                    /\ mem' = [mem EXCEPT !.bal[a] = Bal(a) + d]
                    /\ UNCHANGED <<suicided, logs, refund>> /\ Keep
SubBalance(a, d) == /\ d <= Bal(a)
                    /\ Step([name |-> "SubBalance", a |-> a, d |-> d])
                    /\ mem' = [mem EXCEPT !.bal[a] = Bal(a) - d]
                    /\ UNCHANGED <<suicided, logs, refund>> /\ Keep
AddLog == /\ logs < MaxLogs /\ Step([name |-> "AddLog"]) /\ logs' = logs + 1
          /\ UNCHANGED <<mem, suicided, refund>> /\ Keep
AddRefund(g) == /\ refund + g <= MaxRefund /\ Step([name |-> "AddRefund", g |-> g]) /\ refund' = refund + g
                /\ UNCHANGED <<mem, suicided, logs>> /\ Keep
SubRefund(g) == /\ g <= refund /\ Step([name |-> "SubRefund", g |-> g]) /\ refund' = refund - g
                /\ UNCHANGED <<mem, suicided, logs>> /\ Keep
\* Suicide: refused (returns false) for an empty account, otherwise marks it and zeroes the balance
Suicide(a) == /\ Step([name |-> "Suicide", a |-> a])
              /\ IF AcctEmpty(a) THEN UNCHANGED <<mem, suicided>>
                 ELSE /\ suicided' = suicided \cup {a}
                      /\ mem' = [mem EXCEPT !.bal[a] = 0]
              /\ UNCHANGED <<logs, refund>> /\ Keep

Snapshot == /\ Len(snaps) < MaxSnaps /\ Step([name |-> "Snapshot"])
            /\ snaps' = Append(snaps, [mem |-> mem, suicided |-> suicided, logs |-> logs, refund |-> refund])
            /\ saved' = Append(saved, Obs)
            /\ UNCHANGED <<mem, base, suicided, logs, refund>>
Revert(i) == /\ i \in 0..(Len(snaps) - 1) /\ Step([name |-> "Revert", i |-> i])
             /\ mem' = snaps[i + 1].mem /\ suicided' = snaps[i + 1].suicided
             /\ logs' = snaps[i + 1].logs /\ refund' = snaps[i + 1].refund
             /\ snaps' = SubSeq(snaps, 1, i) /\ saved' = SubSeq(saved, 1, i)
             /\ UNCHANGED base
Discard(i) == /\ i \in 0..(Len(snaps) - 1) /\ Step([name |-> "Discard", i |-> i])
              /\ snaps' = SubSeq(snaps, 1, i) /\ saved' = SubSeq(saved, 1, i)
              /\ UNCHANGED <<mem, base, suicided, logs, refund>>

\* StateDB.Commit: delete suicided accounts and their storage, clear the snapshot stack, publish mem
Commit == /\ Step([name |-> "Commit"])
          /\ LET m2 == [mem EXCEPT
                          !.acct = [a \in Addrs |-> IF a \in suicided THEN [nonce |-> 0, code |-> NoCode] ELSE mem.acct[a]],
                          !.slot = [a \in Addrs |-> IF a \in suicided THEN [s \in Slots |-> 0] ELSE mem.slot[a]]]
             IN base' = [slot |-> [a \in Addrs |-> [s \in Slots |-> IF m2.slot[a][s] = UNK THEN base.slot[a][s] ELSE m2.slot[a][s]]],
                         acct |-> [a \in Addrs |-> IF m2.acct[a].nonce = UNK THEN base.acct[a] ELSE m2.acct[a]],
                         bal  |-> [a \in Addrs |-> IF m2.bal[a] = UNK THEN base.bal[a] ELSE m2.bal[a]]]
          /\ mem' = EmptyMem /\ suicided' = {} /\ snaps' = <<>> /\ saved' = <<>>
          /\ UNCHANGED <<logs, refund>>

Next == \/ \E a \in Addrs, s \in Slots, v \in Vals : SetState(a, s, v)
        \/ \E a \in Addrs, n \in 0..MaxNonce : SetNonce(a, n)
        \/ \E a \in Addrs, c \in Codes : SetCode(a, c)
        \/ \E a \in Addrs, d \in 1..MaxBal : AddBalance(a, d) \/ SubBalance(a, d)
        \/ AddLog \/ \E g \in 1..MaxRefund : AddRefund(g) \/ SubRefund(g)
        \/ \E a \in Addrs : Suicide(a)
        \/ Snapshot \/ \E i \in 0..(MaxSnaps - 1) : Revert(i) \/ Discard(i)
        \/ Commit
Spec == Init /\ [][Next]_vars

TypeOK == Len(snaps) = Len(saved) /\ Len(snaps) <= MaxSnaps /\ logs \in 0..MaxLogs /\ refund \in 0..MaxRefund
\* C08: after reverting to snapshot i every getter reads exactly as when it was taken
RevertOK == [][act'.name = "Revert" /\ nops' # nops => Obs' = saved[act'.i + 1] /\ Len(snaps') = act'.i]_vars
\* every saved observation is what reverting would give (the invariant that makes RevertOK true)
SavedOK == \A i \in 1..Len(snaps) :
              LET sn == snaps[i] IN
              /\ saved[i].logs = sn.logs /\ saved[i].refund = sn.refund
              /\ \A a \in Addrs : saved[i].suicided[a] = (a \in sn.suicided)
              /\ \A a \in Addrs : saved[i].bal[a] = (IF sn.mem.bal[a] = UNK THEN base.bal[a] ELSE sn.mem.bal[a])
DiscardKeeps == [][act'.name = "Discard" /\ nops' # nops => Obs' = Obs]_vars

\* exported on edges: must determine the whole model state (everything in the VIEW), plus the observation
State == [obs |-> Obs, nsnaps |-> Len(snaps), base |-> base, mem |-> mem, snaps |-> snaps, sui |-> suicided]
=============================================================================
