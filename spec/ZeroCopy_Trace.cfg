SPECIFICATION TSpec
CONSTANTS
  Bufs = {}
  NArgs = {}
  BackArgs = {}
  Items = {}
  Acts = {}
  MaxCalls = 0
  MaxWrites = 0
  Spares = {}
INVARIANTS TypeOK
PROPERTIES TCanonical TEofOK
CONSTRAINT HW
POSTCONDITION Accepted
CHECK_DEADLOCK FALSE
