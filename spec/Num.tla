-------------------------------- MODULE Num --------------------------------
(***************************************************************************)
(* Numeric encodings of ontio/ontology (property C21):                     *)
(*   common/bigint.go   BigIntToNeoBytes / BigIntFromNeoBytes              *)
(*   common/int128.go   I128FromBigInt / I128.ToBigInt                     *)
(*   smartcontract/service/native/utils/serialization.go                   *)
(*                      EncodeVarUint / DecodeVarUint                      *)
(*   core/states/native_token_balance.go                                   *)
(*                      MustToStorageItem / NativeTokenBalanceFromStorageItem *)
(* The model is a family of functions (DESIGN.md section 5).  Two layers:  *)
(*  (I) mathematical integers -- the definition of "little-endian minimal  *)
(*      two's complement"; TLC can evaluate it for |v| < 2^23 only;        *)
(*  (D) integers as sign + magnitude digit strings (base 256, little       *)
(*      endian, no leading zero digit) -- the same functions for integers  *)
(*      of any size (2^64, 2^127, 2^256 boundaries), evaluated by TLC.     *)
(* LayersAgree (checked exhaustively by TLC on the small domain) ties (D)  *)
(* to (I).  The calls of the real code are replayed on layer (D).          *)
(***************************************************************************)
EXTENDS Integers, Sequences, FiniteSets, TLC, ZeroCopyOps

CONSTANTS Calls     \* set of calls offered by the model-checking configuration: [name, x] with x a sign+magnitude
                    \* integer for BigIntToNeoBytes / I128FromBigInt, [name, b] with b a byte / digit string otherwise

VARIABLES call, res
vars == <<call, res>>

\* =================================================================== layer (I)
RECURSIVE Pow256(_)
Pow256(n) == IF n = 0 THEN 1 ELSE 256 * Pow256(n - 1)
RECURSIVE LEBytes(_, _)
LEBytes(u, n) == IF n = 0 THEN <<>> ELSE <<u % 256>> \o LEBytes(u \div 256, n - 1)
RECURSIVE LEVal(_)
LEVal(bs) == IF bs = <<>> THEN 0 ELSE bs[1] + 256 * LEVal(Tail(bs))
\* the width of v: the least n with -2^(8n-1) <= v < 2^(8n-1)   (0 for v = 0)
RECURSIVE WidthFromI(_, _)
WidthFromI(v, n) == IF -(Pow256(n) \div 2) <= v /\ v < Pow256(n) \div 2 THEN n ELSE WidthFromI(v, n + 1)
WidthI(v) == IF v = 0 THEN 0 ELSE WidthFromI(v, 1)
NeoEncI(v) == LET n == WidthI(v) IN LEBytes(IF v >= 0 THEN v ELSE v + Pow256(n), n)
NeoDecI(bs) == IF bs = <<>> THEN 0
               ELSE IF bs[Len(bs)] >= 128 THEN LEVal(bs) - Pow256(Len(bs)) ELSE LEVal(bs)

\* =================================================================== layer (D)
RECURSIVE Strip(_)
Strip(ds) == IF ds = <<>> THEN <<>> ELSE IF ds[Len(ds)] = 0 THEN Strip(SubSeq(ds, 1, Len(ds) - 1)) ELSE ds
SM(neg, mag) == [neg |-> neg, mag |-> mag]          \* zero is SM(FALSE, <<>>)
IsSM(x) == (x.mag = <<>> => ~x.neg) /\ (x.mag # <<>> => x.mag[Len(x.mag)] # 0)
PadTo(ds, n) == [i \in 1..n |-> IF i <= Len(ds) THEN ds[i] ELSE 0]
\* two's complement negation modulo 256^Len: complement every digit, add one
RECURSIVE Inc(_)
Inc(ds) == IF ds = <<>> THEN <<>>
           ELSE IF ds[1] = 255 THEN <<0>> \o Inc(Tail(ds)) ELSE <<ds[1] + 1>> \o Tail(ds)
Compl(ds) == [i \in 1..Len(ds) |-> 255 - ds[i]]
Neg2c(ds) == Inc(Compl(ds))

\* BigIntFromNeoBytes: the value of a little-endian two's complement byte string of any width
NeoDec(bs) == IF bs = <<>> THEN SM(FALSE, <<>>)
              ELSE IF bs[Len(bs)] >= 128 THEN SM(TRUE, Strip(Neg2c(bs))) ELSE SM(FALSE, Strip(bs))
\* width of x (see WidthI): a positive magnitude needs a clear top bit, a negative one fits while |x| <= 2^(8n-1)
Width(x) == LET k == Len(x.mag) IN
            IF k = 0 THEN 0
            ELSE IF ~x.neg THEN (IF x.mag[k] >= 128 THEN k + 1 ELSE k)
            ELSE IF x.mag[k] < 128 \/ (x.mag[k] = 128 /\ \A i \in 1..(k - 1) : x.mag[i] = 0) THEN k ELSE k + 1
\* BigIntToNeoBytes: the minimal little-endian two's complement form
NeoEnc(x) == LET n == Width(x) IN IF x.neg THEN Neg2c(PadTo(x.mag, n)) ELSE PadTo(x.mag, n)
\* a byte string is the minimal form of its value iff there is no redundant sign byte
NeoMinimal(bs) == LET n == Len(bs) IN
                  /\ bs # <<0>>
                  /\ n >= 2 => ~((bs[n] = 0 /\ bs[n - 1] < 128) \/ (bs[n] = 255 /\ bs[n - 1] >= 128))

\* I128FromBigInt: 16-byte two's complement, error outside [-2^127, 2^127 - 1]; I128.ToBigInt
SignExt(bs, n, neg) == [i \in 1..n |-> IF i <= Len(bs) THEN bs[i] ELSE IF neg THEN 255 ELSE 0]
I128Enc(x) == IF Width(x) > 16 THEN [ok |-> FALSE, v |-> <<>>] ELSE [ok |-> TRUE, v |-> SignExt(NeoEnc(x), 16, x.neg)]
I128Dec(b16) == NeoDec(b16)

\* native contract varuint: EncodeVarUint(u64) = WriteVarBytes(BigIntToNeoBytes(u)); DecodeVarUint rejects eof,
\* irregular length prefix, negative values and values above 2^64 - 1
NatEnc(mag) == EncVarBytes(NeoEnc(SM(FALSE, mag)))
NatDec(buf) == LET r == RdVarBytes(buf, 0) IN
               IF r.eof THEN [err |-> "eof", v |-> <<>>, used |-> r.off]
               ELSE IF r.irr THEN [err |-> "irregular", v |-> <<>>, used |-> r.off]
               ELSE LET x == NeoDec(r.val) IN
                    IF x.neg \/ Len(x.mag) > 8 THEN [err |-> "range", v |-> <<>>, used |-> r.off]
                    ELSE [err |-> "ok", v |-> x.mag, used |-> r.off]

\* token balance storage item.  1e9 = 1000^3: division / multiplication of digit strings by 1000 keeps TLC's
\* intermediate values below 2^18.
RECURSIVE DivSmall(_, _)
DivSmall(ds, c) == IF ds = <<>> THEN [q |-> <<>>, r |-> 0]
                   ELSE LET hi == DivSmall(Tail(ds), c)
                            cur == hi.r * 256 + ds[1]
                        IN [q |-> <<cur \div c>> \o hi.q, r |-> cur % c]
RECURSIVE CarryDigits(_)
CarryDigits(c) == IF c = 0 THEN <<>> ELSE <<c % 256>> \o CarryDigits(c \div 256)
RECURSIVE MulC(_, _, _)
MulC(ds, c, carry) == IF ds = <<>> THEN CarryDigits(carry)
                      ELSE LET t == ds[1] * c + carry IN <<t % 256>> \o MulC(Tail(ds), c, t \div 256)
MulSmall(ds, c) == Strip(MulC(ds, c, 0))
Div1e9(ds) == LET a == DivSmall(ds, 1000)
                  b == DivSmall(Strip(a.q), 1000)
                  c == DivSmall(Strip(b.q), 1000)
              IN [whole |-> a.r = 0 /\ b.r = 0 /\ c.r = 0, q |-> Strip(c.q)]
Mul1e9(ds) == MulSmall(MulSmall(MulSmall(ds, 1000), 1000), 1000)
\* MustToStorageItem(balance >= 0): a whole number of tokens is stored as version 0 + uint64 (panics above 2^64-1:
\* outside the representation's range), any other balance as version 1 + NeoBytes
BalEnc(mag) == LET d == Div1e9(mag) IN
               IF d.whole THEN (IF Len(d.q) > 8 THEN [ok |-> FALSE, v |-> <<>>]
                                ELSE [ok |-> TRUE, v |-> <<0>> \o EncVarBytes(PadTo(d.q, 8))])
               ELSE [ok |-> TRUE, v |-> <<1>> \o EncVarBytes(NeoEnc(SM(FALSE, mag)))]
\* StorageItem.Deserialization + NativeTokenBalanceFromStorageItem
BalDec(buf) == LET ver == RdByte(buf, 0) IN
               IF ver.eof THEN [err |-> "eof", v |-> <<>>]
               ELSE LET r == RdVarBytes(buf, ver.off) IN
                    IF r.irr THEN [err |-> "irregular", v |-> <<>>]
                    ELSE IF r.eof THEN [err |-> "eof", v |-> <<>>]
                    ELSE IF ver.val[1] = 0
                         THEN (IF Len(r.val) < 8 THEN [err |-> "eof", v |-> <<>>]
                               ELSE [err |-> "ok", v |-> Mul1e9(Strip(SubSeq(r.val, 1, 8)))])
                         ELSE LET x == NeoDec(r.val) IN
                              IF x.neg THEN [err |-> "negative", v |-> <<>>] ELSE [err |-> "ok", v |-> x.mag]

\* =================================================================== the two layers agree (small domain)
ToSM(v) == SM(v < 0, Strip(LEBytes(IF v < 0 THEN -v ELSE v, 4)))
LayersAgreeOn(v) == /\ NeoEnc(ToSM(v)) = NeoEncI(v)
                    /\ Width(ToSM(v)) = WidthI(v)
                    /\ NeoDec(NeoEncI(v)) = ToSM(v)
LayersAgreeOnBytes(bs) == NeoDec(bs) = ToSM(NeoDecI(bs))

\* =================================================================== calls (one per public function)
Eval(c) ==
    CASE c.name = "BigIntToNeoBytes" -> [ok |-> TRUE, v |-> NeoEnc(c.x)]
      [] c.name = "BigIntFromNeoBytes" -> [ok |-> TRUE, v |-> NeoDec(c.b)]
      [] c.name = "I128FromBigInt" -> I128Enc(c.x)
      [] c.name = "I128ToBigInt" -> [ok |-> TRUE, v |-> I128Dec(c.b)]
      [] c.name = "EncodeVarUint" -> [ok |-> TRUE, v |-> NatEnc(c.b)]
      [] c.name = "DecodeVarUint" -> LET d == NatDec(c.b) IN [ok |-> d.err = "ok", v |-> d.v, err |-> d.err]
      [] c.name = "BalanceToItem" -> BalEnc(c.b)
      [] c.name = "BalanceFromItem" -> LET d == BalDec(c.b) IN [ok |-> d.err = "ok", v |-> d.v, err |-> d.err]

Init == call = [name |-> "Init"] /\ res = [ok |-> TRUE, v |-> <<>>]
\* every behaviour is one call (the functions are stateless)
Next == call.name = "Init" /\ \E c \in Calls : call' = c /\ res' = Eval(c)
Spec == Init /\ [][Next]_vars

\* =================================================================== properties (C21), per call
\* lossless: decoding an encoding returns the original value; minimal: the encoding is the shortest two's
\* complement form / the unique canonical item; canonical: re-encoding a decoded minimal string gives it back
CallOK(c, r) ==
    CASE c.name = "BigIntToNeoBytes" -> /\ IsSM(c.x) => NeoDec(r.v) = c.x
                                        /\ NeoMinimal(r.v)
                                        /\ Len(r.v) = Width(c.x)
      [] c.name = "BigIntFromNeoBytes" -> /\ IsSM(r.v)
                                          /\ NeoMinimal(c.b) <=> NeoEnc(r.v) = c.b
      [] c.name = "I128FromBigInt" -> /\ r.ok <=> Width(c.x) <= 16
                                      /\ r.ok => Len(r.v) = 16 /\ I128Dec(r.v) = c.x
      [] c.name = "I128ToBigInt" -> /\ IsSM(r.v) /\ Width(r.v) <= 16
                                    /\ LET e == I128Enc(r.v) IN e.ok /\ e.v = c.b
      [] c.name = "EncodeVarUint" -> LET d == NatDec(r.v) IN d.err = "ok" /\ d.v = c.b /\ d.used = Len(r.v)
      [] c.name = "DecodeVarUint" -> r.ok => (NatEnc(r.v) = SubSeq(c.b, 1, NatDec(c.b).used) <=> NeoMinimal(RdVarBytes(c.b, 0).val))
      [] c.name = "BalanceToItem" -> r.ok => LET d == BalDec(r.v) IN d.err = "ok" /\ d.v = c.b
      [] c.name = "BalanceFromItem" -> r.ok => LET e == BalEnc(r.v) IN
                                               \* the canonical item of the decoded balance decodes to the same balance
                                               e.ok => BalDec(e.v).v = r.v
AllCallsOK == [][CallOK(call', res')]_vars
=============================================================================
