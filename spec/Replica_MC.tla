----------------------------- MODULE Replica_MC -----------------------------
EXTENDS Replica, ReplicaProbe, Json
KindsAll == {"transfer", "witness0", "deploy0", "evm"}
KindsChain == KindsAll \cup {"setparam"}
KindsEnv == {"envhash", "envctx", "envhdr"}
KindsPath == {"transfer"} \cup KindsEnv
KindsIntent == KindsChain \cup KindsEnv
PathsAll == {"exec-submit", "addblock", "headers-addblock"}
PathsOne == {"addblock"}
Needs == {"transfer", "witness0"}
Fees == {"transfer"}
StateOut0 == 0
StateOut == [digestA |-> digestA, digestB |-> digestB, param |-> param, gA |-> gA, gB |-> gB, nrestart |-> nrestart]
Edge == PrintT(<<"EDGE", ToJson([from |-> StateOut, act |-> act', to |-> StateOut'])>>)
InitOut == (TLCGet("level") = 1) => PrintT(<<"INIT", ToJson(StateOut)>>)
=============================================================================
