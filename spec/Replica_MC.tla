----------------------------- MODULE Replica_MC -----------------------------
EXTENDS Replica, ReplicaProbe, Json
KindsAll == {"transfer", "witness0", "deploy0", "evm"}
Needs == {"transfer", "witness0"}
StateOut == [digestA |-> digestA, digestB |-> digestB]
Edge == PrintT(<<"EDGE", ToJson([from |-> StateOut, act |-> act', to |-> StateOut'])>>)
InitOut == (TLCGet("level") = 1) => PrintT(<<"INIT", ToJson(StateOut)>>)
=============================================================================
