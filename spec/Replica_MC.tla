----------------------------- MODULE Replica_MC -----------------------------
EXTENDS Replica, ReplicaProbe, Json
KindsAll == {"transfer", "witness0", "deploy0", "evm"}
KindsChain == KindsAll \cup {"setparam"}
Needs == {"transfer", "witness0"}
Fees == {"transfer"}
StateOut0 == 0
StateOut == [digestA |-> digestA, digestB |-> digestB, param |-> param, gA |-> gA, gB |-> gB, nrestart |-> nrestart]
Edge == PrintT(<<"EDGE", ToJson([from |-> StateOut, act |-> act', to |-> StateOut'])>>)
InitOut == (TLCGet("level") = 1) => PrintT(<<"INIT", ToJson(StateOut)>>)
=============================================================================
