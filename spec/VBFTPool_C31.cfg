\* quick, as coded, N=4 C=1: exhaustive, every edge exported for replay on the real BlockPool
SPECIFICATION Spec
CONSTANTS
  N = 4
  C = 1
  EndorserSet <- EndorserSet4
  QM <- QM4
  QS <- QS4
  TE <- TE4
  SW_Verify = FALSE
  SW_PerBlock = FALSE
  SW_Proposer = FALSE
  Proposers <- Proposers1
  MaxProp = 1
  MaxEnd = 0
  MaxCom = 2
  MaxForged = 1
  MaxClaims = 2
  ForgePok = FALSE
VIEW view
INVARIANTS TypeOK
CONSTRAINT InitOut
ACTION_CONSTRAINT Edge
CHECK_DEADLOCK FALSE
