---------------------------- MODULE NeoVMInterop ----------------------------
(***************************************************************************)
(* NeoVM INTEROP HANDLES as a typed producer / consumer state machine       *)
(* (property C12: no transaction or pre-execution request crashes the node).*)
(*                                                                          *)
(* Code being described (smartcontract/service/neovm):                      *)
(*   producers  blockchain.go  BlockChainGetContract, BlockChainGetHeaderNew*)
(*              deprecated.go  BlockChainGetHeader/GetBlock/GetTransaction/ *)
(*                             GetTransactionHeight (legacy API)            *)
(*              contract.go    ContractCreate, ContractMigrate              *)
(*              storage.go     StorageGetContext, StorageGetReadOnlyContext *)
(*              system.go      GetCodeContainer                             *)
(*              block.go       BlockGetTransaction(s)                       *)
(*   consumers  header.go, block.go, transaction.go, attribute.go getters,  *)
(*              contract.go ContractGetCode / ContractGetStorageContext,    *)
(*              storage.go  StorageGet/Put/Delete, storage_context.go,      *)
(*              runtime.go  RuntimeNotify/Log/Serialize, NativeInvoke,      *)
(*              vm/neovm    EQUAL, PACK, PICKITEM, SHA256, ARRAYSIZE, NOT,  *)
(*              and the conversion of the value left on the stack by        *)
(*              LedgerStoreImp.PreExecuteContract (ConvertNeoVmValueHex..). *)
(*                                                                          *)
(* A HANDLE is an interop stack item [kind, ref, valid].  `valid` = the Go  *)
(* interface holds a non-nil object.  A producer asked for an ABSENT target *)
(* (height/hash not in the ledger, contract never deployed or destroyed)    *)
(* must FAIL (the script faults); it must never push a handle that refers   *)
(* to nothing (in Go: a typed nil pointer inside a non-nil interface, which *)
(* passes every `Data == nil` guard and every type assertion).  Named       *)
(* deviation NilOnAbsent = set of producers that do exactly that; then      *)
(* every consumer whose type assertion succeeds dereferences nil: "crash".  *)
(*                                                                          *)
(* One behaviour = one script (one transaction / one pre-execution request) *)
(* The model keeps the evaluation stack at depth <= 1 (`top`): producers    *)
(* need an empty stack, consumers pop the handle and push their result.     *)
(* `world` = state of two contracts in the transaction's cache: K was       *)
(* deployed in an earlier block (committed), D is only known to this script.*)
(* Both contracts consist of `System.Contract.Destroy`, so APPCALL destroys *)
(* them: within the same transaction a committed contract can be destroyed  *)
(* in the cache while the ledger still has it.                              *)
(***************************************************************************)
EXTENDS Integers, Sequences, FiniteSets, TLC

CONSTANTS
    Modes,          \* subset of {"tx", "pre"}: block execution / RPC pre-execution
    Apis,           \* subset of {"new", "legacy"}: legacy = height < CONTRACT_DEPRECATE_API_HEIGHT (ServiceMapDeprecated)
    ContractView,   \* table read by Blockchain.GetContract: "committed" (ledger store, as coded) or "cache"
    NilOnAbsent,    \* named deviation: producers that push a handle to nothing instead of failing
    LedgerOnce      \* TRUE: the producers that do not depend on the contract table are explored in the initial world only

VARIABLES mode, api, world, top, status, act
vars == <<mode, api, world, top, status, act>>
view == <<mode, api, world, top, status>>
State == [mode |-> mode, api |-> api, world |-> world, top |-> top, status |-> status]

Contracts == {"K", "D"}
Committed(c) == c = "K"
WStates == {"absent", "live", "destroyed"}
Kinds == {"header", "hvalue", "block", "tx", "contract", "sctx", "sctxro"}
Refs == Contracts \cup {"never", "-"}

Item(t, k, r, v) == [t |-> t, kind |-> k, ref |-> r, valid |-> v]
Empty == Item("empty", "-", "-", TRUE)
Plain == Item("plain", "-", "-", TRUE)        \* integer / byte string / boolean
H(k, r, v) == Item("h", k, r, v)              \* interop handle
Arr(k, r, v) == Item("arr", k, r, v)          \* array whose elements are handles of that kind
Items == [t : {"empty", "plain", "h", "arr"}, kind : Kinds \cup {"-"}, ref : Refs, valid : BOOLEAN]

TypeOK == /\ mode \in Modes /\ api \in Apis
          /\ world \in [Contracts -> WStates]
          /\ top \in Items
          /\ status \in {"run", "halt", "fault", "crash"}

InitWorld == [c \in Contracts |-> IF Committed(c) THEN "live" ELSE "absent"]

Init == /\ mode \in Modes /\ api \in Apis
        /\ world = InitWorld
        /\ top = Empty
        /\ status = "run"
        /\ act = [name |-> "Init", arg |-> "-"]

\* guard of the producers whose result does not depend on `world` (ledger look-ups, script container, storage
\* contexts): exploring them once, in the initial world, loses no transition of theirs
Indep == LedgerOnce => world = InitWorld
\* the same for the operations on ONE contract: they read and write world[c] only
Only(c) == LedgerOnce => \A o \in Contracts \ {c} : world[o] = InitWorld[o]

-----------------------------------------------------------------------------
(* outcomes of one step *)
Go(newtop, newworld) == /\ top' = newtop /\ world' = newworld /\ status' = "run" /\ UNCHANGED <<mode, api>>
Fault == /\ status' = "fault" /\ UNCHANGED <<mode, api, world, top>>      \* the script ends with an error
Crash == /\ status' = "crash" /\ UNCHANGED <<mode, api, world, top>>      \* nil dereference: the process dies
Named(n, a) == act' = [name |-> n, arg |-> a]

Legacy == api = "legacy"
\* a producer that found (present) or did not find its target
Produce(name, present, k, r) ==
    IF present THEN Go(H(k, r, TRUE), world)
    ELSE IF name \in NilOnAbsent THEN Go(H(k, r, FALSE), world)
    ELSE Fault

\* a consumer that type-asserts the handle to one of `kinds` and then uses the object
Use(kinds, result, newworld) ==
    IF top.t = "h" /\ top.kind \in kinds
    THEN (IF top.valid THEN Go(result, newworld) ELSE Crash)
    ELSE Fault                                    \* not an interop item, or "Wrong type"

-----------------------------------------------------------------------------
(* PRODUCERS (need an empty stack).  Ledger targets: "cur" = height of the block being executed (not stored   *)
(* yet), "hpresent"/"habsent" = a stored / an out-of-range height, "xpresent"/"xabsent" = a known / an unknown *)
(* 32-byte hash, "bad" = argument of the wrong length.                                                        *)
LedgerTargets == {"cur", "hpresent", "habsent", "xpresent", "xabsent", "bad"}
HashTargets == {"xpresent", "xabsent", "bad"}
Stored(t) == t \in {"hpresent", "xpresent"}

GetHeader(t) ==
    /\ status = "run" /\ top = Empty /\ Indep /\ Named("GetHeader", t)
    /\ IF Legacy THEN (IF t = "bad" THEN Fault ELSE Produce("GetHeader", Stored(t), "header", "-"))
       ELSE (IF t = "cur" THEN Go(H("hvalue", "-", TRUE), world) ELSE Fault)    \* BlockChainGetHeaderNew: current header only

GetBlock(t) ==
    /\ status = "run" /\ top = Empty /\ Indep /\ Named("GetBlock", t)
    /\ IF Legacy THEN (IF t = "bad" THEN Fault ELSE Produce("GetBlock", Stored(t), "block", "-"))
       ELSE Fault                                                                \* service not supported

GetTransaction(t) ==
    /\ status = "run" /\ top = Empty /\ Indep /\ Named("GetTransaction", t)
    /\ IF Legacy THEN (IF t = "bad" THEN Fault ELSE Produce("GetTransaction", Stored(t), "tx", "-"))
       ELSE Fault

GetTransactionHeight(t) ==          \* same look-up, pushes an integer
    /\ status = "run" /\ top = Empty /\ Indep /\ Named("GetTransactionHeight", t)
    /\ IF Legacy /\ Stored(t) THEN Go(Plain, world) ELSE Fault

ContractTargets == Contracts \cup {"never", "bad"}
Found(c) == /\ c \in Contracts
            /\ IF ContractView = "committed" THEN Committed(c) ELSE world[c] = "live"
GetContract(c) ==
    /\ status = "run" /\ top = Empty /\ Only(c) /\ Named("GetContract", c)
    /\ IF c = "bad" THEN Fault ELSE Produce("GetContract", Found(c), "contract", c)

GetScriptContainer ==
    /\ status = "run" /\ top = Empty /\ Indep /\ Named("GetScriptContainer", "-")
    /\ Go(H("tx", "-", TRUE), world)

GetContext(ro) ==
    /\ status = "run" /\ top = Empty /\ Indep /\ Named("GetContext", ro)
    /\ Go(H(IF ro = "ro" THEN "sctxro" ELSE "sctx", "-", TRUE), world)

\* Ontology.Contract.Create: deploys, or returns the deployed contract; a destroyed address cannot be reused
Create(c) ==
    /\ status = "run" /\ top = Empty /\ Only(c) /\ Named("Create", c)
    /\ CASE world[c] = "absent" -> Go(H("contract", c, TRUE), [world EXCEPT ![c] = "live"])
         [] world[c] = "live" -> Go(H("contract", c, TRUE), world)
         [] OTHER -> Produce("Create", FALSE, "contract", c)

\* Ontology.Contract.Migrate (from the entry script): the new address must be unused
Migrate(c) ==
    /\ status = "run" /\ top = Empty /\ Only(c) /\ Named("Migrate", c)
    /\ IF world[c] = "absent" THEN Go(H("contract", c, TRUE), [world EXCEPT ![c] = "live"]) ELSE Fault

\* APPCALL c: the contract destroys itself.  Destroyed addresses are only remembered from
\* BLOCKHEIGHT_TRACK_DESTROYED_CONTRACT on, which lies above the legacy API range.
AppCall(c) ==
    /\ status = "run" /\ top = Empty /\ Only(c) /\ Named("AppCall", c)
    /\ IF c \in Contracts /\ world[c] = "live"
       THEN Go(Empty, [world EXCEPT ![c] = IF Legacy THEN "absent" ELSE "destroyed"])
       ELSE Fault

-----------------------------------------------------------------------------
(* CONSUMERS (need an item on the stack) *)
HeaderFieldsAll == {"Hash", "Index", "Timestamp"}                                              \* ServiceMap
HeaderFieldsLegacy == {"Version", "PrevHash", "MerkleRoot", "ConsensusData", "NextConsensus"}  \* ServiceMapDeprecated
HeaderGet(f) ==
    /\ status = "run" /\ top # Empty /\ Named("HeaderGet", f)
    /\ IF f \in HeaderFieldsAll THEN Use({"header", "block", "hvalue"}, Plain, world)
       ELSE IF Legacy THEN Use({"header", "block"}, Plain, world) ELSE Fault

BlockGetTransactionCount ==
    /\ status = "run" /\ top # Empty /\ Named("BlockGetTransactionCount", "-")
    /\ IF Legacy THEN Use({"block"}, Plain, world) ELSE Fault
BlockGetTransactions ==
    /\ status = "run" /\ top # Empty /\ Named("BlockGetTransactions", "-")
    /\ IF Legacy THEN Use({"block"}, Arr("tx", "-", TRUE), world) ELSE Fault
BlockGetTransaction(i) ==            \* i = "in" / "out" of range
    /\ status = "run" /\ top # Empty /\ Named("BlockGetTransaction", i)
    /\ IF ~Legacy THEN Fault
       ELSE IF i = "in" THEN Use({"block"}, H("tx", "-", TRUE), world)
       ELSE IF top.t = "h" /\ top.kind = "block" /\ ~top.valid THEN Crash ELSE Fault

TxGet(f) ==                          \* Hash, Type
    /\ status = "run" /\ top # Empty /\ Named("TxGet", f)
    /\ Use({"tx"}, Plain, world)
TxGetAttributes ==                   \* pops any interop item, never looks at it; (+ ARRAYSIZE of the empty list)
    /\ status = "run" /\ top # Empty /\ Named("TxGetAttributes", "-")
    /\ IF Legacy /\ top.t = "h" THEN Go(Plain, world) ELSE Fault
AttrGet(f) ==                        \* Usage, Data: no syscall produces an attribute handle
    /\ status = "run" /\ top # Empty /\ Named("AttrGet", f)
    /\ IF Legacy THEN Use({}, Plain, world) ELSE Fault

ContractGetScript ==
    /\ status = "run" /\ top # Empty /\ Named("ContractGetScript", "-")
    /\ Use({"contract"}, Plain, world)
\* the handle must be the EXECUTING contract (never the case for an entry script).  As coded, a contract that is
\* no longer in the cache makes the service return NewDetailErr(nil, ..) = nil: no error and nothing pushed.
ContractGetStorageContext ==
    /\ status = "run" /\ top # Empty /\ Named("ContractGetStorageContext", "-")
    /\ IF top.t = "h" /\ top.kind = "contract" /\ top.valid /\ world[top.ref] = "live" THEN Fault
       ELSE Use({"contract"}, Empty, world)

StoragePut ==
    /\ status = "run" /\ top # Empty /\ Named("StoragePut", "-")
    /\ IF top.t = "h" /\ top.kind = "sctxro" /\ top.valid THEN Fault ELSE Use({"sctx", "sctxro"}, Empty, world)
StorageDelete ==
    /\ status = "run" /\ top # Empty /\ Named("StorageDelete", "-")
    /\ IF top.t = "h" /\ top.kind = "sctxro" /\ top.valid THEN Fault ELSE Use({"sctx", "sctxro"}, Empty, world)
StorageGet ==
    /\ status = "run" /\ top # Empty /\ Named("StorageGet", "-")
    /\ Use({"sctx", "sctxro"}, Plain, world)
AsReadOnly ==
    /\ status = "run" /\ top # Empty /\ Named("AsReadOnly", "-")
    /\ Use({"sctx", "sctxro"}, H("sctxro", "-", TRUE), world)

\* consumers that take ANY stack item
Notify ==                            \* ConvertNeoVmValueHexString: interop.Data.ToArray() on every handle
    /\ status = "run" /\ top # Empty /\ Named("Notify", "-")
    /\ IF top.valid THEN Go(Empty, world) ELSE Crash
Log ==                               \* PopAsBytes
    /\ status = "run" /\ top # Empty /\ Named("Log", "-")
    /\ IF top.t = "plain" THEN Go(Empty, world) ELSE Fault
Serialize ==                         \* "not support type: interopType"
    /\ status = "run" /\ top # Empty /\ Named("Serialize", "-")
    /\ IF top.t = "plain" THEN Go(Plain, world) ELSE Fault
EqualSelf ==                         \* DUP EQUAL: InteropValue.Equals -> ToArray on both sides; arrays by reference
    /\ status = "run" /\ top # Empty /\ Named("EqualSelf", "-")
    /\ IF top.t = "h" /\ ~top.valid THEN Crash ELSE Go(Plain, world)
EqualCtx ==                          \* <fresh storage context> EQUAL: two interop items of different Go types
    /\ status = "run" /\ top # Empty /\ Named("EqualCtx", "-")
    /\ IF top.t = "h" /\ ~top.valid THEN Crash ELSE Go(Plain, world)
Pack ==                              \* PUSH1 PACK
    /\ status = "run" /\ top.t = "h" /\ Named("Pack", "-")
    /\ Go(Arr(top.kind, top.ref, top.valid), world)
Pick0 ==                             \* PUSH0 PICKITEM
    /\ status = "run" /\ top.t \in {"h", "arr"} /\ Named("Pick0", "-")
    /\ IF top.t = "arr" THEN Go(H(top.kind, top.ref, top.valid), world) ELSE Fault
Sha256 ==
    /\ status = "run" /\ top # Empty /\ Named("Sha256", "-")
    /\ IF top.t = "plain" THEN Go(Plain, world) ELSE Fault
ArraySize ==
    /\ status = "run" /\ top # Empty /\ Named("ArraySize", "-")
    /\ IF top.t = "h" THEN Fault ELSE Go(Plain, world)
Not ==                               \* AsBool: an interop item is TRUE, an array is a type error
    /\ status = "run" /\ top # Empty /\ Named("Not", "-")
    /\ IF top.t = "arr" THEN Fault ELSE Go(Plain, world)
NativeArg ==                         \* the handle as argument of Ontology.Native.Invoke(ont.transfer): BuildParamToNative refuses it
    /\ status = "run" /\ top.t \in {"h", "arr"} /\ Named("NativeArg", "-")
    /\ Fault
CheckWitness ==                      \* PopAsBytes; one byte is no address / public key
    /\ status = "run" /\ top # Empty /\ Named("CheckWitness", "-")
    /\ Fault
Drop ==
    /\ status = "run" /\ top # Empty /\ Named("Drop", "-")
    /\ Go(Empty, world)

\* end of the script: the item on top of the stack is the result.  Block execution ignores it; pre-execution
\* converts it for the RPC answer (PreExecuteContract -> ConvertNeoVmValueHexString -> ToArray on every handle).
End ==
    /\ status = "run" /\ Named("End", "-")
    /\ IF mode = "pre" /\ ~top.valid THEN Crash
       ELSE /\ status' = "halt" /\ UNCHANGED <<mode, api, world, top>>

Next ==
    \/ \E t \in LedgerTargets : GetHeader(t) \/ GetBlock(t)
    \/ \E t \in HashTargets : GetTransaction(t) \/ GetTransactionHeight(t)
    \/ \E c \in ContractTargets : GetContract(c)
    \/ GetScriptContainer
    \/ \E ro \in {"rw", "ro"} : GetContext(ro)
    \/ \E c \in Contracts : Create(c) \/ Migrate(c)
    \/ \E c \in Contracts \cup {"never"} : AppCall(c)
    \/ \E f \in HeaderFieldsAll \cup HeaderFieldsLegacy : HeaderGet(f)
    \/ BlockGetTransactionCount \/ BlockGetTransactions
    \/ \E i \in {"in", "out"} : BlockGetTransaction(i)
    \/ \E f \in {"Hash", "Type"} : TxGet(f)
    \/ TxGetAttributes
    \/ \E f \in {"Usage", "Data"} : AttrGet(f)
    \/ ContractGetScript \/ ContractGetStorageContext
    \/ StoragePut \/ StorageDelete \/ StorageGet \/ AsReadOnly
    \/ Notify \/ Log \/ Serialize \/ EqualSelf \/ EqualCtx \/ Pack \/ Pick0 \/ Sha256 \/ ArraySize \/ Not
    \/ NativeArg \/ CheckWitness \/ Drop \/ End

Spec == Init /\ [][Next]_vars

-----------------------------------------------------------------------------
(* PROPERTIES *)
\* C12 on the model: no script reaches a nil dereference
Total == status # "crash"
\* the reason: every handle on the stack refers to an object ...
NoNilHandle == top.valid
\* ... and it refers to an object of its own kind that exists for the view it was taken from
HandleRefOK == (top.t \in {"h", "arr"} /\ top.kind = "contract") => top.ref \in Contracts
\* under a deviation: only the use of a handle to nothing kills, and such handles come from the named producers only
CrashOnlyByNil == status = "crash" => ~top.valid
NilOnlyByDeviation == ~top.valid => NilOnAbsent # {}
\* every step of a running script is defined: it continues, ends, or faults (checked as: some action is always enabled)
Defined == status = "run" => ENABLED End
=============================================================================
