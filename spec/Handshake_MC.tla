---------------------------- MODULE Handshake_MC ----------------------------
EXTENDS Handshake, Json

\* --- ONE world for all configurations; a scenario (chosen by Init) says which attempts may start.  -------------
\* A, B   two ordinary nodes of network 1 (DHT ids)
\* M      a node of another network (magic 2)            O   a node of an old release (no DHT ids: pseudo ids)
\* D      a node presenting the id of A from another IP  V   a node with protocol version 0 (< MinVer = 1)
NodesM == {"A", "B", "M", "O", "D", "V"}
\* c1 A->B   c2 B->A (simultaneous open with c1)   c3 A->B again (reconnect: replacement path at B)
\* c4, c8 A->A (a node dialling its own address)    m1 M->B  m2 B->M   o1 O->B  o2 B->O   o4, o8 O->O   a1 A->O
\* d1 D->B   d2 D->A   v1 V->B
ConnsM == {"c1", "c2", "c3", "c4", "c8", "m1", "m2", "o1", "o2", "o4", "o8", "a1", "d1", "d2", "v1"}
ClM == "c1" :> "A" @@ "c2" :> "B" @@ "c3" :> "A" @@ "c4" :> "A" @@ "c8" :> "A" @@ "m1" :> "M" @@ "m2" :> "B" @@ "o1" :> "O"
       @@ "o2" :> "B" @@ "o4" :> "O" @@ "o8" :> "O" @@ "a1" :> "A" @@ "d1" :> "D" @@ "d2" :> "D" @@ "v1" :> "V"
SvM == "c1" :> "B" @@ "c2" :> "A" @@ "c3" :> "B" @@ "c4" :> "A" @@ "c8" :> "A" @@ "m1" :> "B" @@ "m2" :> "M" @@ "o1" :> "B"
       @@ "o2" :> "O" @@ "o4" :> "O" @@ "o8" :> "O" @@ "a1" :> "O" @@ "d1" :> "B" @@ "d2" :> "A" @@ "v1" :> "B"
EphM == [c \in ConnsM |-> "e" \o c]

InfoM == "A" :> [id |-> "ia", ver |-> 1, soft |-> "dht", svc |-> 2, port |-> 20338, height |-> 7]
      @@ "B" :> [id |-> "ib", ver |-> 1, soft |-> "dht", svc |-> 2, port |-> 20339, height |-> 9]
      @@ "M" :> [id |-> "im", ver |-> 1, soft |-> "dht", svc |-> 2, port |-> 20340, height |-> 11]
      @@ "O" :> [id |-> "io", ver |-> 1, soft |-> "old", svc |-> 1, port |-> 20341, height |-> 13]
      @@ "D" :> [id |-> "ia", ver |-> 1, soft |-> "dht", svc |-> 2, port |-> 20342, height |-> 15]
      @@ "V" :> [id |-> "iv", ver |-> 0, soft |-> "dht", svc |-> 2, port |-> 20343, height |-> 17]
PseudoM == "ia" :> "pia" @@ "ib" :> "pib" @@ "im" :> "pim" @@ "io" :> "pio" @@ "iv" :> "piv"
MagicM == "A" :> 1 @@ "B" :> 1 @@ "M" :> 2 @@ "O" :> 1 @@ "D" :> 1 @@ "V" :> 1
IpM == "A" :> "10.0.0.1" @@ "B" :> "10.0.0.2" @@ "M" :> "10.0.0.3" @@ "O" :> "10.0.0.4" @@ "D" :> "10.0.0.5" @@ "V" :> "10.0.0.6"
AddrM == [n \in NodesM |-> "L" \o n]
FaultsAll == {"dialfail", "timeout", "break", "junk", "magic"}

Sc(cs, f) == [conns |-> cs, maxf |-> f]
\* quick tier: every transition of these scenarios is replayed on the real code (four TLC runs of similar size)
ScQ1 == {Sc({"c1", "d1"}, 0)}             \* the id of a connected peer from another IP (checkPeerIdAndIP)
ScQ2 == {Sc({"c1", "c2"}, 0),             \* simultaneous open
         Sc({"v1"}, 0)}                   \* too old protocol version: admitted as coded
ScQ3 == {Sc({"d2", "c1"}, 0),             \* a node with my id dials me
         Sc({"c1", "c3"}, 0),             \* reconnect: replacement path
         Sc({"c4", "c8"}, 0)}             \* a node dials itself
ScQ4 == {Sc({"c1"}, 2),                   \* one dial, every fault kind, up to two faults
         Sc({"o1", "o2"}, 0),             \* a peer without DHT ids (pseudo ids)
         Sc({"a1"}, 1),                   \* non-DHT handshake with a fault
         Sc({"m1", "m2"}, 0),             \* a peer of another network
         Sc({"o4", "o8"}, 0)}             \* a node dials itself and meets its own PSEUDO id
ScQuick == ScQ1 \cup ScQ2 \cup ScQ3 \cup ScQ4
ScTV == {Sc({"c1"}, 2), Sc({"c1", "c2"}, 0), Sc({"c1", "c3"}, 0), Sc({"c1", "d1"}, 0), Sc({"a1"}, 1), Sc({"c4", "c8"}, 0)}
ScThorough == {Sc({"c1", "c2"}, 1), Sc({"c1", "c3"}, 1), Sc({"c1", "c2", "c3"}, 0), Sc({"o1", "o2"}, 1), Sc({"c1", "d1"}, 1)}
ScSim == {Sc({"c1", "c2", "c3", "d1", "o1", "o2", "m1"}, 2), Sc({"c1", "c2", "c3", "a1", "o1", "v1", "d2"}, 2)}
ScRe == {Sc({"c1", "c3"}, 0)}
ScVer == {Sc({"v1"}, 0)}
ScLive == {Sc({"c1"}, 0), Sc({"a1"}, 0)}     \* DHT ids / pseudo ids
ScLiveSim == {Sc({"c1", "c2"}, 0)}

Sub(f, S) == [x \in S |-> f[x]]
Used == UNION {{Cl[c], Sv[c]} : c \in allowed}
State == [allowed |-> allowed, nf |-> nf,
          cp |-> Sub(cp, allowed), sp |-> Sub(sp, allowed), made |-> Sub(made, allowed), brk |-> Sub(brk, allowed),
          qcs |-> Sub(qcs, allowed), qsc |-> Sub(qsc, allowed),
          nbr |-> [n \in Used |-> {[id |-> i, c |-> nbr[n][i].c, from |-> nbr[n][i].from] : i \in {j \in AllIds : nbr[n][j].c # None}}],
          cpeers |-> [n \in Used |-> {[id |-> i, c |-> cpeers[n][i]] : i \in {j \in AllIds : cpeers[n][j] # None}}],
          inb |-> Sub(inb, Used), outb |-> Sub(outb, Used), lsn |-> Sub(lsn, Used), cing |-> Sub(cing, Used), own |-> Sub(own, Used)]
World == [nodes |-> [n \in Nodes |-> Info[n]], magic |-> [n \in Nodes |-> MagicOf[n]], ip |-> [n \in Nodes |-> IpOf[n]],
          addr |-> [n \in Nodes |-> Addr[n]], conns |-> [c \in Conns |-> [cl |-> Cl[c], sv |-> Sv[c], eph |-> Eph[c]]],
          pseudo |-> [n \in Nodes |-> Pseudo[Info[n].id]], faults |-> FaultKinds, maxFaults |-> MaxFaults, closes |-> Closes]

Edge == PrintT(<<"EDGE", ToJson([from |-> State, act |-> act', to |-> State'])>>)
InitOut == (TLCGet("level") = 1) => (PrintT(<<"INIT", ToJson(State)>>) /\ PrintT(<<"NOTE", ToJson(World)>>))

\* the version test the code does not have (CheckVersion = FALSE): fails in the scenario {v1}
NoOldVer == \A n \in Nodes : \A i \in Entries(n) : Info[nbr[n][i].from].ver >= MinVer
=============================================================================
