------------------------------ MODULE Token_MC ------------------------------
EXTENDS Token, Json
\* constants for model checking + edge export (props/_token.py)
U2 == {"A", "B"}
U3 == {"A", "B", "C"}
OCv == "OC"
HugeV == 99
TOnt == {"ont"}
TOng == {"ong"}
TBoth == {"ont", "ong"}
AV1 == {0, 2, 4, HugeV}
AV2 == {0, 1, 3, HugeV}
AV1q == {0, 2, HugeV}
AV2q == {1, 3}
AV1u == {0, 2}
AV2u == {1, HugeV}
Sig2u == {{}, {"A"}, {"A", "B"}}
Sig2 == SUBSET U2
Sig3 == SUBSET U3
Sig3s == {{}, {"A"}, {"B"}, {"A", "C"}}
PPre == {"pre"}
PPost == {"post"}
PBoth == {"pre", "post"}
NoGrant == {-1}
Grants == {-1, 0, 1}
Grants2 == {-1, 1}
ZeroAllow(us) == [t \in {"ont", "ong"} |-> [a \in us \cup {OCv} |-> [s \in us \cup {OCv} |-> 0]]]
Bal2 == [t \in {"ont", "ong"} |-> [a \in U2 \cup {OCv} |-> IF a = "A" THEN 3 ELSE IF a = "B" THEN 2 ELSE IF t = "ong" THEN 3 ELSE 0]]
Bal3 == [t \in {"ont", "ong"} |-> [a \in U3 \cup {OCv} |-> IF a = "A" THEN 3 ELSE IF a = "B" THEN 2 ELSE IF a = "C" THEN 0 ELSE IF t = "ong" THEN 3 ELSE 0]]
Allow2 == ZeroAllow(U2)
Allow3 == ZeroAllow(U3)

Edge == PrintT(<<"EDGE", ToJson([from |-> State, act |-> act', to |-> State'])>>)
InitOut == (TLCGet("level") = 1) => PrintT(<<"INIT", ToJson(State)>>)
=============================================================================
