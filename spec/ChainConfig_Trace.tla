-------------------------- MODULE ChainConfig_Trace --------------------------
(* Trace validation for ChainConfig: every event recorded from the real code                  *)
(*   Reset     (stake set, K/L/C, real shuffle-hash table of the case's txhash/height)        *)
(*   Configure (the list order handed to the real GenesisChainConfig, the real ChainConfig)   *)
(*   SetChain  (a real ChainConfig, produced by the real GenesisChainConfig)                  *)
(*   Select    (the real 64-byte seed of getParticipantSelectionSeed, the real P/E/Cm)        *)
(* must be the corresponding action of ChainConfig with exactly the observed result, and the  *)
(* property invariants must hold in the resulting states (= on the real outputs).             *)
EXTENDS ChainConfig, Json
Tr == ndJsonDeserialize("trace.ndjson")
VARIABLE l
tvars == <<vars, l>>

TNone == {}
TLists(pl) == {}
TActs == {"Configure", "Select", "Reconfigure", "Reselect"}

ASSUME TLCSet(1, 0)
Max(a, b) == IF a > b THEN a ELSE b
HW == TLCSet(1, Max(TLCGet(1), l))
Accepted == /\ PrintT(<<"HW", TLCGet(1) - 1>>)
            /\ TLCGet(1) = Len(Tr) + 1

Ev == Tr[l]
IsEvent(n) == l <= Len(Tr) /\ Ev.event = n /\ l' = l + 1

TInit == /\ l = 1 /\ pool = {} /\ conf = [K |-> 0, L |-> 0, C |-> 0] /\ sh = [id |-> 0, t |-> <<>>]
         /\ chain = NoChain /\ parts = NoParts /\ act = [name |-> "Init"]

TReset == /\ IsEvent("Reset")
          /\ pool' = ToSet(Ev.pool) /\ conf' = Ev.conf /\ sh' = [id |-> l, t |-> Ev.sh]
          /\ chain' = NoChain /\ parts' = NoParts /\ act' = [name |-> "Reset"]

TSetChain == /\ IsEvent("SetChain")
             /\ chain' = Ev.chain /\ parts' = NoParts /\ act' = [name |-> "SetChain"]
             /\ UNCHANGED <<pool, conf, sh>>

TConfigure == /\ IsEvent("Configure")
              /\ Configure(Ev.list)
              /\ chain' = Ev.out                      \* what the real GenesisChainConfig returned

TSelect == /\ IsEvent("Select")
           /\ Select(Ev.vrf)
           /\ IsParts(parts')
           /\ parts'.P = Ev.P /\ parts'.E = Ev.E /\ parts'.Cm = Ev.Cm     \* what the real calcParticipantPeers returned

TNext == TReset \/ TSetChain \/ TConfigure \/ TSelect
TSpec == TInit /\ [][TNext]_tvars
=============================================================================
