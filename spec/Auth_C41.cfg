\* design (deviation switch off): the property's invariants must hold; no edge export
SPECIFICATION Spec
CONSTANTS
  Ids <- Ids3
  Roles <- Roles2
  Fns <- Fns2
  MaxT = 3
  Periods <- Periods2
  Levels <- Levels3
  FnSets <- FnSets2
  PersonSets <- PersonSets4
  Modes <- ModesOwn
  MaxOps = 3
  Acts <- ActsAll
  AssignSkipsDelegated = FALSE
  InitStates <- InitsAll
VIEW view
INVARIANTS TypeOK Exact TokensAssigned DelegByHolder
PROPERTIES AdminAuth AdminChange DelegAuth
CHECK_DEADLOCK FALSE
