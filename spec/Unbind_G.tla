------------------------------ MODULE Unbind_G ------------------------------
(* Grid of offsets on which TLC tabulates Unbind (reference copy; regenerated per run: *)
(* interval boundaries, both deadlines, each -2..+2, and seeded random points < 2^31). *)
EXTENDS Integers, Sequences
G_Points == <<0, 1, 31535999, 31536000, 31536001, 63763199, 63763200, 63763201, 564136531, 564136532, 564136533, 567648000, 2147483647>>
=============================================================================
