------------------------------- MODULE Base58 -------------------------------
(***************************************************************************)
(* Address text encodings of ontio/ontology (property C22),                *)
(* common/address.go: ToBase58 / AddressFromBase58, ToHexString /          *)
(* AddressFromHexString.                                                   *)
(*                                                                         *)
(* ToBase58, as coded: payload = 0x17 || addr || Checksum(0x17 || addr)    *)
(* (25 bytes) -> big-endian integer N -> decimal string -> itchyny/base58  *)
(* Encode, which parses the decimal string back to N and writes N in radix *)
(* 58 with the Bitcoin alphabet (a leading '1' per leading '0' character   *)
(* of the decimal string: there is none, N > 0 has no leading zero).       *)
(* AddressFromBase58, as coded: reject "" and > 2048 characters; every     *)
(* character must be in the alphabet; N = radix-58 value (leading '1's     *)
(* only become leading zeros of the decimal string and vanish in           *)
(* SetString); N must have exactly 25 bytes, the first being 0x17;         *)
(* addr = bytes 2..21; finally the address is RE-ENCODED and compared with *)
(* the input string.                                                       *)
(* Strings are sequences of character codes; integers are big-endian digit *)
(* strings (TLC integers are 32 bit), radix conversion is long division.   *)
(* Checksum (first 4 bytes of sha256(sha256(.))) is uninterpreted: CksTab  *)
(* holds the values logged by the harness with an independent crypto/sha256*)
(***************************************************************************)
EXTENDS Naturals, Sequences, FiniteSets, TLC

CONSTANTS CksTab,   \* function: payload prefix (version byte || address bytes) -> 4 checksum bytes
          Cases     \* set of [kind, s, ...] strings offered to the decoder by the model-checking configuration

VARIABLES call, res
vars == <<call, res>>

\* "123456789ABCDEFGHJKLMNPQRSTUVWXYZabcdefghijkmnopqrstuvwxyz" as character codes
Alphabet == <<49, 50, 51, 52, 53, 54, 55, 56, 57, 65, 66, 67, 68, 69, 70, 71, 72, 74, 75, 76, 77, 78, 80, 81, 82, 83, 84, 85, 86,
              87, 88, 89, 90, 97, 98, 99, 100, 101, 102, 103, 104, 105, 106, 107, 109, 110, 111, 112, 113, 114, 115, 116, 117,
              118, 119, 120, 121, 122>>
DigitOf(c) == IF \E i \in 1..58 : Alphabet[i] = c THEN (CHOOSE i \in 1..58 : Alphabet[i] = c) - 1 ELSE 58   \* 58 = not in the alphabet
VERSION == 23
ADDRLEN == 20
MAXLEN == 2048

\* ------------------------------------------------------------------ big-endian digit strings
RECURSIVE StripLead(_)
StripLead(ds) == IF ds # <<>> /\ ds[1] = 0 THEN StripLead(Tail(ds)) ELSE ds
\* long division of a base-b digit string by c: quotient digits (same length) and remainder
RECURSIVE DivFrom(_, _, _, _)
DivFrom(ds, b, c, rem) == IF ds = <<>> THEN [q |-> <<>>, r |-> rem]
                          ELSE LET cur == rem * b + ds[1]
                                   rest == DivFrom(Tail(ds), b, c, cur % c)
                               IN [q |-> <<cur \div c>> \o rest.q, r |-> rest.r]
\* digits of the number ds (radix b, no leading zero) in radix c, most significant first
RECURSIVE Convert(_, _, _)
Convert(ds, b, c) == IF ds = <<>> THEN <<>>
                     ELSE LET d == DivFrom(ds, b, c, 0) IN Convert(StripLead(d.q), b, c) \o <<d.r>>

\* ------------------------------------------------------------------ ToBase58
Payload(ver, addr) == <<ver>> \o addr \o CksTab[<<ver>> \o addr]
EncodeBytes(bytes) == LET ds == Convert(StripLead(bytes), 256, 58) IN [i \in 1..Len(ds) |-> Alphabet[ds[i] + 1]]
Encode(addr) == EncodeBytes(Payload(VERSION, addr))

\* ------------------------------------------------------------------ AddressFromBase58
Verdict(kind, addr) == [v |-> kind, addr |-> addr]
Decode(s) ==
    IF s = <<>> \/ Len(s) > MAXLEN THEN Verdict("reject:size", <<>>)
    ELSE LET ds == [i \in 1..Len(s) |-> DigitOf(s[i])] IN
         IF \E i \in 1..Len(ds) : ds[i] = 58 THEN Verdict("reject:character", <<>>)
         ELSE LET buf == Convert(StripLead(ds), 58, 256) IN
              IF Len(buf) # 1 + ADDRLEN + 4 THEN Verdict("reject:length", <<>>)
              ELSE IF buf[1] # VERSION THEN Verdict("reject:version", <<>>)
              ELSE LET addr == SubSeq(buf, 2, 1 + ADDRLEN)
                       claimed == SubSeq(buf, 2 + ADDRLEN, 5 + ADDRLEN)
                   IN IF <<VERSION>> \o addr \notin DOMAIN CksTab
                      \* checksum of this address not logged: the outcome depends on the uninterpreted function only
                      THEN [v |-> "open", addr |-> addr, claimed |-> claimed, lead1 |-> s[1] = Alphabet[1]]
                      ELSE IF claimed # CksTab[<<VERSION>> \o addr] THEN Verdict("reject:checksum", addr)
                      ELSE IF Encode(addr) # s THEN Verdict("reject:not-canonical", addr)     \* the re-encode comparison
                      ELSE Verdict("accept", addr)

\* ------------------------------------------------------------------ hex (ToHexString / AddressFromHexString)
HexDigits == <<48, 49, 50, 51, 52, 53, 54, 55, 56, 57, 97, 98, 99, 100, 101, 102>>
Reverse(s) == [i \in 1..Len(s) |-> s[Len(s) + 1 - i]]
HexOfBytes(bs) == [i \in 1..(2 * Len(bs)) |-> HexDigits[(IF i % 2 = 1 THEN bs[(i + 1) \div 2] \div 16 ELSE bs[i \div 2] % 16) + 1]]
HexEncode(addr) == HexOfBytes(Reverse(addr))
HexVal(c) == IF c \in 48..57 THEN c - 48 ELSE IF c \in 97..102 THEN c - 87 ELSE IF c \in 65..70 THEN c - 55 ELSE 16
HexDecode(s) ==
    IF Len(s) % 2 = 1 THEN Verdict("reject:odd", <<>>)
    ELSE IF \E i \in 1..Len(s) : HexVal(s[i]) = 16 THEN Verdict("reject:character", <<>>)
    ELSE LET bs == [i \in 1..(Len(s) \div 2) |-> 16 * HexVal(s[2 * i - 1]) + HexVal(s[2 * i])] IN
         IF Len(bs) # ADDRLEN THEN Verdict("reject:length", <<>>) ELSE Verdict("accept", Reverse(bs))
Lower(s) == [i \in 1..Len(s) |-> IF s[i] \in 65..90 THEN s[i] + 32 ELSE s[i]]

\* ------------------------------------------------------------------ calls
Eval(c) == CASE c.fn = "AddressFromBase58" -> Decode(c.s)
             [] c.fn = "ToBase58" -> [v |-> "ok", s |-> Encode(c.addr)]
             [] c.fn = "AddressFromHexString" -> HexDecode(c.s)
             [] c.fn = "ToHexString" -> [v |-> "ok", s |-> HexEncode(c.addr)]
Init == call = [fn |-> "Init"] /\ res = [v |-> ""]
Next == call.fn = "Init" /\ \E c \in Cases : call' = c /\ res' = Eval(c)
Spec == Init /\ [][Next]_vars

\* ------------------------------------------------------------------ concurrency
\* The four conversions are PURE functions: the module has no state besides the call and its result, the result of
\* a call is Eval(argument) whatever calls ran before or run at the same time.  Hence any interleaving of calls by
\* any number of goroutines gives every call its sequential result (the node converts addresses from many
\* goroutines).  The binding executes all generated rows from 8 goroutines concurrently, also in a -race build, and
\* compares every outcome with the sequential one; shared mutable state in the implementation shows up as a
\* differing outcome or as a reported data race.
Pure == [][res' = Eval(call')]_vars

\* ------------------------------------------------------------------ properties (C22)
\* every address encodes to a string that decodes to the same address
RoundTripOK(c, r) == /\ c.fn = "ToBase58" => Decode(r.s) = Verdict("accept", c.addr)
                     /\ c.fn = "ToHexString" => HexDecode(r.s) = Verdict("accept", c.addr)
\* any other string is rejected: an accepted string is the encoding of the address it denotes, and every
\* generated corruption of an encoding (c.base = the uncorrupted string) is rejected
RejectOK(c, r) == /\ (c.fn = "AddressFromBase58" /\ r.v = "accept") => Encode(r.addr) = c.s
                  /\ (c.fn = "AddressFromBase58" /\ c.kind \notin {"valid", "arbitrary"}) => (c.s # c.base => r.v # "accept")
                  /\ (c.fn = "AddressFromBase58" /\ c.kind = "valid") => r.v = "accept"
                  /\ (c.fn = "AddressFromHexString" /\ r.v = "accept") => HexEncode(r.addr) = Lower(c.s)
AllOK == [][RoundTripOK(call', res') /\ RejectOK(call', res')]_vars
=============================================================================
