------------------------------ MODULE OntId_MC ------------------------------
EXTENDS OntId, Json
Ids3 == {"A", "B", "C"}
Keys3 == {"k1", "k2", "k3"}
Attrs1 == {"a1"}
GAB2 == [members |-> <<"A", "B">>, t |-> 2]
GAB1 == [members |-> <<"A", "B">>, t |-> 1]
Groups2 == {GAB2, GAB1}
SA == [id |-> "A", idx |-> 1]
SB == [id |-> "B", idx |-> 1]
SgSets4 == {<<>>, <<SA>>, <<SB>>, <<SA, SB>>}
AllSigners == SUBSET Keys3
ActsAll == {"RegPk", "RegAttrs", "RegCtrl", "AddKeyIdx", "RemoveKeyIdx", "AddNewAuthKey", "SetAuthKey", "RemoveAuthKey", "AddKeyPk",
            "RemoveKeyPk", "AddAttrIdx", "RemoveAttrIdx", "AddAttrPk", "SetRecovery", "UpdateRecovery", "RemoveRecovery",
            "AddRecoveryOld", "ChangeRecoveryOld", "AddKeyByRecovery", "RemoveKeyByRecovery", "RemoveController",
            "AddKeyByCtrl", "RemoveKeyByCtrl", "AddAttrByCtrl", "SetAuthKeyByCtrl", "RevokeID", "RevokeByCtrl", "VerifySig"}

KeyRec(k, au) == [key |-> k, revoked |-> FALSE, auth |-> au, pklist |-> TRUE]
\* a key added with addNewAuthKey (pure authentication key)
AKey(k, au) == [key |-> k, revoked |-> FALSE, auth |-> au, pklist |-> FALSE]
Own(k) == [NoneRec EXCEPT !.st = "valid", !.keys = <<KeyRec(k, TRUE)>>]
I0 == [x \in Ids3 |-> NoneRec]
\* RegPk(A,k1), RegPk(B,k2)
I1 == [I0 EXCEPT !["A"] = Own("k1"), !["B"] = Own("k2")]
\* + RegCtrl(C, group{A,B} 2-of-2), AddKeyByCtrl(C, k3)
I2 == [I1 EXCEPT !["C"] = [NoneRec EXCEPT !.st = "valid", !.ctrl = CGroup(GAB2), !.keys = <<KeyRec("k3", FALSE)>>]]
\* + RegPk(C,k3), AddKeyIdx(C,k1,1), SetRecovery(C, group{A,B} 1-of-2, 1), AddAttrIdx(C,a1,1)
I3 == [I1 EXCEPT !["C"] = [NoneRec EXCEPT !.st = "valid", !.keys = <<KeyRec("k3", TRUE), KeyRec("k1", FALSE)>>,
                                          !.rec = CGroup(GAB1), !.attrs = {"a1"}]]
\* + RegPk(C,k3), AddRecoveryOld(C, k2, operator k3)
I4 == [I1 EXCEPT !["C"] = [Own("k3") EXCEPT !.rec = COld("k2")]]
\* + RegCtrl(C, controller A)
I5 == [I1 EXCEPT !["C"] = [NoneRec EXCEPT !.st = "valid", !.ctrl = CId("A")]]
\* + RegPk(C,k3), AddNewAuthKey(C,k1,1), RemoveKeyIdx(C,k3,2): C's first key is a REVOKED key with authentication right
I6 == [I1 EXCEPT !["C"] = [NoneRec EXCEPT !.st = "valid",
                              !.keys = <<[key |-> "k3", revoked |-> TRUE, auth |-> TRUE, pklist |-> TRUE], AKey("k1", TRUE)>>]]
\* + RegPk(C,k3), AddNewAuthKey(C,k1,1), RemoveAuthKey(C,2,1): C's second key is a pure authentication key whose
\* authentication right was taken away (not revoked, not in the publicKey list): it must authorize nothing
I7 == [I1 EXCEPT !["C"] = [NoneRec EXCEPT !.st = "valid", !.keys = <<KeyRec("k3", TRUE), AKey("k1", FALSE)>>]]
\* + RegPk(C,k3), AddAttrPk(C,a1,k3), AddRecoveryOld(C,k2,k3), RevokeID(C,1): C is REVOKED (former owner k3, former
\* recovery k2); every registration entry point and every modifying method is then attempted on it by everybody
I8 == [I1 EXCEPT !["C"] = RevokedRec]
\* RegPk(A,k1), RegCtrl(B, controller A), RegPk(C,k3), RevokeByCtrl(B): B (a member of both groups) is REVOKED by its controller
I9 == [I0 EXCEPT !["A"] = Own("k1"), !["B"] = RevokedRec, !["C"] = Own("k3")]
\* below the fork height (NewOntId = FALSE): every key record has authentication right
\* I1 + RegCtrl(C, group{A,B} 2-of-2), AddKeyByCtrl(C, k3)
P2 == [I1 EXCEPT !["C"] = [NoneRec EXCEPT !.st = "valid", !.ctrl = CGroup(GAB2), !.keys = <<KeyRec("k3", TRUE)>>]]
\* I1 + RegPk(C,k3), AddKeyPk(C,k1,k3), SetRecovery(C, group{A,B} 1-of-2, 1), AddAttrPk(C,a1,k3)
P3 == [I1 EXCEPT !["C"] = [NoneRec EXCEPT !.st = "valid", !.keys = <<KeyRec("k3", TRUE), KeyRec("k1", TRUE)>>,
                                          !.rec = CGroup(GAB1), !.attrs = {"a1"}]]
Inits0 == {I0}
Inits1 == {I1}
InitsAll == {I0, I1, I2, I3, I4, I5, I6, I7, I8, I9}
InitsRev == {I8, I9}
InitsPre == {I0, I1, P2, P3, I4, I5, I8, I9}
InitsPreQ == {I1, P3, I5, I8}
InitsPrep == {I2, I3, I4, I5}
Inits2 == {I2}
Inits3 == {I3}

Edge == PrintT(<<"EDGE", ToJson([from |-> State, act |-> act', to |-> State'])>>)
InitOut == (TLCGet("level") = 1) => PrintT(<<"INIT", ToJson(State)>>)
=============================================================================
