---------------------------- MODULE EvmStateDB_MC ----------------------------
EXTENDS EvmStateDB, Json
A2 == {"a1", "a2"}
A1 == {"a1"}
S2 == {"s1", "s2"}
S1 == {"s1"}
V2 == {0, 1, 2}
V1 == {0, 1}
C2 == {"c1", "c2"}
C1 == {"c1"}
ActsAll == {"SetState", "SetNonce", "SetCode", "AddBalance", "SubBalance", "AddLog", "AddRefund", "SubRefund",
            "Suicide", "Snapshot", "Revert", "Discard", "Commit"}
BaseEmpty(As, Ss) == [slot |-> [a \in As |-> [s \in Ss |-> 0]], acct |-> [a \in As |-> [nonce |-> 0, code |-> "none"]], bal |-> [a \in As |-> 0]]
BaseFull(As, Ss) == [slot |-> [a \in As |-> [s \in Ss |-> 1]], acct |-> [a \in As |-> [nonce |-> 1, code |-> "c1"]], bal |-> [a \in As |-> 1]]
Bases2 == {BaseEmpty(A2, S1), BaseFull(A2, S1)}
Bases1 == {BaseEmpty(A1, S1), BaseFull(A1, S1)}
Edge == PrintT(<<"EDGE", ToJson([from |-> State, act |-> act', to |-> State'])>>)
InitOut == (TLCGet("level") = 1) => PrintT(<<"INIT", ToJson(State)>>)
=============================================================================
