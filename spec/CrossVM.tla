------------------------------- MODULE CrossVM -------------------------------
(***************************************************************************)
(* The cross-VM parameter codec of ontio/ontology (vm/crossvm_codec):      *)
(* values exchanged between NeoVM, WASM and native contracts.              *)
(*                                                                         *)
(*   value ::= 0x00 u32le(len) bytes        byte array                     *)
(*           | 0x01 u32le(len) bytes        string                         *)
(*           | 0x02 byte^20                 address                        *)
(*           | 0x03 (0x00 | 0x01)           boolean                        *)
(*           | 0x04 byte^16                 128-bit integer (LE, 2-compl.) *)
(*           | 0x05 byte^32                 hash                           *)
(*           | 0x10 u32le(n) value^n        list                           *)
(*                                                                         *)
(* Byte strings are sequences of 0..255.  Dec follows DecodeValue          *)
(* (codec.go) branch by branch, including which of the two errors is       *)
(* returned; Enc follows EncodeValue / EncodeList.  The wrappers           *)
(* DeserializeCallParam (version byte 0) and parseNotify ("evt\0") are     *)
(* CallDec / NotifyDec.                                                    *)
(* A value is a record [t, b, e]: type name, payload bytes (atoms), list   *)
(* elements.                                                               *)
(* Properties (C25): RoundTrip  Dec(Enc(v)) = v, nothing left over;        *)
(*                   Canonical  every accepted input re-encodes to exactly *)
(*                              the bytes consumed;                        *)
(*                   Total      Dec is defined (ok or one of two errors)   *)
(*                              on every byte string (by construction; the *)
(*                              binding checks the real decoder against it)*)
(*                                                                         *)
(* HISTORIES (second part, HistSpec): the codec is stateless BY DESIGN, and *)
(* that is a property of its own: an encoding handed to a caller belongs   *)
(* to the caller.  `kept` is the sequence of encodings returned so far and *)
(* still held (each with the abstract value it encodes and the memory it   *)
(* lives in); HEncodeValue / HEncodeList / HEncodeBigInt / HEncodePar (two *)
(* goroutines) append to it, HDecode / HCompare read from it, HRelease     *)
(* drops one.  Stable: after EVERY action every retained encoding is still *)
(* Enc(its value) and still decodes to its value.  The named deviation     *)
(* SinkReuse models an encoder whose scratch sink is recycled although the *)
(* returned slice aliases it (then Stable is violated, CrossVM_C25hneg.cfg)*)
(***************************************************************************)
EXTENDS Integers, Sequences, FiniteSets, TLC

CONSTANTS WideSizes,  \* element counts of the wide lists (around MAX_PARAM_LENGTH = 1024)
          Atoms,      \* set of atom values used at the top level and in depth-1 lists
          AtomsMid,   \* atoms used inside depth-2 lists
          AtomsDeep,  \* atoms used inside depth-3 lists
          MaxLen,     \* maximal list length enumerated
          MaxNest,    \* deepest chain of singleton lists enumerated
          Repl,       \* replacement bytes for the single-byte mutations
          HistValues, \* values encoded in the histories of codec calls with retained results
          ParValues,  \* values encoded by the two concurrent goroutines of HEncodePar
          MaxKept,    \* at most this many encodings are held by the caller at a time
          SinkReuse   \* deviation: EncodeValue returns a slice of a recycled (pooled) scratch sink

VARIABLES phase,   \* constant "run": the codec is stateless, every case is a self-loop
          act,     \* the case executed last, with its results (history variable, not in the VIEW)
          kept     \* the encodings returned so far and still held: <<[v, bs, buf]>>; buf = 0 memory of
                   \* its own, buf = 1 the recycled scratch buffer (only under SinkReuse)
vars == <<phase, act, kept>>
view == <<phase>>
hview == <<phase, kept>>

HUGE == 1073741824     \* 2^30: stands for every u32 >= 2^30 (TLC integers are 32-bit)

(******************************** values ************************************)
Atom(t, b) == [t |-> t, b |-> b, e |-> <<>>]
List(es) == [t |-> "list", b |-> <<>>, e |-> es]
Rep(x, k) == [i \in 1..k |-> x]

SeqsUpTo(S, k) == UNION {[1..j -> S] : j \in 0..k}
Lists(S) == {List(es) : es \in SeqsUpTo(S, MaxLen)}
L1 == Lists(Atoms)
L1m == Lists(AtomsMid)
L2 == Lists(AtomsMid \cup L1m)
L2d == Lists(AtomsDeep \cup Lists(AtomsDeep))
L3 == Lists(AtomsDeep \cup L2d)
RECURSIVE Nest(_, _)
Nest(d, v) == IF d = 0 THEN v ELSE List(<<Nest(d - 1, v)>>)
Values == Atoms \cup L1 \cup L2 \cup L3 \cup {Nest(d, a) : d \in 4..MaxNest, a \in AtomsDeep}
\* wide lists: many direct elements, at the top level and nested (first / second position of a short list)
WideAtom == Atom("bool", <<1>>)
WideOther == Atom("bytes", <<7>>)
Wide(nn) == List(Rep(WideAtom, nn))
WideValues == UNION {{Wide(nn), List(<<WideOther, Wide(nn)>>), List(<<Wide(nn), WideOther>>),
                      List(<<WideOther, Wide(nn), WideOther>>)} : nn \in WideSizes}
\* values whose encodings are mutated
Subjects == Atoms \cup L1m \cup {v \in L2 : Len(v.e) = 2 /\ v.e[1].t = "list" /\ v.e[2].t # "list"} \cup {Nest(3, a) : a \in AtomsDeep}

(******************************* encoder ************************************)
U32(n) == <<n % 256, (n \div 256) % 256, (n \div 65536) % 256, (n \div 16777216) % 256>>
Tag(t) == CASE t = "bytes" -> 0 [] t = "str" -> 1 [] t = "addr" -> 2 [] t = "bool" -> 3
            [] t = "int" -> 4 [] t = "h256" -> 5 [] t = "list" -> 16

RECURSIVE Enc(_), EncSeq(_, _)
EncSeq(es, i) == IF i > Len(es) THEN <<>> ELSE Enc(es[i]) \o EncSeq(es, i + 1)
Enc(v) == IF v.t \in {"bytes", "str"} THEN <<Tag(v.t)>> \o U32(Len(v.b)) \o v.b      \* EncodeBytes / EncodeString
          ELSE IF v.t = "list" THEN <<16>> \o U32(Len(v.e)) \o EncSeq(v.e, 1)         \* EncodeList
          ELSE <<Tag(v.t)>> \o v.b                                                    \* address, bool, int128, h256

(******************************* decoder ************************************)
\* result: [r |-> "ok" | "format" | "type", v |-> value, off |-> bytes consumed so far]
NoVal == [t |-> "none", b |-> <<>>, e |-> <<>>]
ErrFormat(off) == [r |-> "format", v |-> NoVal, off |-> off]     \* ERROR_PARAM_FORMAT
ErrType(off) == [r |-> "type", v |-> NoVal, off |-> off]         \* ERROR_PARAM_NOT_SUPPORTED_TYPE
Ok(v, off) == [r |-> "ok", v |-> v, off |-> off]

\* NextUint32 at offset off (0-based): a number, HUGE for >= 2^30, or -1 at end of input
RdU32(bs, off) == IF off + 4 > Len(bs) THEN -1
                  ELSE IF bs[off + 4] >= 64 THEN HUGE
                  ELSE bs[off + 1] + 256 * bs[off + 2] + 65536 * bs[off + 3] + 16777216 * bs[off + 4]

Sized(t, bs, off) ==                                   \* ByteArrayType / StringType
    LET size == RdU32(bs, off) IN
    IF size < 0 THEN ErrFormat(off)
    ELSE IF off + 4 + size > Len(bs) THEN ErrFormat(off)                \* NextBytes eof
    ELSE Ok(Atom(t, SubSeq(bs, off + 5, off + 4 + size)), off + 4 + size)
Fixed(t, k, bs, off) ==                                \* NextAddress / NextI128 / NextHash
    IF off + k > Len(bs) THEN ErrFormat(off) ELSE Ok(Atom(t, SubSeq(bs, off + 1, off + k)), off + k)

RECURSIVE Dec(_, _), DecList(_, _, _, _)
DecListStep(bs, r, cnt, acc) == IF r.r # "ok" THEN r ELSE DecList(bs, r.off, cnt - 1, Append(acc, r.v))
DecList(bs, off, cnt, acc) ==                          \* for i := 0; i < size; i++ { DecodeValue }
    IF cnt = 0 THEN Ok(List(acc), off)
    ELSE CHOOSE x \in {DecListStep(bs, r, cnt, acc) : r \in {Dec(bs, off)}} : TRUE
Dec(bs, off) ==                                        \* DecodeValue with the source at offset off
    IF off >= Len(bs) THEN ErrFormat(off)                               \* NextByte eof
    ELSE LET ty == bs[off + 1] IN
         IF ty = 0 THEN Sized("bytes", bs, off + 1)
         ELSE IF ty = 1 THEN Sized("str", bs, off + 1)
         ELSE IF ty = 2 THEN Fixed("addr", 20, bs, off + 1)
         ELSE IF ty = 3 THEN (IF off + 2 > Len(bs) THEN ErrFormat(off)                      \* NextBool eof
                              ELSE IF bs[off + 2] \notin {0, 1} THEN ErrFormat(off)          \* irregular
                              ELSE Ok(Atom("bool", <<bs[off + 2]>>), off + 2))
         ELSE IF ty = 4 THEN Fixed("int", 16, bs, off + 1)
         ELSE IF ty = 5 THEN Fixed("h256", 32, bs, off + 1)
         ELSE IF ty = 16 THEN LET size == RdU32(bs, off + 1) IN
                              IF size < 0 THEN ErrFormat(off) ELSE DecList(bs, off + 5, size, <<>>)
         ELSE ErrType(off)
Decode(bs) == Dec(bs, 0)

\* DeserializeCallParam: version byte 0, then a value;  parseNotify: "evt\0", then a value
StartsWith(bs, p) == Len(bs) >= Len(p) /\ SubSeq(bs, 1, Len(p)) = p
DropN(bs, k) == SubSeq(bs, k + 1, Len(bs))
CallDec(bs) == IF ~StartsWith(bs, <<0>>) THEN ErrFormat(0) ELSE Dec(DropN(bs, 1), 0)
EVT == <<101, 118, 116, 0>>
NotifyDec(bs) == IF ~StartsWith(bs, EVT) THEN ErrFormat(0) ELSE Dec(DropN(bs, 4), 0)

(******************************** cases *************************************)
Case(name, kind, bs, r) ==
    phase' = phase /\ kept' = kept /\
    act' = [name |-> name, kind |-> kind, in |-> bs, res |-> r.r, val |-> r.v, used |-> r.off,
            reenc |-> IF r.r = "ok" THEN Enc(r.v) ELSE <<>>]

\* EncodeValue(v), then DecodeValue of the result
EncodeCase(v) == phase' = phase /\ kept' = kept /\
                 act' = [name |-> "Encode", kind |-> "value", val |-> v, out |-> Enc(v),
                         res |-> Decode(Enc(v)).r, back |-> Decode(Enc(v)).v, used |-> Decode(Enc(v)).off]

SetAt(bs, i, x) == [bs EXCEPT ![i] = x]
Win(bs, i) == [j \in 1..Len(bs) |-> IF j >= i /\ j < i + 4 THEN 255 ELSE bs[j]]

DecodeByte(v, i, x) == LET bs == SetAt(Enc(v), i, x) IN Case("Decode", "byte", bs, Decode(bs))
DecodeTrunc(v, i) == LET bs == SubSeq(Enc(v), 1, i) IN Case("Decode", "trunc", bs, Decode(bs))
DecodeWin(v, i) == LET bs == Win(Enc(v), i) IN Case("Decode", "count", bs, Decode(bs))
DecodeTrail(v, x) == LET bs == Enc(v) \o <<x>> IN Case("Decode", "trail", bs, Decode(bs))
CallCase(v, p) == LET bs == p \o Enc(v) IN Case("Call", IF p = <<0>> THEN "goodprefix" ELSE "badprefix", bs, CallDec(bs))
NotifyCase(v, p) == LET bs == p \o Enc(v) IN Case("Notify", IF p = EVT THEN "goodprefix" ELSE "badprefix", bs, NotifyDec(bs))

Init == phase = "run" /\ act = [name |-> "Init"] /\ kept = <<>>
Next == \/ \E v \in Values \cup WideValues : EncodeCase(v)
        \/ \E v \in Subjects : \E i \in 1..Len(Enc(v)) : \E x \in Repl \cup {(Enc(v)[i] + 1) % 256} : x # Enc(v)[i] /\ DecodeByte(v, i, x)
        \/ \E v \in Subjects : \E i \in 0..(Len(Enc(v)) - 1) : DecodeTrunc(v, i)
        \/ \E v \in Subjects : \E i \in 1..(Len(Enc(v)) - 3) : DecodeWin(v, i)
        \/ \E v \in Subjects : \E x \in {0, 16} : DecodeTrail(v, x)
        \/ \E v \in Subjects : \E p \in {<<0>>, <<1>>, <<>>, <<0, 0>>} : CallCase(v, p)
        \/ \E v \in Subjects : \E p \in {EVT, <<101, 118, 116, 1>>, <<>>, <<101, 118, 116>>} : NotifyCase(v, p)
Spec == Init /\ [][Next]_vars

(************************ histories of codec calls **************************)
\* One action per public call on the codec, applied to a caller that KEEPS what it was given.
\* EncodeValue allocates its sink (design); EncodeList / EncodeBigInt write into a sink of the caller
\* (a fresh one per call here), so what they return is memory of the caller in every variant.
Held(v, b) == [v |-> v, bs |-> Enc(v), buf |-> b]
\* deviation SinkReuse: the scratch buffer is written again from its start; every encoding still
\* aliasing it changes under its holder (its first Len(new) bytes; the buffer is assumed big enough)
Over(old, new) == [j \in 1..Len(old) |-> IF j <= Len(new) THEN new[j] ELSE old[j]]
Clobber(k, new) == IF SinkReuse THEN [i \in 1..Len(k) |-> IF k[i].buf = 1 THEN [k[i] EXCEPT !.bs = Over(k[i].bs, new)] ELSE k[i]]
                   ELSE k
ValueBuf == IF SinkReuse THEN 1 ELSE 0
Without(k, i) == SubSeq(k, 1, i - 1) \o SubSeq(k, i + 1, Len(k))

HEncodeValue(v) == /\ Len(kept) < MaxKept                      \* EncodeValue(v); the result is kept
                   /\ kept' = Append(Clobber(kept, Enc(v)), Held(v, ValueBuf))
                   /\ act' = [name |-> "EncodeValue", val |-> v, out |-> Enc(v)]
                   /\ phase' = phase
HEncodeList(v) == /\ Len(kept) < MaxKept /\ v.t = "list"       \* EncodeList(NewZeroCopySink(nil), v); sink.Bytes() is kept
                  /\ kept' = Append(kept, Held(v, 0))
                  /\ act' = [name |-> "EncodeList", val |-> v, out |-> Enc(v)]
                  /\ phase' = phase
HEncodeBigInt(v) == /\ Len(kept) < MaxKept /\ v.t = "int"      \* EncodeBigInt(NewZeroCopySink(nil), v); sink.Bytes() is kept
                    /\ kept' = Append(kept, Held(v, 0))
                    /\ act' = [name |-> "EncodeBigInt", val |-> v, out |-> Enc(v)]
                    /\ phase' = phase
\* two goroutines call EncodeValue at the same time, both results are kept (first goroutine's first).
\* Design: the calls share nothing, so the outcome is that of the two calls in any order.  Under SinkReuse
\* only the order "first goroutine first" is modelled (it is bad enough).
HEncodePar(v1, v2) == /\ Len(kept) + 2 <= MaxKept
                      /\ LET k1 == Append(Clobber(kept, Enc(v1)), Held(v1, ValueBuf))
                         IN kept' = Append(Clobber(k1, Enc(v2)), Held(v2, ValueBuf))
                      /\ act' = [name |-> "EncodePar", val |-> v1, val2 |-> v2, out |-> Enc(v1), out2 |-> Enc(v2)]
                      /\ phase' = phase
\* DecodeValue on the i-th retained encoding (decode afterwards, not right after the encode)
HDecode(i) == /\ i \in 1..Len(kept)
              /\ act' = [name |-> "Decode", i |-> i, res |-> Decode(kept[i].bs).r, back |-> Decode(kept[i].bs).v,
                         used |-> Decode(kept[i].bs).off]
              /\ kept' = kept /\ phase' = phase
\* the caller compares an encoding it kept with a later one (e.g. to detect a changed parameter)
HCompare(i, j) == /\ i \in 1..Len(kept) /\ j \in 1..Len(kept) /\ i < j
                  /\ act' = [name |-> "Compare", i |-> i, j |-> j, eq |-> (kept[i].bs = kept[j].bs)]
                  /\ kept' = kept /\ phase' = phase
\* the caller drops the i-th retained encoding
HRelease(i) == /\ i \in 1..Len(kept)
               /\ act' = [name |-> "Release", i |-> i]
               /\ kept' = Without(kept, i) /\ phase' = phase

HistNext == \/ \E v \in HistValues : HEncodeValue(v) \/ HEncodeList(v) \/ HEncodeBigInt(v)
            \/ \E v1 \in ParValues : \E v2 \in ParValues : HEncodePar(v1, v2)
            \/ \E i \in 1..MaxKept : HDecode(i) \/ HRelease(i) \/ \E j \in 1..MaxKept : HCompare(i, j)
HistSpec == Init /\ [][HistNext]_vars

(****************************** properties **********************************)
\* C25: values encode and decode back to equal values (and the decoder consumes exactly the encoding)
RoundTrip == [][act'.name = "Encode" => act'.res = "ok" /\ act'.back = act'.val /\ act'.used = Len(act'.out)]_vars
\* every accepted byte string re-encodes to exactly the bytes the decoder consumed (no second encoding of a value)
Canonical == [][act'.name \in {"Decode", "Call", "Notify"} /\ act'.res = "ok" =>
                   LET skip == IF act'.name = "Call" THEN 1 ELSE IF act'.name = "Notify" THEN 4 ELSE 0 IN
                   act'.reenc = SubSeq(act'.in, skip + 1, skip + act'.used)]_vars
\* a proper prefix of an encoding is never accepted; a wrong wrapper prefix is never accepted
PrefixFree == [][act'.name = "Decode" /\ act'.kind = "trunc" => act'.res # "ok"]_vars
WrapperOK == [][/\ (act'.name = "Call" /\ act'.res = "ok" => StartsWith(act'.in, <<0>>))
                /\ (act'.name = "Notify" /\ act'.res = "ok" => StartsWith(act'.in, EVT))
                /\ (act'.name \in {"Call", "Notify"} /\ act'.kind = "goodprefix" => act'.res = "ok")]_vars
\* an announced length / count of 2^32-1 at the top level is never accepted
CountOK == [][act'.name = "Decode" /\ Len(act'.in) >= 5 /\ act'.in[1] \in {0, 1, 16}
                 /\ SubSeq(act'.in, 2, 5) = <<255, 255, 255, 255>> => act'.res # "ok"]_vars
\* C25 on histories: whatever codec calls follow, every encoding a caller still holds is byte for byte
\* the encoding of its value and decodes back to exactly that value
Stable == \A i \in 1..Len(kept) : /\ kept[i].bs = Enc(kept[i].v)
                                  /\ Decode(kept[i].bs) = Ok(kept[i].v, Len(kept[i].bs))
\* a later decode of a retained encoding gives the value that was encoded then
DecodeLater == [][act'.name = "Decode" /\ act'.i \in 1..Len(kept) =>
                     act'.res = "ok" /\ act'.back = kept[act'.i].v /\ act'.used = Len(Enc(kept[act'.i].v))]_vars
\* retained encodings are equal exactly when their values are (no two values share an encoding)
CompareOK == [][act'.name = "Compare" => (act'.eq <=> kept[act'.i].v = kept[act'.j].v)]_vars
\* no codec call touches an encoding returned earlier
Untouched == [][act'.name = "Release" \/ \A i \in 1..Len(kept) : i <= Len(kept') /\ kept'[i] = kept[i]]_vars
State == [phase |-> phase]
HState == [phase |-> phase, kept |-> [i \in 1..Len(kept) |-> [v |-> kept[i].v, bs |-> kept[i].bs, buf |-> kept[i].buf]]]
=============================================================================
