------------------------------ MODULE VBFTPool ------------------------------
(* The per-height candidate record of consensus/vbft.BlockPool and its decision functions, structured like the code:

     NewProposal     BlockPool.newBlockProposal        (first proposal of a proposer wins; proposer's own signature is stored
                                                        as an endorsement entry of the proposer)
     AddEnd          BlockPool.addBlockEndorsementLocked (empty endorsement sticky, one entry per endorsed proposer,
                                                        a commitment REPLACES the committer's entry list)
     NewEndorse      BlockPool.newBlockEndorsement
     NewCommit       BlockPool.newBlockCommitment      (one commit message per committer; claimed endorser signatures are
                                                        copied into the endorsement table)
     CommitConsensus node_utils.go getCommitConsensus  (sequential over the commit messages, in arrival order)
     Fallback        BlockPool.commitDone, second half (iteration over a Go map: every iteration order is a behaviour)
     EndorseDone / EndorseFailed   BlockPool.endorseDone / endorseFailed

   Thresholds QM, QS, TE are CONSTANTS whose values are EXTRACTED from the real code by probing (props/_vbft.py), not
   transcribed.  Every signature carries a ghost flag `ok` = "it verifies under the key of the peer it is attributed to,
   over the block it is counted for"; the code never looks at it (named deviations below), the property does.

   Named deviations (switches FALSE = the code as it is, TRUE = the intended design):
     SW_Verify   : signatures inside commit / endorse messages are verified before they are counted
     SW_PerBlock : signatures are counted per (proposer, empty?) block, not per proposer
     SW_Proposer : the proposer is counted as a member of the signer set (once), not as a blind "+1"            *)
EXTENDS Integers, Sequences, FiniteSets, TLC

CONSTANTS N, C,          \* network size, fault bound
          EndorserSet,   \* peers for which Server.isEndorser is true at this height
          QM,            \* getCommitConsensus: least accepted |signers|+1          (extracted)
          QS,            \* commitDone fallback: least accepted number of entries   (extracted)
          TE,            \* endorseDone: least accepted number of entries           (extracted)
          SW_Verify, SW_PerBlock, SW_Proposer

Peers == 1..N
NoProp == 0
QuorumReq == N - ((N - 1) \div 3)       \* the quorum the PROPERTY demands (C31 statement)

Entry(p, e, ok) == [p |-> p, e |-> e, ok |-> ok]
EmptyPool == [props |-> {}, esigs |-> [i \in Peers |-> <<>>], cmsgs |-> <<>>]

HasEmpty(l) == \E k \in 1..Len(l) : l[k].e
HasProp(l, p) == \E k \in 1..Len(l) : l[k].p = p

AddEnd(es, i, x, commitment) ==
  IF Len(es[i]) > 0 /\ ~commitment
  THEN IF HasEmpty(es[i]) THEN es
       ELSE IF x.e THEN [es EXCEPT ![i] = Append(@, x)]
       ELSE IF HasProp(es[i], x.p) THEN es
       ELSE [es EXCEPT ![i] = Append(@, x)]
  ELSE [es EXCEPT ![i] = <<x>>]

KnowsProposal(pool, p) == \E q \in pool.props : q.p = p

NewProposal(pool, p, v) ==
  IF KnowsProposal(pool, p) THEN pool
  ELSE [pool EXCEPT !.props = @ \cup {[p |-> p, v |-> v]},
                    !.esigs = AddEnd(@, p, Entry(p, FALSE, TRUE), FALSE)]

NewEndorse(pool, i, p, e, ok) ==
  IF SW_Verify /\ ~ok THEN pool
  ELSE [pool EXCEPT !.esigs = AddEnd(@, i, Entry(p, e, ok), FALSE)]

DupCommit(pool, m) == \E k \in 1..Len(pool.cmsgs) : pool.cmsgs[k].c = m.c

NewCommit(pool, m) ==
  IF DupCommit(pool, m) \/ (SW_Verify /\ ~m.cok) THEN pool
  ELSE LET claims == IF SW_Verify THEN {x \in m.es : x.ok} ELSE m.es
           es1 == [i \in Peers |->
                     IF \E x \in claims : x.i = i
                     THEN AddEnd(pool.esigs, i, Entry(m.p, m.e, (CHOOSE x \in claims : x.i = i).ok), FALSE)[i]
                     ELSE pool.esigs[i]]
           es2 == AddEnd(es1, m.c, Entry(m.p, m.e, m.cok), TRUE)
       IN [pool EXCEPT !.esigs = es2, !.cmsgs = Append(@, [m EXCEPT !.es = claims])]

-----------------------------------------------------------------------------
(* getCommitConsensus *)
Key(p, e) == IF SW_PerBlock THEN <<p, e>> ELSE <<p, FALSE>>

RECURSIVE CC(_, _, _, _, _, _)
CC(pool, k, ec, ecm, cx, sc) ==
  IF k > Len(pool.cmsgs) THEN [p |-> NoProp, e |-> FALSE]
  ELSE LET m == pool.cmsgs[k]
           ec2 == IF m.e THEN ec + 1 ELSE ec
           flip == m.e /\ ec2 > cx /\ ~ecm
           ecm2 == ecm \/ flip
           cx2 == IF flip THEN cx + 1 ELSE cx
           key == Key(m.p, m.e)
           add == IF SW_Verify
                  THEN (IF m.cok THEN {m.c} ELSE {}) \cup {x.i : x \in {y \in m.es : y.ok}}
                  ELSE {m.c} \cup {x.i : x \in m.es}
           sc2 == [sc EXCEPT ![key] = @ \cup add]
           cnt == IF SW_Proposer
                  THEN Cardinality(sc2[key] \cup (IF KnowsProposal(pool, m.p) \/ m.pok THEN {m.p} ELSE {}))
                  ELSE Cardinality(sc2[key]) + 1
       IN IF cnt >= QM THEN [p |-> m.p, e |-> IF SW_PerBlock THEN m.e ELSE ecm2]
          ELSE CC(pool, k + 1, ec2, ecm2, cx2, sc2)

CommitConsensus(pool) == CC(pool, 1, 0, FALSE, C, [k \in Peers \X BOOLEAN |-> {}])

-----------------------------------------------------------------------------
(* commitDone, fallback on the endorsement table; `order` = one iteration order of the Go map *)
NumEmpty(l) == Cardinality({k \in 1..Len(l) : l[k].e})

RECURSIVE FB(_, _, _, _, _, _)
FB(es, order, k, j, emptyCnt, cnt) ==
  IF k > Len(order) THEN [p |-> NoProp, e |-> FALSE]
  ELSE LET x == order[k]
           l == es[x]
       IN IF j = 0
          THEN FB(es, order, k, 1, emptyCnt + (IF x \notin EndorserSet THEN NumEmpty(l) ELSE 0), cnt)
          ELSE IF j > Len(l) THEN FB(es, order, k + 1, 0, emptyCnt, cnt)
          ELSE LET s == l[j]
               IN IF s.e THEN FB(es, order, k, j + 1, emptyCnt + 1, cnt)
                  ELSE IF SW_Verify /\ ~s.ok THEN FB(es, order, k, j + 1, emptyCnt, cnt)
                  ELSE LET cnt2 == [cnt EXCEPT ![s.p] = @ + 1]
                       IN IF cnt2[s.p] > QS - 1
                          THEN [p |-> s.p, e |-> IF SW_PerBlock THEN FALSE ELSE emptyCnt > QS - 1]
                          ELSE FB(es, order, k, j + 1, emptyCnt, cnt2)

Present(es) == {i \in Peers : Len(es[i]) > 0}
Orders(S) == LET n == Cardinality(S) IN {f \in [1..n -> S] : \A a, b \in 1..n : a # b => f[a] # f[b]}
\* total counts, used for the over-approximation when the map has more than 4 keys (exact enumeration of the
\* iteration orders is only affordable for small maps)
CntNE(es, p) == Cardinality({i \in Peers : \E k \in 1..Len(es[i]) : es[i][k].p = p /\ ~es[i][k].e /\ (SW_Verify => es[i][k].ok)})
RECURSIVE SumEmptyW(_, _)
SumEmptyW(es, S) == IF S = {} THEN 0
                    ELSE LET i == CHOOSE i \in S : TRUE
                         IN NumEmpty(es[i]) * (IF i \in EndorserSet THEN 1 ELSE 2) + SumEmptyW(es, S \ {i})
\* constant-level table of the iteration orders of every key set of at most 4 peers (evaluated once by TLC)
OrdersOf == [S \in {T \in SUBSET Peers : Cardinality(T) <= 4} |-> Orders(S)]
FallbackResults(pool) ==
  LET es == pool.esigs
      D == Present(es)
  IN IF Cardinality(D) <= 4
     THEN {r \in {FB(es, o, 1, 0, 0, [p \in Peers |-> 0]) : o \in OrdersOf[D]} : r.p # NoProp}
     ELSE {[p |-> p, e |-> fe] : p \in {q \in Peers : CntNE(es, q) >= QS},
                                 fe \in IF ~SW_PerBlock /\ SumEmptyW(es, D) > QS - 1 THEN BOOLEAN ELSE {FALSE}}

CommitDoneResults(pool) ==
  LET r == CommitConsensus(pool)
  IN IF r.p # NoProp THEN {r} ELSE FallbackResults(pool)
ViaMsgs(pool) == CommitConsensus(pool).p # NoProp

-----------------------------------------------------------------------------
(* endorseDone / endorseFailed (map iteration: over-approximated result set, exact `done` flag) *)
CntAllNE(es, p) == Cardinality({<<i, k>> \in Peers \X (1..4) : k <= Len(es[i]) /\ es[i][k].p = p /\ ~es[i][k].e})
CntAllE(es) == Cardinality({<<i, k>> \in Peers \X (1..4) : k <= Len(es[i]) /\ es[i][k].e})
EmptyProposers(es) == {p \in Peers : \E i \in Peers : \E k \in 1..Len(es[i]) : es[i][k].e /\ es[i][k].p = p}
EndorseDoneResults(pool) ==
  LET es == pool.esigs
  IN IF Cardinality(Present(es)) < TE THEN {}
     ELSE {[p |-> p, e |-> FALSE] : p \in {q \in Peers : CntAllNE(es, q) >= TE}}
          \cup {[p |-> p, e |-> TRUE] : p \in IF CntAllE(es) >= TE THEN EmptyProposers(es) ELSE {}}

EndorseFailed(pool) ==
  LET es == pool.esigs
      D == Present(es)
      props == {p \in Peers : CntAllNE(es, p) > 0}
      l == 2 * C + 1 - Cardinality(D)
  IN IF Cardinality(D) < C + 1 THEN FALSE
     ELSE IF \E p \in props : CntAllNE(es, p) > C + 1 THEN FALSE
     ELSE IF Cardinality(props) > C + 1 THEN TRUE
     ELSE IF CntAllE(es) > C THEN TRUE
     ELSE ~(\E p \in props : CntAllNE(es, p) + l > C \/ CntAllNE(es, p) + l < 0)   \* uint32 wrap-around of v+l

-----------------------------------------------------------------------------
(* the property *)
ValidSigners(pool, p, e) ==
  (IF KnowsProposal(pool, p) THEN {p} ELSE {})
  \cup {i \in Peers : \E k \in 1..Len(pool.esigs[i]) : LET s == pool.esigs[i][k] IN s.p = p /\ s.e = e /\ s.ok}
  \cup UNION {(IF pool.cmsgs[k].cok THEN {pool.cmsgs[k].c} ELSE {})
              \cup (IF pool.cmsgs[k].pok THEN {p} ELSE {})
              \cup {x.i : x \in {y \in pool.cmsgs[k].es : y.ok}}
              : k \in {j \in 1..Len(pool.cmsgs) : pool.cmsgs[j].p = p /\ pool.cmsgs[j].e = e}}

Sound(pool, r) == Cardinality(ValidSigners(pool, r.p, r.e)) >= QuorumReq
CommitSound(pool) == \A r \in CommitDoneResults(pool) : Sound(pool, r)
=============================================================================
