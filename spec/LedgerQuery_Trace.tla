-------------------------- MODULE LedgerQuery_Trace --------------------------
(* Trace validation: an NDJSON log recorded from a real solo-net ledger (harness/b_ledger TestVerifLQTrace) must be  *)
(* a behaviour of LedgerQuery, and everything the real query interfaces answered after each step must equal the      *)
(* model's stores (C40), refused blocks and pre-executions must have left every store digest unchanged (C39, C42)    *)
(* and the stored blooms must contain the bits of every emitted log (C43).                                            *)
EXTENDS LedgerQuery, Json
Tr == ndJsonDeserialize("trace.ndjson")
VARIABLE l
tvars == <<vars, l>>

ToSet(s) == {s[i] : i \in DOMAIN s}
TBits(x) == ToSet(Tr[1].bits[x])
TW == Tr[1].W
TS == Tr[1].S

NoShapes == {}
TFresh == {Tr[1].fresh}
ASSUME TLCSet(1, 0)
HW == TLCSet(1, Max(TLCGet(1), l))
Accepted == /\ PrintT(<<"HW", TLCGet(1) - 1>>)
            /\ TLCGet(1) = Len(Tr) + 1

Ev == Tr[l]
IsEvent(n) == l <= Len(Tr) /\ Ev.event = n /\ l' = l + 1
ShapeOf(j) == [name |-> j.name, ntx |-> j.ntx, logs |-> ToSet(j.logs)]

\* what the real ledger answered after the step = the model's post-state
ViewOK(v) == LET id == GBH(hidx', hashAt', v.h) IN
             /\ id = v.id
             /\ id \in DOMAIN hdrOf' /\ hdrOf'[id] = v.hdrHeight
             /\ (v.h > 0 => /\ bodyOf'[id] = v.body
                            /\ \A j \in DOMAIN v.body : v.body[j] \in DOMAIN txAt' /\ txAt'[v.body[j]] = v.txh[j])
             /\ bloomAt'[v.h + 1] \subseteq ToSet(v.bloom)
ObsOK == /\ Ev.cur = memCur'[1] /\ Ev.curId = memCur'[2]
         /\ Ev.blkCur = blkCur'[1] /\ Ev.stCur = Len(stApplied') - 1 /\ Ev.evCur = evCur'
         /\ Ev.hdrLast = hidx'.last
         /\ \A i \in DOMAIN Ev.views : ViewOK(Ev.views[i])
         /\ Ev.above = GBH(hidx', hashAt', memCur'[1] + 1)
         /\ Ev.missed = 0 /\ Ev.problems = 0
ResOK == CASE act'.res = "ok" -> Ev.res = "ok"
           [] act'.res = "ignored" -> Ev.res \in {"ignored", "error"} /\ Ev.changed = <<>> /\ ~Ev.stored
           [] OTHER -> Ev.res = "error" /\ Ev.changed = <<>> /\ ~Ev.stored

TInit == l = 2 /\ Init
TReset == /\ IsEvent("Reset")
          /\ chain' = <<>> /\ hashAt' = <<GenesisId>> /\ hdrOf' = (GenesisId :> 0) /\ bodyOf' = (GenesisId :> <<>>)
          /\ txAt' = <<>> /\ blkCur' = <<0, GenesisId>> /\ bloomAt' = <<{}>> /\ bitIdx' = <<>>
          /\ stApplied' = <<GenesisId>> /\ evTx' = {} /\ evCur' = 0 /\ memCur' = <<0, GenesisId>>
          /\ hidx' = [first |-> 0, last |-> 0, m |-> (0 :> GenesisId)] /\ bcache' = (0 :> {}) /\ hcache' = {}
          /\ fresh' = Ev.fresh /\ fstart' = (IF Ev.fresh THEN 1 ELSE 0) /\ fmem' = 0 /\ halt' = FALSE
          /\ act' = [name |-> "Init"]
TNext == \/ TReset
         \/ IsEvent("Submit") /\ Submit(Ev.path, ShapeOf(Ev.shape), Ev.mut) /\ ResOK /\ ObsOK
         \/ IsEvent("PreExec") /\ PreExec(Ev.kind) /\ Ev.changed = <<>> /\ ObsOK
         \/ IsEvent("SyncHeader") /\ SyncHeader(ShapeOf(Ev.shape)) /\ Ev.res = "ok" /\ Ev.changed = <<>> /\ ObsOK
         \/ IsEvent("Restart") /\ Restart /\ Ev.res = "ok" /\ ObsOK
TSpec == TInit /\ [][TNext]_tvars
=============================================================================
