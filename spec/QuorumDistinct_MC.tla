------------------------- MODULE QuorumDistinct_MC -------------------------
(* C28, distinctness of the counted signers: every peer may send again.  One BlockPool (VBFTPool) is fed

     FeedProposal(p)        the proposal of p (first one wins; its signature becomes p's own entry)
     FeedEndorse(i, p, e)   peer i endorses the (empty, if e) block of proposer p -- a "repeater" i \in K.rep any number
                            (<= K.maxrep) of times, for the same or for different proposers, empty or not, in any order;
                            the other peers (K.once) once
     FeedCommit(c, p, e, S) committer c commits (p, e) carrying the endorsements of the peers in S; a committer may commit
                            again (same or different block), and the peers in S may have endorsed before (anything)

   All signatures are valid (forged material is C31's subject): what is enumerated here is WHO signs HOW OFTEN.
   `sent` (ghost, part of the VIEW) is the per-peer history of everything that touched the peer's entry list; it keeps
   behaviours with different re-sending histories apart (P,Q,P vs P,Q) although the pool of the model is the same, so
   that the edge cover replays each of them on the real BlockPool.
   TLC checks the invariants of QuorumDistinct on every reachable pool; every edge is exported and replayed on a real
   BlockPool (harness/vbft_bvbft TestVerifVBPoolReplay), where props/C28.py compares the pools and evaluates
   "done => at least threshold DISTINCT recorded signers" on the real pool's own content. *)
EXTENDS QuorumDistinct, Json, VBFTConst

CONSTANT K    \* bounds of the run (one of the records below)
VARIABLES pool, sent, ncom, act
vars == <<pool, sent, ncom, act>>
view == <<pool, sent, ncom>>

\* N=4, C=1: one repeater (3 messages, empty or not) + one single-shot peer + the proposal of 1
KN4 == [props |-> {1, 2}, feedprops |-> {1}, rep |-> {3}, maxrep |-> 3, repEmp |-> BOOLEAN, once |-> {4}, onceEmp |-> BOOLEAN,
        committers |-> {}, claims |-> {{}}, comEmp |-> {FALSE}, maxcom |-> 0]
\* N=4, C=1: one repeater, 5 messages, non-empty only (the fallback of commitDone fed by ONE peer)
KN4long == [props |-> {1, 2}, feedprops |-> {}, rep |-> {3}, maxrep |-> 5, repEmp |-> {FALSE}, once |-> {}, onceEmp |-> {FALSE},
            committers |-> {}, claims |-> {{}}, comEmp |-> {FALSE}, maxcom |-> 0]
\* N=4, C=1: re-endorsing mixed with (repeated) commit messages that replace / claim the repeater's entries
KN4com == [props |-> {1, 2}, feedprops |-> {}, rep |-> {3}, maxrep |-> 2, repEmp |-> {FALSE}, once |-> {}, onceEmp |-> {FALSE},
           committers |-> {3, 4}, claims |-> {{}, {3}}, comEmp |-> {FALSE}, maxcom |-> 2]
\* N=7, C=2 (and N=6, N=8): one repeater among single-shot endorsers, proposal of 1
KN7 == [props |-> {1, 2}, feedprops |-> {1}, rep |-> {3}, maxrep |-> 3, repEmp |-> {FALSE}, once |-> {4, 5}, onceEmp |-> {FALSE},
        committers |-> {}, claims |-> {{}}, comEmp |-> {FALSE}, maxcom |-> 0]
\* thorough: two repeaters
KN4two == [props |-> {1, 2}, feedprops |-> {1}, rep |-> {3, 4}, maxrep |-> 3, repEmp |-> {FALSE}, once |-> {}, onceEmp |-> {FALSE},
           committers |-> {}, claims |-> {{}}, comEmp |-> {FALSE}, maxcom |-> 0]
KN7two == [props |-> {1, 2}, feedprops |-> {1}, rep |-> {3, 4}, maxrep |-> 3, repEmp |-> {FALSE}, once |-> {}, onceEmp |-> {FALSE},
           committers |-> {5}, claims |-> {{}, {3}}, comEmp |-> {FALSE}, maxcom |-> 1]

Msg(kind, p, e) == [k |-> kind, p |-> p, e |-> e]
NEnd(i) == Cardinality({k \in 1..Len(sent[i]) : sent[i][k].k = "e"})
Budget(i) == IF i \in K.rep THEN K.maxrep ELSE IF i \in K.once THEN 1 ELSE 0

Init == /\ pool = EmptyPool
        /\ sent = [i \in Peers |-> <<>>]
        /\ ncom = 0
        /\ act = [name |-> "Init"]

FeedProposal(p) ==
  /\ ~KnowsProposal(pool, p)
  /\ pool' = NewProposal(pool, p, 0)
  /\ UNCHANGED <<sent, ncom>>
  /\ act' = [name |-> "FeedProposal", p |-> p, v |-> 0]

FeedEndorse(i, p, e) ==
  /\ NEnd(i) < Budget(i)
  /\ e \in (IF i \in K.rep THEN K.repEmp ELSE K.onceEmp)
  /\ pool' = NewEndorse(pool, i, p, e, TRUE)
  /\ sent' = [sent EXCEPT ![i] = Append(@, Msg("e", p, e))]
  /\ UNCHANGED ncom
  /\ act' = [name |-> "FeedEndorse", i |-> i, p |-> p, v |-> 0, e |-> e, ok |-> TRUE, cc |-> FALSE]

FeedCommit(c, p, e, S) ==
  /\ ncom < K.maxcom
  /\ c \notin S
  /\ e \in K.comEmp
  /\ LET m == [c |-> c, p |-> p, e |-> e, cok |-> TRUE, pok |-> TRUE, es |-> {[i |-> i, ok |-> TRUE] : i \in S}]
     IN /\ pool' = NewCommit(pool, m)
        /\ act' = [name |-> "FeedCommit", c |-> c, p |-> p, v |-> 0, e |-> e, cok |-> TRUE, pok |-> TRUE, es |-> m.es]
  /\ sent' = [i \in Peers |-> IF i = c THEN Append(sent[i], Msg("c", p, e))
                              ELSE IF i \in S THEN Append(sent[i], Msg("k", p, e)) ELSE sent[i]]
  /\ ncom' = ncom + 1

Next ==
  \/ \E p \in K.feedprops : FeedProposal(p)
  \/ \E i \in K.rep \cup K.once, p \in K.props, e \in BOOLEAN : FeedEndorse(i, p, e)
  \/ \E c \in K.committers, p \in K.props, e \in BOOLEAN, S \in K.claims : FeedCommit(c, p, e, S)
Spec == Init /\ [][Next]_vars

-----------------------------------------------------------------------------
Inv_OneEntryPerPair == OneEntryPerPair(pool.esigs)
Inv_CountersCountPeers == CountersCountPeers(pool.esigs)
Inv_EndorseDistinct == EndorseDistinct(pool)
Inv_FallbackDistinct == FallbackDistinct(pool)
Inv_CommitQuorumIntersects == CommitQuorumIntersects(pool)
Inv_EndorseHasHonestWitness == EndorseHasHonestWitness(pool)
TypeOK == /\ pool.props \subseteq [p : Peers, v : {0}]
          /\ \A i \in Peers : Len(pool.esigs[i]) <= 4     \* VBFTPool!CntAllNE looks at 4 entries per peer

-----------------------------------------------------------------------------
\* export (same State shape as VBFTPool_MC, so that the replay glue of props/_vbft.py applies) + the signer sets
Results == CommitDoneResults(pool)
Judged == {[p |-> r.p, e |-> r.e, valid |-> ValidSigners(pool, r.p, r.e), sound |-> Sound(pool, r)] : r \in Results}
State == [pool |-> pool, sent |-> sent, ncom |-> ncom, results |-> Judged, viaMsgs |-> ViaMsgs(pool),
          ed |-> EndorseDoneResults(pool), ef |-> EndorseFailed(pool),
          signersE |-> SignersE(pool.esigs),
          signersNE |-> {[p |-> p, s |-> SignersNE(pool.esigs, p)] : p \in K.props}]
Edge == PrintT(<<"EDGE", ToJson([from |-> State, act |-> act', to |-> State'])>>)
InitOut == (TLCGet("level") = 1) => PrintT(<<"INIT", ToJson(State)>>)
=============================================================================
