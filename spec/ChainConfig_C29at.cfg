SPECIFICATION Spec
CONSTANTS
  Pools <- PoolsC29a
  Confs <- ConfsC29at
  Hashes <- HashOne
  Vrfs <- Vrfs3t
  ListsOf <- CanonOnly
  Acts <- ActsC29
VIEW view
INVARIANTS OrderFree ConfigInv WellFormedInv DomainInv
CONSTRAINT InitOut
ACTION_CONSTRAINT EdgeSel
CHECK_DEADLOCK FALSE
