SPECIFICATION SpecC17
CONSTANTS
  TxSpace <- Small16
  EthKeys <- Eth3
  MaskByPosition = TRUE
  RawScriptFallback = TRUE
  MutClasses <- MutNone
  PreOps <- PreNone
  SkipIfSignedAddr = FALSE
  AddrBySigCount = FALSE
INVARIANTS SameSignersUpToCanon CanonAgree SoundUpToDupKeys
CHECK_DEADLOCK FALSE
