INIT InitLaws
NEXT Stutter
CONSTANTS
  SmallBound = 16
  SmallShift = 4
  SmallShrCount = 12
  Range <- RangeTiny
  ClassSet <- ClassesCore
  AliasSet <- ClassesAlias
  CoreSet <- CoreTiny
INVARIANT Laws
CHECK_DEADLOCK FALSE
