INIT InitLaws
NEXT Stutter
CONSTANTS
  SmallBound = 16
  SmallShift = 4
  Range <- RangeTiny
  ClassSet <- ClassesCore
  CoreSet <- CoreTiny
INVARIANT Laws
CHECK_DEADLOCK FALSE
