----------------------------- MODULE TxPipe_MC -----------------------------
EXTENDS TxPipe, Json

\* the transaction universe of harness/x02_txpipe (world_test.go: xpNewScn)
\*   t1  payer A: sends away all of A's ONG but its own fee     t1b  same hash as t1, damaged signature
\*   t2  payer A: small transfer (unpayable once t1 is on chain) t3   payer B
\*   t4  payer B, damaged signature                              t5   payer B, gas price below the threshold
\*   t6  payer B
TxAll == {"t1", "t1b", "t2", "t3", "t4", "t5", "t6"}
HashAll == [t \in TxAll |-> IF t = "t1b" THEN "t1" ELSE t]
BadSigAll == {"t1b", "t4"}
LowGasAll == {"t5"}
PriceAll == [t \in TxAll |-> CASE t = "t1" -> 6 [] t = "t1b" -> 6 [] t = "t2" -> 5 [] t = "t3" -> 4
                               [] t = "t4" -> 3 [] t = "t6" -> 2 [] OTHER -> 0]
\* once t1 is on chain payer A has nothing left: neither t2 nor t1 itself (offered again) passes preExecCheck
DrainsAll == [t \in TxAll |-> IF t \in {"t1", "t1b", "t2"} THEN {"t1"} ELSE {}]

KindsH == {"http"}
KindsHN == {"http", "net"}

\* quick: the double-spend pair of payer A, its bad-signature twin, one independent transaction, one below the gas price
SubmitQ == {"t1", "t1b", "t2", "t3", "t5"}
BlocksQ == {<<>>, <<"t1">>, <<"t3">>, <<"t1", "t3">>}
VListsQ == {<<"t1">>, <<"t1", "t1">>, <<"t1b">>, <<"t2", "t3">>, <<"t5">>}

StaleQ == {"t1"}
NoStale == {}
ByCountT == {TRUE}
ByCountTF == {TRUE, FALSE}
\* tiny (quick tier, every edge replayed; pre-execution on): payer A's pair - t2 becomes unpayable when t1 is on chain
SubmitS == {"t1", "t2"}
BlocksS == {<<>>, <<"t1">>}
VListsS == {<<"t1">>, <<"t1", "t1">>, <<"t2", "t5">>}
\* mini (quick tier, every edge replayed; pre-execution off: cleanTransactionList without Remain()/re-verification):
\* t1, its bad-signature twin, submissions with stale admission checks, re-submission of an on-chain transaction
SubmitN == {"t1", "t1b"}
BlocksN == {<<>>, <<"t1">>}
VListsN == {<<"t1">>, <<"t1b">>, <<"t2", "t1b">>}
\* small (thorough, every edge replayed)
SubmitM == {"t1", "t1b", "t2"}
BlocksM == {<<>>, <<"t1">>, <<"t2">>}
VListsM == {<<"t1">>, <<"t1", "t1">>, <<"t2", "t5">>, <<"t2", "t1b">>}

\* witness of the pending-limit deviation: three independent valid transactions besides t1
SubmitW == {"t1", "t3", "t4", "t6"}
BlocksW == {<<"t1">>}
VListsW == {<<"t1">>}

\* thorough
StaleT == {"t1", "t2", "t3"}
SubmitT == {"t1", "t1b", "t2", "t3", "t4", "t5"}
\* (payer balances are abstracted by Drains: a block with t2 BEFORE t1 would make t1's transfer fail and leave payer A
\* solvent, so t2 is never put into a block here; the single-block configuration M has the block <<t2>>)
BlocksT == {<<>>, <<"t1">>, <<"t3">>, <<"t1", "t3">>, <<"t6">>, <<"t3", "t6">>}
VListsT == {<<"t1">>, <<"t1", "t1">>, <<"t1", "t1b">>, <<"t1b">>, <<"t2", "t3">>, <<"t3", "t1">>, <<"t4">>, <<"t3", "t5">>}

Edge == PrintT(<<"EDGE", ToJson([from |-> State, act |-> act', to |-> State'])>>)
InitOut == (TLCGet("level") = 1) => PrintT(<<"INIT", ToJson(State)>>)
\* error traces (witness runs) as JSON: one line per state
Alias == [j |-> ToJson([act |-> act, st |-> State])]
\* simulation (thorough): one line per step of a random walk, the python side cuts walks at level 1
Row == PrintT(<<"ROW", ToJson([lvl |-> TLCGet("level"), from |-> State, act |-> act', to |-> State'])>>)
=============================================================================
