----------------------------- MODULE TxPipe_MC -----------------------------
EXTENDS TxPipe, Json

\* the transaction universe of harness/x02_txpipe (world_test.go: xpNewScn)
\*   t1  payer A: sends away all of A's ONG but its own fee     t1b  same hash as t1, damaged signature
\*   t2  payer A: small transfer (unpayable once t1 is on chain) t3   payer B
\*   t4  payer B, damaged signature                              t5   payer B, gas price below the threshold
\*   t6  payer B
TxAll == {"t1", "t1b", "t2", "t3", "t4", "t5", "t6"}
HashAll == [t \in TxAll |-> IF t = "t1b" THEN "t1" ELSE t]
BadSigAll == {"t1b", "t4"}
LowGasAll == {"t5"}
PriceAll == [t \in TxAll |-> CASE t = "t1" -> 6 [] t = "t1b" -> 6 [] t = "t2" -> 5 [] t = "t3" -> 4
                               [] t = "t4" -> 3 [] t = "t6" -> 2 [] OTHER -> 0]
DrainsAll == [t \in TxAll |-> IF t = "t2" THEN {"t1"} ELSE {}]

KindsH == {"http"}
KindsHN == {"http", "net"}

\* quick: the double-spend pair of payer A, its bad-signature twin, one independent transaction, one below the gas price
SubmitQ == {"t1", "t1b", "t2", "t3", "t5"}
BlocksQ == {<<>>, <<"t1">>, <<"t3">>, <<"t1", "t3">>}
VListsQ == {<<"t1">>, <<"t1", "t1">>, <<"t1b">>, <<"t2", "t3">>, <<"t5">>}

StaleQ == {"t1"}
\* tiny (edge cover of the quick tier): payer A's pair and the bad-signature twin
SubmitS == {"t1", "t1b", "t2"}
BlocksS == {<<>>, <<"t1">>}
VListsS == {<<"t1">>, <<"t1", "t1">>, <<"t2", "t5">>, <<"t2", "t1b">>}

\* thorough
StaleT == {"t1", "t2", "t3"}
SubmitT == {"t1", "t1b", "t2", "t3", "t4", "t5"}
BlocksT == {<<>>, <<"t1">>, <<"t2">>, <<"t3">>, <<"t1", "t3">>, <<"t3", "t2">>}
VListsT == {<<"t1">>, <<"t1", "t1">>, <<"t1", "t1b">>, <<"t1b">>, <<"t2", "t3">>, <<"t3", "t1">>, <<"t4">>, <<"t3", "t5">>}

Edge == PrintT(<<"EDGE", ToJson([from |-> State, act |-> act', to |-> State'])>>)
InitOut == (TLCGet("level") = 1) => PrintT(<<"INIT", ToJson(State)>>)
\* simulation (thorough): one line per step of a random walk, the python side cuts walks at level 1
Row == PrintT(<<"ROW", ToJson([lvl |-> TLCGet("level"), from |-> State, act |-> act', to |-> State'])>>)
=============================================================================
