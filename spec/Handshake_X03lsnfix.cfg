\* generated by props/_handshake.py (table CFGS) -- do not edit by hand
SPECIFICATION Spec
CONSTANTS
  Nodes = {"A", "B"}
  Conns = {"c1", "c3"}
  Cl <- ClM
  Sv <- SvM
  Eph <- EphM
  Info <- InfoM
  Pseudo <- PseudoM
  MagicOf <- MagicM
  IpOf <- IpM
  Addr <- AddrM
  Scenarios <- ScRe
  FaultKinds <- FaultsAll
  MaxFaults = 2
  Closes = TRUE
  CheckVersion = FALSE
  MinVer = 1
  LsnCounted = TRUE
CHECK_DEADLOCK FALSE
INVARIANTS TypeOK EntryOK NoSelf OneLive Books Clean Agree FailNoEntry NoIncompat EstQuiet LsnBook
PROPERTIES AdmitAtEnd
