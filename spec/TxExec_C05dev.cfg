SPECIFICATION Spec
CONSTANTS
  Payers <- PayersV
  GOV = "GOV"
  SINK = "SINK"
  Keys <- KeysV
  Vals <- ValsV
  Prices <- PricesV
  Limits <- LimitsV
  MinGas = 2
  CodeGasOf <- CodeGasV
  Fees <- FeesV
  InitOng <- InitOngV
  ResetBeforeTx = FALSE
  MaxOps = 3
VIEW view
INVARIANTS TypeOK NonNeg Conserved
PROPERTIES FailedOnlyFee OnlyOwnWrites GasOnlyIfPriced
CHECK_DEADLOCK FALSE
