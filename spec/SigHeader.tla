------------------------------ MODULE SigHeader ------------------------------
(***************************************************************************)
(* Block-header signature checks (properties C32, C33).                    *)
(*   AddHeader        core/store/ledgerstore.LedgerStoreImp.verifyHeader   *)
(*                    behind AddHeaders / AddBlock, VBFT branch            *)
(*   SyncBlockHeader  cross_chain/header_sync.VerifyHeader behind          *)
(*                    SyncBlockHeader / ProcessHeader                      *)
(* Both end in signature.VerifyMultiSignature (SigBase!VerifyMulti).       *)
(*                                                                         *)
(* The stored consensus peer set is part of the state: `peers` is its size, *)
(* the consensus peers ("members") are the keys 1..peers, key peers+1 is an *)
(* outsider.  One configuration checks every size in PeerSetSizes (C32 and  *)
(* the general header enumeration: the single size N).                      *)
(* A header carries a bookkeeper list bk (any keys, duplicates possible)   *)
(* and a signature list sigs (SigBase signature symbols relative to the    *)
(* header hash).                                                           *)
(*                                                                         *)
(* The decision thresholds the properties are ABOUT are not transcribed    *)
(* from the source: the check probes the real code for them and passes     *)
(* them in as constants (so the model checked is the model of the tree).   *)
(*   LedgerSigsVerified  how many leading signatures verifyHeader verifies *)
(*                       (code: m = N - (N*6)/7)                           *)
(*   LedgerMinDistinct   how many distinct members must be LISTED          *)
(*                       (code: C + 1)                                     *)
(*   SyncMinListLen      minimal bookkeeper list length header_sync takes  *)
(*                       (code: 3*len >= 2*N)                              *)
(*   SyncMinListTab      the same per peer-set size p: {p*100 + len}       *)
(*   SyncSigsTab         how many leading signatures header_sync verifies  *)
(*                       for p peers and a bookkeeper list of length L     *)
(*                       (code: L, all of them): {p*10000 + L*100 + m}     *)
(* Named deviation: MaskByPosition (see SigBase!VerifyMulti); repaired by   *)
(* fix commit 900ecb87, the checks run with it FALSE.                       *)
(***************************************************************************)
EXTENDS SigBase

CONSTANTS N,                \* the (largest) size of the stored peer set
          PeerSetSizes,     \* the sizes of the stored peer set this configuration covers, all <= N
          C,
          LedgerSigsVerified, LedgerMinDistinct, SyncMinListLen,
          MaskByPosition,
          Which,            \* "ledger" | "sync": which entry point this configuration exercises
          MaxBk, MaxSigs,   \* bounds of the enumerated headers
          MaxOutsiders,     \* at most this many outsider entries in a bookkeeper list
          SigSlack,         \* sync: signature lists of length |bk|-1 .. |bk|+SigSlack (shorter ones are all alike)
          AlignOpts,        \* 0: any signature symbol at any position; 2/3: one signature per bookkeeper position,
                            \*    each the listed key's own, the first listed key's (replay) or (3) garbage
          SyncMinListTab,   \* sync: {p*100 + len}: with p peers stored the shortest list taken has length len (probed);
                            \*    sizes that are not in the table: SyncMinListLen
          SyncSigsTab,      \* sync: {p*10000 + L*100 + m}: with p peers stored a list of length L has its m leading
                            \*    signatures verified (probed); (p, L) not in the table: all L signatures (the design)
          QuorumPads,       \* quorum mode (below): the kinds of padding signatures; {} switches the mode off
          QuorumBelow,      \* quorum mode: bookkeeper lists of length two thirds of the peers - QuorumBelow .. peers
          QuorumShort       \* quorum mode: padded signature lists of length |bk|-QuorumShort .. |bk|+1

ASSUME PeerSetSizes # {} /\ \A p \in PeerSetSizes : p \in 1..N

VARIABLES hdr, phase, accepted, act,
          peers             \* the size of the stored consensus peer set (header_sync: ConsensusPeers.PeerMap of the
                            \* governing key height; ledger: the chain configuration in force)
vars == <<hdr, phase, accepted, act, peers>>
State == [hdr |-> hdr, phase |-> phase, accepted |-> accepted, peers |-> peers]

Members == 1..peers
Outsider == peers + 1
TwoThirds(n) == (2 * n + 2) \div 3         \* the least m with 3*m >= 2*n
NoHdr == [bk |-> <<>>, sigs |-> <<>>]

\* Headers are enumerated up to renaming of the members: members appear in bk in order of first occurrence
\* (1, then 2, ...); signatures are by listed members, the next unlisted member, the outsider, or are garbage / stale.
MaxMemberIn(s) == LET ms == {s[i] : i \in DOMAIN s} \cap Members IN IF ms = {} THEN 0 ELSE CHOOSE x \in ms : \A y \in ms : y <= x
Canonical(bk) == \A i \in DOMAIN bk : bk[i] \in Members => bk[i] <= MaxMemberIn(SubSeq(bk, 1, i - 1)) + 1
SigSyms(bk) == {Good(k) : k \in (1..(IF MaxMemberIn(bk) < peers THEN MaxMemberIn(bk) + 1 ELSE peers)) \cup {Outsider}}
               \cup {Garbage, Stale(1)}

Outsiders(bk) == Cardinality({i \in DOMAIN bk : bk[i] = Outsider})
LenOK(nb, ns) == IF Which = "sync" THEN ns + 1 >= nb /\ ns <= nb + SigSlack ELSE TRUE
\* aligned mode: option 1 = the listed key's own signature, 2 = the first listed key's (replayed), 3 = garbage
AlignedSig(bk, i, o) == IF o = 1 THEN Good(bk[i]) ELSE IF o = 2 THEN Good(bk[1]) ELSE Garbage

\* QUORUM MODE (C33).  The number of VALID signatures is a dimension of its own, independent of the number of
\* LISTED bookkeepers: the header lists L distinct members; v of them (the first or the last v listed) have signed;
\* the signature list is filled up with np padding signatures that add no listed signer (garbage, a signature over
\* another message, a second signature of a peer that signed already, of an outsider) or none that is listed (a
\* member that is not in the list), before ("head") or after ("tail") the valid ones.  Enumerated for every L, v
\* and - the peer-set size being part of the state - every size in PeerSetSizes (all residues modulo 3).
QuorumHdr(L, v, who, kind, np, place) ==
    LET first == IF who = "first" THEN 1 ELSE L - v + 1
        valid == [i \in 1..v |-> Good(first + i - 1)]
        p     == CASE kind = "garbage"  -> Garbage
                   [] kind = "stale"    -> Stale(1)
                   [] kind = "repeat"   -> Good(first)
                   [] kind = "unlisted" -> Good(L + 1)
                   [] kind = "outsider" -> Good(Outsider)
        pad   == [i \in 1..np |-> p]
    IN [bk |-> [i \in 1..L |-> i], sigs |-> IF place = "tail" THEN valid \o pad ELSE pad \o valid]
QuorumHdrs ==
    {QuorumHdr(L, v, who, kind, np, place) :
        <<L, v, who, kind, np, place>> \in
            {t \in (0..peers) \X (0..peers) \X {"first", "last"} \X QuorumPads \X (0..(peers + 1)) \X {"tail", "head"} :
                /\ t[1] + QuorumBelow >= TwoThirds(peers) /\ t[2] <= t[1]
                /\ t[2] + t[5] <= t[1] + 1                                  \* at most one surplus signature
                /\ (t[5] = 0 \/ t[2] + t[5] + QuorumShort >= t[1])          \* no padding, or (nearly) up to the list length
                /\ (t[4] = "repeat" => t[2] >= 1)
                /\ (t[4] = "unlisted" => t[1] < peers)}}

-----------------------------------------------------------------------------
(* the code *)
\* with p peers stored: the shortest bookkeeper list header_sync takes
SyncMinList(p) == IF \E e \in SyncMinListTab : e \div 100 = p
                  THEN (CHOOSE e \in SyncMinListTab : e \div 100 = p) % 100 ELSE SyncMinListLen
\* ... and the number of signatures signature.VerifyMultiSignature is handed to verify for a list of length L
SyncSigsVerified(p, L) == IF \E e \in SyncSigsTab : e \div 100 = p * 100 + L
                          THEN (CHOOSE e \in SyncSigsTab : e \div 100 = p * 100 + L) % 100 ELSE L

AllMembers(bk) == \A i \in DOMAIN bk : bk[i] \in Members

\* LedgerStoreImp.verifyHeader, VBFT branch (height/timestamp/chain-config lookups are fixed by the harness)
LedgerAccept(h) ==
    /\ Len(h.bk) >= LedgerSigsVerified                         \* "header Bookkeepers %d more than 6/7 ..."
    /\ AllMembers(h.bk)                                        \* "invalid pubkey"
    /\ Cardinality(Range(h.bk)) >= LedgerMinDistinct           \* len(usedPubKey) < c+1
    /\ VerifyMulti(h.bk, LedgerSigsVerified, h.sigs, MaskByPosition)

\* header_sync.VerifyHeader
SyncAccept(h) ==
    /\ Len(h.bk) >= SyncMinList(peers)                         \* len(Bookkeepers)*3 < len(PeerMap)*2
    /\ AllMembers(h.bk)
    /\ VerifyMulti(h.bk, SyncSigsVerified(peers, Len(h.bk)), h.sigs, MaskByPosition)

(* the properties *)
ValidMemberSigners(h) == {k \in Members : \E i \in DOMAIN h.sigs : ValidFor(h.sigs[i], k)}
\* C32: valid signatures of at least C+1 distinct members of the governing configuration
LedgerOK(h) == Cardinality(ValidMemberSigners(h)) >= C + 1
\* C33: valid signatures of distinct consensus peers number at least two thirds of the peer set
SyncOK(h) == 3 * Cardinality(ValidMemberSigners(h)) >= 2 * peers

-----------------------------------------------------------------------------
Init == hdr = NoHdr /\ phase = "idle" /\ accepted = FALSE /\ act = [name |-> "Init"] /\ peers \in PeerSetSizes

Receive(h) ==
    /\ phase = "idle"
    /\ hdr' = h /\ phase' = "received" /\ UNCHANGED <<accepted, peers>>
    /\ act' = [name |-> "Receive"]

AddHeader ==
    /\ phase = "received" /\ Which = "ledger"
    /\ accepted' = LedgerAccept(hdr) /\ phase' = "checked" /\ UNCHANGED <<hdr, peers>>
    /\ act' = [name |-> "AddHeader"]

SyncBlockHeader ==
    /\ phase = "received" /\ Which = "sync"
    /\ accepted' = SyncAccept(hdr) /\ phase' = "checked" /\ UNCHANGED <<hdr, peers>>
    /\ act' = [name |-> "SyncBlockHeader"]

Next == \/ (phase = "idle" /\ \E nb \in 0..MaxBk : \E bk \in [1..nb -> 1..(N + 1)] :
                                (\A i \in 1..nb : bk[i] <= peers + 1) /\ Canonical(bk) /\ Outsiders(bk) <= MaxOutsiders /\
                                IF AlignOpts = 0
                                THEN \E ns \in 0..MaxSigs : LenOK(nb, ns) /\ \E sg \in [1..ns -> SigSyms(bk)] :
                                         Receive([bk |-> bk, sigs |-> sg])
                                ELSE \E os \in [1..nb -> 1..AlignOpts] :
                                         Receive([bk |-> bk, sigs |-> [i \in 1..nb |-> AlignedSig(bk, i, os[i])]]))
        \/ (phase = "idle" /\ QuorumPads # {} /\ \E h \in QuorumHdrs : Receive(h))
        \/ AddHeader \/ SyncBlockHeader
Spec == Init /\ [][Next]_vars

-----------------------------------------------------------------------------
Checked == phase = "checked"
\* the properties as invariants (hold for the design constants, see SigHeader_MC)
LedgerSound == (Checked /\ Which = "ledger" /\ accepted) => LedgerOK(hdr)
SyncSound   == (Checked /\ Which = "sync" /\ accepted) => SyncOK(hdr)
\* with the constants probed from the tree every unsound acceptance is explained by a named cause
LedgerSoundUpTo == (Checked /\ Which = "ledger" /\ accepted /\ ~LedgerOK(hdr)) =>
                       (LedgerSigsVerified < C + 1 \/ (MaskByPosition /\ HasDup(hdr.bk)))
SyncSoundUpTo   == (Checked /\ Which = "sync" /\ accepted /\ ~SyncOK(hdr)) =>
                       (3 * SyncMinList(peers) < 2 * peers \/ 3 * SyncSigsVerified(peers, Len(hdr.bk)) < 2 * peers
                           \/ (MaskByPosition /\ HasDup(hdr.bk)))
\* quorum arithmetic: what is accepted has TwoThirds(N) listed signers; TwoThirds is the ceiling of 2N/3
SyncQuorum      == (Checked /\ Which = "sync" /\ accepted) => Cardinality(Signers(hdr.bk, hdr.sigs)) >= TwoThirds(peers)
ASSUME \A n \in 0..64 : 3 * TwoThirds(n) >= 2 * n /\ (TwoThirds(n) > 0 => 3 * (TwoThirds(n) - 1) < 2 * n)
=============================================================================
