------------------------------ MODULE SigHeader ------------------------------
(***************************************************************************)
(* Block-header signature checks (properties C32, C33).                    *)
(*   AddHeader        core/store/ledgerstore.LedgerStoreImp.verifyHeader   *)
(*                    behind AddHeaders / AddBlock, VBFT branch            *)
(*   SyncBlockHeader  cross_chain/header_sync.VerifyHeader behind          *)
(*                    SyncBlockHeader / ProcessHeader                      *)
(* Both end in signature.VerifyMultiSignature (SigBase!VerifyMulti).       *)
(*                                                                         *)
(* Consensus peers ("members") are the keys 1..N, key N+1 is an outsider.  *)
(* A header carries a bookkeeper list bk (any keys, duplicates possible)   *)
(* and a signature list sigs (SigBase signature symbols relative to the    *)
(* header hash).                                                           *)
(*                                                                         *)
(* The decision thresholds the properties are ABOUT are not transcribed    *)
(* from the source: the check probes the real code for them and passes     *)
(* them in as constants (so the model checked is the model of the tree).   *)
(*   LedgerSigsVerified  how many leading signatures verifyHeader verifies *)
(*                       (code: m = N - (N*6)/7)                           *)
(*   LedgerMinDistinct   how many distinct members must be LISTED          *)
(*                       (code: C + 1)                                     *)
(*   SyncMinListLen      minimal bookkeeper list length header_sync takes  *)
(*                       (code: 3*len >= 2*N); it verifies len signatures  *)
(* Named deviation: MaskByPosition (see SigBase!VerifyMulti); repaired by   *)
(* fix commit 900ecb87, the checks run with it FALSE.                       *)
(***************************************************************************)
EXTENDS SigBase

CONSTANTS N, C,
          LedgerSigsVerified, LedgerMinDistinct, SyncMinListLen,
          MaskByPosition,
          Which,            \* "ledger" | "sync": which entry point this configuration exercises
          MaxBk, MaxSigs,   \* bounds of the enumerated headers
          MaxOutsiders,     \* at most this many outsider entries in a bookkeeper list
          SigSlack,         \* sync: signature lists of length |bk|-1 .. |bk|+SigSlack (shorter ones are all alike)
          AlignOpts         \* 0: any signature symbol at any position; 2/3: one signature per bookkeeper position,
                            \*    each the listed key's own, the first listed key's (replay) or (3) garbage

VARIABLES hdr, phase, accepted, act
vars == <<hdr, phase, accepted, act>>
State == [hdr |-> hdr, phase |-> phase, accepted |-> accepted]

Members == 1..N
Outsider == N + 1
NoHdr == [bk |-> <<>>, sigs |-> <<>>]

\* Headers are enumerated up to renaming of the members: members appear in bk in order of first occurrence
\* (1, then 2, ...); signatures are by listed members, the next unlisted member, the outsider, or are garbage / stale.
MaxMemberIn(s) == LET ms == {s[i] : i \in DOMAIN s} \cap Members IN IF ms = {} THEN 0 ELSE CHOOSE x \in ms : \A y \in ms : y <= x
Canonical(bk) == \A i \in DOMAIN bk : bk[i] \in Members => bk[i] <= MaxMemberIn(SubSeq(bk, 1, i - 1)) + 1
SigSyms(bk) == {Good(k) : k \in (1..(IF MaxMemberIn(bk) < N THEN MaxMemberIn(bk) + 1 ELSE N)) \cup {Outsider}}
               \cup {Garbage, Stale(1)}

Outsiders(bk) == Cardinality({i \in DOMAIN bk : bk[i] = Outsider})
LenOK(nb, ns) == IF Which = "sync" THEN ns + 1 >= nb /\ ns <= nb + SigSlack ELSE TRUE
\* aligned mode: option 1 = the listed key's own signature, 2 = the first listed key's (replayed), 3 = garbage
AlignedSig(bk, i, o) == IF o = 1 THEN Good(bk[i]) ELSE IF o = 2 THEN Good(bk[1]) ELSE Garbage

-----------------------------------------------------------------------------
(* the code *)
AllMembers(bk) == \A i \in DOMAIN bk : bk[i] \in Members

\* LedgerStoreImp.verifyHeader, VBFT branch (height/timestamp/chain-config lookups are fixed by the harness)
LedgerAccept(h) ==
    /\ Len(h.bk) >= LedgerSigsVerified                         \* "header Bookkeepers %d more than 6/7 ..."
    /\ AllMembers(h.bk)                                        \* "invalid pubkey"
    /\ Cardinality(Range(h.bk)) >= LedgerMinDistinct           \* len(usedPubKey) < c+1
    /\ VerifyMulti(h.bk, LedgerSigsVerified, h.sigs, MaskByPosition)

\* header_sync.VerifyHeader
SyncAccept(h) ==
    /\ Len(h.bk) >= SyncMinListLen                             \* len(Bookkeepers)*3 < len(PeerMap)*2
    /\ AllMembers(h.bk)
    /\ VerifyMulti(h.bk, Len(h.bk), h.sigs, MaskByPosition)

(* the properties *)
ValidMemberSigners(h) == {k \in Members : \E i \in DOMAIN h.sigs : ValidFor(h.sigs[i], k)}
\* C32: valid signatures of at least C+1 distinct members of the governing configuration
LedgerOK(h) == Cardinality(ValidMemberSigners(h)) >= C + 1
\* C33: valid signatures of distinct consensus peers number at least two thirds of the peer set
SyncOK(h) == 3 * Cardinality(ValidMemberSigners(h)) >= 2 * N

-----------------------------------------------------------------------------
Init == hdr = NoHdr /\ phase = "idle" /\ accepted = FALSE /\ act = [name |-> "Init"]

Receive(h) ==
    /\ phase = "idle"
    /\ hdr' = h /\ phase' = "received" /\ UNCHANGED accepted
    /\ act' = [name |-> "Receive"]

AddHeader ==
    /\ phase = "received" /\ Which = "ledger"
    /\ accepted' = LedgerAccept(hdr) /\ phase' = "checked" /\ UNCHANGED hdr
    /\ act' = [name |-> "AddHeader"]

SyncBlockHeader ==
    /\ phase = "received" /\ Which = "sync"
    /\ accepted' = SyncAccept(hdr) /\ phase' = "checked" /\ UNCHANGED hdr
    /\ act' = [name |-> "SyncBlockHeader"]

Next == \/ (phase = "idle" /\ \E nb \in 0..MaxBk : \E bk \in [1..nb -> 1..(N + 1)] :
                                Canonical(bk) /\ Outsiders(bk) <= MaxOutsiders /\
                                IF AlignOpts = 0
                                THEN \E ns \in 0..MaxSigs : LenOK(nb, ns) /\ \E sg \in [1..ns -> SigSyms(bk)] :
                                         Receive([bk |-> bk, sigs |-> sg])
                                ELSE \E os \in [1..nb -> 1..AlignOpts] :
                                         Receive([bk |-> bk, sigs |-> [i \in 1..nb |-> AlignedSig(bk, i, os[i])]]))
        \/ AddHeader \/ SyncBlockHeader
Spec == Init /\ [][Next]_vars

-----------------------------------------------------------------------------
Checked == phase = "checked"
\* the properties as invariants (hold for the design constants, see SigHeader_MC)
LedgerSound == (Checked /\ Which = "ledger" /\ accepted) => LedgerOK(hdr)
SyncSound   == (Checked /\ Which = "sync" /\ accepted) => SyncOK(hdr)
\* with the constants probed from the tree every unsound acceptance is explained by a named cause
LedgerSoundUpTo == (Checked /\ Which = "ledger" /\ accepted /\ ~LedgerOK(hdr)) =>
                       (LedgerSigsVerified < C + 1 \/ (MaskByPosition /\ HasDup(hdr.bk)))
SyncSoundUpTo   == (Checked /\ Which = "sync" /\ accepted /\ ~SyncOK(hdr)) =>
                       (3 * SyncMinListLen < 2 * N \/ (MaskByPosition /\ HasDup(hdr.bk)))
=============================================================================
