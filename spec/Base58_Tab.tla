----------------------------- MODULE Base58_Tab -----------------------------
(* placeholder: props/C22.py generates this module for every run (addresses, logged checksums, arbitrary strings) *)
EXTENDS TLC
AddrsGen == {}
TabGen == <<>>
ArbGen == {}
=============================================================================
