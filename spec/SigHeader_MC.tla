---------------------------- MODULE SigHeader_MC ----------------------------
EXTENDS SigHeader, Json
SigT(sg) == [j \in DOMAIN sg |-> <<sg[j].kind, sg[j].by>>]
Row == <<"H", Which, hdr.bk, SigT(hdr.sigs), accepted', IF Which = "ledger" THEN LedgerOK(hdr) ELSE SyncOK(hdr), HasDup(hdr.bk), peers>>
Edge == (act'.name \in {"AddHeader", "SyncBlockHeader"}) => PrintT(<<"ROW", ToJson(Row)>>)
=============================================================================
