\* C28, distinct signers behind the counters of endorseDone / commitDone (fallback): N=4, C=1, bounds KN4
\* (props/C28.py generates this file per configuration: KN4, KN4long, KN4com, KN7; thorough: KN4two, KN7two, KN7 at N=6 and N=8)
SPECIFICATION Spec
CONSTANTS
  N = 4
  C = 1
  EndorserSet <- EndorserSet4
  QM <- QM4
  QS <- QS4
  TE <- TE4
  SW_Verify = FALSE
  SW_PerBlock = FALSE
  SW_Proposer = FALSE
  K <- KN4
VIEW view
INVARIANTS TypeOK Inv_OneEntryPerPair Inv_CountersCountPeers Inv_EndorseDistinct Inv_FallbackDistinct Inv_CommitQuorumIntersects Inv_EndorseHasHonestWitness
CHECK_DEADLOCK FALSE
CONSTRAINT InitOut
ACTION_CONSTRAINT Edge
