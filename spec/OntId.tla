-------------------------------- MODULE OntId --------------------------------
(***************************************************************************)
(* The native ONT ID contract of ontio/ontology                             *)
(* (smartcontract/service/native/ontid: method.go, controller.go,           *)
(* recovery.go, authentication.go, owner.go, group.go, utils.go, init.go),  *)
(* at a height at or above the new-ONT-ID fork height (NewOntId = TRUE: all  *)
(* methods registered, version-1 key records) or below it (NewOntId = FALSE: *)
(* the methods of PostOnly are not registered = every call of them is an     *)
(* error, and every key record is a version-0 owner record, which reads as   *)
(* a publicKey-list key with authentication right).                          *)
(* One action per contract method; the guard of an action is the method's   *)
(* authorization rule, its effect the method's storage update.  Every       *)
(* refusal is an error of the native call ("err": nothing is written).      *)
(* State per identity x (ids[x]), = the contract's storage under encId:     *)
(*   st     "none" | "valid" | "revoked"           (the flag byte)          *)
(*   keys   FIELD_PK: sequence of [key, revoked, auth, pklist]; index =      *)
(*          position.  pklist (isPkList) is FALSE only for a key added as a  *)
(*          pure authentication key (addNewAuthKey); it plays no role in any *)
(*          authorization rule                                               *)
(*   ctrl   FIELD_CONTROLLER: none | one ONT ID | group (members, t)        *)
(*   rec    FIELD_RECOVERY: none | old (an address) | group (members, t)    *)
(*   attrs  FIELD_ATTR: set of attribute keys                               *)
(* A transaction carries a signer set S (a set of keys whose addresses      *)
(* CheckWitness accepts).                                                   *)
(* Properties (C45): OnlyAuthorized, RevokedFinal, RevokedNotRegistered,     *)
(* RevokedEmpty.                                                            *)
(***************************************************************************)
EXTENDS Naturals, Sequences, FiniteSets, TLC

CONSTANTS Ids, Keys, AttrNames,
          MaxKeys,      \* bound on the length of a key list (add-actions are disabled beyond it)
          Groups,       \* group values [members, t] used as controller / recovery arguments
          SgSets,       \* signer lists (sequences of [id, idx]) used as group proofs
          SignerSets,   \* transaction signer sets explored for the canonical attempts
          MaxOps, Acts,
          InitStates,
          NewOntId      \* TRUE: block height >= config.GetNewOntIdHeight(); FALSE: below it

VARIABLES ids, nops, act
vars == <<ids, nops, act>>
view == <<ids>>

NoC == [kind |-> "none", id |-> "", key |-> "", members |-> <<>>, t |-> 0]
CId(x) == [kind |-> "id", id |-> x, key |-> "", members |-> <<>>, t |-> 0]
CGroup(g) == [kind |-> "group", id |-> "", key |-> "", members |-> g.members, t |-> g.t]
COld(k) == [kind |-> "old", id |-> "", key |-> k, members |-> <<>>, t |-> 0]
NoneRec == [st |-> "none", keys |-> <<>>, ctrl |-> NoC, rec |-> NoC, attrs |-> {}]
RevokedRec == [NoneRec EXCEPT !.st = "revoked"]
Idx == 1..(MaxKeys + 1)
Range(s) == {s[i] : i \in 1..Len(s)}

Valid(x) == ids[x].st = "valid"
KL(x) == ids[x].keys
HasIdx(x, i) == i \in 1..Len(KL(x))
KeyAt(x, i) == IF x \in Ids /\ HasIdx(x, i) THEN {KL(x)[i].key} ELSE {}
\* checkWitnessByIndex(encId, index): key exists, not revoked, has authentication right, its address witnessed
ByIndex(x, i, S) == x \in Ids /\ HasIdx(x, i) /\ ~KL(x)[i].revoked /\ KL(x)[i].auth /\ KL(x)[i].key \in S
\* checkWitnessWithoutAuth
ByIndexNoAuth(x, i, S) == HasIdx(x, i) /\ ~KL(x)[i].revoked /\ KL(x)[i].key \in S
\* isOwner(encId, pub): a non-revoked key with authentication right equal to pub
IsOwner(x, k) == \E i \in 1..Len(KL(x)) : KL(x)[i].key = k /\ KL(x)[i].auth /\ ~KL(x)[i].revoked
\* old API: operator given as public key (owner) or as address (old-style recovery); checkWitness(operator)
PkAuth(x, op, S) == /\ op.key \in S
                    /\ \/ (ids[x].rec.kind = "old" /\ op.form = "addr" /\ ids[x].rec.key = op.key)
                       \/ (op.form = "pk" /\ IsOwner(x, op.key))
OwnerAuth(x, op, S) == op.key \in S /\ op.form = "pk" /\ IsOwner(x, op.key)
\* verifyGroupSignature(group, signers): threshold over members named in the signer list, every signer witnessed
GroupOK(g, sg, S) == /\ Cardinality({j \in 1..Len(g.members) : \E s \in Range(sg) : s.id = g.members[j]}) >= g.t
                     /\ \A s \in Range(sg) : ByIndex(s.id, s.idx, S)
\* verifyControllerSignature
ProofOK(c, proof, S) == \/ (c.kind = "id" /\ proof.kind = "idx" /\ ByIndex(c.id, proof.idx, S))
                        \/ (c.kind = "group" /\ proof.kind = "sg" /\ GroupOK(c, proof.sg, S))
\* validateMembers (putRecovery): every member registered and owning at least one key record
MembersOK(g) == \A m \in Range(g.members) : m \in Ids /\ Valid(m) /\ Len(KL(m)) >= 1

HasKey(x, k) == \E i \in 1..Len(KL(x)) : KL(x)[i].key = k
KeyPos(x, k) == CHOOSE i \in 1..Len(KL(x)) : KL(x)[i].key = k
\* insertPk(encId, pk, controller, isPkList, isAuthentication): below the fork height the two flags are not stored
\* (owner record {key, revoked}; getAllPk_Version1 reads such a record as isPkList = isAuthentication = TRUE)
PkRec(k, pl, au) == [key |-> k, revoked |-> FALSE, auth |-> (au \/ ~NewOntId), pklist |-> (pl \/ ~NewOntId)]
Appended(x, k, au) == [ids[x] EXCEPT !.keys = Append(@, PkRec(k, ~au, au))]
\* init.go RegisterIDContract: methods registered only at or above the fork height
PostOnly == {"RemoveRecovery", "AddKeyIdx", "RemoveKeyIdx", "AddAttrIdx", "RemoveAttrIdx", "AddNewAuthKey", "SetAuthKey",
             "RemoveAuthKey", "SetAuthKeyByCtrl"}
Registered(name) == NewOntId \/ name \notin PostOnly
RevokedAt(x, i) == [ids[x] EXCEPT !.keys[i].revoked = TRUE]
AuthAt(x, i, b) == [ids[x] EXCEPT !.keys[i].auth = b]
Live(x, i) == HasIdx(x, i) /\ ~KL(x)[i].revoked

Init == /\ ids \in InitStates /\ nops = 0 /\ act = [name |-> "Init"]
Step(a) == nops < MaxOps /\ a.name \in Acts /\ nops' = nops + 1 /\ act' = a
\* a method call: on success exactly identity x changes
Do(a, x, ok, new) == IF ok /\ Registered(a.name) THEN Step(a @@ [res |-> "ok"]) /\ ids' = [ids EXCEPT ![x] = new]
                     ELSE Step(a @@ [res |-> "err"]) /\ UNCHANGED ids
A(name, x, S) == [name |-> name, id |-> x, signers |-> S]

\* ------------------------------------------------------------------ registration
\* The three registration entry points (regIDWithPublicKey, regIDWithAttributes, regIDWithController) are separate
\* actions; each is attempted in every state of the identity (none, valid, revoked) and by every caller, and each
\* has its own "already registered" guard: the state flag must be flag_not_exist (a revoked identity keeps
\* flag_revoke for ever and is refused like a registered one).
RegPk(x, k, S) == Do(A("RegPk", x, S) @@ [key |-> k], x, ids[x].st = "none" /\ k \in S,
                     [NoneRec EXCEPT !.st = "valid", !.keys = <<PkRec(k, TRUE, TRUE)>>])
\* regIDWithAttributes: insertPk(.., isPkList = true, isAuthentication = false), then the attributes
RegAttrs(x, k, as, S) == Do(A("RegAttrs", x, S) @@ [key |-> k, attrs |-> as], x, ids[x].st = "none" /\ k \in S,
                            [NoneRec EXCEPT !.st = "valid", !.keys = <<PkRec(k, TRUE, FALSE)>>, !.attrs = as])
RegCtrl(x, c, proof, S) == Do(A("RegCtrl", x, S) @@ [ctrl |-> c, proof |-> proof], x,
                              ids[x].st = "none" /\ ProofOK(c, proof, S),
                              [NoneRec EXCEPT !.st = "valid", !.ctrl = c])
\* ------------------------------------------------------------------ own keys, by key index
AddKeyIdx(x, k, i, S) == Do(A("AddKeyIdx", x, S) @@ [key |-> k, idx |-> i], x,
                            Valid(x) /\ ByIndex(x, i, S) /\ ~HasKey(x, k), Appended(x, k, FALSE))
RemoveKeyIdx(x, k, i, S) == Do(A("RemoveKeyIdx", x, S) @@ [key |-> k, idx |-> i], x,
                               Valid(x) /\ ByIndex(x, i, S) /\ HasKey(x, k) /\ ~KL(x)[KeyPos(x, k)].revoked,
                               RevokedAt(x, KeyPos(x, k)))
AddNewAuthKey(x, k, i, S) == Do(A("AddNewAuthKey", x, S) @@ [key |-> k, idx |-> i], x,
                                Valid(x) /\ ByIndex(x, i, S) /\ ~HasKey(x, k), Appended(x, k, TRUE))
SetAuthKey(x, j, i, S) == Do(A("SetAuthKey", x, S) @@ [target |-> j, idx |-> i], x,
                             Valid(x) /\ ByIndex(x, i, S) /\ Live(x, j), AuthAt(x, j, TRUE))
RemoveAuthKey(x, j, i, S) == Do(A("RemoveAuthKey", x, S) @@ [target |-> j, idx |-> i], x,
                                Valid(x) /\ ByIndex(x, i, S) /\ Live(x, j), AuthAt(x, j, FALSE))
\* ------------------------------------------------------------------ own keys, old API (operator key / recovery address)
AddKeyPk(x, k, op, S) == Do(A("AddKeyPk", x, S) @@ [key |-> k, op |-> op], x,
                            Valid(x) /\ PkAuth(x, op, S) /\ ~HasKey(x, k), Appended(x, k, FALSE))
\* removeKey fails with "unexpected storage version" once a new-style recovery is set
RemoveKeyPk(x, k, op, S) == Do(A("RemoveKeyPk", x, S) @@ [key |-> k, op |-> op], x,
                               Valid(x) /\ ids[x].rec.kind # "group" /\ PkAuth(x, op, S)
                                 /\ HasKey(x, k) /\ ~KL(x)[KeyPos(x, k)].revoked,
                               RevokedAt(x, KeyPos(x, k)))
\* ------------------------------------------------------------------ attributes
AddAttrIdx(x, a, i, S) == Do(A("AddAttrIdx", x, S) @@ [attr |-> a, idx |-> i], x,
                             Valid(x) /\ ByIndex(x, i, S), [ids[x] EXCEPT !.attrs = @ \cup {a}])
RemoveAttrIdx(x, a, i, S) == Do(A("RemoveAttrIdx", x, S) @@ [attr |-> a, idx |-> i], x,
                                Valid(x) /\ ByIndex(x, i, S) /\ a \in ids[x].attrs, [ids[x] EXCEPT !.attrs = @ \ {a}])
AddAttrPk(x, a, op, S) == Do(A("AddAttrPk", x, S) @@ [attr |-> a, op |-> op], x,
                             Valid(x) /\ OwnerAuth(x, op, S), [ids[x] EXCEPT !.attrs = @ \cup {a}])
\* ------------------------------------------------------------------ recovery
\* setRecovery refuses only when a new-style recovery exists (an old-style one is overwritten)
SetRecovery(x, g, i, S) == Do(A("SetRecovery", x, S) @@ [group |-> g, idx |-> i], x,
                              Valid(x) /\ ByIndex(x, i, S) /\ ids[x].rec.kind # "group" /\ MembersOK(g),
                              [ids[x] EXCEPT !.rec = CGroup(g)])
UpdateRecovery(x, g, sg, S) == Do(A("UpdateRecovery", x, S) @@ [group |-> g, sg |-> sg], x,
                                  Valid(x) /\ ids[x].rec.kind = "group" /\ GroupOK(ids[x].rec, sg, S) /\ MembersOK(g),
                                  [ids[x] EXCEPT !.rec = CGroup(g)])
RemoveRecovery(x, i, S) == Do(A("RemoveRecovery", x, S) @@ [idx |-> i], x,
                              Valid(x) /\ ByIndex(x, i, S), [ids[x] EXCEPT !.rec = NoC])
\* addRecovery (old API) refuses only when an old-style recovery exists (a new-style one is overwritten)
AddRecoveryOld(x, k, op, S) == Do(A("AddRecoveryOld", x, S) @@ [key |-> k, op |-> op], x,
                                  Valid(x) /\ OwnerAuth(x, op, S) /\ ids[x].rec.kind # "old",
                                  [ids[x] EXCEPT !.rec = COld(k)])
ChangeRecoveryOld(x, k, old, S) == Do(A("ChangeRecoveryOld", x, S) @@ [key |-> k, old |-> old], x,
                                      Valid(x) /\ ids[x].rec.kind = "old" /\ ids[x].rec.key = old /\ old \in S,
                                      [ids[x] EXCEPT !.rec = COld(k)])
AddKeyByRecovery(x, k, sg, S) == Do(A("AddKeyByRecovery", x, S) @@ [key |-> k, sg |-> sg], x,
                                    Valid(x) /\ ids[x].rec.kind = "group" /\ GroupOK(ids[x].rec, sg, S) /\ ~HasKey(x, k),
                                    Appended(x, k, FALSE))
RemoveKeyByRecovery(x, j, sg, S) == Do(A("RemoveKeyByRecovery", x, S) @@ [target |-> j, sg |-> sg], x,
                                       Valid(x) /\ ids[x].rec.kind = "group" /\ GroupOK(ids[x].rec, sg, S) /\ Live(x, j),
                                       RevokedAt(x, j))
\* ------------------------------------------------------------------ controller
RemoveController(x, i, S) == Do(A("RemoveController", x, S) @@ [idx |-> i], x,
                                Valid(x) /\ ByIndex(x, i, S), [ids[x] EXCEPT !.ctrl = NoC])
AddKeyByCtrl(x, k, proof, S) == Do(A("AddKeyByCtrl", x, S) @@ [key |-> k, proof |-> proof], x,
                                   Valid(x) /\ ProofOK(ids[x].ctrl, proof, S) /\ ~HasKey(x, k), Appended(x, k, FALSE))
RemoveKeyByCtrl(x, j, proof, S) == Do(A("RemoveKeyByCtrl", x, S) @@ [target |-> j, proof |-> proof], x,
                                      Valid(x) /\ ProofOK(ids[x].ctrl, proof, S) /\ Live(x, j), RevokedAt(x, j))
AddAttrByCtrl(x, a, proof, S) == Do(A("AddAttrByCtrl", x, S) @@ [attr |-> a, proof |-> proof], x,
                                    Valid(x) /\ ProofOK(ids[x].ctrl, proof, S), [ids[x] EXCEPT !.attrs = @ \cup {a}])
SetAuthKeyByCtrl(x, j, proof, S) == Do(A("SetAuthKeyByCtrl", x, S) @@ [target |-> j, proof |-> proof], x,
                                       Valid(x) /\ ProofOK(ids[x].ctrl, proof, S) /\ Live(x, j), AuthAt(x, j, TRUE))
\* ------------------------------------------------------------------ revocation
RevokeID(x, i, S) == Do(A("RevokeID", x, S) @@ [idx |-> i], x, Valid(x) /\ ByIndex(x, i, S), RevokedRec)
RevokeByCtrl(x, proof, S) == Do(A("RevokeByCtrl", x, S) @@ [proof |-> proof], x,
                                Valid(x) /\ ProofOK(ids[x].ctrl, proof, S), RevokedRec)
\* ------------------------------------------------------------------ read-only: verifySignature(id, index)
VerifySig(x, i, S) == Do(A("VerifySig", x, S) @@ [idx |-> i], x, Valid(x) /\ ByIndexNoAuth(x, i, S), ids[x])

(***************************** attempts explored ****************************)
\* Every parameter combination is tried with the signer set it claims (the keys its proof names); for one
\* canonical parameter choice per identity every signer set of SignerSets is tried.
K0 == CHOOSE k \in Keys : TRUE
K1 == CHOOSE k \in Keys \ {K0} : TRUE
SgKeys(sg) == UNION {KeyAt(s.id, s.idx) : s \in Range(sg)}
PrKeys(p) == IF p.kind = "idx" THEN KeyAt(p.cid, p.idx) ELSE SgKeys(p.sg)
PIdx(c, i) == [kind |-> "idx", cid |-> c, idx |-> i, sg |-> <<>>]
PSg(sg) == [kind |-> "sg", cid |-> "", idx |-> 0, sg |-> sg]
Ops == [form : {"pk", "addr"}, key : Keys]
OP0 == [form |-> "pk", key |-> K1]
SG0 == CHOOSE sg \in SgSets : \A q \in SgSets : Len(sg) >= Len(q)
G0 == CHOOSE g \in Groups : TRUE
Room(x) == Len(KL(x)) < MaxKeys
\* the proofs that fit the controller c (kind must match; for "no controller" both kinds are tried)
ProofsFor(c) == (IF c.kind # "group" THEN {PIdx(IF c.kind = "id" THEN c.id ELSE CHOOSE y \in Ids : TRUE, i) : i \in Idx} ELSE {})
                \cup (IF c.kind # "id" THEN {PSg(sg) : sg \in SgSets} ELSE {})
PR0(c) == CHOOSE p \in ProofsFor(c) : (p.kind = "idx" => p.idx = 1) /\ (p.kind = "sg" => p.sg = SG0)
Ctrls == {CId(y) : y \in Ids} \cup {CGroup(g) : g \in Groups}

\* signer sets tried for an attempt: the one it claims, or all of SignerSets for a canonical attempt
Sig(claimed, canon) == IF canon THEN SignerSets ELSE {claimed}
\* (every disjunct starts with the bound on the number of operations; Next is a plain disjunction so that TLC
\* splits it into sub-actions)
More == nops < MaxOps
Next ==
  \E x \in Ids :
    \/ More /\ \E k \in Keys : \E S \in Sig({k}, k = K0) : RegPk(x, k, S)
    \/ More /\ \E k \in Keys, as \in SUBSET AttrNames : \E S \in Sig({k}, k = K0 /\ as = {}) : RegAttrs(x, k, as, S)
    \/ More /\ \E c \in Ctrls : \E p \in ProofsFor(c) :
          /\ c.kind = "id" => c.id # x
          /\ \E S \in Sig(PrKeys(p), c = CGroup(G0) /\ p = PR0(c)) : RegCtrl(x, c, p, S)
    \/ More /\ \E k \in Keys, i \in Idx : \E S \in Sig(KeyAt(x, i), k = K0 /\ i = 1) :
          \/ Room(x) /\ AddKeyIdx(x, k, i, S)
          \/ RemoveKeyIdx(x, k, i, S)
          \/ Room(x) /\ AddNewAuthKey(x, k, i, S)
    \/ More /\ \E j \in 1..MaxKeys, i \in Idx : \E S \in Sig(KeyAt(x, i), j = 1 /\ i = 1) :
          SetAuthKey(x, j, i, S) \/ RemoveAuthKey(x, j, i, S)
    \/ More /\ \E k \in Keys, op \in Ops : \E S \in Sig({op.key}, k = K0 /\ op = OP0) :
          \/ Room(x) /\ AddKeyPk(x, k, op, S)
          \/ RemoveKeyPk(x, k, op, S)
          \/ AddRecoveryOld(x, k, op, S)
    \/ More /\ \E k \in Keys, old \in Keys : \E S \in Sig({old}, k = K0 /\ old = K1) : ChangeRecoveryOld(x, k, old, S)
    \/ More /\ \E a \in AttrNames, i \in Idx : \E S \in Sig(KeyAt(x, i), i = 1) :
          AddAttrIdx(x, a, i, S) \/ RemoveAttrIdx(x, a, i, S)
    \/ More /\ \E a \in AttrNames, op \in Ops : \E S \in Sig({op.key}, op = OP0) : AddAttrPk(x, a, op, S)
    \/ More /\ \E g \in Groups, i \in Idx : \E S \in Sig(KeyAt(x, i), g = G0 /\ i = 1) : SetRecovery(x, g, i, S)
    \/ More /\ \E i \in Idx : \E S \in Sig(KeyAt(x, i), i = 1) :
          RemoveRecovery(x, i, S) \/ RemoveController(x, i, S) \/ RevokeID(x, i, S) \/ VerifySig(x, i, S)
    \/ More /\ \E sg \in SgSets :
          \/ \E g \in Groups : \E S \in Sig(SgKeys(sg), sg = SG0 /\ g = G0) : UpdateRecovery(x, g, sg, S)
          \/ \E k \in Keys : \E S \in Sig(SgKeys(sg), sg = SG0 /\ k = K0) : Room(x) /\ AddKeyByRecovery(x, k, sg, S)
          \/ \E j \in 1..MaxKeys : \E S \in Sig(SgKeys(sg), sg = SG0 /\ j = 1) : RemoveKeyByRecovery(x, j, sg, S)
    \/ More /\ \E p \in ProofsFor(ids[x].ctrl) : LET c0 == (p = PR0(ids[x].ctrl)) IN
          \/ \E k \in Keys : \E S \in Sig(PrKeys(p), c0 /\ k = K0) : Room(x) /\ AddKeyByCtrl(x, k, p, S)
          \/ \E j \in 1..MaxKeys : \E S \in Sig(PrKeys(p), c0 /\ j = 1) :
                RemoveKeyByCtrl(x, j, p, S) \/ SetAuthKeyByCtrl(x, j, p, S)
          \/ \E a \in AttrNames : \E S \in Sig(PrKeys(p), c0) : AddAttrByCtrl(x, a, p, S)
          \/ \E S \in Sig(PrKeys(p), c0) : RevokeByCtrl(x, p, S)

Spec == Init /\ [][Next]_vars

(******************************** properties *******************************)
AnyKeyAuth(x, S) == \E i \in 1..Len(KL(x)) : ByIndex(x, i, S)
GroupSat(g, S) == Cardinality({j \in 1..Len(g.members) : g.members[j] \in Ids /\ AnyKeyAuth(g.members[j], S)}) >= g.t
BodySat(c, S) == \/ (c.kind = "id" /\ c.id \in Ids /\ AnyKeyAuth(c.id, S))
                 \/ (c.kind = "group" /\ GroupSat(c, S))
                 \/ (c.kind = "old" /\ c.key \in S)
\* the transaction is witnessed by a non-revoked key of x with authentication right, or by x's controller
\* or recovery as configured
Authorized(x, S) == AnyKeyAuth(x, S) \/ BodySat(ids[x].ctrl, S) \/ BodySat(ids[x].rec, S)
\* registering x: witnessed by the key being registered, or by the controller being installed
RegAuthorized(a, S) == \/ (a.name \in {"RegPk", "RegAttrs"} /\ a.key \in S)
                       \/ (a.name = "RegCtrl" /\ BodySat(a.ctrl, S))
TypeOK == \A x \in Ids : /\ ids[x].st \in {"none", "valid", "revoked"}
                         /\ \A i \in 1..Len(KL(x)) : KL(x)[i].key \in Keys
\* C45: an identity changes only through a call on it whose signer set is authorized for it
OnlyAuthorized == [][\A x \in Ids : ids'[x] # ids[x] =>
                        /\ act'.id = x /\ act'.res = "ok"
                        /\ IF ids[x].st = "none" THEN RegAuthorized(act', act'.signers)
                           ELSE ids[x].st = "valid" /\ Authorized(x, act'.signers)]_vars
\* C45: a revoked identity is never registered or modified again, and keeps nothing
RevokedFinal == [][\A x \in Ids : ids[x].st = "revoked" => ids'[x] = ids[x]]_vars
\* ... in particular through no registration entry point, whoever calls it (stated separately: vacuity guard for
\* the class "registration attempted on a revoked identity")
RegNames == {"RegPk", "RegAttrs", "RegCtrl"}
RevokedNotRegistered == [][\A x \in Ids : (ids[x].st = "revoked" /\ act'.name \in RegNames /\ act'.id = x)
                                             => (act'.res = "err" /\ ids' = ids)]_vars
RevokedEmpty == \A x \in Ids : ids[x].st = "revoked" => ids[x] = RevokedRec
NoneEmpty == \A x \in Ids : ids[x].st = "none" => ids[x] = NoneRec
\* a key listed twice would make indexes ambiguous
KeysDistinct == \A x \in Ids : \A i, j \in 1..Len(KL(x)) : KL(x)[i].key = KL(x)[j].key => i = j

State == [ids |-> ids]
=============================================================================
