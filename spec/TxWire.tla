------------------------------- MODULE TxWire -------------------------------
(***************************************************************************)
(* C19 -- transaction encoding is canonical and its hash binds the signed  *)
(* content.  One call per case: TransactionFromRawBytes(raw) (or           *)
(* Transaction.Deserialization at offset 0 of a longer source), observed   *)
(* through ToArray and Hash.                                               *)
(***************************************************************************)
EXTENDS TxWireOps

CONSTANTS Cases,      \* set of [kind, raw, ...] byte strings offered by the model-checking configuration
          MaxTxSize   \* MAX_TX_SIZE (1 MiB in the code; a small value in the model, see the `scaled' cases)

VARIABLES call, res
vars == <<call, res>>

\* the same bytes through Transaction.Deserialization in the middle of a longer source (as inside a block)
Embedded(raw) == LET d == DecTx(<<9, 9, 9>> \o raw \o <<7, 7>>, 3, MaxTxSize) IN
                 IF ~d.ok THEN [v |-> "reject", n |-> 0] ELSE [v |-> d.verdict, n |-> d.end - 3]
Outcome(raw) == LET d == FromRaw(raw, MaxTxSize)
                    e == Embedded(raw)
                IN IF ~d.ok THEN [v |-> "reject", err |-> d.err, embv |-> e.v, embn |-> e.n]
                   ELSE [v |-> d.verdict, err |-> "", n |-> d.end, tx |-> d.tx, hashterm |-> d.hashterm,
                         reenc |-> EncTx(d.tx), embv |-> e.v, embn |-> e.n]

Init == call = [kind |-> "Init"] /\ res = [v |-> ""]
Next == call.kind = "Init" /\ \E c \in Cases : call' = c /\ res' = Outcome(c.raw)
Spec == Init /\ [][Next]_vars

\* ------------------------------------------------------------------ properties
\* Canonical: accepted bytes re-serialize (field by field) to exactly the consumed bytes
CanonicalOK(c, r) == r.v \in {"accept", "sig"} => r.reenc = SubSeq(c.raw, 1, r.n)
\* HashBindsUnsigned (Ontology transactions): the hash term is the unsigned encoding, so it does not depend on the
\* signature list and differs whenever an unsigned field differs
HashOK(c, r) == (r.v = "accept") => r.hashterm = EncOntUnsigned(r.tx.u)
\* the expectation attached to every generated case
ExpectOK(c, r) == /\ c.expect = "accept" => r.v \in {"accept", "sig"}
                  /\ c.expect = "reject" => r.v = "reject"
\* size limit
SizeOK(c, r) == r.v \in {"accept", "sig"} => (r.n <= MaxTxSize /\ Len(c.raw) <= MaxTxSize)
AllOK == [][CanonicalOK(call', res') /\ HashOK(call', res') /\ ExpectOK(call', res') /\ SizeOK(call', res')]_vars
=============================================================================
