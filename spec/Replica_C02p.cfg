SPECIFICATION Spec
CONSTANTS
  Kinds <- KindsPath
  NeedsWitness <- Needs
  FeeKinds <- Fees
  ParamKind = "setparam"
  MaxParam = 0
  MaxRestart = 1
  StaleGasTable = FALSE
  Variants <- ChainVariants
  SameAddr <- ProbedSameAddr
  MaxTx = 1
  MaxBlocks = 2
  EnvKinds <- KindsEnv
  Paths <- PathsAll
  EnvFromIndex = FALSE
  LazyFromRaw = TRUE
VIEW view
CONSTRAINT InitOut
ACTION_CONSTRAINT Edge
CHECK_DEADLOCK FALSE
