INIT InitRows
NEXT Stutter
CONSTANTS
  SmallBound = 32
  SmallShift = 5
  Range <- RangeTiny
  ClassSet <- ClassesQuick
  CoreSet <- ClassesCore
CONSTRAINT RowOut
CHECK_DEADLOCK FALSE
