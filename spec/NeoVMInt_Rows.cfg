INIT InitRows
NEXT Stutter
CONSTANTS
  SmallBound = 32
  SmallShift = 5
  SmallShrCount = 12
  Range <- RangeTiny
  ClassSet <- ClassesQuick
  AliasSet <- ClassesAlias
  CoreSet <- ClassesCore
CONSTRAINT RowOut
CHECK_DEADLOCK FALSE
