SPECIFICATION Spec
CONSTANTS
  Peers <- P3
  N = 4
  PeerH <- H4b
  Byz <- ByzP2
  Honest = "p1"
  Empty <- Empty4
  Perms <- Perms3
  MaxFlightHdr = 1
  MaxFlightBlk = 50
  MaxCache = 500
  MaxHdrFwd = 5000
  NextTimes = 3
  NextHeights = 2
  AcceptAnyBlock = TRUE
  AcceptAnyHdrPeer = TRUE
  TimeoutPickCur = TRUE
  SchedCap = 12
  MaxHeld = 3
  RecordAct = TRUE
  Acts <- ActsAll
VIEW view
INVARIANTS TypeOK CacheAboveCommitted FlightCacheDisjoint FlightBound NoWedge
PROPERTIES CommitInOrder NoRedundantReq RejectHandled TimeoutReattributes
CHECK_DEADLOCK FALSE
CONSTRAINT InitOut
ACTION_CONSTRAINT Edge
