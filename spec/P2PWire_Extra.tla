---------------------------- MODULE P2PWire_Extra ----------------------------
\* seeded random payloads per command; replaced per run by props/C24.py
ExtraGen == [c \in {"ping", "pong", "verack", "version", "addr", "getaddr", "getheaders", "headers", "inv", "getdata", "block", "tx", "consensus", "notfound", "getblocks", "findnode", "findnodeack", "updatekadid", "getmembers", "members", "offline", "mystery"} |-> {}]
=============================================================================
