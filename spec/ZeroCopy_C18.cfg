SPECIFICATION Spec
CONSTANTS
  Bufs <- BufsQuick
  NArgs <- NArgsQ
  BackArgs <- BackArgsQ
  Items <- ItemsQ
  Acts <- AllActs
  MaxCalls = 3
  MaxWrites = 2
  Spares <- SparesMC
VIEW view
INVARIANTS TypeOK RoundTrip
PROPERTIES Canonical EofOK
CONSTRAINT InitOut
ACTION_CONSTRAINT AliasLimit Edge
CHECK_DEADLOCK FALSE
