------------------------------ MODULE NeoVM_MC ------------------------------
(***************************************************************************)
(* Model-checking harness of NeoVM.tla for C14 (and the shape generator of  *)
(* C12 / C15).  A behaviour: a heap is given (every heap of NC cells with   *)
(* up to MaxSlots slots: cycles and sharing in every position), then ONE of *)
(* the consuming operations is applied to cell 1; a successful Serialize    *)
(* may be followed by Deserialize of the bytes or of a mutation of them.    *)
(***************************************************************************)
EXTENDS NeoVM, Json

CONSTANTS HeapMode, WithMutations, ChainLens

VARIABLES heap, pc, out
vars == <<heap, pc, out>>

Pick0 == [c \in Cells |-> 1]
\* map-iteration choices (uniform ones only for the long chains, where all 2^NC choices are too many)
AllPicks == IF HeapMode = "chain" THEN {[c \in Cells |-> k] : k \in 1 .. MaxSlots} ELSE [Cells -> 1 .. MaxSlots]
Picks == {p \in AllPicks : \A c \in Cells : (heap[c].kind # "map" \/ Len(heap[c].slots) < 2) => p[c] = 1 \/ HeapMode = "chain"}
NoOut == [r |-> "", bytes |-> <<>>]

CellsOfKind(k) == {ct \in CellType : ct.kind = k}
\* chain of n nested containers: the head has kind kh and links through slot ph, the others kind k / slot pos;
\* the innermost holds a leaf / nothing / a link back to the head
ChainHeap(n, kh, ph, k, pos, leaf, back) ==
    [c \in Cells |-> IF c < n THEN [kind |-> IF c = 1 THEN kh ELSE k,
                                    slots |-> IF (IF c = 1 THEN ph ELSE pos) = 1 THEN <<c + 1>> ELSE <<0, c + 1>>]
                     ELSE IF c = n THEN [kind |-> IF c = 1 THEN kh ELSE k,
                                         slots |-> IF back THEN (IF pos = 1 THEN <<1>> ELSE <<0, 1>>)
                                                   ELSE IF leaf THEN <<0>> ELSE <<>>]
                     ELSE [kind |-> "arr", slots |-> <<>>]]
HeapSet ==
    CASE HeapMode = "all"     -> [Cells -> CellType]
      [] HeapMode = "uniform" -> UNION {[Cells -> CellsOfKind(k)] : k \in Kinds}
      [] HeapMode = "arr"     -> [Cells -> CellsOfKind("arr")]
      [] HeapMode = "arrmap"  -> [Cells -> CellsOfKind("arr") \cup CellsOfKind("map")]
      [] OTHER                -> {ChainHeap(n, kh, ph, k, pos, lb[1], lb[2]) : n \in ChainLens \cap Cells, kh \in Kinds, ph \in 1 .. 2,
                                       k \in Kinds, pos \in 1 .. 2, lb \in {<<TRUE, FALSE>>, <<FALSE, FALSE>>, <<FALSE, TRUE>>}}

MutBytes == {0, 1, 3, 64, 128, 130, 131, 253, 255}
Splice(e, i, ins) == SubSeq(e, 1, i - 1) \o ins \o SubSeq(e, i + 1, Len(e))
Mutations(e) ==
    {[kind |-> "trunc", bytes |-> SubSeq(e, 1, n)] : n \in 0 .. Len(e) - 1}
    \cup {[kind |-> "setbyte", bytes |-> [e EXCEPT ![i] = b]] : i \in DOMAIN e, b \in MutBytes}
    \cup {[kind |-> "nonminimal", bytes |-> Splice(e, i, <<253, e[i], 0>>)] : i \in DOMAIN e}
    \cup {[kind |-> "hugecount", bytes |-> Splice(e, i, <<254, 255, 255, 255, 127>>)] : i \in DOMAIN e}
    \cup {[kind |-> "hugecount8", bytes |-> Splice(e, i, <<255, 0, 0, 0, 0, 0, 0, 0, 128>>)] : i \in DOMAIN e}     \* count >= 2^63
    \cup {[kind |-> "hugecount8", bytes |-> Splice(e, i, <<255, 255, 255, 255, 255, 255, 255, 255, 127>>)] : i \in DOMAIN e}
    \cup {[kind |-> "junk", bytes |-> e \o <<7>>]}

\* cells that cell 1 does not reach are irrelevant: only their canonical (empty array) form is kept
Canonical(h) == \A c \in Cells \ ReachFrom(h, 1) : h[c] = [kind |-> "arr", slots |-> <<>>]
Init == heap \in HeapSet /\ Canonical(heap) /\ pc = "built" /\ out = NoOut

Serialize == /\ pc = "built"
             /\ pc' = "ser"
             /\ LET r == SerOutcome(heap, 1, Pick0)
                IN out' = [r |-> r, bytes |-> IF r = "ok" THEN Enc(Unfold(heap, 1)) ELSE <<>>]
             /\ UNCHANGED heap
Native == /\ pc = "built" /\ pc' = "nat"
          /\ out' = [r |-> NativeOutcome(heap, 1, Pick0), bytes |-> <<>>]
          /\ UNCHANGED heap
NotifyOp == /\ pc = "built" /\ pc' = "ntf"
            /\ out' = [r |-> NotifyOutcome(heap, 1), bytes |-> <<>>]
            /\ UNCHANGED heap
Deserialize == /\ pc = "ser" /\ out.r = "ok" /\ pc' = "back"
               /\ UNCHANGED <<heap, out>>
Mutate == /\ WithMutations /\ pc = "ser" /\ out.r = "ok"
          /\ \E m \in Mutations(out.bytes) : out' = [r |-> m.kind, bytes |-> m.bytes]
          /\ pc' = "mut"
          /\ UNCHANGED heap
Next == Serialize \/ Native \/ NotifyOp \/ Deserialize \/ Mutate
Halt == FALSE /\ UNCHANGED vars      \* row export only (initial states)

(* limit rows (sizes at MAX-1, MAX, MAX+1): the row is carried in `out`, the verdict is a function of the row *)
InitLimits == /\ heap = [c \in Cells |-> [kind |-> "arr", slots |-> <<>>]]
              /\ pc = "limit"
              /\ out \in LimitRows
\* whatever is serialized can be built; the specified length of a serialized value is within the limit
LimitSane == pc = "limit" => LET v == LimitVerdict(out) IN (v.ser => v.build) /\ (v.ser => v.len <= MaxItemBytes)

-----------------------------------------------------------------------------
(* Properties (C14 as stated; they hold for the design, CycleCheckFirstOnly = FALSE) *)
DetectorSound == pc = "built" => (Detect(heap, 1, Pick0) <=> (Cyclic(heap, 1) \/ TooDeep(heap, 1)))
AcyclicAccepted == (pc = "ser" /\ WithinLimits(heap, 1)) => out.r = "ok"
CyclicRejected == (pc \in {"ser", "nat"} /\ Cyclic(heap, 1)) => out.r = "err"
Total == pc \in {"ser", "nat", "ntf"} => out.r \in {"ok", "err"}       \* never "diverge", never the slow "errsize"
RoundTrip == pc = "back" => LET d == Decode(out.bytes)
                            IN d.ok /\ d.t = WithKeys(Unfold(heap, 1)) /\ d.pos = Len(out.bytes) + 1
DecoderTotal == pc = "mut" => Decode(out.bytes).ok \in BOOLEAN
OrderFree == pc = "built" => \A p \in Picks : /\ SerOutcome(heap, 1, p) = SerOutcome(heap, 1, Pick0)
                                              /\ NativeOutcome(heap, 1, p) = NativeOutcome(heap, 1, Pick0)
                                              /\ Detect(heap, 1, p) = Detect(heap, 1, Pick0)

-----------------------------------------------------------------------------
(* Row export: one ROW per heap with every specified outcome (as sets over the map-iteration choices),   *)
(* one ROW per mutated byte string with the decoder's specified result.                                   *)
HeapRow == [cells |-> heap,
            cyc |-> Cyclic(heap, 1),
            within |-> WithinLimits(heap, 1),
            ser |-> {SerOutcome(heap, 1, p) : p \in Picks},
            nat |-> {NativeOutcome(heap, 1, p) : p \in Picks},
            det |-> {Detect(heap, 1, p) : p \in Picks},
            ntf |-> NotifyOutcome(heap, 1),
            asis |-> [ser |-> {Walk("ser", heap, 1, {}, p, TRUE) : p \in Picks},
                      nat |-> {Walk("native", heap, 1, {}, p, TRUE) : p \in Picks},
                      det |-> {DetectF(heap, 1, p, TRUE) : p \in Picks}],
            bytes |-> IF Cyclic(heap, 1) THEN <<>> ELSE Enc(Unfold(heap, 1))]
MutRow == LET d == Decode(out.bytes) IN [mut |-> out.r, bytes |-> out.bytes, ok |-> d.ok, tree |-> d.t, used |-> d.pos - 1]
RowOut == /\ (pc = "built") => PrintT(<<"ROW", ToJson(HeapRow)>>)
          /\ (pc = "mut") => PrintT(<<"ROW", ToJson(MutRow)>>)
          /\ (pc = "limit") => PrintT(<<"ROW", ToJson([limit |-> out, verdict |-> LimitVerdict(out)])>>)
=============================================================================
