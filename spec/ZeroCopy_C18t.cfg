SPECIFICATION Spec
CONSTANTS
  Bufs <- BufsThorough
  NArgs <- NArgsMC
  BackArgs <- BackArgsMC
  Items <- ItemsMC
  Acts <- AllActs
  MaxCalls = 3
  MaxWrites = 2
  Spares <- SparesMC
VIEW view
INVARIANTS TypeOK RoundTrip
PROPERTIES Canonical EofOK
CONSTRAINT InitOut
ACTION_CONSTRAINT Edge
CHECK_DEADLOCK FALSE
