SPECIFICATION TSpec
CONSTANTS
  KeySeq <- TKeySeq
  Vals <- TVals
  Acts <- TActs
  MaxOps = 1000000
  DiskInits <- TDisk
  Contracts <- TContracts
  Track = TRUE
INVARIANTS Refines IterOK
CONSTRAINT HW
POSTCONDITION Accepted
CHECK_DEADLOCK FALSE
