------------------------------ MODULE BlockWire ------------------------------
(***************************************************************************)
(* C20 -- block encoding round-trips and binds the transaction list.       *)
(*   core/types/header.go  Header.Serialization / Deserialization / Hash   *)
(*   core/types/block.go   Block.Serialization / Deserialization           *)
(*   common/merkle_tree.go ComputeMerkleRoot                               *)
(* Transactions are decoded with TxWireOps!DecTx (C19).  Hashes are terms: *)
(* the hash of a transaction / header is identified with its hash preimage *)
(* (unsigned bytes); the merkle root of a list of transaction hashes is    *)
(* the term RootTerm, and the 32 root bytes that appear inside encoded     *)
(* headers come from RootTab (computed by the check with an independent    *)
(* sha256 tree of exactly RootTerm's shape).  Public keys are opaque:      *)
(* KeyTab maps every key encoding the harness's probe of                   *)
(* keypair.DeserializePublicKey accepted to its re-serialization.          *)
(* Named deviations (the code as it is):                                   *)
(*   CountAsInt  -- list counts were cast with int(n): a count >= 2^63     *)
(*                  became negative and the loop was skipped.  Repaired by *)
(*                  /repo commit c3ecd0b3 (loops count in uint64), so the  *)
(*                  switch is FALSE = the design = the code;               *)
(*   KeyReencoded -- bookkeeper keys are parsed and re-serialized in       *)
(*                  canonical compressed form, whatever form was read.     *)
(***************************************************************************)
EXTENDS TxWireOps

CONSTANTS Cases,      \* set of [kind, raw, ...] offered by the model-checking configuration
          MaxTxSize,
          KeyTab,     \* function: accepted public-key encoding -> its re-serialization (SerializePublicKey o Deserialize)
          TxTab,      \* sequence of hash preimages (hashterms) of the known transactions
          RootTab     \* function: sequence of indices into TxTab -> 32 root bytes

VARIABLES call, res
vars == <<call, res>>

\* ------------------------------------------------------------------ merkle root as a term (ComputeMerkleRoot, as coded)
\* one level: pair up, an odd last element is paired with itself
RECURSIVE Level(_)
Level(hs) == IF hs = <<>> THEN <<>>
             ELSE IF Len(hs) = 1 THEN <<[l |-> hs[1], r |-> hs[1]]>>
             ELSE <<[l |-> hs[1], r |-> hs[2]]>> \o Level(SubSeq(hs, 3, Len(hs)))
RECURSIVE RootOf(_)
RootOf(ts) == IF Len(ts) = 1 THEN ts[1] ELSE RootOf(Level(ts))
\* leaves are wrapped so that all terms are records (the empty list has the all-zero root)
RootTerm(hs) == IF hs = <<>> THEN [zero |-> TRUE] ELSE RootOf([i \in 1..Len(hs) |-> [leaf |-> hs[i]]])

\* ------------------------------------------------------------------ header
\* the loop bound of a uint64 count.  With the deviation CountAsInt (the code before c3ecd0b3) the bound was int(n):
\* negative, i.e. no iteration, from 2^63 on
CountAsInt == FALSE
LoopCount(d) == IF CountAsInt /\ d[8] >= 128 THEN 0 ELSE CountOf(d)
DecList(b, o) ==
    LET n == RdVarUint(b, o) IN
    IF n.eof THEN Fail("eof", n.off)
    ELSE IF n.irr THEN Fail("irregular", n.off)
    ELSE IF LoopCount(n.val) >= HUGE THEN Fail("eof", Len(b))     \* more elements than any input can hold
    ELSE LET r == ReadFields(b, n.off, [i \in 1..LoopCount(n.val) |-> 0]) IN
         IF ~r.ok THEN r ELSE [ok |-> TRUE, err |-> "", end |-> r.end, vals |-> r.vals, count |-> n.val]
DecHeader(b, o) ==
    LET u == ReadFields(b, o, <<4, 32, 32, 32, 4, 4, 8, 0, 20>>) IN
    IF ~u.ok THEN u
    ELSE LET ks == DecList(b, u.end) IN
         IF ~ks.ok THEN ks
         ELSE IF \E i \in 1..Len(ks.vals) : ks.vals[i] \notin DOMAIN KeyTab THEN Fail("public-key", ks.end)
         ELSE LET ss == DecList(b, ks.end) IN
              IF ~ss.ok THEN ss
              ELSE [ok |-> TRUE, err |-> "", end |-> ss.end,
                    hd |-> [f |-> u.vals, keys |-> ks.vals, sigs |-> ss.vals],
                    hashterm |-> Slice(b, o, u.end)]
EncList(vals) == EncVarUint(LenAs8(Len(vals))) \o Concat([i \in 1..Len(vals) |-> EncVarBytes(vals[i])])
EncHeaderUnsigned(hd) == Concat(SubSeq(hd.f, 1, 7)) \o EncVarBytes(hd.f[8]) \o hd.f[9]
\* Header.Serialization: the parsed keys are re-serialized  [deviation KeyReencoded]
EncHeader(hd) == EncHeaderUnsigned(hd) \o EncList([i \in 1..Len(hd.keys) |-> KeyTab[hd.keys[i]]]) \o EncList(hd.sigs)

\* ------------------------------------------------------------------ block
RECURSIVE DecTxs(_, _, _)
DecTxs(b, o, k) == IF k = 0 THEN [ok |-> TRUE, err |-> "", end |-> o, txs |-> <<>>]
                   ELSE LET t == DecTx(b, o, MaxTxSize) IN
                        IF ~t.ok THEN t
                        ELSE LET rest == DecTxs(b, t.end, k - 1) IN
                             IF ~rest.ok THEN rest
                             ELSE [ok |-> TRUE, err |-> "", end |-> rest.end,
                                   txs |-> <<[hashterm |-> t.hashterm, raw |-> Slice(b, o, t.end)]>> \o rest.txs]
IdxOf(term) == IF \E i \in 1..Len(TxTab) : TxTab[i] = term THEN CHOOSE i \in 1..Len(TxTab) : TxTab[i] = term ELSE 0
DecBlock(b) ==
    LET h == DecHeader(b, 0) IN
    IF ~h.ok THEN h
    ELSE LET c == RdFixed(b, h.end, 4) IN
         IF c.eof THEN Fail("eof", c.off)
         ELSE LET n == IF c.val[3] # 0 \/ c.val[4] # 0 THEN HUGE ELSE c.val[1] + 256 * c.val[2] IN
              IF n >= HUGE THEN Fail("eof", Len(b))
              ELSE LET t == DecTxs(b, c.off, n) IN
                   IF ~t.ok THEN t
                   ELSE LET terms == [i \in 1..Len(t.txs) |-> t.txs[i].hashterm]
                            idx == [i \in 1..Len(terms) |-> IdxOf(terms[i])]
                        IN IF \E i, j \in 1..Len(terms) : i < j /\ terms[i] = terms[j] THEN Fail("duplicate-transaction", t.end)
                           \* an unknown transaction has a hash of its own (sha256 injective): no known root matches
                           ELSE IF \E i \in 1..Len(idx) : idx[i] = 0 THEN Fail("transaction-root", t.end)
                           ELSE IF idx \notin DOMAIN RootTab \/ RootTab[idx] # h.hd.f[3] THEN Fail("transaction-root", t.end)
                           ELSE [ok |-> TRUE, err |-> "", end |-> t.end, hd |-> h.hd, hashterm |-> h.hashterm, idx |-> idx,
                                 rootterm |-> RootTerm(terms),
                                 reenc |-> EncHeader(h.hd) \o c.val \o Concat([i \in 1..Len(t.txs) |-> t.txs[i].raw])]

Outcome(raw) == LET d == DecBlock(raw) IN
                IF ~d.ok THEN [v |-> "reject", err |-> d.err]
                ELSE [v |-> "accept", err |-> "", n |-> d.end, hashterm |-> d.hashterm, idx |-> d.idx, reenc |-> d.reenc,
                      rootterm |-> d.rootterm]
Init == call = [kind |-> "Init"] /\ res = [v |-> ""]
Next == call.kind = "Init" /\ \E c \in Cases : call' = c /\ res' = Outcome(c.raw)
Spec == Init /\ [][Next]_vars

\* ------------------------------------------------------------------ properties
Deviating == (IF CountAsInt THEN {"bookkeeper-count-ge-2^63", "sig-count-ge-2^63"} ELSE {}) \cup {"bookkeeper-key-alternative-encoding"}
\* round trip: an accepted block re-encodes to the consumed bytes (except where the named deviations apply)
RoundTripOK(c, r) == (r.v = "accept" /\ c.kind \notin Deviating) => r.reenc = SubSeq(c.raw, 1, r.n)
DeviationOK(c, r) == (c.kind \in Deviating) => (r.v = "accept" /\ r.reenc # SubSeq(c.raw, 1, r.n))
\* the header hash covers exactly the unsigned header fields
HashOK(c, r) == r.v = "accept" => r.hashterm = SubSeq(c.raw, 1, Len(r.hashterm))
ExpectOK(c, r) == /\ c.expect = "accept" => r.v = "accept"
                  /\ c.expect = "reject" => r.v = "reject"
AllOK == [][RoundTripOK(call', res') /\ DeviationOK(call', res') /\ HashOK(call', res') /\ ExpectOK(call', res')]_vars

\* the merkle root term binds the list: different duplicate-free lists over the known transactions have different roots
Lists(k) == UNION {{s \in [1..n -> 1..Len(TxTab)] : \A i, j \in 1..n : i # j => s[i] # s[j]} : n \in 0..k}
BindsList == \A s1, s2 \in Lists(4) : s1 # s2 => RootTerm([i \in 1..Len(s1) |-> TxTab[s1[i]]]) # RootTerm([i \in 1..Len(s2) |-> TxTab[s2[i]]])
=============================================================================
