SPECIFICATION Spec
CONSTANTS
  AddrNegCountPanic = FALSE
  OfflineSigSkipped = FALSE
  Level = 0
  ExtraBases <- ExtraGen
VIEW view
PROPERTIES NoPanic HeaderChecksOK
INVARIANTS EveryTypeRoundTrips
CHECK_DEADLOCK FALSE
