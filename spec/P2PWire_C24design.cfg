SPECIFICATION Spec
CONSTANTS
  AddrNegCountPanic = FALSE
  Level = 1
VIEW view
PROPERTIES NoPanic HeaderChecksOK
CHECK_DEADLOCK FALSE
