SPECIFICATION TSpec
CONSTANTS
  Addrs <- TAddrs
  Slots <- TSlots
  Vals = {}
  MaxNonce = 1000
  Codes <- TCodes
  MaxBal = 100000
  MaxLogs = 100000
  MaxRefund = 100000
  MaxSnaps = 1000
  MaxOps = 10000000
  Acts <- TActs
  BaseInits <- TBases
INVARIANTS TypeOK
PROPERTIES RevertOK DiscardKeeps
CONSTRAINT HW
POSTCONDITION Accepted
CHECK_DEADLOCK FALSE
