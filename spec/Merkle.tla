------------------------------- MODULE Merkle -------------------------------
(***************************************************************************)
(* The two merkle constructions of ontio/ontology (package merkle).        *)
(*                                                                         *)
(* Part A (C26): the block-root tree.  CompactMerkleTree (merkle_tree.go)  *)
(*   keeps the roots of the perfect subtrees (`hashes`) and appends every  *)
(*   new node to a hash file in post-order (file_hash_store.go);           *)
(*   InclusionProof / ConsistencyProof read the file by position;          *)
(*   MerkleVerifier re-computes roots with bit tricks.                     *)
(* Part B (C27): the cross-chain state root.  MerkleHashes builds a        *)
(*   pairwise tree that promotes an odd last node, MerkleLeafPath emits    *)
(*   value ++ (side byte, sibling)*, MerkleProve folds it.                 *)
(*                                                                         *)
(* Hashes are TERMS: Leaf(x), Node(l, r), EmptyH, Foreign(k) are free      *)
(* constructors (ideal hash: injective, leaf/node domains disjoint).       *)
(* Every "as coded" operator below follows the Go text statement by        *)
(* statement (positions in the hash file, loop structure, order of         *)
(* checks); the RFC 6962 definitions (MTH, PATH, SUBPROOF and recursive    *)
(* reference verifiers) are written independently; TLC checks that both    *)
(* agree and that the property formulas hold.                              *)
(*                                                                         *)
(* Named deviations of the code from the design:                           *)
(*   EqRootShortcut : VerifyConsistency returns nil as soon as             *)
(*       old_root = new_root, before looking at sizes or proof             *)
(*       (design: only for old_size = new_size with an empty proof).       *)
(*       FIXED in the repository (commit aeca5f1a): FALSE in the configs.  *)
(*   EqSizeIgnoresProof : for old_size = new_size and equal roots the      *)
(*       proof is not looked at (as in the certificate-transparency        *)
(*       reference); design: the proof must be empty.                      *)
(*   ZeroOldShortcut: VerifyConsistency returns nil for old_size = 0       *)
(*       whatever the roots and the proof are (design: the old root must   *)
(*       be the empty hash and the proof empty).                           *)
(* Verify*(…) computes the design verdict (switch off); Verify*Coded uses  *)
(* the constants, which the model-checking configs set to TRUE = code as   *)
(* found.                                                                  *)
(***************************************************************************)
EXTENDS Integers, Sequences, FiniteSets, TLC

CONSTANTS MaxN,             \* bound on the block-root tree size
          MaxK,             \* bound on the cross-chain list size
          EqRootShortcut,   \* see above
          EqSizeIgnoresProof, \* see above
          ZeroOldShortcut,  \* see above
          Tear,             \* TRUE: torn appends (crash between file write and tree-size commit) are explored
          MutLevel,         \* 1: small replacement universe, 2: every stored node and every prefix root
          BigInit,          \* SpecBig: set of tree sizes to start from (the tree is assumed built; the harness builds it)
          Pairs             \* SpecBig: sampled <<m, s>> pairs (leaf / old size m, size s) that are queried

(******************************** terms *************************************)
Leaf(x) == <<"L", x>>
Node(l, r) == <<"N", l, r>>
EmptyH == <<"E">>
Foreign(k) == <<"X", k>>      \* a hash that is not a node of the tree
ZeroH == <<"Z">>              \* common.Uint256{} (what a failed GetHash leaves behind)
ERR == <<"ERR">>
FOREIGN == 99
NONE == <<FOREIGN, FOREIGN>>

Reverse(s) == [i \in 1..Len(s) |-> s[Len(s) + 1 - i]]
Front(s) == SubSeq(s, 1, Len(s) - 1)
Last(s) == s[Len(s)]
Max(a, b) == IF a > b THEN a ELSE b
\* TLC evaluates LET definitions and operator arguments by name, again at every reference; Bind
\* evaluates v once and passes the value (keeps the recursions below linear in the tree depth)
Bind(v, F(_)) == CHOOSE r \in {F(x) : x \in {v}} : TRUE

\* largest power of two strictly below n; Go: 1 << (highBit(n-1) - 1), which is 0 for n = 1
RECURSIVE P2Below(_, _)
P2Below(n, p) == IF 2 * p >= n THEN p ELSE P2Below(n, 2 * p)
Split(n) == IF n <= 1 THEN 0 ELSE P2Below(n, 1)
HiPow(n) == Split(n + 1)                       \* largest power of two <= n  (n >= 1)
RECURSIVE PopCount(_)
PopCount(n) == IF n = 0 THEN 0 ELSE (n % 2) + PopCount(n \div 2)

(************************** RFC 6962 definitions ****************************)
\* MTH(D[lo:hi]); leaves are numbered from 0
RECURSIVE MTH(_, _)
MTH(lo, hi) == IF hi = lo THEN EmptyH
               ELSE IF hi = lo + 1 THEN Leaf(lo)
               ELSE Bind(Split(hi - lo), LAMBDA k : Node(MTH(lo, lo + k), MTH(lo + k, hi)))

\* descriptors: <<lo, hi>> stands for MTH(D[lo:hi]), <<FOREIGN, k>> for Foreign(k), <<0, 0>> for the empty hash
T(d) == IF d[1] = FOREIGN THEN Foreign(d[2]) ELSE MTH(d[1], d[2])
TS(ds) == [i \in 1..Len(ds) |-> T(ds[i])]

\* PATH(m, D[lo:hi]) as descriptors, leaf-to-root order (m absolute)
RECURSIVE PathD(_, _, _)
PathD(m, lo, hi) ==
    IF hi - lo <= 1 THEN <<>>
    ELSE Bind(lo + Split(hi - lo), LAMBDA mid :
         IF m < mid THEN Append(PathD(m, lo, mid), <<mid, hi>>)
         ELSE Append(PathD(m, mid, hi), <<lo, mid>>))
\* the left/right decisions of PATH: the only thing a verifier learns from (index, size)
RECURSIVE PathDirs(_, _, _)
PathDirs(m, lo, hi) ==
    IF hi - lo <= 1 THEN <<>>
    ELSE Bind(lo + Split(hi - lo), LAMBDA mid :
         IF m < mid THEN Append(PathDirs(m, lo, mid), "l") ELSE Append(PathDirs(m, mid, hi), "r"))

\* SUBPROOF(m, D[lo:hi], b) as descriptors (old tree = D[0:m], lo < m <= hi)
RECURSIVE ProofD(_, _, _, _)
ProofD(m, lo, hi, b) ==
    IF m = hi THEN (IF b THEN <<>> ELSE << <<lo, hi>> >>)
    ELSE Bind(lo + Split(hi - lo), LAMBDA mid :
         IF m <= mid THEN Append(ProofD(m, lo, mid, b), <<mid, hi>>)
         ELSE Append(ProofD(m, mid, hi, FALSE), <<lo, mid>>))
RECURSIVE ProofDirs(_, _, _, _)
ProofDirs(m, lo, hi, b) ==
    IF m = hi THEN (IF b THEN <<>> ELSE <<"e">>)
    ELSE Bind(lo + Split(hi - lo), LAMBDA mid :
         IF m <= mid THEN Append(ProofDirs(m, lo, mid, b), "l")
         ELSE Append(ProofDirs(m, mid, hi, FALSE), "r"))

\* reference verifiers, by recursion on the RFC definitions
\* (TLC re-evaluates a LET definition at every reference: recursive results are used exactly once,
\* or bound once through a singleton set.  A length error yields a term containing ERR, which
\* equals no hash.)
RECURSIVE RootFromPath(_, _, _, _)
RootFromPath(h, m, n, p) ==          \* m relative index, n size of the subtree
    IF n <= 1 THEN (IF p = <<>> THEN h ELSE ERR)
    ELSE IF p = <<>> THEN ERR
    ELSE Bind(Split(n), LAMBDA k :
         IF m < k THEN Node(RootFromPath(h, m, k, Front(p)), Last(p))
         ELSE Node(Last(p), RootFromPath(h, m - k, n - k, Front(p))))
RefVerifyIncl(h, idx, p, root, size) == idx < size /\ RootFromPath(h, idx, size, p) = root

\* root of the subtree in the old tree (new = FALSE) / in the new tree (new = TRUE), from SUBPROOF
RECURSIVE ConsRec(_, _, _, _, _, _)
ConsRec(new, r1, m, n, b, p) ==
    IF m = n THEN (IF b THEN (IF p = <<>> THEN r1 ELSE ERR)
                   ELSE (IF Len(p) = 1 THEN p[1] ELSE ERR))
    ELSE IF p = <<>> THEN ERR
    ELSE Bind(Split(n), LAMBDA k :
         IF m <= k THEN (IF new THEN Node(ConsRec(new, r1, m, k, b, Front(p)), Last(p))
                         ELSE ConsRec(new, r1, m, k, b, Front(p)))
         ELSE Node(Last(p), ConsRec(new, r1, m - k, n - k, FALSE, Front(p))))
RefVerifyCons(m, n, r1, r2, p) ==
    IF m > n THEN FALSE
    ELSE IF m = 0 THEN r1 = EmptyH /\ p = <<>>
    ELSE ConsRec(FALSE, r1, m, n, TRUE, p) = r1 /\ ConsRec(TRUE, r1, m, n, TRUE, p) = r2

(******************* the compact tree and its hash file, as coded ***********)
\* powers of two of n's binary expansion, descending  (getSubTreeSize / getSubTreePos)
RECURSIVE Pows(_)
Pows(n) == IF n = 0 THEN <<>> ELSE Bind(HiPow(n), LAMBDA p : <<p>> \o Pows(n - p))
RECURSIVE SumTo(_, _)
SumTo(s, i) == IF i = 0 THEN 0 ELSE s[i] + SumTo(s, i - 1)
SubTreeSize(n) == LET ps == Pows(n) IN [i \in 1..Len(ps) |-> 2 * ps[i] - 1]
SubTreePos(n) == LET sz == SubTreeSize(n) IN [i \in 1..Len(sz) |-> SumTo(sz, i)]      \* 1-based positions
StoredNum(n) == LET sz == SubTreeSize(n) IN SumTo(sz, Len(sz))                         \* getStoredHashNum

\* TreeHasher._hash_fold
RECURSIVE FoldR(_, _, _)
FoldR(hs, i, acc) == IF i = 0 THEN acc ELSE FoldR(hs, i - 1, Node(hs[i], acc))
Fold(hs) == FoldR(hs, Len(hs) - 1, hs[Len(hs)])
RootOf(hs) == IF Len(hs) = 0 THEN EmptyH ELSE Fold(hs)          \* CompactMerkleTree.Root

\* the loop of AppendHash: merge while the size has a trailing one bit
RECURSIVE AppendLoop(_, _, _, _)
AppendLoop(hs, s, leaf, stored) ==
    IF s % 2 = 1 THEN LET l2 == Node(hs[Len(hs)], leaf) IN AppendLoop(Front(hs), s \div 2, l2, Append(stored, l2))
    ELSE [hashes |-> Append(hs, leaf), stored |-> stored]
AppendHash(hs, size, leaf) == AppendLoop(hs, size, leaf, <<leaf>>)

\* os.File.Write at the current offset (pos hashes from the start)
WriteAt(f, pos, xs) == [i \in 1..Max(Len(f), pos + Len(xs)) |->
                           IF i > pos /\ i <= pos + Len(xs) THEN xs[i - pos] ELSE f[i]]
\* fileHashStore.GetHash with the 1-based position p (errors are ignored by the callers)
Get(f, p) == IF p >= 1 /\ p <= Len(f) THEN f[p] ELSE ZeroH

\* CompactMerkleTree.InclusionProof(m, n): m zero-based, n size
RECURSIVE InclLoop(_, _, _, _, _)
SubRoot(f, pos, base) == Bind([p \in 1..Len(pos) |-> Get(f, pos[p] + base)], LAMBDA sub : Fold(sub))
InclLoop(f, m, n, offset, acc) ==
    IF n = 1 THEN acc
    ELSE Bind(Split(n), LAMBDA k :
         IF m < k THEN Bind(Append(acc, Bind(SubTreePos(n - k), LAMBDA pos : SubRoot(f, pos, offset + 2 * k - 1))),
                            LAMBDA acc2 : InclLoop(f, m, k, offset, acc2))
         ELSE Bind(offset + 2 * k - 1, LAMBDA off2 : Bind(Append(acc, Get(f, off2)), LAMBDA acc2 : InclLoop(f, m - k, n - k, off2, acc2))))
InclusionProof(f, m, n) == Reverse(InclLoop(f, m, n, 0, <<>>))

\* CompactMerkleTree.subproof(m, n, true)
RECURSIVE SubLoop(_, _, _, _, _, _)
SubLoop(f, m, n, b, offset, acc) ==
    IF m < n THEN
         Bind(Split(n), LAMBDA k :
         IF m <= k THEN Bind(Append(acc, Bind(SubTreePos(n - k), LAMBDA pos : SubRoot(f, pos, offset + 2 * k - 1))),
                             LAMBDA acc2 : SubLoop(f, m, k, b, offset, acc2))
         ELSE Bind(offset + 2 * k - 1, LAMBDA off2 : Bind(Append(acc, Get(f, off2)), LAMBDA acc2 : SubLoop(f, m - k, n - k, FALSE, off2, acc2))))
    ELSE IF ~b THEN LET pos == SubTreePos(n) IN
                    IF Len(pos) # 1 THEN Append(acc, <<"PANIC">>) ELSE Append(acc, Get(f, pos[1] + offset))
    ELSE acc
ConsistencyProof(f, m, n) == Reverse(SubLoop(f, m, n, TRUE, 0, <<>>))

\* MerkleVerifier.calculate_root_hash_from_audit_path
RECURSIVE VInclLoop(_, _, _, _, _)
VInclLoop(calc, node, last, pos, path) ==
    IF last > 0 THEN
         IF pos >= Len(path) THEN ERR                                   \* "Proof too short"
         ELSE IF node % 2 = 1 THEN Bind(Node(path[pos + 1], calc), LAMBDA c2 : VInclLoop(c2, node \div 2, last \div 2, pos + 1, path))
         ELSE IF node < last THEN Bind(Node(calc, path[pos + 1]), LAMBDA c2 : VInclLoop(c2, node \div 2, last \div 2, pos + 1, path))
         ELSE VInclLoop(calc, node \div 2, last \div 2, pos, path)
    ELSE IF pos < Len(path) THEN ERR ELSE calc                          \* "Proof too long"
\* MerkleVerifier.VerifyLeafHashInclusion
VerifyIncl(h, idx, p, root, size) ==
    IF size <= idx THEN FALSE ELSE VInclLoop(h, idx, size - 1, 0, p) = root

\* MerkleVerifier.VerifyConsistency, statement by statement; eq / zero select the deviations
RECURSIVE VConsUp(_, _), VConsA(_, _, _, _, _, _), VConsB(_, _, _, _, _)
VConsUp(node, last) == IF node % 2 = 1 THEN VConsUp(node \div 2, last \div 2) ELSE <<node, last>>
VConsB(old, nw, last, pos, p) ==                  \* "for last_node != 0"
    IF last # 0 THEN (IF pos >= Len(p) THEN ERR ELSE VConsB(old, Node(nw, p[pos + 1]), last \div 2, pos + 1, p))
    ELSE <<old, nw, pos>>
VConsA(old, nw, node, last, pos, p) ==            \* "for node != 0"
    IF node # 0 THEN
         IF node % 2 = 1 THEN
              (IF pos >= Len(p) THEN ERR
               ELSE VConsA(Node(p[pos + 1], old), Node(p[pos + 1], nw), node \div 2, last \div 2, pos + 1, p))
         ELSE IF node < last THEN
              (IF pos >= Len(p) THEN ERR
               ELSE VConsA(old, Node(nw, p[pos + 1]), node \div 2, last \div 2, pos + 1, p))
         ELSE VConsA(old, nw, node \div 2, last \div 2, pos, p)
    ELSE VConsB(old, nw, last, pos, p)
VerifyConsSw(eq, eqsz, zero, m, n, r1, r2, p) ==
    IF m > n THEN FALSE
    ELSE IF eq /\ r1 = r2 THEN TRUE                                   \* deviation EqRootShortcut (fixed)
    ELSE IF m = n THEN r1 = r2 /\ (eqsz \/ p = <<>>)                 \* deviation EqSizeIgnoresProof / design
    ELSE IF m = 0 THEN (IF zero THEN TRUE ELSE r1 = EmptyH /\ p = <<>>)   \* deviation ZeroOldShortcut / design
    ELSE LET up == VConsUp(m - 1, n - 1) node == up[1] last == up[2] IN
         IF Len(p) = 0 THEN FALSE                                     \* "Wrong proof length"
         ELSE \E r \in {IF node # 0 THEN VConsA(p[1], p[1], node, last, 1, p) ELSE VConsA(r1, r1, node, last, 0, p)} :
                 r # ERR /\ r[2] = r2 /\ r[1] = r1 /\ r[3] = Len(p)
VerifyCons(m, n, r1, r2, p) == VerifyConsSw(FALSE, FALSE, FALSE, m, n, r1, r2, p)
VerifyConsCoded(m, n, r1, r2, p) == VerifyConsSw(EqRootShortcut, EqSizeIgnoresProof, ZeroOldShortcut, m, n, r1, r2, p)

(****************************** Part A: state *******************************)
VARIABLES n,        \* tree size known to the tree object (and persisted by the ledger)
          hashes,   \* CompactMerkleTree.hashes
          file,     \* physical content of the hash file (sequence of hashes)
          wpos,     \* write offset of the open file, in hashes
          mem,      \* "live" | "torn" (process died inside an append: only Reload is possible)
          k,        \* Part B: size of the cross-chain list
          act       \* last action with arguments and results (history variable, not in the VIEW)
vars == <<n, hashes, file, wpos, mem, k, act>>
view == <<n, hashes, file, wpos, mem, k>>

InitA == /\ n = 0 /\ hashes = <<>> /\ file = <<>> /\ wpos = 0 /\ mem = "live" /\ k = 0
         /\ act = [name |-> "Init"]

\* AppendHash(leaf n) with hashStore.Append + Flush
DoAppend == /\ mem = "live" /\ n < MaxN
            /\ LET r == AppendHash(hashes, n, Leaf(n)) IN
               /\ hashes' = r.hashes
               /\ file' = WriteAt(file, wpos, r.stored)
               /\ wpos' = wpos + Len(r.stored)
            /\ n' = n + 1
            /\ act' = [name |-> "Append", i |-> n]
            /\ UNCHANGED <<mem, k>>

\* the process dies after j of the hashes of an append (of some other block, Foreign(1)) reached the
\* file and before the new tree size is persisted: the file has a tail the tree does not know
TornAppend(j) == /\ Tear /\ mem = "live" /\ n < MaxN
                 /\ LET r == AppendHash(hashes, n, Foreign(1)) IN
                    /\ j <= Len(r.stored)
                    /\ file' = WriteAt(file, wpos, SubSeq(r.stored, 1, j))
                    /\ wpos' = wpos + j
                 /\ mem' = "torn"
                 /\ act' = [name |-> "TornAppend", j |-> j]
                 /\ UNCHANGED <<n, hashes, k>>

\* close, NewFileHashStore(name, n) (seeks to getStoredHashNum(n)), Marshal/UnMarshal of the tree
Reload == /\ Len(file) >= StoredNum(n)          \* checkConsistence
          /\ wpos' = StoredNum(n)
          /\ mem' = "live"
          /\ act' = [name |-> "Reload"]
          /\ UNCHANGED <<n, hashes, file, k>>

(***************************** names for export *****************************)
RngJoin(a, b) == IF a # NONE /\ b # NONE /\ a[2] = b[1] /\ a[2] - a[1] = Split(b[2] - a[1]) THEN <<a[1], b[2]>> ELSE NONE
RECURSIVE Rng(_)
Rng(t) == IF t[1] = "L" THEN (IF t[2] < FOREIGN THEN <<t[2], t[2] + 1>> ELSE NONE)
          ELSE IF t[1] = "N" THEN CHOOSE r \in {RngJoin(a, b) : a \in {Rng(t[2])}, b \in {Rng(t[3])}} : TRUE
          ELSE NONE
RECURSIVE Nm(_)
NmR(t, r) == IF r # NONE THEN ToString(r[1]) \o "-" \o ToString(r[2])
             ELSE IF t[1] = "N" THEN "(" \o Nm(t[2]) \o "|" \o Nm(t[3]) \o ")"
             ELSE IF t[1] = "L" THEN "v" \o ToString(t[2])
             ELSE "?"
Nm(t) == IF t[1] = "E" THEN "e"
         ELSE IF t[1] = "X" THEN "x" \o ToString(t[2])
         ELSE IF t[1] = "Z" THEN "z"
         ELSE CHOOSE s \in {NmR(t, r) : r \in {Rng(t)}} : TRUE
Nms(ts) == [i \in 1..Len(ts) |-> Nm(ts[i])]
DNm(d) == IF d[1] = FOREIGN THEN "x" \o ToString(d[2])
          ELSE IF d[1] = d[2] THEN "e" ELSE ToString(d[1]) \o "-" \o ToString(d[2])
DNms(ds) == [i \in 1..Len(ds) |-> DNm(ds[i])]

(********************* Part A: queries (self-loop actions) ******************)
Query(a) == /\ mem = "live" /\ act' = a /\ UNCHANGED <<n, hashes, file, wpos, mem, k>>

\* tree.InclusionProof(m, s) for every leaf and every size the tree contains
GenIncl(m, s) == /\ m < s /\ s <= n
                 /\ Query([name |-> "GenIncl", m |-> m, s |-> s, proof |-> Nms(InclusionProof(file, m, s))])
\* tree.ConsistencyProof(m, s), 1 <= m <= s <= n
GenCons(m, s) == /\ 1 <= m /\ m <= s /\ s <= n
                 /\ Query([name |-> "GenCons", m |-> m, s |-> s, proof |-> Nms(ConsistencyProof(file, m, s))])

\* replacement universe for mutated hashes (descriptors)
RECURSIVE Aligned(_, _)
Aligned(lo, hi) == IF hi - lo <= 1 THEN {<<lo, hi>>}
                   ELSE Bind(lo + Split(hi - lo), LAMBDA mid : {<<lo, hi>>} \cup Aligned(lo, mid) \cup Aligned(mid, hi))
Universe(s) == IF MutLevel >= 2
               THEN Aligned(0, s) \cup {<<0, j>> : j \in 0..(s + 1)} \cup {<<FOREIGN, 1>>}
               ELSE {<<0, s>>, <<0, 0>>, <<FOREIGN, 1>>, <<0, 1>>, <<s - 1, s>>}
                    \cup (IF s >= 2 THEN {<<0, s - 1>>, <<0, Split(s)>>, <<Split(s), s>>} ELSE {})

\* single-element mutations of a hash sequence
SeqMuts(p, U) ==
       {[mut |-> "elem", p |-> [p EXCEPT ![i] = u]] : i \in 1..Len(p), u \in U}
  \cup {[mut |-> "drop", p |-> SubSeq(p, 1, i - 1) \o SubSeq(p, i + 1, Len(p))] : i \in 1..Len(p)}
  \cup {[mut |-> "insert", p |-> SubSeq(p, 1, i) \o <<u>> \o SubSeq(p, i + 1, Len(p))] :
            i \in 0..Len(p), u \in {<<FOREIGN, 1>>} \cup {p[j] : j \in 1..Len(p)}}
  \cup {[mut |-> "swap", p |-> [p EXCEPT ![i] = p[i + 1], ![i + 1] = p[i]]] : i \in 1..(Len(p) - 1)}

\* verification cases for leaf m of the tree of size s: the generated proof and every single-element mutation
InclCases(m, s) ==
    LET base == [mut |-> "none", leaf |-> <<m, m + 1>>, idx |-> m, size |-> s, root |-> <<0, s>>, p |-> PathD(m, 0, s)]
        U == Universe(s)
    IN {base}
       \cup {[base EXCEPT !.mut = "leaf", !.leaf = u] : u \in U \ {base.leaf}}
       \cup {[base EXCEPT !.mut = "idx", !.idx = i] : i \in (0..(s + 1)) \ {m}}
       \cup {[base EXCEPT !.mut = "size", !.size = z] : z \in (0..(2 * s + 1)) \ {s}}
       \cup {[base EXCEPT !.mut = "root", !.root = u] : u \in U \ {base.root}}
       \cup {[base EXCEPT !.mut = x.mut, !.p = x.p] : x \in {y \in SeqMuts(base.p, U) : y.p # base.p}}

DoVerifyIncl(c, bm) ==
    LET res == VerifyIncl(T(c.leaf), c.idx, TS(c.p), T(c.root), c.size)
        ref == RefVerifyIncl(T(c.leaf), c.idx, TS(c.p), T(c.root), c.size)
    IN Query([name |-> "VerifyIncl", mut |-> c.mut, leaf |-> DNm(c.leaf), idx |-> c.idx, size |-> c.size,
              root |-> DNm(c.root), proof |-> DNms(c.p), res |-> res, ref |-> ref, base |-> <<bm, n>>])

ConsCases(m, s) ==
    LET base == [mut |-> "none", m |-> m, s |-> s, r1 |-> <<0, m>>, r2 |-> <<0, s>>, p |-> ProofD(m, 0, s, TRUE)]
        U == Universe(s)
    IN {base}
       \cup {[base EXCEPT !.mut = "oldsize", !.m = i] : i \in (0..(s + 1)) \ {m}}
       \cup {[base EXCEPT !.mut = "newsize", !.s = z] : z \in (0..(2 * s + 1)) \ {s}}
       \cup {[base EXCEPT !.mut = "oldroot", !.r1 = u] : u \in U \ {base.r1}}
       \cup {[base EXCEPT !.mut = "newroot", !.r2 = u] : u \in U \ {base.r2}}
       \cup {[base EXCEPT !.mut = x.mut, !.p = x.p] : x \in {y \in SeqMuts(base.p, U) : y.p # base.p}}

DoVerifyCons(c, bm, bs) ==
    LET res == VerifyCons(c.m, c.s, T(c.r1), T(c.r2), TS(c.p))
        resc == VerifyConsCoded(c.m, c.s, T(c.r1), T(c.r2), TS(c.p))
        ref == RefVerifyCons(c.m, c.s, T(c.r1), T(c.r2), TS(c.p))
    IN Query([name |-> "VerifyCons", mut |-> c.mut, m |-> c.m, s |-> c.s, r1 |-> DNm(c.r1), r2 |-> DNm(c.r2),
              proof |-> DNms(c.p), res |-> res, resc |-> resc, ref |-> ref, base |-> <<bm, bs>>])

NextA == \/ DoAppend
         \/ \E j \in 1..5 : TornAppend(j)
         \/ Reload
         \/ \E s \in 1..n, m \in 0..(n - 1) : GenIncl(m, s)
         \/ \E s \in 1..n, m \in 1..n : GenCons(m, s)
         \/ (n >= 1 /\ Len(file) = wpos /\ \E m \in 0..(n - 1) : \E c \in InclCases(m, n) : DoVerifyIncl(c, m))
         \/ (n >= 1 /\ Len(file) = wpos /\ \E m \in 1..n : \E c \in ConsCases(m, n) : DoVerifyCons(c, m, n))
SpecA == InitA /\ [][NextA]_vars

(**************************** Part A: properties ****************************)
\* the perfect-subtree roots the compact tree must hold, and the post-order file, from the RFC side
RECURSIVE HashesD(_, _)
HashesD(lo, hi) == IF hi = lo THEN <<>> ELSE Bind(lo + HiPow(hi - lo), LAMBDA mid : << <<lo, mid>> >> \o HashesD(mid, hi))
RECURSIVE PostOrder(_, _)
PostOrder(lo, hi) == IF hi - lo = 1 THEN <<Leaf(lo)>>
                     ELSE Bind(lo + (hi - lo) \div 2, LAMBDA mid : PostOrder(lo, mid) \o PostOrder(mid, hi) \o <<MTH(lo, hi)>>)
RECURSIVE FileOf(_)
FileOf(ds) == IF ds = <<>> THEN <<>> ELSE PostOrder(ds[1][1], ds[1][2]) \o FileOf(Tail(ds))

\* C26: the incrementally maintained root equals the root of the full tree
RootOK == RootOf(hashes) = MTH(0, n) /\ hashes = TS(HashesD(0, n))
\* the hash file holds the post-order node sequence of the perfect subtrees (plus, possibly, a torn tail)
FileOK == /\ Len(file) >= StoredNum(n)
          /\ SubSeq(file, 1, StoredNum(n)) = FileOf(HashesD(0, n))
          /\ (mem = "live" => wpos = StoredNum(n))
          /\ StoredNum(n) = 2 * n - PopCount(n)
\* C26: generated proofs are the RFC audit paths / consistency proofs, for every leaf/size pair
ProofGenOK == mem = "live" =>
              /\ \A s \in 1..n, m \in 0..(n - 1) : m < s => InclusionProof(file, m, s) = TS(PathD(m, 0, s))
              /\ \A s \in 1..n, m \in 1..n : m <= s => ConsistencyProof(file, m, s) = TS(ProofD(m, 0, s, TRUE))
\* C26: every generated proof verifies (with the coded and with the reference verifier)
CompleteOK == /\ \A s \in 1..n, m \in 0..(n - 1) : m < s =>
                    /\ VerifyIncl(Leaf(m), m, TS(PathD(m, 0, s)), MTH(0, s), s)
                    /\ RefVerifyIncl(Leaf(m), m, TS(PathD(m, 0, s)), MTH(0, s), s)
              /\ \A s \in 1..n, m \in 1..n : m <= s =>
                    /\ VerifyCons(m, s, MTH(0, m), MTH(0, s), TS(ProofD(m, 0, s, TRUE)))
                    /\ VerifyConsCoded(m, s, MTH(0, m), MTH(0, s), TS(ProofD(m, 0, s, TRUE)))
                    /\ RefVerifyCons(m, s, MTH(0, m), MTH(0, s), TS(ProofD(m, 0, s, TRUE)))
\* the pairwise tree of Part B has the RFC root (used by TypeB below too)

\* C26: every single-element alteration is rejected.  A tree SIZE is the only input a verifier cannot
\* bind to the root by itself: an altered size is accepted exactly when it prescribes the same
\* left/right decisions (the (size, root) pair is bound by the block header, outside this package).
InclSoundOK == [][act'.name = "VerifyIncl" =>
                    /\ act'.res = act'.ref
                    /\ (act'.mut = "none" => act'.res)
                    /\ (act'.mut # "none" /\ act'.res =>
                           /\ act'.mut = "size"
                           /\ PathDirs(act'.idx, 0, act'.size) = PathDirs(act'.idx, 0, n))
                    /\ (act'.mut = "size" /\ act'.idx < act'.size /\ PathDirs(act'.idx, 0, act'.size) = PathDirs(act'.idx, 0, n)
                           => act'.res)]_vars
ConsSoundOK == [][act'.name = "VerifyCons" =>
                    /\ act'.res = act'.ref
                    /\ (act'.mut = "none" => act'.res /\ act'.resc)
                    /\ (act'.mut # "none" /\ act'.res =>
                           /\ act'.mut = "newsize"
                           /\ act'.m <= act'.s
                           /\ ProofDirs(act'.m, 0, act'.s, TRUE) = ProofDirs(act'.m, 0, act'.base[2], TRUE))]_vars
\* what the deviations add: whenever the code as found differs from the design, it is more permissive
DeviationOK == [][act'.name = "VerifyCons" /\ act'.res # act'.resc =>
                    act'.resc /\ (act'.r1 = act'.r2 \/ act'.m = 0)]_vars
\* negative control (expected to be violated with the switches on): the code as found is sound
ConsSoundAsCoded == [][act'.name = "VerifyCons" /\ act'.mut \notin {"none", "newsize"} => ~act'.resc]_vars

\* bigger trees (sampling): start from a tree of a size in BigInit, whose state is given by the RFC side
\* (RootOK / FileOK hold by construction there and are re-established by every further Append);
\* only the sampled pairs are queried
InitBig == /\ n \in BigInit /\ k = 0 /\ mem = "live"
           /\ hashes = TS(HashesD(0, n)) /\ file = FileOf(HashesD(0, n)) /\ wpos = StoredNum(n)
           /\ act = [name |-> "Init"]
NextBig == \/ DoAppend
           \/ Reload
           \/ \E pr \in Pairs : pr[1] < pr[2] /\ GenIncl(pr[1], pr[2])
           \/ \E pr \in Pairs : GenCons(pr[1], pr[2])
           \/ \E pr \in Pairs : pr[2] = n /\ pr[1] < n /\ \E c \in InclCases(pr[1], n) : DoVerifyIncl(c, pr[1])
           \/ \E pr \in Pairs : pr[2] = n /\ pr[1] >= 1 /\ \E c \in ConsCases(pr[1], n) : DoVerifyCons(c, pr[1], n)
SpecBig == InitBig /\ [][NextBig]_vars
ProofGenOKS == \A pr \in Pairs : pr[2] <= n =>
                  /\ (pr[1] < pr[2] => InclusionProof(file, pr[1], pr[2]) = TS(PathD(pr[1], 0, pr[2])))
                  /\ (pr[1] >= 1 => ConsistencyProof(file, pr[1], pr[2]) = TS(ProofD(pr[1], 0, pr[2], TRUE)))

StateA == [n |-> n, hashes |-> Nms(hashes), file |-> Nms(file), wpos |-> wpos, mem |-> mem, k |-> k]

(************************ Part B: cross-chain paths *************************)
\* list of state hashes: hs[j] = HashLeaf(value j) = Leaf(j), j = 0..k-1 (distinct values).
\* values: 0..k-1 members, 100 a value not in the list, 1000+c a value whose BYTES are
\* 0x01 ++ l ++ r for a node Node(l, r) of the tree (its HashLeaf is still a Leaf term).
LEFT == 0
RIGHT == 1
NotMember == 100
\* length in bytes of value v (the harness builds values of exactly these lengths): members cycle through
\* lengths whose varbytes prefix takes 1, 3 and 5 bytes (252 | 253, 300, 65535 | 65536)
VLen(v) == IF v >= 1000 THEN 65 ELSE IF v = NotMember THEN 24 ELSE <<24, 252, 253, 300, 65535, 65536>>[(v % 6) + 1]
PrefixLen(len) == IF len < 253 THEN 1 ELSE IF len <= 65535 THEN 3 ELSE 5        \* WriteVarUint

\* merkle.depth: ceil(log2 k)
RECURSIVE DepthR(_, _, _)
DepthR(kk, d, p) == IF p >= kk THEN d ELSE DepthR(kk, d + 1, 2 * p)
Depth(kk) == DepthR(kk, 0, 1)

\* one step of MerkleHashes: pair up, promote an odd last node
NextLevel(level) == LET len == Len(level) half == len \div 2 rem == len % 2 IN
                    [j \in 1..(half + rem) |-> IF j <= half THEN Node(level[2 * j - 1], level[2 * j]) ELSE level[len]]
RECURSIVE LevelsR(_, _)
LevelsR(level, d) == IF d = 0 THEN <<level>> ELSE LevelsR(NextLevel(level), d - 1) \o <<level>>
\* MerkleHashes(hashes, depth): levels[1] = root level ... levels[depth+1] = leaves   (Go index + 1)
Levels(hs) == LevelsR(hs, Depth(Len(hs)))
XLeaves(kk) == [j \in 1..kk |-> Leaf(j - 1)]
\* a second list of the same size that shares the first leaf with XLeaves(kk): values 0, 201, 202, ...
XLeavesB(kk) == [j \in 1..kk |-> Leaf(IF j = 1 THEN 0 ELSE 200 + j - 1)]
XList(lst, kk) == IF lst = "B" THEN XLeavesB(kk) ELSE XLeaves(kk)
XVals(lst, kk) == [j \in 1..kk |-> XList(lst, kk)[j][2]]
XRoot(kk) == Levels(XLeaves(kk))[1][1]

\* MerkleLeafPath(value at index, hashes): sequence of <<side, hash>>; index zero-based
RECURSIVE LeafPathLoop(_, _, _, _)
LeafPathLoop(tree, i, index, acc) ==
    IF i = 0 THEN acc
    ELSE LET sub == tree[i + 1] subLen == Len(sub) nIndex == index \div 2 IN
         IF index = subLen - 1 /\ subLen % 2 # 0 THEN LeafPathLoop(tree, i - 1, nIndex, acc)
         ELSE IF index % 2 # 0 THEN LeafPathLoop(tree, i - 1, nIndex, Append(acc, <<LEFT, sub[index]>>))        \* subTree[index-1]
         ELSE LeafPathLoop(tree, i - 1, nIndex, Append(acc, <<RIGHT, sub[index + 2]>>))                         \* subTree[index+1]
LeafPath(hs, index) == LeafPathLoop(Levels(hs), Depth(Len(hs)), index, <<>>)

\* MerkleProve(path, root): path = [val, venc, elems, trail]
\*   venc: "ok" | "trunc" (value bytes cut short) | "irr" (non-canonical length prefix)
\*   trail: number of junk bytes after the last element
RECURSIVE ProveLoop(_, _, _, _)
ProveLoop(h, elems, i, size) ==
    IF i > size THEN h
    ELSE IF i > Len(elems) THEN ERR            \* NextByte / NextHash hit the end (ERR equals no root)
    ELSE IF elems[i][1] = LEFT THEN ProveLoop(Node(elems[i][2], h), elems, i + 1, size)
    ELSE ProveLoop(Node(h, elems[i][2]), elems, i + 1, size)
Prove(path, root) ==
    IF path.venc # "ok" THEN "err"
    ELSE LET pos == PrefixLen(VLen(path.val)) + VLen(path.val)           \* source.Pos() after NextVarBytes
             total == pos + 33 * Len(path.elems) + path.trail           \* source.Size()
             size == (total - pos) \div 32                              \* (Size - Pos) / UINT256_SIZE
         IN IF ProveLoop(Leaf(path.val), path.elems, 1, size) = root THEN "ok" ELSE "err"

VLens(kk) == [j \in 1..kk |-> VLen(j - 1)]
GrowK == /\ k < MaxK /\ k' = k + 1 /\ act' = [name |-> "Grow", vlens |-> VLens(k + 1)] /\ UNCHANGED <<n, hashes, file, wpos, mem>>
QueryB(a) == act' = a /\ UNCHANGED <<n, hashes, file, wpos, mem, k>>

ENm(e) == <<e[1], Nm(e[2])>>
ENms(es) == [i \in 1..Len(es) |-> ENm(es[i])]

\* MerkleLeafPath / MerkleProve are FUNCTIONS of their arguments: the path for (list, index) does not depend
\* on which lists were asked about before (GenPath is a self-loop without any state; the replay asks for a
\* path of the OTHER list of the same size and first leaf first, re-using and overwriting one slice)
GenPath(lst, j) ==
    /\ j < k
    /\ LET hs == XList(lst, k) IN
       QueryB([name |-> "GenPath", lst |-> lst, idx |-> j, val |-> hs[j + 1][2], elems |-> ENms(LeafPath(hs, j)),
               root |-> Nm(Levels(hs)[1][1]), rfcroot |-> IF lst = "A" THEN Nm(MTH(0, k)) ELSE Nm(Levels(hs)[1][1]),
               vlen |-> VLen(hs[j + 1][2]), vals |-> XVals(lst, k), vlens |-> [i \in 1..k |-> VLen(XVals(lst, k)[i])],
               ovals |-> XVals(IF lst = "A" THEN "B" ELSE "A", k),
               ovlens |-> [i \in 1..k |-> VLen(XVals(IF lst = "A" THEN "B" ELSE "A", k)[i])]])

\* nodes of the tree (terms) whose preimage can be offered as a value
InnerNodes(kk) == {t \in UNION {{Levels(XLeaves(kk))[l][j] : j \in 1..Len(Levels(XLeaves(kk))[l])} : l \in 1..(Depth(kk) + 1)} : t[1] = "N"}
AllNodes(kk) == UNION {{Levels(XLeaves(kk))[l][j] : j \in 1..Len(Levels(XLeaves(kk))[l])} : l \in 1..(Depth(kk) + 1)}
HashU(kk) == AllNodes(kk) \cup {Foreign(1), EmptyH}

ElemMuts(es, U) ==
       {[mut |-> "elem", e |-> [es EXCEPT ![i] = <<es[i][1], u>>]] : i \in 1..Len(es), u \in U}
  \cup {[mut |-> "side", e |-> [es EXCEPT ![i] = <<s, es[i][2]>>]] : i \in 1..Len(es), s \in {0, 1, 2}}
  \cup {[mut |-> "drop", e |-> SubSeq(es, 1, i - 1) \o SubSeq(es, i + 1, Len(es))] : i \in 1..Len(es)}
  \cup {[mut |-> "dup", e |-> SubSeq(es, 1, i) \o <<es[i]>> \o SubSeq(es, i + 1, Len(es))] : i \in 1..Len(es)}
  \cup {[mut |-> "insert", e |-> SubSeq(es, 1, i) \o <<<<s, Foreign(1)>>>> \o SubSeq(es, i + 1, Len(es))] : i \in 0..Len(es), s \in {0, 1}}
  \cup {[mut |-> "swap", e |-> [es EXCEPT ![i] = es[i + 1], ![i + 1] = es[i]]] : i \in 1..(Len(es) - 1)}

\* the classical attack the leaf/node domain separation must defeat: offer the preimage of the
\* node reached after c steps as the value and the rest of the path as the proof
Shortcuts(j, es) == {[mut |-> "nodepreimage", val |-> 1000 + c, e |-> SubSeq(es, c + 1, Len(es)), cut |-> c] : c \in 1..Len(es)}
\* children of the node reached from leaf j after c steps of its path (what the bytes of value 1000+c are made of)
NodeAfter(j, es, c) == ProveLoop(Leaf(j), es, 1, c)

ProveCases(j) ==
    LET es == LeafPath(XLeaves(k), j)
        base == [mut |-> "none", val |-> j, venc |-> "ok", elems |-> es, trail |-> 0, root |-> XRoot(k), cut |-> 0]
        U == HashU(k)
    IN {base}
       \cup {[base EXCEPT !.mut = "value", !.val = v] : v \in ((0..(k - 1)) \cup {NotMember}) \ {j}}
       \cup {[base EXCEPT !.mut = x.mut, !.elems = x.e] : x \in {y \in ElemMuts(es, U) : y.e # es}}
       \cup {[base EXCEPT !.mut = x.mut, !.val = x.val, !.elems = x.e, !.cut = x.cut] : x \in Shortcuts(j, es)}
       \cup {[base EXCEPT !.mut = "root", !.root = u] : u \in U \ {base.root}}
       \cup {[base EXCEPT !.mut = "trail", !.trail = t] : t \in {1, 31, 32}}
       \cup {[base EXCEPT !.mut = "venc", !.venc = e] : e \in {"trunc", "irr"}}

DoProve(c, j) ==
    QueryB([name |-> "Prove", mut |-> c.mut, val |-> c.val, venc |-> c.venc, elems |-> ENms(c.elems), trail |-> c.trail,
            root |-> Nm(c.root), cut |-> c.cut, base |-> j, res |-> Prove(c, c.root), vlen |-> VLen(c.val), vlens |-> VLens(k),
            np |-> IF c.cut = 0 THEN <<>>
                   ELSE <<Nm(NodeAfter(j, LeafPath(XLeaves(k), j), c.cut)[2]), Nm(NodeAfter(j, LeafPath(XLeaves(k), j), c.cut)[3])>>])

InitB == InitA
NextB == \/ GrowK
         \/ \E j \in 0..(k - 1) : \E lst \in {"A", "B"} : GenPath(lst, j)
         \/ \E j \in 0..(k - 1) : \E c \in ProveCases(j) : DoProve(c, j)
SpecB == InitB /\ [][NextB]_vars

\* C27: the pairwise tree has the RFC root (= HashFullTreeWithLeafHash, what executeBlock stores)
XRootOK == k >= 1 => XRoot(k) = MTH(0, k)
\* C27 completeness: the generated path of every member proves it
XCompleteOK == \A j \in 0..(k - 1) :
                  Prove([val |-> j, venc |-> "ok", elems |-> LeafPath(XLeaves(k), j), trail |-> 0], XRoot(k)) = "ok"
\* C27: a generated path depends on (list, index) only
XFunctionOK == [][act'.name = "GenPath" => act'.elems = ENms(LeafPath(XList(act'.lst, k), act'.idx))
                                           /\ Prove([val |-> act'.val, venc |-> "ok", elems |-> LeafPath(XList(act'.lst, k), act'.idx), trail |-> 0],
                                                    Levels(XList(act'.lst, k))[1][1]) = "ok"]_vars
\* C27 soundness: whatever proves against the list's root proves a member of the list
XSoundOK == [][act'.name = "Prove" /\ act'.res = "ok" /\ act'.root = Nm(XRoot(k)) => act'.val \in 0..(k - 1)]_vars
\* a path proves at most the value it was generated for
XExactOK == [][act'.name = "Prove" /\ act'.res = "ok" /\ act'.mut \notin {"none", "root"} =>
                  act'.val = act'.base /\ act'.mut \in {"side", "trail"}]_vars

StateB == StateA
=============================================================================
