SPECIFICATION Spec
CONSTANTS
  Pools <- PoolsC30v
  Confs <- ConfsC30v
  Hashes <- RealHashes
  Vrfs <- NoVrfs
  ListsOf <- SomePerms
  Acts <- ActsC30
VIEW view
INVARIANTS OrderFree ConfigInv WellFormedInv DomainInv
CONSTRAINT InitOut
ACTION_CONSTRAINT Edge
CHECK_DEADLOCK FALSE
