\* generated by props/_handshake.py (table CFGS) -- do not edit by hand
SPECIFICATION Spec
CONSTANTS
  Nodes = {"B", "V"}
  Conns = {"v1"}
  Cl <- ClM
  Sv <- SvM
  Eph <- EphM
  Info <- InfoM
  Pseudo <- PseudoM
  MagicOf <- MagicM
  IpOf <- IpM
  Addr <- AddrM
  Scenarios <- ScVer
  FaultKinds <- FaultsAll
  MaxFaults = 2
  Closes = TRUE
  CheckVersion = TRUE
  MinVer = 1
  LsnCounted = FALSE
CHECK_DEADLOCK FALSE
INVARIANTS TypeOK EntryOK NoSelf OneLive Books Clean Agree FailNoEntry NoIncompat EstQuiet NoOldVer
PROPERTIES AdmitAtEnd
