INIT InitLimits
NEXT Halt
CONSTANTS
  NC = 1
  MaxSlots = 1
  MaxDepth = 10
  NotifyMax = 8
  CycleCheckFirstOnly = FALSE
  HeapMode = "all"
  ChainLens = {1}
  WithMutations = FALSE
INVARIANT LimitSane
CONSTRAINT RowOut
CHECK_DEADLOCK FALSE
