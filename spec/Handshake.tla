------------------------------ MODULE Handshake ------------------------------
(***************************************************************************)
(* P2P connection life cycle of ontio/ontology (system spec X03):          *)
(*   p2pserver/handshake/handshake.go      HandshakeClient/HandshakeServer *)
(*   p2pserver/connect_controller/*.go     Connect / AcceptConnect,        *)
(*                                         savePeer / removePeer           *)
(*   p2pserver/net/netserver/netserver.go  connect, handleClientConnection,*)
(*                                         ReplacePeer                     *)
(*   p2pserver/net/netserver/nbr_peers.go  NbrPeers.ReplacePeer, Conn.Close*)
(*   p2pserver/link/link.go                Rx (read error -> CloseConn)    *)
(*                                                                         *)
(* A connection attempt c is dialled by node Cl[c] (netserver.connect) and *)
(* accepted by node Sv[c] (startNetAccept -> handleClientConnection).  One *)
(* action = the progress of ONE goroutine from one call on the net.Conn /  *)
(* Dialer to the next one (the points where a harness can hold it):        *)
(*                                                                         *)
(*  CBegin  beforeHandshakeCheck(addr,OUT) + tryAddConnecting -> in Dial   *)
(*  CDial   Dial returns the conn, SetDeadline            -> at Write(ver) *)
(*  CSend   Write returns (version | update-kad-id | verack)  -> at Read   *)
(*  CRecv   ReadMessage returns (version | kad id | verack); after verack: *)
(*          afterHandshakeCheck + savePeer + netserver.ReplacePeer (+ close*)
(*          of the replaced link) + start of Link.Rx          = Admit      *)
(*  SAccept beforeHandshakeCheck(remote,IN), SetDeadline      -> at Read   *)
(*  SRecv   ReadMessage returns (version | kad id | verack)   -> at Write  *)
(*  SSend   Write returns; after the verack: Admit as above                *)
(*  RxEOF   Link.Rx's Read fails (remote end closed / link broken):        *)
(*          CloseConn -> netserver.Conn.Close -> connect_controller.Conn.  *)
(*          Close (removePeer) -> raw Close                                *)
(*  PeerClose  peer.Close() on a neighbour (public: GetPeer(id).Close())   *)
(* Faults (each independently enabled, FaultKinds/MaxFaults bound them):   *)
(*  Break (link reset at any point), Timeout (read deadline fires), Junk   *)
(*  (message of a wrong type in flight), BadMagic (wrong network magic in  *)
(*  flight), DialFail.  Static incompatibility: MagicOf, Info[n].ver,      *)
(*  Info[n].soft; duplicated ids: two nodes with one id, a node dialling   *)
(*  itself, a second connection from a connected id (replacement path);    *)
(*  simultaneous open: c1 = A->B and c2 = B->A.                            *)
(*                                                                         *)
(* Named deviations of the code (switches; the values of the code as it is *)
(* are CheckVersion = FALSE, LsnCounted = FALSE):                          *)
(*  CheckVersion  the handshake would refuse a version message whose       *)
(*                protocol version is below MinVer.  As coded there is NO  *)
(*                version (and no service-bit) test at all.                *)
(*  LsnCounted    inboundListenAddress would be reference counted.  As     *)
(*                coded it is a plain set: when a second inbound connection*)
(*                of one peer replaces the first, removePeer(old) deletes  *)
(*                the listen address the new connection has just added.    *)
(***************************************************************************)
EXTENDS Naturals, Sequences, FiniteSets, TLC

CONSTANTS Nodes, Conns,
          Cl, Sv,        \* Conns -> Nodes: dialling / accepting node
          Eph,           \* Conns -> source address of the dialling socket (pairwise distinct)
          Info,          \* Nodes -> [id, ver, soft, svc, port, height]: the PeerInfo the node announces
          Pseudo,        \* id -> pseudo id (PseudoPeerIdFromUint64 of the nonce), used when DHT ids are not exchanged
          MagicOf,       \* Nodes -> network magic
          IpOf, Addr,    \* Nodes -> IP, listen address (IP : Info.port)
          Scenarios,     \* set of [conns: the attempts that may be started, maxf: fault budget]; Init picks one
          FaultKinds, MaxFaults,   \* MaxFaults >= every maxf
          Closes,        \* voluntary peer.Close() enabled
          CheckVersion, MinVer, LsnCounted

VARIABLES cp, sp,        \* Conns -> phase of the dialling / accepting goroutine (the call it is blocked in)
          made,          \* Conns -> the transport connection exists (Dial returned)
          brk,           \* Conns -> the link is broken (reset): every further Read/Write on it fails
          qcs, qsc,      \* Conns -> messages in flight client->server / server->client
          nbr,           \* Nodes -> [id -> entry of NbrPeers.List]   entry = [c: connection (session), from: whose version message]
          inb, outb,     \* Nodes -> connect_controller.inoutbounds[IN] / [OUT]   (remote addresses)
          lsn,           \* Nodes -> inboundListenAddress
          cing,          \* Nodes -> connecting
          cpeers,        \* Nodes -> [id -> connection recorded in connect_controller.peers]
          own,           \* Nodes -> ownListenAddr ("" = not detected)
          steps,         \* ghost: Conns -> [c, s: number of handshake sends/receives completed]; 0 again on failure
          nf,            \* MaxFaults - (faults that may still be injected)
          allowed,       \* the scenario: connection attempts that may be started (never changes)
          act            \* history: last action

vars == <<cp, sp, made, brk, qcs, qsc, nbr, inb, outb, lsn, cing, cpeers, own, steps, nf, allowed, act>>
\* steps is a function of (cp, sp) and act is history: both are outside the VIEW
view == <<cp, sp, made, brk, qcs, qsc, nbr, inb, outb, lsn, cing, cpeers, own, nf, allowed>>

None == "none"
NoEnt == [c |-> None, from |-> None]
Ids == {Info[n].id : n \in Nodes}
AllIds == Ids \cup {Pseudo[i] : i \in Ids}
Dht(n) == Info[n].soft = "dht"                       \* supportDHT(SoftVersion)
UseDht(n, m) == Dht(n) /\ Dht(m)                     \* useDHT: symmetric
RecId(m, n) == IF UseDht(m, n) THEN Info[m].id ELSE Pseudo[Info[m].id]    \* the id under which n records m
Compat(n, m) == MagicOf[n] = MagicOf[m]

Other(e) == IF e = "c" THEN "s" ELSE "c"
NodeAt(c, e) == IF e = "c" THEN Cl[c] ELSE Sv[c]
Remote(c, e) == NodeAt(c, Other(e))
Ph(c, e) == IF e = "c" THEN cp[c] ELSE sp[c]
EndOf(n, c) == IF Cl[c] = n THEN "c" ELSE "s"
\* the raw socket of that end has been closed by its owner
EndClosed(c, e) == IF e = "c" THEN made[c] /\ cp[c] \in {"fail", "closed"} ELSE sp[c] \in {"fail", "closed"}
RIp(c, e) == IpOf[Remote(c, e)]
Listen(c) == Addr[Cl[c]]                             \* ip(remote addr) : version.SyncPort, for an inbound connection
InQ(c, e) == IF e = "c" THEN qsc[c] ELSE qcs[c]
ReadPh == {"rV", "rK", "rA"}
WritePh == {"wV", "wK", "wA"}
Dead == {"idle", "fail", "closed"}
EstIn(n) == {c \in Conns : Sv[c] = n /\ sp[c] = "est"}
EstOut(n) == {c \in Conns : Cl[c] = n /\ cp[c] = "est"}
FullSteps(c) == IF UseDht(Cl[c], Sv[c]) THEN 6 ELSE 4

Msg(t, from, to) == [t |-> t, from |-> from, ok |-> Compat(from, to)]

Init == /\ cp = [c \in Conns |-> "idle"] /\ sp = [c \in Conns |-> "idle"]
        /\ made = [c \in Conns |-> FALSE] /\ brk = [c \in Conns |-> FALSE]
        /\ qcs = [c \in Conns |-> <<>>] /\ qsc = [c \in Conns |-> <<>>]
        /\ nbr = [n \in Nodes |-> [i \in AllIds |-> NoEnt]]
        /\ inb = [n \in Nodes |-> {}] /\ outb = [n \in Nodes |-> {}] /\ lsn = [n \in Nodes |-> {}]
        /\ cing = [n \in Nodes |-> {}]
        /\ cpeers = [n \in Nodes |-> [i \in AllIds |-> None]]
        /\ own = [n \in Nodes |-> ""]
        /\ steps = [c \in Conns |-> [c |-> 0, s |-> 0]]
        /\ \E sc \in Scenarios : allowed = sc.conns /\ nf = MaxFaults - sc.maxf
        /\ act = [name |-> "Init", c |-> "", e |-> "", res |-> ""]

Did(n, c, e, r) == act' = [name |-> n, c |-> c, e |-> e, res |-> r]

\* U: set of <<connection, end, new phase>>
SetPh(U) ==
    /\ cp' = [x \in Conns |-> IF \E u \in U : u[1] = x /\ u[2] = "c"
                              THEN (CHOOSE u \in U : u[1] = x /\ u[2] = "c")[3] ELSE cp[x]]
    /\ sp' = [x \in Conns |-> IF \E u \in U : u[1] = x /\ u[2] = "s"
                              THEN (CHOOSE u \in U : u[1] = x /\ u[2] = "s")[3] ELSE sp[x]]
Step(c, e, k) == steps' = [steps EXCEPT ![c][e] = k]

Book(n, I, O, L, P, N) ==
    /\ inb' = [inb EXCEPT ![n] = I] /\ outb' = [outb EXCEPT ![n] = O] /\ lsn' = [lsn EXCEPT ![n] = L]
    /\ cpeers' = [cpeers EXCEPT ![n] = P] /\ nbr' = [nbr EXCEPT ![n] = N]
KeepBook == UNCHANGED <<inb, outb, lsn, cpeers, nbr>>

\* connect_controller.removePeer for end e of connection c at node n, applied to the given records;
\* alive: inbound connections of n to be counted as established besides EstIn(n) (LsnCounted only)
CCRemove(n, c, e, I, O, L, P, alive) ==
    [inb |-> IF e = "s" THEN I \ {Eph[c]} ELSE I,
     outb |-> IF e = "c" THEN O \ {Addr[Sv[c]]} ELSE O,
     lsn |-> IF e = "s" /\ (~LsnCounted \/ \A o \in (EstIn(n) \cup alive) \ {c} : Listen(o) # Listen(c))
             THEN L \ {Listen(c)} ELSE L,
     peers |-> [i \in AllIds |-> IF P[i] = c THEN None ELSE P[i]]]

(* ---- the three ways a goroutine step ends; each fixes cp, sp, steps, cing, own, the books and act ---- *)
\* the attempt fails; Connect closes the socket (if any) and its deferred removeConnecting runs (clr),
\* handleClientConnection returns the error and startNetAccept closes the socket
Fail(c, e, name, r, clr) ==
    /\ SetPh({<<c, e, "fail">>}) /\ Step(c, e, 0)
    /\ cing' = IF e = "c" /\ clr THEN [cing EXCEPT ![Cl[c]] = @ \ {Addr[Sv[c]]}] ELSE cing
    /\ Did(name, c, e, r) /\ KeepBook /\ UNCHANGED own

Adv(c, e, p, name) ==
    /\ SetPh({<<c, e, p>>}) /\ Step(c, e, IF name \in {"CSend", "CRecv", "SSend", "SRecv"} THEN steps[c][e] + 1 ELSE steps[c][e])
    /\ Did(name, c, e, "ok") /\ KeepBook /\ UNCHANGED <<cing, own>>

\* the handshake returned the remote PeerInfo: afterHandshakeCheck (isHandWithSelf, checkPeerIdAndIP), savePeer,
\* netserver.ReplacePeer incl. Close of the replaced peer
Admit(c, e, name) ==
    LET n == NodeAt(c, e)
        m == Remote(c, e)
        rid == RecId(m, n)
        oldp == cpeers[n][rid]
        clr == IF e = "c" THEN [cing EXCEPT ![n] = @ \ {Addr[Sv[c]]}] ELSE cing
    IN
    IF Info[m].id = Info[n].id
    THEN /\ SetPh({<<c, e, "fail">>}) /\ Step(c, e, 0) /\ own' = [own EXCEPT ![n] = Addr[m]] /\ cing' = clr
         /\ Did(name, c, e, "self") /\ KeepBook
    ELSE IF oldp # None /\ RIp(oldp, EndOf(n, oldp)) # RIp(c, e)
    THEN /\ SetPh({<<c, e, "fail">>}) /\ Step(c, e, 0) /\ cing' = clr /\ Did(name, c, e, "rej-kid") /\ KeepBook /\ UNCHANGED own
    ELSE LET I1 == IF e = "s" THEN inb[n] \cup {Eph[c]} ELSE inb[n]
             O1 == IF e = "c" THEN outb[n] \cup {Addr[Sv[c]]} ELSE outb[n]
             L1 == IF e = "s" THEN lsn[n] \cup {Listen(c)} ELSE lsn[n]
             P1 == [cpeers[n] EXCEPT ![rid] = c]
             olde == nbr[n][rid]
             N1 == [nbr[n] EXCEPT ![rid] = [c |-> c, from |-> m]]
         IN /\ IF olde.c = None
               THEN Book(n, I1, O1, L1, P1, N1) /\ SetPh({<<c, e, "est">>})
               ELSE LET o == olde.c
                        eo == EndOf(n, o)
                        R == CCRemove(n, o, eo, I1, O1, L1, P1, IF e = "s" THEN {c} ELSE {})
                    IN Book(n, R.inb, R.outb, R.lsn, R.peers, N1) /\ SetPh({<<c, e, "est">>, <<o, eo, "closed">>})
            /\ Step(c, e, steps[c][e] + 1)
            /\ cing' = clr /\ UNCHANGED own /\ Did(name, c, e, "ok")

\* the link of end e is closed by its owner: netserver.Conn.Close (entry deleted if the session is still the
\* entry's) + connect_controller.Conn.Close (removePeer) + raw Close
CloseLink(c, e, name) ==
    LET n == NodeAt(c, e)
        rid == RecId(Remote(c, e), n)
        N1 == IF nbr[n][rid].c = c THEN [nbr[n] EXCEPT ![rid] = NoEnt] ELSE nbr[n]
        R == CCRemove(n, c, e, inb[n], outb[n], lsn[n], cpeers[n], {})
    IN /\ Book(n, R.inb, R.outb, R.lsn, R.peers, N1) /\ SetPh({<<c, e, "closed">>})
       /\ Did(name, c, e, "closed") /\ UNCHANGED <<cing, own, steps>>

Wire == <<made, brk, qcs, qsc, nf>>

(******************************* dialling side *******************************)
CBegin(c) ==
    /\ cp[c] = "idle" /\ c \in allowed
    /\ LET a == Cl[c]
           addr == Addr[Sv[c]]
       IN IF addr \in inb[a] \cup outb[a] \cup lsn[a] THEN Fail(c, "c", "CBegin", "rej-addr", FALSE)
          ELSE IF own[a] = addr THEN Fail(c, "c", "CBegin", "rej-self", FALSE)
          ELSE IF addr \in cing[a] THEN Fail(c, "c", "CBegin", "rej-connecting", FALSE)
          ELSE /\ SetPh({<<c, "c", "dial">>}) /\ cing' = [cing EXCEPT ![a] = @ \cup {addr}]
               /\ Did("CBegin", c, "c", "ok") /\ KeepBook /\ UNCHANGED <<own, steps>>
    /\ UNCHANGED Wire

CDial(c) ==
    /\ cp[c] = "dial"
    /\ made' = [made EXCEPT ![c] = TRUE]
    /\ Adv(c, "c", "wV", "CDial")
    /\ UNCHANGED <<brk, qcs, qsc, nf>>

CSend(c) ==
    /\ cp[c] \in WritePh
    /\ LET a == Cl[c]
           b == Sv[c]
       IN IF brk[c] \/ EndClosed(c, "s")
          THEN Fail(c, "c", "CSend", "werr", TRUE) /\ UNCHANGED qcs
          ELSE /\ qcs' = [qcs EXCEPT ![c] = Append(@, Msg(CASE cp[c] = "wV" -> "version" [] cp[c] = "wK" -> "kadid" [] OTHER -> "verack", a, b))]
               /\ Adv(c, "c", CASE cp[c] = "wV" -> "rV" [] cp[c] = "wK" -> "rK" [] OTHER -> "rA", "CSend")
    /\ UNCHANGED <<made, brk, qsc, nf>>

CRecv(c) ==
    /\ cp[c] \in ReadPh
    /\ brk[c] \/ qsc[c] # <<>> \/ EndClosed(c, "s")
    /\ LET a == Cl[c]
           want == CASE cp[c] = "rV" -> "version" [] cp[c] = "rK" -> "kadid" [] OTHER -> "verack"
       IN IF brk[c] THEN Fail(c, "c", "CRecv", "reset", TRUE) /\ UNCHANGED qsc
          ELSE IF qsc[c] = <<>> THEN Fail(c, "c", "CRecv", "eof", TRUE) /\ UNCHANGED qsc
          ELSE LET m == Head(qsc[c])
               IN /\ qsc' = [qsc EXCEPT ![c] = Tail(@)]
                  /\ IF ~m.ok THEN Fail(c, "c", "CRecv", "badmagic", TRUE)
                     ELSE IF m.t # want THEN Fail(c, "c", "CRecv", "badtype", TRUE)
                     ELSE IF want = "version" /\ CheckVersion /\ Info[m.from].ver < MinVer THEN Fail(c, "c", "CRecv", "oldver", TRUE)
                     ELSE IF cp[c] = "rV" THEN Adv(c, "c", IF UseDht(m.from, a) THEN "wK" ELSE "wA", "CRecv")
                     ELSE IF cp[c] = "rK" THEN Adv(c, "c", "wA", "CRecv")
                     ELSE Admit(c, "c", "CRecv")
    /\ UNCHANGED <<made, brk, qcs, nf>>

(******************************* accepting side ******************************)
SAccept(c) ==
    /\ sp[c] = "idle" /\ made[c]
    /\ Adv(c, "s", "rV", "SAccept")
    /\ UNCHANGED Wire

SRecv(c) ==
    /\ sp[c] \in ReadPh
    /\ brk[c] \/ qcs[c] # <<>> \/ EndClosed(c, "c")
    /\ LET want == CASE sp[c] = "rV" -> "version" [] sp[c] = "rK" -> "kadid" [] OTHER -> "verack"
       IN IF brk[c] THEN Fail(c, "s", "SRecv", "reset", FALSE) /\ UNCHANGED qcs
          ELSE IF qcs[c] = <<>> THEN Fail(c, "s", "SRecv", "eof", FALSE) /\ UNCHANGED qcs
          ELSE LET m == Head(qcs[c])
               IN /\ qcs' = [qcs EXCEPT ![c] = Tail(@)]
                  /\ IF ~m.ok THEN Fail(c, "s", "SRecv", "badmagic", FALSE)
                     ELSE IF m.t # want THEN Fail(c, "s", "SRecv", "badtype", FALSE)
                     ELSE IF want = "version" /\ CheckVersion /\ Info[m.from].ver < MinVer THEN Fail(c, "s", "SRecv", "oldver", FALSE)
                     ELSE Adv(c, "s", CASE sp[c] = "rV" -> "wV" [] sp[c] = "rK" -> "wK" [] OTHER -> "wA", "SRecv")
    /\ UNCHANGED <<made, brk, qsc, nf>>

SSend(c) ==
    /\ sp[c] \in WritePh
    /\ LET a == Cl[c]
           b == Sv[c]
       IN IF brk[c] \/ EndClosed(c, "c")
          THEN Fail(c, "s", "SSend", "werr", FALSE) /\ UNCHANGED qsc
          ELSE /\ qsc' = [qsc EXCEPT ![c] = Append(@, Msg(CASE sp[c] = "wV" -> "version" [] sp[c] = "wK" -> "kadid" [] OTHER -> "verack", b, a))]
               /\ IF sp[c] = "wV" THEN Adv(c, "s", IF UseDht(a, b) THEN "rK" ELSE "rA", "SSend")
                  ELSE IF sp[c] = "wK" THEN Adv(c, "s", "rA", "SSend")
                  ELSE Admit(c, "s", "SSend")
    /\ UNCHANGED <<made, brk, qcs, nf>>

(***************************** established links *****************************)
RxEOF(c, e) ==
    /\ Ph(c, e) = "est"
    /\ brk[c] \/ (EndClosed(c, Other(e)) /\ InQ(c, e) = <<>>)
    /\ CloseLink(c, e, "RxEOF")
    /\ UNCHANGED Wire

PeerClose(c, e) ==
    /\ Closes /\ Ph(c, e) = "est"
    /\ nbr[NodeAt(c, e)][RecId(Remote(c, e), NodeAt(c, e))].c = c
    /\ CloseLink(c, e, "PeerClose")
    /\ UNCHANGED Wire

(********************************** faults ***********************************)
CanFault(k) == k \in FaultKinds /\ nf < MaxFaults

DialFail(c) ==
    /\ CanFault("dialfail") /\ cp[c] = "dial"
    /\ Fail(c, "c", "DialFail", "dialfail", TRUE)
    /\ nf' = nf + 1 /\ UNCHANGED <<made, brk, qcs, qsc>>

Timeout(c, e) ==
    /\ CanFault("timeout") /\ Ph(c, e) \in ReadPh
    /\ ~brk[c] /\ InQ(c, e) = <<>> /\ ~EndClosed(c, Other(e))
    /\ Fail(c, e, "Timeout", "timeout", TRUE)
    /\ nf' = nf + 1 /\ UNCHANGED <<made, brk, qcs, qsc>>

Break(c) ==
    /\ CanFault("break") /\ made[c] /\ ~brk[c]
    /\ \E e \in {"c", "s"} : Ph(c, e) \notin {"fail", "closed"} /\ (e = "c" \/ sp[c] # "idle")
    /\ brk' = [brk EXCEPT ![c] = TRUE]
    /\ nf' = nf + 1 /\ Did("Break", c, "", "ok")
    /\ KeepBook /\ UNCHANGED <<cp, sp, steps, cing, own, made, qcs, qsc>>

\* d = "cs" | "sc": the head of that queue is changed in flight
Junk(c, d) ==
    /\ CanFault("junk")
    /\ LET q == IF d = "cs" THEN qcs[c] ELSE qsc[c]
       IN /\ q # <<>> /\ Head(q).t # "junk" /\ Head(q).ok
          /\ IF d = "cs" THEN qcs' = [qcs EXCEPT ![c] = <<[Head(q) EXCEPT !.t = "junk"]>> \o Tail(q)] /\ UNCHANGED qsc
                         ELSE qsc' = [qsc EXCEPT ![c] = <<[Head(q) EXCEPT !.t = "junk"]>> \o Tail(q)] /\ UNCHANGED qcs
    /\ nf' = nf + 1 /\ Did("Junk", c, d, "ok")
    /\ KeepBook /\ UNCHANGED <<cp, sp, steps, cing, own, made, brk>>

BadMagic(c, d) ==
    /\ CanFault("magic")
    /\ LET q == IF d = "cs" THEN qcs[c] ELSE qsc[c]
       IN /\ q # <<>> /\ Head(q).ok /\ Head(q).t # "junk"
          /\ IF d = "cs" THEN qcs' = [qcs EXCEPT ![c] = <<[Head(q) EXCEPT !.ok = FALSE]>> \o Tail(q)] /\ UNCHANGED qsc
                         ELSE qsc' = [qsc EXCEPT ![c] = <<[Head(q) EXCEPT !.ok = FALSE]>> \o Tail(q)] /\ UNCHANGED qcs
    /\ nf' = nf + 1 /\ Did("BadMagic", c, d, "ok")
    /\ KeepBook /\ UNCHANGED <<cp, sp, steps, cing, own, made, brk>>

Prog(c) == CBegin(c) \/ CDial(c) \/ CSend(c) \/ CRecv(c) \/ SAccept(c) \/ SRecv(c) \/ SSend(c)

Next == /\ \E c \in Conns :
             \/ Prog(c)
             \/ \E e \in {"c", "s"} : RxEOF(c, e) \/ PeerClose(c, e) \/ Timeout(c, e)
             \/ DialFail(c) \/ Break(c)
             \/ \E d \in {"cs", "sc"} : Junk(c, d) \/ BadMagic(c, d)
        /\ UNCHANGED allowed

Spec == Init /\ [][Next]_vars
LiveSpec == Spec /\ \A c \in Conns : WF_vars(Prog(c) /\ UNCHANGED allowed)

(******************************** properties *********************************)
Phases == {"idle", "dial", "wV", "rV", "wK", "rK", "wA", "rA", "est", "fail", "closed"}
TypeOK == /\ cp \in [Conns -> Phases] /\ sp \in [Conns -> Phases \ {"dial"}]
          /\ \A n \in Nodes, i \in AllIds : nbr[n][i].c \in Conns \cup {None} /\ cpeers[n][i] \in Conns \cup {None}
          /\ nf \in 0..MaxFaults /\ allowed \subseteq Conns

Entries(n) == {i \in AllIds : nbr[n][i].c # None}

\* (a) a neighbour entry exists only for a link whose handshake this node completed step by step, under the id and
\*     with the PeerInfo (Info[from]) the remote node announced
EntryOK == \A n \in Nodes : \A i \in Entries(n) :
              LET c == nbr[n][i].c
                  e == EndOf(n, c)
              IN /\ NodeAt(c, e) = n /\ Ph(c, e) = "est"
                 /\ steps[c][e] = FullSteps(c)
                 /\ nbr[n][i].from = Remote(c, e) /\ i = RecId(Remote(c, e), n)
\* ... and it is created by the step that ends the handshake (receipt of the verack / sending the verack)
AdmitAtEnd == [][\A n \in Nodes, i \in AllIds :
                   (nbr'[n][i] # nbr[n][i] /\ nbr'[n][i].c # None) =>
                      LET c == nbr'[n][i].c
                          e == EndOf(n, c)
                      IN IF e = "c" THEN cp[c] = "rA" /\ qsc[c] # <<>> /\ Head(qsc[c]).t = "verack" /\ Head(qsc[c]).ok
                                    ELSE sp[c] = "wA"]_vars

\* (b) no node is its own neighbour
NoSelf == \A n \in Nodes : nbr[n][Info[n].id].c = None /\ nbr[n][Pseudo[Info[n].id]].c = None

\* (c) per remote id at most one live link, and it is the entry's; the books are exactly the live links
LiveAt(n, i) == {c \in Conns : \E e \in {"c", "s"} : NodeAt(c, e) = n /\ Ph(c, e) = "est" /\ RecId(Remote(c, e), n) = i}
OneLive == \A n \in Nodes, i \in AllIds :
              /\ Cardinality(LiveAt(n, i)) <= 1
              /\ (nbr[n][i].c = None <=> LiveAt(n, i) = {})
              /\ (nbr[n][i].c # None => nbr[n][i].c \in LiveAt(n, i))
Books == \A n \in Nodes :
            /\ inb[n] = {Eph[c] : c \in EstIn(n)}
            /\ outb[n] = {Addr[Sv[c]] : c \in EstOut(n)}
            /\ \A i \in AllIds : cpeers[n][i] = nbr[n][i].c
            /\ cing[n] = {Addr[Sv[c]] : c \in {d \in Conns : Cl[d] = n /\ cp[d] \in {"dial"} \cup WritePh \cup ReadPh}}
            /\ lsn[n] \subseteq {Listen(c) : c \in EstIn(n)}
LsnBook == \A n \in Nodes : lsn[n] = {Listen(c) : c \in EstIn(n)}      \* needs LsnCounted (named deviation)
Quiet == \A c \in Conns : cp[c] \in Dead /\ sp[c] \in Dead
Clean == Quiet => \A n \in Nodes : /\ inb[n] = {} /\ outb[n] = {} /\ lsn[n] = {} /\ cing[n] = {}
                                   /\ Entries(n) = {} /\ \A i \in AllIds : cpeers[n][i] = None

\* (d) both ends of a completed handshake agree on the roles and on each other's id; a failed side keeps no entry
Agree == \A c \in Conns : (cp[c] = "est" /\ sp[c] = "est") =>
            /\ Addr[Sv[c]] \in outb[Cl[c]] /\ Eph[c] \in inb[Sv[c]]
            /\ nbr[Cl[c]][RecId(Sv[c], Cl[c])] = [c |-> c, from |-> Sv[c]]
            /\ nbr[Sv[c]][RecId(Cl[c], Sv[c])] = [c |-> c, from |-> Cl[c]]
FailNoEntry == \A c \in Conns, e \in {"c", "s"} :
                  Ph(c, e) \in {"fail", "closed"} => \A i \in AllIds : nbr[NodeAt(c, e)][i].c # c

\* (e) peers of another network (and, with CheckVersion, of a too old protocol version) are never admitted
NoIncompat == \A n \in Nodes : \A i \in Entries(n) :
                 /\ Compat(n, nbr[n][i].from)
                 /\ (CheckVersion => Info[nbr[n][i].from].ver >= MinVer)

\* an established end has nothing left to read (the handshake consumed everything)
EstQuiet == \A c \in Conns, e \in {"c", "s"} : Ph(c, e) = "est" => InQ(c, e) = <<>>

\* (f) liveness: the two nodes of every attempt of the scenario end up as each other's neighbours for good
Mutual(a, b) == nbr[a][RecId(b, a)].c # None /\ nbr[b][RecId(a, b)].c # None
Live == \A c \in Conns : (c \in allowed) => <>[]Mutual(Cl[c], Sv[c])
=============================================================================
