SPECIFICATION Spec
CONSTANTS
  Shapes <- ShapesC39t
  MaxBlocks = 2
  Paths <- WireOnly
  Muts <- OnlyValid
  PreKinds <- KindsC42
  DuringKinds <- DuringAll
  Points <- PointsAll
  W = 2
  S = 2
  BitsOf <- RealBits
  BodyChecked = TRUE
  AllowRestart = TRUE
  AllowSync = FALSE
  FreshInits <- BothFresh
VIEW view
INVARIANTS TypeOK Coherent NoMiss IndexAgrees IndexComplete CacheComplete
PROPERTIES RejectedUnchanged PreExecUnchanged
CONSTRAINT InitOut
ACTION_CONSTRAINT Edge
CHECK_DEADLOCK FALSE
