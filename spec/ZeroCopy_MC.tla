---------------------------- MODULE ZeroCopy_MC ----------------------------
EXTENDS ZeroCopy, Json

SeqsUpTo(A, n) == UNION {[1..k -> A] : k \in 0..n}
Cat(H, T) == {h \o t : h \in H, t \in T}

Alpha6 == {0, 1, 252, 253, 254, 255}
Alpha3 == {0, 1, 255}

\* every varuint form with boundary payloads (little endian), followed by short tails: reaches the
\* 5- and 9-byte forms, the non-minimal forms of each, counts larger than the rest and counts >= 2^63
Heads == {<<253>> \o p : p \in [1..2 -> {0, 1, 252, 253, 255}]}
         \cup {<<254>> \o p : p \in [1..4 -> {0, 1, 255}]}
         \cup {<<255>> \o p \o q : p \in [1..4 -> {0, 255}], q \in {<<0, 0, 0, 0>>, <<1, 0, 0, 0>>, <<255, 255, 255, 255>>, <<0, 0, 0, 128>>}}
Tails == {<<>>, <<7>>, <<7, 8>>, <<1, 2, 3>>}
Ramp(n) == [i \in 1..n |-> i]
\* long enough for NextAddress / NextI128 / NextHash (20 / 16 / 32 bytes) with and without a remainder
LongBufs == {Ramp(15), Ramp(16), Ramp(19), Ramp(20), Ramp(21), Ramp(31), Ramp(32), Ramp(40), <<20>> \o Ramp(20), <<253, 253, 0>> \o Ramp(253)}

HeadsQ == {<<253>> \o p : p \in [1..2 -> {0, 252, 253, 255}]}
          \cup {<<254>> \o p : p \in [1..4 -> {0, 255}]} \cup {<<254, 1, 0, 0, 0>>}
          \cup {<<255>> \o p \o q : p \in {<<0, 0, 0, 0>>, <<255, 255, 255, 255>>}, q \in {<<0, 0, 0, 0>>, <<1, 0, 0, 0>>, <<255, 255, 255, 255>>, <<0, 0, 0, 128>>}}
          \cup {<<255, 3, 0, 0, 0, 0, 0, 0, 0>>}
TailsQ == {<<>>, <<1, 2, 3>>}
LongQ == {Ramp(20), Ramp(33), <<20>> \o Ramp(20), <<253, 253, 0>> \o Ramp(253)}
BufsQuick == SeqsUpTo(Alpha6, 2) \cup Cat(HeadsQ, TailsQ) \cup LongQ
BufsThorough == SeqsUpTo(Alpha6, 4) \cup Cat(Heads, Tails) \cup LongBufs
NArgsMC == {0, 1, 2, 3, 20, HUGE}
BackArgsMC == {1, 2, 3}
NArgsQ == {0, 1, 3, HUGE}
BackArgsQ == {1, 3}
NoItems == {}
ReaderActs == NullaryOps \cup CountOps \cup {"BackUp"}

\* writer configuration: boundary values of every item type
U64s == {Pad(p, 8) : p \in {<<0>>, <<1>>, <<252>>, <<253>>, <<255>>, <<0, 1>>, <<255, 255>>, <<0, 0, 1>>, <<255, 255, 255, 255>>,
                            <<0, 0, 0, 0, 1>>, <<255, 255, 255, 255, 255, 255, 255, 127>>, <<0, 0, 0, 0, 0, 0, 0, 128>>,
                            <<255, 255, 255, 255, 255, 255, 255, 255>>}}
Fill(n, x) == [i \in 1..n |-> x]
ByteStrs == {<<>>, <<0>>, <<253>>, <<1, 2, 3>>, Fill(252, 9), Fill(253, 9), Fill(300, 255)}
ItemsMC == {[t |-> "Byte", v |-> <<x>>] : x \in {0, 1, 253, 255}}
           \cup {[t |-> "Bool", v |-> <<x>>] : x \in {0, 1}}
           \cup {[t |-> "Uint16", v |-> p] : p \in {<<0, 0>>, <<253, 0>>, <<255, 255>>, <<0, 128>>}}
           \cup {[t |-> "Int16", v |-> p] : p \in {<<255, 255>>, <<0, 128>>}}
           \cup {[t |-> "Uint32", v |-> p] : p \in {<<0, 0, 0, 0>>, <<255, 255, 255, 255>>, <<1, 2, 3, 4>>}}
           \cup {[t |-> "Int32", v |-> p] : p \in {<<0, 0, 0, 128>>, <<255, 255, 255, 255>>}}
           \cup {[t |-> "Uint64", v |-> p] : p \in {Pad(<<1>>, 8), Fill(8, 255), <<1, 2, 3, 4, 5, 6, 7, 8>>}}
           \cup {[t |-> "Int64", v |-> p] : p \in {<<0, 0, 0, 0, 0, 0, 0, 128>>, Fill(8, 255)}}
           \cup {[t |-> "VarUint", v |-> p] : p \in U64s}
           \cup {[t |-> "VarBytes", v |-> p] : p \in ByteStrs}
           \cup {[t |-> "String", v |-> p] : p \in {<<>>, <<97, 98>>}}
           \cup {[t |-> "Bytes", v |-> p] : p \in {<<>>, <<253, 0, 0>>}}
           \cup {[t |-> "Address", v |-> p] : p \in {Fill(20, 0), Ramp(20)}}
           \cup {[t |-> "I128", v |-> p] : p \in {Fill(16, 255), Ramp(16)}}
           \cup {[t |-> "Hash", v |-> p] : p \in {Fill(32, 253), Ramp(32)}}
\* quick writer configuration: one or two boundary values per type
ItemsQ == {[t |-> "Byte", v |-> <<253>>], [t |-> "Bool", v |-> <<1>>], [t |-> "Bool", v |-> <<0>>], [t |-> "Uint16", v |-> <<253, 0>>],
           [t |-> "Int16", v |-> <<0, 128>>], [t |-> "Uint32", v |-> <<255, 255, 255, 255>>], [t |-> "Int32", v |-> <<0, 0, 0, 128>>],
           [t |-> "Uint64", v |-> <<1, 2, 3, 4, 5, 6, 7, 8>>], [t |-> "Int64", v |-> Fill(8, 255)],
           [t |-> "String", v |-> <<97, 98>>], [t |-> "Bytes", v |-> <<253, 0, 0>>], [t |-> "Address", v |-> Ramp(20)],
           [t |-> "I128", v |-> Ramp(16)], [t |-> "Hash", v |-> Ramp(32)]}
          \cup {[t |-> "VarUint", v |-> Pad(p, 8)] : p \in {<<0>>, <<252>>, <<253>>, <<255, 255>>, <<0, 0, 1>>, <<255, 255, 255, 255>>,
                                                         <<0, 0, 0, 0, 1>>, <<255, 255, 255, 255, 255, 255, 255, 255>>}}
          \cup {[t |-> "VarBytes", v |-> p] : p \in {<<>>, <<253>>, Fill(252, 9), Fill(253, 9)}}
\* quick reader configuration: calls that are aliases of another call (same operator) are offered as first call only
AliasOps == {"NextUint8", "NextInt16", "NextInt32", "NextInt64", "NextString", "ReadString"}
AliasLimit == act'.name \in AliasOps => ncalls = 0
\* sinks are created fresh, or over dirty spare capacity (stale bytes 0xFF / 0x02, enough for every item)
SparesMC == {<<>>, Fill(48, 255), Fill(48, 2)}
NoBufs == {<<>>}
WriterActs == {"Write"}
AllActs == ReaderActs \cup WriterActs
Empty == {}

\* `to' lists only what a step can change (buf never changes); the python side completes it from `from'
Edge == PrintT(<<"EDGE", ToJson([from |-> State, act |-> act', res |-> res',
                                 leg |-> LegacyRes(act'.name, act'.n, buf, off),
                                 to |-> [off |-> off', sink |-> sink', spare |-> spare', items |-> items']])>>)
InitOut == (TLCGet("level") = 1) => PrintT(<<"INIT", ToJson(State)>>)
=============================================================================
