----------------------------- MODULE Governance -----------------------------
(* C10 / C11 — the governance native contract (smartcontract/service/native/governance).          *)
(*                                                                                                *)
(* One action per contract method, guards and effects as coded (governance.go / method.go /       *)
(* utils.go).  A call whose guard is false fails and changes nothing (the transaction cache is     *)
(* dropped), which is the action Fail.  Amounts are the real units (ONT, 10^-9 ONG); the model     *)
(* configuration keeps every intermediate product below 2^31 (MulDiv does the 3-operand            *)
(* multiply/divide exactly without forming the product).                                           *)
(*                                                                                                *)
(* Modelled configuration (what the Go harness sets up with real native calls): a VBFT genesis     *)
(* with K = 7 peers g1..g7 (owned by og unless the configuration gives a genesis peer its own owner), network id 3 (every height switch of           *)
(* common/config is 0, so registerCandidate yields CandidateStatus directly and                    *)
(* approve/reject/unRegister are unreachable), view > NEW_VERSION_VIEW (executeCommitDpos2 /        *)
(* executeSplit2), block time = genesis time (no ONG unbinding: the governance income is the Fee    *)
(* action = gas fees arriving at the governance address), candidate fee 0.                          *)
(* Premise of C11 (DESIGN.md): the governance address holds the genesis peers' InitPos.             *)
(*                                                                                                *)
(* The global parameters the fee split reads are STATE of the model: GlobalParam.A / B /            *)
(* CandidateNum (admin action SetParam = updateGlobalParam) and GlobalParam2.DappFee /              *)
(* CandidateFeeSplitNum (admin action SetParam2 = updateGlobalParam2; no record stored = the        *)
(* defaults of getGlobalParam2: DappFee 0, CandidateFeeSplitNum = the CURRENT CandidateNum).         *)
(* So a settlement is explored for peer pools smaller than, equal to and larger than                *)
(* CandidateFeeSplitNum, for CandidateFeeSplitNum = K, and for parameters changed between epochs.    *)
(*                                                                                                *)
(* Not modelled (growth plan): updateConfig, the remaining GlobalParam fields (constants here),      *)
(* setPromisePos, withdrawOng,                                                                     *)
(* the transferFrom variants, several peers per call, registration by a non-designated address.     *)
EXTENDS Integers, Sequences, FiniteSets, TLC

CONSTANTS
    GenPeers, CandPeers,        \* peer names
    Addrs,                      \* account names
    OwnerOf,                    \* [Peers -> Addrs]
    PkRank,                     \* [Peers -> Nat]: order of the hex public keys (tie-break of the stake sort)
    K,                          \* config.K
    PosLimit, Penalty, A, B, MinInitStake, MinAuth, DappFee, SplitNum,   \* GlobalParam / GlobalParam2 (DappFee: value after set-up)
    HasDapp,                    \* gas address set during set-up
    CandNum,                    \* GlobalParam.CandidateNum after set-up
    P2Stored,                   \* a GlobalParam2 record was stored during set-up (with MinAuth, SplitNum, DappFee)
    GasVals,                    \* argument domain of setGasAddress
    Param2Vals,                 \* argument domain of updateGlobalParam2: pairs <<DappFee, CandidateFeeSplitNum>>
    ParamVals,                  \* argument domain of updateGlobalParam: triples <<A, B, CandidateNum>>
    Dev,                        \* named deviations of the code from the specification (sensitivity runs only; {} = as coded)
    GenesisPos,                 \* [GenPeers -> Nat]
    GenesisMax,                 \* MaxAuthorize set for the genesis peers during set-up
    Fund,                       \* [Addrs -> Nat]: ONT of every account after set-up
    RegPos, AuthPos, UnAuthPos, WdPos, InitDelta, FeeVals, CostVals, MaxVals,   \* argument domains of the actions
    UnAuthEdges,                \* un-authorize also the amounts at the boundaries of the record it addresses (UnAuthBoundary)
    Authorizers, AuthTargets,   \* who authorizes / for which peers (model bound)
    OpTargets,                  \* peers addressed by quit / black / init-pos / cost calls (model bound)
    Acts,                       \* enabled action names
    Script,                     \* sequence of call records executed first (the harness makes the same calls)
    WithInvalid,                \* also generate failing calls
    MaxOps

Peers == GenPeers \cup CandPeers

VARIABLES
    pool,      \* [Peers -> [st, init, total]]   peerPoolMap of the current view (st = -1: not in the map)
    prev,      \* the same for view-1 (what executeSplit2 splits by)
    au,        \* [Peers -> [Addrs -> [c, d, n, wc, wd, wu]]]   AuthorizeInfo (all zero = no record)
    stake,     \* [Addrs -> Nat]   TotalStake.Stake
    pen,       \* [Peers -> Nat]   PenaltyStake.InitPos + AuthorizePos
    ont,       \* [Addrs \cup {"gov"} -> Nat]   ONT balances
    ong,       \* [Addrs \cup {"gov", "dapp"} -> Nat]   ONG balances (only what governance moves)
    fee,       \* [Addrs -> Nat]   SplitFeeAddress.Amount
    splitFee,  \* SPLIT_FEE: credited and not yet withdrawn
    attr,      \* [Peers -> [t, t1, t2, s, s1, s2, max]]   PeerAttributes
    promise,   \* [Peers -> Int]   PromisePos (-1: no record)
    black,     \* blacklist
    dappFee,   \* GlobalParam2.DappFee (updateGlobalParam2)
    splitNum,  \* GlobalParam2.CandidateFeeSplitNum as stored (-1: no GlobalParam2 record)
    pA, pB,    \* GlobalParam.A / GlobalParam.B (updateGlobalParam)
    candNum,   \* GlobalParam.CandidateNum (updateGlobalParam)
    hasDapp,   \* the gas address (setGasAddress) is a non-empty address (the account "dapp")
    nops, act  \* bound and history variable (not part of the VIEW)

vars == <<pool, prev, au, stake, pen, ont, ong, fee, splitFee, attr, promise, black, dappFee, hasDapp, splitNum, pA, pB, candNum, nops, act>>
view == <<pool, prev, au, stake, pen, ont, ong, fee, splitFee, attr, promise, black, dappFee, hasDapp, splitNum, pA, pB, candNum>>
State == [pool |-> pool, prev |-> prev, au |-> au, stake |-> stake, pen |-> pen, ont |-> ont, ong |-> ong, fee |-> fee,
          splitFee |-> splitFee, attr |-> attr, promise |-> promise, black |-> black, dappFee |-> dappFee, hasDapp |-> hasDapp,
          splitNum |-> splitNum, pA |-> pA, pB |-> pB, candNum |-> candNum]

\* status values of governance.go
RegSt == 0  CandSt == 1  ConsSt == 2  QuitConsSt == 3  QuitingSt == 4  BlackSt == 5  NoneSt == -1

NoPeer == [st |-> NoneSt, init |-> 0, total |-> 0]
ZeroBk == [c |-> 0, d |-> 0, n |-> 0, wc |-> 0, wd |-> 0, wu |-> 0]
DefAttr == [t |-> 100, t1 |-> 100, t2 |-> 100, s |-> 0, s1 |-> 0, s2 |-> 0, max |-> 0]   \* getPeerAttributes default
BkSum(b) == b.c + b.d + b.n + b.wc + b.wd + b.wu

RECURSIVE SumF(_, _)
SumF(S, f) == IF S = {} THEN 0 ELSE LET x == CHOOSE y \in S : TRUE IN f[x] + SumF(S \ {x}, f)
SumSet(S, Op(_)) == SumF(S, [x \in S |-> Op(x)])
Min(x, y) == IF x < y THEN x ELSE y

(* floor(a*b/c) and the remainder, without forming a*b (needs 3c < 2^31): doubling on b *)
RECURSIVE MulDivQR(_, _, _)
MulDivQR(a, b, c) ==
    IF b = 0 THEN <<0, 0>>
    ELSE LET h == MulDivQR(a, b \div 2, c)
             q2 == 2 * h[1] + ((2 * h[2]) \div c)
             r2 == (2 * h[2]) % c
         IN IF b % 2 = 0 THEN <<q2, r2>>
            ELSE <<q2 + (a \div c) + ((r2 + (a % c)) \div c), (r2 + (a % c)) % c>>
MulDiv(a, b, c) == MulDivQR(a, b, c)[1]

----------------------------------------------------------------------------
(* utils.go: splitCurve (Yita = 5, PRECISE = 10^6), the tables Xi (governance.go) and Yi (InitConfig) *)
Yi == <<0, 95123, 180968, 258213, 327493, 389401, 444491, 493282, 536257, 573866, 606531, 634645, 658574, 678660, 695220, 708550,
        718927, 726606, 731826, 734808, 735759, 734870, 732317, 728265, 722867, 716262, 708583, 699949, 690472, 680254, 669391,
        657969, 646069, 633765, 621124, 608209, 595076, 581778, 568361, 554869, 541342, 527814, 514317, 500882, 487534, 474297,
        461191, 448236, 435447, 422839, 410425, 398217, 386223, 374452, 362910, 351604, 340537, 329713, 319135, 308805, 298723,
        288890, 279306, 269969, 260879, 252033, 243429, 235066, 226939, 219045, 211382, 203945, 196731, 189736, 182955, 176384,
        170018, 163854, 157887, 152113, 146526, 141122, 135896, 130845, 125963, 121246, 116690, 112290, 108041, 103940, 99981,
        96162, 92477, 88923, 85496, 82192, 79006, 75936, 72977, 70126, 67380>>
\* Xi[i] = i * 100000 (i = 0..100), Xi[i+1] - Xi[i] = 100000
Curve(pos, avg) ==
    LET xi0 == MulDiv(10000000, pos, avg * 10)          \* PRECISE * yita * 2 * pos / (avg * 10)
        i0 == xi0 \div 100000
        clamp == i0 > 99
        index == IF clamp THEN 99 ELSE i0
        xi == IF clamp THEN 10000000 ELSE xi0
        dd == xi - index * 100000
        y0 == Yi[index + 1]
        y1 == Yi[index + 2]
    \* (y1*xi + y0*X1 - y0*xi - y1*X0) / (X1 - X0)  =  y0 + floor((y1 - y0) * dd / 100000)
    IN IF y1 >= y0 THEN y0 + MulDiv(y1 - y0, dd, 100000)
       ELSE LET qr == MulDivQR(y0 - y1, dd, 100000) IN y0 - qr[1] - (IF qr[2] = 0 THEN 0 ELSE 1)

----------------------------------------------------------------------------
Init ==
    /\ pool = [p \in Peers |-> IF p \in GenPeers THEN [st |-> ConsSt, init |-> GenesisPos[p], total |-> 0] ELSE NoPeer]
    /\ prev = pool
    /\ au = [p \in Peers |-> [a \in Addrs |-> ZeroBk]]
    /\ stake = [a \in Addrs |-> SumSet({q \in GenPeers : OwnerOf[q] = a}, LAMBDA p : GenesisPos[p])]
    /\ pen = [p \in Peers |-> 0]
    /\ ont = [a \in Addrs \cup {"gov"} |-> IF a = "gov" THEN SumSet(GenPeers, LAMBDA p : GenesisPos[p]) ELSE Fund[a]]
    /\ ong = [a \in Addrs \cup {"gov", "dapp"} |-> 0]
    /\ fee = [a \in Addrs |-> 0]
    /\ splitFee = 0
    /\ attr = [p \in Peers |-> IF p \in GenPeers THEN [DefAttr EXCEPT !.max = GenesisMax] ELSE DefAttr]
    /\ promise = [p \in Peers |-> -1]
    /\ black = {}
    /\ dappFee = DappFee /\ hasDapp = HasDapp
    /\ splitNum = (IF P2Stored THEN SplitNum ELSE -1)
    /\ pA = A /\ pB = B /\ candNum = CandNum
    /\ nops = 0
    /\ act = [name |-> "Init"]

Active(pl) == {p \in Peers : pl[p].st \in {CandSt, ConsSt}}
\* getGlobalParam2: the stored CandidateFeeSplitNum, or the current CandidateNum when no record is stored
EffSplitNum == IF splitNum < 0 THEN candNum ELSE splitNum

----------------------------------------------------------------------------
(* executeSplit2 + splitNodeFee + executeAddressSplit, evaluated on (prev = pool of view-1, cur = current pool) *)
Before(pl, p, q) == \/ pl[p].total + pl[p].init > pl[q].total + pl[q].init
                    \/ pl[p].total + pl[p].init = pl[q].total + pl[q].init /\ PkRank[p] > PkRank[q]
Idx(pl, S, p) == Cardinality({q \in S : Before(pl, q, p)})

Split(cur, pv, auth, at, balance, sfee) ==
    LET income == balance - sfee
        \* "fee split to dapp address": DappFee percent of the income, 0 when no gas address is set; the nodes split the rest
        dapp == IF hasDapp THEN (income * dappFee) \div 100 ELSE 0
        nodeIncome == income - dapp
        Cands == Active(pv)
        Stk(p) == pv[p].total + pv[p].init
        Top == {p \in Cands : Idx(pv, Cands, p) < K}
        sumTop == SumSet(Top, Stk)
        avg == sumTop \div K
        SF == [p \in Top |-> Curve(Stk(p), avg)]             \* functions: evaluated once per commit
        S(p) == SF[p]
        sumS == SumSet(Top, S)
        \* "fee split of candidate peer": only the peers ranked K .. min(CandidateFeeSplitNum, pool size) - 1 share B percent,
        \* in proportion to their stake among exactly these peers
        len == Min(EffSplitNum, Cardinality(Cands))
        Mid == {p \in Cands : Idx(pv, Cands, p) >= K /\ Idx(pv, Cands, p) < len}
        sum2 == SumSet(Mid, Stk)
        \* deviation (sensitivity run): the denominator is bounded by CandidateFeeSplitNum, the paying loop is not
        MidPaid == IF "PayBeyondSplitNum" \in Dev THEN {p \in Cands : Idx(pv, Cands, p) >= K} ELSE Mid
        Paid == IF sumTop < K THEN {} ELSE Top \cup (IF sum2 > 0 THEN MidPaid ELSE {})
        NodeAmtF == [p \in Paid |-> IF p \in Top THEN MulDiv((nodeIncome * pA) \div 100, S(p), sumS)
                                    ELSE MulDiv((nodeIncome * pB) \div 100, Stk(p), sum2)]
        NodeAmt(p) == NodeAmtF[p]
        \* splitNodeFee
        PeerCost(p) == at[p].t
        StakeCost(p) == IF at[p].s = 0 THEN at[p].t ELSE IF at[p].s = 101 THEN 0 ELSE at[p].s
        DivZero(p) == pv[p].init + pv[p].total = 0
        AmountF == [p \in Paid |->
                      IF DivZero(p) THEN 0
                      ELSE LET stakeFee == MulDiv(NodeAmt(p), pv[p].total, pv[p].init + pv[p].total)
                           IN (stakeFee * (100 - StakeCost(p))) \div 100 + ((NodeAmt(p) - stakeFee) * (100 - PeerCost(p))) \div 100]
        Amount(p) == AmountF[p]
        IsCons(p) == cur[p].st = ConsSt \/ pv[p].st = ConsSt
        VPos(p, a) == IF IsCons(p) THEN auth[p][a].c + auth[p][a].wc ELSE auth[p][a].d + auth[p][a].wd
        Credited(p) == {a \in Addrs : VPos(p, a) > 0 /\ a # OwnerOf[p]}
        AddrAmtF == [p \in Paid |-> [a \in Addrs |-> IF a \in Credited(p) /\ pv[p].total > 0
                                                      THEN MulDiv(VPos(p, a), Amount(p), pv[p].total) ELSE 0]]
        AddrAmt(p, a) == AddrAmtF[p][a]
        RemainF == [p \in Paid |-> NodeAmt(p) - SumSet(Addrs, LAMBDA a : AddrAmt(p, a))]
        Remain(p) == RemainF[p]
    IN [ \* conditions under which the real code panics / fails / wraps
         panics |-> \/ balance < sfee
                    \/ \E p \in Paid : DivZero(p)
                    \/ \E p \in Paid : Credited(p) # {} /\ pv[p].total = 0,
         fails |-> sumTop >= K /\ sumS = 0,
         wraps |-> \E p \in Paid : Remain(p) < 0,
         income |-> income, dapp |-> dapp,
         paid |-> Paid,
         splitSum |-> SumSet(Paid, NodeAmt),
         credit |-> [a \in Addrs |-> SumSet(Paid, LAMBDA p : AddrAmt(p, a) + (IF OwnerOf[p] = a THEN Remain(p) ELSE 0))],
         \* what C10 talks about, per peer
         over |-> \E p \in Paid : SumSet(Addrs, LAMBDA a : VPos(p, a) * (IF a \in Credited(p) THEN 1 ELSE 0)) > pv[p].total ]

----------------------------------------------------------------------------
(* executeCommitDpos2 after the split: attribute shift, quits, status sort, bucket shifts *)
ShiftBk(b, kind) ==   \* the four xToY functions; kind: "cc" "uc" "cu" "uu"
    LET base == [b EXCEPT !.n = 0, !.wu = b.wu + b.wd, !.wd = b.wc, !.wc = 0]
    IN CASE kind = "cc" -> [base EXCEPT !.c = b.c + b.n]
         [] kind = "uc" -> [base EXCEPT !.c = b.c + b.d + b.n, !.d = 0]
         [] kind = "cu" -> [base EXCEPT !.d = b.c + b.n, !.c = 0]
         [] kind = "uu" -> [base EXCEPT !.d = b.n + b.d]
ShiftOK(b, kind) == IF kind \in {"cc", "cu"} THEN b.d = 0 ELSE b.c = 0

PenaltyOf(b) == (Penalty * (b.c + b.d + b.n + b.wc + b.wd) + 99) \div 100

\* the state after a successful executeCommitDpos (all of it), or ok = FALSE
CommitCore(pl, pv, auth, stk, pn, ontB, ongB, fe, sfee, at) ==
    LET sp == Split(pl, pv, auth, at, ongB["gov"], sfee)
        Quitters == {p \in Peers : pl[p].st = QuitingSt}
        Blacks == {p \in Peers : pl[p].st = BlackSt}
        Staying == Active(pl)
        Top == {p \in Staying : Idx(pl, Staying, p) < K}
        Kind(p) == IF p \in Top THEN (IF pl[p].st = ConsSt THEN "cc" ELSE "uc")
                   ELSE (IF pl[p].st = ConsSt THEN "cu" ELSE "uu")
        \* blackQuit: the owner's InitPos and every holder's penalty leave TotalStake
        BlackLoss(a) == SumSet(Blacks, LAMBDA p : (IF OwnerOf[p] = a THEN pl[p].init ELSE 0) + PenaltyOf(auth[p][a]))
        auth2 == [p \in Peers |-> [a \in Addrs |->
                    LET b == auth[p][a] IN
                    IF p \in Quitters
                    THEN [ZeroBk EXCEPT !.wu = BkSum(b) + (IF OwnerOf[p] = a THEN pl[p].init ELSE 0)]
                    ELSE IF p \in Blacks
                    THEN [ZeroBk EXCEPT !.wu = (b.c + b.d + b.n + b.wc + b.wd) - PenaltyOf(b) + b.wu]
                    ELSE IF p \in Staying THEN ShiftBk(b, Kind(p))
                    ELSE b]]
        pool2 == [p \in Peers |->
                    IF p \in Quitters \cup Blacks THEN NoPeer
                    ELSE IF pl[p].st = QuitConsSt THEN [pl[p] EXCEPT !.st = QuitingSt]
                    ELSE IF p \in Staying THEN [pl[p] EXCEPT !.st = IF p \in Top THEN ConsSt ELSE CandSt]
                    ELSE pl[p]]
    IN [ ok |-> /\ ~sp.panics /\ ~sp.fails /\ ~sp.wraps
                /\ Cardinality(Staying) >= K
                /\ \A p \in Staying, a \in Addrs : ShiftOK(auth[p][a], Kind(p))
                /\ \A a \in Addrs : stk[a] >= BlackLoss(a)
                /\ \A p \in Blacks : ontB["gov"] >= pl[p].init,
         anomaly |-> sp.panics \/ sp.wraps,
         over |-> sp.over,
         income |-> sp.income, splitSum |-> sp.splitSum, dapp |-> sp.dapp, credit |-> sp.credit,
         pool |-> pool2, prev |-> pl, au |-> auth2,
         stake |-> [a \in Addrs |-> stk[a] - BlackLoss(a)],
         pen |-> [p \in Peers |-> IF p \in Blacks
                                  THEN pn[p] + pl[p].init + SumSet(Addrs, LAMBDA a : PenaltyOf(auth[p][a]))
                                  ELSE pn[p]],
         ong |-> [ongB EXCEPT !["gov"] = @ - sp.dapp, !["dapp"] = @ + sp.dapp],
         fee |-> [a \in Addrs |-> fe[a] + sp.credit[a]],
         splitFee |-> sfee + sp.splitSum,
         \* every peer in the map shifts its cost attributes
         attr |-> [p \in Peers |-> IF pl[p].st # NoneSt
                                   THEN [at[p] EXCEPT !.t = at[p].t1, !.t1 = at[p].t2, !.s = at[p].s1, !.s1 = at[p].s2]
                                   ELSE at[p]] ]

----------------------------------------------------------------------------
(* Actions.  XxxOK = the success guard as coded; XxxDo = the effect. *)
StepAdm(a) == /\ nops' = nops + 1 /\ act' = a
Step(a) == StepAdm(a) /\ UNCHANGED <<dappFee, hasDapp, splitNum, pA, pB, candNum>>    \* only the admin actions change these

RegisterOK(p, a, x) ==
    /\ x >= 1 /\ a = OwnerOf[p] /\ p \notin black /\ pool[p].st = NoneSt
    /\ Cardinality(Active(pool)) < candNum          \* "num of candidate node is full"
    /\ x >= MinInitStake /\ ont[a] >= x
Register(p, a, x) ==
    /\ RegisterOK(p, a, x)
    /\ pool' = [pool EXCEPT ![p] = [st |-> CandSt, init |-> x, total |-> 0]]
    /\ promise' = [promise EXCEPT ![p] = x]
    /\ ont' = [ont EXCEPT ![a] = @ - x, !["gov"] = @ + x]
    /\ stake' = [stake EXCEPT ![a] = @ + x]
    /\ UNCHANGED <<prev, au, pen, ong, fee, splitFee, attr, black>>

SetMaxOK(p, a, m) == pool[p].st # NoneSt /\ a = OwnerOf[p] /\ m <= PosLimit * pool[p].init
SetMax(p, a, m) ==
    /\ SetMaxOK(p, a, m)
    /\ attr' = [attr EXCEPT ![p].max = m]
    /\ UNCHANGED <<pool, prev, au, stake, pen, ont, ong, fee, splitFee, promise, black>>

AuthorizeOK(a, p, x) ==
    /\ x >= 1 /\ x >= MinAuth /\ x % MinAuth = 0
    /\ pool[p].st \in {CandSt, ConsSt} /\ a # OwnerOf[p]
    /\ pool[p].total + x <= PosLimit * pool[p].init
    /\ pool[p].total + x <= attr[p].max
    /\ ont[a] >= x
Authorize(a, p, x) ==
    /\ AuthorizeOK(a, p, x)
    /\ au' = [au EXCEPT ![p][a].n = @ + x]
    /\ pool' = [pool EXCEPT ![p].total = @ + x]
    /\ ont' = [ont EXCEPT ![a] = @ - x, !["gov"] = @ + x]
    /\ stake' = [stake EXCEPT ![a] = @ + x]
    /\ UNCHANGED <<prev, pen, ong, fee, splitFee, attr, promise, black>>

\* the amount unAuthorizeForPeer really takes
UnAuthAmt(a, p, x) == LET b == au[p][a] IN IF b.c + b.d + b.n < MinAuth THEN b.c + b.d + b.n ELSE x
UnAuthorizeOK(a, p, x) ==
    LET b == au[p][a]
        y == UnAuthAmt(a, p, x)
    IN /\ x >= 1
       /\ (b.c + b.d + b.n >= MinAuth) => (x >= MinAuth /\ x % MinAuth = 0)
       /\ pool[p].st \in {CandSt, ConsSt}
       /\ (b.n < y /\ pool[p].st = ConsSt) => b.c >= y - b.n
       /\ (b.n < y /\ pool[p].st = CandSt) => b.d >= y - b.n
\* the amounts at which unAuthorizeForPeer changes its branch for the record b on a node of status st: below the fresh
\* NewPos, exactly NewPos, between NewPos and NewPos + committed pos (ConsensusPos on a consensus node, CandidatePos on a
\* candidate node; the fresh part is unfrozen at once, the rest is taken from the committed bucket and frozen), exactly
\* the sum, and one step beyond it (refused)
UnAuthBoundary(b, st) ==
    LET com == IF st = ConsSt THEN b.c ELSE b.d
    IN {x \in {b.n - MinAuth, b.n, b.n + MinAuth, b.n + com, b.n + com + MinAuth} : x >= 1}
UnAuthorize(a, p, x) ==
    LET b == au[p][a]
        y == UnAuthAmt(a, p, x)
        nb == IF b.n < y
              THEN IF pool[p].st = ConsSt
                   THEN [b EXCEPT !.c = b.c + b.n - y, !.n = 0, !.wu = b.wu + b.n, !.wc = b.wc + y - b.n]
                   ELSE [b EXCEPT !.d = b.d + b.n - y, !.n = 0, !.wu = b.wu + b.n, !.wd = b.wd + y - b.n]
              ELSE [b EXCEPT !.n = b.n - y, !.wu = b.wu + y]
    IN /\ UnAuthorizeOK(a, p, x)
       /\ au' = [au EXCEPT ![p][a] = nb]
       /\ pool' = [pool EXCEPT ![p].total = @ - y]
       /\ UNCHANGED <<prev, stake, pen, ont, ong, fee, splitFee, attr, promise, black>>

WithdrawOK(a, p, x) == x >= 1 /\ au[p][a].wu >= x /\ ont["gov"] >= x /\ stake[a] >= x
Withdraw(a, p, x) ==
    /\ WithdrawOK(a, p, x)
    /\ au' = [au EXCEPT ![p][a].wu = @ - x]
    /\ ont' = [ont EXCEPT !["gov"] = @ - x, ![a] = @ + x]
    /\ stake' = [stake EXCEPT ![a] = @ - x]
    /\ UNCHANGED <<pool, prev, pen, ong, fee, splitFee, attr, promise, black>>

QuitOK(p, a) == /\ pool[p].st \in {CandSt, ConsSt} /\ a = OwnerOf[p]
                /\ Cardinality(Active(pool)) > K
Quit(p, a) ==
    /\ QuitOK(p, a)
    /\ pool' = [pool EXCEPT ![p].st = IF @ = ConsSt THEN QuitConsSt ELSE QuitingSt]
    /\ UNCHANGED <<prev, au, stake, pen, ont, ong, fee, splitFee, attr, promise, black>>

ApplyCommit(r) ==
    /\ pool' = r.pool /\ prev' = r.prev /\ au' = r.au /\ stake' = r.stake /\ pen' = r.pen
    /\ ong' = r.ong /\ fee' = r.fee /\ splitFee' = r.splitFee /\ attr' = r.attr
    /\ UNCHANGED <<ont, promise>>

CommitRes == CommitCore(pool, prev, au, stake, pen, ont, ong, fee, splitFee, attr)
Commit == \E r \in {CommitRes} : r.ok /\ ApplyCommit(r) /\ UNCHANGED black

\* blackNode: status Black + black list; a consensus peer triggers executeCommitDpos in the same call
BlackPool(p) == [pool EXCEPT ![p].st = BlackSt]
BlackRes(p) == CommitCore(BlackPool(p), prev, au, stake, pen, ont, ong, fee, splitFee, attr)
BlackOK(p) == pool[p].st # NoneSt /\ (pool[p].st = ConsSt => BlackRes(p).ok)
Black(p) ==
    /\ pool[p].st # NoneSt
    /\ black' = black \cup {p}
    /\ IF pool[p].st = ConsSt THEN \E r \in {BlackRes(p)} : r.ok /\ ApplyCommit(r)
       ELSE /\ pool' = BlackPool(p)
            /\ UNCHANGED <<prev, au, stake, pen, ont, ong, fee, splitFee, attr, promise>>

WhiteOK(p) == p \in black
White(p) == /\ WhiteOK(p) /\ black' = black \ {p}
            /\ UNCHANGED <<pool, prev, au, stake, pen, ont, ong, fee, splitFee, attr, promise>>

AddInitOK(p, a, x) == x >= 1 /\ pool[p].st \in {RegSt, CandSt, ConsSt} /\ a = OwnerOf[p] /\ ont[a] >= x
AddInit(p, a, x) ==
    /\ AddInitOK(p, a, x)
    /\ pool' = [pool EXCEPT ![p].init = @ + x]
    /\ ont' = [ont EXCEPT ![a] = @ - x, !["gov"] = @ + x]
    /\ stake' = [stake EXCEPT ![a] = @ + x]
    /\ UNCHANGED <<prev, au, pen, ong, fee, splitFee, attr, promise, black>>

ReduceInitOK(p, a, x) ==
    /\ x >= 1 /\ pool[p].st # NoneSt /\ a = OwnerOf[p] /\ pool[p].init >= x
    /\ pool[p].init - x >= (pool[p].total + PosLimit - 1) \div PosLimit
    /\ promise[p] >= 0 /\ pool[p].init - x >= promise[p]
    /\ pool[p].st \in {RegSt, CandSt, ConsSt}
ReduceInit(p, a, x) ==
    /\ ReduceInitOK(p, a, x)
    /\ pool' = [pool EXCEPT ![p].init = @ - x]
    /\ au' = [au EXCEPT ![p][a] = IF pool[p].st = ConsSt THEN [@ EXCEPT !.wc = @ + x]
                                  ELSE IF pool[p].st = CandSt THEN [@ EXCEPT !.wd = @ + x]
                                  ELSE [@ EXCEPT !.wu = @ + x]]
    /\ UNCHANGED <<prev, stake, pen, ont, ong, fee, splitFee, attr, promise, black>>

SetCostOK(p, a, c) == c[1] <= 100 /\ c[2] <= 100 /\ pool[p].st # NoneSt /\ a = OwnerOf[p]
SetCost(p, a, c) ==
    /\ SetCostOK(p, a, c)
    /\ attr' = [attr EXCEPT ![p].t2 = c[1], ![p].s2 = IF c[2] = 0 THEN 101 ELSE c[2]]
    /\ UNCHANGED <<pool, prev, au, stake, pen, ont, ong, fee, splitFee, promise, black>>

Fee(x) == /\ ong' = [ong EXCEPT !["gov"] = @ + x]
          /\ UNCHANGED <<pool, prev, au, stake, pen, ont, fee, splitFee, attr, promise, black>>

WithdrawFeeOK(a) == ong["gov"] >= fee[a] /\ splitFee >= fee[a]
WithdrawFee(a) ==
    /\ WithdrawFeeOK(a)
    /\ ong' = [ong EXCEPT !["gov"] = @ - fee[a], ![a] = @ + fee[a]]
    /\ splitFee' = splitFee - fee[a]
    /\ fee' = [fee EXCEPT ![a] = 0]
    /\ UNCHANGED <<pool, prev, au, stake, pen, ont, attr, promise, black>>

TransferPenaltyOK(p, a) == ont["gov"] >= pen[p]
TransferPenalty(p, a) ==
    /\ TransferPenaltyOK(p, a)
    /\ ont' = [ont EXCEPT !["gov"] = @ - pen[p], ![a] = @ + pen[p]]
    /\ pen' = [pen EXCEPT ![p] = 0]
    /\ UNCHANGED <<pool, prev, au, stake, ong, fee, splitFee, attr, promise, black>>

\* setGasAddress (admin): x = 1 the account "dapp", x = 0 the empty address
SetGas(x) == /\ hasDapp' = (x = 1) /\ UNCHANGED <<dappFee, splitNum, pA, pB, candNum>>
             /\ UNCHANGED <<pool, prev, au, stake, pen, ont, ong, fee, splitFee, attr, promise, black>>
\* updateGlobalParam2 (admin) with the configuration's MinAuthorizePos, DappFee = x (the code has no upper bound) and
\* CandidateFeeSplitNum = n: the only check is n >= K -- n may be smaller than the current peer pool, and n = K is allowed
SetParam2OK(x, n) == n >= K
SetParam2(x, n) == /\ SetParam2OK(x, n) /\ dappFee' = x /\ splitNum' = n /\ UNCHANGED <<hasDapp, pA, pB, candNum>>
                   /\ UNCHANGED <<pool, prev, au, stake, pen, ont, ong, fee, splitFee, attr, promise, black>>
\* updateGlobalParam (admin) with the configuration's CandidateFee 0 / MinInitStake / PosLimit / Yita 5 / Penalty and
\* A = a, B = b, CandidateNum = cn.  CandidateNum is not compared with the stored CandidateFeeSplitNum nor with the pool.
SetParamOK(a, b, cn) == a + b = 100 /\ cn >= 4 * K /\ Penalty <= 100 /\ PosLimit >= 1 /\ MinInitStake >= 1
SetParam(a, b, cn) == /\ SetParamOK(a, b, cn) /\ pA' = a /\ pB' = b /\ candNum' = cn /\ UNCHANGED <<hasDapp, dappFee, splitNum>>
                      /\ UNCHANGED <<pool, prev, au, stake, pen, ont, ong, fee, splitFee, attr, promise, black>>

\* a call whose guard is false: the transaction fails, nothing changes
Failing(a) == /\ (WithInvalid \/ nops < Len(Script)) /\ Step([a EXCEPT !.ok = FALSE])
              /\ UNCHANGED <<pool, prev, au, stake, pen, ont, ong, fee, splitFee, attr, promise, black>>

On(n) == n \in Acts
Owners == {OwnerOf[p] : p \in Peers}
Next ==
    /\ nops < Len(Script) + MaxOps
    /\ \/ \E p \in CandPeers, x \in RegPos : On("Register") /\
            LET a == [name |-> "Register", p |-> p, a |-> OwnerOf[p], x |-> x, ok |-> TRUE]
            IN IF RegisterOK(p, OwnerOf[p], x) THEN Register(p, OwnerOf[p], x) /\ Step(a) ELSE Failing(a)
       \/ \E p \in CandPeers, m \in MaxVals : On("SetMax") /\
            LET a == [name |-> "SetMax", p |-> p, a |-> OwnerOf[p], x |-> m, ok |-> TRUE]
            IN IF SetMaxOK(p, OwnerOf[p], m) THEN SetMax(p, OwnerOf[p], m) /\ Step(a) ELSE Failing(a)
       \/ \E ad \in Authorizers, p \in AuthTargets, x \in AuthPos : On("Authorize") /\
            LET a == [name |-> "Authorize", a |-> ad, p |-> p, x |-> x, ok |-> TRUE]
            IN IF AuthorizeOK(ad, p, x) THEN Authorize(ad, p, x) /\ Step(a) ELSE Failing(a)
       \/ \E ad \in Authorizers, p \in AuthTargets :
          \E x \in UnAuthPos \cup (IF UnAuthEdges THEN UnAuthBoundary(au[p][ad], pool[p].st) ELSE {}) : On("UnAuthorize") /\ BkSum(au[p][ad]) > 0 /\
            LET a == [name |-> "UnAuthorize", a |-> ad, p |-> p, x |-> x, ok |-> TRUE]
            IN IF UnAuthorizeOK(ad, p, x) THEN UnAuthorize(ad, p, x) /\ Step(a) ELSE Failing(a)
       \/ \E ad \in Addrs, p \in Peers, x \in WdPos : On("Withdraw") /\ BkSum(au[p][ad]) > 0 /\
            LET a == [name |-> "Withdraw", a |-> ad, p |-> p, x |-> x, ok |-> TRUE]
            IN IF WithdrawOK(ad, p, x) THEN Withdraw(ad, p, x) /\ Step(a) ELSE Failing(a)
       \/ \E p \in OpTargets : On("Quit") /\ pool[p].st # NoneSt /\
            LET a == [name |-> "Quit", p |-> p, a |-> OwnerOf[p], ok |-> TRUE]
            IN IF QuitOK(p, OwnerOf[p]) THEN Quit(p, OwnerOf[p]) /\ Step(a) ELSE Failing(a)
       \/ \E p \in OpTargets : On("Black") /\
            LET a == [name |-> "Black", p |-> p, ok |-> TRUE]
            IN \/ Black(p) /\ Step(a)
               \/ ~BlackOK(p) /\ Failing(a)
       \/ \E p \in Peers : On("White") /\ p \in black /\ White(p) /\ Step([name |-> "White", p |-> p, ok |-> TRUE])
       \/ On("Commit") /\
            LET a == [name |-> "Commit", ok |-> TRUE]
            IN \/ Commit /\ Step(a)
               \/ ~CommitRes.ok /\ Failing(a)
       \/ \E p \in OpTargets, x \in InitDelta : On("AddInit") /\ pool[p].st # NoneSt /\
            LET a == [name |-> "AddInit", p |-> p, a |-> OwnerOf[p], x |-> x, ok |-> TRUE]
            IN IF AddInitOK(p, OwnerOf[p], x) THEN AddInit(p, OwnerOf[p], x) /\ Step(a) ELSE Failing(a)
       \/ \E p \in OpTargets, x \in InitDelta : On("ReduceInit") /\ pool[p].st # NoneSt /\
            LET a == [name |-> "ReduceInit", p |-> p, a |-> OwnerOf[p], x |-> x, ok |-> TRUE]
            IN IF ReduceInitOK(p, OwnerOf[p], x) THEN ReduceInit(p, OwnerOf[p], x) /\ Step(a) ELSE Failing(a)
       \/ \E p \in OpTargets, c \in CostVals : On("SetCost") /\ pool[p].st # NoneSt /\
            SetCost(p, OwnerOf[p], c) /\ Step([name |-> "SetCost", p |-> p, a |-> OwnerOf[p], x |-> c[1], y |-> c[2], ok |-> TRUE])
       \/ \E x \in FeeVals : On("Fee") /\ Fee(x) /\ Step([name |-> "Fee", x |-> x, ok |-> TRUE])
       \/ \E ad \in Addrs : On("WithdrawFee") /\ fee[ad] > 0 /\
            LET a == [name |-> "WithdrawFee", a |-> ad, ok |-> TRUE]
            IN IF WithdrawFeeOK(ad) THEN WithdrawFee(ad) /\ Step(a) ELSE Failing(a)
       \/ \E x \in GasVals : On("SetGas") /\ SetGas(x) /\ StepAdm([name |-> "SetGas", x |-> x, ok |-> TRUE])
       \/ \E v \in Param2Vals : On("SetParam2") /\
            LET a == [name |-> "SetParam2", x |-> v[1], y |-> v[2], ok |-> TRUE]
            IN IF SetParam2OK(v[1], v[2]) THEN SetParam2(v[1], v[2]) /\ StepAdm(a) ELSE Failing(a)
       \/ \E v \in ParamVals : On("SetParam") /\
            LET a == [name |-> "SetParam", x |-> v[1], y |-> v[2], z |-> v[3], ok |-> TRUE]
            IN IF SetParamOK(v[1], v[2], v[3]) THEN SetParam(v[1], v[2], v[3]) /\ StepAdm(a) ELSE Failing(a)
       \/ \E p \in Peers, ad \in Authorizers : On("TransferPenalty") /\ pen[p] > 0 /\
            LET a == [name |-> "TransferPenalty", p |-> p, a |-> ad, ok |-> TRUE]
            IN IF TransferPenaltyOK(p, ad) THEN TransferPenalty(p, ad) /\ Step(a) ELSE Failing(a)

\* one call given as a record (scripted prefixes and trace validation): succeeds as the action, or fails
Do(a) ==
    CASE a.name = "Register" -> IF RegisterOK(a.p, a.a, a.x) THEN Register(a.p, a.a, a.x) /\ Step(a) ELSE Failing(a)
      [] a.name = "SetMax" -> IF SetMaxOK(a.p, a.a, a.x) THEN SetMax(a.p, a.a, a.x) /\ Step(a) ELSE Failing(a)
      [] a.name = "Authorize" -> IF AuthorizeOK(a.a, a.p, a.x) THEN Authorize(a.a, a.p, a.x) /\ Step(a) ELSE Failing(a)
      [] a.name = "UnAuthorize" -> IF UnAuthorizeOK(a.a, a.p, a.x) THEN UnAuthorize(a.a, a.p, a.x) /\ Step(a) ELSE Failing(a)
      [] a.name = "Withdraw" -> IF WithdrawOK(a.a, a.p, a.x) THEN Withdraw(a.a, a.p, a.x) /\ Step(a) ELSE Failing(a)
      [] a.name = "Quit" -> IF QuitOK(a.p, a.a) THEN Quit(a.p, a.a) /\ Step(a) ELSE Failing(a)
      [] a.name = "Black" -> (Black(a.p) /\ Step(a)) \/ (~BlackOK(a.p) /\ Failing(a))
      [] a.name = "White" -> IF WhiteOK(a.p) THEN White(a.p) /\ Step(a) ELSE Failing(a)
      [] a.name = "Commit" -> (Commit /\ Step(a)) \/ (~CommitRes.ok /\ Failing(a))
      [] a.name = "AddInit" -> IF AddInitOK(a.p, a.a, a.x) THEN AddInit(a.p, a.a, a.x) /\ Step(a) ELSE Failing(a)
      [] a.name = "ReduceInit" -> IF ReduceInitOK(a.p, a.a, a.x) THEN ReduceInit(a.p, a.a, a.x) /\ Step(a) ELSE Failing(a)
      [] a.name = "SetCost" -> IF SetCostOK(a.p, a.a, <<a.x, a.y>>) THEN SetCost(a.p, a.a, <<a.x, a.y>>) /\ Step(a) ELSE Failing(a)
      [] a.name = "Fee" -> Fee(a.x) /\ Step(a)
      [] a.name = "WithdrawFee" -> IF WithdrawFeeOK(a.a) THEN WithdrawFee(a.a) /\ Step(a) ELSE Failing(a)
      [] a.name = "SetGas" -> SetGas(a.x) /\ StepAdm(a)
      [] a.name = "SetParam2" -> IF SetParam2OK(a.x, a.y) THEN SetParam2(a.x, a.y) /\ StepAdm(a) ELSE Failing(a)
      [] a.name = "SetParam" -> IF SetParamOK(a.x, a.y, a.z) THEN SetParam(a.x, a.y, a.z) /\ StepAdm(a) ELSE Failing(a)
      [] a.name = "TransferPenalty" -> IF TransferPenaltyOK(a.p, a.a) THEN TransferPenalty(a.p, a.a) /\ Step(a) ELSE Failing(a)

\* a scripted prefix (the same calls the harness makes first), then free exploration
ScriptNext == IF nops < Len(Script) THEN Do(Script[nops + 1]) ELSE Next
Spec == Init /\ [][ScriptNext]_vars

----------------------------------------------------------------------------
(* Properties *)
NatRec(b) == b.c >= 0 /\ b.d >= 0 /\ b.n >= 0 /\ b.wc >= 0 /\ b.wd >= 0 /\ b.wu >= 0
TypeOK == /\ \A p \in Peers : pool[p].st \in -1..5 /\ pool[p].init >= 0 /\ pool[p].total >= 0
          /\ \A p \in Peers, a \in Addrs : NatRec(au[p][a])
          /\ \A a \in Addrs : stake[a] >= 0 /\ fee[a] >= 0 /\ ont[a] >= 0
          /\ ont["gov"] >= 0 /\ ong["gov"] >= 0 /\ splitFee >= 0

(* C11 *)
\* the governance contract's ONT balance = all recorded total stakes + penalty stakes
Backed == ont["gov"] = SumSet(Addrs, LAMBDA a : stake[a]) + SumSet(Peers, LAMBDA p : pen[p])
\* what an address may still take out (its buckets and the InitPos of its nodes) is exactly its recorded stake:
\* no address can withdraw more than it deposited (and Withdraw takes only from the unfrozen bucket)
OwnInit(a) == SumSet({p \in Peers : OwnerOf[p] = a /\ pool[p].st # NoneSt}, LAMBDA p : pool[p].init)
NoOverWithdraw == \A a \in Addrs : stake[a] = SumSet(Peers, LAMBDA p : BkSum(au[p][a])) + OwnInit(a)
\* a peer's TotalPos is the authorised pos that still counts for it
TotalPosOK == \A p \in Peers : pool[p].st \in {CandSt, ConsSt} =>
                 pool[p].total = SumSet(Addrs \ {OwnerOf[p]}, LAMBDA a : au[p][a].c + au[p][a].d + au[p][a].n)

(* C10 *)
\* everything credited and not yet withdrawn is covered by the contract's ONG balance (every credit is withdrawable)
Withdrawable == /\ splitFee = SumSet(Addrs, LAMBDA a : fee[a])
                /\ splitFee <= ong["gov"]
\* a commit can never be in the situation where the real code panics (division by zero, balance < splitFee)
\* or wraps (remainAmount := nodeAmount - sumAmount below zero), nor where the holders' shares exceed the whole
\* -- and, whatever the global parameters and the size of the peer pool are (pool below / equal to / above
\* CandidateFeeSplitNum, CandidateFeeSplitNum = K, any A / B / DappFee), what the settlement would hand out now
\* (node amounts + dapp share) is at most the income it splits
NoWrap == \A r \in {CommitRes} : ~r.anomaly /\ ~r.over /\ r.splitSum + r.dapp <= r.income
\* the same for the settlement that blackNode triggers on a consensus peer (checked in the thorough configuration)
NoWrapBlack == \A p \in Peers : pool[p].st = ConsSt => \A r \in {BlackRes(p)} : ~r.anomaly /\ ~r.over /\ r.splitSum + r.dapp <= r.income
\* an epoch settlement credits (nodes + holders + dapp) no more than the income it splits
SplitBounded == [][ (act'.name \in {"Commit", "Black"} /\ act'.ok) =>
                      /\ splitFee' - splitFee + (ong'["dapp"] - ong["dapp"]) <= ong["gov"] - splitFee
                      /\ \A a \in Addrs : fee'[a] >= fee[a] ]_vars
=============================================================================
