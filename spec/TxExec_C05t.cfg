SPECIFICATION Spec
CONSTANTS
  Payers <- PayersV
  GOV = "GOV"
  SINK = "SINK"
  Keys <- KeysV
  Vals <- Vals2V
  Prices <- PricesV
  Limits <- LimitsV
  MinGas = 2
  CodeGasOf <- CodeGasV
  Fees <- FeesV
  InitOng <- InitOngV
  ResetBeforeTx = TRUE
  MaxOps = 3
VIEW view
INVARIANTS TypeOK NonNeg Conserved
PROPERTIES FailedOnlyFee OnlyOwnWrites GasOnlyIfPriced
CHECK_DEADLOCK FALSE
