SPECIFICATION Spec
CONSTANTS
  AddrNegCountPanic = TRUE
  Level = 1
VIEW view
PROPERTIES NoPanic HeaderChecksOK
CHECK_DEADLOCK FALSE
