SPECIFICATION Spec
CONSTANTS
  AddrNegCountPanic = TRUE
  OfflineSigSkipped = FALSE
  Level = 0
  ExtraBases <- ExtraGen
VIEW view
PROPERTIES NoPanic
CHECK_DEADLOCK FALSE
