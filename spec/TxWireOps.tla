----------------------------- MODULE TxWireOps -----------------------------
(***************************************************************************)
(* Wire format of an Ontology transaction (property C19; reused by C20):   *)
(*   core/types/transaction.go   Deserialization / deserializeOntUnsigned  *)
(*                               / decodeEip155 / TransactionFromEIP155    *)
(*   core/types/mutable_transaction.go  serialize / serializeUnsigned      *)
(*   core/payload/invoke_code.go, deploy_code.go, eip155_code.go           *)
(* Decoders follow the code read by read on top of ZeroCopyOps; encoders   *)
(* are the field-by-field serializers.  A decoded transaction is a record  *)
(* of opaque byte-string fields.  The EIP-155 payload is an RLP list of 9  *)
(* strings decoded with go-ethereum's canonical-form rules; signature      *)
(* recovery (secp256k1) is uninterpreted: a structurally valid EIP-155     *)
(* transaction has verdict "sig" = accepted iff the sender recovers.       *)
(***************************************************************************)
EXTENDS Naturals, Sequences, FiniteSets, TLC, ZeroCopyOps

TDeploy == 208      \* 0xd0
TInvokeNeo == 209   \* 0xd1
TInvokeWasm == 210  \* 0xd2
TEip155 == 211      \* 0xd3
TX_MAX_SIG_SIZE == 16
ADDR_LEN == 20

Fail(e, o) == [ok |-> FALSE, err |-> e, end |-> o]

\* read a sequence of fields: k = 0 is a var-bytes field (NextVarBytes / NextString), k > 0 a fixed k-byte field;
\* every reader of a transaction rejects on eof and on an irregular length prefix
RECURSIVE ReadFields(_, _, _)
ReadFields(b, o, ks) ==
    IF ks = <<>> THEN [ok |-> TRUE, err |-> "", vals |-> <<>>, end |-> o]
    ELSE LET r == IF Head(ks) = 0 THEN RdVarBytes(b, o) ELSE RdFixed(b, o, Head(ks)) IN
         IF r.eof THEN Fail("eof", r.off)
         ELSE IF r.irr THEN Fail("irregular", r.off)
         ELSE LET rest == ReadFields(b, r.off, Tail(ks)) IN
              IF ~rest.ok THEN rest
              ELSE [ok |-> TRUE, err |-> "", vals |-> <<r.val>> \o rest.vals, end |-> rest.end]

RECURSIVE Concat(_)
Concat(ss) == IF ss = <<>> THEN <<>> ELSE Head(ss) \o Concat(Tail(ss))

\* ------------------------------------------------------------------ payloads
\* validateDeployCode: vm flags 0, 1 (NeoVM) or 3 (WASM); code <= 1 MiB (512 KiB for WASM); strings <= 252, description <= 65536
DeployValid(f) == /\ f[2][1] \in {0, 1, 3}
                  /\ Len(f[1]) <= (IF f[2][1] = 3 THEN 524288 ELSE 1048576)
                  /\ \A i \in 3..6 : Len(f[i]) <= 252
                  /\ Len(f[7]) <= 65536
\* payload record: kind + the byte-string fields in wire order
DecPayload(b, o, type) ==
    IF type \in {TInvokeNeo, TInvokeWasm}
    THEN LET r == ReadFields(b, o, <<0>>) IN
         IF ~r.ok THEN r ELSE [ok |-> TRUE, err |-> "", end |-> r.end, pl |-> [kind |-> "invoke", f |-> r.vals]]
    ELSE IF type = TDeploy
    THEN LET r == ReadFields(b, o, <<0, 1, 0, 0, 0, 0, 0>>) IN
         IF ~r.ok THEN r
         ELSE IF ~DeployValid(r.vals) THEN Fail("deploy-invalid", r.end)
         ELSE [ok |-> TRUE, err |-> "", end |-> r.end, pl |-> [kind |-> "deploy", f |-> r.vals]]
    ELSE Fail("type", o)      \* includes 0xd3 ("unreachable code path")
EncPayload(pl) == IF pl.kind = "invoke" THEN EncVarBytes(pl.f[1])
                  ELSE EncVarBytes(pl.f[1]) \o pl.f[2] \o Concat([i \in 1..5 |-> EncVarBytes(pl.f[i + 2])])

\* ------------------------------------------------------------------ Ontology transaction
\* deserializeOntUnsigned
DecOntUnsigned(b, o) ==
    LET h == ReadFields(b, o, <<1, 1, 4, 8, 8, ADDR_LEN>>) IN
    IF ~h.ok THEN (IF Len(b) > o /\ b[o + 1] # 0 THEN Fail("version", o + 1) ELSE h)
    ELSE IF h.vals[1][1] # 0 THEN Fail("version", o + 1)
    ELSE LET p == DecPayload(b, h.end, h.vals[2][1]) IN
         IF ~p.ok THEN p
         ELSE LET a == RdVarUint(b, p.end) IN
              IF a.irr THEN Fail("irregular", a.off)
              ELSE IF a.eof THEN Fail("eof", a.off)
              ELSE IF a.val # Zeros(8) THEN Fail("attributes", a.off)
              ELSE [ok |-> TRUE, err |-> "", end |-> a.off,
                    u |-> [type |-> h.vals[2][1], nonce |-> h.vals[3], gasPrice |-> h.vals[4], gasLimit |-> h.vals[5],
                           payer |-> h.vals[6], payload |-> p.pl]]
EncOntUnsigned(u) == <<0, u.type>> \o u.nonce \o u.gasPrice \o u.gasLimit \o u.payer \o EncPayload(u.payload) \o <<0>>

\* the signature list: count (<= 16), then (invoke, verify) var-bytes pairs
DecSigs(b, o) ==
    LET n == RdVarUint(b, o) IN
    IF n.irr THEN Fail("irregular", n.off)
    ELSE IF n.eof THEN Fail("eof", n.off)
    ELSE IF CountOf(n.val) > TX_MAX_SIG_SIZE THEN Fail("too-many-sigs", n.off)
    ELSE LET r == ReadFields(b, n.off, [i \in 1..(2 * CountOf(n.val)) |-> 0]) IN
         IF ~r.ok THEN r ELSE [ok |-> TRUE, err |-> "", end |-> r.end, sigs |-> r.vals]
EncSigs(sigs) == EncVarUint(LenAs8(Len(sigs) \div 2)) \o Concat([i \in 1..Len(sigs) |-> EncVarBytes(sigs[i])])

DecOnt(b, o, max) ==
    LET u == DecOntUnsigned(b, o) IN
    IF ~u.ok THEN u
    ELSE LET s == DecSigs(b, u.end) IN
         IF ~s.ok THEN s
         ELSE IF s.end - o > max THEN Fail("size", s.end)
         ELSE [ok |-> TRUE, err |-> "", end |-> s.end, verdict |-> "accept",
               tx |-> [kind |-> "ont", u |-> u.u, sigs |-> s.sigs],
               \* the hash is sha256(sha256(.)) of the unsigned bytes: the hash term is that byte string
               hashterm |-> Slice(b, o, u.end)]
EncOnt(tx) == EncOntUnsigned(tx.u) \o EncSigs(tx.sigs)

\* ------------------------------------------------------------------ RLP (go-ethereum rlp, canonical form only)
BE(n) == IF n < 256 THEN <<n>>
         ELSE IF n < 65536 THEN <<n \div 256, n % 256>>
         ELSE <<n \div 65536, (n \div 256) % 256, n % 256>>
BEVal(bs) == IF Len(bs) = 1 THEN bs[1] ELSE IF Len(bs) = 2 THEN 256 * bs[1] + bs[2] ELSE 65536 * bs[1] + 256 * bs[2] + bs[3]
RlpStr(bs) == IF Len(bs) = 1 /\ bs[1] < 128 THEN bs
              ELSE IF Len(bs) <= 55 THEN <<128 + Len(bs)>> \o bs
              ELSE LET l == BE(Len(bs)) IN <<183 + Len(l)>> \o l \o bs
RlpList(items) == LET p == Concat([i \in 1..Len(items) |-> RlpStr(items[i])]) IN
                  IF Len(p) <= 55 THEN <<192 + Len(p)>> \o p
                  ELSE LET l == BE(Len(p)) IN <<247 + Len(l)>> \o l \o p
\* header of the value starting at offset o of b (limit = end of the enclosing list / input)
RlpBad(e) == [ok |-> FALSE, err |-> e]
RlpLong(b, o, limit, ll, islist) ==
    IF o + 1 + ll > limit THEN RlpBad("rlp-eof")
    ELSE LET lb == Slice(b, o + 1, o + 1 + ll) IN
         IF lb[1] = 0 THEN RlpBad("rlp-noncanonical-size")
         ELSE IF ll > 3 THEN RlpBad("rlp-too-large")
         ELSE LET n == BEVal(lb) IN
              IF n < 56 THEN RlpBad("rlp-noncanonical-size")
              ELSE IF o + 1 + ll + n > limit THEN RlpBad("rlp-too-large")
              ELSE [ok |-> TRUE, err |-> "", list |-> islist, data |-> o + 1 + ll, len |-> n]
RlpHead(b, o, limit) ==
    IF o >= limit THEN RlpBad("rlp-eof")
    ELSE LET t == b[o + 1] IN
         IF t < 128 THEN [ok |-> TRUE, err |-> "", list |-> FALSE, data |-> o, len |-> 1]
         ELSE IF t < 184 THEN
              LET n == t - 128 IN
              IF o + 1 + n > limit THEN RlpBad("rlp-too-large")
              ELSE IF n = 1 /\ b[o + 2] < 128 THEN RlpBad("rlp-noncanonical-size")
              ELSE [ok |-> TRUE, err |-> "", list |-> FALSE, data |-> o + 1, len |-> n]
         ELSE IF t < 192 THEN RlpLong(b, o, limit, t - 183, FALSE)
         ELSE IF t < 248 THEN
              LET n == t - 192 IN
              IF o + 1 + n > limit THEN RlpBad("rlp-too-large")
              ELSE [ok |-> TRUE, err |-> "", list |-> TRUE, data |-> o + 1, len |-> n]
         ELSE RlpLong(b, o, limit, t - 247, TRUE)
\* the strings of a list body b[o..limit)
RECURSIVE RlpItems(_, _, _, _)
RlpItems(b, o, limit, k) ==
    IF o = limit THEN [ok |-> TRUE, err |-> "", items |-> <<>>]
    ELSE IF k = 0 THEN RlpBad("rlp-too-many-elements")
    ELSE LET h == RlpHead(b, o, limit) IN
         IF ~h.ok THEN h
         ELSE IF h.list THEN RlpBad("rlp-expected-string")
         ELSE LET rest == RlpItems(b, h.data + h.len, limit, k - 1) IN
              IF ~rest.ok THEN rest
              ELSE [ok |-> TRUE, err |-> "", items |-> <<Slice(b, h.data, h.data + h.len)>> \o rest.items]
\* legacy Ethereum transaction: list of nonce, gasPrice, gas, to, value, data, v, r, s
NoLeadZero(s) == s = <<>> \/ s[1] # 0
DecRlpTx(code) ==
    LET h == RlpHead(code, 0, Len(code)) IN
    IF ~h.ok THEN h
    ELSE IF ~h.list THEN RlpBad("rlp-expected-list")
    ELSE IF h.data + h.len # Len(code) THEN RlpBad("rlp-more-than-one-value")
    ELSE LET r == RlpItems(code, h.data, h.data + h.len, 9) IN
         IF ~r.ok THEN r
         ELSE IF Len(r.items) < 9 THEN RlpBad("rlp-too-few-elements")
         ELSE LET it == r.items IN
              IF \E i \in {1, 2, 3, 5, 7, 8, 9} : ~NoLeadZero(it[i]) THEN RlpBad("rlp-noncanonical-integer")
              ELSE IF Len(it[1]) > 8 \/ Len(it[3]) > 8 THEN RlpBad("rlp-uint64-overflow")
              ELSE IF Len(it[4]) \notin {0, 20} THEN RlpBad("rlp-address-length")
              ELSE [ok |-> TRUE, err |-> "", items |-> it]

\* division of a big-endian digit string by a small constant (gasPrice must be a multiple of 10^9 = 1000^3)
RECURSIVE DivBE(_, _, _)
DivBE(ds, c, rem) == IF ds = <<>> THEN [q |-> <<>>, r |-> rem]
                     ELSE LET cur == rem * 256 + ds[1]
                              rest == DivBE(Tail(ds), c, cur % c)
                          IN [q |-> <<cur \div c>> \o rest.q, r |-> rest.r]
MultipleOf1e9(ds) == LET a == DivBE(ds, 1000, 0) b == DivBE(a.q, 1000, 0) c == DivBE(b.q, 1000, 0) IN a.r = 0 /\ b.r = 0 /\ c.r = 0

\* decodeEip155 + EIP155Code.Deserialization + TransactionFromEIP155 (up to signature recovery)
DecEip(b, o, max) ==
    IF b[o + 1] # 0 THEN Fail("version", o + 1)
    ELSE LET c == WrapIE(RdVarBytes(b, o + 2), <<>>) IN
         IF c.err # "ok" THEN Fail(c.err, c.off)
         ELSE LET r == DecRlpTx(c.val) IN
              IF ~r.ok THEN Fail(r.err, c.off)
              ELSE IF Len(r.items[1]) > 4 \/ Len(r.items[2]) > 8 THEN Fail("nonce-or-gasprice-too-big", c.off)
              ELSE IF ~MultipleOf1e9(r.items[2]) THEN Fail("gasprice-not-gwei", c.off)
              ELSE IF c.off - o > max THEN Fail("size", c.off)
              ELSE [ok |-> TRUE, err |-> "", end |-> c.off, verdict |-> "sig",
                    tx |-> [kind |-> "eip", items |-> r.items],
                    \* Ethereum transaction hash = keccak of the RLP including v, r, s (named deviation from the C19
                    \* statement "signatures do not change the hash": EipHashCoversSignature)
                    hashterm |-> c.val]
EncEip(tx) == <<0, TEip155>> \o EncVarBytes(RlpList(tx.items))

\* Transaction.Deserialization: the EIP-155 test looks at the second byte only
IsEip(b, o) == o + 2 <= Len(b) /\ b[o + 2] = TEip155
DecTx(b, o, max) == IF IsEip(b, o) THEN DecEip(b, o, max) ELSE DecOnt(b, o, max)
EncTx(tx) == IF tx.kind = "eip" THEN EncEip(tx) ELSE EncOnt(tx)
\* TransactionFromRawBytes
FromRaw(raw, max) == IF Len(raw) > max THEN Fail("size", 0) ELSE DecTx(raw, 0, max)
=============================================================================
