---------------------------- MODULE LedgerCommit_MC ----------------------------
EXTENDS LedgerCommit, Json
Edge == PrintT(<<"EDGE", ToJson([from |-> State, act |-> act', to |-> State'])>>)
InitOut == (TLCGet("level") = 1) => PrintT(<<"INIT", ToJson(State)>>)
=============================================================================
