-------------------------- MODULE ChainConfig_Hash --------------------------
(* Placeholder for the shuffle-hash tables.  props/_chaincfg.py REPLACES this module at run   *)
(* time by one generated from the real shuffle_hash (consensus/vbft/config/genesis.go)        *)
(* evaluated by the Go harness for the model's key universe: t[key][i] =                      *)
(* shuffle_hash(txhash, height, pubkey(key), i) % i.  The synthetic tables below only make    *)
(* the specification runnable on its own.                                                     *)
EXTENDS Integers
RealHashes == { [id |-> s, t |-> [k \in 1..10 |-> [i \in 1..64 |-> (k * (6 + s) + i * 3 + s) % i]]] : s \in 1..2 }
=============================================================================
