\* generated by props/_handshake.py (table CFGS) -- do not edit by hand
SPECIFICATION LiveSpec
CONSTANTS
  Nodes = {"A", "B", "O"}
  Conns = {"c1", "c2", "a1"}
  Cl <- ClM
  Sv <- SvM
  Eph <- EphM
  Info <- InfoM
  Pseudo <- PseudoM
  MagicOf <- MagicM
  IpOf <- IpM
  Addr <- AddrM
  Scenarios <- ScLiveSim
  FaultKinds <- FaultsAll
  MaxFaults = 2
  Closes = FALSE
  CheckVersion = FALSE
  MinVer = 1
  LsnCounted = FALSE
CHECK_DEADLOCK FALSE
INVARIANTS TypeOK
PROPERTIES Live
