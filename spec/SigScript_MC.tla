---------------------------- MODULE SigScript_MC ----------------------------
EXTENDS SigScript, Json

\* all orderings of all non-empty subsets of 1..4
RECURSIVE PermsOf(_)
PermsOf(S) == IF S = {} THEN {<<>>} ELSE UNION {{<<x>> \o p : p \in PermsOf(S \ {x})} : x \in S}
Lists4 == UNION {PermsOf(S) : S \in (SUBSET (1..4)) \ {{}}}
\* boundary sizes 15, 16, 17: ascending, descending and a rotation
Asc(n) == [i \in 1..n |-> i]
Desc(n) == [i \in 1..n |-> n + 1 - i]
Rot(n) == [i \in 1..n |-> ((i + 6) % n) + 1]
ListsB == UNION {{Asc(n), Desc(n), Rot(n)} : n \in {15, 16, 17}}
ListsQ == Lists4 \cup ListsB
Thr == {0, 1, 2, 3, 4, 5, 15, 16, 17, 18}
AgainL == {<<2, 1>>, <<1, 3, 4>>, Asc(16)}
AgainT == {1, 2}

AlphaQ == {Num(0), Num(1), Num(2), Num(3), NumTok(2, "b1"), CanonKey(1), CanonKey(2), KeyTok(1, "bad", "direct"),
           JunkTok, OpTok("CHECKSIG"), OpTok("CHECKMULTISIG"), OpTok("NOP")}

TokT(t) == <<t.t, t.v, t.enc, t.push>>
ScriptT(s) == [i \in DOMAIN s |-> TokT(s[i])]
\* declared shape of a script  num(m) push* num(n) CHECKMULTISIG  (for the oracle: invalid declared parameters)
Shape(s) == IF Len(s) >= 3 /\ s[1].t = "num" /\ s[Len(s)].enc = "CHECKMULTISIG" /\ s[Len(s) - 1].t = "num"
            THEN <<s[1].v, s[Len(s) - 1].v, Len(s) - 3>> ELSE <<>>
Row ==
    IF act'.name = "GetProgramInfo"
    THEN <<"P", origin, keys, m, ScriptT(script), parsed'.ok, KeyVals(parsed'.keys), parsed'.m, Shape(script)>>
    ELSE IF act'.name \in {"ProgramFromPubKey", "ProgramFromMultiPubKey"}
    THEN <<"B", keys', m', origin' = "built", ScriptT(script')>>
    ELSE <<"-">>
Edge == (act'.name \in {"GetProgramInfo", "ProgramFromPubKey", "ProgramFromMultiPubKey"}) => PrintT(<<"ROW", ToJson(Row)>>)
=============================================================================
