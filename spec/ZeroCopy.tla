------------------------------ MODULE ZeroCopy ------------------------------
(***************************************************************************)
(* The primitive binary codec of ontio/ontology (property C18):            *)
(*   common/zero_copy_source.go  ZeroCopySource  (reader (buf, off))       *)
(*   common/zero_copy_sink.go    ZeroCopySink    (append-only writer)      *)
(*   common/serialization        legacy io.Reader codec (same wire format, *)
(*                               named deviation: no minimal-length check) *)
(* One operator per Next*/Read*/Write* call, returning the result tuple    *)
(* exactly as coded (value, size, irregular, eof, new offset, error).      *)
(* Bytes are naturals 0..255; multi-byte integers stay little-endian byte  *)
(* tuples (TLC integers are 32 bit), so `value' of NextVarUint is the      *)
(* 8-byte little-endian tuple of the uint64.                               *)
(* The module is also the primitive layer of TxWire / BlockWire / Num.     *)
(***************************************************************************)
EXTENDS Naturals, Sequences, FiniteSets, TLC, ZeroCopyOps

CONSTANTS Bufs,      \* set of initial buffers (reader configuration)
          NArgs,     \* set of byte counts offered to NextBytes / Skip (HUGE allowed)
          BackArgs,  \* set of byte counts offered to BackUp (only n <= off is enabled: the API contract)
          Items,     \* set of [t |-> type, v |-> value bytes] offered to the sink (writer configuration)
          Acts,      \* names of the enabled actions
          MaxCalls,  \* bound on the number of calls of a behaviour
          MaxWrites, \* bound on the number of items held by the sink
          Spares     \* set of stale contents of the spare capacity a sink may be created over (NewZeroCopySink(buf[:0]))

VARIABLES buf,     \* reader: the byte string
          off,     \* reader: current offset (uint64 in the code; always <= Len(buf) here)
          sink,    \* writer: bytes written so far (the slice buf[:len])
          spare,   \* writer: stale content of the spare capacity behind the live bytes (buf[len:cap]): what a reused
                   \* sink (after Reset / BackUp, or created over a dirty buffer) writes onto
          items,   \* writer: the values written so far (ghost)
          res,     \* result tuple of the last call (history; not in the VIEW)
          act,     \* last call with arguments (history; not in the VIEW)
          ncalls   \* number of calls (bound; not in the VIEW)

vars == <<buf, off, sink, spare, items, res, act, ncalls>>
view == <<buf, off, sink, spare, items>>

\* ------------------------------------------------------------------ state machine
\* a behaviour exercises a reader over some buffer, or a sink created over (possibly dirty) spare capacity
Init == /\ off = 0
        /\ \/ buf \in Bufs /\ spare = <<>>
           \/ buf = <<>> /\ spare \in Spares
        /\ sink = <<>> /\ items = <<>>
        /\ res = NoRes /\ act = [name |-> "Init", n |-> 0] /\ ncalls = 0

Step == ncalls < MaxCalls /\ ncalls' = ncalls + 1

\* reader and writer are separate objects: a behaviour exercises one of them (writes start from the empty reader)
Read(name, n) == /\ Step /\ name \in Acts /\ items = <<>> /\ spare = <<>>
                 /\ LET r == ReadOp(name, n, buf, off) IN res' = r /\ off' = r.off
                 /\ act' = [name |-> name, n |-> n]
                 /\ UNCHANGED <<buf, sink, spare, items>>

\* BackUp(n): off -= n.  Contract of the API (its comment): only bytes returned by earlier calls are backed up,
\* i.e. n <= off; the spec does not offer the call outside its contract.
BackUp(n) == /\ Step /\ "BackUp" \in Acts /\ n <= off /\ items = <<>> /\ spare = <<>>
             /\ off' = off - n /\ res' = Res(<<>>, 0, FALSE, FALSE, off - n, "")
             /\ act' = [name |-> "BackUp", n |-> n]
             /\ UNCHANGED <<buf, sink, spare, items>>

\* Write<t>(v): every Write call reserves its bytes with NextBytes and assigns ALL of them, so the bytes appended do
\* not depend on the stale content they land on; the stale bytes overwritten leave the spare capacity (a sink that
\* has to grow gets a fresh zeroed buffer: nothing stale is left)
Drop(s, n) == IF n >= Len(s) THEN <<>> ELSE SubSeq(s, n + 1, Len(s))
\* spare capacity after reserving `reserve' bytes and keeping `used' of them (WriteVarUint reserves 9 and backs up)
After(sp, reserve, used) == IF reserve > Len(sp) THEN <<>> ELSE Drop(sp, used)
SpareAfter(sp, t, v) == IF t = "VarUint" THEN After(sp, 9, Len(EncVarUint(v)))
                        ELSE IF t \in {"VarBytes", "String"} THEN After(After(sp, 9, Len(EncVarUint(LenAs8(Len(v))))), Len(v), Len(v))
                        ELSE After(sp, Len(WriteOf(t, v)), Len(WriteOf(t, v)))
Write(it) == /\ Step /\ "Write" \in Acts /\ buf = <<>> /\ off = 0 /\ Len(items) < MaxWrites
             /\ sink' = sink \o WriteOf(it.t, it.v)
             /\ spare' = SpareAfter(spare, it.t, it.v)
             /\ items' = Append(items, it)
             /\ res' = Res(<<>>, WriteSizeOf(it.t, it.v), FALSE, FALSE, 0, "")
             /\ act' = [name |-> "Write", n |-> 0, t |-> it.t, v |-> it.v]
             /\ UNCHANGED <<buf, off>>

\* ZeroCopySink.Reset(): the slice is cut to length 0, the old bytes stay behind as stale spare capacity
SinkReset == /\ Step /\ "Write" \in Acts /\ items # <<>>
             /\ sink' = <<>> /\ spare' = sink \o spare /\ items' = <<>>
             /\ res' = NoRes /\ act' = [name |-> "SinkReset", n |-> 0]
             /\ UNCHANGED <<buf, off>>

\* ZeroCopySink.BackUp(n) for the n bytes of the last written item (the only use the sink's callers make of it)
SinkBackUp == /\ Step /\ "Write" \in Acts /\ items # <<>>
              /\ LET last == items[Len(items)]
                     n == Len(WriteOf(last.t, last.v))
                 IN /\ sink' = SubSeq(sink, 1, Len(sink) - n)
                    /\ spare' = SubSeq(sink, Len(sink) - n + 1, Len(sink)) \o spare
                    /\ act' = [name |-> "SinkBackUp", n |-> n]
              /\ items' = SubSeq(items, 1, Len(items) - 1)
              /\ res' = NoRes
              /\ UNCHANGED <<buf, off>>

Next == \/ \E name \in NullaryOps : Read(name, 0)
        \/ \E name \in CountOps : \E n \in NArgs : Read(name, n)
        \/ \E n \in BackArgs : BackUp(n)
        \/ \E it \in Items : Write(it)
        \/ SinkReset \/ SinkBackUp

Spec == Init /\ [][Next]_vars

\* ------------------------------------------------------------------ properties (C18)
IsByteSeq(s) == \A i \in 1..Len(s) : s[i] \in 0..255
\* never reads out of bounds; every call has a defined outcome (totality = TLC evaluates every enabled call)
TypeOK == /\ off \in 0..Len(buf) /\ IsByteSeq(sink) /\ IsByteSeq(spare)

\* the bytes consumed by the last read
Consumed == Slice(buf, off, off')
\* "every variable-length integer that is not minimally encoded is reported as irregular" and nothing else is:
\* a complete read is irregular iff re-encoding the value differs from the consumed bytes
CanonicalStep ==
    /\ (act'.name = "NextVarUint" /\ ~res'.eof) => (res'.irr <=> EncVarUint(res'.val) # Consumed)
    /\ (act'.name \in {"NextVarBytes", "NextString"} /\ ~res'.eof) => (res'.irr <=> EncVarBytes(res'.val) # Consumed)
    /\ (act'.name = "NextBool" /\ ~res'.eof) => (res'.irr <=> EncBool(res'.val) # Consumed)
    /\ (act'.name \in {"ReadVarBytes", "ReadString"} /\ res'.err = "ok") => EncVarBytes(res'.val) = Consumed
    /\ (act'.name = "ReadVarUint" /\ res'.err = "ok") => EncVarUint(res'.val) = Consumed
\* a read either yields a value taken from inside the buffer or an end-of-data indication, and eof is reported
\* exactly when the buffer is too short for the announced length
EofStep == (act'.name \in NullaryOps \cup CountOps) =>
              /\ off' >= off /\ off' <= Len(buf)
              /\ res'.eof => off' = Len(buf)
Canonical == [][CanonicalStep]_vars
EofOK == [][EofStep]_vars

\* round trip: reading the written item types back from the sink returns the written values and ends at the end
RECURSIVE ReadBack(_, _, _)
ReadBack(b, o, its) ==
    IF its = <<>> THEN o = Len(b)
    ELSE LET it == its[1]
             r == ReadOp(ReaderOf(it.t), Len(it.v), b, o)
         IN ~r.eof /\ ~r.irr /\ r.val = it.v /\ ReadBack(b, r.off, Tail(its))
RoundTrip == ReadBack(sink, 0, items)

\* exported projection (determines the VIEW)
State == [buf |-> buf, off |-> off, sink |-> sink, spare |-> spare, items |-> items]
=============================================================================
